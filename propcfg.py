"""Per-property configuration of ./check: Lean modules holding the property theorems, the generated model
files they depend on (a relevant item that stops translating sends the check to the golden fallback),
and the correspondence campaigns (name, quick size, thorough size)."""

PROPS = {
    "C02": dict(
        modules=["PP.Props.C02"],
        model_files=["Piecewise/Evaluate"],
        campaigns=[("pweval", 24000, 1200000), ("softfloat", 8000, 400000)],
        trusted=["hand model Hand.selSeg / Hand.pwEvaluate of <Piecewise<T> as Evaluate>::evaluate (tied by campaign pweval)"],
        assumptions=["Rust's f64 comparisons are IEEE-754 (false on NaN)"],
        level_text="Theorems (any number type with IEEE order laws, any piece type, every segment list, every x incl. NaN/inf): the model's selection equals `first end > x, else last`; corollaries for -inf/+inf/breakpoints/half-open intervals. The model is tied to Piecewise::evaluate by a bit-exact differential campaign and an independent spec monitor on the implementation's output.",
        level_note="Trusted: Lean kernel; hand model of the 10-line position()/last() code tied only by differential testing (generator coverage); rustc's f64 comparison = IEEE.",
        explanation="theorems: selection = first end > x else last, for every list and every x; campaign pweval compares Hand.pwEvaluate with the real evaluate bit for bit (index-revealing Poly0 pieces and value-path pieces) and checks the spec monitor on the implementation's own output",
    ),
}
