"""Per-property configuration of ./check: Lean modules holding the property theorems, the generated model
files they depend on (a relevant item that stops translating sends the check to the golden fallback),
and the correspondence campaigns (name, quick size, thorough size)."""

PROPS = {
    "C01": dict(
        modules=["PP.Props.C01"],
        model_files=["Poly/Evaluate", "LogPoly/Evaluate"],
        campaigns=[("eval", 24000, 1500000), ("eval-log", 8000, 400000), ("softfloat", 8000, 400000)],
        trusted=["hand model Hand.polyNEvaluate of PolyN::evaluate (tied by campaign eval)",
                 "libm ln is a parameter: the Log statement is `value of the polynomial at ln v`, accuracy of ln itself is assumed (1 ulp)"],
        assumptions=["no overflow/underflow of partial terms (the property's quantifier; the monitor checks the premise)"],
        level_text="Theorems over an arbitrary field: each of the nine generated evaluation schemes equals sum c_i x^i (ring; scheme-independent), PolyN of any length equals sum c_i x^i by induction (empty = 0), Log<T>::evaluate is T::evaluate at ln v in every interpretation. The generated model is regenerated from poly.rs/log_poly.rs on every run and executed bit-exactly against the real code; the monitor checks the 4(n+2)u bound and exactness on representable cases on the implementation's output in exact rational arithmetic.",
        level_note="The closed-form rounding bound is enforced by the exact-arithmetic monitor on sampled inputs (search support) and proved generically in PP/Props/C01Bound.lean once listed in modules; libm ln accuracy is assumed.",
        explanation="exact identities by ring; bound by monitor; see DESIGN.md C01",
    ),
    "C02": dict(
        modules=["PP.Props.C02"],
        model_files=["Piecewise/Evaluate"],
        campaigns=[("pweval", 24000, 1200000), ("softfloat", 8000, 400000)],
        trusted=["hand model Hand.selSeg / Hand.pwEvaluate of <Piecewise<T> as Evaluate>::evaluate (tied by campaign pweval)"],
        assumptions=["Rust's f64 comparisons are IEEE-754 (false on NaN)"],
        level_text="Theorems (any number type with IEEE order laws, any piece type, every segment list, every x incl. NaN/inf): the model's selection equals `first end > x, else last`; corollaries for -inf/+inf/breakpoints/half-open intervals. The model is tied to Piecewise::evaluate by a bit-exact differential campaign and an independent spec monitor on the implementation's output.",
        level_note="Trusted: Lean kernel; hand model of the 10-line position()/last() code tied only by differential testing (generator coverage); rustc's f64 comparison = IEEE.",
        explanation="theorems: selection = first end > x else last, for every list and every x; campaign pweval compares Hand.pwEvaluate with the real evaluate bit for bit (index-revealing Poly0 pieces and value-path pieces) and checks the spec monitor on the implementation's own output",
    ),
}
