#!/usr/bin/env python3
"""rewrites the block between the markers <!-- R34 --> ... <!-- /R34 --> (or the placeholder ROUND34_TABLES) of DESIGN.md
with the seed tables of rounds 3, 4, the second audit and the refactoring rounds, from /verif/seeded/*/meta.json"""
import subprocess, re
def tbl(*prefixes):
    return subprocess.run(["python3", "/verif/tools/seed_table.py", *prefixes], capture_output=True, text=True).stdout
block = ("<!-- R34 -->\nRound-3 seeds (final machinery):\n\n" + tbl("R3-") + "\nRound-4 seeds:\n\n" + tbl("R4-") +
         "\nSeeds from the second gap audit (violations):\n\n" + tbl("GA2-") +
         "\nRefactorings, all three rounds (expected: pass; `SAFE-8` see its note in §12.6):\n\n" + tbl("SAFE") + "<!-- /R34 -->")
s = open("/verif/DESIGN.md").read()
if "<!-- R34 -->" in s:
    s = re.sub(r"<!-- R34 -->.*?<!-- /R34 -->", lambda m: block, s, flags=re.S)
else:
    s = s.replace("ROUND34_TABLES", block)
open("/verif/DESIGN.md", "w").write(s)
