#!/usr/bin/env python3
import sys
out = sys.argv[1]
DEGS = [int(a) for a in sys.argv[2:]] if len(sys.argv) > 2 else list(range(8))
def c(n, i, p='p'):
    return f"{p}._0" if n == 0 else f"{p}._0.a{i}"

HEADER = r'''import PP.Sem.Pair64
import PP.Props.C07Bound
/-!
# C07 (4) at the bit-exact soft-float `F64` — "differentiating the result returns p coefficient-wise …"

`PP/Props/C07Bound.lean` (4) is a statement about every rounding model.  Here it is transferred to the bit-exact
binary64 soft-float `F64` (`PP/Lemmas/F64Ops.lean`) by running the *generated* `derivative ∘ indefinite` at the
paired interpretation `P64` (`PP/Sem/Pair64.lean`: an `F64` run paired with the `Rounded M64` run, `M64` = binary64
round-to-nearest-even with unbounded exponent, `u = 2⁻⁵³`).

For each degree n = 0..7 and `p : Poly⟨n⟩ F64` (`Poly⟨n⟩.derivIndefF64 ln exp p` = the generated code run at `F64`):
* `poly⟨n⟩_derivIndef_x`, `poly⟨n⟩_derivIndef_r` : the `.x` / `.r` projections of the paired run are the `F64` run and
  the `Rounded M64` run on the values (by `rfl`);
* `poly⟨n⟩_derivative_indefinite_f64` : coefficient 0 is returned **bit for bit** (`= p._0.a0`, no arithmetic), and for
  i ≥ 1, under the explicit side condition `LaneOk64 cᵢ (i+1)`
  (`cᵢ` finite and canonical, `cᵢ/(i+1)` and `(i+1)·rnd64(cᵢ/(i+1))` neither underflow nor overflow — `InRange`),
  the computed coefficient is finite, canonical and
  `|value − val cᵢ| ≤ (2·2⁻⁵³ + 2⁻¹⁰⁶)·|val cᵢ|`.
  The literals `2.0 … 8.0` are exact at `F64` (`rnd64_int`), which is used to state the side condition with `i+1`.

NOT proved: the sharper bit-level fact that the result is within ONE ulp of `cᵢ` (true in binary64 by monotonicity of
rounding — `(i+1)·rnd(cᵢ/(i+1))` lies strictly within one ulp of the representable `cᵢ` — and exact for the divisors
2, 4, 8; the `(2u+u²)` bound allows up to 2 ulp at the top of a binade): the library has no ulp / monotonicity
lemmas for `rnd64`.
-/
set_option linter.unusedSectionVars false
set_option linter.unusedVariables false
namespace PP.Props.C07BoundF64
open F64 (InRange rnd64)
open PP.Props.C07Bound

/-- finite and canonical -/
def FC (a : F64) : Prop := a.Finite ∧ a.Canon

/-- the side condition for one coefficient `c` and the divisor `j`: no underflow / overflow in `c / j` and in
`j · rnd64 (c / j)` -/
def LaneOk64 (c : F64) (j : ℤ) : Prop :=
  FC c ∧ InRange (c.val / j) ∧ InRange (j * rnd64 (c.val / j))

theorem lit_val (n : ℤ) : ((n : ℤ) : ℚ) * (10:ℚ) ^ (0:ℤ) = n := by simp

/-- the accumulated `ok` of `ofDec j 0 * (c / ofDec j 0)` at `P64` follows from `LaneOk64 c j` -/
theorem lane_ok (c : F64) (j : ℤ) (hj0 : j ≠ 0) (hj : j.natAbs ≤ 2 ^ 53) (h : LaneOk64 c j) :
    InRange (((j : ℤ) : ℚ) * (10:ℚ) ^ (0:ℤ))
      ∧ ((c.Finite ∧ c.Canon) ∧ InRange (((j : ℤ) : ℚ) * (10:ℚ) ^ (0:ℤ))
          ∧ rnd64 (((j : ℤ) : ℚ) * (10:ℚ) ^ (0:ℤ)) ≠ 0
          ∧ InRange (c.val / rnd64 (((j : ℤ) : ℚ) * (10:ℚ) ^ (0:ℤ))))
      ∧ InRange (rnd64 (((j : ℤ) : ℚ) * (10:ℚ) ^ (0:ℤ)) * rnd64 (c.val / rnd64 (((j : ℤ) : ℚ) * (10:ℚ) ^ (0:ℤ)))) := by
  have hr : rnd64 (((j : ℤ) : ℚ) * (10:ℚ) ^ (0:ℤ)) = j := by rw [lit_val]; exact F64.rnd64_int j hj
  have hi : InRange (((j : ℤ) : ℚ) * (10:ℚ) ^ (0:ℤ)) := by rw [lit_val]; exact F64.inRange_int j hj
  rw [hr]
  exact ⟨hi, ⟨h.1, hi, by exact_mod_cast hj0, h.2.1⟩, h.2.2⟩

section runs
variable (ln exp : F64 → F64) [Transc ℚ]

/-! (GENERATED blocks: identical up to the degree.) -/
'''

def block(n):
    m = n+1
    s = f"/-! ### degree {n} -/\n\n"
    s += f'''/-- the generated `derivative (indefinite p)` run at the bit-exact soft-float -/
@[reducible] def _root_.Poly{n}.derivIndefF64 (p : Poly{n} F64) : Poly{n} F64 :=
  @inst_HasDerivative_Poly{m}.derivative F64 (F64.inst ln exp)
    (@inst_HasIntegral_Poly{n}.indefinite F64 (F64.inst ln exp) p)

/-- … at the paired interpretation, on the injected coefficients -/
@[reducible] noncomputable def _root_.Poly{n}.derivIndefP64 (p : Poly{n} F64) : Poly{n} P64 :=
  @inst_HasDerivative_Poly{m}.derivative P64 (P64.inst ln exp)
    (@inst_HasIntegral_Poly{n}.indefinite P64 (P64.inst ln exp) (p.mapF P64.inp))

/-- `.x` is the run at `F64` -/
theorem poly{n}_derivIndef_x (p : Poly{n} F64) : (p.derivIndefP64 ln exp).mapF P64.x = p.derivIndefF64 ln exp := rfl

/-- `.r` is the run at `Rounded M64` on the values -/
theorem poly{n}_derivIndef_r (p : Poly{n} F64) :
    (p.derivIndefP64 ln exp).mapF P64.r = (p.mapF F64.val).derivIndefRounded M64 := rfl

'''
    if n == 0:
        s += f'''/-- degree 0: `derivative (indefinite p)` is `p`, bit for bit -/
theorem poly0_derivative_indefinite_f64 (p : Poly0 F64) : p.derivIndefF64 ln exp = p := rfl

'''
        return s
    conj = [f"(p.derivIndefF64 ln exp)._0.a0 = {c(n,0)}"]
    prf = ["rfl"]
    for i in range(1, n+1):
        d = f"(p.derivIndefF64 ln exp)._0.a{i}"
        conj.append(f"(LaneOk64 ({c(n,i)}) {i+1} → {d}.Finite ∧ {d}.Canon\n        ∧ |{d}.val - ({c(n,i)}).val| ≤ (2 * (2:ℚ) ^ (-53 : ℤ) + ((2:ℚ) ^ (-53 : ℤ)) ^ 2) * |({c(n,i)}).val|)")
        prf.append(f'''fun h => by
      obtain ⟨hf, hc, hv⟩ := ((p.derivIndefP64 ln exp)._0.a{i}).transfer (lane_ok _ {i+1} (by decide) (by decide) h)
      refine ⟨hf, hc, ?_⟩
      have hb := (poly{n}_derivative_indefinite_rounding M64 (p.mapF F64.val)){'.2'*(i-1)}{'.2.1' if i < n else '.2'}
      rw [show ((p.derivIndefF64 ln exp)._0.a{i}).val = ((p.mapF F64.val).derivIndefRounded M64)._0.a{i} from hv]
      exact hb''')
    s += f'''/-- **(4) at `F64`**: coefficient 0 bit for bit; coefficient i ≥ 1 finite, canonical and within
`(2·2⁻⁵³ + 2⁻¹⁰⁶)·|cᵢ|`, under the explicit no-underflow / no-overflow condition `LaneOk64 cᵢ (i+1)` -/
theorem poly{n}_derivative_indefinite_f64 (p : Poly{n} F64) :
    {(chr(10)+"      ∧ ").join(conj)} :=
  ⟨{(","+chr(10)+"    ").join(prf)}⟩

'''
    return s

EXAMPLES = r'''end runs

/-! ## non-vacuity -/
section examples
noncomputable local instance : Transc ℚ := ⟨fun x => x, fun x => x⟩

theorem fc_int (n : ℤ) (hn : n.natAbs ≤ 2 ^ 53) : FC (F64.ofDec n 0) :=
  ⟨(F64.val_ofDec_int n hn).1, (F64.val_ofDec_int n hn).2.1⟩
theorem val_int (n : ℤ) (hn : n.natAbs ≤ 2 ^ 53) : (F64.ofDec n 0).val = n := (F64.val_ofDec_int n hn).2.2

/-- a rational of magnitude in `[2⁻¹⁰, 2¹⁰]` is in range -/
theorem inRange_mid {r : ℚ} (h1 : (2:ℚ) ^ (-10 : ℤ) ≤ |r|) (h2 : |r| ≤ 2 ^ 10) : InRange r := by
  rcases le_total 1 |r| with h | h
  · exact F64.inRange_of_one_le h (h2.trans (by norm_num))
  · right
    refine ⟨le_trans (zpow_le_zpow_right₀ (by norm_num) (by norm_num)) h1, lt_of_le_of_lt h ?_⟩
    have := (F64.inRange_of_one_le (r := 1) (by norm_num) (by norm_num)).resolve_left (by norm_num)
    simpa using this.2

/-- an exact case: `c = 4`, divisor 2 -/
theorem ex_lane_exact : LaneOk64 (F64.ofDec 4 0) 2 := by
  refine ⟨fc_int 4 (by decide), ?_, ?_⟩
  · rw [val_int 4 (by decide)]; exact inRange_mid (by norm_num) (by norm_num)
  · rw [val_int 4 (by decide)]
    have : rnd64 (((4:ℤ):ℚ) / ((2:ℤ):ℚ)) = 2 := by
      have := F64.rnd64_int 2 (by decide)
      norm_num at this ⊢; exact this
    rw [this]; exact inRange_mid (by norm_num) (by norm_num)

/-- an inexact case: `c = 1`, divisor 3 (`1/3` is not a binary64) -/
theorem ex_lane_third : LaneOk64 (F64.ofDec 1 0) 3 := by
  refine ⟨fc_int 1 (by decide), ?_, ?_⟩
  · rw [val_int 1 (by decide)]; exact inRange_mid (by norm_num) (by norm_num)
  · rw [val_int 1 (by decide)]
    have h := M64.h (((1:ℤ):ℚ) / ((3:ℤ):ℚ))
    have hu : M64.u = (2:ℚ) ^ (-53 : ℤ) := rfl
    rw [hu] at h
    have h' := abs_le.1 h
    set t := M64.rnd (((1:ℤ):ℚ) / ((3:ℤ):ℚ)) with ht
    have habs : |((1:ℤ):ℚ) / ((3:ℤ):ℚ)| = 1 / 3 := by norm_num
    rw [habs] at h'
    have h1 : (1:ℚ) / 4 ≤ t := by norm_num at h' ⊢; linarith [h'.1]
    have h2 : t ≤ 1 / 2 := by norm_num at h' ⊢; linarith [h'.2]
    show InRange (((3:ℤ):ℚ) * t)
    refine inRange_mid ?_ ?_
    · rw [abs_of_nonneg (by push_cast; linarith)]; push_cast; norm_num; linarith
    · rw [abs_of_nonneg (by push_cast; linarith)]; push_cast; norm_num; linarith

/-- `∫ (7 + 4x + x²)` differentiated back, at `F64`: coefficient 0 bit for bit, coefficient 1 (divisor 2) and
coefficient 2 (divisor 3, inexact quotient) within `(2·2⁻⁵³ + 2⁻¹⁰⁶)` relative -/
example (ln exp : F64 → F64) :
    let p : Poly2 F64 := ⟨⟨F64.ofDec 7 0, F64.ofDec 4 0, F64.ofDec 1 0⟩⟩
    (p.derivIndefF64 ln exp)._0.a0 = F64.ofDec 7 0
      ∧ |((p.derivIndefF64 ln exp)._0.a1).val - (F64.ofDec 4 0).val|
          ≤ (2 * (2:ℚ) ^ (-53 : ℤ) + ((2:ℚ) ^ (-53 : ℤ)) ^ 2) * |(F64.ofDec 4 0).val|
      ∧ |((p.derivIndefF64 ln exp)._0.a2).val - (F64.ofDec 1 0).val|
          ≤ (2 * (2:ℚ) ^ (-53 : ℤ) + ((2:ℚ) ^ (-53 : ℤ)) ^ 2) * |(F64.ofDec 1 0).val| := by
  intro p
  obtain ⟨h0, h1, h2⟩ := poly2_derivative_indefinite_f64 ln exp p
  exact ⟨h0, (h1 ex_lane_exact).2.2, (h2 ex_lane_third).2.2⟩

end examples

'''
with open(out, 'w') as f:
    f.write(HEADER)
    for n in DEGS: f.write(block(n))
    f.write(EXAMPLES if len(DEGS) == 8 else "end runs\n")
    f.write("end PP.Props.C07BoundF64\n")
