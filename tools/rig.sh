#!/bin/bash
# tools/rig.sh sync            refresh the rig from the committed+working /verif and /repo HEAD
# tools/rig.sh run <cmd...>    run a command with PP_REPO / PP_VERIF pointing at the rig
# The rig lives in /tmp/rig (scratch; nothing registered in MANIFEST.json uses it).
set -e
RIG=${RIG:-/tmp/rig}
case "$1" in
  sync)
    mkdir -p $RIG
    if [ ! -d $RIG/repo ]; then git -C /repo worktree add -q --detach $RIG/repo HEAD; fi
    git -C $RIG/repo checkout -q --detach $(git -C /repo rev-parse HEAD); git -C $RIG/repo checkout -- . ; git -C $RIG/repo clean -fdq
    rsync -a --delete --exclude replays --exclude work/.lock /verif/ $RIG/verif/
    sed -i "s#path = \"/repo\"#path = \"$RIG/repo\"#" $RIG/verif/rust/harness/Cargo.toml
    ;;
  run)
    shift
    PP_REPO=$RIG/repo PP_VERIF=$RIG/verif "$@"
    ;;
esac
