#!/usr/bin/env python3
"""prints the per-property status table of DESIGN 12.1 from /verif/evidence/*.json"""
import json, glob, os
print("| id | theorems (obligations) | auxiliary modules (theorems; failures there are notes) | campaigns (cases in the quick tier; dev + release builds) | known findings reported |")
print("|---|---|---|---|---|")
for f in sorted(glob.glob("/verif/evidence/C*.json")):
    e = json.load(open(f)); c = e["coverage"]
    aux = ", ".join(f"{a['module'].split('.')[-1]} ({a['theorems']})" for a in c.get("auxiliary_modules", [])) or "—"
    camps = ", ".join(f"{n} ({r['cases']})" for n, r in c.get("campaigns", {}).items())
    if c.get("oracle", {}).get("evaluations"):
        camps += f", mpmath oracle ({c['oracle']['evaluations']})"
    kf = len(c.get("known_findings_reported", []))
    print(f"| {e['property_id']} | {len(c['theorems'])} | {aux} | {camps} | {kf or '—'} |")
