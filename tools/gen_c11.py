#!/usr/bin/env python3
import sys
out = sys.argv[1]
def c(n, i, p='t'):
    return f"{p}._0.val" if n == 0 else f"{p}._0.a{i}.val"
def e(n, i, p='t'):
    return c(n, i, p) if i == 0 else f"{c(n, i, p)} / {i+1}"
def pw(x, j):
    return x if j == 1 else f"{x} ^ {j}"
def S(n, x, p='t'):
    return " + ".join(f"|{e(n,i,p)}| * {pw('|'+x+'|', i+1)}" for i in range(n+1))

HEADER = r'''import PP.Props.C07Bound
import PP.Props.C11
/-!
# C11 — piecewise integration: the FLOATING-POINT continuity clause

C11: "`integral(k0)` returns a piecewise function … whose first piece passes through `k0`, whose adjacent pieces
agree in value at every interior breakpoint …".  `PP/Props/C11.lean` proves this for the exact reading
(`pwIntegral_first_through`, `pwIntegral_continuous`).  Here: the hand model `Hand.pwIntegral` / `Hand.integralIter`
(proved equal to the generated loop in `PP/Props/Tie.lean`) over the *generated* `HasIntegral (Segment F T)`
instance, **run in rounded arithmetic** `F = Rounded M`, `M : RModel K` any rounding model over any linearly ordered
field.

## What is ASSUMED
* the **standard model** (`RModel`: `|rnd t − t| ≤ u·|t|`, no underflow / overflow; for the polynomial instances
  `u ≤ 2⁻⁵³`); literals are rounded and not assumed representable; `rnd` is not assumed idempotent;
* the numbers stored in the pieces (coefficients, breakpoints) and in `k0` are arbitrary elements of `K` (they are
  taken as they are: "inputs exact"); comparisons play no role (no branch in this code).

## Results
* generic in the piece type `T` and its integral type `I` (`ThroughKnotWithin M T I B`: "the integral of a piece,
  as `Segment::integral` computes it — `indefinite`, then `translate` by `knot.y − value at knot.x` — evaluated in
  rounded arithmetic at `knot.x` differs from `knot.y` by at most `B piece knot.x knot.y`"):
  - `first_piece_rounding`       : the first piece passes through `k0` within `B (first source piece) k0.x k0.y`;
  - `continuity_defect_rounding` : at every interior breakpoint `eᵢ` (= end of result piece `i`) the rounded values of
    result pieces `i+1` and `i` at `eᵢ` differ by at most `B (source piece i+1) eᵢ vᵢ`, `vᵢ` = rounded value of piece
    `i` at `eᵢ` — for a list of pieces of any length (the induction over the fold is `C11.knots_succ`, which holds in
    every interpretation);
  - `piece_through_rounding`     : every piece passes through the knot it was built from, within `B`.
* instances for the polynomial pieces, `u ≤ 2⁻⁵³`: `poly⟨n⟩_through` (n = 0..7) with
  `bound⟨n⟩ M t x y = (3n+6)·u·(|y| + Σᵢ |cᵢ/(i+1)|·|x|^{i+1})` from `C07Bound.poly⟨n⟩_integral_at_knot_rounding`;
  `poly⟨n⟩_continuity_defect_rounding`, `poly⟨n⟩_first_piece_rounding` spell the two statements out.
  So the jump at a breakpoint is a rounding error of the magnitudes involved — `(3n+6)·u` times (|value| + the sum of
  the magnitudes of the terms of the next piece's antiderivative at the breakpoint) — never an O(1) jump.
Non-vacuity: section `examples` (`RModel.m53`, a three-piece piecewise-linear function).
-/
set_option linter.unusedSectionVars false
set_option linter.unusedVariables false
namespace PP.Props.C11Bound
open Hand PP.Lemmas.LinInt PP.Props.C11 PP.Props.C07Bound
variable {K : Type} [Field K] [LinearOrder K] [IsStrictOrderedRing K] [Transc K] (M : RModel K)

/-! ## generic in the piece type -/
section generic
variable {T I : Type} [HasIntegral T (Knot (Rounded M)) I] [Evaluate I (Rounded M)] [Translate I (Rounded M)]

/-- the piece of `<Segment<T> as HasIntegral>::integral` (`LinInt.seg_integral_poly`): `indefinite`, translated by
`knot.y − (its value at knot.x)` -/
def pieceIntegral {F T I : Type} [FloatLike F] [HasIntegral T (Knot F) I] [Evaluate I F] [Translate I F]
    (t : T) (k : Knot F) : I :=
  Translate.translate (HasIntegral.indefinite t : I)
    (FloatLike.sub k.y (Evaluate.evaluate (HasIntegral.indefinite t : I) k.x))

/-- "`integral` passes through its knot within the bound `B`" (in rounded arithmetic) -/
structure ThroughKnotWithin (T I : Type) [HasIntegral T (Knot (Rounded M)) I] [Evaluate I (Rounded M)]
    [Translate I (Rounded M)] (B : T → K → K → K) : Prop where
  through : ∀ (t : T) (k : Knot (Rounded M)),
    |(Evaluate.evaluate (pieceIntegral t k : I) k.x).val - k.y.val| ≤ B t k.x.val k.y.val

variable {M}
variable {B : T → K → K → K}

/-- every result piece passes through the knot it was built from, within `B` -/
theorem piece_through_rounding (hB : ThroughKnotWithin M T I B) (p : Piecewise (Rounded M) T)
    (k0 : Knot (Rounded M)) (i : Nat) (hi : i < p.segments.length) :
    |(Evaluate.evaluate
          ((pwIntegral p k0 : Piecewise (Rounded M) I).segments[i]'(by rw [pwIntegral_length]; exact hi)).poly
          ((knots (I := I) p k0)[i]'(by rw [knots_length]; exact hi)).x).val
        - ((knots (I := I) p k0)[i]'(by rw [knots_length]; exact hi)).y.val|
      ≤ B p.segments[i].poly ((knots (I := I) p k0)[i]'(by rw [knots_length]; exact hi)).x.val
          ((knots (I := I) p k0)[i]'(by rw [knots_length]; exact hi)).y.val := by
  rw [pwIntegral_getElem_poly p k0 i hi]
  exact hB.through _ _

/-- **the first piece passes through `k0`** within `B` -/
theorem first_piece_rounding (hB : ThroughKnotWithin M T I B) (p : Piecewise (Rounded M) T)
    (k0 : Knot (Rounded M)) (h0 : 0 < p.segments.length) :
    |(Evaluate.evaluate
          ((pwIntegral p k0 : Piecewise (Rounded M) I).segments[0]'(by rw [pwIntegral_length]; exact h0)).poly
          k0.x).val - k0.y.val|
      ≤ B p.segments[0].poly k0.x.val k0.y.val := by
  have h := piece_through_rounding hB p k0 0 h0
  rw [knots_zero p k0 h0] at h
  exact h

/-- **continuity defect**: at the interior breakpoint `eᵢ` = end of result piece `i`, the rounded values of pieces
`i+1` and `i` differ by at most `B (source piece i+1) eᵢ (value of piece i at eᵢ)` -/
theorem continuity_defect_rounding (hB : ThroughKnotWithin M T I B) (p : Piecewise (Rounded M) T)
    (k0 : Knot (Rounded M)) (i : Nat) (hi : i + 1 < p.segments.length) :
    |(Evaluate.evaluate
          ((pwIntegral p k0 : Piecewise (Rounded M) I).segments[i + 1]'(by rw [pwIntegral_length]; exact hi)).poly
          ((pwIntegral p k0 : Piecewise (Rounded M) I).segments[i]'(by rw [pwIntegral_length]; omega)).end).val
        - (Evaluate.evaluate
          ((pwIntegral p k0 : Piecewise (Rounded M) I).segments[i]'(by rw [pwIntegral_length]; omega)).poly
          ((pwIntegral p k0 : Piecewise (Rounded M) I).segments[i]'(by rw [pwIntegral_length]; omega)).end).val|
      ≤ B p.segments[i + 1].poly
          ((pwIntegral p k0 : Piecewise (Rounded M) I).segments[i]'(by rw [pwIntegral_length]; omega)).end.val
          (Evaluate.evaluate
            ((pwIntegral p k0 : Piecewise (Rounded M) I).segments[i]'(by rw [pwIntegral_length]; omega)).poly
            ((pwIntegral p k0 : Piecewise (Rounded M) I).segments[i]'(by rw [pwIntegral_length]; omega)).end).val := by
  have h := piece_through_rounding hB p k0 (i + 1) hi
  rw [knots_succ p k0 i hi] at h
  exact h

end generic

/-! ## the polynomial pieces (GENERATED block: identical up to the degree) -/
'''

def block(n):
    m = n+1
    return f'''/-- `C_{n}·u·(|y| + Σᵢ|cᵢ/(i+1)||x|^(i+1))`, `C_{n} = 3·{n}+6`, for the piece `t` (its coefficients are the `.val`s) -/
def bound{n} (t : Poly{n} (Rounded M)) (x y : K) : K :=
  (3 * {n} + 6) * M.u * (|y| + ({S(n,'x')}))

theorem poly{n}_through (hu : M.u ≤ (2 : K) ^ (-53 : ℤ)) :
    ThroughKnotWithin M (Poly{n} (Rounded M)) (Poly{m} (Rounded M)) (bound{n} M) :=
  ⟨fun t k => poly{n}_integral_at_knot_rounding M hu (t.mapF Rounded.val) (k.mapF Rounded.val)⟩

/-- continuity defect of `integral(k0)` of a piecewise polynomial of degree {n}, in rounded arithmetic -/
theorem poly{n}_continuity_defect_rounding (hu : M.u ≤ (2 : K) ^ (-53 : ℤ))
    (p : Piecewise (Rounded M) (Poly{n} (Rounded M))) (k0 : Knot (Rounded M)) (i : Nat)
    (hi : i + 1 < p.segments.length) :
    |(Evaluate.evaluate
          ((pwIntegral p k0 : Piecewise (Rounded M) (Poly{m} (Rounded M))).segments[i + 1]'(by
            rw [pwIntegral_length]; exact hi)).poly
          ((pwIntegral p k0 : Piecewise (Rounded M) (Poly{m} (Rounded M))).segments[i]'(by
            rw [pwIntegral_length]; omega)).end).val
        - (Evaluate.evaluate
          ((pwIntegral p k0 : Piecewise (Rounded M) (Poly{m} (Rounded M))).segments[i]'(by
            rw [pwIntegral_length]; omega)).poly
          ((pwIntegral p k0 : Piecewise (Rounded M) (Poly{m} (Rounded M))).segments[i]'(by
            rw [pwIntegral_length]; omega)).end).val|
      ≤ bound{n} M p.segments[i + 1].poly
          ((pwIntegral p k0 : Piecewise (Rounded M) (Poly{m} (Rounded M))).segments[i]'(by
            rw [pwIntegral_length]; omega)).end.val
          (Evaluate.evaluate
            ((pwIntegral p k0 : Piecewise (Rounded M) (Poly{m} (Rounded M))).segments[i]'(by
              rw [pwIntegral_length]; omega)).poly
            ((pwIntegral p k0 : Piecewise (Rounded M) (Poly{m} (Rounded M))).segments[i]'(by
              rw [pwIntegral_length]; omega)).end).val :=
  continuity_defect_rounding (poly{n}_through M hu) p k0 i hi

/-- the first piece passes through `k0` within rounding -/
theorem poly{n}_first_piece_rounding (hu : M.u ≤ (2 : K) ^ (-53 : ℤ))
    (p : Piecewise (Rounded M) (Poly{n} (Rounded M))) (k0 : Knot (Rounded M)) (h0 : 0 < p.segments.length) :
    |(Evaluate.evaluate
          ((pwIntegral p k0 : Piecewise (Rounded M) (Poly{m} (Rounded M))).segments[0]'(by
            rw [pwIntegral_length]; exact h0)).poly k0.x).val - k0.y.val|
      ≤ bound{n} M p.segments[0].poly k0.x.val k0.y.val :=
  first_piece_rounding (poly{n}_through M hu) p k0 h0

'''

EXAMPLES = r'''/-! ## non-vacuity -/
section examples
noncomputable local instance : Transc ℚ := ⟨fun x => x, fun x => x⟩
open PP.Props.C07Bound

/-- f = 1 + 2x on (−∞,1), 3 on [1,2), x on [2,∞), with numbers of `Rounded M53` -/
noncomputable def exP : Piecewise (Rounded M53) (Poly1 (Rounded M53)) :=
  ⟨[⟨⟨1⟩, ⟨⟨⟨1⟩, ⟨2⟩⟩⟩⟩, ⟨⟨2⟩, ⟨⟨⟨3⟩, ⟨0⟩⟩⟩⟩, ⟨⟨3⟩, ⟨⟨⟨0⟩, ⟨1⟩⟩⟩⟩]⟩

example : M53.u ≤ (2 : ℚ) ^ (-53 : ℤ) := le_refl _
example : (0 : ℕ) + 1 < exP.segments.length := by decide
example : (1 : ℕ) + 1 < exP.segments.length := by decide

/-- the first piece passes through `(0, 5)` within `6u·(|5| + |1|·|0| + |2/2|·|0|²)` -/
example :
    |(Evaluate.evaluate
        ((pwIntegral exP ⟨⟨0⟩, ⟨5⟩⟩ : Piecewise (Rounded M53) (Poly2 (Rounded M53))).segments[0]'(by
          rw [pwIntegral_length]; decide)).poly (⟨0⟩ : Rounded M53)).val - 5|
      ≤ bound1 M53 (⟨⟨⟨1⟩, ⟨2⟩⟩⟩ : Poly1 (Rounded M53)) 0 5 :=
  poly1_first_piece_rounding M53 (le_refl _) exP ⟨⟨0⟩, ⟨5⟩⟩ (by decide)

/-- the jump at the first interior breakpoint (`x = 1`): pieces 0 and 1 -/
example :
    |(Evaluate.evaluate
        ((pwIntegral exP ⟨⟨0⟩, ⟨5⟩⟩ : Piecewise (Rounded M53) (Poly2 (Rounded M53))).segments[0 + 1]'(by
          rw [pwIntegral_length]; decide)).poly
        ((pwIntegral exP ⟨⟨0⟩, ⟨5⟩⟩ : Piecewise (Rounded M53) (Poly2 (Rounded M53))).segments[0]'(by
          rw [pwIntegral_length]; decide)).end).val
      - (Evaluate.evaluate
        ((pwIntegral exP ⟨⟨0⟩, ⟨5⟩⟩ : Piecewise (Rounded M53) (Poly2 (Rounded M53))).segments[0]'(by
          rw [pwIntegral_length]; decide)).poly
        ((pwIntegral exP ⟨⟨0⟩, ⟨5⟩⟩ : Piecewise (Rounded M53) (Poly2 (Rounded M53))).segments[0]'(by
          rw [pwIntegral_length]; decide)).end).val|
      ≤ bound1 M53 exP.segments[0 + 1].poly
          ((pwIntegral exP ⟨⟨0⟩, ⟨5⟩⟩ : Piecewise (Rounded M53) (Poly2 (Rounded M53))).segments[0]'(by
            rw [pwIntegral_length]; decide)).end.val
          (Evaluate.evaluate
            ((pwIntegral exP ⟨⟨0⟩, ⟨5⟩⟩ : Piecewise (Rounded M53) (Poly2 (Rounded M53))).segments[0]'(by
              rw [pwIntegral_length]; decide)).poly
            ((pwIntegral exP ⟨⟨0⟩, ⟨5⟩⟩ : Piecewise (Rounded M53) (Poly2 (Rounded M53))).segments[0]'(by
              rw [pwIntegral_length]; decide)).end).val :=
  poly1_continuity_defect_rounding M53 (le_refl _) exP ⟨⟨0⟩, ⟨5⟩⟩ 0 (by decide)

/-- the breakpoint of that jump is the source breakpoint `1` (breakpoints are copied) -/
example : ((pwIntegral exP ⟨⟨0⟩, ⟨5⟩⟩ : Piecewise (Rounded M53) (Poly2 (Rounded M53))).segments[0]'(by
    rw [pwIntegral_length]; decide)).end.val = 1 := rfl

/-- the generic hypothesis is satisfiable for every polynomial degree -/
example : ThroughKnotWithin M53 (Poly7 (Rounded M53)) (Poly8 (Rounded M53)) (bound7 M53) :=
  poly7_through M53 (le_refl _)

end examples

'''

with open(out, 'w') as f:
    f.write(HEADER)
    for n in range(8): f.write(block(n))
    f.write(EXAMPLES)
    f.write("end PP.Props.C11Bound\n")
