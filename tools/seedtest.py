#!/usr/bin/env python3
"""seedtest.py <mut-dir> <k> <dest-name> <prop> [<prop> ...]
Confirms a seeded change (patch.diff + demo.rs + meta.json in <mut-dir>/out/<k>/) in the scratch worktree
<mut-dir>, then applies it to /repo, runs ./check for the given properties, reverts /repo, and stores the
change with the results under /verif/seeded/<dest-name>/."""
import json, os, re, shutil, subprocess, sys, time

# the rig (tools/rig.sh): a private copy of /verif and a private worktree of /repo, so that seeds can be run while
# /verif is being edited; without the variables the real places are used
REPO = os.environ.get("PP_REPO", "/repo")
VERIF = os.environ.get("PP_VERIF", "/verif")

def sh(cmd, cwd=None, timeout=3600):
    p = subprocess.run(cmd, shell=True, cwd=cwd, stdout=subprocess.PIPE, stderr=subprocess.STDOUT, text=True, timeout=timeout)
    return p.returncode, p.stdout

def main():
    mut, k, dest = sys.argv[1], sys.argv[2], sys.argv[3]
    props = sys.argv[4:]
    src = os.path.join(mut, "out", k)
    patch = os.path.join(src, "patch.diff")
    demo = os.path.join(src, "demo.rs")
    meta = json.load(open(os.path.join(src, "meta.json")))
    safe = meta.get("kind") in ("bit-identical", "property-preserving")
    if props == ["auto"]:
        if safe:
            by_file = {"poly.rs": ["C01", "C07", "C08", "C14", "C17", "C18"], "log_poly.rs": ["C01", "C09", "C10", "C14", "C18"],
                       "piecewise.rs": ["C02", "C03", "C11", "C12", "C13", "C15", "C16", "C18", "C19"], "spline.rs": ["C04", "C05"], "linear.rs": ["C06"],
                       "Cargo.toml": ["C18"], "lib.rs": ["C01", "C18"]}
            props = []
            for f in meta.get("files", []):
                for p in by_file.get(os.path.basename(f), []):
                    if p not in props:
                        props.append(p)
        else:
            props = [meta["property"]] + [a for a in meta.get("also", []) if a != meta["property"]]
    if safe and not os.path.exists(demo):
        demo = None
    ran = []
    # --- 1. confirm in the scratch worktree
    sh("git checkout -- . && git clean -fdq src && rm -rf tests", cwd=mut)
    os.makedirs(os.path.join(mut, "tests"), exist_ok=True)
    if demo:
        shutil.copyfile(demo, os.path.join(mut, "tests", "demo.rs"))
        rc0, out0 = sh("cargo test --offline --features borsh --test demo 2>&1 | tail -5", cwd=mut)
        clean_pass = "test result: ok" in out0
    else:
        clean_pass = True
    ran.append("unchanged crate: cargo test --offline --test demo -> " + ("pass" if clean_pass else "FAIL"))
    rc, out = sh(f"git apply {patch}", cwd=mut)
    if rc != 0:
        print("patch does not apply:", out); sh("git checkout -- . && git clean -fdq src && rm -rf tests", cwd=mut); return 2
    if demo:
        os.remove(os.path.join(mut, "tests", "demo.rs"))
    rc1, out1 = sh("cargo test --offline 2>&1 | grep 'test result' | head -1", cwd=mut)
    suite_pass = "94 passed; 0 failed" in out1
    ran.append("patched crate: cargo test --offline -> " + out1.strip())
    if demo:
        shutil.copyfile(demo, os.path.join(mut, "tests", "demo.rs"))
        rc2, out2 = sh("bash -o pipefail -c 'cargo test --offline --features borsh --test demo 2>&1 | tail -8'", cwd=mut)
        # a stack overflow / abort prints no "test result" line: any non-zero exit of the test binary is a failing demo
        demo_fails = "test result: FAILED" in out2 or "panicked" in out2 or (rc2 != 0 and "could not compile" not in out2)
        if not demo_fails and not safe:
            # a change that only shows without debug assertions (the profile users ship)
            rc3, out3 = sh("cargo test --offline --release --features borsh --test demo 2>&1 | tail -8", cwd=mut)
            if "test result: FAILED" in out3 or "panicked" in out3:
                demo_fails = True
                ran.append("patched crate: demo passes in the dev profile and FAILS with --release (profile-dependent change)")
    else:
        demo_fails = False
    ran.append("patched crate: cargo test --offline --features borsh --test demo -> " + ("FAIL" if demo_fails else "pass"))
    sh("git checkout -- . && git clean -fdq src && rm -rf tests", cwd=mut)
    valid = clean_pass and suite_pass and (demo_fails != safe)
    print(f"[{dest}] confirm: clean_demo_pass={clean_pass} suite_pass={suite_pass} demo_fails={demo_fails}")
    results = {}
    if valid:
        # --- 2. run the checks against it
        rc, out = sh(f"git -C {REPO} apply {patch}")
        if rc != 0:
            print("cannot apply to /repo:", out); return 2
        try:
            for p in props:
                t0 = time.time()
                rc, out = sh(f"./check {p}", cwd=VERIF, timeout=7200)
                lines = [l for l in out.split("\n") if l.startswith("VIOLATION") or l.startswith("KNOWN") or l.startswith(p + " ")]
                replay_head = []
                m = re.search(r"replay=(\S+)", out)
                if m and os.path.exists(m.group(1)):
                    replay_head = open(m.group(1)).read().split("\n")[:8]
                    os.remove(m.group(1))
                results[p] = {"exit": rc, "output": lines, "replay_head": replay_head, "wall_s": round(time.time() - t0, 1)}
                print(f"[{dest}] ./check {p}: exit={rc} " + " | ".join(lines)[:300])
        finally:
            sh(f"git -C {REPO} checkout -- . && git -C {REPO} clean -fdq src")
    d = os.path.join("/verif/seeded", dest)
    os.makedirs(d, exist_ok=True)
    shutil.copyfile(patch, os.path.join(d, "patch.diff"))
    if demo:
        shutil.copyfile(demo, os.path.join(d, "demo.rs"))
    meta.update({"expected": "pass (behaviour-preserving refactoring)" if safe else "violation", "valid_seed": valid, "what_i_ran": ran, "checks": results,
                 "detected_by": [p for p, r in results.items() if r["exit"] != 0],
                 "with_failing_input": [p for p, r in results.items() if r["exit"] != 0 and not any("no-failing-input-found" in l for l in r["output"])]})
    json.dump(meta, open(os.path.join(d, "meta.json"), "w"), indent=1)
    return 0

if __name__ == "__main__":
    sys.exit(main())
