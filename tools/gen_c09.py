out=[]
out.append('''import PP.Sem.Exact
import PP.Model.LogPoly.CalculusAttr
import PP.Props.C01
import PP.Lemmas.Calculus
/-!
# C09 — integration of log-polynomials (exact-arithmetic part, over ℝ with ln = Real.log, exp = Real.exp)

"For a log-polynomial f(t)=p(ln t) of any degree 0-8 and any knot with knot.x>0, the function F returned by
integral(knot) satisfies F(knot.x)=knot.y and F(b)-F(a) = integral of p(ln t) dt over [a,b] for all a,b>0, within
the rounding bound of the construction. indefinite() returns an antiderivative of the same f."

For each degree k ≠ 4 (`p : PolyK ℝ`, result `IntOfLog ℝ (PolyK ℝ)`, value `k + v·Q(ln v)`):
* `logpolyK_recurrence`            — Q + Q' = p (the generated coefficient recurrence is the right one)
* `logpolyK_indefinite_hasDerivAt` — for t > 0, d/dt evaluate (indefinite ⟨p⟩) = evaluate ⟨p⟩ t
* `logpolyK_indefinite_k`           — `(indefinite ⟨p⟩).k = 0`
* `logpolyK_integral_eq`           — `integral ⟨p⟩ knot` is `indefinite ⟨p⟩` with `k := knot.y − evaluate (indefinite ⟨p⟩) knot.x`
* `logpolyK_integral_eval`         — hence the two differ by that constant, pointwise
* `logpolyK_integral_knot`         — `evaluate (integral ⟨p⟩ knot) knot.x = knot.y` (pure algebra; any knot)
* `logpolyK_integral_hasDerivAt`   — for t > 0
* `logpolyK_integral_ftc`, `logpolyK_indefinite_ftc` — F(b) − F(a) = ∫ t in a..b, p(ln t), all a, b > 0

Degree 4 (`IntOfLogPoly4`, section `deg4`) evaluates through `LogPoly.taylor.exp_5_taylor`, which branches between a
16-term Taylor polynomial (−1.71 < x < 1.72, x = −ln v) and the closed form R(x) = (eˣ − Σ_{j<5} xʲ/j!)/x⁵.
The antiderivative statements are EXACT only with R; they are proved for `evalWith exp_5_tail_anal` (the generated
evaluation with `exp_5_taylor` replaced by the closed-form branch), and for the generated function itself wherever it
takes that branch.  On the Taylor window the generated function is only an approximate antiderivative: its derivative
is p(ln t) + u·(ln t)²⁰/20! (`logpoly4_indefinite_hasDerivAt_near`, counter-example `logpoly4_not_antiderivative`);
bounding that truncation is property C10.
-/
set_option linter.unusedSectionVars false
namespace PP.Props.C09
open PP.Props.C01 PP.Lemmas.Calculus

/-- the transcendental functions are the real ones -/
noncomputable local instance realTransc : Transc ℝ := ⟨Real.log, Real.exp⟩
attribute [local instance] exactFL

theorem ln_eq (v : ℝ) : Transc.ln v = Real.log v := rfl
theorem exp_eq (v : ℝ) : Transc.exp v = Real.exp v := rfl

/-! ## generic facts about `Log<T>` and `IntOfLog<T>` -/

/-- `IntOfLog::evaluate` is `v · Q(ln v) + k` -/
theorem intOfLog_eval {T : Type} [Evaluate T ℝ] (q : IntOfLog ℝ T) (v : ℝ) :
    Evaluate.evaluate q v = v * Evaluate.evaluate q.poly (Real.log v) + q.k := rfl

/-- d/dt [k + t·Q(ln t)] = Q(ln t) + Q'(ln t) for t > 0 -/
theorem intOfLog_hasDerivAt {T : Type} [Evaluate T ℝ] (q : IntOfLog ℝ T) (Q' t : ℝ) (ht : 0 < t)
    (hQ : HasDerivAt (fun y => Evaluate.evaluate q.poly y) Q' (Real.log t)) :
    HasDerivAt (fun t => Evaluate.evaluate q t) (Evaluate.evaluate q.poly (Real.log t) + Q') t :=
  (hasDerivAt_mul_comp_log _ Q' t ht hQ).add_const q.k

/-- a log-polynomial is continuous on (0,∞) as soon as the polynomial is continuous -/
theorem log_continuousOn {T : Type} [Evaluate T ℝ] (p : T)
    (hp : Continuous (fun y => Evaluate.evaluate p y)) :
    ContinuousOn (fun t => Evaluate.evaluate (⟨p⟩ : Log T) t) (Set.Ioi 0) :=
  hp.comp_continuousOn (Real.continuousOn_log.mono (fun _ ht => ne_of_gt (Set.mem_Ioi.mp ht)))
''')
for k in [0,1,2,3,5,6,7,8]:
    L=f"(⟨p⟩ : Log (Poly{k} ℝ))"
    evs = f"rw [poly{k}_eval, poly{k}_eval, poly{k-1}_eval]" if k>0 else "rw [poly0_eval, poly0_eval, poly0_eval]"
    out.append(f'''/-! ## degree {k} -/

/-- the generated recurrence solves Q + Q' = p -/
theorem logpoly{k}_recurrence (p : Poly{k} ℝ) (y : ℝ) :
    Evaluate.evaluate (HasIntegral.indefinite {L}).poly y
      + Evaluate.evaluate (HasDerivative.derivative (HasIntegral.indefinite {L}).poly) y
      = Evaluate.evaluate p y := by
  {evs}
  exact_simp
  ring

theorem logpoly{k}_indefinite_hasDerivAt (p : Poly{k} ℝ) (t : ℝ) (ht : 0 < t) :
    HasDerivAt (fun t => Evaluate.evaluate (HasIntegral.indefinite {L}) t)
      (Evaluate.evaluate {L} t) t := by
  have h := intOfLog_hasDerivAt (HasIntegral.indefinite {L}) _ t ht (poly{k}_hasDerivAt _ _)
  rw [logpoly{k}_recurrence] at h
  exact h

/-- `indefinite` has constant term 0 -/
theorem logpoly{k}_indefinite_k (p : Poly{k} ℝ) : (HasIntegral.indefinite {L}).k = 0 := by
  exact_simp

/-- `integral` is `indefinite` with a different constant `k`; the polynomial part is the same -/
theorem logpoly{k}_integral_eq (p : Poly{k} ℝ) (knot : Knot ℝ) :
    HasIntegral.integral {L} knot =
      {{ HasIntegral.indefinite {L} with
        k := knot.y - Evaluate.evaluate (HasIntegral.indefinite {L}) knot.x }} := by
  exact_simp
  congr 1
  ring

theorem logpoly{k}_integral_eval (p : Poly{k} ℝ) (knot : Knot ℝ) (t : ℝ) :
    Evaluate.evaluate (HasIntegral.integral {L} knot) t =
      Evaluate.evaluate (HasIntegral.indefinite {L}) t
        + (knot.y - Evaluate.evaluate (HasIntegral.indefinite {L}) knot.x) := by
  rw [logpoly{k}_integral_eq]
  simp only [intOfLog_eval, logpoly{k}_indefinite_k]
  ring

/-- F(knot.x) = knot.y — pure algebra, for every knot -/
theorem logpoly{k}_integral_knot (p : Poly{k} ℝ) (knot : Knot ℝ) :
    Evaluate.evaluate (HasIntegral.integral {L} knot) knot.x = knot.y := by
  rw [logpoly{k}_integral_eval]; ring

theorem logpoly{k}_integral_hasDerivAt (p : Poly{k} ℝ) (knot : Knot ℝ) (t : ℝ) (ht : 0 < t) :
    HasDerivAt (fun t => Evaluate.evaluate (HasIntegral.integral {L} knot) t)
      (Evaluate.evaluate {L} t) t := by
  rw [funext (logpoly{k}_integral_eval p knot)]
  exact (logpoly{k}_indefinite_hasDerivAt p t ht).add_const _

/-- F(b) − F(a) = ∫ₐᵇ p(ln t) dt for all a, b > 0 (either order) -/
theorem logpoly{k}_integral_ftc (p : Poly{k} ℝ) (knot : Knot ℝ) (a b : ℝ) (ha : 0 < a) (hb : 0 < b) :
    Evaluate.evaluate (HasIntegral.integral {L} knot) b
        - Evaluate.evaluate (HasIntegral.integral {L} knot) a
      = ∫ t in a..b, Evaluate.evaluate {L} t :=
  ftc_pos _ _ a b ha hb (logpoly{k}_integral_hasDerivAt p knot) (log_continuousOn p (poly{k}_continuous p))

theorem logpoly{k}_indefinite_ftc (p : Poly{k} ℝ) (a b : ℝ) (ha : 0 < a) (hb : 0 < b) :
    Evaluate.evaluate (HasIntegral.indefinite {L}) b
        - Evaluate.evaluate (HasIntegral.indefinite {L}) a
      = ∫ t in a..b, Evaluate.evaluate {L} t :=
  ftc_pos _ _ a b ha hb (logpoly{k}_indefinite_hasDerivAt p) (log_continuousOn p (poly{k}_continuous p))
''')
out.append(open('/tmp/agent-logint/gen/c09_deg4.lean').read())
out.append('''
end PP.Props.C09''')
open('/tmp/agent-logint/lean/PP/Props/C09.lean','w').write("\n".join(out)+"\n")
