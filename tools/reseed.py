#!/usr/bin/env python3
"""reseed.py <name> [<name> ...]   re-run the stored seeded changes /verif/seeded/<name>/patch.diff against the checks
recorded in their meta.json (in the rig when PP_REPO / PP_VERIF are set, see tools/rig.sh), and refresh the results."""
import json, os, re, subprocess, sys, time
REPO = os.environ.get("PP_REPO", "/repo")
VERIF = os.environ.get("PP_VERIF", "/verif")


def sh(cmd, cwd=None, timeout=7200):
    p = subprocess.run(cmd, shell=True, cwd=cwd, stdout=subprocess.PIPE, stderr=subprocess.STDOUT, text=True, timeout=timeout)
    return p.returncode, p.stdout


for name in sys.argv[1:]:
    d = os.path.join("/verif/seeded", name)
    meta = json.load(open(os.path.join(d, "meta.json")))
    props = list(meta.get("checks", {}).keys()) or [meta.get("property")]
    rc, out = sh(f"git -C {REPO} apply {d}/patch.diff")
    if rc != 0:
        print(f"[{name}] cannot apply: {out}")
        continue
    results = {}
    try:
        for p in props:
            t0 = time.time()
            rc, out = sh(f"./check {p}", cwd=VERIF)
            lines = [l for l in out.split("\n") if l.startswith("VIOLATION") or l.startswith("KNOWN") or l.startswith("NOTE") or l.startswith(p + " ")]
            head = []
            m = re.search(r"replay=(\S+)", out)
            if m and os.path.exists(m.group(1)):
                head = open(m.group(1)).read().split("\n")[:8]
                os.remove(m.group(1))
            results[p] = {"exit": rc, "output": lines, "replay_head": head, "wall_s": round(time.time() - t0, 1)}
            print(f"[{name}] ./check {p}: exit={rc} " + " | ".join(lines)[:300], flush=True)
    finally:
        sh(f"git -C {REPO} checkout -- . && git -C {REPO} clean -fdq src")
    meta["checks"] = results
    meta["detected_by"] = [p for p, r in results.items() if r["exit"] != 0]
    meta["with_failing_input"] = [p for p, r in results.items() if r["exit"] != 0 and not any("no-failing-input-found" in l for l in r["output"])]
    json.dump(meta, open(os.path.join(d, "meta.json"), "w"), indent=1)
