#!/bin/bash
# full thorough sweep; used with `vp run -- bash tools/thorough_all.sh` (builds in the snapshot first)
./check --setup > setup.log 2>&1 || { tail -30 setup.log; exit 2; }
rc=0
for p in C01 C02 C03 C04 C05 C06 C07 C08 C09 C10 C11 C12 C13 C14 C15 C16 C17 C18 C19; do
  ./check $p --tier thorough | tail -4 || rc=1
done
exit $rc
