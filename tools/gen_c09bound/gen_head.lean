import PP.Sem.Count
import PP.Props.C09
import PP.Lemmas.ExpTailFP
import PP.Lemmas.LinearFP
import PP.Model.LogPoly.CalculusAttr
import PP.Model.LogPoly.EvaluateAttr
import PP.Props.C10Bound
/-!
# Helper lemmas for the floating-point part of C09 (`PP/Props/C09Bound.lean`)

`K = ℝ`, `ln = Real.log` (`PP.Props.C09.realTransc`), an arbitrary rounding model `M : RModel ℝ`.

* **A0** the two patterns as real-number expressions: `knot_core` (`|rnd (x·t + k̂) − y| ≤ g₃|y| + g₄|x·t|` for
  `k̂ = rnd (rnd (y − rnd (x·t)))`, from `LinearFP.tail_left`), `k_core`.
* **A** degree-independent facts about the *generated* `Evaluate (IntOfLog F T)` (`fma v (poly(ln v)) k`) and the body
  of every generated `integral` (`translate indef (knot.y − evaluate indef knot.x)`, here `throughKnot`) run in
  `Rounded M`:  `polyVal` (the computed value `T̂(v)` of the polynomial part at `rnd (ln v)`), `intOfLog_evalR`,
  `throughKnot_k`, `knot_gen` (`|F̂(x) − y| ≤ g₃|y| + g₄|x·T̂(x)|`, `g_k = (1+u)^k − 1`), `eval_vs_ideal`,
  `difference_gen` (`|F̂(b) − F̂(a) − (b·Q_b − a·Q_a)| ≤ g_{K+1}(a·A_a + b·A_b) + 2u|k̂|`), `k_abs_le`; and with
  `u ≤ 2⁻⁵³` and numerals: `knot_num`, `knot_num_S`, `difference_num`, `k_abs_num`.
* **B** the counting semantics (`PP/Sem/Count.lean`) applied to the generated code: `xCt M v` is `x̂ = rnd (ln v)` as a
  number of `Ct M` (exact value `ln v`, magnitude `|ln v|`, depth 1).  For every degree `n ≠ 4` (GENERATED blocks,
  identical up to the degree; generator `gen.py`): `indefCt⟨n⟩ M p` = the generated `indefinite` *run at `Ct M`* on the
  injected coefficients; its lanes carry, by `rfl`, the exact run, the rounded run, the depth, and — after
  `norm_num; ring` — the magnitudes `S_j = Σ_{i≥j} (i!/j!)|c_i|` (`Smag⟨n⟩`); `coeff⟨n⟩_ct` states the invariant for
  every lane; `polyCt⟨n⟩ M p v` = the generated `Evaluate (Poly⟨n⟩ F)` run at `Ct M` on these lanes at `xCt M v`;
  `poly⟨n⟩_ct` is its invariant: exact value `Q(ln v)`, computed value `polyVal`, magnitude
  `MagS⟨n⟩ p v = Σ_j S_j|ln v|^j`, depth `K_n`; `poly⟨n⟩_abs_le`: `|Q(ln v)| ≤ MagQ⟨n⟩ p v = Σ_j |q_j||ln v|^j`.
* **C** degree 4 (`IntOfLogPoly4`): `coeff4_ct` (the recurrence with literal quotients, composed by hand from
  `CtInv.add/sub/mul`, `ct_litdiv`; depths 0, 6, 12, 18, 21), `exists_cr` (the bracket of the generated evaluation does
  not depend on `k`), `knot4_gen`; `C10.ideal` / `C10Bound.Mag` as linear forms (`lin_abs_le`, `abs_ideal_le_Mag`,
  `Mag_le_of_coeffs`, `ideal_close`), `ideal_eq_evalWith`, `ideal_ftc` (the exact integral).
-/
set_option linter.unusedSectionVars false
set_option linter.unusedVariables false

namespace PP.Lemmas.LogIntFP
open PP.Lemmas.Rounding PP.Lemmas.ExpTailFP

attribute [local instance] PP.Props.C09.realTransc
attribute [local instance] exactFL

variable (M : RModel ℝ)

/-! ## A0. the two patterns, as real-number expressions

`t` is the computed value of "the bracket" (`T̂(x)` for `IntOfLog`, `cr` for `IntOfLogPoly4`); `E = rnd (x·t)` is the
indefinite integral at the knot, `k̂ = rnd (rnd (y − E))` the stored constant (`y − E`, then `0.0 + ·`), and
`rnd (x·t + k̂)` the value of `F` at the knot. -/

/-- `|rnd (x·t + k̂) − y| ≤ g₃|y| + g₄|x·t|` -/
theorem knot_core (t x y : ℝ) :
    |M.rnd (x * t + M.rnd (M.rnd (y - M.rnd (x * t)))) - y|
      ≤ ((1 + M.u) ^ 3 - 1) * |y| + ((1 + M.u) ^ 4 - 1) * |x * t| := by
  have h1 := PP.Lemmas.LinearFP.tail_left M t x y
  rw [mul_comm t x] at h1
  refine (PP.Lemmas.LinearFP.rnd_eval_close M _ _).trans ?_
  have e : x * t + M.rnd (M.rnd (y - M.rnd (x * t))) - y
      = M.rnd (M.rnd (y - M.rnd (x * t))) + x * t - y := by ring
  rw [e]
  have hu := M.hu
  have := mul_le_mul_of_nonneg_left h1 (by linarith : (0 : ℝ) ≤ 1 + M.u)
  have := mul_nonneg hu (abs_nonneg (x * t))
  have e2 : (1 + M.u) * (((1 + M.u) ^ 2 - 1) * |y| + ((1 + M.u) ^ 3 - 1) * |x * t|) + M.u * |y|
      = ((1 + M.u) ^ 3 - 1) * |y| + ((1 + M.u) ^ 4 - 1) * |x * t| - M.u * |x * t| := by ring
  linarith

/-- `|k̂| ≤ (1+u)²·(|y| + (1+u)·|x·t|)` -/
theorem k_core (t x y : ℝ) :
    |M.rnd (M.rnd (y - M.rnd (x * t)))| ≤ (1 + M.u) ^ 2 * (|y| + (1 + M.u) * |x * t|) := by
  have hu := M.hu
  have h1 := M.abs_rnd_le (M.rnd (y - M.rnd (x * t)))
  have h2 := M.abs_rnd_le (y - M.rnd (x * t))
  have h3 := M.abs_rnd_le (x * t)
  have h4 : |y - M.rnd (x * t)| ≤ |y| + |M.rnd (x * t)| := abs_sub _ _
  have h5 : (1 + M.u) * |M.rnd (y - M.rnd (x * t))| ≤ (1 + M.u) * ((1 + M.u) * |y - M.rnd (x * t)|) :=
    mul_le_mul_of_nonneg_left h2 (by linarith)
  have h6 : (1 + M.u) * ((1 + M.u) * |y - M.rnd (x * t)|)
      ≤ (1 + M.u) * ((1 + M.u) * (|y| + (1 + M.u) * |x * t|)) :=
    mul_le_mul_of_nonneg_left (mul_le_mul_of_nonneg_left (by linarith) (by linarith)) (by linarith)
  calc _ ≤ _ := h1
    _ ≤ _ := h5
    _ ≤ _ := h6
    _ = _ := by ring

/-! ## A. `IntOfLog` in `Rounded M`, any polynomial type -/
section generic
variable {T : Type} [Evaluate T (Rounded M)] [Translate T (Rounded M)]

/-- the computed value of the polynomial part at the computed logarithm `rnd (ln v)` -/
noncomputable def polyVal (I : IntOfLog (Rounded M) T) (v : ℝ) : ℝ :=
  (Evaluate.evaluate I.poly (FloatLike.ln (⟨v⟩ : Rounded M))).val

/-- the rounded evaluation of an `IntOfLog` at `v` -/
@[reducible] noncomputable def evalR (I : IntOfLog (Rounded M) T) (v : ℝ) : ℝ :=
  (Evaluate.evaluate I (⟨v⟩ : Rounded M)).val

/-- the generated `IntOfLog::evaluate` is one `fma`: `rnd (v·T̂(v) + k)` -/
theorem intOfLog_evalR (I : IntOfLog (Rounded M) T) (v : ℝ) :
    evalR M I v = M.rnd (v * polyVal M I v + I.k.val) := rfl

/-- the body of every generated `integral`: translate the indefinite integral through the knot `(x, y)` -/
@[reducible] noncomputable def throughKnot (I : IntOfLog (Rounded M) T) (x y : ℝ) : IntOfLog (Rounded M) T :=
  Translate.translate I (PSub.sub (⟨y⟩ : Rounded M) (Evaluate.evaluate I (⟨x⟩ : Rounded M)))

theorem throughKnot_poly (I : IntOfLog (Rounded M) T) (x y : ℝ) : (throughKnot M I x y).poly = I.poly := rfl

theorem throughKnot_polyVal (I : IntOfLog (Rounded M) T) (x y v : ℝ) :
    polyVal M (throughKnot M I x y) v = polyVal M I v := rfl

/-- the constant stored by `integral`: `0.0 + (y − fma(x, T̂(x), 0.0))`, three roundings -/
theorem throughKnot_k (I : IntOfLog (Rounded M) T) (hk : I.k.val = 0) (x y : ℝ) :
    (throughKnot M I x y).k.val = M.rnd (M.rnd (y - M.rnd (x * polyVal M I x))) := by
  show M.rnd (I.k.val + M.rnd (y - M.rnd (x * polyVal M I x + I.k.val))) = _
  rw [hk, zero_add, add_zero]

/-- **F̂(knot.x) against knot.y**, any polynomial type: `g₃|y| + g₄|x·T̂(x)|` — the same computation `T̂(x)` is
used when the constant is fixed and when `F` is evaluated at the knot, so neither the error of the coefficients
nor that of `ln` enters, only the four roundings `x·T̂`, `y − ·`, `0 + ·`, and the final `fma`. -/
theorem knot_gen (I : IntOfLog (Rounded M) T) (hk : I.k.val = 0) (x y : ℝ) :
    |evalR M (throughKnot M I x y) x - y|
      ≤ ((1 + M.u) ^ 3 - 1) * |y| + ((1 + M.u) ^ 4 - 1) * |x * polyVal M I x| := by
  rw [intOfLog_evalR, throughKnot_polyVal, throughKnot_k M I hk]
  exact knot_core M _ x y

/-- the stored constant is at most `(1+u)²·(|y| + (1+u)·|x·T̂(x)|)` -/
theorem k_abs_le (I : IntOfLog (Rounded M) T) (hk : I.k.val = 0) (x y : ℝ) :
    |(throughKnot M I x y).k.val| ≤ (1 + M.u) ^ 2 * (|y| + (1 + M.u) * |x * polyVal M I x|) := by
  rw [throughKnot_k M I hk]
  exact k_core M _ x y

/-- **one evaluation against `v·Q + k̂`**: if the computed polynomial value approximates `Q` with magnitude `A` and
depth `K`, the rounded `IntOfLog::evaluate` is within `g_{K+1}·v·A + u·|k̂|` of `v·Q + k̂` (`k̂` the stored constant) -/
theorem eval_vs_ideal (I : IntOfLog (Rounded M) T) {v Q A : ℝ} {K : ℕ} (hv : 0 < v)
    (h : CtInv M Q (polyVal M I v) A K) :
    |evalR M I v - (v * Q + I.k.val)| ≤ ((1 + M.u) ^ (K + 1) - 1) * (v * A) + M.u * |I.k.val| := by
  rw [intOfLog_evalR]
  set Tv := polyVal M I v
  set g := (1 + M.u) ^ K - 1 with hg
  have hg0 : 0 ≤ g := growth_nonneg M.hu K
  have hu := M.hu
  have hA := h.A_nonneg
  have hd : |v * Tv + I.k.val - (v * Q + I.k.val)| ≤ v * (g * A) := by
    have : v * Tv + I.k.val - (v * Q + I.k.val) = v * (Tv - Q) := by ring
    rw [this, abs_mul, abs_of_pos hv]
    exact mul_le_mul_of_nonneg_left h.2 hv.le
  have he : |v * Q + I.k.val| ≤ v * A + |I.k.val| := by
    refine (abs_add_le _ _).trans (add_le_add ?_ le_rfl)
    rw [abs_mul, abs_of_pos hv]
    exact mul_le_mul_of_nonneg_left h.1 hv.le
  have h1 := rnd_close M.hu M.h (v * Q + I.k.val) (v * Tv + I.k.val) (v * (g * A)) hd
  refine h1.trans ?_
  have : M.u * (|v * Q + I.k.val| + v * (g * A)) ≤ M.u * (v * A + |I.k.val| + v * (g * A)) :=
    mul_le_mul_of_nonneg_left (by linarith) hu
  have e : (1 + M.u) ^ (K + 1) - 1 = g + M.u * (1 + g) := by rw [hg, pow_succ]; ring
  rw [e]
  nlinarith

/-- **difference of two evaluations**: the stored constant cancels exactly -/
theorem difference_gen (I : IntOfLog (Rounded M) T) {a b Qa Qb Aa Ab : ℝ} {K : ℕ} (ha : 0 < a) (hb : 0 < b)
    (hQa : CtInv M Qa (polyVal M I a) Aa K) (hQb : CtInv M Qb (polyVal M I b) Ab K) :
    |evalR M I b - evalR M I a - (b * Qb - a * Qa)|
      ≤ ((1 + M.u) ^ (K + 1) - 1) * (a * Aa + b * Ab) + 2 * M.u * |I.k.val| := by
  have h1 := eval_vs_ideal M I ha hQa
  have h2 := eval_vs_ideal M I hb hQb
  have e : evalR M I b - evalR M I a - (b * Qb - a * Qa)
      = (evalR M I b - (b * Qb + I.k.val)) - (evalR M I a - (a * Qa + I.k.val)) := by ring
  rw [e]
  refine (abs_sub _ _).trans ?_
  linarith

/-! ### the same with `u ≤ 2⁻⁵³` and explicit constants -/

theorem u_small (hu : M.u ≤ (2 : ℝ) ^ (-53 : ℤ)) : M.u ≤ 1 / 10 ^ 15 := hu.trans (by norm_num)

/-- the computed polynomial value is at most `MQ + C·u·A` when `|Q| ≤ MQ` -/
theorem polyVal_abs_le {v Q A MQ C : ℝ} {K : ℕ} {t : ℝ} (hu : M.u ≤ (2 : ℝ) ^ (-53 : ℤ))
    (h : CtInv M Q t A K) (hQ : |Q| ≤ MQ) (hK : K ≤ 1000) (hC : (K : ℝ) + 1 / 1000 = C) :
    |t| ≤ MQ + C * M.u * A := by
  have h2 := h.2.trans (mul_le_mul_of_nonneg_right (growth_num M.hu hu K hK) h.A_nonneg)
  rw [hC] at h2
  calc |t| = |Q + (t - Q)| := by ring_nf
    _ ≤ |Q| + |t - Q| := abs_add_le _ _
    _ ≤ _ := by linarith

/-- … and at most `(1 + 10⁻¹¹)·A` -/
theorem polyVal_abs_le_A {Q A : ℝ} {K : ℕ} {t : ℝ} (hu : M.u ≤ (2 : ℝ) ^ (-53 : ℤ))
    (h : CtInv M Q t A K) (hK : K ≤ 1000) : |t| ≤ (1 + 1 / 10 ^ 11) * A := by
  have h1 := polyVal_abs_le M (v := 0) hu h h.1 hK rfl
  have hA := h.A_nonneg
  have hu15 := u_small M hu
  have hK' : (K : ℝ) ≤ 1000 := by exact_mod_cast hK
  have hK0 : (0 : ℝ) ≤ K := Nat.cast_nonneg K
  have : ((K : ℝ) + 1 / 1000) * M.u ≤ 1 / 10 ^ 11 := by
    have := mul_le_mul (by linarith : (K : ℝ) + 1 / 1000 ≤ 1001) hu15 M.hu (by norm_num)
    norm_num at this ⊢; linarith
  have := mul_le_mul_of_nonneg_right this hA
  linarith

/-- **(4), generic**: `|F̂(x) − y| ≤ 4.001·u·(|y| + x·(MQ + C·u·A))` -/
theorem knot_num (I : IntOfLog (Rounded M) T) (hk : I.k.val = 0) (hu : M.u ≤ (2 : ℝ) ^ (-53 : ℤ)) (y : ℝ)
    {x Q A MQ C : ℝ} {K : ℕ} (hx : 0 < x) (h : CtInv M Q (polyVal M I x) A K) (hQ : |Q| ≤ MQ)
    (hK : K ≤ 1000) (hC : (K : ℝ) + 1 / 1000 = C) :
    |evalR M (throughKnot M I x y) x - y| ≤ (4 + 1 / 1000) * M.u * (|y| + x * (MQ + C * M.u * A)) := by
  have h0 := knot_gen M I hk x y
  have hT := polyVal_abs_le M (v := x) hu h hQ hK hC
  rw [abs_mul, abs_of_pos hx] at h0
  have g3 := growth_num M.hu hu 3 (by norm_num)
  have g4 := growth_num M.hu hu 4 (by norm_num)
  have hu0 := M.hu
  have a := abs_nonneg y
  have b : 0 ≤ x * |polyVal M I x| := mul_nonneg hx.le (abs_nonneg _)
  have hb : x * |polyVal M I x| ≤ x * (MQ + C * M.u * A) := mul_le_mul_of_nonneg_left hT hx.le
  have m1 := mul_le_mul_of_nonneg_right g3 a
  have m2 := mul_le_mul_of_nonneg_right g4 b
  have m3 : (4 + 1 / 1000) * M.u * (x * |polyVal M I x|) ≤ (4 + 1 / 1000) * M.u * (x * (MQ + C * M.u * A)) :=
    mul_le_mul_of_nonneg_left hb (by positivity)
  norm_num at m1 m2
  nlinarith [mul_nonneg hu0 a]

/-- (4), generic, magnitude form: `|F̂(x) − y| ≤ 4.01·u·(|y| + x·A)` -/
theorem knot_num_S (I : IntOfLog (Rounded M) T) (hk : I.k.val = 0) (hu : M.u ≤ (2 : ℝ) ^ (-53 : ℤ)) (y : ℝ)
    {x Q A : ℝ} {K : ℕ} (hx : 0 < x) (h : CtInv M Q (polyVal M I x) A K) (hK : K ≤ 1000) :
    |evalR M (throughKnot M I x y) x - y| ≤ (4 + 1 / 100) * M.u * (|y| + x * A) := by
  have h0 := knot_gen M I hk x y
  have hT := polyVal_abs_le_A M hu h hK
  rw [abs_mul, abs_of_pos hx] at h0
  have g3 := growth_num M.hu hu 3 (by norm_num)
  have g4 := growth_num M.hu hu 4 (by norm_num)
  have hu0 := M.hu
  have hA := h.A_nonneg
  have a := abs_nonneg y
  have b : 0 ≤ x * |polyVal M I x| := mul_nonneg hx.le (abs_nonneg _)
  have hb : x * |polyVal M I x| ≤ x * ((1 + 1 / 10 ^ 11) * A) := mul_le_mul_of_nonneg_left hT hx.le
  have m1 := mul_le_mul_of_nonneg_right g3 a
  have m2 := mul_le_mul_of_nonneg_right g4 b
  have m3 : (4 + 1 / 1000) * M.u * (x * |polyVal M I x|) ≤ (4 + 1 / 1000) * M.u * (x * ((1 + 1 / 10 ^ 11) * A)) :=
    mul_le_mul_of_nonneg_left hb (by positivity)
  have xA : 0 ≤ M.u * (x * A) := mul_nonneg hu0 (mul_nonneg hx.le hA)
  norm_num at m1 m2
  nlinarith [mul_nonneg hu0 a]

/-- **(5), generic**: `|F̂(b) − F̂(a) − (b·Q_b − a·Q_a)| ≤ C·u·(a·A_a + b·A_b) + 2u|k̂|`, `C = K + 1.001` -/
theorem difference_num (I : IntOfLog (Rounded M) T) (hu : M.u ≤ (2 : ℝ) ^ (-53 : ℤ))
    {a b Qa Qb Aa Ab C : ℝ} {K : ℕ} (ha : 0 < a) (hb : 0 < b)
    (hQa : CtInv M Qa (polyVal M I a) Aa K) (hQb : CtInv M Qb (polyVal M I b) Ab K) (hK : K + 1 ≤ 1000)
    (hC : ((K + 1 : ℕ) : ℝ) + 1 / 1000 = C) :
    |evalR M I b - evalR M I a - (b * Qb - a * Qa)| ≤ C * M.u * (a * Aa + b * Ab) + 2 * M.u * |I.k.val| := by
  have h := difference_gen M I ha hb hQa hQb
  have g := growth_num M.hu hu (K + 1) hK
  rw [hC] at g
  have : 0 ≤ a * Aa + b * Ab :=
    add_nonneg (mul_nonneg ha.le hQa.A_nonneg) (mul_nonneg hb.le hQb.A_nonneg)
  have := mul_le_mul_of_nonneg_right g this
  linarith

/-- the stored constant: `|k̂| ≤ 1.005·(|y| + x·A)` -/
theorem k_abs_num (I : IntOfLog (Rounded M) T) (hk : I.k.val = 0) (hu : M.u ≤ (2 : ℝ) ^ (-53 : ℤ)) (y : ℝ)
    {x Q A : ℝ} {K : ℕ} (hx : 0 < x) (h : CtInv M Q (polyVal M I x) A K) (hK : K ≤ 1000) :
    |(throughKnot M I x y).k.val| ≤ (1 + 1 / 200) * (|y| + x * A) := by
  have h0 := k_abs_le M I hk x y
  have hT := polyVal_abs_le_A M hu h hK
  rw [abs_mul, abs_of_pos hx] at h0
  have hu0 := M.hu
  have hu15 := u_small M hu
  have hA := h.A_nonneg
  have a := abs_nonneg y
  have hb : x * |polyVal M I x| ≤ x * ((1 + 1 / 10 ^ 11) * A) := mul_le_mul_of_nonneg_left hT hx.le
  have b : 0 ≤ x * |polyVal M I x| := mul_nonneg hx.le (abs_nonneg _)
  have xA : 0 ≤ x * A := mul_nonneg hx.le hA
  have s1 : (1 + M.u) ^ 2 ≤ 1 + 1 / 1000 := by nlinarith
  have s2 : |y| + (1 + M.u) * (x * |polyVal M I x|) ≤ (1 + 1 / 1000) * (|y| + x * A) := by nlinarith
  calc _ ≤ _ := h0
    _ ≤ (1 + 1 / 1000) * ((1 + 1 / 1000) * (|y| + x * A)) :=
        mul_le_mul s1 s2 (by positivity) (by norm_num)
    _ ≤ _ := by nlinarith

end generic

/-! ## B. the counting semantics on the generated code -/

/-- `x̂ = rnd (ln v)` as a number of the counting semantics: exact value `ln v`, magnitude `|ln v|`, depth 1 -/
noncomputable def xCt (v : ℝ) : Ct M :=
  ⟨Real.log v, M.rnd (Real.log v), |Real.log v|, 1, true, fun _ => CtInv.lit M _⟩

/-- re-type the invariant of a number of `Ct M` -/
theorem ct_cast {c : Ct M} (hok : c.ok = true) {e a A : ℝ} {k : ℕ} (he : c.e = e) (ha : c.a = a) (hA : c.A = A)
    (hk : c.k ≤ k) : CtInv M e a A k := by
  subst he ha hA
  exact (c.inv hok).mono hk

/-- read the closed-form bound off the invariant, for `u ≤ 2⁻⁵³`, with the constant as a numeral -/
theorem ct_numC {e a A C : ℝ} {k : ℕ} (h : CtInv M e a A k) (hu : M.u ≤ (2 : ℝ) ^ (-53 : ℤ)) (hk : k ≤ 1000)
    (hC : (k : ℝ) + 1 / 1000 = C) : |a - e| ≤ C * M.u * A := by
  rw [← hC]
  exact h.2.trans (mul_le_mul_of_nonneg_right (growth_num M.hu hu k hk) h.A_nonneg)

/-- read the closed-form bound off the invariant, for `u ≤ 2⁻⁵³` -/
theorem ct_num {e a A : ℝ} {k : ℕ} (h : CtInv M e a A k) (hu : M.u ≤ (2 : ℝ) ^ (-53 : ℤ)) (hk : k ≤ 1000) :
    |a - e| ≤ ((k : ℝ) + 1 / 1000) * M.u * A :=
  h.2.trans (mul_le_mul_of_nonneg_right (growth_num M.hu hu k hk) h.A_nonneg)

