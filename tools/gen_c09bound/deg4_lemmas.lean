/-! ## C. degree 4: `IntOfLogPoly4`

The coefficient recurrence of degree 4 divides literals (`1.0/2.0`, …), which is outside the discipline of `Ct M`;
its invariant is composed by hand from the per-operation lemmas (`CtInv.add`, `CtInv.mul`, `ct_litdiv`), and
type-checks against the generated code by `rfl`.  The evaluation bound is `C10Bound.evaluate_rounding`. -/
section deg4
open PP.Lemmas.ExpTail

/-- the generated `indefinite` of `Log<Poly4>` run in rounded arithmetic on the exact coefficients -/
@[reducible] noncomputable def indefR4 (p : Poly4 ℝ) : IntOfLogPoly4 (Rounded M) :=
  HasIntegral.indefinite (⟨p.mapF Rounded.mk⟩ : Log (Poly4 (Rounded M)))

/-- the numbers of an `IntOfLogPoly4 (Rounded M)`, read back as reals -/
@[reducible] def valsOf (Q : IntOfLogPoly4 (Rounded M)) : IntOfLogPoly4 ℝ :=
  ⟨Q.k.val, Q.coeffs.mapF Rounded.val, Q.u.val⟩

/-- the rounded evaluation of an `IntOfLogPoly4` -/
@[reducible] noncomputable def evalR4 (Q : IntOfLogPoly4 (Rounded M)) (v : ℝ) : ℝ :=
  (Evaluate.evaluate Q (⟨v⟩ : Rounded M)).val

/-- … is `C10Bound.evalRounded` of its numbers -/
theorem evalR4_eq (Q : IntOfLogPoly4 (Rounded M)) (v : ℝ) :
    evalR4 M Q v = PP.Props.C10Bound.evalRounded M (valsOf M Q) v := rfl

/-- the magnitudes of the five numbers `(a, b, c, d, u)` of the degree-4 recurrence (`k = 0`):
`|c₀|`, `(|c₀|+|c₁|)/2`, `(…+|c₂|)/3`, `(…+|c₃|)/4`, `(…+|c₄|)·24` -/
noncomputable def Smag4 (p : Poly4 ℝ) : IntOfLogPoly4 ℝ :=
  ⟨0, ⟨|p._0.a0|, (|p._0.a0| + |p._0.a1|) / 2, ((|p._0.a0| + |p._0.a1|) / 2 + |p._0.a2|) / 3,
      (((|p._0.a0| + |p._0.a1|) / 2 + |p._0.a2|) / 3 + |p._0.a3|) / 4⟩,
    ((((|p._0.a0| + |p._0.a1|) / 2 + |p._0.a2|) / 3 + |p._0.a3|) / 4 + |p._0.a4|) * 24⟩

theorem indefR4_k (p : Poly4 ℝ) : (indefR4 M p).k.val = 0 := PP.Lemmas.LinearFP.lit0 M

/-- re-type the magnitude of an invariant -/
theorem ct_re {e a A A' : ℝ} {k k' : ℕ} (h : CtInv M e a A k) (hA : A = A') (hk : k ≤ k') :
    CtInv M e a A' k' := by
  subst hA; exact h.mono hk

/-- **the invariant of the five numbers of the degree-4 recurrence** (exact run, rounded run, magnitude, depth):
depths `0, 6, 12, 18, 21` (each literal quotient `1.0/m` costs three roundings) -/
theorem coeff4_ct (hu : M.u ≤ 1 / 100) (p : Poly4 ℝ) :
    CtInv M (HasIntegral.indefinite (⟨p⟩ : Log (Poly4 ℝ))).coeffs.a0 (indefR4 M p).coeffs.a0.val
      (Smag4 p).coeffs.a0 0 ∧
    CtInv M (HasIntegral.indefinite (⟨p⟩ : Log (Poly4 ℝ))).coeffs.a1 (indefR4 M p).coeffs.a1.val
      (Smag4 p).coeffs.a1 6 ∧
    CtInv M (HasIntegral.indefinite (⟨p⟩ : Log (Poly4 ℝ))).coeffs.a2 (indefR4 M p).coeffs.a2.val
      (Smag4 p).coeffs.a2 12 ∧
    CtInv M (HasIntegral.indefinite (⟨p⟩ : Log (Poly4 ℝ))).coeffs.a3 (indefR4 M p).coeffs.a3.val
      (Smag4 p).coeffs.a3 18 ∧
    CtInv M (HasIntegral.indefinite (⟨p⟩ : Log (Poly4 ℝ))).u (indefR4 M p).u.val (Smag4 p).u 21 := by
  have L : ∀ n : ℤ, 0 < ((n : ℤ) : ℝ) * (10 : ℝ) ^ (0 : ℤ) →
      CtInv M (((1 : ℤ) : ℝ) * (10 : ℝ) ^ (0 : ℤ) / (((n : ℤ) : ℝ) * (10 : ℝ) ^ (0 : ℤ)))
        (M.rnd (M.rnd (((1 : ℤ) : ℝ) * (10 : ℝ) ^ (0 : ℤ)) / M.rnd (((n : ℤ) : ℝ) * (10 : ℝ) ^ (0 : ℤ))))
        (((1 : ℤ) : ℝ) * (10 : ℝ) ^ (0 : ℤ) / (((n : ℤ) : ℝ) * (10 : ℝ) ^ (0 : ℤ))) 4 :=
    fun n h => ct_litdiv M hu (by norm_num) h
  have h0 := (CtInv.inp M p._0.a0).neg
  have h1 := (h0.add (CtInv.inp M p._0.a1)).mul (L 2 (by norm_num))
  have h2 := (h1.sub (CtInv.inp M p._0.a2)).mul (L 3 (by norm_num))
  have h3 := (h2.add (CtInv.inp M p._0.a3)).mul (L 4 (by norm_num))
  have h4 := (h3.sub (CtInv.inp M p._0.a4)).mul (CtInv.lit M (((24 : ℤ) : ℝ) * (10 : ℝ) ^ (0 : ℤ)))
  refine ⟨ct_re M h0 rfl le_rfl, ct_re M h1 ?_ (by decide), ct_re M h2 ?_ (by decide),
    ct_re M h3 ?_ (by decide), ct_re M h4 ?_ (by decide)⟩
  all_goals simp only [Smag4]; norm_num; try ring

/-- the bracket `cr` of the generated `IntOfLogPoly4::evaluate` does not depend on the constant `k`:
the evaluation is `rnd (v·cr + k)` -/
theorem exists_cr (Q : IntOfLogPoly4 (Rounded M)) (v : ℝ) :
    ∃ cr : ℝ, ∀ k : Rounded M, evalR4 M { Q with k := k } v = M.rnd (v * cr + k.val) := by
  simp only [evalR4, Evaluate.evaluate, inst_Evaluate_IntOfLogPoly4.evaluate]
  exact ⟨_, fun _ => rfl⟩

/-- the body of the generated `integral` of `Log<Poly4>` -/
@[reducible] noncomputable def throughKnot4 (Q : IntOfLogPoly4 (Rounded M)) (x y : ℝ) : IntOfLogPoly4 (Rounded M) :=
  Translate.translate Q (PSub.sub (⟨y⟩ : Rounded M) (Evaluate.evaluate Q (⟨x⟩ : Rounded M)))

/-- **F̂(knot.x) against knot.y, degree 4**: `g₃|y| + g₄·|E₀|/(1−u)`, `E₀` the rounded value of the indefinite
integral at the knot -/
theorem knot4_gen (Q : IntOfLogPoly4 (Rounded M)) (hk : Q.k.val = 0) (x y : ℝ) :
    |evalR4 M (throughKnot4 M Q x y) x - y|
        ≤ ((1 + M.u) ^ 3 - 1) * |y| + ((1 + M.u) ^ 4 - 1) * (|evalR4 M Q x| / (1 - M.u)) ∧
    |(throughKnot4 M Q x y).k.val| ≤ (1 + M.u) ^ 2 * (|y| + (1 + M.u) * (|evalR4 M Q x| / (1 - M.u))) := by
  obtain ⟨cr, hcr⟩ := exists_cr M Q x
  have hQ : evalR4 M Q x = M.rnd (x * cr) := by
    have := hcr Q.k
    rw [hk, add_zero] at this
    exact this
  have hFk : (throughKnot4 M Q x y).k.val = M.rnd (M.rnd (y - M.rnd (x * cr))) := by
    show M.rnd (Q.k.val + M.rnd (y - evalR4 M Q x)) = _
    rw [hk, zero_add, hQ]
  have hF : evalR4 M (throughKnot4 M Q x y) x = M.rnd (x * cr + (throughKnot4 M Q x y).k.val) :=
    hcr (throughKnot4 M Q x y).k
  have hu := M.hu
  have hu1 := M.hu1
  have h1u : 0 < 1 - M.u := by linarith
  have hxc : |x * cr| ≤ |evalR4 M Q x| / (1 - M.u) := by
    rw [le_div_iff₀ h1u, hQ]
    have h := M.h (x * cr)
    have : |x * cr| ≤ |M.rnd (x * cr)| + |M.rnd (x * cr) - x * cr| := by
      calc |x * cr| = |M.rnd (x * cr) - (M.rnd (x * cr) - x * cr)| := by ring_nf
        _ ≤ _ := abs_sub _ _
    nlinarith
  constructor
  · rw [hF, hFk]
    refine (knot_core M cr x y).trans ?_
    have := mul_le_mul_of_nonneg_left hxc (growth_nonneg M.hu 4)
    linarith
  · rw [hFk]
    refine (k_core M cr x y).trans ?_
    have h1 : (1 + M.u) * |x * cr| ≤ (1 + M.u) * (|evalR4 M Q x| / (1 - M.u)) :=
      mul_le_mul_of_nonneg_left hxc (by linarith)
    exact mul_le_mul_of_nonneg_left (by linarith) (by positivity)

/-! ### the ideal value `C10.ideal` and the magnitude `C10Bound.Mag`, as a linear form in the five numbers -/

/-- `|v·(w₀X + w₁X² + w₂X³ + w₃X⁴) + w_u·v·X⁵·R| ≤ v·(b₀|X| + … + b₃|X|⁴) + b_u·v·|X|⁵·R` when `|w_j| ≤ b_j` -/
theorem lin_abs_le {w0 w1 w2 w3 wu b0 b1 b2 b3 bu v X Rr : ℝ} (hv : 0 ≤ v) (hR : 0 ≤ Rr)
    (h0 : |w0| ≤ b0) (h1 : |w1| ≤ b1) (h2 : |w2| ≤ b2) (h3 : |w3| ≤ b3) (h4 : |wu| ≤ bu) :
    |v * (w0 * X + w1 * X ^ 2 + w2 * X ^ 3 + w3 * X ^ 4) + wu * v * X ^ 5 * Rr|
      ≤ v * (b0 * |X| + b1 * |X| ^ 2 + b2 * |X| ^ 3 + b3 * |X| ^ 4) + bu * v * |X| ^ 5 * Rr := by
  have hX := abs_nonneg X
  have e0 : |w0 * X| ≤ b0 * |X| := by rw [abs_mul]; exact mul_le_mul_of_nonneg_right h0 hX
  have e1 : |w1 * X ^ 2| ≤ b1 * |X| ^ 2 := by
    rw [abs_mul, abs_pow]; exact mul_le_mul_of_nonneg_right h1 (by positivity)
  have e2 : |w2 * X ^ 3| ≤ b2 * |X| ^ 3 := by
    rw [abs_mul, abs_pow]; exact mul_le_mul_of_nonneg_right h2 (by positivity)
  have e3 : |w3 * X ^ 4| ≤ b3 * |X| ^ 4 := by
    rw [abs_mul, abs_pow]; exact mul_le_mul_of_nonneg_right h3 (by positivity)
  have e4 : |wu * v * X ^ 5 * Rr| ≤ bu * v * |X| ^ 5 * Rr := by
    rw [abs_mul, abs_mul, abs_mul, abs_pow, abs_of_nonneg hv, abs_of_nonneg hR]
    exact mul_le_mul_of_nonneg_right (mul_le_mul_of_nonneg_right
      (mul_le_mul_of_nonneg_right h4 hv) (by positivity)) hR
  have e5 : |w0 * X + w1 * X ^ 2 + w2 * X ^ 3 + w3 * X ^ 4|
      ≤ b0 * |X| + b1 * |X| ^ 2 + b2 * |X| ^ 3 + b3 * |X| ^ 4 := by
    refine (abs_add_le _ _).trans (add_le_add ((abs_add_le _ _).trans (add_le_add
      ((abs_add_le _ _).trans (add_le_add e0 e1)) e2)) e3)
  refine (abs_add_le _ _).trans (add_le_add ?_ e4)
  rw [abs_mul, abs_of_nonneg hv]
  exact mul_le_mul_of_nonneg_left e5 hv

/-- `|ideal q v| ≤ Mag q v` for `v > 0` -/
theorem abs_ideal_le_Mag (q : IntOfLogPoly4 ℝ) {v : ℝ} (hv : 0 < v) :
    |PP.Props.C10.ideal q v| ≤ PP.Props.C10Bound.Mag q v := by
  have h := lin_abs_le (X := -Real.log v) hv.le (R_nonneg (-Real.log v)) (le_refl |q.coeffs.a0|)
    (le_refl |q.coeffs.a1|) (le_refl |q.coeffs.a2|) (le_refl |q.coeffs.a3|) (le_refl |q.u|)
  simp only [PP.Props.C10.ideal, PP.Props.C10Bound.Mag]
  calc _ = |q.k + (v * (q.coeffs.a0 * (-Real.log v) + q.coeffs.a1 * (-Real.log v) ^ 2
        + q.coeffs.a2 * (-Real.log v) ^ 3 + q.coeffs.a3 * (-Real.log v) ^ 4)
        + q.u * v * (-Real.log v) ^ 5 * R (-Real.log v))| := by ring_nf
    _ ≤ |q.k| + _ := abs_add_le _ _
    _ ≤ _ := by linarith

/-- the magnitude is monotone and homogeneous in the magnitudes of the numbers -/
theorem Mag_le_of_coeffs {q s : IntOfLogPoly4 ℝ} {c v : ℝ} (hv : 0 < v) (hk : |q.k| ≤ c * |s.k|)
    (h0 : |q.coeffs.a0| ≤ c * |s.coeffs.a0|) (h1 : |q.coeffs.a1| ≤ c * |s.coeffs.a1|)
    (h2 : |q.coeffs.a2| ≤ c * |s.coeffs.a2|) (h3 : |q.coeffs.a3| ≤ c * |s.coeffs.a3|)
    (h4 : |q.u| ≤ c * |s.u|) :
    PP.Props.C10Bound.Mag q v ≤ c * PP.Props.C10Bound.Mag s v := by
  simp only [PP.Props.C10Bound.Mag]
  have hX := abs_nonneg (-Real.log v)
  have hR := R_nonneg (-Real.log v)
  have e0 := mul_le_mul_of_nonneg_right h0 hX
  have e1 := mul_le_mul_of_nonneg_right h1 (by positivity : 0 ≤ |-Real.log v| ^ 2)
  have e2 := mul_le_mul_of_nonneg_right h2 (by positivity : 0 ≤ |-Real.log v| ^ 3)
  have e3 := mul_le_mul_of_nonneg_right h3 (by positivity : 0 ≤ |-Real.log v| ^ 4)
  have e4 := mul_le_mul_of_nonneg_right h4 (by positivity : 0 ≤ v * |-Real.log v| ^ 5 * R (-Real.log v))
  have e5 := mul_le_mul_of_nonneg_left (add_le_add (add_le_add (add_le_add e0 e1) e2) e3) hv.le
  calc _ ≤ c * |s.k| + v * (c * |s.coeffs.a0| * |-Real.log v| + c * |s.coeffs.a1| * |-Real.log v| ^ 2
        + c * |s.coeffs.a2| * |-Real.log v| ^ 3 + c * |s.coeffs.a3| * |-Real.log v| ^ 4)
        + c * |s.u| * (v * |-Real.log v| ^ 5 * R (-Real.log v)) := by
        have : |q.u| * v * |-Real.log v| ^ 5 * R (-Real.log v)
            = |q.u| * (v * |-Real.log v| ^ 5 * R (-Real.log v)) := by ring
        rw [this]
        linarith
    _ = _ := by ring

/-- the ideal values of two sets of numbers whose coefficients are `ε`-close relative to the magnitudes `s`
(with `s.k = 0`) differ, up to their constants, by at most `ε·Mag s v` -/
theorem ideal_close {q q' s : IntOfLogPoly4 ℝ} {ε v : ℝ} (hv : 0 < v) (hs : s.k = 0)
    (h0 : |q.coeffs.a0 - q'.coeffs.a0| ≤ ε * s.coeffs.a0) (h1 : |q.coeffs.a1 - q'.coeffs.a1| ≤ ε * s.coeffs.a1)
    (h2 : |q.coeffs.a2 - q'.coeffs.a2| ≤ ε * s.coeffs.a2) (h3 : |q.coeffs.a3 - q'.coeffs.a3| ≤ ε * s.coeffs.a3)
    (h4 : |q.u - q'.u| ≤ ε * s.u)
    (p0 : 0 ≤ s.coeffs.a0) (p1 : 0 ≤ s.coeffs.a1) (p2 : 0 ≤ s.coeffs.a2) (p3 : 0 ≤ s.coeffs.a3) (p4 : 0 ≤ s.u) :
    |(PP.Props.C10.ideal q v - q.k) - (PP.Props.C10.ideal q' v - q'.k)| ≤ ε * PP.Props.C10Bound.Mag s v := by
  have h := lin_abs_le (X := -Real.log v) hv.le (R_nonneg (-Real.log v)) h0 h1 h2 h3 h4
  simp only [PP.Props.C10.ideal, PP.Props.C10Bound.Mag, hs, abs_zero, abs_of_nonneg p0, abs_of_nonneg p1,
    abs_of_nonneg p2, abs_of_nonneg p3, abs_of_nonneg p4]
  calc _ = |v * ((q.coeffs.a0 - q'.coeffs.a0) * (-Real.log v) + (q.coeffs.a1 - q'.coeffs.a1) * (-Real.log v) ^ 2
          + (q.coeffs.a2 - q'.coeffs.a2) * (-Real.log v) ^ 3 + (q.coeffs.a3 - q'.coeffs.a3) * (-Real.log v) ^ 4)
          + (q.u - q'.u) * v * (-Real.log v) ^ 5 * R (-Real.log v)| := by ring_nf
    _ ≤ _ := h
    _ = _ := by ring

/-- `C10.ideal` is the closed-form evaluation `C09.evalWith exp_5_tail_anal` (at `v = 1` the factor `X⁵` vanishes) -/
theorem ideal_eq_evalWith (q : IntOfLogPoly4 ℝ) (v : ℝ) :
    PP.Props.C10.ideal q v = PP.Props.C09.evalWith LogPoly.taylor.exp_5_tail_anal q v := by
  simp only [PP.Props.C10.ideal, PP.Props.C09.evalWith]
  by_cases h0 : -Real.log v = 0
  · rw [h0]; ring
  · rw [PP.Props.C10.tail_anal_eq_R h0]; ring

/-- **the exact integral, degree 4**: `ideal (indefinite ⟨p⟩) b − ideal (indefinite ⟨p⟩) a = ∫_a^b p(ln t) dt` -/
theorem ideal_ftc (p : Poly4 ℝ) (a b : ℝ) (ha : 0 < a) (hb : 0 < b) :
    PP.Props.C10.ideal (HasIntegral.indefinite (⟨p⟩ : Log (Poly4 ℝ))) b
        - PP.Props.C10.ideal (HasIntegral.indefinite (⟨p⟩ : Log (Poly4 ℝ))) a
      = ∫ t in a..b, Evaluate.evaluate (⟨p⟩ : Log (Poly4 ℝ)) t := by
  rw [ideal_eq_evalWith, ideal_eq_evalWith]
  exact PP.Props.C09.logpoly4_indefinite_closed_ftc p a b ha hb

theorem Smag4_nonneg (p : Poly4 ℝ) :
    0 ≤ (Smag4 p).coeffs.a0 ∧ 0 ≤ (Smag4 p).coeffs.a1 ∧ 0 ≤ (Smag4 p).coeffs.a2 ∧ 0 ≤ (Smag4 p).coeffs.a3
      ∧ 0 ≤ (Smag4 p).u := by
  simp only [Smag4]
  refine ⟨?_, ?_, ?_, ?_, ?_⟩ <;> positivity

end deg4

