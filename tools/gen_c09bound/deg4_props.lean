/-! ## degree 4 (`IntOfLogPoly4`) -/
section deg4
open PP.Lemmas.ExpTail

/-- the magnitude of degree 4: `C10Bound.Mag` of the magnitudes `Smag4 p` of the five numbers, i.e.
`v·(S_a|X| + S_b|X|² + S_c|X|³ + S_d|X|⁴) + S_u·v·|X|⁵·R(X)`, `X = −ln v` -/
noncomputable def MagS4 (p : Poly4 ℝ) (v : ℝ) : ℝ := PP.Props.C10Bound.Mag (Smag4 p) v

theorem MagS4_nonneg (p : Poly4 ℝ) {v : ℝ} (hv : 0 < v) : 0 ≤ MagS4 p v :=
  PP.Props.C10Bound.Mag_nonneg _ hv

theorem u100 (hu : M.u ≤ (2 : ℝ) ^ (-53 : ℤ)) : M.u ≤ 1 / 100 := by
  have := PP.Lemmas.LogIntFP.u_small M hu
  linarith

/-- **(6) the numbers of the degree-4 form** `(a, b, c, d, u)` computed by the rounded `indefinite`:
`a = −c₀` exactly; the others within `(κ + 0.001)·u·S`, `κ = 6, 12, 18, 21`, of the exact ones, `S` the
magnitudes `Smag4` (`(|c₀|+|c₁|)/2`, …) -/
theorem logpoly4_coeff_rounding (hu : M.u ≤ (2 : ℝ) ^ (-53 : ℤ)) (p : Poly4 ℝ) :
    (indefR4 M p).coeffs.a0.val = (HasIntegral.indefinite (⟨p⟩ : Log (Poly4 ℝ))).coeffs.a0 ∧
    |(indefR4 M p).coeffs.a1.val - (HasIntegral.indefinite (⟨p⟩ : Log (Poly4 ℝ))).coeffs.a1|
      ≤ (6 + 1 / 1000) * M.u * (Smag4 p).coeffs.a1 ∧
    |(indefR4 M p).coeffs.a2.val - (HasIntegral.indefinite (⟨p⟩ : Log (Poly4 ℝ))).coeffs.a2|
      ≤ (12 + 1 / 1000) * M.u * (Smag4 p).coeffs.a2 ∧
    |(indefR4 M p).coeffs.a3.val - (HasIntegral.indefinite (⟨p⟩ : Log (Poly4 ℝ))).coeffs.a3|
      ≤ (18 + 1 / 1000) * M.u * (Smag4 p).coeffs.a3 ∧
    |(indefR4 M p).u.val - (HasIntegral.indefinite (⟨p⟩ : Log (Poly4 ℝ))).u|
      ≤ (21 + 1 / 1000) * M.u * (Smag4 p).u := by
  obtain ⟨h0, h1, h2, h3, h4⟩ := coeff4_ct M (u100 M hu) p
  exact ⟨rfl, ct_numC M h1 hu (by norm_num) (by norm_num), ct_numC M h2 hu (by norm_num) (by norm_num),
    ct_numC M h3 hu (by norm_num) (by norm_num), ct_numC M h4 hu (by norm_num) (by norm_num)⟩

/-- uniform forms of (6): every number is within `21.001·u·S` of the exact one and at most `(1 + 10⁻¹³)·S` -/
theorem coeff4_uniform (hu : M.u ≤ (2 : ℝ) ^ (-53 : ℤ)) (p : Poly4 ℝ) :
    (|(indefR4 M p).coeffs.a0.val - (HasIntegral.indefinite (⟨p⟩ : Log (Poly4 ℝ))).coeffs.a0|
        ≤ (21 + 1 / 1000) * M.u * (Smag4 p).coeffs.a0 ∧
     |(indefR4 M p).coeffs.a1.val - (HasIntegral.indefinite (⟨p⟩ : Log (Poly4 ℝ))).coeffs.a1|
        ≤ (21 + 1 / 1000) * M.u * (Smag4 p).coeffs.a1 ∧
     |(indefR4 M p).coeffs.a2.val - (HasIntegral.indefinite (⟨p⟩ : Log (Poly4 ℝ))).coeffs.a2|
        ≤ (21 + 1 / 1000) * M.u * (Smag4 p).coeffs.a2 ∧
     |(indefR4 M p).coeffs.a3.val - (HasIntegral.indefinite (⟨p⟩ : Log (Poly4 ℝ))).coeffs.a3|
        ≤ (21 + 1 / 1000) * M.u * (Smag4 p).coeffs.a3 ∧
     |(indefR4 M p).u.val - (HasIntegral.indefinite (⟨p⟩ : Log (Poly4 ℝ))).u|
        ≤ (21 + 1 / 1000) * M.u * (Smag4 p).u) ∧
    (|(indefR4 M p).coeffs.a0.val| ≤ (1 + 1 / 10 ^ 13) * |(Smag4 p).coeffs.a0| ∧
     |(indefR4 M p).coeffs.a1.val| ≤ (1 + 1 / 10 ^ 13) * |(Smag4 p).coeffs.a1| ∧
     |(indefR4 M p).coeffs.a2.val| ≤ (1 + 1 / 10 ^ 13) * |(Smag4 p).coeffs.a2| ∧
     |(indefR4 M p).coeffs.a3.val| ≤ (1 + 1 / 10 ^ 13) * |(Smag4 p).coeffs.a3| ∧
     |(indefR4 M p).u.val| ≤ (1 + 1 / 10 ^ 13) * |(Smag4 p).u|) := by
  obtain ⟨h0, h1, h2, h3, h4⟩ := coeff4_ct M (u100 M hu) p
  have hu15 := PP.Lemmas.LogIntFP.u_small M hu
  have hu0 := M.hu
  have key : ∀ {e a A : ℝ} {k : ℕ}, CtInv M e a A k → k ≤ 21 →
      |a - e| ≤ (21 + 1 / 1000) * M.u * A ∧ |a| ≤ (1 + 1 / 10 ^ 13) * |A| := by
    intro e a A k h hk
    have hA := h.A_nonneg
    have h1 : |a - e| ≤ (21 + 1 / 1000) * M.u * A :=
      ct_numC M (h.mono hk) hu (by norm_num) (by norm_num)
    refine ⟨h1, ?_⟩
    rw [abs_of_nonneg hA]
    have : |a| ≤ |e| + |a - e| := by
      calc |a| = |e + (a - e)| := by ring_nf
        _ ≤ _ := abs_add_le _ _
    have h2 := h.1
    have : (21 + 1 / 1000) * M.u * A ≤ 1 / 10 ^ 13 * A := by
      apply mul_le_mul_of_nonneg_right _ hA
      nlinarith
    linarith
  exact ⟨⟨(key h0 (by norm_num)).1, (key h1 (by norm_num)).1, (key h2 (by norm_num)).1,
    (key h3 (by norm_num)).1, (key h4 (by norm_num)).1⟩,
    ⟨(key h0 (by norm_num)).2, (key h1 (by norm_num)).2, (key h2 (by norm_num)).2,
    (key h3 (by norm_num)).2, (key h4 (by norm_num)).2⟩⟩

/-- the magnitude of the computed numbers (any constant `k`) is `|k| + (1 + 10⁻¹³)·MagS4` at most -/
theorem Mag_computed_le (hu : M.u ≤ (2 : ℝ) ^ (-53 : ℤ)) (p : Poly4 ℝ) (k : ℝ) {v : ℝ} (hv : 0 < v) :
    PP.Props.C10Bound.Mag (⟨k, (indefR4 M p).coeffs.mapF Rounded.val, (indefR4 M p).u.val⟩ : IntOfLogPoly4 ℝ) v
      ≤ |k| + (1 + 1 / 10 ^ 13) * MagS4 p v := by
  obtain ⟨-, c0, c1, c2, c3, c4⟩ := coeff4_uniform M hu p
  have h := Mag_le_of_coeffs
    (q := (⟨0, (indefR4 M p).coeffs.mapF Rounded.val, (indefR4 M p).u.val⟩ : IntOfLogPoly4 ℝ))
    (s := Smag4 p) (c := 1 + 1 / 10 ^ 13) hv (by simp [Smag4]) c0 c1 c2 c3 c4
  have e : PP.Props.C10Bound.Mag
      (⟨k, (indefR4 M p).coeffs.mapF Rounded.val, (indefR4 M p).u.val⟩ : IntOfLogPoly4 ℝ) v
      = |k| + PP.Props.C10Bound.Mag
        (⟨0, (indefR4 M p).coeffs.mapF Rounded.val, (indefR4 M p).u.val⟩ : IntOfLogPoly4 ℝ) v := by
    simp only [PP.Props.C10Bound.Mag, abs_zero]; ring
  rw [e, MagS4]
  linarith

/-- the rounded value of the indefinite integral (degree 4) is at most `(1 + 2·10⁻¹²)·MagS4` -/
theorem indef4_abs_le (hu : M.u ≤ (2 : ℝ) ^ (-53 : ℤ)) (p : Poly4 ℝ) {v : ℝ} (hv : 0 < v)
    (hL : |Real.log v| ≤ 1000) : |evalR4 M (indefR4 M p) v| ≤ (1 + 2 / 10 ^ 12) * MagS4 p v := by
  have hr := PP.Props.C10Bound.evaluate_rounding M hu (valsOf M (indefR4 M p)) hv hL
  have hi := abs_ideal_le_Mag (valsOf M (indefR4 M p)) hv
  have hm : PP.Props.C10Bound.Mag (valsOf M (indefR4 M p)) v
      ≤ |(indefR4 M p).k.val| + (1 + 1 / 10 ^ 13) * MagS4 p v := Mag_computed_le M hu p _ hv
  have h0 : |(indefR4 M p).k.val| = 0 := by rw [indefR4_k, abs_zero]
  have hS := MagS4_nonneg p hv
  have : |evalR4 M (indefR4 M p) v| ≤ |PP.Props.C10.ideal (valsOf M (indefR4 M p)) v|
      + |evalR4 M (indefR4 M p) v - PP.Props.C10.ideal (valsOf M (indefR4 M p)) v| := by
    calc |evalR4 M (indefR4 M p) v| = |PP.Props.C10.ideal (valsOf M (indefR4 M p)) v
          + (evalR4 M (indefR4 M p) v - PP.Props.C10.ideal (valsOf M (indefR4 M p)) v)| := by ring_nf
      _ ≤ _ := abs_add_le _ _
  have hr' : |evalR4 M (indefR4 M p) v - PP.Props.C10.ideal (valsOf M (indefR4 M p)) v|
      ≤ 1 / 10 ^ 12 * PP.Props.C10Bound.Mag (valsOf M (indefR4 M p)) v := hr
  nlinarith

/-- **(4) F̂(knot.x) = knot.y within the rounding bound, degree 4**: for `knot.x > 0`, `|ln knot.x| ≤ 1000`,
`|F̂(knot.x) − knot.y| ≤ 4.01·u·(|knot.y| + MagS4 p knot.x)` -/
theorem logpoly4_knot_rounding (hu : M.u ≤ (2 : ℝ) ^ (-53 : ℤ)) (p : Poly4 ℝ) (knot : Knot ℝ) (hx : 0 < knot.x)
    (hL : |Real.log knot.x| ≤ 1000) :
    |evalR4 M (HasIntegral.integral (⟨p.mapF Rounded.mk⟩ : Log (Poly4 (Rounded M))) (knot.mapF Rounded.mk)) knot.x
        - knot.y| ≤ (4 + 1 / 100) * M.u * (|knot.y| + MagS4 p knot.x) := by
  have h := (knot4_gen M (indefR4 M p) (indefR4_k M p) knot.x knot.y).1
  refine h.trans ?_
  have hE := indef4_abs_le M hu p hx hL
  have hS := MagS4_nonneg p hx
  have hu0 := M.hu
  have hu15 := PP.Lemmas.LogIntFP.u_small M hu
  have g3 := growth_num M.hu hu 3 (by norm_num)
  have g4 := growth_num M.hu hu 4 (by norm_num)
  have h1u : 0 < 1 - M.u := by linarith
  have hq : |evalR4 M (indefR4 M p) knot.x| / (1 - M.u) ≤ (1 + 3 / 10 ^ 12) * MagS4 p knot.x := by
    rw [div_le_iff₀ h1u]
    nlinarith
  have a := abs_nonneg knot.y
  have q0 : 0 ≤ |evalR4 M (indefR4 M p) knot.x| / (1 - M.u) := div_nonneg (abs_nonneg _) h1u.le
  have m1 := mul_le_mul_of_nonneg_right g3 a
  have m2 := mul_le_mul_of_nonneg_right g4 q0
  have m3 : (4 + 1 / 1000) * M.u * (|evalR4 M (indefR4 M p) knot.x| / (1 - M.u))
      ≤ (4 + 1 / 1000) * M.u * ((1 + 3 / 10 ^ 12) * MagS4 p knot.x) :=
    mul_le_mul_of_nonneg_left hq (by positivity)
  have uS := mul_nonneg hu0 hS
  norm_num at m1 m2
  nlinarith [mul_nonneg hu0 a]

/-- the stored constant, degree 4: `|k̂| ≤ 1.005·(|knot.y| + MagS4 p knot.x)` -/
theorem logpoly4_k_abs (hu : M.u ≤ (2 : ℝ) ^ (-53 : ℤ)) (p : Poly4 ℝ) (knot : Knot ℝ) (hx : 0 < knot.x)
    (hL : |Real.log knot.x| ≤ 1000) :
    |(HasIntegral.integral (⟨p.mapF Rounded.mk⟩ : Log (Poly4 (Rounded M))) (knot.mapF Rounded.mk)).k.val|
      ≤ (1 + 1 / 200) * (|knot.y| + MagS4 p knot.x) := by
  have h := (knot4_gen M (indefR4 M p) (indefR4_k M p) knot.x knot.y).2
  refine h.trans ?_
  have hE := indef4_abs_le M hu p hx hL
  have hS := MagS4_nonneg p hx
  have hu0 := M.hu
  have hu15 := PP.Lemmas.LogIntFP.u_small M hu
  have h1u : 0 < 1 - M.u := by linarith
  have hq : |evalR4 M (indefR4 M p) knot.x| / (1 - M.u) ≤ (1 + 3 / 10 ^ 12) * MagS4 p knot.x := by
    rw [div_le_iff₀ h1u]
    nlinarith
  have a := abs_nonneg knot.y
  have s1 : (1 + M.u) ^ 2 ≤ 1 + 1 / 1000 := by nlinarith
  have s2 : |knot.y| + (1 + M.u) * (|evalR4 M (indefR4 M p) knot.x| / (1 - M.u))
      ≤ (1 + 1 / 1000) * (|knot.y| + MagS4 p knot.x) := by nlinarith
  calc _ ≤ (1 + 1 / 1000) * ((1 + 1 / 1000) * (|knot.y| + MagS4 p knot.x)) :=
        mul_le_mul s1 s2 (by positivity) (by norm_num)
    _ ≤ _ := by nlinarith

/-- (5), degree 4, core: the numbers `(a, b, c, d, u)` of the rounded `indefinite` with **any** constant `k̂` -/
theorem logpoly4_difference_core (hu : M.u ≤ (2 : ℝ) ^ (-53 : ℤ)) (p : Poly4 ℝ) (k : Rounded M)
    (a b : ℝ) (ha : 0 < a) (hb : 0 < b) (hLa : |Real.log a| ≤ 1000) (hLb : |Real.log b| ≤ 1000) :
    |evalR4 M { indefR4 M p with k := k } b - evalR4 M { indefR4 M p with k := k } a
        - ∫ t in a..b, Evaluate.evaluate (⟨p⟩ : Log (Poly4 ℝ)) t|
      ≤ (1 + 3 / 1000) / 10 ^ 12 * (MagS4 p a + MagS4 p b + 2 * |k.val|) := by
  set F : IntOfLogPoly4 (Rounded M) := { indefR4 M p with k := k } with hF
  set E := HasIntegral.indefinite (⟨p⟩ : Log (Poly4 ℝ)) with hE
  have hEk : E.k = 0 := PP.Props.C09.logpoly4_indefinite_k p
  obtain ⟨⟨d0, d1, d2, d3, d4⟩, -⟩ := coeff4_uniform M hu p
  obtain ⟨p0, p1, p2, p3, p4⟩ := Smag4_nonneg p
  have hu0 := M.hu
  have hu15 := PP.Lemmas.LogIntFP.u_small M hu
  -- evaluation against the ideal value of the computed numbers
  have rb : |evalR4 M F b - PP.Props.C10.ideal (valsOf M F) b|
      ≤ 1 / 10 ^ 12 * PP.Props.C10Bound.Mag (valsOf M F) b :=
    PP.Props.C10Bound.evaluate_rounding M hu (valsOf M F) hb hLb
  have ra : |evalR4 M F a - PP.Props.C10.ideal (valsOf M F) a|
      ≤ 1 / 10 ^ 12 * PP.Props.C10Bound.Mag (valsOf M F) a :=
    PP.Props.C10Bound.evaluate_rounding M hu (valsOf M F) ha hLa
  -- the magnitudes of the computed numbers
  have mb : PP.Props.C10Bound.Mag (valsOf M F) b ≤ |k.val| + (1 + 1 / 10 ^ 13) * MagS4 p b :=
    Mag_computed_le M hu p k.val hb
  have ma : PP.Props.C10Bound.Mag (valsOf M F) a ≤ |k.val| + (1 + 1 / 10 ^ 13) * MagS4 p a :=
    Mag_computed_le M hu p k.val ha
  -- the ideal value of the computed numbers against that of the exact ones
  have cb : |(PP.Props.C10.ideal (valsOf M F) b - (valsOf M F).k) - (PP.Props.C10.ideal E b - E.k)|
      ≤ (21 + 1 / 1000) * M.u * MagS4 p b :=
    ideal_close (q := valsOf M F) (q' := E) (s := Smag4 p) hb rfl d0 d1 d2 d3 d4 p0 p1 p2 p3 p4
  have ca : |(PP.Props.C10.ideal (valsOf M F) a - (valsOf M F).k) - (PP.Props.C10.ideal E a - E.k)|
      ≤ (21 + 1 / 1000) * M.u * MagS4 p a :=
    ideal_close (q := valsOf M F) (q' := E) (s := Smag4 p) ha rfl d0 d1 d2 d3 d4 p0 p1 p2 p3 p4
  rw [← ideal_ftc p a b ha hb, ← hE]
  have hSa := MagS4_nonneg p ha
  have hSb := MagS4_nonneg p hb
  have hk := abs_nonneg k.val
  have e : evalR4 M F b - evalR4 M F a - (PP.Props.C10.ideal E b - PP.Props.C10.ideal E a)
      = (evalR4 M F b - PP.Props.C10.ideal (valsOf M F) b)
        - (evalR4 M F a - PP.Props.C10.ideal (valsOf M F) a)
        + ((PP.Props.C10.ideal (valsOf M F) b - (valsOf M F).k) - (PP.Props.C10.ideal E b - E.k))
        - ((PP.Props.C10.ideal (valsOf M F) a - (valsOf M F).k) - (PP.Props.C10.ideal E a - E.k)) := by ring
  rw [e]
  have t1 := abs_sub (evalR4 M F b - PP.Props.C10.ideal (valsOf M F) b)
    (evalR4 M F a - PP.Props.C10.ideal (valsOf M F) a)
  have t2 := abs_add_le ((evalR4 M F b - PP.Props.C10.ideal (valsOf M F) b)
        - (evalR4 M F a - PP.Props.C10.ideal (valsOf M F) a))
    ((PP.Props.C10.ideal (valsOf M F) b - (valsOf M F).k) - (PP.Props.C10.ideal E b - E.k))
  have t3 := abs_sub ((evalR4 M F b - PP.Props.C10.ideal (valsOf M F) b)
        - (evalR4 M F a - PP.Props.C10.ideal (valsOf M F) a)
        + ((PP.Props.C10.ideal (valsOf M F) b - (valsOf M F).k) - (PP.Props.C10.ideal E b - E.k)))
    ((PP.Props.C10.ideal (valsOf M F) a - (valsOf M F).k) - (PP.Props.C10.ideal E a - E.k))
  have uSa := mul_nonneg hu0 hSa
  have uSb := mul_nonneg hu0 hSb
  have hu21 : (21 + 1 / 1000) * M.u ≤ 29 / 10 ^ 16 := by
    have : M.u ≤ 1110224 / 10 ^ 22 := hu.trans (by norm_num)
    linarith
  have c1 := mul_le_mul_of_nonneg_right hu21 hSa
  have c2 := mul_le_mul_of_nonneg_right hu21 hSb
  nlinarith

/-- **(5) `integral_difference_rounding`, degree 4**: for `a, b > 0` with `|ln a|, |ln b| ≤ 1000`,
`|F̂(b) − F̂(a) − ∫_a^b p(ln t) dt| ≤ 1.003·10⁻¹²·(MagS4 p a + MagS4 p b + 2|k̂|)`
(`10⁻¹²` is the evaluation bound of C10, which contains the truncation `6·10⁻¹⁴` of the series branch — hence not
a multiple of `u`; the coefficient errors contribute `21.001·u`). -/
theorem logpoly4_integral_difference_rounding (hu : M.u ≤ (2 : ℝ) ^ (-53 : ℤ)) (p : Poly4 ℝ) (knot : Knot ℝ)
    (a b : ℝ) (ha : 0 < a) (hb : 0 < b) (hLa : |Real.log a| ≤ 1000) (hLb : |Real.log b| ≤ 1000) :
    |evalR4 M (HasIntegral.integral (⟨p.mapF Rounded.mk⟩ : Log (Poly4 (Rounded M))) (knot.mapF Rounded.mk)) b
        - evalR4 M (HasIntegral.integral (⟨p.mapF Rounded.mk⟩ : Log (Poly4 (Rounded M))) (knot.mapF Rounded.mk)) a
        - ∫ t in a..b, Evaluate.evaluate (⟨p⟩ : Log (Poly4 ℝ)) t|
      ≤ (1 + 3 / 1000) / 10 ^ 12 * (MagS4 p a + MagS4 p b
          + 2 * |(HasIntegral.integral (⟨p.mapF Rounded.mk⟩ : Log (Poly4 (Rounded M)))
              (knot.mapF Rounded.mk)).k.val|) :=
  logpoly4_difference_core M hu p
    (HasIntegral.integral (⟨p.mapF Rounded.mk⟩ : Log (Poly4 (Rounded M))) (knot.mapF Rounded.mk)).k
    a b ha hb hLa hLb

/-- (5, with the stored constant bounded), degree 4 -/
theorem logpoly4_integral_difference_rounding' (hu : M.u ≤ (2 : ℝ) ^ (-53 : ℤ)) (p : Poly4 ℝ) (knot : Knot ℝ)
    (hx : 0 < knot.x) (hL : |Real.log knot.x| ≤ 1000)
    (a b : ℝ) (ha : 0 < a) (hb : 0 < b) (hLa : |Real.log a| ≤ 1000) (hLb : |Real.log b| ≤ 1000) :
    |evalR4 M (HasIntegral.integral (⟨p.mapF Rounded.mk⟩ : Log (Poly4 (Rounded M))) (knot.mapF Rounded.mk)) b
        - evalR4 M (HasIntegral.integral (⟨p.mapF Rounded.mk⟩ : Log (Poly4 (Rounded M))) (knot.mapF Rounded.mk)) a
        - ∫ t in a..b, Evaluate.evaluate (⟨p⟩ : Log (Poly4 ℝ)) t|
      ≤ (1 + 3 / 1000) / 10 ^ 12 * (MagS4 p a + MagS4 p b + (2 + 1 / 100) * (|knot.y| + MagS4 p knot.x)) := by
  refine (logpoly4_integral_difference_rounding M hu p knot a b ha hb hLa hLb).trans ?_
  have hk := logpoly4_k_abs M hu p knot hx hL
  apply mul_le_mul_of_nonneg_left _ (by norm_num)
  linarith

/-- **`indefinite()` returns an antiderivative of the same `f`, degree 4** (`k̂ = 0`) -/
theorem logpoly4_indefinite_difference_rounding (hu : M.u ≤ (2 : ℝ) ^ (-53 : ℤ)) (p : Poly4 ℝ)
    (a b : ℝ) (ha : 0 < a) (hb : 0 < b) (hLa : |Real.log a| ≤ 1000) (hLb : |Real.log b| ≤ 1000) :
    |evalR4 M (HasIntegral.indefinite (⟨p.mapF Rounded.mk⟩ : Log (Poly4 (Rounded M)))) b
        - evalR4 M (HasIntegral.indefinite (⟨p.mapF Rounded.mk⟩ : Log (Poly4 (Rounded M)))) a
        - ∫ t in a..b, Evaluate.evaluate (⟨p⟩ : Log (Poly4 ℝ)) t|
      ≤ (1 + 3 / 1000) / 10 ^ 12 * (MagS4 p a + MagS4 p b) := by
  have h := logpoly4_difference_core M hu p (indefR4 M p).k a b ha hb hLa hLb
  rw [indefR4_k, abs_zero, mul_zero, add_zero] at h
  exact h

end deg4

