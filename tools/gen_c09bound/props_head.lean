import PP.Lemmas.LogIntFP
import PP.Props.C10Bound
/-!
# C09 — integrals of log-polynomials: the FLOATING-POINT part ("within the rounding bound of the construction")

`PP/Props/C09.lean` proves C09 for the code read in exact arithmetic over ℝ.  This file proves the rounding
clauses for the same *generated* code — `impl HasIntegral for Log<PolyK>` (`indefinite`, `integral`), `Translate`,
`Evaluate (IntOfLog F T)`, `Evaluate (PolyK F)`, and for degree 4 `IntOfLogPoly4` — **run in rounded arithmetic**
`Rounded M`, for every rounding model `M : RModel ℝ` with `M.u ≤ 2⁻⁵³`; `ln = Real.log`, `exp = Real.exp`.

## What is ASSUMED (and not proved)
* the **standard model** of floating-point arithmetic (`PP/Sem/Rounded.lean`): every `+ − × ÷` and every `fma`
  returns `rnd (exact result)` with `|rnd t − t| ≤ u·|t|`, `u ≤ 2⁻⁵³` — **no underflow, no overflow**;
* **libm**: `ln v` is `rnd (Real.log v)` (correct to one rounding, same `u`); for degree 4 also `exp` (as in
  `C10Bound`);
* **literals** are `rnd (m·10^e)` and *not* assumed representable (`2.0·c` costs two roundings, `1.0/2.0` three);
  `0.0` is `rnd 0 = 0`; `rnd` is not assumed idempotent (`0.0 + t` costs a rounding);
* **inputs** (coefficients `c_i`, knot, arguments `a`, `b`) are exact reals.

## Notation
`c_i` the coefficients of `p`; `q_j` the exact antiderivative coefficients (`q_n = c_n`, `q_j = c_j − (j+1)·q_{j+1}`:
the lanes of the exact `indefinite`, `C09.logpolyK_recurrence`); `q̂_j` the computed ones;
`S_j = Σ_{i≥j} (i!/j!)·|c_i|` (`Smag⟨n⟩`; `|q_j| ≤ S_j` with equality when the signs of the `c_i` alternate);
`MagQ⟨n⟩ p v = Σ_j |q_j||ln v|^j`, `MagS⟨n⟩ p v = Σ_j S_j|ln v|^j` (`MagQ ≤ MagS`: `MagQ⟨n⟩_le_MagS`);
`F̂(v) = evalR M F v` the generated `evaluate` of `F` run in rounded arithmetic; `k̂ = F.k` the stored constant;
`g_k = (1+u)^k − 1 ≤ (k + 0.001)·u`.

## Results, for every degree `n ∈ {0,1,2,3,5,6,7,8}` (GENERATED blocks, identical up to the degree)
* **(6) `logpoly⟨n⟩_coeff_rounding`**: `|q̂_j − q_j| ≤ (κ_j + 0.001)·u·S_j`, `κ_j = 3(n−j)` for `j ≥ 1`, `κ_0 = 3n − 2` (`n ≥ 1`; `κ_0 = 0` for `n = 0`)
  (`κ_n = 0`: the leading coefficient is copied).  The bound is against `S_j`, **not** against `|q_j|`: the
  recurrence cancels (example at the end: `q₁ = 0`, `q̂₁ ≠ 0`).
* **(4) `logpoly⟨n⟩_knot_rounding`**: for `knot.x > 0`, `F = integral (Log p) knot` computed in rounded arithmetic,
  `|F̂(knot.x) − knot.y| ≤ 4.001·u·(|knot.y| + knot.x·(MagQ + (K_n + 0.001)·u·MagS))`  (`C_n = 4.001` for every `n`);
  `logpoly⟨n⟩_knot_rounding_S`: `≤ 4.01·u·(|knot.y| + knot.x·MagS)`.
  The second-order term `u²·MagS` cannot be dropped (`F̂(knot.x)` is built from the computed `q̂_j`, which may be
  non-zero where `q_j = 0`), but **there is no `(1 + |ln x|)` sensitivity term**: the constant `k̂` is computed from the
  *same* rounded value `T̂(x)` of the polynomial part that the evaluation at the knot recomputes, so the errors of
  `ln`, of the coefficients and of the polynomial evaluation cancel exactly; only the roundings of `x·T̂`, `y − ·`,
  `0.0 + ·` and of the final `fma` remain (`knot_gen`: `g₃|y| + g₄|x·T̂(x)|`).
* **(5) `logpoly⟨n⟩_integral_difference_rounding`**: for **all** `a, b > 0` (no bound on `|ln a|`, `|ln b|` is needed for
  `n ≠ 4`), `|F̂(b) − F̂(a) − ∫_a^b p(ln t) dt| ≤ (K_n + 1.001)·u·(a·MagS p a + b·MagS p b) + 2·u·|k̂|`;
  `…_rounding'`: with `|k̂| ≤ 1.005·(|knot.y| + knot.x·MagS p knot.x)` substituted.  The integral is the exact one of
  `C09.logpoly⟨n⟩_indefinite_ftc`.  Here the rounded logarithm `x̂ = ln v·(1+δ)` enters as a *relative* perturbation of
  the argument of a polynomial, i.e. as `j` extra roundings of the term `q_j x^j`: it is absorbed in the depth `K_n`
  and costs no `(1 + |ln v|)` factor against the magnitude `MagS` (against `|Q(ln v)|` itself it would).
* **`logpoly⟨n⟩_indefinite_difference_rounding`** ("`indefinite()` returns an antiderivative of the same `f`"): the same
  bound for the rounded `indefinite`, without the `k̂` term.
* depths: `K_n = 0, 2, 6, 9, 16, 19, 22, 26` for `n = 0, 1, 2, 3, 5, 6, 7, 8` (coefficient depth + one rounding of `ln`
  per power + depth of the generated Estrin scheme), so `C_n' = K_n + 1.001 = 1.001, 3.001, 7.001, 10.001, 17.001,
  20.001, 23.001, 27.001`.
## Degree 4 (`IntOfLogPoly4`, section `deg4`; evaluation bound `C10Bound.evaluate_rounding` reused)
`MagS4 p v = C10Bound.Mag (Smag4 p) v = v·(S_a|X| + S_b|X|² + S_c|X|³ + S_d|X|⁴) + S_u·v·|X|⁵·R(X)`, `X = −ln v`,
`S_a = |c₀|`, `S_b = (S_a+|c₁|)/2`, `S_c = (S_b+|c₂|)/3`, `S_d = (S_c+|c₃|)/4`, `S_u = (S_d+|c₄|)·24`.
* (6) `logpoly4_coeff_rounding`: `a = −c₀` exactly; `b, c, d, u` within `6.001, 12.001, 18.001, 21.001` `·u·S`.
* (4) `logpoly4_knot_rounding`: `knot.x > 0`, `|ln knot.x| ≤ 1000`: `|F̂(knot.x) − knot.y| ≤ 4.01·u·(|knot.y| + MagS4 p knot.x)`.
* (5) `logpoly4_integral_difference_rounding`: `a, b > 0`, `|ln a|, |ln b| ≤ 1000`:
  `|F̂(b) − F̂(a) − ∫_a^b p(ln t) dt| ≤ 1.003·10⁻¹²·(MagS4 p a + MagS4 p b + 2|k̂|)` — **not** of the form `C·u`: `10⁻¹²`
  is the C10 evaluation bound, which contains the truncation error `6·10⁻¹⁴` of the 16-term series and the honest
  `3.02·|ln v|·u` sensitivity of `exp` to the rounded logarithm (see `C10Bound`); the coefficient errors add `21.001·u`.
  `logpoly4_integral_difference_rounding'`, `logpoly4_indefinite_difference_rounding`, `logpoly4_k_abs` as above.
  The exact integral is `C09.logpoly4_indefinite_closed_ftc` (`ideal_ftc`).

## Method
The generated `indefinite` is *run at the counting semantics* `Ct M` (`PP/Sem/Count.lean`): the lanes of
`indefCt⟨n⟩ M p` carry by `rfl` the exact run, the rounded run and the depth, and the magnitude `S_j` after
`norm_num; ring`.  The generated polynomial `evaluate` is then run at `Ct M` on these lanes at
`xCt M v = (ln v, rnd (ln v), |ln v|, depth 1)`: `poly⟨n⟩_ct` (`PP/Lemmas/LogIntFP.lean`).  Nothing about the
recurrence or the evaluation scheme is restated; if the generator changes them, the depths (numerals checked by
`rfl`) change and the constants with them.  The `fma(v, ·, k)` of `IntOfLog::evaluate` and the `translate` of `integral`
are analysed once for every polynomial type (`knot_gen`, `difference_gen`).
Non-vacuity: section `examples` (`C10Bound.M53`: every operation, literal, `ln`, `exp` errs by the full `2⁻⁵³`;
`C10Bound.intFixR`: integers exact, everything else inflated).
-/

set_option linter.unusedSectionVars false
set_option linter.unusedVariables false

namespace PP.Props.C09Bound
open PP.Lemmas.Rounding PP.Lemmas.ExpTailFP PP.Lemmas.LogIntFP

attribute [local instance] PP.Props.C09.realTransc
attribute [local instance] exactFL

variable (M : RModel ℝ)

