#!/usr/bin/env python3
"""Generates the per-degree blocks of PP/Lemmas/LogIntFP.lean and PP/Props/C09Bound.lean (degrees != 4)."""
from math import factorial as fact
import sys

DEGS = [0, 1, 2, 3, 5, 6, 7, 8]

def coeff_depths(n):
    k = [0]*(n+1)
    for j in range(n-1, 0, -1):
        k[j] = max(0, 1 + k[j+1] + 1) + 1
    if n >= 1:
        k[0] = max(0, k[1]) + 1
    return k

def fma(a, b, c): return max(a+b, c) + 1
def mul(a, b): return a + b + 1

def eval_depth(n, c, x):
    if n == 0: return c[0]
    if n == 1: return fma(c[1], x, c[0])
    x2 = mul(x, x)
    if n == 2: return fma(c[2], x2, fma(c[1], x, c[0]))
    t0 = fma(c[1], x, c[0]); t1 = fma(c[3], x, c[2])
    if n == 3: return fma(t1, x2, t0)
    x4 = mul(x2, x2)
    if n == 4: return fma(c[4], x4, fma(t1, x2, t0))
    if n == 5:
        t2 = fma(c[5], x, c[4]); r = fma(t1, x2, t0); return fma(t2, x4, r)
    if n == 6:
        t2 = fma(c[6], x2, fma(c[5], x, c[4])); return fma(t2, x4, fma(t1, x2, t0))
    t2 = fma(c[5], x, c[4]); t3 = fma(c[7], x, c[6])
    left = fma(t1, x2, t0); right = fma(t3, x2, t2)
    if n == 7: return fma(right, x4, left)
    right4 = fma(right, x4, left); x8 = mul(x4, x4)
    return fma(c[8], x8, right4)

def lane(n, j, base):
    """projection of lane j of a Poly{n}"""
    return f"{base}._0" if n == 0 else f"{base}._0.a{j}"

def S_expr(n, j):
    terms = []
    for i in range(j, n+1):
        r = fact(i)//fact(j)
        a = f"|{lane(n, i, 'p')}|"
        terms.append(a if r == 1 else f"{r} * {a}")
    return " + ".join(terms)

def A_nested(n, j):
    if j == n: return f"|{lane(n, n, 'p')}|"
    if j == 0: return f"|{lane(n, 0, 'p')}| + ({A_nested(n, 1)})"
    return f"|{lane(n, j, 'p')}| + |(({j+1} : ℤ) : ℝ) * (10 : ℝ) ^ (0 : ℤ)| * ({A_nested(n, j+1)})"

def mk_poly(n, entries):
    if n == 0: return f"⟨{entries[0]}⟩"
    return "⟨⟨" + ", ".join(entries) + "⟩⟩"

def powsum(n, coef):
    """coef(j) * |Real.log v| ^ j"""
    ts = []
    for j in range(n+1):
        c = coef(j)
        if j == 0: ts.append(c)
        elif j == 1: ts.append(f"{c} * |Real.log v|")
        else: ts.append(f"{c} * |Real.log v| ^ {j}")
    return " + ".join(ts)

def lemmas_block(n):
    kq = coeff_depths(n)
    K = eval_depth(n, kq, 1)
    E = f"(HasIntegral.indefinite (⟨p⟩ : Log (Poly{n} ℝ)))"
    o = []
    o.append(f"/-! ### degree {n} -/\n")
    o.append(f"/-- the generated `indefinite` of `Log<Poly{n}>` run at `Ct M` on the injected coefficients -/")
    o.append(f"@[reducible] noncomputable def indefCt{n} (p : Poly{n} ℝ) : IntOfLog (Ct M) (Poly{n} (Ct M)) :=\n  HasIntegral.indefinite (⟨p.mapF (Ct.inp M)⟩ : Log (Poly{n} (Ct M)))")
    o.append(f"/-- the generated `indefinite` of `Log<Poly{n}>` run in rounded arithmetic on the exact coefficients -/")
    o.append(f"@[reducible] noncomputable def indefR{n} (p : Poly{n} ℝ) : IntOfLog (Rounded M) (Poly{n} (Rounded M)) :=\n  HasIntegral.indefinite (⟨p.mapF Rounded.mk⟩ : Log (Poly{n} (Rounded M)))")
    o.append(f"/-- the magnitudes `S_j = Σ_(i≥j) (i!/j!)·|c_i|` of the antiderivative coefficients, degree {n} -/")
    o.append(f"def Smag{n} (p : Poly{n} ℝ) : Poly{n} ℝ :=\n  " + mk_poly(n, [S_expr(n, j) for j in range(n+1)]))
    o.append(f"/-- `Σ_j S_j·|ln v|^j`, degree {n} -/")
    o.append(f"noncomputable def MagS{n} (p : Poly{n} ℝ) (v : ℝ) : ℝ :=\n  " + powsum(n, lambda j: f"({lane(n, j, f'(Smag{n} p)')})"))
    o.append(f"/-- `Σ_j |q_j|·|ln v|^j` with `q_j` the exact antiderivative coefficients, degree {n} -/")
    o.append(f"noncomputable def MagQ{n} (p : Poly{n} ℝ) (v : ℝ) : ℝ :=\n  " + powsum(n, lambda j: f"|{lane(n, j, E + '.poly')}|"))
    o.append(f"theorem indefR{n}_k (p : Poly{n} ℝ) : (indefR{n} M p).k.val = 0 := PP.Lemmas.LinearFP.lit0 M")
    for j in range(n+1):
        o.append(f"theorem indefCt{n}_A{j} (p : Poly{n} ℝ) : ({lane(n, j, f'(indefCt{n} M p).poly')}).A = {lane(n, j, f'(Smag{n} p)')} := by")
        o.append(f"  show {A_nested(n, j)} = _")
        if j == n or (n >= 1 and j == 0 and n == 1):
            o.append(f"  simp only [Smag{n}]" if not (j == 0 and n == 1) else f"  simp only [Smag{n}]")
        else:
            o.append(f"  simp only [Smag{n}]\n  norm_num\n  try ring")
    # coefficient invariants
    o.append(f"/-- the invariant of every antiderivative coefficient (exact run, rounded run, magnitude `S_j`, depth), degree {n} -/")
    conj = " ∧\n    ".join(
        f"CtInv M ({lane(n, j, E + '.poly')}) ({lane(n, j, f'(indefR{n} M p).poly')}).val ({lane(n, j, f'(Smag{n} p)')}) {kq[j]}"
        for j in range(n+1))
    o.append(f"theorem coeff{n}_ct (p : Poly{n} ℝ) :\n    {conj} :=")
    items = ",\n    ".join(
        f"ct_cast M (c := {lane(n, j, f'(indefCt{n} M p).poly')}) rfl rfl rfl (indefCt{n}_A{j} M p) (Nat.le_of_ble_eq_true rfl)"
        for j in range(n+1))
    o.append(f"  ⟨{items}⟩" if n >= 1 else f"  {items}")
    # evaluation
    o.append(f"/-- the generated `Evaluate (Poly{n} F)` run at `Ct M` on the lanes of `indefCt{n}` at `x̂ = rnd (ln v)` -/")
    o.append(f"@[reducible] noncomputable def polyCt{n} (p : Poly{n} ℝ) (v : ℝ) : Ct M :=\n  Evaluate.evaluate (indefCt{n} M p).poly (xCt M v)")
    o.append(f"/-- **the computed polynomial part against `Q(ln v)`**: magnitude `Σ_j S_j|ln v|^j`, depth {K} -/")
    o.append(f"theorem poly{n}_ct (p : Poly{n} ℝ) (v : ℝ) :\n    CtInv M (Evaluate.evaluate {E}.poly (Real.log v)) (polyVal M (indefR{n} M p) v) (MagS{n} p v) {K} := by")
    o.append(f"  refine ct_cast M (c := polyCt{n} M p v) rfl rfl rfl ?_ (Nat.le_of_ble_eq_true rfl)")
    Apoly = mk_poly(n, [f"({lane(n, j, f'(indefCt{n} M p).poly')}).A" for j in range(n+1)])
    o.append(f"  show Evaluate.evaluate ({Apoly} : Poly{n} ℝ) |Real.log v| = _")
    rw = ", ".join(f"indefCt{n}_A{j}" for j in range(n+1))
    o.append(f"  rw [PP.Props.C01.poly{n}_eval, MagS{n}]\n  simp only [{rw}]")
    o.append(f"/-- `|Q(ln v)| ≤ Σ_j |q_j||ln v|^j`, degree {n} -/")
    o.append(f"theorem poly{n}_abs_le (p : Poly{n} ℝ) (v : ℝ) :\n    |Evaluate.evaluate {E}.poly (Real.log v)| ≤ MagQ{n} p v := by")
    o.append(f"  have h := ({E}.poly.ctRun (RModel.exact ℝ) (Real.log v)).abs_e_le rfl")
    o.append(f"  rw [poly{n}_ct_e, poly{n}_ct_A_sum] at h\n  exact h")
    o.append("")
    return "\n".join(o), kq, K

def props_block(n, kq, K):
    E = f"(HasIntegral.indefinite (⟨p⟩ : Log (Poly{n} ℝ)))"
    F = f"(HasIntegral.integral (⟨p.mapF Rounded.mk⟩ : Log (Poly{n} (Rounded M))) (knot.mapF Rounded.mk))"
    o = []
    o.append(f"/-! ## degree {n} -/\n")
    # B.6
    conj = " ∧\n    ".join(
        f"|({lane(n, j, f'(indefR{n} M p).poly')}).val - {lane(n, j, E + '.poly')}| ≤ ({kq[j]} + 1 / 1000) * M.u * ({lane(n, j, f'(Smag{n} p)')})"
        for j in range(n+1))
    o.append(f"/-- **(6) the antiderivative coefficients, degree {n}**: each coefficient `q̂_j` computed by the rounded `indefinite` is\nwithin `(κ_j + 0.001)·u·S_j` of the exact `q_j`, `S_j = Σ_(i≥j) (i!/j!)|c_i|` (`Smag{n}`), `κ = {kq}` -/")
    o.append(f"theorem logpoly{n}_coeff_rounding (hu : M.u ≤ (2 : ℝ) ^ (-53 : ℤ)) (p : Poly{n} ℝ) :\n    {conj} := by")
    o.append(f"  have h := coeff{n}_ct M p")
    if n == 0:
        o.append(f"  exact ct_numC M h hu (by norm_num) (by norm_num)")
    else:
        names = [f"h{j}" for j in range(n+1)]
        o.append(f"  obtain ⟨{', '.join(names)}⟩ := h")
        parts = ", ".join(f"ct_numC M h{j} hu (by norm_num) (by norm_num)" for j in range(n+1))
        o.append(f"  exact ⟨{parts}⟩")
    # magnitude facts
    o.append(f"/-- the exact coefficients are dominated by the magnitudes: `|q_j| ≤ S_j`, hence `MagQ ≤ MagS`, degree {n} -/")
    o.append(f"theorem MagQ{n}_le_MagS (p : Poly{n} ℝ) (v : ℝ) : MagQ{n} p v ≤ MagS{n} p v := by")
    o.append(f"  have h := coeff{n}_ct (RModel.exact ℝ) p")
    if n == 0:
        o.append(f"  exact h.1")
    else:
        names = [f"h{j}" for j in range(n+1)]
        o.append(f"  obtain ⟨{', '.join(names)}⟩ := h")
        o.append(f"  have hL := abs_nonneg (Real.log v)")
        o.append(f"  unfold MagQ{n} MagS{n}")
        o.append(f"  gcongr")
        for j in range(n+1):
            o.append(f"  · exact h{j}.1")
    # B.4
    o.append(f"/-- **(4) F̂(knot.x) = knot.y within the rounding bound, degree {n}**: `F = integral (Log p) knot` computed in rounded\narithmetic and evaluated (rounded) at `knot.x > 0` differs from `knot.y` by at most\n`4.001·u·(|knot.y| + knot.x·(Σ_j|q_j||ln x|^j + {K}.001·u·Σ_j S_j|ln x|^j))` -/")
    o.append(f"theorem logpoly{n}_knot_rounding (hu : M.u ≤ (2 : ℝ) ^ (-53 : ℤ)) (p : Poly{n} ℝ) (knot : Knot ℝ) (hx : 0 < knot.x) :\n    |evalR M {F} knot.x - knot.y|\n      ≤ (4 + 1 / 1000) * M.u * (|knot.y| + knot.x * (MagQ{n} p knot.x + ({K} + 1 / 1000) * M.u * MagS{n} p knot.x)) := by")
    o.append(f"  exact knot_num M (indefR{n} M p) (indefR{n}_k M p) hu knot.y hx (poly{n}_ct M p knot.x) (poly{n}_abs_le p knot.x)\n    (by norm_num) (by norm_num)")
    o.append(f"/-- (4, magnitude form) `≤ 4.01·u·(|knot.y| + knot.x·Σ_j S_j|ln x|^j)`, degree {n} -/")
    o.append(f"theorem logpoly{n}_knot_rounding_S (hu : M.u ≤ (2 : ℝ) ^ (-53 : ℤ)) (p : Poly{n} ℝ) (knot : Knot ℝ) (hx : 0 < knot.x) :\n    |evalR M {F} knot.x - knot.y| ≤ (4 + 1 / 100) * M.u * (|knot.y| + knot.x * MagS{n} p knot.x) :=")
    o.append(f"  knot_num_S M (indefR{n} M p) (indefR{n}_k M p) hu knot.y hx (poly{n}_ct M p knot.x) (by norm_num)")
    # B.5
    o.append(f"/-- **(5) `integral_difference_rounding`, degree {n}**: for all `a, b > 0`,\n`|F̂(b) − F̂(a) − ∫_a^b p(ln t) dt| ≤ {K+1}.001·u·(a·Σ_j S_j|ln a|^j + b·Σ_j S_j|ln b|^j) + 2·u·|k̂|`, `k̂ = F.k` the stored constant -/")
    o.append(f"theorem logpoly{n}_integral_difference_rounding (hu : M.u ≤ (2 : ℝ) ^ (-53 : ℤ)) (p : Poly{n} ℝ) (knot : Knot ℝ)\n    (a b : ℝ) (ha : 0 < a) (hb : 0 < b) :\n    |evalR M {F} b - evalR M {F} a\n        - ∫ t in a..b, Evaluate.evaluate (⟨p⟩ : Log (Poly{n} ℝ)) t|\n      ≤ ({K+1} + 1 / 1000) * M.u * (a * MagS{n} p a + b * MagS{n} p b)\n        + 2 * M.u * |{F}.k.val| := by")
    o.append(f"  have h : |evalR M {F} b - evalR M {F} a\n      - (b * Evaluate.evaluate {E}.poly (Real.log b) - a * Evaluate.evaluate {E}.poly (Real.log a))|\n      ≤ ({K+1} + 1 / 1000) * M.u * (a * MagS{n} p a + b * MagS{n} p b) + 2 * M.u * |{F}.k.val| :=\n    difference_num M (throughKnot M (indefR{n} M p) knot.x knot.y) hu ha hb (poly{n}_ct M p a) (poly{n}_ct M p b)\n      (by norm_num) (by norm_num)")
    o.append(f"  have hf := PP.Props.C09.logpoly{n}_indefinite_ftc p a b ha hb")
    o.append(f"  simp only [PP.Props.C09.intOfLog_eval, PP.Props.C09.logpoly{n}_indefinite_k, add_zero] at hf")
    o.append(f"  rw [← hf]\n  exact h")
    o.append(f"/-- (5, with the stored constant bounded) `… + 2.01·u·(|knot.y| + knot.x·Σ_j S_j|ln x|^j)`, degree {n} -/")
    o.append(f"theorem logpoly{n}_integral_difference_rounding' (hu : M.u ≤ (2 : ℝ) ^ (-53 : ℤ)) (p : Poly{n} ℝ) (knot : Knot ℝ)\n    (hx : 0 < knot.x) (a b : ℝ) (ha : 0 < a) (hb : 0 < b) :\n    |evalR M {F} b - evalR M {F} a\n        - ∫ t in a..b, Evaluate.evaluate (⟨p⟩ : Log (Poly{n} ℝ)) t|\n      ≤ ({K+1} + 1 / 1000) * M.u * (a * MagS{n} p a + b * MagS{n} p b)\n        + (2 + 1 / 100) * M.u * (|knot.y| + knot.x * MagS{n} p knot.x) := by")
    o.append(f"  have h := logpoly{n}_integral_difference_rounding M hu p knot a b ha hb")
    o.append(f"  have hk : |{F}.k.val| ≤ (1 + 1 / 200) * (|knot.y| + knot.x * MagS{n} p knot.x) :=\n    k_abs_num M (indefR{n} M p) (indefR{n}_k M p) hu knot.y hx (poly{n}_ct M p knot.x) (by norm_num)")
    o.append(f"  have := mul_le_mul_of_nonneg_left hk (by have := M.hu; positivity : (0 : ℝ) ≤ 2 * M.u)")
    o.append(f"  refine h.trans ?_\n  have e : (2 + 1 / 100) * M.u * (|knot.y| + knot.x * MagS{n} p knot.x)\n      = 2 * M.u * ((1 + 1 / 200) * (|knot.y| + knot.x * MagS{n} p knot.x)) := by ring\n  rw [e]; linarith")
    # indefinite is an antiderivative
    I = f"(HasIntegral.indefinite (⟨p.mapF Rounded.mk⟩ : Log (Poly{n} (Rounded M))))"
    o.append(f"/-- **`indefinite()` returns an antiderivative of the same `f`, degree {n}**: the rounded `indefinite`, evaluated in rounded\narithmetic, satisfies `|Ĝ(b) − Ĝ(a) − ∫_a^b p(ln t) dt| ≤ {K+1}.001·u·(a·Σ_j S_j|ln a|^j + b·Σ_j S_j|ln b|^j)` -/")
    o.append(f"theorem logpoly{n}_indefinite_difference_rounding (hu : M.u ≤ (2 : ℝ) ^ (-53 : ℤ)) (p : Poly{n} ℝ)\n    (a b : ℝ) (ha : 0 < a) (hb : 0 < b) :\n    |evalR M {I} b - evalR M {I} a\n        - ∫ t in a..b, Evaluate.evaluate (⟨p⟩ : Log (Poly{n} ℝ)) t|\n      ≤ ({K+1} + 1 / 1000) * M.u * (a * MagS{n} p a + b * MagS{n} p b) := by")
    o.append(f"  have h : |evalR M {I} b - evalR M {I} a\n      - (b * Evaluate.evaluate {E}.poly (Real.log b) - a * Evaluate.evaluate {E}.poly (Real.log a))|\n      ≤ ({K+1} + 1 / 1000) * M.u * (a * MagS{n} p a + b * MagS{n} p b) + 2 * M.u * |(indefR{n} M p).k.val| :=\n    difference_num M (indefR{n} M p) hu ha hb (poly{n}_ct M p a) (poly{n}_ct M p b)\n      (by norm_num) (by norm_num)")
    o.append(f"  have hf := PP.Props.C09.logpoly{n}_indefinite_ftc p a b ha hb")
    o.append(f"  simp only [PP.Props.C09.intOfLog_eval, PP.Props.C09.logpoly{n}_indefinite_k, add_zero] at hf")
    o.append(f"  rw [indefR{n}_k, abs_zero, mul_zero, add_zero] at h")
    o.append(f"  rw [← hf]\n  exact h")
    o.append("")
    return "\n".join(o)

def examples_block(n):
    vals = ["1", "-2", "3", "1 / 2", "-1", "2", "-3", "1 / 3", "5"][:n+1]
    poly = mk_poly(n, vals)
    o = []
    o.append(f"/-- concrete data of degree {n} (signs alternate: the recurrence does not cancel) -/")
    o.append(f"noncomputable def ex{n} : Poly{n} ℝ := {poly}")
    o.append(f"example := logpoly{n}_coeff_rounding M53 M53_u ex{n}")
    o.append(f"example := logpoly{n}_knot_rounding M53 M53_u ex{n} ⟨2, 3⟩ (by norm_num)")
    o.append(f"example := logpoly{n}_knot_rounding_S M53 M53_u ex{n} ⟨2, 3⟩ (by norm_num)")
    o.append(f"example := logpoly{n}_integral_difference_rounding M53 M53_u ex{n} ⟨2, 3⟩ (1 / 2) 5 (by norm_num) (by norm_num)")
    o.append(f"example := logpoly{n}_integral_difference_rounding' intFixR (le_refl _) ex{n} ⟨2, 3⟩ (by norm_num) (1 / 2) 5 (by norm_num) (by norm_num)")
    o.append(f"example := logpoly{n}_indefinite_difference_rounding M53 M53_u ex{n} (1 / 2) 5 (by norm_num) (by norm_num)")
    return "\n".join(o)

if __name__ == "__main__":
    which = sys.argv[1]
    out = []
    for n in DEGS:
        lb, kq, K = lemmas_block(n)
        if which == "lemmas": out.append(lb)
        elif which == "props": out.append(props_block(n, kq, K))
        elif which == "table": out.append(f"n={n} kq={kq} K={K}")
        elif which == "examples": out.append(examples_block(n))
    print("\n".join(out))
