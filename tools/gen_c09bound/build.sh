#!/bin/sh
set -e
cd /tmp/agent-bndC/lean
S=/tmp/agent-bndC/scratch
G=/tmp/agent-bndC/gen
{ cat $S/gen_head.lean; python3 $G/gen.py lemmas; cat $S/deg4_lemmas.lean; echo "end PP.Lemmas.LogIntFP"; } > PP/Lemmas/LogIntFP.lean
{ cat $S/props_head.lean; python3 $G/gen.py props; cat $S/deg4_props.lean; cat $S/spelled.lean;
  echo "/-! ## non-vacuity: the hypotheses are satisfiable in models that really round -/"; echo "section examples"; echo "open PP.Props.C10Bound (M53 M53_u intFixR)"; echo;
  python3 $G/gen.py examples; cat $S/examples_tail.lean; echo; echo "end examples"; echo; echo "end PP.Props.C09Bound"; } > PP/Props/C09Bound.lean
