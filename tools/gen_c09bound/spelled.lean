/-! ## the statements spelled out for one degree (no auxiliary definitions) -/

/-- **(4) for degree 2, spelled out**: `f(t) = c₀ + c₁·ln t + c₂·ln² t`, knot `(x, y)`, `x > 0` -/
theorem logpoly2_knot_rounding_spelled (hu : M.u ≤ (2 : ℝ) ^ (-53 : ℤ)) (c0 c1 c2 x y : ℝ) (hx : 0 < x) :
    |(Evaluate.evaluate
        (HasIntegral.integral (⟨⟨⟨⟨c0⟩, ⟨c1⟩, ⟨c2⟩⟩⟩⟩ : Log (Poly2 (Rounded M))) (⟨⟨x⟩, ⟨y⟩⟩ : Knot (Rounded M)))
        (⟨x⟩ : Rounded M)).val - y|
      ≤ (4 + 1 / 100) * M.u * (|y| + x * ((|c0| + |c1| + 2 * |c2|) + (|c1| + 2 * |c2|) * |Real.log x|
          + |c2| * |Real.log x| ^ 2)) :=
  logpoly2_knot_rounding_S M hu ⟨⟨c0, c1, c2⟩⟩ ⟨x, y⟩ hx

/-- **(5) for degree 2, spelled out** -/
theorem logpoly2_integral_difference_rounding_spelled (hu : M.u ≤ (2 : ℝ) ^ (-53 : ℤ)) (c0 c1 c2 x y : ℝ)
    (hx : 0 < x) (a b : ℝ) (ha : 0 < a) (hb : 0 < b) :
    let F := HasIntegral.integral (⟨⟨⟨⟨c0⟩, ⟨c1⟩, ⟨c2⟩⟩⟩⟩ : Log (Poly2 (Rounded M))) (⟨⟨x⟩, ⟨y⟩⟩ : Knot (Rounded M))
    let mag := fun v : ℝ => v * ((|c0| + |c1| + 2 * |c2|) + (|c1| + 2 * |c2|) * |Real.log v| + |c2| * |Real.log v| ^ 2)
    |(Evaluate.evaluate F (⟨b⟩ : Rounded M)).val - (Evaluate.evaluate F (⟨a⟩ : Rounded M)).val
        - ∫ t in a..b, (c0 + c1 * Real.log t + c2 * Real.log t ^ 2)|
      ≤ (7 + 1 / 1000) * M.u * (mag a + mag b) + (2 + 1 / 100) * M.u * (|y| + mag x) := by
  intro F mag
  have h := logpoly2_integral_difference_rounding' M hu ⟨⟨c0, c1, c2⟩⟩ ⟨x, y⟩ hx a b ha hb
  have e : (fun t => Evaluate.evaluate (⟨⟨⟨c0, c1, c2⟩⟩⟩ : Log (Poly2 ℝ)) t)
      = fun t => c0 + c1 * Real.log t + c2 * Real.log t ^ 2 := by
    funext t
    show Evaluate.evaluate (⟨⟨c0, c1, c2⟩⟩ : Poly2 ℝ) (Real.log t) = _
    rw [PP.Props.C01.poly2_eval]
  rw [e] at h
  exact h

