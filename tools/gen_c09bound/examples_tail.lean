
/-! ### degree 4 -/
noncomputable def ex4 : Poly4 ℝ := ⟨⟨1, -2, 3, 1 / 2, -1⟩⟩
theorem log2_ok : |Real.log 2| ≤ 1000 := PP.Props.C10Bound.abs_log_two_le.trans (by norm_num)
theorem logexp_ok : |Real.log (Real.exp (-3))| ≤ 1000 := by
  rw [Real.log_exp, abs_neg, abs_of_pos (by norm_num : (0 : ℝ) < 3)]; norm_num
example := logpoly4_coeff_rounding M53 M53_u ex4
/-- knot at `x = 2` (series branch of the evaluation) -/
example := logpoly4_knot_rounding M53 M53_u ex4 ⟨2, 3⟩ (by norm_num) log2_ok
/-- knot at `x = e⁻³` (closed-form branch) -/
example := logpoly4_knot_rounding M53 M53_u ex4 ⟨Real.exp (-3), 3⟩ (Real.exp_pos _) logexp_ok
example := logpoly4_integral_difference_rounding M53 M53_u ex4 ⟨2, 3⟩ (Real.exp (-3)) 2 (Real.exp_pos _)
  (by norm_num) logexp_ok log2_ok
example := logpoly4_integral_difference_rounding' intFixR (le_refl _) ex4 ⟨2, 3⟩ (by norm_num) log2_ok
  (Real.exp (-3)) 2 (Real.exp_pos _) (by norm_num) logexp_ok log2_ok
example := logpoly4_indefinite_difference_rounding M53 M53_u ex4 (Real.exp (-3)) 2 (Real.exp_pos _)
  (by norm_num) logexp_ok log2_ok

/-! ### the models really round, and the recurrence really cancels -/

/-- `p = 1 + 2y + y²`: the exact antiderivative coefficient `q₁ = c₁ − 2c₂` is `0`, the computed one is not
(`2 − 2(1+u)²` in `M53`): this is why (6) and (4) bound against `S_j`, not against `|q_j|` -/
example : (HasIntegral.indefinite (⟨⟨⟨1, 2, 1⟩⟩⟩ : Log (Poly2 ℝ))).poly._0.a1 = 0 ∧
    (indefR2 M53 ⟨⟨1, 2, 1⟩⟩).poly._0.a1.val ≠ 0 := by
  constructor
  · exact_simp; norm_num
  · show M53.rnd (2 - M53.rnd (M53.rnd (((2 : ℤ) : ℝ) * (10 : ℝ) ^ (0 : ℤ)) * 1)) ≠ 0
    simp only [M53, RModel.inflate]
    norm_num

example := logpoly2_knot_rounding_spelled M53 M53_u 1 (-2) 3 2 3 (by norm_num)
example := logpoly2_integral_difference_rounding_spelled M53 M53_u 1 (-2) 3 2 3 (by norm_num) (1 / 2) 5
  (by norm_num) (by norm_num)
