def lane(k,i,v="p"):
    return f"{v}._0" if k==0 else f"{v}._0.a{i}"
out=[]
out.append('''import PP.Sem.Exact
import PP.Model.Poly.CalculusAttr
import PP.Model.Piecewise.CalculusAttr
import PP.Props.C01
import PP.Lemmas.Calculus
/-!
# C07 — integration of polynomials (exact-arithmetic part)

"For every polynomial of degree 0-7, indefinite() returns the polynomial of one higher degree with zero constant
term and coefficients c_i/(i+1), and integral(knot) returns that polynomial shifted vertically so that its value
at knot.x is knot.y (within rounding). Consequently F(b)-F(a) equals the exact integral of p over [a,b] for all
a,b, and differentiating the result returns p coefficient-wise to within one unit in the last place."

Everything here is in the exact interpretation `exactFL K` (any linearly ordered field; the analytic statements
over ℝ); the rounding clauses ("within rounding", "one unit in the last place") are handled elsewhere.

For each degree k = 0..7 (`p : PolyK K`, result `Poly(k+1) K`):
* `polyK_indefinite`            — lanes of `indefinite p` are literally `⟨0, c0, c1/2, …, ck/(k+1)⟩`
* `polyK_derivative_indefinite` — `derivative (indefinite p) = p`
* `polyK_integral_knot`         — `evaluate (integral p knot) knot.x = knot.y`
* `polyK_integral_lanes`        — `integral p knot` is `indefinite p` with lane a0 replaced by
                                  `knot.y - evaluate (indefinite p) knot.x` (all other lanes equal)
* `polyK_integral_eval`         — `evaluate (integral p knot) x = evaluate (indefinite p) x + (knot.y - evaluate (indefinite p) knot.x)`
* `polyK_derivative_integral`   — `derivative (integral p knot) = p`
* over ℝ: `polyK_integral_hasDerivAt`, `polyK_indefinite_hasDerivAt`, `polyK_integral_ftc`, `polyK_indefinite_ftc`
and the generic `segment_integral_knot`, `segment_integral_end`.
-/
set_option linter.unusedSectionVars false
namespace PP.Props.C07
open PP.Props.C01 PP.Lemmas.Calculus

section field
variable {K : Type} [Field K] [LinearOrder K] [IsStrictOrderedRing K] [Transc K]
attribute [local instance] exactFL
''')
for k in range(0,8):
    n=k+1
    lanes=["0"]+[ (lane(k,i) if i==0 else f"{lane(k,i)} / {i+1}") for i in range(k+1)]
    lanes_s=", ".join(lanes)
    shifted=", ".join(["knot.y - Evaluate.evaluate (HasIntegral.indefinite p) knot.x"]+lanes[1:])
    pat = "⟨c0⟩" if k==0 else "⟨⟨"+", ".join(f"c{i}" for i in range(k+1))+"⟩⟩"
    if k==0:
        deriv_proof="  exact_simp"
    else:
        deriv_proof=f"  rcases p with {pat}\n  exact_simp\n  congr 2\n  all_goals field_simp"
    out.append(f'''/-! ## degree {k} -/

theorem poly{k}_indefinite (p : Poly{k} K) :
    HasIntegral.indefinite p = (⟨⟨{lanes_s}⟩⟩ : Poly{n} K) := by
  exact_simp

theorem poly{k}_derivative_indefinite (p : Poly{k} K) :
    HasDerivative.derivative (HasIntegral.indefinite p) = p := by
{deriv_proof}

theorem poly{k}_integral_knot (p : Poly{k} K) (knot : Knot K) :
    Evaluate.evaluate (HasIntegral.integral p knot) knot.x = knot.y := by
  exact_simp
  ring

/-- `integral p knot` and `indefinite p` differ only in lane a0 -/
theorem poly{k}_integral_lanes (p : Poly{k} K) (knot : Knot K) :
    HasIntegral.integral p knot =
      (⟨⟨{shifted}⟩⟩ : Poly{n} K) := by
  exact_simp
  congr 2
  ring

theorem poly{k}_integral_eval (p : Poly{k} K) (knot : Knot K) (x : K) :
    Evaluate.evaluate (HasIntegral.integral p knot) x =
      Evaluate.evaluate (HasIntegral.indefinite p) x
        + (knot.y - Evaluate.evaluate (HasIntegral.indefinite p) knot.x) := by
  exact_simp
  ring

theorem poly{k}_derivative_integral (p : Poly{k} K) (knot : Knot K) :
    HasDerivative.derivative (HasIntegral.integral p knot) = p := by
  have h := poly{k}_derivative_indefinite p
  rw [poly{k}_indefinite] at h
  rw [poly{k}_integral_lanes]
  exact h
''')
out.append('''/-! ## the generic Segment lemma -/

/-- For any piece type whose `Translate` adds a constant to the value, the integral of a segment through a knot
takes the knot's value at the knot's abscissa. -/
theorem segment_integral_knot {T I : Type} [HasIntegral T (Knot K) I] [Evaluate I K] [Translate I K]
    (htr : ∀ (i : I) (v x : K),
      Evaluate.evaluate (Translate.translate i v) x = Evaluate.evaluate i x + v)
    (s : Segment K T) (knot : Knot K) :
    Evaluate.evaluate (HasIntegral.integral s knot) knot.x = knot.y := by
  show Evaluate.evaluate (Translate.translate (HasIntegral.indefinite s.poly)
      (knot.y - Evaluate.evaluate (HasIntegral.indefinite s.poly) knot.x)) knot.x = knot.y
  rw [htr]; ring

/-- integration keeps the segment's end -/
theorem segment_integral_end {T I : Type} [HasIntegral T (Knot K) I] [Evaluate I K] [Translate I K]
    (s : Segment K T) (knot : Knot K) :
    (HasIntegral.integral s knot).«end» = s.«end» := rfl

theorem segment_indefinite_end {T I : Type} [HasIntegral T (Knot K) I] [Evaluate I K] [Translate I K]
    (s : Segment K T) :
    (HasIntegral.indefinite s).«end» = s.«end» := rfl

/-- the hypothesis of `segment_integral_knot` holds for the polynomial pieces (shown for Poly3; `exact_simp; ring`
proves every degree) … -/
theorem poly3_translate_eval (q : Poly3 K) (v x : K) :
    Evaluate.evaluate (Translate.translate q v) x = Evaluate.evaluate q x + v := by
  exact_simp; ring

/-- … so a cubic segment integrates through its knot -/
example (s : Segment K (Poly2 K)) (knot : Knot K) :
    Evaluate.evaluate (HasIntegral.integral s knot) knot.x = knot.y :=
  segment_integral_knot poly3_translate_eval s knot

end field

/-! ## analytic statements over ℝ -/
section real
variable [Transc ℝ]
attribute [local instance] exactFL
''')
for k in range(0,8):
    n=k+1
    out.append(f'''/-! ### degree {k} -/

theorem poly{k}_integral_hasDerivAt (p : Poly{k} ℝ) (knot : Knot ℝ) (x : ℝ) :
    HasDerivAt (fun x => Evaluate.evaluate (HasIntegral.integral p knot) x) (Evaluate.evaluate p x) x := by
  have h := poly{n}_hasDerivAt (HasIntegral.integral p knot) x
  rwa [poly{k}_derivative_integral] at h

theorem poly{k}_indefinite_hasDerivAt (p : Poly{k} ℝ) (x : ℝ) :
    HasDerivAt (fun x => Evaluate.evaluate (HasIntegral.indefinite p) x) (Evaluate.evaluate p x) x := by
  have h := poly{n}_hasDerivAt (HasIntegral.indefinite p) x
  rwa [poly{k}_derivative_indefinite] at h

/-- F(b) − F(a) is the exact integral of p over [a,b], for all a, b (in either order) -/
theorem poly{k}_integral_ftc (p : Poly{k} ℝ) (knot : Knot ℝ) (a b : ℝ) :
    Evaluate.evaluate (HasIntegral.integral p knot) b - Evaluate.evaluate (HasIntegral.integral p knot) a
      = ∫ x in a..b, Evaluate.evaluate p x :=
  ftc_of_hasDerivAt _ _ a b (poly{k}_integral_hasDerivAt p knot) (poly{k}_continuous p)

theorem poly{k}_indefinite_ftc (p : Poly{k} ℝ) (a b : ℝ) :
    Evaluate.evaluate (HasIntegral.indefinite p) b - Evaluate.evaluate (HasIntegral.indefinite p) a
      = ∫ x in a..b, Evaluate.evaluate p x :=
  ftc_of_hasDerivAt _ _ a b (poly{k}_indefinite_hasDerivAt p) (poly{k}_continuous p)
''')
out.append('''end real

/-! ## sanity: concrete instances -/
section example_
noncomputable local instance : Transc ℚ := ⟨fun x => x, fun x => x⟩
attribute [local instance] exactFL
/-- ∫ (1 − 2x + 3x²) = x − x² + x³, through (2, 10): constant 4 -/
example : HasIntegral.integral (⟨⟨1, -2, 3⟩⟩ : Poly2 ℚ) ⟨2, 10⟩ = (⟨⟨4, 1, -1, 1⟩⟩ : Poly3 ℚ) := by
  rw [poly2_integral_lanes, poly2_indefinite, poly3_eval]; norm_num
example : Evaluate.evaluate (HasIntegral.integral (⟨⟨1, -2, 3⟩⟩ : Poly2 ℚ) ⟨2, 10⟩) 2 = 10 :=
  poly2_integral_knot _ _
end example_

end PP.Props.C07''')
open('/tmp/agent-logint/lean/PP/Props/C07.lean','w').write("\n".join(out)+"\n")
