#!/usr/bin/env python3
"""generator of PP/Props/C07Bound.lean (the eight per-degree blocks are identical up to the degree)"""
import sys
DEGS = [int(a) for a in sys.argv[2:]] if len(sys.argv) > 2 else list(range(8))
out = sys.argv[1]

def c(n, i, p='p'):
    return f"{p}._0" if n == 0 else f"{p}._0.a{i}"
def e(n, i, p='p'):          # exact coefficient c_i/(i+1)
    return c(n, i, p) if i == 0 else f"{c(n, i, p)} / {i+1}"
def pw(x, j):
    return x if j == 1 else f"{x} ^ {j}"
def S(n, x, p='p'):
    return " + ".join(f"|{e(n,i,p)}| * {pw('|'+x+'|', i+1)}" for i in range(n+1))
def P(n, x, p='p'):
    return " + ".join(f"{e(n,i,p)} * {pw(x, i+1)}" for i in range(n+1))
def lanes(q, m, lo=1):
    return ", ".join(f"{q}._0.a{j}" for j in range(lo, m+1))
def elist(n, p='p'):
    return ", ".join(e(n,i,p) for i in range(n+1))
def polysum(q, m, x):
    return " + ".join([f"{q}._0.a0"] + [f"{q}._0.a{j} * {pw(x,j)}" for j in range(1, m+1)])
def polyabs(q, m, x):
    return " + ".join([f"|{q}._0.a0|"] + [f"|{q}._0.a{j}| * {pw('|'+x+'|',j)}" for j in range(1, m+1)])
LIT = lambda j: f"(((({j} : ℤ)) : K) * (10 : K) ^ (0 : ℤ))"

HEADER = r'''import PP.Sem.Count
import PP.Props.C01Bound
import PP.Props.C07
import PP.Lemmas.CalculusFP
import PP.Model.Poly.CalculusAttr
/-!
# C07 — integration of polynomials: the FLOATING-POINT part

`PP/Props/C07.lean` proves C07 for the code read in exact arithmetic.  This file proves the rounding clauses
("its value at knot.x is knot.y (within rounding)", "F(b)−F(a) equals the exact integral", "differentiating the
result returns p coefficient-wise to within one unit in the last place") for the same GENERATED code
(`inst_HasIntegral_Poly⟨n⟩.indefinite / .integral`, `inst_HasDerivative_Poly⟨n+1⟩.derivative`,
`inst_Translate_Poly⟨n+1⟩.translate`, `inst_Evaluate_Poly⟨n+1⟩.evaluate`, n = 0..7) **run in rounded arithmetic**
`Rounded M`, for every linearly ordered field `K` and every rounding model `M : RModel K`.

## What is ASSUMED (and not proved)
* the **standard model** of floating-point arithmetic (`RModel`): every operation returns `rnd (exact result)`,
  `|rnd t − t| ≤ u·|t|` (i.e. **no underflow, no overflow**), `fma` is ONE rounding; for (2), (3): `u ≤ 2⁻⁵³`;
* the **inputs are exact**: the coefficients `cᵢ` of `p`, the knot `(x, y)` and the arguments `a, b` are arbitrary
  elements of `K`, taken as they are (in the Rust code they are `f64`s);
* decimal literals are `rnd (m·10^e)` and are **NOT assumed representable**: `2.0 … 8.0` may be rounded (only the
  `…_fixed` variants assume `rnd j = j`, `LitFixed`); `rnd` is **not assumed idempotent** (`x += v` on the
  constant term `0.0` costs a rounding: the constant term is `rnd (0 + rnd (y − E))`).

## Results, for each degree n = 0..7 (`p : Poly⟨n⟩ K`, result of degree n+1; theorem names `poly⟨n⟩_…`)
Notation: `S(t) = Σᵢ |cᵢ/(i+1)|·|t|^{i+1}`, `P(t) = Σᵢ cᵢ/(i+1)·t^{i+1}`,
`p.indefiniteRounded M`, `p.integralRounded M knot`, `p.derivIndefRounded M` = the coefficients computed by the
rounded runs of `indefinite`, `integral(knot)`, `derivative ∘ indefinite`.
1. `poly⟨n⟩_indefinite_coeff_rounding` : constant term `= 0` exactly, linear coefficient `= c₀` exactly, and for i ≥ 1
   `|computed − cᵢ/(i+1)| ≤ 2u/(1−u)·|cᵢ/(i+1)|` — the honest constant when the divisor literal `i+1` is itself rounded
   (two roundings; `2u/(1−u) ≤ 2.001·u`);
   `poly⟨n⟩_indefinite_coeff_rounding_fixed` : `≤ u·|cᵢ/(i+1)|` if the literals `2 … n+1` are representable (`LitFixed`).
2. `poly⟨n⟩_integral_at_knot_rounding` (`u ≤ 2⁻⁵³`): the ROUNDED evaluation of `F = integral p knot` at `knot.x`:
   `|F̂(knot.x) − knot.y| ≤ (3n+6)·u·(|knot.y| + S(knot.x))`          (C_n = 3n+6 = 3κ+3, κ = n+1);
   `poly⟨n⟩_integral_at_knot_exact_eval`: the computed coefficients evaluated EXACTLY at `knot.x`:
   `|F(knot.x) − knot.y| ≤ (n+4)·u·(|knot.y| + S(knot.x))`;
   `poly⟨n⟩_integral_lanes_rounded`: `F` has the coefficients of `indefinite p` and the constant term
   `rnd (0 + rnd (knot.y − Ê))`, `Ê` = rounded value of `indefinite p` at `knot.x`.
3. `poly⟨n⟩_integral_difference_rounding` (`u ≤ 2⁻⁵³`), all `a b`:
   `|F̂(b) − F̂(a) − (P(b) − P(a))| ≤ (n+4)·u·(S(a) + S(b) + 2|k|)`,  `k` = the computed constant term of `F`;
   over ℝ `poly⟨n⟩_integral_difference_rounding_real`: the same with `∫ t in a..b, p t` (via `C07.poly⟨n⟩_indefinite_ftc`).
4. `poly⟨n⟩_derivative_indefinite_rounding` : `derivative (indefinite p)`, all in `Rounded M`: coefficient 0 is `c₀`
   exactly and `|computed − cᵢ| ≤ (2u + u²)·|cᵢ|` for i ≥ 1 — *whether or not the literal `i+1` is representable*:
   the generated derivative multiplies by the same rounded literal the integral divided by, which cancels.

κ = n+1 is the rounding depth of the generated evaluation scheme of degree n+1, *measured* by running it at the
counting semantics (`Nat.le_of_ble_eq_true rfl`): a scheme of larger depth makes (2), (3) fail to re-check, one of
smaller or equal depth re-checks unchanged.  Nothing else about the schemes is used (no code is restated: every
generated definition is reached by `rfl`).

Non-vacuity: section `examples` (models `RModel.m53`: every operation errs by the full relative `2⁻⁵³`;
`RModel.intFix`: integers exact, everything else inflated — there the bounds `u·|c/3|` of (1, fixed literals) and
`(2u+u²)|c|` of (4) are attained; `intShrink`: literals not representable — there `2u/(1−u)·|c/3|` of (1) is attained;
in `M53` the defect of (2) is `≈ 3u ≠ 0`).
-/
set_option linter.unusedSectionVars false
set_option linter.unusedVariables false

/-! ## the rounded runs (GENERATED block: identical up to the degree) -/
section runs
variable {K : Type} [Field K] [LinearOrder K] [IsStrictOrderedRing K] [Transc K] (M : RModel K)
'''

def runs(n):
    m = n+1
    return f'''/-- coefficients computed by `indefinite` run in `Rounded M` on the exact coefficients of `p` -/
@[reducible] noncomputable def Poly{n}.indefiniteRounded (p : Poly{n} K) : Poly{m} K :=
  (HasIntegral.indefinite (p.mapF Rounded.mk : Poly{n} (Rounded M)) : Poly{m} (Rounded M)).mapF Rounded.val
/-- coefficients computed by `integral(knot)` run in `Rounded M` -/
@[reducible] noncomputable def Poly{n}.integralRounded (p : Poly{n} K) (knot : Knot K) : Poly{m} K :=
  (HasIntegral.integral (p.mapF Rounded.mk : Poly{n} (Rounded M)) (knot.mapF Rounded.mk) : Poly{m} (Rounded M)).mapF
    Rounded.val
/-- coefficients computed by `derivative (indefinite p)`, all in `Rounded M` -/
@[reducible] noncomputable def Poly{n}.derivIndefRounded (p : Poly{n} K) : Poly{n} K :=
  (HasDerivative.derivative (HasIntegral.indefinite (p.mapF Rounded.mk : Poly{n} (Rounded M)) : Poly{m} (Rounded M))
    : Poly{n} (Rounded M)).mapF Rounded.val
'''

MID = r'''end runs

namespace PP.Props.C07Bound
open PP.Lemmas.Rounding PP.Lemmas.CalculusFP PP.Props.C01
variable {K : Type} [Field K] [LinearOrder K] [IsStrictOrderedRing K] [Transc K]

section
attribute [local instance] exactFL

/-! ## the evaluation schemes of degree 1..8 in list form (depth κ = degree, measured) -/
'''

def listbound(m):
    return f'''theorem poly{m}_list_bound (M : RModel K) (r : Poly{m} K) (t : K) :
    |r.evalRounded M t - (r._0.a0 + t * polySum [{lanes('r',m)}] t)|
      ≤ ((1 + M.u) ^ {m} - 1) * (|r._0.a0| + |t| * polySum (List.map abs [{lanes('r',m)}]) |t|) := by
  have h := (r.ctRun M t).bound_le rfl {m} (Nat.le_of_ble_eq_true rfl)
  rw [poly{m}_ct_e_sum, poly{m}_ct_A_sum] at h
  have e1 : r._0.a0 + t * polySum [{lanes('r',m)}] t = {polysum('r',m,'t')} := by
    simp only [polySum]; ring
  have e2 : |r._0.a0| + |t| * polySum (List.map abs [{lanes('r',m)}]) |t| = {polyabs('r',m,'t')} := by
    simp only [polySum, List.map_cons, List.map_nil]; ring
  rw [e1, e2]; exact h

'''

def block(n):
    m = n+1
    q = f"(p.indefiniteRounded M)"
    F = f"(p.integralRounded M knot)"
    D = f"(p.derivIndefRounded M)"
    eta = "2 * M.u / (1 - M.u)"
    s = f"/-! ## degree {n} -/\n\n"
    # (1)
    conj = [f"{q}._0.a0 = 0", f"{q}._0.a1 = {c(n,0)}"] + \
        [f"|{q}._0.a{i+1} - {e(n,i)}| ≤ {eta} * |{e(n,i)}|" for i in range(1, n+1)]
    prf = ["lit_zero M 0", "rfl"] + \
        [f"div_lit_close M ({c(n,i)}) (l := {LIT(i+1)}) (q := {i+1}) (by norm_num) (by norm_num)" for i in range(1,n+1)]
    s += f'''/-- **(1)** the coefficients computed by `indefinite`: constant term exactly 0, `c₀` copied, `cᵢ/(i+1)` within
`2u/(1−u)` (rounded divisor literal) -/
theorem poly{n}_indefinite_coeff_rounding (M : RModel K) (p : Poly{n} K) :
    {(chr(10)+"      ∧ ").join(conj)} :=
  ⟨{(","+chr(10)+"   ").join(prf)}⟩

'''
    conjf = [f"{q}._0.a0 = 0", f"{q}._0.a1 = {c(n,0)}"] + \
        [f"|{q}._0.a{i+1} - {e(n,i)}| ≤ M.u * |{e(n,i)}|" for i in range(1, n+1)]
    prff = ["lit_zero M 0", "rfl"] + \
        [f"div_lit_fixed M ({c(n,i)}) (l := {LIT(i+1)}) (q := {i+1}) (by norm_num)\n     (hlit.get {i+1} (by norm_num) (by norm_num) (by norm_num))" for i in range(1,n+1)]
    s += f'''/-- (1, representable literals) `cᵢ/(i+1)` within `u` when the literals `2 … n+1` (here: up to {n+1}) are fixed by `rnd` -/
theorem poly{n}_indefinite_coeff_rounding_fixed (M : RModel K) (hlit : LitFixed M {n+1}) (p : Poly{n} K) :
    {(chr(10)+"      ∧ ").join(conjf)} :=
  ⟨{(","+chr(10)+"   ").join(prff)}⟩

'''
    # relation list
    obt = ", ".join(f"h{j}" for j in range(0, m+1))
    cons = f"(Rel.of_eq (eta_nonneg M.hu M.hu1) h1)"
    rel = "List.Forall₂.nil"
    for j in range(m, 1, -1):
        rel = f"(List.Forall₂.cons h{j} {rel})"
    rel = f"List.Forall₂.cons {cons} {rel}"
    s += f'''theorem poly{n}_rel (M : RModel K) (p : Poly{n} K) :
    List.Forall₂ (Rel ({eta})) [{lanes(q,m)}] [{elist(n)}] := by
  obtain ⟨{obt}⟩ := poly{n}_indefinite_coeff_rounding M p
  exact {rel}

theorem poly{n}_S_eq (p : Poly{n} K) (t : K) :
    |t| * polySum (List.map abs [{elist(n)}]) |t| = {S(n,'t')} := by
  simp only [polySum, List.map_cons, List.map_nil]; ring

theorem poly{n}_P_eq (p : Poly{n} K) (t : K) :
    t * polySum [{elist(n)}] t = {P(n,'t')} := by
  simp only [polySum]; ring

'''
    # lanes of integral
    s += f'''/-- (2, structure) `integral p knot` computed in `Rounded M`: the coefficients of `indefinite p`, with the constant
term `rnd (0 + rnd (knot.y − Ê))` where `Ê` is the rounded value of `indefinite p` at `knot.x` -/
theorem poly{n}_integral_lanes_rounded (M : RModel K) (p : Poly{n} K) (knot : Knot K) :
    p.integralRounded M knot =
      ⟨⟨M.rnd ({q}._0.a0 + M.rnd (knot.y - {q}.evalRounded M knot.x)), {lanes(q,m)}⟩⟩ := rfl

'''
    # (2)
    s += f'''/-- **(2)** "its value at knot.x is knot.y (within rounding)": the rounded evaluation of the rounded `integral p knot`
at `knot.x`; `C_{n} = 3·{n}+6` -/
theorem poly{n}_integral_at_knot_rounding (M : RModel K) (hu : M.u ≤ (2 : K) ^ (-53 : ℤ)) (p : Poly{n} K) (knot : Knot K) :
    |{F}.evalRounded M knot.x - knot.y|
      ≤ (3 * {n} + 6) * M.u * (|knot.y| + ({S(n,'knot.x')})) := by
  have key := knot_defect M hu {m} (by norm_num) (poly{n}_rel M p) knot.x knot.y ({q}._0.a0)
    ({q}.evalRounded M knot.x) ({F}._0.a0) ({F}.evalRounded M knot.x) (lit_zero M 0)
    (poly{m}_list_bound M {q} knot.x) rfl (poly{m}_list_bound M {F} knot.x)
  rw [poly{n}_S_eq] at key
  refine key.trans (le_of_eq ?_)
  push_cast; ring

/-- (2, exact evaluation) the computed coefficients of `integral p knot`, evaluated EXACTLY at `knot.x` -/
theorem poly{n}_integral_at_knot_exact_eval (M : RModel K) (hu : M.u ≤ (2 : K) ^ (-53 : ℤ)) (p : Poly{n} K) (knot : Knot K) :
    |Evaluate.evaluate {F} knot.x - knot.y|
      ≤ ({n} + 4) * M.u * (|knot.y| + ({S(n,'knot.x')})) := by
  have key := knot_defect_exact M hu {m} (by norm_num) (poly{n}_rel M p) knot.x knot.y ({q}._0.a0)
    ({q}.evalRounded M knot.x) ({F}._0.a0) (lit_zero M 0) (poly{m}_list_bound M {q} knot.x) rfl
  have e : Evaluate.evaluate {F} knot.x
      = {F}._0.a0 + knot.x * polySum [{lanes(q,m)}] knot.x := by
    rw [poly{m}_eval, poly{n}_integral_lanes_rounded]
    simp only [polySum]; ring
  rw [e]
  rw [poly{n}_S_eq] at key
  refine key.trans (le_of_eq ?_)
  push_cast; ring

'''
    # (3)
    s += f'''/-- **(3)** `F̂(b) − F̂(a)` against the exact integral `P(b) − P(a)` of `p` over `[a, b]`, all `a b` -/
theorem poly{n}_integral_difference_rounding (M : RModel K) (hu : M.u ≤ (2 : K) ^ (-53 : ℤ)) (p : Poly{n} K)
    (knot : Knot K) (a b : K) :
    |{F}.evalRounded M b - {F}.evalRounded M a
        - (({P(n,'b')}) - ({P(n,'a')}))|
      ≤ ({n} + 4) * M.u * (({S(n,'a')}) + ({S(n,'b')})
          + 2 * |{F}._0.a0|) := by
  have key := difference_defect M hu {m} (by norm_num) (poly{n}_rel M p) a b ({F}._0.a0)
    ({F}.evalRounded M a) ({F}.evalRounded M b)
    (poly{m}_list_bound M {F} a) (poly{m}_list_bound M {F} b)
  rw [poly{n}_S_eq, poly{n}_S_eq, poly{n}_P_eq, poly{n}_P_eq] at key
  refine key.trans (le_of_eq ?_)
  push_cast; ring

'''
    # (4)
    if n == 0:
        s += f'''/-- **(4)** `derivative (indefinite p)` in `Rounded M` is `p` exactly (degree 0: no arithmetic) -/
theorem poly0_derivative_indefinite_rounding (M : RModel K) (p : Poly0 K) :
    (p.derivIndefRounded M)._0 = p._0 := rfl

'''
    else:
        conj4 = [f"{D}._0.a0 = {c(n,0)}"] + \
            [f"|{D}._0.a{i} - {c(n,i)}| ≤ (2 * M.u + M.u ^ 2) * |{c(n,i)}|" for i in range(1, n+1)]
        prf4 = ["rfl"] + [f"mul_div_lit_close M ({c(n,i)}) (l := {LIT(i+1)}) (q := {i+1}) (by norm_num) (by norm_num)" for i in range(1,n+1)]
        s += f'''/-- **(4)** `derivative (indefinite p)`, all in `Rounded M`, returns `p` coefficient-wise within `(2u + u²)|cᵢ|`
(the rounded literal `i+1` cancels: no representability assumption) -/
theorem poly{n}_derivative_indefinite_rounding (M : RModel K) (p : Poly{n} K) :
    {(chr(10)+"      ∧ ").join(conj4)} :=
  ⟨{(","+chr(10)+"   ").join(prf4)}⟩

'''
    return s

def realblock(n):
    m = n+1
    F = f"(p.integralRounded M knot)"
    return f'''/-- (3, over ℝ) against the integral itself -/
theorem poly{n}_integral_difference_rounding_real (M : RModel ℝ) (hu : M.u ≤ (2 : ℝ) ^ (-53 : ℤ)) (p : Poly{n} ℝ)
    (knot : Knot ℝ) (a b : ℝ) :
    |{F}.evalRounded M b - {F}.evalRounded M a - ∫ t in a..b, Evaluate.evaluate p t|
      ≤ ({n} + 4) * M.u * (({S(n,'a')}) + ({S(n,'b')})
          + 2 * |{F}._0.a0|) := by
  have e : (∫ t in a..b, Evaluate.evaluate p t) = ({P(n,'b')}) - ({P(n,'a')}) := by
    rw [← PP.Props.C07.poly{n}_indefinite_ftc p a b, PP.Props.C07.poly{n}_indefinite, poly{m}_eval, poly{m}_eval]
    ring
  rw [e]; exact poly{n}_integral_difference_rounding M hu p knot a b

'''


EXAMPLES = r"""/-! ## non-vacuity: the hypotheses are satisfiable in models that really round -/
section examples
noncomputable local instance : Transc ℚ := ⟨fun x => x, fun x => x⟩
noncomputable local instance instTranscReal : Transc ℝ := ⟨Real.log, Real.exp⟩

/-- `u = 2⁻⁵³` exactly and *every* operation errs by the full relative `u` -/
noncomputable abbrev M53 : RModel ℚ := RModel.m53
/-- the same over ℝ -/
noncomputable def M53R : RModel ℝ := RModel.inflate (2 ^ (-53 : ℤ)) (by positivity) (by norm_num)

example : M53.u ≤ (2 : ℚ) ^ (-53 : ℤ) := le_refl _
example : M53R.u ≤ (2 : ℝ) ^ (-53 : ℤ) := le_refl _

/-- integers are fixed by `RModel.intFix` (which is not the identity: `intFix.rnd (1/2) ≠ 1/2`) -/
theorem intFix_litFixed : LitFixed RModel.intFix 8 := fun j _ _ => by
  simpa using RModel.intFix_int (j : ℤ)

theorem intFix_third : RModel.intFix.rnd (1 / 3) = 1 / 3 * (1 + 2 ^ (-53 : ℤ)) := by
  simp [RModel.intFix]

/-- (1): `∫ (1 − 2x + 3x²)`, the cubic coefficient -/
example : |((⟨⟨1, -2, 3⟩⟩ : Poly2 ℚ).indefiniteRounded M53)._0.a3 - 3 / 3|
    ≤ 2 * M53.u / (1 - M53.u) * |(3 : ℚ) / 3| :=
  (poly2_indefinite_coeff_rounding M53 ⟨⟨1, -2, 3⟩⟩).2.2.2

/-- (1, representable literals): the hypothesis `LitFixed` holds in `intFix` … -/
example : |((⟨⟨1, 1, 1⟩⟩ : Poly2 ℚ).indefiniteRounded RModel.intFix)._0.a3 - 1 / 3|
    ≤ RModel.intFix.u * |(1 : ℚ) / 3| :=
  (poly2_indefinite_coeff_rounding_fixed RModel.intFix (fun j h2 h3 => intFix_litFixed j h2 (by omega))
    ⟨⟨1, 1, 1⟩⟩).2.2.2

/-- … and there the bound `u·|c/3|` of (1) is ATTAINED: the computed coefficient of `x³` in `∫ (1 + x + x²)` is
`(1/3)(1 + 2⁻⁵³)` -/
example : |((⟨⟨1, 1, 1⟩⟩ : Poly2 ℚ).indefiniteRounded RModel.intFix)._0.a3 - 1 / 3|
    = RModel.intFix.u * |(1 : ℚ) / 3| := by
  show |RModel.intFix.rnd (1 / RModel.intFix.rnd (((3 : ℤ) : ℚ) * (10 : ℚ) ^ (0 : ℤ))) - 1 / 3|
    = (2 : ℚ) ^ (-53 : ℤ) * |(1 : ℚ) / 3|
  have h3 : RModel.intFix.rnd (((3 : ℤ) : ℚ) * (10 : ℚ) ^ (0 : ℤ)) = 3 := by
    simpa using RModel.intFix_int 3
  rw [h3, intFix_third]
  norm_num [abs_of_pos]

theorem den_ne_one_of_mem_Ioo {t : ℚ} (h0 : 0 < t) (h1 : t < 1) : t.den ≠ 1 := by
  intro h
  have e := Rat.coe_int_num_of_den_eq_one h
  rw [← e] at h0 h1
  have a : 0 < t.num := by exact_mod_cast h0
  have b : t.num < 1 := by exact_mod_cast h1
  omega

/-- a model in which the literals are NOT representable: integers are rounded DOWN by the full `u`,
everything else UP -/
def intShrink : RModel ℚ where
  rnd := fun t => if t.den = 1 then t * (1 - 2 ^ (-53 : ℤ)) else t * (1 + 2 ^ (-53 : ℤ))
  u := 2 ^ (-53 : ℤ)
  hu := by positivity
  hu1 := by norm_num
  h := fun t => by
    split
    · have : t * (1 - 2 ^ (-53 : ℤ)) - t = -(2 ^ (-53 : ℤ) * t) := by ring
      rw [this, abs_neg, abs_mul, abs_of_nonneg (by positivity)]
    · have : t * (1 + 2 ^ (-53 : ℤ)) - t = 2 ^ (-53 : ℤ) * t := by ring
      rw [this, abs_mul, abs_of_nonneg (by positivity)]
  rnd_neg := fun t => by
    simp only [Rat.neg_den]
    split <;> ring

/-- (1), rounded literals: the constant `2u/(1−u)` of the general statement is ATTAINED in `intShrink`
(`rnd 3 = 3(1−u)`, then `rnd (1/(3(1−u))) = (1+u)/(3(1−u))`) -/
example : |((⟨⟨1, 1, 1⟩⟩ : Poly2 ℚ).indefiniteRounded intShrink)._0.a3 - 1 / 3|
    = 2 * intShrink.u / (1 - intShrink.u) * |(1 : ℚ) / 3| := by
  show |intShrink.rnd (1 / intShrink.rnd (((3 : ℤ) : ℚ) * (10 : ℚ) ^ (0 : ℤ))) - 1 / 3|
    = 2 * (2 : ℚ) ^ (-53 : ℤ) / (1 - (2 : ℚ) ^ (-53 : ℤ)) * |(1 : ℚ) / 3|
  have h3 : intShrink.rnd (((3 : ℤ) : ℚ) * (10 : ℚ) ^ (0 : ℤ)) = 3 * (1 - 2 ^ (-53 : ℤ)) := by
    simp [intShrink]
  rw [h3]
  have h4 : intShrink.rnd (1 / (3 * (1 - 2 ^ (-53 : ℤ))))
      = 1 / (3 * (1 - 2 ^ (-53 : ℤ))) * (1 + 2 ^ (-53 : ℤ)) := by
    have : (1 / (3 * (1 - 2 ^ (-53 : ℤ))) : ℚ).den ≠ 1 :=
      den_ne_one_of_mem_Ioo (by norm_num) (by norm_num)
    show (if (1 / (3 * (1 - 2 ^ (-53 : ℤ))) : ℚ).den = 1 then _ else _) = _
    rw [if_neg this]
  rw [h4]
  norm_num [abs_of_pos]

theorem M53_rnd (t : ℚ) : M53.rnd t = t * (1 + 2 ^ (-53 : ℤ)) := rfl

/-- (2): the defect is real ("within rounding" cannot be dropped): `∫ 1` through the knot `(1, 0)` in `M53` takes the
value `−((1+u)³ − 1)(1+u) ≈ −3u ≠ 0` at `x = 1` (the bound of (2) is `6u·(|0| + |1|·|1|)`) -/
example : ((⟨1⟩ : Poly0 ℚ).integralRounded M53 ⟨1, 0⟩).evalRounded M53 1
    = -((1 + 2 ^ (-53 : ℤ)) ^ 3 - 1) * (1 + 2 ^ (-53 : ℤ)) := by
  show M53.rnd (1 * 1 + M53.rnd (M53.rnd (((0 : ℤ) : ℚ) * (10 : ℚ) ^ (0 : ℤ))
      + M53.rnd (0 - M53.rnd (1 * 1 + M53.rnd (((0 : ℤ) : ℚ) * (10 : ℚ) ^ (0 : ℤ)))))) = _
  simp only [M53_rnd]
  ring

/-- (2): `∫ (1 − 2x + 3x²)` through the knot `(2, 10)` -/
example : |((⟨⟨1, -2, 3⟩⟩ : Poly2 ℚ).integralRounded M53 ⟨2, 10⟩).evalRounded M53 2 - 10|
    ≤ (3 * 2 + 6) * M53.u * (|10| + (|1| * |2| + |-2 / 2| * |2| ^ 2 + |3 / 3| * |2| ^ 3)) :=
  poly2_integral_at_knot_rounding M53 (le_refl _) ⟨⟨1, -2, 3⟩⟩ ⟨2, 10⟩

/-- (2), degree 7 -/
example : |((⟨⟨1, -2, 3, -4, 5, -6, 7, -8⟩⟩ : Poly7 ℚ).integralRounded M53 ⟨2, 10⟩).evalRounded M53 2 - 10|
    ≤ (3 * 7 + 6) * M53.u * (|10| + (|1| * |2| + |-2 / 2| * |2| ^ 2 + |3 / 3| * |2| ^ 3 + |-4 / 4| * |2| ^ 4
        + |5 / 5| * |2| ^ 5 + |-6 / 6| * |2| ^ 6 + |7 / 7| * |2| ^ 7 + |-8 / 8| * |2| ^ 8)) :=
  poly7_integral_at_knot_rounding M53 (le_refl _) ⟨⟨1, -2, 3, -4, 5, -6, 7, -8⟩⟩ ⟨2, 10⟩

section
attribute [local instance] exactFL
/-- (2, exact evaluation of the computed coefficients) -/
example : |Evaluate.evaluate ((⟨⟨1, -2, 3⟩⟩ : Poly2 ℚ).integralRounded M53 ⟨2, 10⟩) 2 - 10|
    ≤ (2 + 4) * M53.u * (|10| + (|1| * |2| + |-2 / 2| * |2| ^ 2 + |3 / 3| * |2| ^ 3)) :=
  poly2_integral_at_knot_exact_eval M53 (le_refl _) ⟨⟨1, -2, 3⟩⟩ ⟨2, 10⟩
end

/-- (3): `∫₁³ (1 − 2x + 3x²)` -/
example : |((⟨⟨1, -2, 3⟩⟩ : Poly2 ℚ).integralRounded M53 ⟨2, 10⟩).evalRounded M53 3
      - ((⟨⟨1, -2, 3⟩⟩ : Poly2 ℚ).integralRounded M53 ⟨2, 10⟩).evalRounded M53 1
      - ((1 * 3 + -2 / 2 * 3 ^ 2 + 3 / 3 * 3 ^ 3) - (1 * 1 + -2 / 2 * 1 ^ 2 + 3 / 3 * 1 ^ 3))|
    ≤ (2 + 4) * M53.u * ((|1| * |1| + |-2 / 2| * |1| ^ 2 + |3 / 3| * |1| ^ 3)
        + (|1| * |3| + |-2 / 2| * |3| ^ 2 + |3 / 3| * |3| ^ 3)
        + 2 * |((⟨⟨1, -2, 3⟩⟩ : Poly2 ℚ).integralRounded M53 ⟨2, 10⟩)._0.a0|) :=
  poly2_integral_difference_rounding M53 (le_refl _) ⟨⟨1, -2, 3⟩⟩ ⟨2, 10⟩ 1 3

section
attribute [local instance] exactFL
/-- (3, over ℝ, against the integral) -/
example : |((⟨⟨1, -2, 3⟩⟩ : Poly2 ℝ).integralRounded M53R ⟨2, 10⟩).evalRounded M53R 3
      - ((⟨⟨1, -2, 3⟩⟩ : Poly2 ℝ).integralRounded M53R ⟨2, 10⟩).evalRounded M53R 1
      - ∫ t in (1 : ℝ)..3, Evaluate.evaluate (⟨⟨1, -2, 3⟩⟩ : Poly2 ℝ) t|
    ≤ (2 + 4) * M53R.u * ((|1| * |1| + |-2 / 2| * |1| ^ 2 + |3 / 3| * |1| ^ 3)
        + (|1| * |3| + |-2 / 2| * |3| ^ 2 + |3 / 3| * |3| ^ 3)
        + 2 * |((⟨⟨1, -2, 3⟩⟩ : Poly2 ℝ).integralRounded M53R ⟨2, 10⟩)._0.a0|) :=
  poly2_integral_difference_rounding_real M53R (le_refl _) ⟨⟨1, -2, 3⟩⟩ ⟨2, 10⟩ 1 3
end

/-- (4): every operation inflated … -/
example : |((⟨⟨1, -2, 3⟩⟩ : Poly2 ℚ).derivIndefRounded M53)._0.a2 - 3| ≤ (2 * M53.u + M53.u ^ 2) * |3| :=
  (poly2_derivative_indefinite_rounding M53 ⟨⟨1, -2, 3⟩⟩).2.2

/-- … and in `intFix` the bound `(2u + u²)|c|` of (4) is ATTAINED: `3·rnd(1/3) = 1 + u` is not an integer and is
inflated once more -/
example : |((⟨⟨1, 1, 1⟩⟩ : Poly2 ℚ).derivIndefRounded RModel.intFix)._0.a2 - 1|
    = (2 * RModel.intFix.u + RModel.intFix.u ^ 2) * |1| := by
  show |RModel.intFix.rnd (RModel.intFix.rnd (((3 : ℤ) : ℚ) * (10 : ℚ) ^ (0 : ℤ))
      * RModel.intFix.rnd (1 / RModel.intFix.rnd (((3 : ℤ) : ℚ) * (10 : ℚ) ^ (0 : ℤ)))) - 1|
    = (2 * (2 : ℚ) ^ (-53 : ℤ) + ((2 : ℚ) ^ (-53 : ℤ)) ^ 2) * |1|
  have h3 : RModel.intFix.rnd (((3 : ℤ) : ℚ) * (10 : ℚ) ^ (0 : ℤ)) = 3 := by
    simpa using RModel.intFix_int 3
  rw [h3, intFix_third]
  have h4 : RModel.intFix.rnd (3 * (1 / 3 * (1 + 2 ^ (-53 : ℤ))))
      = 3 * (1 / 3 * (1 + 2 ^ (-53 : ℤ))) * (1 + 2 ^ (-53 : ℤ)) := by
    simp [RModel.intFix]
  rw [h4]
  norm_num [abs_of_pos]

end examples

"""

with open(out, 'w') as f:
    f.write(HEADER)
    for n in DEGS: f.write(runs(n))
    f.write(MID)
    for m in sorted(set(n+1 for n in DEGS)): f.write(listbound(m))
    for n in DEGS: f.write(block(n))
    f.write("end\n\n/-! ## (3) over ℝ: against `∫ t in a..b, p t` -/\nsection real\nvariable [Transc ℝ]\nattribute [local instance] exactFL\n\n")
    for n in DEGS: f.write(realblock(n))
    f.write("end real\n\n")
    if len(DEGS) == 8: f.write(EXAMPLES)
    f.write("end PP.Props.C07Bound\n")
