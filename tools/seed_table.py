#!/usr/bin/env python3
"""prints a markdown table of /verif/seeded/*/meta.json"""
import json, os, glob, sys
prefixes = sys.argv[1:]
rows = []
for d in sorted(glob.glob("/verif/seeded/*")):
    if prefixes and not any(os.path.basename(d).startswith(p) for p in prefixes):
        continue
    m = json.load(open(os.path.join(d, "meta.json")))
    name = os.path.basename(d)
    det = ", ".join(m.get("detected_by", [])) or "**none**"
    inp = ", ".join(m.get("with_failing_input", [])) or "—"
    miss = [p for p, r in m.get("checks", {}).items() if r["exit"] == 0]
    first = ""
    for p, r in m.get("checks", {}).items():
        for l in r.get("replay_head", []):
            if l.startswith("# MONFAIL") or l.startswith("# theorem") or l.startswith("# DISAGREE") or "no longer checks" in l:
                first = l[2:140]; break
        if first: break
    rows.append(f"| {name} | {m.get('summary','')[:110]} | {m.get('needs','')[:90]} | {det} | {inp} | {first} |")
print("| seed | change | needs | caught by | with failing input | first line of the replay |")
print("|---|---|---|---|---|---|")
print("\n".join(rows))
