import PP.Core.Attr
import PP.Model.Piecewise.Approx
/-! GENERATED — simp set of the definitions in the sibling file. -/
attribute [pp_model] inst_AbsDiffEq_Segment_T inst_AbsDiffEq_Segment_T.absDiffEq inst_RelativeEq_Segment_T inst_RelativeEq_Segment_T.relativeEq
