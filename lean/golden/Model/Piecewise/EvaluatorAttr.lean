import PP.Core.Attr
import PP.Model.Piecewise.Evaluator
import PP.Model.Piecewise.EvaluateAttr
/-! GENERATED — simp set of the definitions in the sibling file. -/
attribute [pp_model] PiecewiseEvaluator.new PiecewiseEvaluator.evaluate
