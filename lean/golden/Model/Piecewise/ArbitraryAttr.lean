import PP.Core.Attr
import PP.Model.Piecewise.Arbitrary
/-! GENERATED — simp set of the definitions in the sibling file. -/
attribute [pp_model] inst_Arbitrary_Piecewise_T inst_Arbitrary_Piecewise_T.arbitrary
