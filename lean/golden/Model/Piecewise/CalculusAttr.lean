import PP.Core.Attr
import PP.Model.Piecewise.Calculus
import PP.Model.Piecewise.EvaluateAttr
/-! GENERATED — simp set of the definitions in the sibling file. -/
attribute [pp_model] inst_HasDerivative_Segment_T inst_HasDerivative_Segment_T.derivative inst_Translate_Segment_T inst_Translate_Segment_T.translate inst_HasIntegral_Segment_T inst_HasIntegral_Segment_T.indefinite inst_HasIntegral_Segment_T.integral
