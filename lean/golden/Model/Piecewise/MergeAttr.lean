import PP.Core.Attr
import PP.Model.Piecewise.Merge
/-! GENERATED — simp set of the definitions in the sibling file. -/
attribute [pp_model] inst_Add_Ref_Piecewise_T.add inst_Sub_Ref_Piecewise_T.sub
