import PP.Core.Attr
import PP.Model.Piecewise.Ops
/-! GENERATED — simp set of the definitions in the sibling file. -/
attribute [pp_model] inst_Mul_Segment_T inst_Mul_Segment_T.mul inst_MulAssign_Segment_T inst_MulAssign_Segment_T.mulAssign inst_MulAssign_RefMut_Segment_T inst_MulAssign_RefMut_Segment_T.mulAssign
