import PP.Core.Attr
import PP.Model.Piecewise.Evaluate
/-! GENERATED — simp set of the definitions in the sibling file. -/
attribute [pp_model] inst_Evaluate_Segment_T inst_Evaluate_Segment_T.evaluate
