import PP.Core.Attr
import PP.Model.Linear.Loops
import PP.Model.Linear.FnsAttr
/-! GENERATED — simp set of the definitions in the sibling file. -/
attribute [pp_model] Linear.linear
