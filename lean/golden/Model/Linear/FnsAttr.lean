import PP.Core.Attr
import PP.Model.Linear.Fns
import PP.Model.Poly.CalculusAttr
/-! GENERATED — simp set of the definitions in the sibling file. -/
attribute [pp_model] Linear.incr_linear Linear.segment
