import PP.Core.Attr
import PP.Model.Poly.Fns
/-! GENERATED — simp set of the definitions in the sibling file. -/
attribute [pp_model] Knot.new
