import PP.Core.Attr
import PP.Model.Poly.Evaluate
/-! GENERATED — simp set of the definitions in the sibling file. -/
attribute [pp_model] inst_Evaluate_Poly0 inst_Evaluate_Poly0.evaluate inst_Evaluate_Poly1 inst_Evaluate_Poly1.evaluate inst_Evaluate_Poly2 inst_Evaluate_Poly2.evaluate inst_Evaluate_Poly3 inst_Evaluate_Poly3.evaluate inst_Evaluate_Poly4 inst_Evaluate_Poly4.evaluate inst_Evaluate_Poly5 inst_Evaluate_Poly5.evaluate inst_Evaluate_Poly6 inst_Evaluate_Poly6.evaluate inst_Evaluate_Poly7 inst_Evaluate_Poly7.evaluate inst_Evaluate_Poly8 inst_Evaluate_Poly8.evaluate
