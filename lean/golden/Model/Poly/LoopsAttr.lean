import PP.Core.Attr
import PP.Model.Poly.Loops
/-! GENERATED — simp set of the definitions in the sibling file. -/
attribute [pp_model] inst_Evaluate_PolyN inst_Evaluate_PolyN.evaluate inst_Translate_PolyN inst_Translate_PolyN.translate inst_AbsDiffEq_PolyN inst_AbsDiffEq_PolyN.absDiffEq inst_RelativeEq_PolyN inst_RelativeEq_PolyN.relativeEq
