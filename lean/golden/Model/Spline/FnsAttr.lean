import PP.Core.Attr
import PP.Model.Spline.Fns
/-! GENERATED — simp set of the definitions in the sibling file. -/
attribute [pp_model] Spline.f_dx Spline.segment
