import PP.Core.Attr
import PP.Model.Spline.Loops
import PP.Model.Spline.FnsAttr
/-! GENERATED — simp set of the definitions in the sibling file. -/
attribute [pp_model] Spline.constrained_spline
