import PP.Core.Attr
import PP.Model.LogPoly.Evaluate
/-! GENERATED — simp set of the definitions in the sibling file. -/
attribute [pp_model] inst_Evaluate_Log_T inst_Evaluate_Log_T.evaluate inst_Evaluate_IntOfLog_T inst_Evaluate_IntOfLog_T.evaluate LogPoly.taylor.exp_5_tail_anal LogPoly.taylor.exp_5_tail_taylor LogPoly.taylor.exp_5_taylor inst_Evaluate_IntOfLogPoly4 inst_Evaluate_IntOfLogPoly4.evaluate
