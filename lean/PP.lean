-- This module serves as the root of the `PP` library.
-- Import modules here that should be built as part of the library.
import PP.Basic
