import PP.Sem.Exact
import Mathlib.Algebra.BigOperators.Ring.List
import PP.Model.Poly.EvaluateAttr
import PP.Model.LogPoly.EvaluateAttr
import PP.Hand.Constructors
/-!
# C01 — evaluation equals Σ cᵢ xⁱ  (exact part; the rounding bound is in `C01Bound.lean`)

Over an arbitrary field the generated evaluation schemes are polynomial identities: `ring` decides them
for every coefficient vector and argument at once, independently of the scheme (Estrin, Horner, …).
-/
set_option linter.unusedSectionVars false
namespace PP.Props.C01
variable {K : Type} [Field K] [LinearOrder K] [Transc K]

section
attribute [local instance] exactFL

theorem poly0_eval (p : Poly0 K) (x : K) :
    Evaluate.evaluate p x = p._0 := by
  exact_simp

theorem poly1_eval (p : Poly1 K) (x : K) :
    Evaluate.evaluate p x = p._0.a0 + p._0.a1 * x := by
  exact_simp; ring

theorem poly2_eval (p : Poly2 K) (x : K) :
    Evaluate.evaluate p x = p._0.a0 + p._0.a1 * x + p._0.a2 * x ^ 2 := by
  exact_simp; ring

theorem poly3_eval (p : Poly3 K) (x : K) :
    Evaluate.evaluate p x =
      p._0.a0 + p._0.a1 * x + p._0.a2 * x ^ 2 + p._0.a3 * x ^ 3 := by
  exact_simp; ring

theorem poly4_eval (p : Poly4 K) (x : K) :
    Evaluate.evaluate p x =
      p._0.a0 + p._0.a1 * x + p._0.a2 * x ^ 2 + p._0.a3 * x ^ 3 + p._0.a4 * x ^ 4 := by
  exact_simp; ring

theorem poly5_eval (p : Poly5 K) (x : K) :
    Evaluate.evaluate p x =
      p._0.a0 + p._0.a1 * x + p._0.a2 * x ^ 2 + p._0.a3 * x ^ 3 + p._0.a4 * x ^ 4 + p._0.a5 * x ^ 5 := by
  exact_simp; ring

theorem poly6_eval (p : Poly6 K) (x : K) :
    Evaluate.evaluate p x =
      p._0.a0 + p._0.a1 * x + p._0.a2 * x ^ 2 + p._0.a3 * x ^ 3 + p._0.a4 * x ^ 4 + p._0.a5 * x ^ 5
        + p._0.a6 * x ^ 6 := by
  exact_simp; ring

theorem poly7_eval (p : Poly7 K) (x : K) :
    Evaluate.evaluate p x =
      p._0.a0 + p._0.a1 * x + p._0.a2 * x ^ 2 + p._0.a3 * x ^ 3 + p._0.a4 * x ^ 4 + p._0.a5 * x ^ 5
        + p._0.a6 * x ^ 6 + p._0.a7 * x ^ 7 := by
  exact_simp; ring

theorem poly8_eval (p : Poly8 K) (x : K) :
    Evaluate.evaluate p x =
      p._0.a0 + p._0.a1 * x + p._0.a2 * x ^ 2 + p._0.a3 * x ^ 3 + p._0.a4 * x ^ 4 + p._0.a5 * x ^ 5
        + p._0.a6 * x ^ 6 + p._0.a7 * x ^ 7 + p._0.a8 * x ^ 8 := by
  exact_simp; ring

/-! ## the dynamic-degree polynomial: any length, empty = 0 -/

/-- Σ cᵢ xⁱ for a coefficient list, lowest degree first -/
def polySum : List K → K → K
  | [], _ => 0
  | c :: cs, x => c + x * polySum cs x

/-- `polySum` is literally Σᵢ cs[i]·xⁱ -/
theorem polySum_eq_sum (cs : List K) (x : K) :
    polySum cs x = ((List.range cs.length).map (fun i => cs.getD i 0 * x ^ i)).sum := by
  induction cs with
  | nil => simp [polySum]
  | cons c cs ih =>
    simp only [polySum, ih, List.length_cons, List.range_succ_eq_map, List.map_cons, List.sum_cons,
      List.map_map, pow_zero, mul_one, List.getD_cons_zero]
    congr 1
    rw [← List.sum_map_mul_left]
    congr 1
    apply List.map_congr_left
    intro i _
    simp [pow_succ]; ring

theorem polyN_eval (cs : List K) (x : K) :
    Evaluate.evaluate (⟨cs⟩ : PolyN K) x = polySum cs x := by
  show Hand.polyNEvaluate ⟨cs⟩ x = _
  induction cs with
  | nil => simp [Hand.polyNEvaluate, polySum, FloatLike.ofDec]
  | cons c cs ih =>
    simp only [Hand.polyNEvaluate, List.reverse_cons] at ih ⊢
    cases h : cs.reverse with
    | nil =>
      have : cs = [] := by simpa using h
      subst this
      simp [polySum]
    | cons first rest =>
      rw [h] at ih
      simp only [List.cons_append, List.foldl_append, List.foldl_cons, List.foldl_nil] at ih ⊢
      rw [ih]; simp only [polySum, FloatLike.fma]; ring

/-- the empty dynamic polynomial is the zero function -/
theorem polyN_empty (x : K) : Evaluate.evaluate (⟨[]⟩ : PolyN K) x = 0 := by
  rw [polyN_eval]; rfl

/-! ## Log wrapper: the polynomial's value at `ln v`, in every interpretation -/

theorem log_eval {F T : Type} [FloatLike F] [Evaluate T F] (p : Log T) (v : F) :
    Evaluate.evaluate p v = Evaluate.evaluate p._0 (FloatLike.ln v) := rfl

/-- hence over a field: Σ cᵢ (ln v)ⁱ (shown for the top degree; the others are identical) -/
theorem log_poly8_eval (p : Log (Poly8 K)) (v : K) :
    Evaluate.evaluate p v =
      let x := Transc.ln v
      p._0._0.a0 + p._0._0.a1 * x + p._0._0.a2 * x ^ 2 + p._0._0.a3 * x ^ 3 + p._0._0.a4 * x ^ 4 + p._0._0.a5 * x ^ 5
        + p._0._0.a6 * x ^ 6 + p._0._0.a7 * x ^ 7 + p._0._0.a8 * x ^ 8 := by
  rw [log_eval, poly8_eval]; rfl
end

/-! non-vacuity / sanity: a concrete instance over ℚ -/
section example_
noncomputable local instance : Transc ℚ := ⟨fun x => x, fun x => x⟩
attribute [local instance] exactFL
example : Evaluate.evaluate (⟨⟨1, -2, 3⟩⟩ : Poly2 ℚ) 2 = 9 := by rw [poly2_eval]; norm_num
example : Evaluate.evaluate (⟨[1, -2, 3, 0, 5]⟩ : PolyN ℚ) (-1) = 11 := by rw [polyN_eval]; norm_num [polySum]
end example_

end PP.Props.C01
