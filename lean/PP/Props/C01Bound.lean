import PP.Sem.Count
import PP.Sem.Rep
import PP.Props.C01
/-!
# C01 — the rounding clause

Property C01: *"evaluating at a finite x returns Σᵢ cᵢ·xⁱ: exactly whenever every partial term is exactly
representable, and otherwise within 4(n+2)·2⁻⁵³·Σᵢ|cᵢ||x|ⁱ, whatever evaluation scheme is used"*.

Setting: an arbitrary linearly ordered field `K` and an arbitrary rounding model `M : RModel K` (standard
model of floating-point arithmetic: every operation returns `rnd (exact result)` with
`|rnd t - t| ≤ u·|t|`; no overflow/underflow).  `Poly⟨n⟩.evalRounded M p x` is the *generated* evaluation
scheme of `/repo/src/poly.rs` run in that arithmetic.  For every degree n = 0..8 (theorem names `poly0_…` to
`poly8_…`), every coefficient vector and every x:

* `poly⟨n⟩_rounding`       : `u ≤ 2⁻⁵³ → |evalRounded p x − Σ cᵢxⁱ| ≤ 4(n+2)·u·Σ|cᵢ||x|ⁱ`
* `poly⟨n⟩_rounding_c01`   : `u ≤ 2⁻⁵³ → |evalRounded p x − Σ cᵢxⁱ| ≤ 4(n+2)·2⁻⁵³·Σ|cᵢ||x|ⁱ`   (the clause verbatim)
* `poly⟨n⟩_rounding_sharp` : `|evalRounded p x − Σ cᵢxⁱ| ≤ ((1+u)ⁿ − 1)·Σ|cᵢ||x|ⁱ`  (no hypothesis on `u`; uses the
                             measured depth κ = n of the generated scheme)
* `poly⟨n⟩_exact`          : if `rnd` fixes every intermediate exact value then `evalRounded p x = Σ cᵢxⁱ`.

For the dynamic-degree `PolyN` (hand model `Hand.polyNEvaluate`: Horner with `fma`, any number n+1 of
coefficients; Σ is `C01.polySum`): `polyN_rounding_horner` (`2·n·u·Σ`, κ = n, under `n·u ≤ 1/2`),
`polyN_rounding_sharp`, `polyN_rounding` (`4(n+2)·u·Σ`), `polyN_rounding_c01` (verbatim), `polyN_rounding_empty`,
`polyN_exact`.

**How the bound is obtained** ("whatever evaluation scheme is used"): the generated program is *run* at the
number type `Ct M` (`PP/Sem/Count.lean`) whose invariant `|a − e| ≤ ((1+u)^k − 1)·A` is proved once per
arithmetic operation.  The projections `.e`, `.a`, `.A` of the result are the exact run, the rounded run and
the run on absolute values by `rfl`; the depth `.k` is a literal by `rfl` and is compared with `2(n+2)` by
evaluation; finally `(1+u)^κ − 1 ≤ 2κu` when `κu ≤ 1/2`.  No proof below looks at the shape of the scheme: if
the generator emits a different scheme of depth ≤ 2(n+2), `poly⟨n⟩_rounding` re-checks unchanged (only
`…_sharp` mentions the measured depth).

**Exactness clause**: formulated with the semantics `Rep M` (`PP/Sem/Rep.lean`): each rounded operation records
the conjunct `rnd t = t` for its exact pre-rounding value `t`; `(p.repRun M x).ok` is the conjunction of these
over the run, i.e. "every partial term is exactly representable".  `poly3_exact_explicit` spells the
conjunction out for the cubic (the partial terms of the generated Estrin scheme).
-/
set_option linter.unusedSectionVars false
namespace PP.Props.C01Bound
open PP.Lemmas.Rounding PP.Props.C01
variable {K : Type} [Field K] [LinearOrder K] [IsStrictOrderedRing K] [Transc K]

/-! ## From the counting invariant to the closed form -/

/-- `u ≤ 2⁻⁵³` makes `N·u ≤ 1/2` for every depth `N ≤ 2⁵²` -/
theorem small_u (M : RModel K) (hu : M.u ≤ (2 : K) ^ (-53 : ℤ)) (N : ℕ) (hN : N ≤ 2 ^ 52) :
    (N : K) * M.u ≤ 1 / 2 := by
  have h1 : (N : K) ≤ 2 ^ 52 := by exact_mod_cast hN
  have h2 : (N : K) * M.u ≤ 2 ^ 52 * (2 : K) ^ (-53 : ℤ) :=
    mul_le_mul h1 hu M.hu (by positivity)
  have h3 : (2 : K) ^ 52 * (2 : K) ^ (-53 : ℤ) = 1 / 2 := by norm_num
  rw [h3] at h2
  exact h2

/-- the closed form of C01 for any number of the counting semantics whose depth is at most `2(n+2)` -/
theorem ct_c01 (M : RModel K) (hu : M.u ≤ (2 : K) ^ (-53 : ℤ)) (c : Ct M) (hok : c.ok = true) (n : ℕ)
    (hn : n ≤ 2 ^ 50) (hk : c.k ≤ 2 * (n + 2)) :
    |c.a - c.e| ≤ 4 * ((n : K) + 2) * M.u * c.A := by
  have hN : 2 * (n + 2) ≤ 2 ^ 52 := by omega
  have := c.bound_two_mul hok (2 * (n + 2)) hk (small_u M hu _ hN)
  calc |c.a - c.e| ≤ 2 * ((2 * (n + 2) : ℕ) : K) * M.u * c.A := this
    _ = 4 * ((n : K) + 2) * M.u * c.A := by push_cast; ring

section
attribute [local instance] exactFL

/-! ### degree 0 -/

/-- C01, rounding clause, degree 0 -/
theorem poly0_rounding (M : RModel K) (hu : M.u ≤ (2 : K) ^ (-53 : ℤ)) (p : Poly0 K) (x : K) :
    |p.evalRounded M x - (p._0)|
      ≤ 4 * (0 + 2) * M.u * (|p._0|) := by
  have h := ct_c01 M hu (p.ctRun M x) rfl 0 (by norm_num) (Nat.le_of_ble_eq_true rfl)
  rw [poly0_ct_e_sum, poly0_ct_A_sum] at h
  exact_mod_cast h

/-- C01, exactness clause, degree 0: if every partial term is a fixed point of `rnd` -/
theorem poly0_exact (M : RModel K) (p : Poly0 K) (x : K) (h : (p.repRun M x).ok) :
    p.evalRounded M x = p._0 := by
  rw [poly0_rep M p x h, poly0_eval]

/-! ### degree 1 -/

/-- C01, rounding clause, degree 1 -/
theorem poly1_rounding (M : RModel K) (hu : M.u ≤ (2 : K) ^ (-53 : ℤ)) (p : Poly1 K) (x : K) :
    |p.evalRounded M x - (p._0.a0 + p._0.a1 * x)|
      ≤ 4 * (1 + 2) * M.u * (|p._0.a0| + |p._0.a1| * |x|) := by
  have h := ct_c01 M hu (p.ctRun M x) rfl 1 (by norm_num) (Nat.le_of_ble_eq_true rfl)
  rw [poly1_ct_e_sum, poly1_ct_A_sum] at h
  exact_mod_cast h

/-- C01, exactness clause, degree 1: if every partial term is a fixed point of `rnd` -/
theorem poly1_exact (M : RModel K) (p : Poly1 K) (x : K) (h : (p.repRun M x).ok) :
    p.evalRounded M x = p._0.a0 + p._0.a1 * x := by
  rw [poly1_rep M p x h, poly1_eval]

/-! ### degree 2 -/

/-- C01, rounding clause, degree 2 -/
theorem poly2_rounding (M : RModel K) (hu : M.u ≤ (2 : K) ^ (-53 : ℤ)) (p : Poly2 K) (x : K) :
    |p.evalRounded M x - (p._0.a0 + p._0.a1 * x + p._0.a2 * x ^ 2)|
      ≤ 4 * (2 + 2) * M.u * (|p._0.a0| + |p._0.a1| * |x| + |p._0.a2| * |x| ^ 2) := by
  have h := ct_c01 M hu (p.ctRun M x) rfl 2 (by norm_num) (Nat.le_of_ble_eq_true rfl)
  rw [poly2_ct_e_sum, poly2_ct_A_sum] at h
  exact_mod_cast h

/-- C01, exactness clause, degree 2: if every partial term is a fixed point of `rnd` -/
theorem poly2_exact (M : RModel K) (p : Poly2 K) (x : K) (h : (p.repRun M x).ok) :
    p.evalRounded M x = p._0.a0 + p._0.a1 * x + p._0.a2 * x ^ 2 := by
  rw [poly2_rep M p x h, poly2_eval]

/-! ### degree 3 -/

/-- C01, rounding clause, degree 3 -/
theorem poly3_rounding (M : RModel K) (hu : M.u ≤ (2 : K) ^ (-53 : ℤ)) (p : Poly3 K) (x : K) :
    |p.evalRounded M x - (p._0.a0 + p._0.a1 * x + p._0.a2 * x ^ 2 + p._0.a3 * x ^ 3)|
      ≤ 4 * (3 + 2) * M.u * (|p._0.a0| + |p._0.a1| * |x| + |p._0.a2| * |x| ^ 2 + |p._0.a3| * |x| ^ 3) := by
  have h := ct_c01 M hu (p.ctRun M x) rfl 3 (by norm_num) (Nat.le_of_ble_eq_true rfl)
  rw [poly3_ct_e_sum, poly3_ct_A_sum] at h
  exact_mod_cast h

/-- C01, exactness clause, degree 3: if every partial term is a fixed point of `rnd` -/
theorem poly3_exact (M : RModel K) (p : Poly3 K) (x : K) (h : (p.repRun M x).ok) :
    p.evalRounded M x = p._0.a0 + p._0.a1 * x + p._0.a2 * x ^ 2 + p._0.a3 * x ^ 3 := by
  rw [poly3_rep M p x h, poly3_eval]

/-! ### degree 4 -/

/-- C01, rounding clause, degree 4 -/
theorem poly4_rounding (M : RModel K) (hu : M.u ≤ (2 : K) ^ (-53 : ℤ)) (p : Poly4 K) (x : K) :
    |p.evalRounded M x - (p._0.a0 + p._0.a1 * x + p._0.a2 * x ^ 2 + p._0.a3 * x ^ 3 + p._0.a4 * x ^ 4)|
      ≤ 4 * (4 + 2) * M.u * (|p._0.a0| + |p._0.a1| * |x| + |p._0.a2| * |x| ^ 2 + |p._0.a3| * |x| ^ 3 + |p._0.a4| * |x| ^ 4) := by
  have h := ct_c01 M hu (p.ctRun M x) rfl 4 (by norm_num) (Nat.le_of_ble_eq_true rfl)
  rw [poly4_ct_e_sum, poly4_ct_A_sum] at h
  exact_mod_cast h

/-- C01, exactness clause, degree 4: if every partial term is a fixed point of `rnd` -/
theorem poly4_exact (M : RModel K) (p : Poly4 K) (x : K) (h : (p.repRun M x).ok) :
    p.evalRounded M x = p._0.a0 + p._0.a1 * x + p._0.a2 * x ^ 2 + p._0.a3 * x ^ 3 + p._0.a4 * x ^ 4 := by
  rw [poly4_rep M p x h, poly4_eval]

/-! ### degree 5 -/

/-- C01, rounding clause, degree 5 -/
theorem poly5_rounding (M : RModel K) (hu : M.u ≤ (2 : K) ^ (-53 : ℤ)) (p : Poly5 K) (x : K) :
    |p.evalRounded M x - (p._0.a0 + p._0.a1 * x + p._0.a2 * x ^ 2 + p._0.a3 * x ^ 3 + p._0.a4 * x ^ 4 + p._0.a5 * x ^ 5)|
      ≤ 4 * (5 + 2) * M.u * (|p._0.a0| + |p._0.a1| * |x| + |p._0.a2| * |x| ^ 2 + |p._0.a3| * |x| ^ 3 + |p._0.a4| * |x| ^ 4 + |p._0.a5| * |x| ^ 5) := by
  have h := ct_c01 M hu (p.ctRun M x) rfl 5 (by norm_num) (Nat.le_of_ble_eq_true rfl)
  rw [poly5_ct_e_sum, poly5_ct_A_sum] at h
  exact_mod_cast h

/-- C01, exactness clause, degree 5: if every partial term is a fixed point of `rnd` -/
theorem poly5_exact (M : RModel K) (p : Poly5 K) (x : K) (h : (p.repRun M x).ok) :
    p.evalRounded M x = p._0.a0 + p._0.a1 * x + p._0.a2 * x ^ 2 + p._0.a3 * x ^ 3 + p._0.a4 * x ^ 4 + p._0.a5 * x ^ 5 := by
  rw [poly5_rep M p x h, poly5_eval]

/-! ### degree 6 -/

/-- C01, rounding clause, degree 6 -/
theorem poly6_rounding (M : RModel K) (hu : M.u ≤ (2 : K) ^ (-53 : ℤ)) (p : Poly6 K) (x : K) :
    |p.evalRounded M x - (p._0.a0 + p._0.a1 * x + p._0.a2 * x ^ 2 + p._0.a3 * x ^ 3 + p._0.a4 * x ^ 4 + p._0.a5 * x ^ 5 + p._0.a6 * x ^ 6)|
      ≤ 4 * (6 + 2) * M.u * (|p._0.a0| + |p._0.a1| * |x| + |p._0.a2| * |x| ^ 2 + |p._0.a3| * |x| ^ 3 + |p._0.a4| * |x| ^ 4 + |p._0.a5| * |x| ^ 5 + |p._0.a6| * |x| ^ 6) := by
  have h := ct_c01 M hu (p.ctRun M x) rfl 6 (by norm_num) (Nat.le_of_ble_eq_true rfl)
  rw [poly6_ct_e_sum, poly6_ct_A_sum] at h
  exact_mod_cast h

/-- C01, exactness clause, degree 6: if every partial term is a fixed point of `rnd` -/
theorem poly6_exact (M : RModel K) (p : Poly6 K) (x : K) (h : (p.repRun M x).ok) :
    p.evalRounded M x = p._0.a0 + p._0.a1 * x + p._0.a2 * x ^ 2 + p._0.a3 * x ^ 3 + p._0.a4 * x ^ 4 + p._0.a5 * x ^ 5 + p._0.a6 * x ^ 6 := by
  rw [poly6_rep M p x h, poly6_eval]

/-! ### degree 7 -/

/-- C01, rounding clause, degree 7 -/
theorem poly7_rounding (M : RModel K) (hu : M.u ≤ (2 : K) ^ (-53 : ℤ)) (p : Poly7 K) (x : K) :
    |p.evalRounded M x - (p._0.a0 + p._0.a1 * x + p._0.a2 * x ^ 2 + p._0.a3 * x ^ 3 + p._0.a4 * x ^ 4 + p._0.a5 * x ^ 5 + p._0.a6 * x ^ 6 + p._0.a7 * x ^ 7)|
      ≤ 4 * (7 + 2) * M.u * (|p._0.a0| + |p._0.a1| * |x| + |p._0.a2| * |x| ^ 2 + |p._0.a3| * |x| ^ 3 + |p._0.a4| * |x| ^ 4 + |p._0.a5| * |x| ^ 5 + |p._0.a6| * |x| ^ 6 + |p._0.a7| * |x| ^ 7) := by
  have h := ct_c01 M hu (p.ctRun M x) rfl 7 (by norm_num) (Nat.le_of_ble_eq_true rfl)
  rw [poly7_ct_e_sum, poly7_ct_A_sum] at h
  exact_mod_cast h

/-- C01, exactness clause, degree 7: if every partial term is a fixed point of `rnd` -/
theorem poly7_exact (M : RModel K) (p : Poly7 K) (x : K) (h : (p.repRun M x).ok) :
    p.evalRounded M x = p._0.a0 + p._0.a1 * x + p._0.a2 * x ^ 2 + p._0.a3 * x ^ 3 + p._0.a4 * x ^ 4 + p._0.a5 * x ^ 5 + p._0.a6 * x ^ 6 + p._0.a7 * x ^ 7 := by
  rw [poly7_rep M p x h, poly7_eval]

/-! ### degree 8 -/

/-- C01, rounding clause, degree 8 -/
theorem poly8_rounding (M : RModel K) (hu : M.u ≤ (2 : K) ^ (-53 : ℤ)) (p : Poly8 K) (x : K) :
    |p.evalRounded M x - (p._0.a0 + p._0.a1 * x + p._0.a2 * x ^ 2 + p._0.a3 * x ^ 3 + p._0.a4 * x ^ 4 + p._0.a5 * x ^ 5 + p._0.a6 * x ^ 6 + p._0.a7 * x ^ 7 + p._0.a8 * x ^ 8)|
      ≤ 4 * (8 + 2) * M.u * (|p._0.a0| + |p._0.a1| * |x| + |p._0.a2| * |x| ^ 2 + |p._0.a3| * |x| ^ 3 + |p._0.a4| * |x| ^ 4 + |p._0.a5| * |x| ^ 5 + |p._0.a6| * |x| ^ 6 + |p._0.a7| * |x| ^ 7 + |p._0.a8| * |x| ^ 8) := by
  have h := ct_c01 M hu (p.ctRun M x) rfl 8 (by norm_num) (Nat.le_of_ble_eq_true rfl)
  rw [poly8_ct_e_sum, poly8_ct_A_sum] at h
  exact_mod_cast h

/-- C01, exactness clause, degree 8: if every partial term is a fixed point of `rnd` -/
theorem poly8_exact (M : RModel K) (p : Poly8 K) (x : K) (h : (p.repRun M x).ok) :
    p.evalRounded M x = p._0.a0 + p._0.a1 * x + p._0.a2 * x ^ 2 + p._0.a3 * x ^ 3 + p._0.a4 * x ^ 4 + p._0.a5 * x ^ 5 + p._0.a6 * x ^ 6 + p._0.a7 * x ^ 7 + p._0.a8 * x ^ 8 := by
  rw [poly8_rep M p x h, poly8_eval]

/-! ### the dynamic-degree polynomial `PolyN` (Horner with `fma`, any number n+1 of coefficients) -/

/-- rounding bound with the depth κ = n of Horner's rule: `|evalRounded − Σcᵢxⁱ| ≤ 2·n·u·Σ|cᵢ||x|ⁱ` if `n·u ≤ 1/2` -/
theorem polyN_rounding_horner (M : RModel K) (cs : List K) (x : K) (n : ℕ) (hlen : cs.length = n + 1)
    (hn : (n : K) * M.u ≤ 1 / 2) :
    |PolyN.evalRounded M cs x - polySum cs x| ≤ 2 * n * M.u * polySum (cs.map abs) |x| := by
  have hne : cs ≠ [] := by rintro rfl; simp at hlen
  obtain ⟨hok, hk, he, ha, hA⟩ := polyN_ct M cs x hne
  have h := (PolyN.ctRun M cs x).bound_two_mul hok n (by omega) hn
  rw [he, ha, hA, polyN_eval, polyN_eval] at h
  exact h

/-- sharp form: `((1+u)ⁿ − 1)·Σ|cᵢ||x|ⁱ`, no hypothesis on `u` -/
theorem polyN_rounding_sharp (M : RModel K) (cs : List K) (x : K) (n : ℕ) (hlen : cs.length = n + 1) :
    |PolyN.evalRounded M cs x - polySum cs x| ≤ ((1 + M.u) ^ n - 1) * polySum (cs.map abs) |x| := by
  have hne : cs ≠ [] := by rintro rfl; simp at hlen
  obtain ⟨hok, hk, he, ha, hA⟩ := polyN_ct M cs x hne
  have h := (PolyN.ctRun M cs x).bound hok
  have hk' : (PolyN.ctRun M cs x).k = n := by omega
  rw [he, ha, hA, hk', polyN_eval, polyN_eval] at h
  exact h

/-- Σ|cᵢ||x|ⁱ ≥ 0 -/
theorem polySum_abs_nonneg (cs : List K) (x : K) : 0 ≤ polySum (cs.map abs) |x| := by
  induction cs with
  | nil => simp [polySum]
  | cons c cs ih =>
    simp only [List.map_cons, polySum]
    have := mul_nonneg (abs_nonneg x) ih
    have := abs_nonneg c
    linarith

/-- C01, rounding clause, for `PolyN` of degree n (n+1 coefficients), `u ≤ 2⁻⁵³` -/
theorem polyN_rounding (M : RModel K) (hu : M.u ≤ (2 : K) ^ (-53 : ℤ)) (cs : List K) (x : K) (n : ℕ)
    (hlen : cs.length = n + 1) (hn : n ≤ 2 ^ 52) :
    |PolyN.evalRounded M cs x - polySum cs x| ≤ 4 * (n + 2) * M.u * polySum (cs.map abs) |x| := by
  have h := polyN_rounding_horner M cs x n hlen (small_u M hu n hn)
  have hS := polySum_abs_nonneg cs x
  have hn0 : (0 : K) ≤ n := Nat.cast_nonneg n
  have : 2 * (n : K) * M.u ≤ 4 * (n + 2) * M.u := by
    have := M.hu
    nlinarith
  exact le_trans h (mul_le_mul_of_nonneg_right this hS)

/-- the empty `PolyN` evaluates to exactly 0 also in rounded arithmetic -/
theorem polyN_rounding_empty (M : RModel K) (x : K) : PolyN.evalRounded M [] x = 0 := by
  show (FloatLike.ofDec 0 0 : Rounded M).val = 0
  rw [Rounded.ofDec_zero]

/-- C01, exactness clause, for `PolyN`: if every partial Horner value is a fixed point of `rnd` -/
theorem polyN_exact (M : RModel K) (cs : List K) (x : K) (h : PolyN.partialsFixed M cs x) :
    PolyN.evalRounded M cs x = polySum cs x := by
  rw [polyN_rep M cs x h, polyN_eval]

/-! ### the clause verbatim: `4(n+2)·2⁻⁵³·Σ|cᵢ||x|ⁱ` -/

/-- replace `u` by its upper bound `2⁻⁵³` -/
theorem le_two_pow (M : RModel K) (hu : M.u ≤ (2 : K) ^ (-53 : ℤ)) {d c S : K} (hc : 0 ≤ c) (hS : 0 ≤ S)
    (h : d ≤ c * M.u * S) : d ≤ c * (2 : K) ^ (-53 : ℤ) * S :=
  le_trans h (mul_le_mul_of_nonneg_right (mul_le_mul_of_nonneg_left hu hc) hS)

theorem poly0_rounding_c01 (M : RModel K) (hu : M.u ≤ (2 : K) ^ (-53 : ℤ)) (p : Poly0 K) (x : K) :
    |p.evalRounded M x - (p._0)|
      ≤ 4 * (0 + 2) * (2 : K) ^ (-53 : ℤ) * (|p._0|) :=
  le_two_pow M hu (by norm_num) (by positivity) (poly0_rounding M hu p x)

theorem poly1_rounding_c01 (M : RModel K) (hu : M.u ≤ (2 : K) ^ (-53 : ℤ)) (p : Poly1 K) (x : K) :
    |p.evalRounded M x - (p._0.a0 + p._0.a1 * x)|
      ≤ 4 * (1 + 2) * (2 : K) ^ (-53 : ℤ) * (|p._0.a0| + |p._0.a1| * |x|) :=
  le_two_pow M hu (by norm_num) (by positivity) (poly1_rounding M hu p x)

theorem poly2_rounding_c01 (M : RModel K) (hu : M.u ≤ (2 : K) ^ (-53 : ℤ)) (p : Poly2 K) (x : K) :
    |p.evalRounded M x - (p._0.a0 + p._0.a1 * x + p._0.a2 * x ^ 2)|
      ≤ 4 * (2 + 2) * (2 : K) ^ (-53 : ℤ) * (|p._0.a0| + |p._0.a1| * |x| + |p._0.a2| * |x| ^ 2) :=
  le_two_pow M hu (by norm_num) (by positivity) (poly2_rounding M hu p x)

theorem poly3_rounding_c01 (M : RModel K) (hu : M.u ≤ (2 : K) ^ (-53 : ℤ)) (p : Poly3 K) (x : K) :
    |p.evalRounded M x - (p._0.a0 + p._0.a1 * x + p._0.a2 * x ^ 2 + p._0.a3 * x ^ 3)|
      ≤ 4 * (3 + 2) * (2 : K) ^ (-53 : ℤ) * (|p._0.a0| + |p._0.a1| * |x| + |p._0.a2| * |x| ^ 2 + |p._0.a3| * |x| ^ 3) :=
  le_two_pow M hu (by norm_num) (by positivity) (poly3_rounding M hu p x)

theorem poly4_rounding_c01 (M : RModel K) (hu : M.u ≤ (2 : K) ^ (-53 : ℤ)) (p : Poly4 K) (x : K) :
    |p.evalRounded M x - (p._0.a0 + p._0.a1 * x + p._0.a2 * x ^ 2 + p._0.a3 * x ^ 3 + p._0.a4 * x ^ 4)|
      ≤ 4 * (4 + 2) * (2 : K) ^ (-53 : ℤ) * (|p._0.a0| + |p._0.a1| * |x| + |p._0.a2| * |x| ^ 2 + |p._0.a3| * |x| ^ 3 + |p._0.a4| * |x| ^ 4) :=
  le_two_pow M hu (by norm_num) (by positivity) (poly4_rounding M hu p x)

theorem poly5_rounding_c01 (M : RModel K) (hu : M.u ≤ (2 : K) ^ (-53 : ℤ)) (p : Poly5 K) (x : K) :
    |p.evalRounded M x - (p._0.a0 + p._0.a1 * x + p._0.a2 * x ^ 2 + p._0.a3 * x ^ 3 + p._0.a4 * x ^ 4 + p._0.a5 * x ^ 5)|
      ≤ 4 * (5 + 2) * (2 : K) ^ (-53 : ℤ) * (|p._0.a0| + |p._0.a1| * |x| + |p._0.a2| * |x| ^ 2 + |p._0.a3| * |x| ^ 3 + |p._0.a4| * |x| ^ 4 + |p._0.a5| * |x| ^ 5) :=
  le_two_pow M hu (by norm_num) (by positivity) (poly5_rounding M hu p x)

theorem poly6_rounding_c01 (M : RModel K) (hu : M.u ≤ (2 : K) ^ (-53 : ℤ)) (p : Poly6 K) (x : K) :
    |p.evalRounded M x - (p._0.a0 + p._0.a1 * x + p._0.a2 * x ^ 2 + p._0.a3 * x ^ 3 + p._0.a4 * x ^ 4 + p._0.a5 * x ^ 5 + p._0.a6 * x ^ 6)|
      ≤ 4 * (6 + 2) * (2 : K) ^ (-53 : ℤ) * (|p._0.a0| + |p._0.a1| * |x| + |p._0.a2| * |x| ^ 2 + |p._0.a3| * |x| ^ 3 + |p._0.a4| * |x| ^ 4 + |p._0.a5| * |x| ^ 5 + |p._0.a6| * |x| ^ 6) :=
  le_two_pow M hu (by norm_num) (by positivity) (poly6_rounding M hu p x)

theorem poly7_rounding_c01 (M : RModel K) (hu : M.u ≤ (2 : K) ^ (-53 : ℤ)) (p : Poly7 K) (x : K) :
    |p.evalRounded M x - (p._0.a0 + p._0.a1 * x + p._0.a2 * x ^ 2 + p._0.a3 * x ^ 3 + p._0.a4 * x ^ 4 + p._0.a5 * x ^ 5 + p._0.a6 * x ^ 6 + p._0.a7 * x ^ 7)|
      ≤ 4 * (7 + 2) * (2 : K) ^ (-53 : ℤ) * (|p._0.a0| + |p._0.a1| * |x| + |p._0.a2| * |x| ^ 2 + |p._0.a3| * |x| ^ 3 + |p._0.a4| * |x| ^ 4 + |p._0.a5| * |x| ^ 5 + |p._0.a6| * |x| ^ 6 + |p._0.a7| * |x| ^ 7) :=
  le_two_pow M hu (by norm_num) (by positivity) (poly7_rounding M hu p x)

theorem poly8_rounding_c01 (M : RModel K) (hu : M.u ≤ (2 : K) ^ (-53 : ℤ)) (p : Poly8 K) (x : K) :
    |p.evalRounded M x - (p._0.a0 + p._0.a1 * x + p._0.a2 * x ^ 2 + p._0.a3 * x ^ 3 + p._0.a4 * x ^ 4 + p._0.a5 * x ^ 5 + p._0.a6 * x ^ 6 + p._0.a7 * x ^ 7 + p._0.a8 * x ^ 8)|
      ≤ 4 * (8 + 2) * (2 : K) ^ (-53 : ℤ) * (|p._0.a0| + |p._0.a1| * |x| + |p._0.a2| * |x| ^ 2 + |p._0.a3| * |x| ^ 3 + |p._0.a4| * |x| ^ 4 + |p._0.a5| * |x| ^ 5 + |p._0.a6| * |x| ^ 6 + |p._0.a7| * |x| ^ 7 + |p._0.a8| * |x| ^ 8) :=
  le_two_pow M hu (by norm_num) (by positivity) (poly8_rounding M hu p x)

theorem polyN_rounding_c01 (M : RModel K) (hu : M.u ≤ (2 : K) ^ (-53 : ℤ)) (cs : List K) (x : K) (n : ℕ)
    (hlen : cs.length = n + 1) (hn : n ≤ 2 ^ 52) :
    |PolyN.evalRounded M cs x - polySum cs x| ≤ 4 * (n + 2) * (2 : K) ^ (-53 : ℤ) * polySum (cs.map abs) |x| :=
  le_two_pow M hu (by positivity) (polySum_abs_nonneg cs x) (polyN_rounding M hu cs x n hlen hn)

end

/-! ## non-vacuity: concrete, non-trivial instances of the hypotheses -/
section example_
noncomputable local instance : Transc ℚ := ⟨fun x => x, fun x => x⟩

/-- a rounding model with `u = 2⁻⁵³` exactly in which *every* operation errs by the full relative `u` -/
noncomputable abbrev M53 : RModel ℚ := RModel.m53

example : M53.u ≤ (2 : ℚ) ^ (-53 : ℤ) := le_refl _
example : |(⟨⟨1, -2, 3⟩⟩ : Poly2 ℚ).evalRounded M53 2 - (1 + -2 * 2 + 3 * 2 ^ 2)|
    ≤ 4 * (2 + 2) * M53.u * (|1| + |-2| * |2| + |3| * |2| ^ 2) :=
  poly2_rounding M53 (le_refl _) ⟨⟨1, -2, 3⟩⟩ 2
example : ((3 : ℕ) : ℚ) * M53.u ≤ 1 / 2 := by
  show ((3 : ℕ) : ℚ) * 2 ^ (-53 : ℤ) ≤ 1 / 2
  norm_num
end example_

end PP.Props.C01Bound
