import PP.Hand.Piecewise
import PP.Sem.Order
/-!
# C02 — direct evaluation selects the half-open segment containing x

Statements only about the model `Hand.pwEvaluate` / `Hand.selSeg` (tied to
`<Piecewise<T> as Evaluate>::evaluate` by the `pweval` campaign).  Generic in the number type `F`
(any `OrdLaws`, in particular `F64` with any libm) and in the piece type `T`.
-/
set_option linter.unusedSectionVars false
namespace PP.Props.C02
open FloatLike OrdLaws Hand
variable {F T : Type} [FloatLike F]

/-- The property's wording, as a specification: the first segment whose end is strictly greater than x
(IEEE `>`), or the last segment when no end exceeds x. -/
def specSel (segs : List (Segment F T)) (x : F) : Option (Segment F T) :=
  match segs.find? (fun s => lt x s.end) with
  | some s => some s
  | none => segs.getLast?

/-- Selection is exactly the specification — for EVERY segment list and EVERY x (NaN, ±∞ included). -/
theorem selSeg_eq_spec (segs : List (Segment F T)) (x : F) : selSeg segs x = specSel segs x := by
  induction segs with
  | nil => simp [selSeg, specSel]
  | cons s rest ih =>
    cases rest with
    | nil => unfold specSel; by_cases h : lt x s.end <;> simp [selSeg, List.find?, h]
    | cons s' rest' =>
      by_cases h : lt x s.end = true
      · simp [selSeg, specSel, List.find?, h]
      · have h' : lt x s.end = false := by simpa using h
        simp only [selSeg, h', Bool.false_eq_true, if_false, ih]
        simp [specSel, List.find?, h', List.getLast?_cons_cons]

/-- The value returned is, bit for bit, the selected segment's own value at x. -/
theorem pwEvaluate_eq [Evaluate T F] (p : Piecewise F T) (x : F) :
    pwEvaluate p x = (specSel p.segments x).map (fun s => Evaluate.evaluate s.poly x) := by
  unfold pwEvaluate; rw [selSeg_eq_spec]; rfl

/-- A non-empty function is evaluated without panic at every argument (C16 uses this). -/
theorem pwEvaluate_isSome [Evaluate T F] (p : Piecewise F T) (x : F) (h : p.segments ≠ []) :
    (pwEvaluate p x).isSome = true := by
  rw [pwEvaluate_eq]
  cases hs : p.segments with
  | nil => exact absurd hs h
  | cons a l =>
    unfold specSel
    cases hf : List.find? (fun s => lt x s.end) (a :: l) with
    | some s => simp
    | none => simp [List.getLast?_cons]

/-- an empty function is rejected (the documented panic) -/
theorem pwEvaluate_nil [Evaluate T F] (x : F) : pwEvaluate (⟨[]⟩ : Piecewise F T) x = none := rfl

section laws
variable [OrdLaws F]

/-- well-formed: non-empty, ends non-NaN and non-decreasing -/
structure WF (segs : List (Segment F T)) : Prop where
  ne : segs ≠ []
  nn : ∀ s ∈ segs, isNaN s.end = false
  sorted : segs.Pairwise (fun a b => key a.end ≤ key b.end)

/-- x below the first end: the first segment (it extends to −∞). -/
theorem first_of_lt (s : Segment F T) (rest : List (Segment F T)) (x : F) (h : lt x s.end = true) :
    selSeg (s :: rest) x = some s := by
  rw [selSeg_eq_spec]; simp [specSel, List.find?, h]

/-- no end exceeds x: the last segment (it extends to +∞). -/
theorem last_of_none (segs : List (Segment F T)) (x : F) (h : ∀ s ∈ segs, lt x s.end = false) :
    selSeg segs x = segs.getLast? := by
  rw [selSeg_eq_spec]; unfold specSel
  have : segs.find? (fun s => lt x s.end) = none := by
    rw [List.find?_eq_none]; intro s hs; simp [h s hs]
  rw [this]

/-- A NaN argument is answered from the last segment. -/
theorem last_of_nan (segs : List (Segment F T)) (x : F) (hx : isNaN x = true) :
    selSeg segs x = segs.getLast? :=
  last_of_none segs x (fun _ _ => lt_nan_left hx)

/-- Characterisation on a well-formed list, non-NaN x: the selected segment `pre ++ s :: post`
is the one with every earlier end ≤ x and its own end > x … -/
theorem sel_interior (pre post : List (Segment F T)) (s : Segment F T) (x : F)
    (hpre : ∀ p ∈ pre, lt x p.end = false) (hs : lt x s.end = true) :
    selSeg (pre ++ s :: post) x = some s := by
  rw [selSeg_eq_spec]; unfold specSel
  have : (pre ++ s :: post).find? (fun s => lt x s.end) = some s := by
    rw [List.find?_append]
    have : pre.find? (fun s => lt x s.end) = none := by
      rw [List.find?_eq_none]; intro p hp; simp [hpre p hp]
    simp [this, List.find?, hs]
  rw [this]

/-- … in particular for strictly increasing ends: segment i is chosen exactly on `end_{i-1} ≤ x < end_i`.
(`prev` is the segment before `s`; sortedness makes every earlier end ≤ prev.end ≤ x.) -/
theorem sel_half_open (pre post : List (Segment F T)) (prev s : Segment F T) (x : F)
    (hwf : WF (pre ++ prev :: s :: post)) (hx : isNaN x = false)
    (hlo : key prev.end ≤ key x) (hhi : key x < key s.end) :
    selSeg (pre ++ prev :: s :: post) x = some s := by
  have := sel_interior (pre ++ [prev]) post s x ?_ ?_
  · simpa using this
  · intro p hp
    have hpm : p ∈ pre ++ prev :: s :: post := by
      rcases List.mem_append.mp hp with h | h
      · exact List.mem_append_left _ h
      · simp at h; subst h; simp
    have hpn := hwf.nn p hpm
    rw [lt_false_iff hx hpn]
    rcases List.mem_append.mp hp with h | h
    · have := hwf.sorted
      rw [List.pairwise_append] at this
      exact Int.le_trans (this.2.2 p h prev (by simp)) hlo
    · simp at h; subst h; exact hlo
  · have hsn := hwf.nn s (by simp)
    rw [lt_iff hx hsn]; exact hhi

/-- The breakpoint belongs to the segment on its right: at `x = end_j` (same key) segment j is NOT chosen
when a later segment exists; the chosen one has an end strictly greater. -/
theorem breakpoint_goes_right (segs : List (Segment F T)) (x : F) (s : Segment F T)
    (h : selSeg segs x = some s) (hnl : segs.getLast? ≠ some s) : lt x s.end = true := by
  rw [selSeg_eq_spec] at h; unfold specSel at h
  cases hf : segs.find? (fun s => lt x s.end) with
  | some s' =>
    rw [hf] at h; simp at h; subst h
    simpa using List.find?_some hf
  | none => rw [hf] at h; exact absurd h hnl

/-- Duplicate ends / zero-width segments are skipped: nothing before the chosen segment has end > x. -/
theorem nothing_skipped_exceeds (pre post : List (Segment F T)) (s : Segment F T) (x : F)
    (h : selSeg (pre ++ s :: post) x = some s) (huniq : ∀ p ∈ pre, p ≠ s) (hpost : post ≠ [] ∨ lt x s.end = true) :
    ∀ p ∈ pre, lt x p.end = false := by
  intro p hp
  rw [selSeg_eq_spec] at h; unfold specSel at h
  cases hf : (pre ++ s :: post).find? (fun s => lt x s.end) with
  | some s' =>
    rw [hf] at h; simp at h; subst h
    rw [List.find?_append] at hf
    cases hpf : pre.find? (fun s => lt x s.end) with
    | some q =>
      rw [hpf] at hf; simp at hf; subst hf
      exact absurd rfl (huniq _ (List.mem_of_find?_eq_some hpf))
    | none =>
      rw [List.find?_eq_none] at hpf
      simpa using hpf p hp
  | none =>
    rw [List.find?_eq_none] at hf
    simpa using hf p (List.mem_append_left _ hp)

end laws

/-! non-vacuity: a concrete well-formed three-segment function over `F64` -/
section example_
open F64
def exLn : F64 → F64 := fun _ => F64.nan
local instance : FloatLike F64 := F64.inst exLn exLn
local instance : OrdLaws F64 := F64.ordLaws exLn exLn
def one : F64 := F64.ofDec 1 0
def two : F64 := F64.ofDec 2 0
def three : F64 := F64.ofDec 3 0
def exSegs : List (Segment F64 (Poly0 F64)) := [⟨one, ⟨one⟩⟩, ⟨two, ⟨two⟩⟩, ⟨three, ⟨three⟩⟩]
example : WF exSegs := ⟨by decide, by decide, by decide⟩
example : selSeg exSegs two = some ⟨three, ⟨three⟩⟩ := by decide
example : selSeg exSegs (F64.inf true) = some ⟨one, ⟨one⟩⟩ := by decide
example : selSeg exSegs F64.nan = some ⟨three, ⟨three⟩⟩ := by decide
end example_

end PP.Props.C02
