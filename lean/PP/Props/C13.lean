import PP.Lemmas.Merge
/-!
# C13 — `&f + &g` and `&f - &g` are pointwise on the merged breakpoints

One model, `Hand.merge op`, for both copies of the loop in the source (`Add` at piecewise.rs:295-357 and
`Sub` at :492-554 are compared with it separately by campaign `merge`); `op` is the piece-level
operation (`PAdd.add` / `PSub.sub`), any piece type.
-/
set_option linter.unusedSectionVars false
namespace PP.Props.C13
open FloatLike OrdLaws Hand PP.Props.C02 PP.Lemmas.Evaluator PP.Lemmas.Merge
variable {F T P : Type} [FloatLike F] [OrdLaws F]

/-- **Pointwise.** At every non-NaN x the result's selected piece is `op` of the piece of f and the piece
of g that direct evaluation of f and of g selects at x.  (Sortedness is not needed for this.) -/
theorem merge_pointwise (op : T → T → P) (f g : List (Segment F T)) (x : F) (hx : isNaN x = false)
    (hf : NN f) (hg : NN g) :
    ∀ res, merge op f g = some res → ∀ a b, selSeg f x = some a → selSeg g x = some b →
      ∃ r, selSeg res x = some r ∧ r.poly = op a.poly b.poly := by
  fun_induction merge op f g
  case case1 => intro res h; simp at h
  case case2 => intro res h; simp at h
  case case3 a0 b0 =>
    intro res h a b ha hb
    simp only [selSeg, Option.some.injEq] at ha hb
    cases hc : pcmp a0.end b0.end with
    | none => rw [hc] at h; simp at h
    | some o => rw [hc] at h; simp at h; subst h; exact ⟨_, rfl, by rw [← ha, ← hb]⟩
  case case4 => intro res h; simp at h
  case case5 a0 b0 g0 gs o hc ih =>
    intro res h a b ha hb
    have ha0 : isNaN a0.end = false := hf a0 (by simp)
    have hb0 : isNaN b0.end = false := hg b0 (by simp)
    cases hm : merge op [a0] (g0 :: gs) with
    | none => rw [hm] at h; simp at h
    | some r =>
      rw [hm] at h; simp only [Option.map_some, Option.some.injEq] at h; subst h
      have hr := merge_ne_nil op _ _ r hm
      simp only [selSeg, Option.some.injEq] at ha
      rw [selSeg_cons_ne _ _ _ (by simp)] at hb
      rw [selSeg_cons_ne _ _ _ hr]
      have hkey : o = .eq → key a0.end = key b0.end := fun ho => pcmp_eq _ _ ha0 hb0 (ho ▸ hc)
      clear hc
      have fin : ∀ e : F, lt x e = lt x b0.end →
          ∃ r', (if lt x e = true then some (⟨e, op a0.poly b0.poly⟩ : Segment F P) else selSeg r x) = some r' ∧
            r'.poly = op a.poly b.poly := by
        intro e he
        rw [he]
        by_cases hl : lt x b0.end = true
        · simp only [hl, if_true, Option.some.injEq] at hb ⊢; exact ⟨_, rfl, by rw [← ha, ← hb]⟩
        · have hl' : lt x b0.end = false := by simpa using hl
          simp only [hl', Bool.false_eq_true, if_false] at hb ⊢
          exact ih hf (fun s hs => hg s (by simp [hs])) r hm a b (by simp [selSeg, ha]) hb
      cases o
      · exact fin _ rfl
      · exact fin _ (by rw [lt_key x _ hx ha0, lt_key x _ hx hb0, hkey rfl])
      · exact fin _ rfl
  case case6 => intro res h; simp at h
  case case7 a0 f0 fs b0 o hc ih =>
    intro res h a b ha hb
    cases hm : merge op (f0 :: fs) [b0] with
    | none => rw [hm] at h; simp at h
    | some r =>
      rw [hm] at h; simp only [Option.map_some, Option.some.injEq] at h; subst h
      have hr := merge_ne_nil op _ _ r hm
      simp only [selSeg, Option.some.injEq] at hb
      rw [selSeg_cons_ne _ _ _ (by simp)] at ha
      rw [selSeg_cons_ne _ _ _ hr]
      by_cases hl : lt x a0.end = true
      · simp only [hl, if_true, Option.some.injEq] at ha ⊢; exact ⟨_, rfl, by rw [← ha, ← hb]⟩
      · have hl' : lt x a0.end = false := by simpa using hl
        simp only [hl', Bool.false_eq_true, if_false] at ha ⊢
        exact ih (fun s hs => hf s (by simp [hs])) hg r hm a b ha (by simp [selSeg, hb])
  case case8 => intro res h; simp at h
  case case9 a0 f0 fs b0 g0 gs hc ih =>
    -- a.end < b.end : emit a.end, advance f
    intro res h a b ha hb
    have ha0 : isNaN a0.end = false := hf a0 (by simp)
    have hb0 : isNaN b0.end = false := hg b0 (by simp)
    cases hm : merge op (f0 :: fs) (b0 :: g0 :: gs) with
    | none => rw [hm] at h; simp at h
    | some r =>
      rw [hm] at h; simp only [Option.map_some, Option.some.injEq] at h; subst h
      have hr := merge_ne_nil op _ _ r hm
      have hk : key a0.end < key b0.end := pcmp_lt _ _ ha0 hb0 hc
      rw [selSeg_cons_ne _ _ _ (by simp)] at ha
      rw [selSeg_cons_ne _ _ _ hr]
      by_cases hl : lt x a0.end = true
      · have hlb : lt x b0.end = true := by
          rw [lt_key x _ hx ha0] at hl; rw [lt_key x _ hx hb0]; simp at hl ⊢; omega
        rw [selSeg_cons_ne _ _ _ (by simp)] at hb
        simp only [hl, hlb, if_true, Option.some.injEq] at ha hb ⊢; exact ⟨_, rfl, by rw [← ha, ← hb]⟩
      · have hl' : lt x a0.end = false := by simpa using hl
        simp only [hl', Bool.false_eq_true, if_false] at ha ⊢
        exact ih (fun s hs => hf s (by simp [hs])) hg r hm a b ha hb
  case case10 a0 f0 fs b0 g0 gs hc ih =>
    -- b.end < a.end : emit b.end, advance g
    intro res h a b ha hb
    have ha0 : isNaN a0.end = false := hf a0 (by simp)
    have hb0 : isNaN b0.end = false := hg b0 (by simp)
    cases hm : merge op (a0 :: f0 :: fs) (g0 :: gs) with
    | none => rw [hm] at h; simp at h
    | some r =>
      rw [hm] at h; simp only [Option.map_some, Option.some.injEq] at h; subst h
      have hr := merge_ne_nil op _ _ r hm
      have hk : key b0.end < key a0.end := pcmp_gt _ _ ha0 hb0 hc
      rw [selSeg_cons_ne _ _ _ (by simp)] at hb
      rw [selSeg_cons_ne _ _ _ hr]
      by_cases hl : lt x b0.end = true
      · have hla : lt x a0.end = true := by
          rw [lt_key x _ hx hb0] at hl; rw [lt_key x _ hx ha0]; simp at hl ⊢; omega
        rw [selSeg_cons_ne _ _ _ (by simp)] at ha
        simp only [hl, hla, if_true, Option.some.injEq] at ha hb ⊢; exact ⟨_, rfl, by rw [← ha, ← hb]⟩
      · have hl' : lt x b0.end = false := by simpa using hl
        simp only [hl', Bool.false_eq_true, if_false] at hb ⊢
        exact ih hf (fun s hs => hg s (by simp [hs])) r hm a b ha hb
  case case11 a0 f0 fs b0 g0 gs hc ih =>
    -- equal ends : emit a.end, advance both
    intro res h a b ha hb
    have ha0 : isNaN a0.end = false := hf a0 (by simp)
    have hb0 : isNaN b0.end = false := hg b0 (by simp)
    cases hm : merge op (f0 :: fs) (g0 :: gs) with
    | none => rw [hm] at h; simp at h
    | some r =>
      rw [hm] at h; simp only [Option.map_some, Option.some.injEq] at h; subst h
      have hr := merge_ne_nil op _ _ r hm
      have hk : key a0.end = key b0.end := pcmp_eq _ _ ha0 hb0 hc
      have hlab : lt x b0.end = lt x a0.end := by
        rw [lt_key x _ hx ha0, lt_key x _ hx hb0, hk]
      rw [selSeg_cons_ne _ _ _ (by simp)] at ha hb
      rw [selSeg_cons_ne _ _ _ hr]
      rw [hlab] at hb
      by_cases hl : lt x a0.end = true
      · simp only [hl, if_true, Option.some.injEq] at ha hb ⊢; exact ⟨_, rfl, by rw [← ha, ← hb]⟩
      · have hl' : lt x a0.end = false := by simpa using hl
        simp only [hl', Bool.false_eq_true, if_false] at ha hb ⊢
        exact ih (fun s hs => hf s (by simp [hs])) (fun s hs => hg s (by simp [hs])) r hm a b ha hb


/-- **No panic on well-formed operands** (non-empty, no NaN breakpoint). -/
theorem merge_isSome (op : T → T → P) (f g : List (Segment F T)) (hf : NN f) (hg : NN g)
    (hfe : f ≠ []) (hge : g ≠ []) : (merge op f g).isSome = true := by
  fun_induction merge op f g
  case case1 => exact absurd rfl hfe
  case case2 => exact absurd rfl hge
  case case3 a b =>
    rw [pcmp_nn _ _ (hf a (by simp)) (hg b (by simp))]
    by_cases h1 : key a.end < key b.end
    · simp [h1]
    · by_cases h2 : key b.end < key a.end <;> simp [h1, h2]
  case case4 a b g0 gs hc =>
    rw [pcmp_none_iff] at hc
    rcases hc with hc | hc
    · rw [hf a (by simp)] at hc; cases hc
    · rw [hg b (by simp)] at hc; cases hc
  case case5 a b g0 gs o hc ih =>
    have := ih hf (fun s hs => hg s (by simp [hs])) (by simp) (by simp)
    cases hm : merge op [a] (g0 :: gs) <;> simp_all
  case case6 a f0 fs b hc =>
    rw [pcmp_none_iff] at hc
    rcases hc with hc | hc
    · rw [hf a (by simp)] at hc; cases hc
    · rw [hg b (by simp)] at hc; cases hc
  case case7 a f0 fs b o hc ih =>
    have := ih (fun s hs => hf s (by simp [hs])) hg (by simp) (by simp)
    cases hm : merge op (f0 :: fs) [b] <;> simp_all
  case case8 a f0 fs b g0 gs hc =>
    rw [pcmp_none_iff] at hc
    rcases hc with hc | hc
    · rw [hf a (by simp)] at hc; cases hc
    · rw [hg b (by simp)] at hc; cases hc
  case case9 a f0 fs b g0 gs hc ih =>
    have := ih (fun s hs => hf s (by simp [hs])) hg (by simp) (by simp)
    cases hm : merge op (f0 :: fs) (b :: g0 :: gs) <;> simp_all
  case case10 a f0 fs b g0 gs hc ih =>
    have := ih hf (fun s hs => hg s (by simp [hs])) (by simp) (by simp)
    cases hm : merge op (a :: f0 :: fs) (g0 :: gs) <;> simp_all
  case case11 a f0 fs b g0 gs hc ih =>
    have := ih (fun s hs => hf s (by simp [hs])) (fun s hs => hg s (by simp [hs])) (by simp) (by simp)
    cases hm : merge op (f0 :: fs) (g0 :: gs) <;> simp_all

/-- **The documented rejections**: an empty operand panics … -/
theorem merge_empty_left (op : T → T → P) (g : List (Segment F T)) : merge op [] g = none := by
  unfold merge; rfl
theorem merge_empty_right (op : T → T → P) (f : List (Segment F T)) : merge op f [] = none := by
  cases f <;> (unfold merge; rfl)

/-- **At most len f + len g − 1 pieces, never zero.** -/
theorem merge_length (op : T → T → P) (f g : List (Segment F T)) :
    ∀ res, merge op f g = some res → 1 ≤ res.length ∧ res.length + 1 ≤ f.length + g.length := by
  fun_induction merge op f g <;> intro res h
  case case1 => simp at h
  case case2 => simp at h
  case case3 a b =>
    cases hc : pcmp a.end b.end <;> rw [hc] at h <;> simp at h
    subst h; simp
  case case4 => simp at h
  case case5 a b g0 gs o hc ih =>
    cases hm : merge op [a] (g0 :: gs) <;> rw [hm] at h <;> simp at h
    subst h; have := ih _ hm; simp at this ⊢; omega
  case case6 => simp at h
  case case7 a f0 fs b o hc ih =>
    cases hm : merge op (f0 :: fs) [b] <;> rw [hm] at h <;> simp at h
    subst h; have := ih _ hm; simp at this ⊢; omega
  case case8 => simp at h
  case case9 a f0 fs b g0 gs hc ih =>
    cases hm : merge op (f0 :: fs) (b :: g0 :: gs) <;> rw [hm] at h <;> simp at h
    subst h; have := ih _ hm; simp at this ⊢; omega
  case case10 a f0 fs b g0 gs hc ih =>
    cases hm : merge op (a :: f0 :: fs) (g0 :: gs) <;> rw [hm] at h <;> simp at h
    subst h; have := ih _ hm; simp at this ⊢; omega
  case case11 a f0 fs b g0 gs hc ih =>
    cases hm : merge op (f0 :: fs) (g0 :: gs) <;> rw [hm] at h <;> simp at h
    subst h; have := ih _ hm; simp at this ⊢; omega

/-- **Every breakpoint of the result is a breakpoint of f or of g** (verbatim, not merely equal in order). -/
theorem merge_ends (op : T → T → P) (f g : List (Segment F T)) :
    ∀ res, merge op f g = some res → ∀ r ∈ res, (∃ a ∈ f, r.end = a.end) ∨ (∃ b ∈ g, r.end = b.end) := by
  fun_induction merge op f g <;> intro res h
  case case1 => simp at h
  case case2 => simp at h
  case case3 a b =>
    cases hc : pcmp a.end b.end <;> rw [hc] at h <;> simp at h
    subst h; intro r hr; simp at hr; subst hr
    rename_i o; cases o <;> simp
  case case4 => simp at h
  case case5 a b g0 gs o hc ih =>
    cases hm : merge op [a] (g0 :: gs) <;> rw [hm] at h <;> simp at h
    subst h; intro r hr
    rcases List.mem_cons.mp hr with rfl | hr
    · cases o <;> simp
    · rcases ih _ hm r hr with ⟨x, hx, e⟩ | ⟨x, hx, e⟩
      · exact Or.inl ⟨x, hx, e⟩
      · exact Or.inr ⟨x, List.mem_cons_of_mem _ hx, e⟩
  case case6 => simp at h
  case case7 a f0 fs b o hc ih =>
    cases hm : merge op (f0 :: fs) [b] <;> rw [hm] at h <;> simp at h
    subst h; intro r hr
    rcases List.mem_cons.mp hr with rfl | hr
    · simp
    · rcases ih _ hm r hr with ⟨x, hx, e⟩ | ⟨x, hx, e⟩
      · exact Or.inl ⟨x, List.mem_cons_of_mem _ hx, e⟩
      · exact Or.inr ⟨x, hx, e⟩
  case case8 => simp at h
  case case9 a f0 fs b g0 gs hc ih =>
    cases hm : merge op (f0 :: fs) (b :: g0 :: gs) <;> rw [hm] at h <;> simp at h
    subst h; intro r hr
    rcases List.mem_cons.mp hr with rfl | hr
    · simp
    · rcases ih _ hm r hr with ⟨x, hx, e⟩ | ⟨x, hx, e⟩
      · exact Or.inl ⟨x, List.mem_cons_of_mem _ hx, e⟩
      · exact Or.inr ⟨x, hx, e⟩
  case case10 a f0 fs b g0 gs hc ih =>
    cases hm : merge op (a :: f0 :: fs) (g0 :: gs) <;> rw [hm] at h <;> simp at h
    subst h; intro r hr
    rcases List.mem_cons.mp hr with rfl | hr
    · simp
    · rcases ih _ hm r hr with ⟨x, hx, e⟩ | ⟨x, hx, e⟩
      · exact Or.inl ⟨x, hx, e⟩
      · exact Or.inr ⟨x, List.mem_cons_of_mem _ hx, e⟩
  case case11 a f0 fs b g0 gs hc ih =>
    cases hm : merge op (f0 :: fs) (g0 :: gs) <;> rw [hm] at h <;> simp at h
    subst h; intro r hr
    rcases List.mem_cons.mp hr with rfl | hr
    · simp
    · rcases ih _ hm r hr with ⟨x, hx, e⟩ | ⟨x, hx, e⟩
      · exact Or.inl ⟨x, List.mem_cons_of_mem _ hx, e⟩
      · exact Or.inr ⟨x, List.mem_cons_of_mem _ hx, e⟩


/-- lower bound on every breakpoint the merge can still emit: the smaller head end — or the OTHER
operand's head end once one operand is down to its last piece (both last: the larger one) -/
def LB : List (Segment F T) → List (Segment F T) → Int
  | [a], [b] => max (key a.end) (key b.end)
  | [_], b :: _ :: _ => key b.end
  | a :: _ :: _, [_] => key a.end
  | a :: _ :: _, b :: _ :: _ => min (key a.end) (key b.end)
  | _, _ => 0

theorem LB_ge_min (a b : Segment F T) (fs gs : List (Segment F T)) :
    min (key a.end) (key b.end) ≤ LB (a :: fs) (b :: gs) := by
  cases fs <;> cases gs <;> simp only [LB] <;> omega

theorem LB_single_left (a b : Segment F T) (gs : List (Segment F T)) : key b.end ≤ LB [a] (b :: gs) := by
  cases gs <;> simp only [LB] <;> omega

theorem LB_single_right (a b : Segment F T) (fs : List (Segment F T)) : key a.end ≤ LB (a :: fs) [b] := by
  cases fs <;> simp only [LB] <;> omega

theorem sorted_head_le (a b : Segment F T) (l : List (Segment F T)) (h : Sorted (a :: b :: l)) :
    key a.end ≤ key b.end := (List.pairwise_cons.mp h).1 b (by simp)
theorem sorted_tail (a : Segment F T) (l : List (Segment F T)) (h : Sorted (a :: l)) : Sorted l :=
  (List.pairwise_cons.mp h).2

/-- **The result's breakpoints are non-decreasing** when the operands' are. -/
theorem merge_sorted (op : T → T → P) (f g : List (Segment F T)) (hf : NN f) (hg : NN g)
    (sf : Sorted f) (sg : Sorted g) :
    ∀ res, merge op f g = some res →
      res.Pairwise (fun a b => key a.end ≤ key b.end) ∧ ∀ r ∈ res, LB f g ≤ key r.end := by
  fun_induction merge op f g <;> intro res h
  case case1 => simp at h
  case case2 => simp at h
  case case3 a b =>
    have ha := hf a (by simp); have hb := hg b (by simp)
    cases hc : pcmp a.end b.end with
    | none => rw [hc] at h; simp at h
    | some o =>
      rw [hc] at h; simp at h; subst h
      refine ⟨by simp, ?_⟩
      intro r hr; simp at hr; subst hr
      cases o
      · have := pcmp_lt _ _ ha hb hc; simp only [LB]; omega
      · have := pcmp_eq _ _ ha hb hc; simp only [LB]; omega
      · have := pcmp_gt _ _ ha hb hc; simp only [LB]; omega
  case case4 => simp at h
  case case5 a b g0 gs o hc ih =>
    have ha := hf a (by simp); have hb := hg b (by simp)
    cases hm : merge op [a] (g0 :: gs) with
    | none => rw [hm] at h; simp at h
    | some r =>
      rw [hm] at h; simp only [Option.map_some, Option.some.injEq] at h; subst h
      obtain ⟨i1, i2⟩ := ih hf (fun s hs => hg s (by simp [hs])) sf (sorted_tail _ _ sg) r hm
      have hbg : key b.end ≤ key g0.end := sorted_head_le _ _ _ sg
      have hkey : o = .eq → key a.end = key b.end := fun ho => pcmp_eq _ _ ha hb (ho ▸ hc)
      clear hc
      have hlb : ∀ r' ∈ r, key b.end ≤ key r'.end := fun r' hr' =>
        Int.le_trans (Int.le_trans hbg (LB_single_left a g0 gs)) (i2 r' hr')
      have fin : ∀ e : F, key e = key b.end →
          ((⟨e, op a.poly b.poly⟩ : Segment F P) :: r).Pairwise (fun a b => key a.end ≤ key b.end) ∧
          ∀ r' ∈ (⟨e, op a.poly b.poly⟩ : Segment F P) :: r, key b.end ≤ key r'.end := by
        intro e he
        refine ⟨List.pairwise_cons.mpr ⟨fun r' hr' => by simp only [he]; exact hlb r' hr', i1⟩, ?_⟩
        intro r' hr'
        rcases List.mem_cons.mp hr' with rfl | hr'
        · simp only [he]; exact Int.le_refl _
        · exact hlb r' hr'
      simp only [LB]
      cases o
      · exact fin _ rfl
      · exact fin _ (hkey rfl)
      · exact fin _ rfl
  case case6 => simp at h
  case case7 a f0 fs b o hc ih =>
    cases hm : merge op (f0 :: fs) [b] with
    | none => rw [hm] at h; simp at h
    | some r =>
      rw [hm] at h; simp only [Option.map_some, Option.some.injEq] at h; subst h
      obtain ⟨i1, i2⟩ := ih (fun s hs => hf s (by simp [hs])) hg (sorted_tail _ _ sf) sg r hm
      have haf : key a.end ≤ key f0.end := sorted_head_le _ _ _ sf
      have hlb : ∀ r' ∈ r, key a.end ≤ key r'.end := fun r' hr' =>
        Int.le_trans (Int.le_trans haf (LB_single_right f0 b fs)) (i2 r' hr')
      refine ⟨List.pairwise_cons.mpr ⟨hlb, i1⟩, ?_⟩
      intro r' hr'
      simp only [LB]
      rcases List.mem_cons.mp hr' with rfl | hr'
      · exact Int.le_refl _
      · exact hlb r' hr'
  case case8 => simp at h
  case case9 a f0 fs b g0 gs hc ih =>
    have ha := hf a (by simp); have hb := hg b (by simp)
    have hk := pcmp_lt _ _ ha hb hc
    cases hm : merge op (f0 :: fs) (b :: g0 :: gs) with
    | none => rw [hm] at h; simp at h
    | some r =>
      rw [hm] at h; simp only [Option.map_some, Option.some.injEq] at h; subst h
      obtain ⟨i1, i2⟩ := ih (fun s hs => hf s (by simp [hs])) hg (sorted_tail _ _ sf) sg r hm
      have haf : key a.end ≤ key f0.end := sorted_head_le _ _ _ sf
      have hlb : ∀ r' ∈ r, key a.end ≤ key r'.end := fun r' hr' => by
        have h1 := LB_ge_min f0 b fs (g0 :: gs)
        have h2 := i2 r' hr'
        omega
      refine ⟨List.pairwise_cons.mpr ⟨hlb, i1⟩, ?_⟩
      intro r' hr'
      simp only [LB]
      rcases List.mem_cons.mp hr' with rfl | hr'
      · simp only; omega
      · have := hlb r' hr'; omega
  case case10 a f0 fs b g0 gs hc ih =>
    have ha := hf a (by simp); have hb := hg b (by simp)
    have hk := pcmp_gt _ _ ha hb hc
    cases hm : merge op (a :: f0 :: fs) (g0 :: gs) with
    | none => rw [hm] at h; simp at h
    | some r =>
      rw [hm] at h; simp only [Option.map_some, Option.some.injEq] at h; subst h
      obtain ⟨i1, i2⟩ := ih hf (fun s hs => hg s (by simp [hs])) sf (sorted_tail _ _ sg) r hm
      have hbg : key b.end ≤ key g0.end := sorted_head_le _ _ _ sg
      have hlb : ∀ r' ∈ r, key b.end ≤ key r'.end := fun r' hr' => by
        have h1 := LB_ge_min a g0 (f0 :: fs) gs
        have h2 := i2 r' hr'
        omega
      refine ⟨List.pairwise_cons.mpr ⟨hlb, i1⟩, ?_⟩
      intro r' hr'
      simp only [LB]
      rcases List.mem_cons.mp hr' with rfl | hr'
      · simp only; omega
      · have := hlb r' hr'; omega
  case case11 a f0 fs b g0 gs hc ih =>
    have ha := hf a (by simp); have hb := hg b (by simp)
    have hk := pcmp_eq _ _ ha hb hc
    cases hm : merge op (f0 :: fs) (g0 :: gs) with
    | none => rw [hm] at h; simp at h
    | some r =>
      rw [hm] at h; simp only [Option.map_some, Option.some.injEq] at h; subst h
      obtain ⟨i1, i2⟩ := ih (fun s hs => hf s (by simp [hs])) (fun s hs => hg s (by simp [hs]))
        (sorted_tail _ _ sf) (sorted_tail _ _ sg) r hm
      have haf : key a.end ≤ key f0.end := sorted_head_le _ _ _ sf
      have hbg : key b.end ≤ key g0.end := sorted_head_le _ _ _ sg
      have hlb : ∀ r' ∈ r, key a.end ≤ key r'.end := fun r' hr' => by
        have h1 := LB_ge_min f0 g0 fs gs
        have h2 := i2 r' hr'
        omega
      refine ⟨List.pairwise_cons.mpr ⟨hlb, i1⟩, ?_⟩
      intro r' hr'
      simp only [LB]
      rcases List.mem_cons.mp hr' with rfl | hr'
      · simp only; omega
      · have := hlb r' hr'; omega

/-- **C13, packaged.** For well-formed f and g: `&f + &g` (resp. `-`) does not panic; the result is
well-formed (non-empty, no NaN breakpoint, non-decreasing breakpoints drawn from those of f and g, at most
len f + len g − 1 pieces) and at every non-NaN x its selected piece is the sum (difference) of the pieces
of f and of g that direct evaluation selects at x. -/
theorem merge_wf (op : T → T → P) (f g : List (Segment F T)) (hf : WF f) (hg : WF g) :
    ∃ res, merge op f g = some res ∧ WF res ∧ res.length + 1 ≤ f.length + g.length ∧
      (∀ r ∈ res, (∃ a ∈ f, r.end = a.end) ∨ (∃ b ∈ g, r.end = b.end)) ∧
      ∀ x, isNaN x = false → ∀ a b, selSeg f x = some a → selSeg g x = some b →
        ∃ r, selSeg res x = some r ∧ r.poly = op a.poly b.poly := by
  have hs := merge_isSome op f g hf.nn hg.nn hf.ne hg.ne
  cases hm : merge op f g with
  | none => rw [hm] at hs; cases hs
  | some res =>
    have hends := merge_ends op f g res hm
    refine ⟨res, rfl, ⟨merge_ne_nil op f g res hm, ?_, (merge_sorted op f g hf.nn hg.nn hf.sorted hg.sorted res hm).1⟩,
      (merge_length op f g res hm).2, hends, fun x hx => merge_pointwise op f g x hx hf.nn hg.nn res hm⟩
    intro r hr
    rcases hends r hr with ⟨a, ha, e⟩ | ⟨b, hb, e⟩
    · rw [e]; exact hf.nn a ha
    · rw [e]; exact hg.nn b hb

/-- value form: the sum function evaluated at x is `op` of the two selected pieces, evaluated at x -/
theorem pwAdd_eval [PAdd T T T] [Evaluate T F] (f g : Piecewise F T) (hf : WF f.segments) (hg : WF g.segments)
    (x : F) (hx : isNaN x = false) :
    ∃ h a b, pwAdd f g = some h ∧ selSeg f.segments x = some a ∧ selSeg g.segments x = some b ∧
      pwEvaluate h x = some (Evaluate.evaluate (PAdd.add a.poly b.poly : T) x) := by
  obtain ⟨res, hm, _, _, _, hp⟩ := merge_wf (fun a b => (PAdd.add a b : T)) f.segments g.segments hf hg
  have ha := C02.pwEvaluate_isSome (T := T) f x hf.ne
  have hb := C02.pwEvaluate_isSome (T := T) g x hg.ne
  cases hsa : selSeg f.segments x with
  | none => simp [pwEvaluate, hsa] at ha
  | some a =>
    cases hsb : selSeg g.segments x with
    | none => simp [pwEvaluate, hsb] at hb
    | some b =>
      obtain ⟨r, hr, hpoly⟩ := hp x hx a b hsa hsb
      refine ⟨⟨res⟩, a, b, by simp [pwAdd, hm], rfl, rfl, ?_⟩
      simp only [pwEvaluate, hr, Option.map_some]
      show some (Evaluate.evaluate r.poly x) = _
      rw [hpoly]

theorem pwSub_eval [PSub T T T] [Evaluate T F] (f g : Piecewise F T) (hf : WF f.segments) (hg : WF g.segments)
    (x : F) (hx : isNaN x = false) :
    ∃ h a b, pwSub f g = some h ∧ selSeg f.segments x = some a ∧ selSeg g.segments x = some b ∧
      pwEvaluate h x = some (Evaluate.evaluate (PSub.sub a.poly b.poly : T) x) := by
  obtain ⟨res, hm, _, _, _, hp⟩ := merge_wf (fun a b => (PSub.sub a b : T)) f.segments g.segments hf hg
  have ha := C02.pwEvaluate_isSome (T := T) f x hf.ne
  have hb := C02.pwEvaluate_isSome (T := T) g x hg.ne
  cases hsa : selSeg f.segments x with
  | none => simp [pwEvaluate, hsa] at ha
  | some a =>
    cases hsb : selSeg g.segments x with
    | none => simp [pwEvaluate, hsb] at hb
    | some b =>
      obtain ⟨r, hr, hpoly⟩ := hp x hx a b hsa hsb
      refine ⟨⟨res⟩, a, b, by simp [pwSub, hm], rfl, rfl, ?_⟩
      simp only [pwEvaluate, hr, Option.map_some]
      show some (Evaluate.evaluate r.poly x) = _
      rw [hpoly]

end PP.Props.C13
