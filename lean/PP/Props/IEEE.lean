import PP.Sem.Pair64
import PP.Props.C01Bound
/-!
# IEEE — the soft-float `F64` satisfies the standard model of floating-point arithmetic

`F64` (`PP/Core/F64.lean`) is the executable, bit-exact binary64 (round-to-nearest-even) on which the model is
run for the correspondence campaigns.  This file states what is *proved* about it (DESIGN §3.6); the proofs are
in `PP/Lemmas/Round.lean` (rounding core), `PP/Lemmas/F64Ops.lean` (operations) and `PP/Sem/Pair64.lean`
(transfer to whole programs).  Notation: `F64.val : F64 → ℚ` (0 on NaN/±∞), `F64.Finite`, `F64.Canon`
(canonical form: `-1074 ≤ e ≤ 971`, `m < 2^53`, `2^52 ≤ m ∨ e = -1074`), `F64.Normal` (finite, canonical,
`2^52 ≤ m`, i.e. `|val| ≥ 2^-1022`), `F64.rnd64 : ℚ → ℚ` (round-to-nearest-even to 53 significant bits,
unbounded exponent range), `F64.InRange r` (`r = 0 ∨ 2^-1022 ≤ |r| < 2^1024·(1−2⁻⁵⁴)`).

1. **Rounding core.** `roundPos_standard_model`, `roundPos_canonical_or_carry`, `roundRatio_standard_model`,
   `roundRatio_representable`.
2. **Per-operation standard model** (finite operands; canonicity of the operands is not even needed):
   `add_standard_model`, `sub_…`, `mul_…`, `div_…`, `fma_…`, `ofDec_…`: for the exact result `r`,
   (closure) the result is canonical; (zero) `r = 0` gives a signed zero; (normal range) if
   `2^-1022 ≤ |r| < 2^1024·(1−2⁻⁵⁴)` the result is a normal number equal to `rnd64 r` and
   `|val − r| ≤ 2⁻⁵³·|r|`; (finite form) the same if `2^-1022 ≤ |r|` and the computed result is finite.
   `closure_*`: every operation returns a canonical value for ALL operands.
   `M64_standard_model`: `rnd64` is an `RModel ℚ` with `u = 2⁻⁵³`.
3. **Exactness.** `mul_neg_one`, `neg_one_mul` (negation is a sign flip, C14), `ofDec_int_exact`,
   `mul_two_exact`, `div_two_exact`, `abs_sub_comm` (C17), `sub_self`, `abs_diff_eq_refl`, `feq_refl`.
   **Order.** `lt_iff_val`, `le_iff_val`, `feq_iff_val`, `max_val`.
4. **Transfer.** `poly⟨n⟩_f64_bound`, n = 0..8: for inputs whose paired run is `ok` (all inputs finite and
   canonical, every intermediate exact result `InRange`), the *bit-exact* evaluation of the generated scheme
   is finite, canonical and within `4(n+2)·2⁻⁵³·Σ|cᵢ||x|ⁱ` of `Σcᵢxⁱ`.  `poly3_f64_bound_explicit` spells the
   side condition out for the cubic.
-/
namespace PP.Props.IEEE
open F64 (val Finite Canon Normal rnd64 InRange one two)

/-! ## 1. the rounding core -/

/-- on the normal range the rounding core has relative error at most `2⁻⁵³` -/
theorem roundPos_standard_model (num den : Nat) (hn : 0 < num) (hd : 0 < den)
    (hnorm : (2:ℚ) ^ (-1022 : ℤ) ≤ (num:ℚ) / den) :
    |((F64.roundPos num den).1 : ℚ) * (2:ℚ) ^ (F64.roundPos num den).2 - (num:ℚ) / den|
      ≤ (2:ℚ) ^ (-53 : ℤ) * ((num:ℚ) / den) :=
  F64.roundPos_rel num den hn hd (F64.flr_of_normal num den hn hd hnorm)

/-- the output of the rounding core is canonical or the carry `2^53`; on the normal range it has 53 bits -/
theorem roundPos_canonical_or_carry (num den : Nat) (hn : 0 < num) (hd : 0 < den) :
    (F64.roundPos num den).1 ≤ 2 ^ 53 ∧ -1074 ≤ (F64.roundPos num den).2 ∧
    (2 ^ 52 ≤ (F64.roundPos num den).1 ∨ (F64.roundPos num den).2 = -1074) ∧
    ((2:ℚ) ^ (-1022 : ℤ) ≤ (num:ℚ) / den → 2 ^ 52 ≤ (F64.roundPos num den).1) :=
  let ⟨a, b, c⟩ := F64.roundPos_bounds num den hn hd
  ⟨a, b, c, fun h => F64.roundPos_normal num den hn hd (F64.flr_of_normal num den hn hd h)⟩

/-- `roundRatio` on the normal range, result not overflowing: a canonical finite number of the given sign
with relative error at most `2⁻⁵³` (the carry is handled by `pack`) -/
theorem roundRatio_standard_model (neg : Bool) (num den : Nat) (hd : 0 < den)
    (hlo : (2:ℚ) ^ (-1022 : ℤ) ≤ (num:ℚ) / den) (hf : (F64.roundRatio neg num den).Finite) :
    ∃ q e, F64.roundRatio neg num den = F64.fin neg q e ∧ (F64.fin neg q e).Canon ∧ 2 ^ 52 ≤ q ∧
      |(F64.fin neg q e).val - F64.sgn neg * ((num:ℚ) / den)| ≤ (2:ℚ) ^ (-53 : ℤ) * ((num:ℚ) / den) :=
  F64.roundRatio_normal neg num den hd hlo hf

example : (F64.roundRatio false 3 2).Finite ∧ (2:ℚ) ^ (-1022 : ℤ) ≤ ((3:ℕ):ℚ) / (2:ℕ) := by
  have hr := (F64.inRange_of_one_le (r := F64.sgn false * (((3:ℕ):ℚ) / (2:ℕ)))
    (by rw [F64.sgn_false]; norm_num) (by rw [F64.sgn_false]; norm_num)).resolve_left
    (by rw [F64.sgn_false]; norm_num)
  have h := (F64.roundRatio_std false 3 2 (by norm_num)).normal hr.1 hr.2
  refine ⟨h.1.finite, ?_⟩
  have := hr.1
  rw [F64.sgn_false, one_mul, abs_of_pos (by norm_num)] at this
  exact this

/-- representable values round to themselves (also subnormals and zeros) -/
theorem roundRatio_representable (s : Bool) (m : Nat) (e : Int) (h : (F64.fin s m e).Canon) (num den : Nat)
    (hd : 0 < den) (hv : (num:ℚ) / den = (m:ℚ) * (2:ℚ) ^ e) : F64.roundRatio s num den = F64.fin s m e :=
  F64.roundRatio_repr s m e h num den hd hv

/-! ## 2. the per-operation standard model -/

/-- the four clauses of the standard model for a computed result `x` whose exact result is `r` -/
def Clauses (r : ℚ) (x : F64) : Prop :=
  x.Canon ∧
  (r = 0 → ∃ s, x = F64.zero s) ∧
  ((2:ℚ) ^ (-1022 : ℤ) ≤ |r| → |r| < (2:ℚ) ^ (1024 : ℤ) * (1 - (2:ℚ) ^ (-54 : ℤ)) →
      x.Normal ∧ x.val = rnd64 r ∧ |x.val - r| ≤ (2:ℚ) ^ (-53 : ℤ) * |r|) ∧
  ((2:ℚ) ^ (-1022 : ℤ) ≤ |r| → x.Finite →
      x.Normal ∧ x.val = rnd64 r ∧ |x.val - r| ≤ (2:ℚ) ^ (-53 : ℤ) * |r|)

theorem add_standard_model (a b : F64) (ha : a.Finite) (hb : b.Finite) :
    Clauses (a.val + b.val) (F64.add a b) := (F64.add_std ha hb).clauses

theorem sub_standard_model (a b : F64) (ha : a.Finite) (hb : b.Finite) :
    Clauses (a.val - b.val) (F64.sub a b) := (F64.sub_std ha hb).clauses

theorem mul_standard_model (a b : F64) (ha : a.Finite) (hb : b.Finite) :
    Clauses (a.val * b.val) (F64.mul a b) := (F64.mul_std ha hb).clauses

theorem div_standard_model (a b : F64) (ha : a.Finite) (hb : b.Finite) (hb0 : b.val ≠ 0) :
    Clauses (a.val / b.val) (F64.div a b) := (F64.div_std ha hb hb0).clauses

/-- `fma`: ONE rounding of `a·b + c` -/
theorem fma_standard_model (a b c : F64) (ha : a.Finite) (hb : b.Finite) (hc : c.Finite) :
    Clauses (a.val * b.val + c.val) (F64.fma a b c) := (F64.fma_std ha hb hc).clauses

/-- decimal literals are correctly rounded -/
theorem ofDec_standard_model (m e : Int) : Clauses ((m:ℚ) * (10:ℚ) ^ e) (F64.ofDec m e) :=
  (F64.ofDec_std m e).clauses

/-- the hypotheses are satisfiable non-trivially: `1 + 2` -/
example : one.Finite ∧ two.Finite ∧ (2:ℚ) ^ (-1022 : ℤ) ≤ |one.val + two.val| ∧
    |one.val + two.val| < (2:ℚ) ^ (1024 : ℤ) * (1 - (2:ℚ) ^ (-54 : ℤ)) := by
  rw [F64.val_one, F64.val_two, F64.one_eq, F64.two_eq]
  have h := (F64.inRange_of_one_le (r := 1 + 2) (by norm_num) (by norm_num)).resolve_left (by norm_num)
  exact ⟨trivial, trivial, h.1, h.2⟩

/-- a computed result that is finite on the normal range obeys `|val − r| ≤ 2⁻⁵³·|r|` : the form quoted in
DESIGN §3.6, for addition -/
theorem add_rel (a b : F64) (ha : a.Finite) (hb : b.Finite)
    (hlo : (2:ℚ) ^ (-1022 : ℤ) ≤ |a.val + b.val|) (hf : (F64.add a b).Finite) :
    |(F64.add a b).val - (a.val + b.val)| ≤ (2:ℚ) ^ (-53 : ℤ) * |a.val + b.val| :=
  (F64.add_std ha hb).rel hlo hf

/-- closure, for ALL operands (NaN, infinities, non-canonical inputs included) -/
theorem closure_add (a b : F64) : (F64.add a b).Canon := F64.add_canon a b
theorem closure_sub (a b : F64) : (F64.sub a b).Canon := F64.sub_canon a b
theorem closure_mul (a b : F64) : (F64.mul a b).Canon := F64.mul_canon a b
theorem closure_div (a b : F64) : (F64.div a b).Canon := F64.div_canon a b
theorem closure_fma (a b c : F64) : (F64.fma a b c).Canon := F64.fma_canon a b c
theorem closure_ofDec (m e : Int) : (F64.ofDec m e).Canon := F64.ofDec_canon m e
theorem closure_neg (a : F64) (h : a.Canon) : (F64.neg a).Canon := F64.canon_neg h
theorem closure_abs (a : F64) (h : a.Canon) : (F64.abs a).Canon := F64.canon_abs h
theorem closure_max (a b : F64) (ha : a.Canon) (hb : b.Canon) : (F64.max a b).Canon := F64.max_canon ha hb

/-- the idealised binary64 rounding is a rounding model with `u = 2⁻⁵³`: the `RModel` hypotheses of the
R/T/C theorems are inhabited by IEEE arithmetic itself -/
theorem M64_standard_model :
    M64.rnd = rnd64 ∧ M64.u = (2:ℚ) ^ (-53 : ℤ) ∧ (∀ t, |rnd64 t - t| ≤ (2:ℚ) ^ (-53 : ℤ) * |t|) ∧
      (∀ t, rnd64 (-t) = -rnd64 t) ∧ rnd64 0 = 0 :=
  ⟨rfl, rfl, F64.rnd64_rel, F64.rnd64_neg, F64.rnd64_zero⟩

/-- below the overflow threshold the idealised rounding stays below `2^1024` -/
theorem rnd64_no_overflow (t : ℚ) (h : |t| < (2:ℚ) ^ (1024 : ℤ) * (1 - (2:ℚ) ^ (-54 : ℤ))) :
    |rnd64 t| < (2:ℚ) ^ (1024 : ℤ) := F64.abs_rnd64_lt t h

/-! ## 3. exactness -/

/-- negation is a sign flip (C14): `a * (-1.0) = -a` bit for bit -/
theorem mul_neg_one (a : F64) (ha : a.Finite) (hc : a.Canon) : F64.mul a (F64.neg one) = F64.neg a :=
  F64.mul_neg_one ha hc

theorem neg_one_mul (a : F64) (ha : a.Finite) (hc : a.Canon) : F64.mul (F64.neg one) a = F64.neg a :=
  F64.neg_one_mul ha hc

example : one.Finite ∧ one.Canon := by
  rw [F64.one_eq]; exact ⟨trivial, by norm_num, by norm_num, Or.inl (le_refl _), by norm_num⟩

/-- integer literals of magnitude at most `2^53` are exact -/
theorem ofDec_int_exact (n : Int) (hn : n.natAbs ≤ 2 ^ 53) :
    (F64.ofDec n 0).Finite ∧ (F64.ofDec n 0).Canon ∧ (F64.ofDec n 0).val = n := F64.val_ofDec_int n hn

/-- multiplication by `2.0` is exact absent overflow (subnormals included) -/
theorem mul_two_exact (a : F64) (ha : a.Finite) (hc : a.Canon) (hov : |2 * a.val| < (2:ℚ) ^ (1024 : ℤ)) :
    (F64.mul a two).Finite ∧ (F64.mul a two).Canon ∧ (F64.mul a two).val = 2 * a.val :=
  F64.mul_two_exact ha hc hov

/-- division by `2.0` is exact absent underflow (the quotient is at least `2^-1022` in magnitude) -/
theorem div_two_exact (a : F64) (ha : a.Finite) (hc : a.Canon) (hlo : (2:ℚ) ^ (-1021 : ℤ) ≤ |a.val|) :
    (F64.div a two).Finite ∧ (F64.div a two).Canon ∧ (F64.div a two).val = a.val / 2 :=
  F64.div_two_exact ha hc hlo

example : (one.Finite ∧ one.Canon) ∧ |2 * one.val| < (2:ℚ) ^ (1024 : ℤ) ∧ (2:ℚ) ^ (-1021 : ℤ) ≤ |one.val| := by
  rw [F64.val_one]
  refine ⟨by rw [F64.one_eq]; exact ⟨trivial, by norm_num, by norm_num, Or.inl (le_refl _), by norm_num⟩, ?_, ?_⟩
  · have : (2:ℚ) ^ (2 : ℤ) < (2:ℚ) ^ (1024 : ℤ) := zpow_lt_zpow_right₀ (by norm_num) (by norm_num)
    refine lt_trans ?_ this; norm_num
  · exact le_trans (zpow_le_one_of_nonpos₀ (by norm_num) (by norm_num)) (by norm_num)

/-- a representable exact result is returned exactly, whatever the operation: addition as the example
(`sub_exact`, `mul_exact`, `div_exact`, `fma_exact` alike in `PP/Lemmas/F64Ops.lean`) -/
theorem add_exact (a b : F64) (ha : a.Finite) (hb : b.Finite) (h : F64.Representable (a.val + b.val)) :
    (F64.add a b).Finite ∧ (F64.add a b).Canon ∧ (F64.add a b).val = a.val + b.val := F64.add_exact ha hb h

/-- `|a − b| = |b − a|` bit for bit, for all operands: `abs_diff_eq` is symmetric (C17) -/
theorem abs_sub_comm (a b : F64) : F64.abs (F64.sub a b) = F64.abs (F64.sub b a) := F64.abs_sub_comm a b

/-- `a − a = +0` for finite `a` -/
theorem sub_self (a : F64) (ha : a.Finite) : F64.sub a a = F64.zero false := F64.sub_self_eq_zero ha

/-- `abs_diff_eq` is reflexive on finite numbers for every non-NaN tolerance `eps ≥ 0` -/
theorem abs_diff_eq_refl (a eps : F64) (ha : a.Finite) (hn : eps.isNaN = false) (hk : 0 ≤ F64.key eps) :
    F64.le (F64.abs (F64.sub a a)) eps = true := F64.le_abs_sub_self ha hn hk

example : one.Finite ∧ F64.epsilon.isNaN = false ∧ 0 ≤ F64.key F64.epsilon := by
  rw [F64.one_eq]; exact ⟨trivial, rfl, by decide⟩

/-- `a == a` for every non-NaN `a`: `relative_eq` is reflexive -/
theorem feq_refl (a : F64) (ha : a.isNaN = false) : F64.feq a a = true := F64.feq_self ha

/-! ## 3b. comparisons and `max` are those of the values (finite canonical operands) -/

theorem lt_iff_val (a b : F64) (fa : a.Finite) (ca : a.Canon) (fb : b.Finite) (cb : b.Canon) :
    F64.lt a b = true ↔ a.val < b.val := F64.lt_iff_val fa ca fb cb

theorem le_iff_val (a b : F64) (fa : a.Finite) (ca : a.Canon) (fb : b.Finite) (cb : b.Canon) :
    F64.le a b = true ↔ a.val ≤ b.val := F64.le_iff_val fa ca fb cb

/-- `+0 == -0` -/
theorem feq_iff_val (a b : F64) (fa : a.Finite) (ca : a.Canon) (fb : b.Finite) (cb : b.Canon) :
    F64.feq a b = true ↔ a.val = b.val := F64.feq_iff_val fa ca fb cb

theorem max_val (a b : F64) (fa : a.Finite) (ca : a.Canon) (fb : b.Finite) (cb : b.Canon) :
    (F64.max a b).Finite ∧ (F64.max a b).Canon ∧ (F64.max a b).val = max a.val b.val :=
  F64.max_spec fa ca fb cb

example : (one.Finite ∧ one.Canon) ∧ (two.Finite ∧ two.Canon) ∧ F64.lt one two = true := by
  have h1 : one.Finite ∧ one.Canon := by
    rw [F64.one_eq]; exact ⟨trivial, by norm_num, by norm_num, Or.inl (le_refl _), by norm_num⟩
  have h2 : two.Finite ∧ two.Canon := by
    rw [F64.two_eq]; exact ⟨trivial, by norm_num, by norm_num, Or.inl (le_refl _), by norm_num⟩
  refine ⟨h1, h2, ?_⟩
  rw [F64.lt_iff_val h1.1 h1.2 h2.1 h2.2, F64.val_one, F64.val_two]; norm_num

/-! ## 4. transfer to whole programs: the generated polynomial evaluators, bit-exact -/
section transfer
variable (ln exp : F64 → F64) [Transc ℚ]

/-! (GENERATED blocks: identical up to the degree.)  `p.f64Run ln exp x` is the generated `evaluate` of
`/repo/src/poly.rs` run on the bit-exact soft-float (what the hardware computes, by the `softfloat` and `eval`
campaigns); `(p.p64Run ln exp x).ok` is the conjunction, over the run, of "the input is finite and canonical"
and "the exact result of this operation is `0` or has magnitude in `[2^-1022, 2^1024·(1−2⁻⁵⁴))`". -/

/-- degree 0: the bit-exact `F64` evaluation is within `4·(0+2)·2⁻⁵³·Σ|cᵢ||x|ⁱ` of `Σcᵢxⁱ` -/
theorem poly0_f64_bound (p : Poly0 F64) (x : F64) (hok : (p.p64Run ln exp x).ok) :
    (p.f64Run ln exp x).Finite ∧ (p.f64Run ln exp x).Canon ∧
    |(p.f64Run ln exp x).val - (p._0.val)|
      ≤ 4 * (0 + 2) * (2 : ℚ) ^ (-53 : ℤ) * (|p._0.val|) := by
  obtain ⟨hf, hc, hv⟩ := poly0_transfer ln exp p x hok
  refine ⟨hf, hc, ?_⟩
  rw [hv]
  exact PP.Props.C01Bound.poly0_rounding_c01 M64 (le_refl _) (p.mapF F64.val) x.val

/-- degree 1: the bit-exact `F64` evaluation is within `4·(1+2)·2⁻⁵³·Σ|cᵢ||x|ⁱ` of `Σcᵢxⁱ` -/
theorem poly1_f64_bound (p : Poly1 F64) (x : F64) (hok : (p.p64Run ln exp x).ok) :
    (p.f64Run ln exp x).Finite ∧ (p.f64Run ln exp x).Canon ∧
    |(p.f64Run ln exp x).val - (p._0.a0.val + p._0.a1.val * x.val)|
      ≤ 4 * (1 + 2) * (2 : ℚ) ^ (-53 : ℤ) * (|p._0.a0.val| + |p._0.a1.val| * |x.val|) := by
  obtain ⟨hf, hc, hv⟩ := poly1_transfer ln exp p x hok
  refine ⟨hf, hc, ?_⟩
  rw [hv]
  exact PP.Props.C01Bound.poly1_rounding_c01 M64 (le_refl _) (p.mapF F64.val) x.val

/-- degree 2: the bit-exact `F64` evaluation is within `4·(2+2)·2⁻⁵³·Σ|cᵢ||x|ⁱ` of `Σcᵢxⁱ` -/
theorem poly2_f64_bound (p : Poly2 F64) (x : F64) (hok : (p.p64Run ln exp x).ok) :
    (p.f64Run ln exp x).Finite ∧ (p.f64Run ln exp x).Canon ∧
    |(p.f64Run ln exp x).val - (p._0.a0.val + p._0.a1.val * x.val + p._0.a2.val * x.val ^ 2)|
      ≤ 4 * (2 + 2) * (2 : ℚ) ^ (-53 : ℤ) * (|p._0.a0.val| + |p._0.a1.val| * |x.val| + |p._0.a2.val| * |x.val| ^ 2) := by
  obtain ⟨hf, hc, hv⟩ := poly2_transfer ln exp p x hok
  refine ⟨hf, hc, ?_⟩
  rw [hv]
  exact PP.Props.C01Bound.poly2_rounding_c01 M64 (le_refl _) (p.mapF F64.val) x.val

/-- degree 3: the bit-exact `F64` evaluation is within `4·(3+2)·2⁻⁵³·Σ|cᵢ||x|ⁱ` of `Σcᵢxⁱ` -/
theorem poly3_f64_bound (p : Poly3 F64) (x : F64) (hok : (p.p64Run ln exp x).ok) :
    (p.f64Run ln exp x).Finite ∧ (p.f64Run ln exp x).Canon ∧
    |(p.f64Run ln exp x).val - (p._0.a0.val + p._0.a1.val * x.val + p._0.a2.val * x.val ^ 2 + p._0.a3.val * x.val ^ 3)|
      ≤ 4 * (3 + 2) * (2 : ℚ) ^ (-53 : ℤ) * (|p._0.a0.val| + |p._0.a1.val| * |x.val| + |p._0.a2.val| * |x.val| ^ 2 + |p._0.a3.val| * |x.val| ^ 3) := by
  obtain ⟨hf, hc, hv⟩ := poly3_transfer ln exp p x hok
  refine ⟨hf, hc, ?_⟩
  rw [hv]
  exact PP.Props.C01Bound.poly3_rounding_c01 M64 (le_refl _) (p.mapF F64.val) x.val

/-- degree 4: the bit-exact `F64` evaluation is within `4·(4+2)·2⁻⁵³·Σ|cᵢ||x|ⁱ` of `Σcᵢxⁱ` -/
theorem poly4_f64_bound (p : Poly4 F64) (x : F64) (hok : (p.p64Run ln exp x).ok) :
    (p.f64Run ln exp x).Finite ∧ (p.f64Run ln exp x).Canon ∧
    |(p.f64Run ln exp x).val - (p._0.a0.val + p._0.a1.val * x.val + p._0.a2.val * x.val ^ 2 + p._0.a3.val * x.val ^ 3 + p._0.a4.val * x.val ^ 4)|
      ≤ 4 * (4 + 2) * (2 : ℚ) ^ (-53 : ℤ) * (|p._0.a0.val| + |p._0.a1.val| * |x.val| + |p._0.a2.val| * |x.val| ^ 2 + |p._0.a3.val| * |x.val| ^ 3 + |p._0.a4.val| * |x.val| ^ 4) := by
  obtain ⟨hf, hc, hv⟩ := poly4_transfer ln exp p x hok
  refine ⟨hf, hc, ?_⟩
  rw [hv]
  exact PP.Props.C01Bound.poly4_rounding_c01 M64 (le_refl _) (p.mapF F64.val) x.val

/-- degree 5: the bit-exact `F64` evaluation is within `4·(5+2)·2⁻⁵³·Σ|cᵢ||x|ⁱ` of `Σcᵢxⁱ` -/
theorem poly5_f64_bound (p : Poly5 F64) (x : F64) (hok : (p.p64Run ln exp x).ok) :
    (p.f64Run ln exp x).Finite ∧ (p.f64Run ln exp x).Canon ∧
    |(p.f64Run ln exp x).val - (p._0.a0.val + p._0.a1.val * x.val + p._0.a2.val * x.val ^ 2 + p._0.a3.val * x.val ^ 3 + p._0.a4.val * x.val ^ 4 + p._0.a5.val * x.val ^ 5)|
      ≤ 4 * (5 + 2) * (2 : ℚ) ^ (-53 : ℤ) * (|p._0.a0.val| + |p._0.a1.val| * |x.val| + |p._0.a2.val| * |x.val| ^ 2 + |p._0.a3.val| * |x.val| ^ 3 + |p._0.a4.val| * |x.val| ^ 4 + |p._0.a5.val| * |x.val| ^ 5) := by
  obtain ⟨hf, hc, hv⟩ := poly5_transfer ln exp p x hok
  refine ⟨hf, hc, ?_⟩
  rw [hv]
  exact PP.Props.C01Bound.poly5_rounding_c01 M64 (le_refl _) (p.mapF F64.val) x.val

/-- degree 6: the bit-exact `F64` evaluation is within `4·(6+2)·2⁻⁵³·Σ|cᵢ||x|ⁱ` of `Σcᵢxⁱ` -/
theorem poly6_f64_bound (p : Poly6 F64) (x : F64) (hok : (p.p64Run ln exp x).ok) :
    (p.f64Run ln exp x).Finite ∧ (p.f64Run ln exp x).Canon ∧
    |(p.f64Run ln exp x).val - (p._0.a0.val + p._0.a1.val * x.val + p._0.a2.val * x.val ^ 2 + p._0.a3.val * x.val ^ 3 + p._0.a4.val * x.val ^ 4 + p._0.a5.val * x.val ^ 5 + p._0.a6.val * x.val ^ 6)|
      ≤ 4 * (6 + 2) * (2 : ℚ) ^ (-53 : ℤ) * (|p._0.a0.val| + |p._0.a1.val| * |x.val| + |p._0.a2.val| * |x.val| ^ 2 + |p._0.a3.val| * |x.val| ^ 3 + |p._0.a4.val| * |x.val| ^ 4 + |p._0.a5.val| * |x.val| ^ 5 + |p._0.a6.val| * |x.val| ^ 6) := by
  obtain ⟨hf, hc, hv⟩ := poly6_transfer ln exp p x hok
  refine ⟨hf, hc, ?_⟩
  rw [hv]
  exact PP.Props.C01Bound.poly6_rounding_c01 M64 (le_refl _) (p.mapF F64.val) x.val

/-- degree 7: the bit-exact `F64` evaluation is within `4·(7+2)·2⁻⁵³·Σ|cᵢ||x|ⁱ` of `Σcᵢxⁱ` -/
theorem poly7_f64_bound (p : Poly7 F64) (x : F64) (hok : (p.p64Run ln exp x).ok) :
    (p.f64Run ln exp x).Finite ∧ (p.f64Run ln exp x).Canon ∧
    |(p.f64Run ln exp x).val - (p._0.a0.val + p._0.a1.val * x.val + p._0.a2.val * x.val ^ 2 + p._0.a3.val * x.val ^ 3 + p._0.a4.val * x.val ^ 4 + p._0.a5.val * x.val ^ 5 + p._0.a6.val * x.val ^ 6 + p._0.a7.val * x.val ^ 7)|
      ≤ 4 * (7 + 2) * (2 : ℚ) ^ (-53 : ℤ) * (|p._0.a0.val| + |p._0.a1.val| * |x.val| + |p._0.a2.val| * |x.val| ^ 2 + |p._0.a3.val| * |x.val| ^ 3 + |p._0.a4.val| * |x.val| ^ 4 + |p._0.a5.val| * |x.val| ^ 5 + |p._0.a6.val| * |x.val| ^ 6 + |p._0.a7.val| * |x.val| ^ 7) := by
  obtain ⟨hf, hc, hv⟩ := poly7_transfer ln exp p x hok
  refine ⟨hf, hc, ?_⟩
  rw [hv]
  exact PP.Props.C01Bound.poly7_rounding_c01 M64 (le_refl _) (p.mapF F64.val) x.val

/-- degree 8: the bit-exact `F64` evaluation is within `4·(8+2)·2⁻⁵³·Σ|cᵢ||x|ⁱ` of `Σcᵢxⁱ` -/
theorem poly8_f64_bound (p : Poly8 F64) (x : F64) (hok : (p.p64Run ln exp x).ok) :
    (p.f64Run ln exp x).Finite ∧ (p.f64Run ln exp x).Canon ∧
    |(p.f64Run ln exp x).val - (p._0.a0.val + p._0.a1.val * x.val + p._0.a2.val * x.val ^ 2 + p._0.a3.val * x.val ^ 3 + p._0.a4.val * x.val ^ 4 + p._0.a5.val * x.val ^ 5 + p._0.a6.val * x.val ^ 6 + p._0.a7.val * x.val ^ 7 + p._0.a8.val * x.val ^ 8)|
      ≤ 4 * (8 + 2) * (2 : ℚ) ^ (-53 : ℤ) * (|p._0.a0.val| + |p._0.a1.val| * |x.val| + |p._0.a2.val| * |x.val| ^ 2 + |p._0.a3.val| * |x.val| ^ 3 + |p._0.a4.val| * |x.val| ^ 4 + |p._0.a5.val| * |x.val| ^ 5 + |p._0.a6.val| * |x.val| ^ 6 + |p._0.a7.val| * |x.val| ^ 7 + |p._0.a8.val| * |x.val| ^ 8) := by
  obtain ⟨hf, hc, hv⟩ := poly8_transfer ln exp p x hok
  refine ⟨hf, hc, ?_⟩
  rw [hv]
  exact PP.Props.C01Bound.poly8_rounding_c01 M64 (le_refl _) (p.mapF F64.val) x.val
end transfer

end PP.Props.IEEE

