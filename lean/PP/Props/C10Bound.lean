import PP.Sem.Count
import PP.Props.C10
import PP.Lemmas.ExpTailFP
import PP.Model.LogPoly.EvaluateAttr
/-!
# C10 — the quartic log-integral form `IntOfLogPoly4`: the FLOATING-POINT part

`PP/Props/C10.lean` proves C10 for the code read in exact arithmetic.  This file proves it for the same
generated code (`LogPoly.taylor.exp_5_tail_taylor`, `exp_5_tail_anal`, `exp_5_taylor`,
`inst_Evaluate_IntOfLogPoly4.evaluate`) **run in rounded arithmetic** `Rounded M`, for every rounding model
`M : RModel ℝ` with `M.u ≤ 2⁻⁵³`.  `R`, `S16 = T16`, `P4` are those of `PP/Lemmas/ExpTail.lean`;
`ideal q v = k + v·Σ c_j X^j + u_q·v·X⁵·R(X)` (`X = −ln v`) is that of `C10.lean`;
`Mag q v = |k| + v·Σ|c_j||X|^j + |u_q|·v·|X|⁵·R(X)` is the sum of the magnitudes of the terms.

## What is ASSUMED (and not proved)
* the **standard model** of floating-point arithmetic: every operation returns `rnd (exact result)` with
  `|rnd t − t| ≤ u·|t|`, `u ≤ 2⁻⁵³` — i.e. **no underflow, no overflow** (in binary64 `eˣ` overflows for
  `x > 709.78`, i.e. `v < 5·10⁻³⁰⁹`; gradual underflow of the tiny high-order series coefficients times powers of a
  tiny `x` is also outside the model, but those terms are then negligible against `1/120`);
* **libm accuracy**: `ln` and `exp` are `rnd (Real.log ·)`, `rnd (Real.exp ·)`, i.e. correct to within the same
  relative `u` (the `FloatLike` instance of `PP/Sem/Rounded.lean`; not generalised to a separate accuracy
  parameter `u_t` — the proofs use the two facts `|x̂ − X| ≤ u|X|` and `|E − e^{x̃}| ≤ u·e^{x̃}` only, so a libm
  with `c` ulp error changes `1·|X|` into `c·|X|` and depth 17 into `16 + c` below);
* decimal literals are `rnd (m·10^e)` and are *not* assumed representable: `1.0/120.0` costs three roundings
  (depth 4), although in binary64 all of `1.0`, `n!` (n ≤ 20) are exact.
Inputs (`k, c₁..c₄, u_q, v`) are exact reals.  Comparisons are exact (on the rounded thresholds).

## Results (all sorry-free; constants explicit)
1. `tail_taylor_rounding`    : every real `x`: `|series − T16(x)| ≤ 19.001·u·T16(|x|)` (depth 19 of the Estrin scheme);
   `tail_taylor_rounding_rel`: `|x| ≤ 7/4`: `≤ 38·u·R(x)`;  `tail_taylor_rounding_R`: `|series − R(x)| ≤ (38u + 6·10⁻¹⁴)·R(x)`.
2. `tail_anal_rounding_pos`  : `x ≥ 1.7`, `x·u ≤ 10⁻³`: `|closed form − R(x)| ≤ (1273 + 2.01·x)·u·R(x)`;
   `tail_anal_rounding_neg`  : `x ≤ −1.7`, `|x|·u ≤ 10⁻³`: `≤ 1167·u·R(x)`;  `tail_anal_rounding`: both.
   (`68` = bound of the condition number `(eˣ + P4|x|)/|eˣ − P4 x|` on `|x| ≥ 1.7` — `kappa_pos`, `kappa_neg`,
   true values 66.5 / 60.1 at ±1.7 — times depth 17, plus the `exp`-argument term.)
   **The statement "≤ C₂·u·R(x) with a constant C₂ for all x ≥ 1.72" is FALSE**: the code calls `exp` at
   `x.recip().recip() = x·(1+δ₃)/(1+δ₂)`, so `eˣ` carries the relative error `≈ 2u·x`, and `R(x) ~ eˣ/x⁵`
   inherits it (e.g. a model with `rnd t = t(1−u)` for `|t| < 1`, `t(1+u)` for `|t| ≥ 1` and `x = 10⁴` gives
   relative error `≈ 2·10⁴·u`).  Hence the honest linear term `2.01·x·u`.
3. `branch_rounded`, `exp_5_taylor_rounding`: every `x` with `|x|·u ≤ 10⁻³`:
   `|computed − R(x)| ≤ ((1273 + 2.01|x|)·u + 6·10⁻¹⁴)·R(x)` (`6·10⁻¹⁴` = truncation of the series on `|x| ≤ 7/4`);
   `exp_5_taylor_rounding_series`: `|x| ≤ 1.709`: `(38u + 6·10⁻¹⁴)·R(x)`.
4. `evaluate_rounding_lin`   : `v > 0`, `|ln v| ≤ 1000`:
   `|rounded evaluate − ideal| ≤ ((1286 + 3.02·|ln v|)·u + 6·10⁻¹⁴)·Mag`;
   `evaluate_rounding` (= `C10_fp`, **the C10 floating-point theorem**): `≤ 10⁻¹²·Mag`;
   `evaluate_rounding_series`: `|ln v| ≤ 1.7`: `≤ (52u + 6·10⁻¹⁴)·Mag`.
   The hypothesis `|ln v| ≤ 1000` is honest: the bound grows like `3.02·|ln v|·u` (the rounded run works with
   `x̂ = −rnd(ln v) = X(1+δ)`; `R` has sensitivity `e^{u|X|}`, `R_sub_le`, and `exp` adds `2u|x̂|`), so `10⁻¹²`
   is reached near `|ln v| ≈ 2400`.  Every positive finite binary64 has `|ln v| < 745.2`.
5. `evaluate_near_one` (`v ∈ [1/5, 5]`: `≤ 10⁻¹³·Mag`, uniformly as `v → 1`), `evaluate_at_one` (`= rnd k`),
   `evaluate_at_one_exact` (`= k` when `rnd k = k`: in the abstract model an input need not be representable, in the
   Rust code `k` is an `f64`), `evaluate_at_one_close`; `no_jump_factor`, `no_jump_switch`, `no_jump_evaluate`:
   the computed values follow the continuous `R` / `ideal` up to the sum of the two error bounds on the two sides
   of a switch point.
Non-vacuity: section `examples` (models `M53`: every operation errs by the full `2⁻⁵³`; `intFixR`: integers
exact, everything else inflated).

## Method
Straight-line code is analysed by *composing the invariant lemmas of the counting semantics along the program*
(`CtInv.fma`, `CtInv.mul`, … of `PP/Sem/Count.lean`, extended by `ct_div`, `ct_litdiv` for the divisions): the
composed term type-checks against the *generated* definition by `rfl`, so nothing about the scheme is restated.
`exp` is treated as an opaque input `w = exp(x̃)`, the closed form being linear in `w`; `evaluate` is composed in the
real-growth-factor variant `Cl` (`PP/Lemmas/ExpTailFP.lean`), with the computed factor `Ê` as an approximation of
`R(X)` of growth factor `e^{u|X|}(1+ε)`.
-/

set_option linter.unusedSectionVars false
set_option linter.unusedVariables false
namespace PP.Props.C10Bound
open PP.Lemmas.Rounding PP.Lemmas.ExpTail PP.Lemmas.ExpTailFP LogPoly.taylor

noncomputable local instance instTranscReal : Transc ℝ := ⟨Real.log, Real.exp⟩
attribute [local instance] exactFL

variable (M : RModel ℝ)

/-- `u ≤ 2⁻⁵³ ≤ 10⁻¹⁵` -/
theorem u_small (hu : M.u ≤ (2 : ℝ) ^ (-53 : ℤ)) : M.u ≤ 1 / 10 ^ 15 :=
  hu.trans (by norm_num)

/-! ## 1. the series branch -/

/-- the series branch run in rounded arithmetic, in the counting invariant: exact value = the exact
run, magnitude = the exact run at `|x|` (all sixteen coefficients are positive), depth 19
(each literal `1.0/n!` is `rnd (rnd 1 / rnd n!)`: depth 4). -/
theorem tail_taylor_ct (hu : M.u ≤ 1 / 100) (x : ℝ) :
    CtInv M (exp_5_tail_taylor (F := ℝ) x) (exp_5_tail_taylor (⟨x⟩ : Rounded M)).val
      (exp_5_tail_taylor (F := ℝ) |x|) 19 := by
  have hx := CtInv.inp M x
  have L : ∀ (n e : ℤ), 0 < ((n : ℤ) : ℝ) * (10 : ℝ) ^ e →
      CtInv M (((1 : ℤ) : ℝ) * (10 : ℝ) ^ (0 : ℤ) / (((n : ℤ) : ℝ) * (10 : ℝ) ^ e))
        (M.rnd (M.rnd (((1 : ℤ) : ℝ) * (10 : ℝ) ^ (0 : ℤ)) / M.rnd (((n : ℤ) : ℝ) * (10 : ℝ) ^ e)))
        (((1 : ℤ) : ℝ) * (10 : ℝ) ^ (0 : ℤ) / (((n : ℤ) : ℝ) * (10 : ℝ) ^ e)) 4 :=
    fun n e h => ct_litdiv M hu (by norm_num) h
  have c0 := L 12 1 (by norm_num)
  have c1 := L 72 1 (by norm_num)
  have c2 := L 504 1 (by norm_num)
  have c3 := L 4032 1 (by norm_num)
  have c4 := L 36288 1 (by norm_num)
  have c5 := L 36288 2 (by norm_num)
  have c6 := L 399168 2 (by norm_num)
  have c7 := L 4790016 2 (by norm_num)
  have c8 := L 62270208 2 (by norm_num)
  have c9 := L 871782912 2 (by norm_num)
  have c10 := L 1307674368 3 (by norm_num)
  have c11 := L 20922789888 3 (by norm_num)
  have c12 := L 355687428096 3 (by norm_num)
  have c13 := L 6402373705728 3 (by norm_num)
  have c14 := L 121645100408832 3 (by norm_num)
  have c15 := L 243290200817664 4 (by norm_num)
  have t0 := c1.fma hx c0
  have t1 := c3.fma hx c2
  have t2 := c5.fma hx c4
  have t3 := c7.fma hx c6
  have t4 := c9.fma hx c8
  have t5 := c11.fma hx c10
  have t6 := c13.fma hx c12
  have t7 := c15.fma hx c14
  have x2 := hx.mul hx
  have top_l := t1.fma x2 t0
  have top_r := t3.fma x2 t2
  have bot_l := t5.fma x2 t4
  have bot_r := t7.fma x2 t6
  have x4 := x2.mul x2
  have top := top_r.fma x4 top_l
  have bot := bot_r.fma x4 bot_l
  have x8 := x4.mul x4
  exact (bot.fma x8 top).mono (by decide)

/-- the exact run of the series branch is `S16` (`C10.tail_taylor_eq`) -/
theorem tail_taylor_exact (x : ℝ) : exp_5_tail_taylor (F := ℝ) x = S16 x :=
  PP.Props.C10.tail_taylor_eq x

/-- **(1) rounding error of the series branch**, every real `x`:
`|computed − T16(x)| ≤ 19.001·u·T16(|x|)`, where `T16 = S16` is the sixteen-term sum. -/
theorem tail_taylor_rounding (hu : M.u ≤ (2 : ℝ) ^ (-53 : ℤ)) (x : ℝ) :
    |(exp_5_tail_taylor (⟨x⟩ : Rounded M)).val - S16 x| ≤ (19 + 1 / 1000) * M.u * S16 |x| := by
  have h := (tail_taylor_ct M (by linarith [u_small M hu]) x).2
  rw [tail_taylor_exact, tail_taylor_exact] at h
  have hS : 0 ≤ S16 |x| := by unfold S16; positivity
  have hg := growth_num M.hu hu 19 (by norm_num)
  calc _ ≤ ((1 + M.u) ^ 19 - 1) * S16 |x| := h
    _ ≤ (((19 : ℕ) : ℝ) + 1 / 1000) * M.u * S16 |x| := mul_le_mul_of_nonneg_right hg hS
    _ = _ := by norm_num

/-- **(1') relative to `R`** on the series interval (enlarged to `|x| ≤ 7/4`, which contains the rounded
thresholds): `|computed − T16(x)| ≤ 38·u·R(x)` -/
theorem tail_taylor_rounding_rel (hu : M.u ≤ (2 : ℝ) ^ (-53 : ℤ)) {x : ℝ} (hx : |x| ≤ 7 / 4) :
    |(exp_5_tail_taylor (⟨x⟩ : Rounded M)).val - S16 x| ≤ 38 * M.u * R x := by
  have h1 := tail_taylor_rounding M hu x
  have h2 := S16_abs_le_R hx
  have h3 : (19 + 1 / 1000) * M.u * S16 |x| ≤ (19 + 1 / 1000) * M.u * (116 / 59 * R x) :=
    mul_le_mul_of_nonneg_left h2 (by have := M.hu; positivity)
  have h4 : 0 ≤ M.u * R x := mul_nonneg M.hu (R_nonneg x)
  nlinarith

/-- **(1'') against `R` itself**, truncation included:
`|computed − R(x)| ≤ (38·u + 6·10⁻¹⁴)·R(x)` for `|x| ≤ 7/4` -/
theorem tail_taylor_rounding_R (hu : M.u ≤ (2 : ℝ) ^ (-53 : ℤ)) {x : ℝ} (hx : |x| ≤ 7 / 4) :
    |(exp_5_tail_taylor (⟨x⟩ : Rounded M)).val - R x| ≤ (38 * M.u + 6 / 10 ^ 14) * R x := by
  have h1 := tail_taylor_rounding_rel M hu hx
  have h2 := abs_R_sub_S16_le_rel_74 hx
  rw [abs_sub_comm] at h2
  calc |(exp_5_tail_taylor (⟨x⟩ : Rounded M)).val - R x|
      = |((exp_5_tail_taylor (⟨x⟩ : Rounded M)).val - S16 x) + (S16 x - R x)| := by ring_nf
    _ ≤ _ + _ := abs_add_le _ _
    _ ≤ 38 * M.u * R x + 6 / 10 ^ 14 * R x := add_le_add h1 h2
    _ = _ := by ring

/-! ## 2. the closed-form branch -/

/-- the rounded literal `1.0` -/
noncomputable def r1 : ℝ := M.rnd (((1 : ℤ) : ℝ) * (10 : ℝ) ^ (0 : ℤ))

/-- the argument the rounded closed form passes to `exp`: `x.recip().recip()` -/
noncomputable def xtilde (x : ℝ) : ℝ := M.rnd (r1 M / M.rnd (r1 M / x))

/-- the closed form with `w` in place of `eˣ` -/
noncomputable def Fan (x w : ℝ) : ℝ := (w - P4 x) / x ^ 5

theorem r1_ne_zero : r1 M ≠ 0 := by
  unfold r1
  rw [Ne, M.rnd_eq_zero_iff]; norm_num

/-- `x.recip().recip()` is within `2u/(1−u)` of `x` (the rounded literal `1.0` cancels) -/
theorem xtilde_close {x : ℝ} (hx : x ≠ 0) : |xtilde M x - x| ≤ 2 * M.u / (1 - M.u) * |x| :=
  recip_recip_close M (r1_ne_zero M) hx

/-- the closed-form branch in the counting invariant, with `w = exp (x.recip().recip())` as an opaque
input: depth 17, magnitude `(w + P4|x|)/|x|⁵` -/
theorem tail_anal_ct (hu : M.u ≤ 1 / 100) {x : ℝ} (hx : x ≠ 0) :
    |(exp_5_tail_anal (⟨x⟩ : Rounded M)).val - Fan x (Real.exp (xtilde M x))|
      ≤ ((1 + M.u) ^ 17 - 1) * ((Real.exp (xtilde M x) + P4 |x|) / |x| ^ 5) := by
  set w := Real.exp (xtilde M x) with hw
  have hw0 : 0 ≤ w := (Real.exp_pos _).le
  have one0 : (0 : ℝ) ≤ ((1 : ℤ) : ℝ) * (10 : ℝ) ^ (0 : ℤ) := by norm_num
  have hX := CtInv.inp M x
  have L1 := ct_lit_nonneg M one0
  have y := (ct_div L1 hX hx (by norm_num)).rnd
  have c0 := CtInv.lit M (((0 : ℤ) : ℝ) * (10 : ℝ) ^ (0 : ℤ))
  have s3 := pow_le_three_halves (M := M) hu 1 (by norm_num)
  have c1 := (ct_div L1.neg (CtInv.lit M (((24 : ℤ) : ℝ) * (10 : ℝ) ^ (0 : ℤ))) (by norm_num) s3).rnd
  have c2 := (ct_div L1.neg (CtInv.lit M (((6 : ℤ) : ℝ) * (10 : ℝ) ^ (0 : ℤ))) (by norm_num) s3).rnd
  have c3 := (ct_div L1.neg (CtInv.lit M (((2 : ℤ) : ℝ) * (10 : ℝ) ^ (0 : ℤ))) (by norm_num) s3).rnd
  have c4 := L1.neg
  have E := ct_lit_nonneg M hw0
  have c5 := E.sub L1
  have x2 := y.mul y
  have x4 := x2.mul x2
  have t0 := c1.fma y c0
  have t1 := c3.fma y c2
  have t2 := c5.fma y c4
  have raw : CtInv M _ (exp_5_tail_anal (⟨x⟩ : Rounded M)).val _ 17 :=
    ((t2.fma x4 (t1.fma x2 t0)).mono (by decide))
  have hax : |x| ≠ 0 := abs_ne_zero.mpr hx
  refine ct_bound_of_eq raw ?_ ?_
  · simp only [Fan, P4]; norm_num; field_simp; ring
  · simp only [P4]; norm_num; field_simp
    linear_combination (144 : ℝ) * sq_abs x

/-- the value passed for `eˣ` is within the factor `e^{±s}`, `s = 2u|x|/(1−u)`, of `eˣ` -/
theorem exp_xtilde {x : ℝ} (hx : x ≠ 0) :
    |Real.exp (xtilde M x) - Real.exp x|
      ≤ (Real.exp (2 * M.u / (1 - M.u) * |x|) - 1) * Real.exp x := by
  have h1 := xtilde_close M hx
  have e1 : Real.exp (xtilde M x) - Real.exp x = (Real.exp (xtilde M x - x) - 1) * Real.exp x := by
    rw [sub_mul, ← Real.exp_add]; ring_nf
  rw [e1, abs_mul, abs_of_pos (Real.exp_pos x)]
  refine mul_le_mul_of_nonneg_right ?_ (Real.exp_pos x).le
  refine (abs_exp_sub_one_le_exp_abs _).trans ?_
  linarith [Real.exp_le_exp.2 h1]

/-- common part of the two closed-form bounds: with `a = eˣ`, `p = P4|x|`, `D = |eˣ − P4 x|`,
`|computed − R x|·|x|⁵ ≤ g₁₇·(a + p) + (1 + g₁₇)·σ·a`, `σ ≤ 2.005·u·|x|` -/
theorem tail_anal_core (hu : M.u ≤ (2 : ℝ) ^ (-53 : ℤ)) {x : ℝ} (hx : x ≠ 0)
    (hxu : |x| * M.u ≤ 1 / 1000) :
    |(exp_5_tail_anal (⟨x⟩ : Rounded M)).val - R x|
      ≤ ((17 + 1 / 1000) * M.u * (Real.exp x + P4 |x|)
          + (1 + 1 / 1000) * (2005 / 1000 * M.u * |x|) * Real.exp x) / |x| ^ 5 := by
  have hu15 := u_small M hu
  have hu0 := M.hu
  have hct := tail_anal_ct M (by linarith) hx
  have hex := exp_xtilde M hx
  have hsig := sigma_le M.hu hu hxu
  set w := Real.exp (xtilde M x) with hw
  set σ := Real.exp (2 * M.u / (1 - M.u) * |x|) - 1 with hσ
  set a := Real.exp x with ha
  have ha0 : 0 < a := Real.exp_pos x
  have hσ0 : 0 ≤ σ := by
    have h1u : 0 < 1 - M.u := by linarith
    have : 0 ≤ 2 * M.u / (1 - M.u) * |x| := by positivity
    have := Real.one_le_exp this
    rw [hσ]; linarith
  have hg := growth_num M.hu hu 17 (by norm_num)
  have hg0 : 0 ≤ (1 + M.u) ^ 17 - 1 := growth_nonneg M.hu 17
  have hx5 : 0 < |x| ^ 5 := by have := abs_pos.mpr hx; positivity
  have hp0 : 0 ≤ P4 |x| := by simp only [P4]; positivity
  -- distance of the opaque closed form to R
  have hFR : |Fan x w - R x| = |w - a| / |x| ^ 5 := by
    rw [R_of_ne hx, Fan, ← sub_div, abs_div, abs_pow]; congr 2; ring
  have hw1 : w ≤ a + σ * a := by
    have := (abs_le.1 hex).2; linarith
  have hw0 : 0 ≤ w := (Real.exp_pos _).le
  have htri : |(exp_5_tail_anal (⟨x⟩ : Rounded M)).val - R x|
      ≤ ((1 + M.u) ^ 17 - 1) * ((w + P4 |x|) / |x| ^ 5) + |w - a| / |x| ^ 5 := by
    calc _ = |((exp_5_tail_anal (⟨x⟩ : Rounded M)).val - Fan x w) + (Fan x w - R x)| := by ring_nf
      _ ≤ _ + _ := abs_add_le _ _
      _ ≤ _ := by rw [hFR]; exact add_le_add hct le_rfl
  refine htri.trans ?_
  rw [← mul_div_assoc, ← add_div]
  refine div_le_div_of_nonneg_right ?_ hx5.le
  -- numerators
  have h1 : ((1 + M.u) ^ 17 - 1) * (w + P4 |x|) ≤ ((1 + M.u) ^ 17 - 1) * (a + P4 |x| + σ * a) :=
    mul_le_mul_of_nonneg_left (by linarith) hg0
  have hg' : (1 + M.u) ^ 17 - 1 ≤ (17 + 1 / 1000) * M.u := by
    have : (((17 : ℕ) : ℝ) + 1 / 1000) = 17 + 1 / 1000 := by norm_num
    rw [← this]; exact hg
  have hg1 : (1 + M.u) ^ 17 - 1 ≤ 1 / 1000 := by nlinarith
  have hσa : 0 ≤ σ * a := mul_nonneg hσ0 ha0.le
  have h2 : ((1 + M.u) ^ 17 - 1) * (a + P4 |x|) ≤ (17 + 1 / 1000) * M.u * (a + P4 |x|) :=
    mul_le_mul_of_nonneg_right hg' (by linarith)
  have h3 : ((1 + M.u) ^ 17 - 1) * (σ * a) ≤ 1 / 1000 * (σ * a) :=
    mul_le_mul_of_nonneg_right hg1 hσa
  have h4 : σ * a ≤ 2005 / 1000 * M.u * |x| * a := mul_le_mul_of_nonneg_right hsig ha0.le
  nlinarith

/-- **(2+) closed-form branch, positive side** (`x ≥ 1.7`; the rounded run takes this branch only for
`x ≥ rnd 1.72 ≥ 1.7199…`): `|computed − R(x)| ≤ (1273 + 2.01·x)·u·R(x)`.
`1273 ≈ 68·17 + 2·58`: condition number `(eˣ+P4)/(eˣ−P4) ≤ 68` times depth 17, plus the effect
of the argument error of `exp` (`x.recip().recip() = x(1+2u)`), which is *proportional to `x`*: the term
`2.01·x·u` is real (relative error `2ux` of `e^{x(1+2u)}`), not an artefact. -/
theorem tail_anal_rounding_pos (hu : M.u ≤ (2 : ℝ) ^ (-53 : ℤ)) {x : ℝ} (hx : 17 / 10 ≤ x)
    (hxu : x * M.u ≤ 1 / 1000) :
    |(exp_5_tail_anal (⟨x⟩ : Rounded M)).val - R x| ≤ (1273 + 201 / 100 * x) * M.u * R x := by
  have hx0 : 0 < x := by linarith
  have habs : |x| = x := abs_of_pos hx0
  have hcore := tail_anal_core M hu hx0.ne' (by rwa [habs])
  rw [habs] at hcore
  refine hcore.trans ?_
  have hk := kappa_pos hx
  have hxa := x_mul_exp_le hx
  have hu0 := M.hu
  set a := Real.exp x
  set p := P4 x
  have hD : 0 ≤ a - p := P4_le_exp hx0.le |> sub_nonneg.2
  rw [R_of_ne hx0.ne', ← mul_div_assoc]
  refine div_le_div_of_nonneg_right ?_ (by positivity)
  have h1 : M.u * (a + p) ≤ M.u * (68 * (a - p)) := mul_le_mul_of_nonneg_left hk hu0
  have h2 : M.u * (x * a) ≤ M.u * ((x + 58) * (a - p)) := mul_le_mul_of_nonneg_left hxa hu0
  have h3 : 0 ≤ M.u * (a - p) := mul_nonneg hu0 hD
  have h4 : 0 ≤ M.u * (x * (a - p)) := mul_nonneg hu0 (mul_nonneg hx0.le hD)
  nlinarith

/-- **(2−) closed-form branch, negative side** (`x ≤ −1.7`): `|computed − R(x)| ≤ 1167·u·R(x)`
(`≈ 68·17 + 2·5`; here the argument error of `exp` is harmless because `|x|e^{x}` is small). -/
theorem tail_anal_rounding_neg (hu : M.u ≤ (2 : ℝ) ^ (-53 : ℤ)) {x : ℝ} (hx : x ≤ -(17 / 10))
    (hxu : |x| * M.u ≤ 1 / 1000) :
    |(exp_5_tail_anal (⟨x⟩ : Rounded M)).val - R x| ≤ 1167 * M.u * R x := by
  have hx0 : x < 0 := by linarith
  have habs : |x| = -x := abs_of_neg hx0
  have hcore := tail_anal_core M hu hx0.ne hxu
  refine hcore.trans ?_
  have ht : 17 / 10 ≤ |x| := by rw [habs]; linarith
  have hk := kappa_neg ht
  have hta := t_mul_exp_neg_le ht
  have hxx : -|x| = x := by rw [habs]; ring
  rw [hxx] at hk hta
  have hu0 := M.hu
  set a := Real.exp x
  set p := P4 |x|
  have hD : 0 ≤ P4 x - a := sub_nonneg.2 (exp_le_P4 hx0.le)
  have hR : R x = (P4 x - a) / |x| ^ 5 := by
    rw [R_of_ne hx0.ne, habs]
    have : (-x) ^ 5 = -(x ^ 5) := by ring
    rw [this, div_neg, ← neg_div]; congr 1; ring
  rw [hR, ← mul_div_assoc]
  refine div_le_div_of_nonneg_right ?_ (by positivity)
  have h1 : M.u * (a + p) ≤ M.u * (68 * (P4 x - a)) := mul_le_mul_of_nonneg_left hk hu0
  have h2 : M.u * (|x| * a) ≤ M.u * (5 * (P4 x - a)) := mul_le_mul_of_nonneg_left hta hu0
  have h3 : 0 ≤ M.u * (P4 x - a) := mul_nonneg hu0 hD
  nlinarith

/-- **(2) closed-form branch**, both sides: for `|x| ≥ 1.7` (and `|x|·u ≤ 10⁻³`, i.e. `|x| ≤ 9·10¹²`),
`|computed − R(x)| ≤ (1273 + 2.01·|x|)·u·R(x)` -/
theorem tail_anal_rounding (hu : M.u ≤ (2 : ℝ) ^ (-53 : ℤ)) {x : ℝ} (hx : 17 / 10 ≤ |x|)
    (hxu : |x| * M.u ≤ 1 / 1000) :
    |(exp_5_tail_anal (⟨x⟩ : Rounded M)).val - R x| ≤ (1273 + 201 / 100 * |x|) * M.u * R x := by
  rcases le_total 0 x with h0 | h0
  · rw [abs_of_nonneg h0] at hx hxu ⊢
    exact tail_anal_rounding_pos M hu hx hxu
  · have hx' : x ≤ -(17 / 10) := by rw [abs_of_nonpos h0] at hx; linarith
    refine (tail_anal_rounding_neg M hu hx' hxu).trans ?_
    have := mul_nonneg M.hu (R_nonneg x)
    have h2 := mul_nonneg (abs_nonneg x) this
    nlinarith

/-! ## 3. the branch as the rounded run takes it -/

/-- the rounded literal `UPPER_THRES = rnd 1.72` -/
noncomputable def thrU : ℝ := M.rnd (((172 : ℤ) : ℝ) * (10 : ℝ) ^ (-2 : ℤ))
/-- the rounded literal `rnd 1.71` (`LOWER_THRES` is its negative) -/
noncomputable def thrL : ℝ := M.rnd (((171 : ℤ) : ℝ) * (10 : ℝ) ^ (-2 : ℤ))

/-- the rounded literal `1.72` lies in `[1.7, 1.75]` -/
theorem thrU_bounds (hu : M.u ≤ 1 / 1000) : 17 / 10 ≤ thrU M ∧ thrU M ≤ 7 / 4 := by
  have e : ((172 : ℤ) : ℝ) * (10 : ℝ) ^ (-2 : ℤ) = 172 / 100 := by norm_num
  rw [thrU, e]
  have h := M.h (172 / 100)
  rw [abs_of_pos (by norm_num : (0 : ℝ) < 172 / 100)] at h
  have h2 := abs_le.1 h
  have h0 := M.hu
  constructor <;> nlinarith [h2.1, h2.2]

/-- the rounded literal `1.71` lies in `[1.7, 1.75]` -/
theorem thrL_bounds (hu : M.u ≤ 1 / 1000) : 17 / 10 ≤ thrL M ∧ thrL M ≤ 7 / 4 := by
  have e : ((171 : ℤ) : ℝ) * (10 : ℝ) ^ (-2 : ℤ) = 171 / 100 := by norm_num
  rw [thrL, e]
  have h := M.h (171 / 100)
  rw [abs_of_pos (by norm_num : (0 : ℝ) < 171 / 100)] at h
  have h2 := abs_le.1 h
  have h0 := M.hu
  constructor <;> nlinarith [h2.1, h2.2]

/-- both rounded thresholds exceed `1.709` -/
theorem thr_gt (hu : M.u ≤ 1 / 10000) : 1709 / 1000 < thrL M ∧ 1709 / 1000 < thrU M := by
  have e1 : ((171 : ℤ) : ℝ) * (10 : ℝ) ^ (-2 : ℤ) = 171 / 100 := by norm_num
  have e2 : ((172 : ℤ) : ℝ) * (10 : ℝ) ^ (-2 : ℤ) = 172 / 100 := by norm_num
  rw [thrL, thrU, e1, e2]
  have h1 := M.h (171 / 100)
  have h2 := M.h (172 / 100)
  rw [abs_of_pos (by norm_num : (0 : ℝ) < 171 / 100)] at h1
  rw [abs_of_pos (by norm_num : (0 : ℝ) < 172 / 100)] at h2
  have h1' := abs_le.1 h1
  have h2' := abs_le.1 h2
  have h0 := M.hu
  constructor <;> nlinarith [h1'.1, h2'.1]

/-- **the branch of the rounded run** is decided by exact comparisons of the argument with the two
*rounded* thresholds -/
theorem branch_rounded (x : ℝ) :
    (exp_5_taylor (⟨x⟩ : Rounded M)).val =
      if -thrL M < x ∧ x < thrU M
      then (exp_5_tail_taylor (⟨x⟩ : Rounded M)).val else (exp_5_tail_anal (⟨x⟩ : Rounded M)).val := by
  unfold exp_5_taylor thrL thrU
  simp only [FloatLike.lt, PNeg.neg, FloatLike.neg, FloatLike.ofDec, Bool.and_eq_true, decide_eq_true_eq]
  split_ifs <;> rfl

/-- **(3) `exp_5_taylor` in rounded arithmetic**, every real `x` with `|x|·u ≤ 10⁻³`:
`|computed − R(x)| ≤ ((1273 + 2.01·|x|)·u + 6·10⁻¹⁴)·R(x)`; on the series branch the sharper
`(38·u + 6·10⁻¹⁴)·R(x)` holds (`exp_5_taylor_rounding_series`).  `6·10⁻¹⁴` is the truncation error. -/
theorem exp_5_taylor_rounding (hu : M.u ≤ (2 : ℝ) ^ (-53 : ℤ)) {x : ℝ} (hxu : |x| * M.u ≤ 1 / 1000) :
    |(exp_5_taylor (⟨x⟩ : Rounded M)).val - R x|
      ≤ ((1273 + 201 / 100 * |x|) * M.u + 6 / 10 ^ 14) * R x := by
  have hu3 : M.u ≤ 1 / 1000 := by linarith [u_small M hu]
  have hR := R_nonneg x
  have hu0 := M.hu
  have hax := abs_nonneg x
  rw [branch_rounded]
  split_ifs with h
  · have hx : |x| ≤ 7 / 4 := abs_le.2
      ⟨by linarith [h.1, (thrL_bounds M hu3).2], by linarith [h.2, (thrU_bounds M hu3).2]⟩
    refine (tail_taylor_rounding_R M hu hx).trans (mul_le_mul_of_nonneg_right ?_ hR)
    have := mul_nonneg hax hu0
    nlinarith
  · have hx : 17 / 10 ≤ |x| := by
      by_contra hc; push Not at hc
      have := abs_lt.1 hc
      exact h ⟨by linarith [(thrL_bounds M hu3).1, this.1],
        by linarith [(thrU_bounds M hu3).1, this.2]⟩
    refine (tail_anal_rounding M hu hx hxu).trans ?_
    have : 0 ≤ 6 / 10 ^ 14 * R x := by positivity
    nlinarith

/-- (3, series branch) for `|x| ≤ 1.709` the rounded run takes the series branch and
`|computed − R(x)| ≤ (38·u + 6·10⁻¹⁴)·R(x)` -/
theorem exp_5_taylor_rounding_series (hu : M.u ≤ (2 : ℝ) ^ (-53 : ℤ)) {x : ℝ} (hx : |x| ≤ 1709 / 1000) :
    |(exp_5_taylor (⟨x⟩ : Rounded M)).val - R x| ≤ (38 * M.u + 6 / 10 ^ 14) * R x := by
  have hu4 : M.u ≤ 1 / 10000 := by linarith [u_small M hu]
  have := abs_le.1 hx
  rw [branch_rounded, if_pos ⟨by linarith [(thr_gt M hu4).1, this.1],
    by linarith [(thr_gt M hu4).2, this.2]⟩]
  exact tail_taylor_rounding_R M hu (by linarith)

/-! ## 4. the whole evaluation -/

/-- the generated `IntOfLogPoly4::evaluate` run in rounded arithmetic on exact inputs `(k, c₁..c₄, u)`, `v` -/
@[reducible] noncomputable def evalRounded (q : IntOfLogPoly4 ℝ) (v : ℝ) : ℝ :=
  (Evaluate.evaluate (⟨⟨q.k⟩, q.coeffs.mapF Rounded.mk, ⟨q.u⟩⟩ : IntOfLogPoly4 (Rounded M))
    (⟨v⟩ : Rounded M)).val

/-- the argument the rounded run works with: `x̂ = −rnd (ln v)` -/
noncomputable def xhat (v : ℝ) : ℝ := -M.rnd (Real.log v)

/-- the sum of the magnitudes of the terms of C10:
`|k| + v·Σ|c_j||X|^j + |u|·v·|X|⁵·R(X)`, `X = −ln v` -/
noncomputable def Mag (q : IntOfLogPoly4 ℝ) (v : ℝ) : ℝ :=
  let X := -Real.log v
  |q.k| + v * (|q.coeffs.a0| * |X| + |q.coeffs.a1| * |X| ^ 2 + |q.coeffs.a2| * |X| ^ 3
    + |q.coeffs.a3| * |X| ^ 4) + |q.u| * v * |X| ^ 5 * R X

theorem Mag_nonneg (q : IntOfLogPoly4 ℝ) {v : ℝ} (hv : 0 < v) : 0 ≤ Mag q v := by
  have := R_nonneg (-Real.log v)
  simp only [Mag]; positivity

/-- `x̂` approximates `X = −ln v` with relative error `u` -/
theorem xhat_cl (v : ℝ) : Cl (1 + M.u) (-Real.log v) (xhat M v) |-Real.log v| := by
  refine ⟨by linarith [M.hu], le_refl _, ?_⟩
  have := M.h (Real.log v)
  rw [xhat, abs_neg]
  calc |-M.rnd (Real.log v) - -Real.log v| = |M.rnd (Real.log v) - Real.log v| := by
        rw [← abs_neg]; ring_nf
    _ ≤ M.u * |Real.log v| := this
    _ = _ := by ring

theorem pow_le_mul_pow {U H : ℝ} (hU : 1 ≤ U) (hH : 1 ≤ H) {m n : ℕ} (hmn : m ≤ n) :
    U ^ m ≤ H * U ^ n :=
  calc U ^ m ≤ U ^ n := pow_le_pow_right₀ hU hmn
    _ ≤ H * U ^ n := le_mul_of_one_le_left (by positivity) hH

/-- **the evaluation scheme**: if the computed factor `Ê = exp_5_taylor(x̂)` approximates `R(X)` with growth
factor `H`, the rounded result approximates the ideal value with growth factor `H·(1+u)¹²` against the sum of
the magnitudes of the terms. -/
theorem evaluate_cl (q : IntOfLogPoly4 ℝ) {v H : ℝ} (hv : 0 < v)
    (hE : Cl H (R (-Real.log v)) (exp_5_taylor (⟨xhat M v⟩ : Rounded M)).val (R (-Real.log v))) :
    |evalRounded M q v - PP.Props.C10.ideal q v| ≤ (H * (1 + M.u) ^ 12 - 1) * Mag q v := by
  have hH : 1 ≤ H := hE.1
  have hu0 := M.hu
  set U := 1 + M.u with hUdef
  have hU : 1 ≤ U := by linarith
  have hx := xhat_cl M v
  have hk := Cl.inp q.k
  have hc1 := Cl.inp q.coeffs.a0
  have hc2 := Cl.inp q.coeffs.a1
  have hc3 := Cl.inp q.coeffs.a2
  have hc4 := Cl.inp q.coeffs.a3
  have huq := Cl.inp q.u
  have hvv := Cl.inp v
  have c0 : Cl U _ _ _ := (Cl.of_ct (CtInv.lit M (((0 : ℤ) : ℝ) * (10 : ℝ) ^ (0 : ℤ)))).mono
    (by rw [pow_one])
  have c5 := (huq.prod hE).rnd M
  have t0 := Cl.fma M hc1 hx c0 (G := U) (by rw [one_mul]) le_rfl
  have t1 := Cl.fma M hc3 hx hc2 (G := U) (by rw [one_mul]) hU
  have t2 := Cl.fma M c5 hx hc4 (G := H * U ^ 2) (by rw [hUdef]; ring_nf; rfl)
    (by simpa using pow_le_mul_pow hU hH (Nat.zero_le 2))
  have x2 := Cl.mul M hx hx
  have x4 := Cl.mul M x2 x2
  have inner := Cl.fma M t1 x2 t0 (G := U ^ 5) (by rw [hUdef]; ring_nf; rfl)
    (by calc U * (1 + M.u) = U ^ 2 := by rw [hUdef]; ring
          _ ≤ U ^ 5 := pow_le_pow_right₀ hU (by norm_num))
  have cr := Cl.fma M t2 x4 inner (G := H * U ^ 10) (by rw [hUdef]; ring_nf; rfl)
    (by calc U ^ 5 * (1 + M.u) = U ^ 6 := by rw [hUdef]; ring
          _ ≤ H * U ^ 10 := pow_le_mul_pow hU hH (by norm_num))
  have res := Cl.fma M hvv cr hk (G := H * U ^ 11) (by rw [hUdef]; ring_nf; rfl)
    (by simpa using pow_le_mul_pow hU hH (Nat.zero_le 11))
  have hfin : H * U ^ 11 * (1 + M.u) = H * U ^ 12 := by rw [hUdef]; ring
  rw [hfin] at res
  have hR := R_nonneg (-Real.log v)
  refine Cl.bound_of_eq res ?_ ?_
  · simp only [PP.Props.C10.ideal, Int.cast_zero, zero_mul]; ring
  · simp only [Mag, abs_of_pos hv, Int.cast_zero, zero_mul, abs_zero]; ring

/-- the computed factor against `R(X)` at the *unperturbed* `X = −ln v`: if the rounded `exp_5_taylor` is
within `ε·R` of `R` at `x̂`, it is within the growth factor `e^{u|X|}·(1+ε)` of `R(X)`
(`e^{u|X|}` is the sensitivity of `R`, `R_sub_le`) -/
theorem E_cl (v ε : ℝ) (hε : 0 ≤ ε)
    (h : |(exp_5_taylor (⟨xhat M v⟩ : Rounded M)).val - R (xhat M v)| ≤ ε * R (xhat M v)) :
    Cl (Real.exp (M.u * |Real.log v|) * (1 + ε)) (R (-Real.log v))
      (exp_5_taylor (⟨xhat M v⟩ : Rounded M)).val (R (-Real.log v)) := by
  have hu0 := M.hu
  have hu1 := M.hu1
  set X := -Real.log v with hX
  have hXa : |X| = |Real.log v| := by rw [hX, abs_neg]
  rw [← hXa]
  have hs0 : 0 ≤ M.u * |X| := mul_nonneg hu0 (abs_nonneg X)
  set β := Real.exp (M.u * |X|) with hβ
  have hβ1 : 1 ≤ β := Real.one_le_exp hs0
  have hRX := R_nonneg X
  have hx := (xhat_cl M v).2.2
  rw [← hX] at hx
  have hxX : |xhat M v - X| ≤ M.u * |X| := by
    calc _ ≤ (1 + M.u - 1) * |X| := hx
      _ = _ := by ring
  -- R at x̂ against R at X
  have hRR : |R (xhat M v) - R X| ≤ (β - 1) * R X := by
    rcases eq_or_ne X 0 with h0 | h0
    · have : xhat M v = X := by
        rw [h0, abs_zero, mul_zero] at hxX
        have := abs_nonpos_iff.1 hxX
        linarith
      rw [this, sub_self, abs_zero]
      exact mul_nonneg (by linarith) hRX
    · have hpos : 0 < xhat M v * X := by
        have hX2 : 0 < |X| := abs_pos.mpr h0
        have e1 : xhat M v * X = X * X + (xhat M v - X) * X := by ring
        have e2 : |(xhat M v - X) * X| ≤ M.u * |X| * |X| := by
          rw [abs_mul]; exact mul_le_mul_of_nonneg_right hxX (abs_nonneg X)
        have e3 : X * X = |X| * |X| := (abs_mul_abs_self X).symm
        have e4 := (abs_le.1 e2).1
        have : M.u * |X| * |X| < |X| * |X| := by
          have := mul_pos hX2 hX2
          nlinarith
        rw [e1, e3]; linarith
      refine (R_sub_le hpos).trans (mul_le_mul_of_nonneg_right ?_ hRX)
      have := Real.exp_le_exp.2 hxX
      linarith
  have hRx : R (xhat M v) ≤ β * R X := by
    have := (abs_le.1 hRR).2; linarith
  refine ⟨by nlinarith, le_of_eq (abs_of_nonneg hRX), ?_⟩
  have h1 : ε * R (xhat M v) ≤ ε * (β * R X) := mul_le_mul_of_nonneg_left hRx hε
  calc |(exp_5_taylor (⟨xhat M v⟩ : Rounded M)).val - R X|
      = |((exp_5_taylor (⟨xhat M v⟩ : Rounded M)).val - R (xhat M v)) + (R (xhat M v) - R X)| := by
        ring_nf
    _ ≤ _ + _ := abs_add_le _ _
    _ ≤ ε * (β * R X) + (β - 1) * R X := add_le_add (h.trans h1) hRR
    _ = (β * (1 + ε) - 1) * R X := by ring

/-- `|x̂| ≤ (1+u)|X|` -/
theorem abs_xhat_le (v : ℝ) : |xhat M v| ≤ (1 + M.u) * |Real.log v| := by
  rw [xhat, abs_neg]; exact M.abs_rnd_le _

/-- numerics: the growth factor of the whole evaluation, linearised -/
theorem factor_le {u L β ε c0 c1 : ℝ} (hu0 : 0 ≤ u) (hu : u ≤ (2 : ℝ) ^ (-53 : ℤ)) (hL0 : 0 ≤ L)
    (hL : L ≤ 1000) (hβ : β = Real.exp (u * L)) (hc0 : 0 ≤ c0) (hc0' : c0 ≤ 2000) (hc1 : 0 ≤ c1)
    (hc1' : c1 ≤ 3) (hε : ε = (c0 + c1 * L) * u + 6 / 10 ^ 14) :
    β * (1 + ε) * (1 + u) ^ 12 - 1 ≤ (c0 + 12 + 1 / 100 + (c1 + 1 + 1 / 500) * L) * u + 6 / 10 ^ 14 := by
  have h53 : (2 : ℝ) ^ (-53 : ℤ) ≤ 1 / 10 ^ 15 := by norm_num
  have hu' : u ≤ 1 / 10 ^ 15 := hu.trans h53
  have hs0 : 0 ≤ u * L := mul_nonneg hu0 hL0
  have hs1 : u * L ≤ 1 / 10 ^ 12 := by nlinarith
  have hβ' : β - 1 ≤ u * L * (1 + u * L) := by rw [hβ]; exact exp_sub_one_le hs0 (by linarith)
  have hβ1 : 1 ≤ β := by rw [hβ]; exact Real.one_le_exp hs0
  have hb : β ≤ 1 + (1001 / 1000) * (u * L) := by nlinarith
  have hU := growth_num hu0 hu 12 (by norm_num)
  have hU1 : 1 ≤ (1 + u) ^ 12 := one_le_pow₀ (by linarith)
  have ha : (1 + u) ^ 12 ≤ 1 + (12 + 1 / 1000) * u := by
    have : (((12 : ℕ) : ℝ) + 1 / 1000) = 12 + 1 / 1000 := by norm_num
    rw [this] at hU; linarith
  have hε0 : 0 ≤ ε := by rw [hε]; positivity
  have hε1 : ε ≤ 1 / 10 ^ 11 := by
    rw [hε]
    have : (c0 + c1 * L) * u ≤ (2000 + 3 * 1000) * (1 / 10 ^ 15) :=
      mul_le_mul (by nlinarith) hu' hu0 (by norm_num)
    norm_num at this ⊢; linarith
  set a := (12 + 1 / 1000) * u with hadef
  set b := (1001 / 1000) * (u * L) with hbdef
  have ha0 : 0 ≤ a := by positivity
  have hb0 : 0 ≤ b := by positivity
  have ha1 : a ≤ 1 / 10 ^ 13 := by rw [hadef]; nlinarith
  have hb1 : b ≤ 1 / 10 ^ 11 := by rw [hbdef]; nlinarith
  have h1 : β * (1 + ε) * (1 + u) ^ 12 ≤ (1 + b) * (1 + ε) * (1 + a) :=
    mul_le_mul (mul_le_mul_of_nonneg_right hb (by linarith)) ha (by linarith)
      (mul_nonneg (by linarith) (by linarith))
  have h2 : (1 + b) * (1 + ε) * (1 + a) - 1 = a + b + ε + (a * b + a * ε + b * ε + a * b * ε) := by ring
  have h3 : a * b ≤ a * (1 / 10 ^ 11) := mul_le_mul_of_nonneg_left hb1 ha0
  have h4 : a * ε ≤ a * (1 / 10 ^ 11) := mul_le_mul_of_nonneg_left hε1 ha0
  have h5 : b * ε ≤ b * (1 / 10 ^ 11) := mul_le_mul_of_nonneg_left hε1 hb0
  have h6 : a * b * ε ≤ a * (1 / 10 ^ 11) := by
    have : a * b * ε ≤ a * b * 1 := mul_le_mul_of_nonneg_left (by linarith) (mul_nonneg ha0 hb0)
    linarith
  have h7 : 0 ≤ u * L := hs0
  rw [hε] at h2 h4 h5 h6 ⊢
  rw [hadef, hbdef] at *
  nlinarith

/-- **(4) general form, honest about `v → 0`**: for `v > 0` with `|ln v| ≤ 1000` (every positive binary64 has
`|ln v| < 745.2`) the rounded run of `IntOfLogPoly4::evaluate` differs from
`k + v·Σ c_j X^j + u_q·v·X⁵·R(X)`, `X = −ln v`, by at most
`((1286 + 3.02·|ln v|)·u + 6·10⁻¹⁴)` times the sum of the magnitudes of the terms.  The term proportional
to `|ln v|` is real: the rounded run evaluates at `x̂ = −rnd(ln v) = X(1+δ)`, and `X ↦ X⁵R(X) = e^X − P4(X)`
has relative condition number `≈ 5 + |X|`; moreover `exp` is called at `x.recip().recip() = x(1+2u)`. -/
theorem evaluate_rounding_lin (hu : M.u ≤ (2 : ℝ) ^ (-53 : ℤ)) (q : IntOfLogPoly4 ℝ) {v : ℝ} (hv : 0 < v)
    (hX : |Real.log v| ≤ 1000) :
    |evalRounded M q v - PP.Props.C10.ideal q v|
      ≤ ((1286 + 302 / 100 * |Real.log v|) * M.u + 6 / 10 ^ 14) * Mag q v := by
  have hu0 := M.hu
  have hu15 := u_small M hu
  have hL0 := abs_nonneg (Real.log v)
  have hxh := abs_xhat_le M v
  have hxu : |xhat M v| * M.u ≤ 1 / 1000 := by
    have : |xhat M v| ≤ 1001 := by nlinarith
    nlinarith
  have hE := exp_5_taylor_rounding M hu hxu
  have hRx := R_nonneg (xhat M v)
  set ε := (1273 + 2011 / 1000 * |Real.log v|) * M.u + 6 / 10 ^ 14 with hε
  have hε0 : 0 ≤ ε := by rw [hε]; positivity
  have hE' : |(exp_5_taylor (⟨xhat M v⟩ : Rounded M)).val - R (xhat M v)| ≤ ε * R (xhat M v) := by
    refine hE.trans (mul_le_mul_of_nonneg_right ?_ hRx)
    rw [hε]
    have : 201 / 100 * |xhat M v| * M.u ≤ 2011 / 1000 * |Real.log v| * M.u := by
      have h1 : |xhat M v| * M.u ≤ (1 + M.u) * |Real.log v| * M.u :=
        mul_le_mul_of_nonneg_right hxh hu0
      have h2 : 0 ≤ |Real.log v| * M.u := mul_nonneg hL0 hu0
      nlinarith
    nlinarith
  have hcl := evaluate_cl M q hv (E_cl M v ε hε0 hE')
  refine hcl.trans (mul_le_mul_of_nonneg_right ?_ (Mag_nonneg q hv))
  have := factor_le (u := M.u) (L := |Real.log v|) (c0 := 1273) (c1 := 2011 / 1000) hu0 hu hL0 hX rfl
    (by norm_num) (by norm_num) (by norm_num) (by norm_num) hε
  have h2 : 0 ≤ |Real.log v| * M.u := mul_nonneg hL0 hu0
  nlinarith

/-- **(4) C10, the floating-point theorem**: for `v > 0` with `|ln v| ≤ 1000`, the rounded run differs from
`k + v·Σ c_j X^j + u_q·v·X⁵·R(X)` by at most `10⁻¹²` times the sum of the magnitudes of those terms
(`|k| + v·Σ|c_j||X|^j + |u_q|·v·|X|⁵·R(X)`). -/
theorem evaluate_rounding (hu : M.u ≤ (2 : ℝ) ^ (-53 : ℤ)) (q : IntOfLogPoly4 ℝ) {v : ℝ} (hv : 0 < v)
    (hX : |Real.log v| ≤ 1000) :
    |evalRounded M q v - PP.Props.C10.ideal q v| ≤ 1 / 10 ^ 12 * Mag q v := by
  refine (evaluate_rounding_lin M hu q hv hX).trans (mul_le_mul_of_nonneg_right ?_ (Mag_nonneg q hv))
  have hu15 : M.u ≤ 1110224 / 10 ^ 22 := hu.trans (by norm_num)
  have hu0 := M.hu
  have hL0 := abs_nonneg (Real.log v)
  have : (1286 + 302 / 100 * |Real.log v|) * M.u ≤ (1286 + 302 / 100 * 1000) * (1110224 / 10 ^ 22) :=
    mul_le_mul (by linarith) hu15 hu0 (by norm_num)
  norm_num at this ⊢
  linarith

/-- **C10, floating-point reading, spelled out** (no auxiliary definitions) -/
theorem C10_fp (hu : M.u ≤ (2 : ℝ) ^ (-53 : ℤ)) (q : IntOfLogPoly4 ℝ) {v : ℝ} (hv : 0 < v)
    (hX : |Real.log v| ≤ 1000) :
    let X := -Real.log v
    |evalRounded M q v
        - (q.k + v * (q.coeffs.a0 * X + q.coeffs.a1 * X ^ 2 + q.coeffs.a2 * X ^ 3 + q.coeffs.a3 * X ^ 4)
            + q.u * v * X ^ 5 * R X)|
      ≤ 1 / 10 ^ 12 * (|q.k| + v * (|q.coeffs.a0| * |X| + |q.coeffs.a1| * |X| ^ 2 + |q.coeffs.a2| * |X| ^ 3
            + |q.coeffs.a3| * |X| ^ 4) + |q.u| * v * |X| ^ 5 * R X) :=
  evaluate_rounding M hu q hv hX

/-- **(4, series branch) the library's main use** `v ∈ [e^{−1.7}, e^{1.7}] ≈ [0.183, 5.47]`: there the rounded
run takes the series branch and the error is at most `(52·u + 6·10⁻¹⁴)` times the sum of the magnitudes
(`≤ 6.6·10⁻¹⁴` for binary64) -/
theorem evaluate_rounding_series (hu : M.u ≤ (2 : ℝ) ^ (-53 : ℤ)) (q : IntOfLogPoly4 ℝ) {v : ℝ} (hv : 0 < v)
    (hX : |Real.log v| ≤ 17 / 10) :
    |evalRounded M q v - PP.Props.C10.ideal q v| ≤ (52 * M.u + 6 / 10 ^ 14) * Mag q v := by
  have hu0 := M.hu
  have hu15 := u_small M hu
  have hL0 := abs_nonneg (Real.log v)
  have hxh := abs_xhat_le M v
  have hx : |xhat M v| ≤ 1709 / 1000 := by nlinarith
  have hE := exp_5_taylor_rounding_series M hu hx
  have hε : 38 * M.u + 6 / 10 ^ 14 = (38 + 0 * |Real.log v|) * M.u + 6 / 10 ^ 14 := by ring
  have hcl := evaluate_cl M q hv (E_cl M v (38 * M.u + 6 / 10 ^ 14) (by positivity) hE)
  refine hcl.trans (mul_le_mul_of_nonneg_right ?_ (Mag_nonneg q hv))
  have := factor_le (u := M.u) (L := |Real.log v|) (c0 := 38) (c1 := 0) hu0 hu hL0 (by linarith) rfl
    (by norm_num) (by norm_num) (by norm_num) (by norm_num) hε
  have h2 : |Real.log v| * M.u ≤ 17 / 10 * M.u := mul_le_mul_of_nonneg_right hX hu0
  nlinarith

/-! ## 5. the corollaries, in the words of the property -/

/-- `v ∈ [1/5, 5]` has `|ln v| ≤ 1.7` (`e^{1.7} ≥ P4(1.7) > 5`) -/
theorem abs_log_le_of_mem {v : ℝ} (h1 : 1 / 5 ≤ v) (h2 : v ≤ 5) : |Real.log v| ≤ 17 / 10 := by
  have hv : 0 < v := by linarith
  have h5 : (5 : ℝ) ≤ Real.exp (17 / 10) := by
    refine le_trans ?_ (P4_le_exp (x := 17 / 10) (by norm_num))
    simp only [P4]; norm_num
  have hl5 : Real.log 5 ≤ 17 / 10 := by
    rw [← Real.log_exp (17 / 10)]
    exact Real.log_le_log (by norm_num) h5
  rw [abs_le]
  constructor
  · have : Real.log (1 / 5) ≤ Real.log v := Real.log_le_log (by norm_num) h1
    rw [one_div, Real.log_inv] at this
    linarith
  · exact (Real.log_le_log hv h2).trans hl5

/-- **accuracy does not degrade as `v → 1`**: on `v ∈ [1/5, 5]` (series branch) the error of the rounded run is
at most `10⁻¹³` times the sum of the magnitudes — ten times better than the tolerance of C10, uniformly up
to and including `v = 1` -/
theorem evaluate_near_one (hu : M.u ≤ (2 : ℝ) ^ (-53 : ℤ)) (q : IntOfLogPoly4 ℝ) {v : ℝ} (h1 : 1 / 5 ≤ v)
    (h2 : v ≤ 5) :
    |evalRounded M q v - PP.Props.C10.ideal q v| ≤ 1 / 10 ^ 13 * Mag q v := by
  have hv : 0 < v := by linarith
  refine (evaluate_rounding_series M hu q hv (abs_log_le_of_mem h1 h2)).trans
    (mul_le_mul_of_nonneg_right ?_ (Mag_nonneg q hv))
  have : M.u ≤ 12 / 10 ^ 17 := hu.trans (by norm_num)
  norm_num at this ⊢
  linarith

/-- **value at `v = 1`**: the rounded run returns `rnd k` (`ln 1 = 0`, `rnd 0 = 0`, every product with `x̂ = 0`
vanishes and the last `fma` is `rnd (1·0 + k)`) … -/
theorem evaluate_at_one (q : IntOfLogPoly4 ℝ) : evalRounded M q 1 = M.rnd q.k := by
  simp only [evalRounded, Evaluate.evaluate, inst_Evaluate_IntOfLogPoly4.evaluate, PMul.mul, PNeg.neg,
    FloatLike.fma, FloatLike.mul, FloatLike.neg, FloatLike.ofDec, FloatLike.ln, Transc.ln, Real.log_one,
    M.rnd_zero, neg_zero, mul_zero, zero_mul, add_zero, zero_add, Int.cast_zero]

/-- … hence **exactly `k`** when `k` is a floating-point number (a fixed point of `rnd`; in the Rust code `k`
is an `f64`) -/
theorem evaluate_at_one_exact (q : IntOfLogPoly4 ℝ) (hk : M.rnd q.k = q.k) : evalRounded M q 1 = q.k := by
  rw [evaluate_at_one, hk]

/-- … and within `u·|k|` of `k` in any case -/
theorem evaluate_at_one_close (q : IntOfLogPoly4 ℝ) : |evalRounded M q 1 - q.k| ≤ M.u * |q.k| := by
  rw [evaluate_at_one]; exact M.h _

/-- **no jump, computed factor**: for any two arguments (in particular on the two sides of a switch point)
the computed factors differ by at most the variation of the continuous function `R` plus the two error
bounds -/
theorem no_jump_factor (hu : M.u ≤ (2 : ℝ) ^ (-53 : ℤ)) {x x' : ℝ} (hx : |x| * M.u ≤ 1 / 1000)
    (hx' : |x'| * M.u ≤ 1 / 1000) :
    |(exp_5_taylor (⟨x⟩ : Rounded M)).val - (exp_5_taylor (⟨x'⟩ : Rounded M)).val|
      ≤ |R x - R x'| + ((1273 + 201 / 100 * |x|) * M.u + 6 / 10 ^ 14) * R x
        + ((1273 + 201 / 100 * |x'|) * M.u + 6 / 10 ^ 14) * R x' := by
  have h1 := exp_5_taylor_rounding M hu hx
  have h2 := exp_5_taylor_rounding M hu hx'
  rw [abs_sub_comm] at h2
  calc _ = |((exp_5_taylor (⟨x⟩ : Rounded M)).val - R x) + (R x - R x')
          + (R x' - (exp_5_taylor (⟨x'⟩ : Rounded M)).val)| := by ring_nf
    _ ≤ _ + _ + _ := abs_add_three _ _ _
    _ ≤ _ := by linarith

/-- **no jump at the switch points**: around `−1.71` and `1.72` (any `|x|, |x'| ≤ 2`) the computed factor
follows the continuous `R` up to `(1278·u + 6·10⁻¹⁴)·(R x + R x') ≈ 2·(2·10⁻¹³·R)` -/
theorem no_jump_switch (hu : M.u ≤ (2 : ℝ) ^ (-53 : ℤ)) {x x' : ℝ} (hx : |x| ≤ 2) (hx' : |x'| ≤ 2) :
    |(exp_5_taylor (⟨x⟩ : Rounded M)).val - (exp_5_taylor (⟨x'⟩ : Rounded M)).val|
      ≤ |R x - R x'| + (1278 * M.u + 6 / 10 ^ 14) * (R x + R x') := by
  have hu0 := M.hu
  have hu15 := u_small M hu
  have h := no_jump_factor M hu (x := x) (x' := x') (by nlinarith [abs_nonneg x]) (by nlinarith [abs_nonneg x'])
  have hR := R_nonneg x
  have hR' := R_nonneg x'
  have e1 : ((1273 + 201 / 100 * |x|) * M.u + 6 / 10 ^ 14) * R x ≤ (1278 * M.u + 6 / 10 ^ 14) * R x :=
    mul_le_mul_of_nonneg_right (by nlinarith) hR
  have e2 : ((1273 + 201 / 100 * |x'|) * M.u + 6 / 10 ^ 14) * R x' ≤ (1278 * M.u + 6 / 10 ^ 14) * R x' :=
    mul_le_mul_of_nonneg_right (by nlinarith) hR'
  linarith

/-- **no jump, whole evaluation**: the rounded values at two arguments differ by at most the variation of the
ideal (continuous) value plus `10⁻¹²` times the two sums of magnitudes — whichever branches are taken -/
theorem no_jump_evaluate (hu : M.u ≤ (2 : ℝ) ^ (-53 : ℤ)) (q : IntOfLogPoly4 ℝ) {v v' : ℝ} (hv : 0 < v)
    (hv' : 0 < v') (hX : |Real.log v| ≤ 1000) (hX' : |Real.log v'| ≤ 1000) :
    |evalRounded M q v - evalRounded M q v'|
      ≤ |PP.Props.C10.ideal q v - PP.Props.C10.ideal q v'| + 1 / 10 ^ 12 * (Mag q v + Mag q v') := by
  have h1 := evaluate_rounding M hu q hv hX
  have h2 := evaluate_rounding M hu q hv' hX'
  rw [abs_sub_comm] at h2
  calc _ = |(evalRounded M q v - PP.Props.C10.ideal q v) + (PP.Props.C10.ideal q v - PP.Props.C10.ideal q v')
          + (PP.Props.C10.ideal q v' - evalRounded M q v')| := by ring_nf
    _ ≤ _ + _ + _ := abs_add_three _ _ _
    _ ≤ _ := by linarith

/-! ## 6. non-vacuity: the hypotheses are satisfiable in models that really round -/
section examples

/-- every operation (including `ln`, `exp` and the literals) errs by the full relative `2⁻⁵³` -/
noncomputable def M53 : RModel ℝ :=
  RModel.inflate (2 ^ (-53 : ℤ)) (by positivity) (by norm_num)

theorem M53_u : M53.u ≤ (2 : ℝ) ^ (-53 : ℤ) := le_refl _

open Classical in
/-- integers are representable (fixed), every other real is inflated by `1 + 2⁻⁵³` -/
noncomputable def intFixR : RModel ℝ where
  rnd := fun t => if t ∈ Set.range ((↑) : ℤ → ℝ) then t else t * (1 + 2 ^ (-53 : ℤ))
  u := 2 ^ (-53 : ℤ)
  hu := by positivity
  hu1 := by norm_num
  h := fun t => by
    split
    · simp
    · have : t * (1 + 2 ^ (-53 : ℤ)) - t = 2 ^ (-53 : ℤ) * t := by ring
      rw [this, abs_mul, abs_of_nonneg (by positivity)]
  rnd_neg := fun t => by
    have : -t ∈ Set.range ((↑) : ℤ → ℝ) ↔ t ∈ Set.range ((↑) : ℤ → ℝ) := by
      constructor
      · rintro ⟨n, hn⟩; exact ⟨-n, by push_cast; linarith⟩
      · rintro ⟨n, hn⟩; exact ⟨-n, by push_cast; linarith⟩
    simp only [this]
    split <;> ring

example : |(exp_5_tail_taylor (⟨1 / 2⟩ : Rounded M53)).val - S16 (1 / 2)|
    ≤ (19 + 1 / 1000) * M53.u * S16 |1 / 2| := tail_taylor_rounding M53 M53_u _
example : |(1 / 2 : ℝ)| ≤ 7 / 4 := by rw [abs_of_pos] <;> norm_num
example : |(exp_5_tail_taylor (⟨1 / 2⟩ : Rounded M53)).val - R (1 / 2)|
    ≤ (38 * M53.u + 6 / 10 ^ 14) * R (1 / 2) :=
  tail_taylor_rounding_R M53 M53_u (by rw [abs_of_pos] <;> norm_num)
example : (17 / 10 : ℝ) ≤ 2 ∧ (2 : ℝ) * M53.u ≤ 1 / 1000 := by
  refine ⟨by norm_num, ?_⟩
  show (2 : ℝ) * 2 ^ (-53 : ℤ) ≤ 1 / 1000
  norm_num
example : (-2 : ℝ) ≤ -(17 / 10) ∧ |(-2 : ℝ)| * M53.u ≤ 1 / 1000 := by
  refine ⟨by norm_num, ?_⟩
  show |(-2 : ℝ)| * 2 ^ (-53 : ℤ) ≤ 1 / 1000
  rw [abs_neg, abs_of_pos (by norm_num : (0 : ℝ) < 2)]; norm_num
example : |(exp_5_taylor (⟨3⟩ : Rounded M53)).val - R 3|
    ≤ ((1273 + 201 / 100 * |3|) * M53.u + 6 / 10 ^ 14) * R 3 :=
  exp_5_taylor_rounding M53 M53_u (by
    show |(3 : ℝ)| * 2 ^ (-53 : ℤ) ≤ 1 / 1000
    rw [abs_of_pos (by norm_num : (0 : ℝ) < 3)]; norm_num)

theorem abs_log_two_le : |Real.log 2| ≤ 17 / 10 := abs_log_le_of_mem (by norm_num) (by norm_num)

/-- `v = 2` (`X = −ln 2 ≈ −0.69`, series branch), in a model that rounds every operation -/
example : |evalRounded M53 ⟨1, ⟨2, 3, 4, 5⟩, 6⟩ 2 - PP.Props.C10.ideal ⟨1, ⟨2, 3, 4, 5⟩, 6⟩ 2|
    ≤ 1 / 10 ^ 12 * Mag ⟨1, ⟨2, 3, 4, 5⟩, 6⟩ 2 :=
  evaluate_rounding M53 M53_u _ (by norm_num) (abs_log_two_le.trans (by norm_num))

/-- `v = e⁻³` (`X = 3`, closed-form branch) -/
example : |evalRounded M53 ⟨1, ⟨2, 3, 4, 5⟩, 6⟩ (Real.exp (-3))
      - PP.Props.C10.ideal ⟨1, ⟨2, 3, 4, 5⟩, 6⟩ (Real.exp (-3))|
    ≤ 1 / 10 ^ 12 * Mag ⟨1, ⟨2, 3, 4, 5⟩, 6⟩ (Real.exp (-3)) :=
  evaluate_rounding M53 M53_u _ (Real.exp_pos _) (by
    rw [Real.log_exp, abs_neg, abs_of_pos (by norm_num : (0 : ℝ) < 3)]; norm_num)

example : |evalRounded M53 ⟨1, ⟨2, 3, 4, 5⟩, 6⟩ 2 - PP.Props.C10.ideal ⟨1, ⟨2, 3, 4, 5⟩, 6⟩ 2|
    ≤ 1 / 10 ^ 13 * Mag ⟨1, ⟨2, 3, 4, 5⟩, 6⟩ 2 :=
  evaluate_near_one M53 M53_u _ (by norm_num) (by norm_num)

example : |evalRounded M53 ⟨1, ⟨2, 3, 4, 5⟩, 6⟩ 2 - PP.Props.C10.ideal ⟨1, ⟨2, 3, 4, 5⟩, 6⟩ 2|
    ≤ ((1286 + 302 / 100 * |Real.log 2|) * M53.u + 6 / 10 ^ 14) * Mag ⟨1, ⟨2, 3, 4, 5⟩, 6⟩ 2 :=
  evaluate_rounding_lin M53 M53_u _ (by norm_num) (abs_log_two_le.trans (by norm_num))
example : |evalRounded M53 ⟨1, ⟨2, 3, 4, 5⟩, 6⟩ 2 - PP.Props.C10.ideal ⟨1, ⟨2, 3, 4, 5⟩, 6⟩ 2|
    ≤ (52 * M53.u + 6 / 10 ^ 14) * Mag ⟨1, ⟨2, 3, 4, 5⟩, 6⟩ 2 :=
  evaluate_rounding_series M53 M53_u _ (by norm_num) abs_log_two_le
/-- the two sides of the upper switch point -/
example : |(exp_5_taylor (⟨171 / 100⟩ : Rounded M53)).val - (exp_5_taylor (⟨173 / 100⟩ : Rounded M53)).val|
    ≤ |R (171 / 100) - R (173 / 100)| + (1278 * M53.u + 6 / 10 ^ 14) * (R (171 / 100) + R (173 / 100)) :=
  no_jump_switch M53 M53_u (by rw [abs_of_pos] <;> norm_num) (by rw [abs_of_pos] <;> norm_num)
example : |evalRounded M53 ⟨1, ⟨2, 3, 4, 5⟩, 6⟩ 2 - evalRounded M53 ⟨1, ⟨2, 3, 4, 5⟩, 6⟩ (Real.exp (-3))|
    ≤ |PP.Props.C10.ideal ⟨1, ⟨2, 3, 4, 5⟩, 6⟩ 2 - PP.Props.C10.ideal ⟨1, ⟨2, 3, 4, 5⟩, 6⟩ (Real.exp (-3))|
      + 1 / 10 ^ 12 * (Mag ⟨1, ⟨2, 3, 4, 5⟩, 6⟩ 2 + Mag ⟨1, ⟨2, 3, 4, 5⟩, 6⟩ (Real.exp (-3))) :=
  no_jump_evaluate M53 M53_u _ (by norm_num) (Real.exp_pos _) (abs_log_two_le.trans (by norm_num)) (by
    rw [Real.log_exp, abs_neg, abs_of_pos (by norm_num : (0 : ℝ) < 3)]; norm_num)

open Classical in
theorem intFixR_int (n : ℤ) : intFixR.rnd (n : ℝ) = n := by
  show (if ((n : ℝ)) ∈ Set.range ((↑) : ℤ → ℝ) then (n : ℝ) else n * (1 + 2 ^ (-53 : ℤ))) = n
  rw [if_pos ⟨n, rfl⟩]

open Classical in
theorem intFixR_of_not_int {t : ℝ} (h : t ∉ Set.range ((↑) : ℤ → ℝ)) :
    intFixR.rnd t = t * (1 + 2 ^ (-53 : ℤ)) := by
  show (if t ∈ Set.range ((↑) : ℤ → ℝ) then t else t * (1 + 2 ^ (-53 : ℤ))) = _
  rw [if_neg h]

/-- the hypothesis `rnd k = k` of `evaluate_at_one_exact` holds for `k = 7` in a model that is not the identity -/
example : evalRounded intFixR ⟨7, ⟨2, 3, 4, 5⟩, 6⟩ 1 = 7 :=
  evaluate_at_one_exact intFixR _ (by simpa using intFixR_int 7)
example : intFixR.rnd (1 / 2) ≠ 1 / 2 := by
  have : (1 / 2 : ℝ) ∉ Set.range ((↑) : ℤ → ℝ) := by
    rintro ⟨n, hn⟩
    have h2 : ((2 * n : ℤ) : ℝ) = ((1 : ℤ) : ℝ) := by push_cast; linarith
    have := Int.cast_injective h2
    omega
  rw [intFixR_of_not_int this]; norm_num

end examples

end PP.Props.C10Bound
