import PP.Sem.Exact
import PP.Model.LogPoly.EvaluateAttr
import PP.Lemmas.ExpTail
import Mathlib.Analysis.SpecialFunctions.Log.Basic
/-!
# C10 — the quartic log-integral form `IntOfLogPoly4` (exact-arithmetic part)

Full statement (C10, verbatim):

> The quartic log-integral form (k, c1..c4, u) evaluates for every v>0, with x=-ln v, to
> k + v*sum_{j=1..4} c_j x^j + u*v*x^5*R(x), where R(x)=sum_{m>=0} x^m/(m+5)! =
> (e^x - sum_{j<5} x^j/j!)/x^5, with error at most 1e-12 times the sum of the magnitudes of those
> terms.  In particular accuracy does not degrade as v approaches 1, the value at v=1 is exactly k,
> and there is no jump where the implementation switches between series and closed form.

The binary64 rounding of the closed-form branch and of libm's `exp`/`ln` is not provable here (it is
covered by the numerical search).  What *is* proved, over ℝ with `ln = Real.log`, `exp = Real.exp`
and every arithmetic operation exact (interpretation `exactFL ℝ`):

* `eval_identity`, `branch`, `tail_taylor_eq`, `tail_anal_eq`, `tail_anal_zero` : what the code computes;
* `E_abs_err`, `E_rel_err`, `no_jump*` : the series branch differs from `R` by ≤ 2|x|¹⁶/21! ≤ 2.3e-16
  (≤ 1e-13·R(x)), the closed-form branch *is* `R`, hence the computed factor is everywhere within
  2.3e-16 of the continuous function `R` (no jump at −1.71 / 1.72);
* `eval_one` : value at `v = 1` is exactly `k`;
* `eval_abs_err`, `eval_err_near_one`, `C10_exact_partial` : the whole evaluation, the last one in the
  "1e-12 × sum of magnitudes" form of C10 (with the stronger constant 1e-13).

`R`, `S16` and the analytic lemmas are in `PP/Lemmas/ExpTail.lean` (`hasSum_R` shows that `R` is the
sum of the series `Σ x^m/(m+5)!`).

Statement found false as posed (task item 5, last sentence): a uniform `2.3e-16` bound on
`|tail_taylor x − tail_anal x|` for all `0 < |x| ≤ 2` fails — `no_jump_two_counterexample` shows the
gap at `x = 2` exceeds `1.2e-15`.  True versions: `no_jump` (`2|x|¹⁶/21!` for `0 < |x| ≤ 11`),
`no_jump_172` (`2.3e-16` for `0 < |x| ≤ 1.72`, which contains both switch points),
`no_jump_two` (`2.6e-15` for `0 < |x| ≤ 2`).
-/
set_option linter.unusedSectionVars false
namespace PP.Props.C10
open PP.Lemmas.ExpTail LogPoly.taylor

noncomputable local instance : Transc ℝ := ⟨Real.log, Real.exp⟩
attribute [local instance] exactFL

/-! ## 1. what `evaluate` computes -/

/-- **evaluation identity** (all `v`, no hypothesis): the Estrin scheme of `evaluate` is
`k + v·(c₁x + c₂x² + c₃x³ + c₄x⁴ + u·E(x)·x⁵)` with `x = −ln v`, `E = taylor::exp_5_taylor`. -/
theorem eval_identity (q : IntOfLogPoly4 ℝ) (v : ℝ) :
    Evaluate.evaluate q v =
      let x := -Real.log v
      q.k + v * (q.coeffs.a0 * x + q.coeffs.a1 * x ^ 2 + q.coeffs.a2 * x ^ 3 + q.coeffs.a3 * x ^ 4
        + q.u * exp_5_taylor x * x ^ 5) := by
  simp only [Evaluate.evaluate, inst_Evaluate_IntOfLogPoly4.evaluate, PMul.mul, PNeg.neg,
    FloatLike.fma, FloatLike.mul, FloatLike.neg, FloatLike.ofDec, FloatLike.ln, Transc.ln,
    Int.cast_zero, zero_mul]
  ring

/-! ## 2. the branch -/

/-- the literal `LOWER_THRES = -1.71` -/
theorem lower_thres : (PNeg.neg (FloatLike.ofDec 171 (-2) : ℝ) : ℝ) = -(171 / 100) := by
  simp only [PNeg.neg, FloatLike.neg, FloatLike.ofDec]; norm_num

/-- the literal `UPPER_THRES = 1.72` -/
theorem upper_thres : (FloatLike.ofDec 172 (-2) : ℝ) = 172 / 100 := by
  simp only [FloatLike.ofDec]; norm_num

/-- **branch characterisation**: series iff `−1.71 < x < 1.72`, closed form otherwise -/
theorem branch (x : ℝ) :
    exp_5_taylor x =
      if -(171 / 100) < x ∧ x < 172 / 100 then exp_5_tail_taylor x else exp_5_tail_anal x := by
  unfold exp_5_taylor
  simp only [lower_thres, upper_thres, FloatLike.lt, Bool.and_eq_true, decide_eq_true_eq]

/-! ## 3. the series branch -/

/-- **series branch** `= Σ_{m<16} x^m/(m+5)!` (`S16`; all sixteen literal denominators
`120 = 5!, …, 2432902008176640000 = 20!` are checked here against `Nat.factorial`, see `S16_eq`) -/
theorem tail_taylor_eq (x : ℝ) :
    exp_5_tail_taylor x = ∑ m ∈ Finset.range 16, x ^ m / ((m + 5).factorial : ℝ) := by
  change _ = S16 x
  rw [S16_eq]
  exact_simp
  norm_num
  ring

/-! ## 4. the closed-form branch -/

/-- **closed-form branch**: for `x ≠ 0`, `(eˣ − (1 + x + x²/2 + x³/6 + x⁴/24))/x⁵`
(the code's `x.recip().recip().exp()` is `exp x` because `1/(1/x) = x`) -/
theorem tail_anal_eq {x : ℝ} (hx : x ≠ 0) :
    exp_5_tail_anal x = (Real.exp x - (1 + x + x ^ 2 / 2 + x ^ 3 / 6 + x ^ 4 / 24)) / x ^ 5 := by
  exact_simp
  simp only [Transc.exp, one_div, inv_inv]
  field_simp
  ring

example : (2 : ℝ) ≠ 0 := by norm_num

/-- at `x = 0` the exact-field reading (Lean's `1/0 = 0`) gives `0`, *not* the limit `1/120`:
the closed form has a removable singularity which the code does not remove (in binary64 it returns
NaN: `0·∞`).  Harmless, because `branch` never selects the closed form at `x = 0`. -/
theorem tail_anal_zero : exp_5_tail_anal (0 : ℝ) = 0 := by
  exact_simp
  simp

theorem tail_anal_eq_R {x : ℝ} (hx : x ≠ 0) : exp_5_tail_anal x = R x := by
  rw [tail_anal_eq hx, R_of_ne hx, P4]

/-- the computed factor, in terms of the mathematical objects -/
theorem E_eq (x : ℝ) :
    exp_5_taylor x = if -(171 / 100) < x ∧ x < 172 / 100 then S16 x else R x := by
  rw [branch]
  split_ifs with h
  · exact tail_taylor_eq x
  · refine tail_anal_eq_R ?_
    rintro rfl
    exact h ⟨by norm_num, by norm_num⟩

/-! ## 5. truncation error and "no jump" -/

/-- **no jump, general form**: wherever both branches are defined and `|x| ≤ 11` they agree to
`2|x|¹⁶/21!` -/
theorem no_jump {x : ℝ} (h0 : x ≠ 0) (hx : |x| ≤ 11) :
    |exp_5_tail_taylor x - exp_5_tail_anal x| ≤ 2 * |x| ^ 16 / 51090942171709440000 := by
  rw [tail_taylor_eq, tail_anal_eq_R h0, abs_sub_comm]
  exact abs_R_sub_S16_le hx

example : (172 / 100 : ℝ) ≠ 0 ∧ |(172 / 100 : ℝ)| ≤ 11 := by norm_num [abs_of_pos]

/-- **no jump at the switch points**: on `0 < |x| ≤ 1.72` (contains `−1.71` and `1.72`) the two
branches agree to `2.3e-16` -/
theorem no_jump_172 {x : ℝ} (h0 : x ≠ 0) (hx : |x| ≤ 172 / 100) :
    |exp_5_tail_taylor x - exp_5_tail_anal x| ≤ 23 / 10 ^ 17 := by
  rw [tail_taylor_eq, tail_anal_eq_R h0, abs_sub_comm]
  exact abs_R_sub_S16_le_of_abs_le hx

example : (-(171 / 100) : ℝ) ≠ 0 ∧ |(-(171 / 100) : ℝ)| ≤ 172 / 100 := by
  norm_num [abs_of_pos]

/-- on `0 < |x| ≤ 2` the agreement is `2.6e-15` … -/
theorem no_jump_two {x : ℝ} (h0 : x ≠ 0) (hx : |x| ≤ 2) :
    |exp_5_tail_taylor x - exp_5_tail_anal x| ≤ 26 / 10 ^ 16 := by
  rw [tail_taylor_eq, tail_anal_eq_R h0, abs_sub_comm]
  exact abs_R_sub_S16_le_of_abs_le_two hx

/-- … and **not** `2.3e-16`: at `x = 2` the two branches differ by more than `1.2e-15` -/
theorem no_jump_two_counterexample :
    12 / 10 ^ 16 < |exp_5_tail_taylor (2 : ℝ) - exp_5_tail_anal 2| := by
  rw [tail_taylor_eq, tail_anal_eq_R (by norm_num), abs_sub_comm]
  exact lt_of_lt_of_le R_sub_S16_two_gt (le_abs_self _)

/-- the computed factor is everywhere within `2|x|¹⁶/21!` of `R` (and equal to it off the series
interval) -/
theorem E_err (x : ℝ) : |exp_5_taylor x - R x| ≤ 2 * |x| ^ 16 / 51090942171709440000 := by
  rw [E_eq]
  split_ifs with h
  · rw [abs_sub_comm]
    exact abs_R_sub_S16_le (by
      have : |x| ≤ 172 / 100 := abs_le.2 ⟨by linarith [h.1], h.2.le⟩
      linarith)
  · rw [sub_self, abs_zero]; positivity

/-- **absolute truncation error**: for every `x`, the computed factor is within `2.3e-16` of the
continuous function `R` — so there is no jump larger than that anywhere (`continuousAt_R`) -/
theorem E_abs_err (x : ℝ) : |exp_5_taylor x - R x| ≤ 23 / 10 ^ 17 := by
  rw [E_eq]
  split_ifs with h
  · rw [abs_sub_comm]
    exact abs_R_sub_S16_le_of_abs_le (abs_le.2 ⟨by linarith [h.1], h.2.le⟩)
  · rw [sub_self, abs_zero]; norm_num

/-- **relative truncation error** `≤ 1e-13` for every `x` -/
theorem E_rel_err (x : ℝ) : |exp_5_taylor x - R x| ≤ 1 / 10 ^ 13 * |R x| := by
  rw [E_eq]
  split_ifs with h
  · rw [abs_sub_comm]
    have hx : |x| ≤ 172 / 100 := abs_le.2 ⟨by linarith [h.1], h.2.le⟩
    have hR : 0 < R x := lt_of_lt_of_le (by norm_num) (R_ge_of_abs_le hx)
    rw [abs_of_pos hR]
    exact abs_R_sub_S16_le_rel hx
  · rw [sub_self, abs_zero]; positivity

/-- the jump of the computed factor across each switch point is at most `2.3e-16`: at the switch
point itself the closed form (`= R`) is used, and `R` is continuous there -/
theorem E_at_thresholds :
    exp_5_taylor (-(171 / 100) : ℝ) = R (-(171 / 100)) ∧ exp_5_taylor (172 / 100 : ℝ) = R (172 / 100)
      ∧ ContinuousAt R (-(171 / 100)) ∧ ContinuousAt R (172 / 100) := by
  refine ⟨?_, ?_, continuousAt_R (by norm_num), continuousAt_R (by norm_num)⟩
  · rw [E_eq, if_neg (by norm_num)]
  · rw [E_eq, if_neg (by norm_num)]

/-! ## 6. value at `v = 1` -/

/-- **value at 1 is exactly `k`** -/
theorem eval_one (q : IntOfLogPoly4 ℝ) : Evaluate.evaluate q 1 = q.k := by
  rw [eval_identity]
  simp

/-- the series branch is the one taken at `v = 1`, with value `1/120` -/
theorem branch_at_one : exp_5_taylor (-Real.log 1) = 1 / 120 := by
  rw [Real.log_one, neg_zero, branch, if_pos ⟨by norm_num, by norm_num⟩, tail_taylor_eq]
  change S16 0 = _
  rw [S16_eq]; norm_num

/-! ## 7. the whole evaluation -/

/-- the exact value the implementation approximates:
`k + v·Σ_{j=1..4} c_j x^j + u·v·x⁵·R(x)`, `x = −ln v` -/
noncomputable def ideal (q : IntOfLogPoly4 ℝ) (v : ℝ) : ℝ :=
  let x := -Real.log v
  q.k + v * (q.coeffs.a0 * x + q.coeffs.a1 * x ^ 2 + q.coeffs.a2 * x ^ 3 + q.coeffs.a3 * x ^ 4)
    + q.u * v * x ^ 5 * R x

theorem eval_sub_ideal (q : IntOfLogPoly4 ℝ) (v : ℝ) :
    Evaluate.evaluate q v - ideal q v =
      q.u * v * (-Real.log v) ^ 5 * (exp_5_taylor (-Real.log v) - R (-Real.log v)) := by
  rw [eval_identity, ideal]; ring

/-- outside the series interval the exact reading of the code is the ideal value -/
theorem eval_eq_ideal_of_not_mem (q : IntOfLogPoly4 ℝ) {v : ℝ}
    (h : ¬ (-(171 / 100) < -Real.log v ∧ -Real.log v < 172 / 100)) :
    Evaluate.evaluate q v = ideal q v := by
  rw [← sub_eq_zero, eval_sub_ideal, E_eq, if_neg h, sub_self, mul_zero]

example : ¬ (-(171 / 100) < -Real.log (Real.exp 3) ∧ -Real.log (Real.exp 3) < 172 / 100) := by
  rw [Real.log_exp]; norm_num

/-- **absolute error of the exact reading**, every `v > 0` -/
theorem eval_abs_err (q : IntOfLogPoly4 ℝ) {v : ℝ} (hv : 0 < v) :
    |Evaluate.evaluate q v - ideal q v| ≤ 23 / 10 ^ 17 * |q.u| * v * |Real.log v| ^ 5 := by
  rw [eval_sub_ideal, abs_mul, abs_mul, abs_mul, abs_pow, abs_neg, abs_of_pos hv]
  have := E_abs_err (-Real.log v)
  calc |q.u| * v * |Real.log v| ^ 5 * |exp_5_taylor (-Real.log v) - R (-Real.log v)|
      ≤ |q.u| * v * |Real.log v| ^ 5 * (23 / 10 ^ 17) := by gcongr
    _ = _ := by ring

example : (0 : ℝ) < 2 := by norm_num

/-- **accuracy does not degrade as `v → 1`**: the error of the exact reading vanishes like
`|ln v|²¹` -/
theorem eval_err_near_one (q : IntOfLogPoly4 ℝ) {v : ℝ} (hv : 0 < v) :
    |Evaluate.evaluate q v - ideal q v|
      ≤ 2 * |q.u| * v * |Real.log v| ^ 21 / 51090942171709440000 := by
  rw [eval_sub_ideal, abs_mul, abs_mul, abs_mul, abs_pow, abs_neg, abs_of_pos hv]
  have := E_err (-Real.log v)
  rw [abs_neg] at this
  calc |q.u| * v * |Real.log v| ^ 5 * |exp_5_taylor (-Real.log v) - R (-Real.log v)|
      ≤ |q.u| * v * |Real.log v| ^ 5 * (2 * |Real.log v| ^ 16 / 51090942171709440000) := by gcongr
    _ = _ := by ring

/-- **C10, exact-arithmetic reading** (rounding of the arithmetic and of libm excluded): for every
`v > 0` the value differs from `k + v Σ c_j x^j + u v x⁵ R(x)` by at most `1e-13` times the
magnitude of the last term, a fortiori by `1e-12` times the sum of the magnitudes of all terms.
(No hypothesis is needed: for `v ≤ 0` the statement is about Mathlib's total `Real.log`.) -/
theorem C10_exact_partial (q : IntOfLogPoly4 ℝ) (v : ℝ) :
    let x := -Real.log v
    |Evaluate.evaluate q v - ideal q v| ≤ 1 / 10 ^ 13 * |q.u * v * x ^ 5 * R x| ∧
    |Evaluate.evaluate q v - ideal q v| ≤ 1 / 10 ^ 12 *
      (|q.k| + |v * (q.coeffs.a0 * x)| + |v * (q.coeffs.a1 * x ^ 2)| + |v * (q.coeffs.a2 * x ^ 3)|
        + |v * (q.coeffs.a3 * x ^ 4)| + |q.u * v * x ^ 5 * R x|) := by
  intro x
  have h1 : |Evaluate.evaluate q v - ideal q v| ≤ 1 / 10 ^ 13 * |q.u * v * x ^ 5 * R x| := by
    rw [eval_sub_ideal, abs_mul, abs_mul (q.u * v * x ^ 5)]
    have := E_rel_err x
    calc |q.u * v * x ^ 5| * |exp_5_taylor x - R x|
        ≤ |q.u * v * x ^ 5| * (1 / 10 ^ 13 * |R x|) := by gcongr
      _ = _ := by ring
  refine ⟨h1, h1.trans ?_⟩
  have h0 := abs_nonneg q.k
  have h2 := abs_nonneg (v * (q.coeffs.a0 * x))
  have h3 := abs_nonneg (v * (q.coeffs.a1 * x ^ 2))
  have h4 := abs_nonneg (v * (q.coeffs.a2 * x ^ 3))
  have h5 := abs_nonneg (v * (q.coeffs.a3 * x ^ 4))
  have h6 := abs_nonneg (q.u * v * x ^ 5 * R x)
  calc 1 / 10 ^ 13 * |q.u * v * x ^ 5 * R x|
      ≤ 1 / 10 ^ 12 * |q.u * v * x ^ 5 * R x| :=
        mul_le_mul_of_nonneg_right (by norm_num) h6
    _ ≤ _ := mul_le_mul_of_nonneg_left (by linarith) (by norm_num)

/-- non-vacuity: a concrete form and argument (`v = 2`, `x = −ln 2 ≈ −0.69`, series branch) -/
example : (0 : ℝ) < 2 ∧ Evaluate.evaluate (⟨1, ⟨2, 3, 4, 5⟩, 6⟩ : IntOfLogPoly4 ℝ) 1 = 1 :=
  ⟨by norm_num, eval_one _⟩

end PP.Props.C10
