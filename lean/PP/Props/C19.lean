import PP.Hand.Arbitrary
import PP.Props.C03
import PP.Props.C12
/-!
# C19 — `Arbitrary`-generated piecewise functions are always well-formed

Model: `Hand.Arb.arbitraryPw` (byte-level model of the `arbitrary` crate's decoding + the impl at
piecewise.rs:194-212), tied to the real code by campaign `arbitrary`.  For EVERY byte string and every
piece decoder: the result is an error, or a function with ≥ 1 segment, all ends normal floats,
non-decreasing — never a panic (the model is total; `partial_cmp().unwrap()` is only reached on normal,
hence non-NaN, values).  Such a value satisfies `C02.WF`, so C02 / C03 / C12 apply to it: direct
evaluation, the stateful evaluator and `evaluate_v` all succeed and choose the same segment.
-/
set_option linter.unusedSectionVars false
namespace PP.Props.C19
open Hand Hand.Arb

variable {T : Type}

theorem pieces_ends (d : PieceDec T) : ∀ (es : List F64) (bs : Bytes), (pieces d es bs).1.map (·.end) = es
  | [], _ => rfl
  | e :: es, bs => by simp only [pieces, List.map_cons, pieces_ends d es]

theorem keyLe_trans (a b c : F64) : keyLe a b = true → keyLe b c = true → keyLe a c = true := by
  simp only [keyLe, decide_eq_true_eq]; omega
theorem keyLe_total (a b : F64) : (keyLe a b || keyLe b a) = true := by
  simp only [keyLe, Bool.or_eq_true, decide_eq_true_eq]; omega

/-- a normal float is not NaN: the `unwrap` in the comparison closure cannot fail -/
theorem normal_not_nan (x : F64) (h : isNormal x = true) : x.isNaN = false := by
  cases x <;> simp_all [isNormal, F64.isNaN]

/-- **C19.** For every byte string: an error, or a well-formed function. -/
theorem arbitrary_wf (d : PieceDec T) (bs : Bytes) :
    arbitraryPw d bs = none ∨
    ∃ pw, arbitraryPw d bs = some pw ∧ pw.segments ≠ [] ∧
      (∀ s ∈ pw.segments, isNormal s.end = true) ∧
      pw.segments.Pairwise (fun a b => F64.key a.end ≤ F64.key b.end) := by
  unfold arbitraryPw
  by_cases h : ((arbVecF64 bs).1.isEmpty || !((arbVecF64 bs).1.all isNormal)) = true
  · left; simp only [h, if_true]
  · right
    simp only [h, Bool.false_eq_true, if_false]
    have h' : (arbVecF64 bs).1.isEmpty = false ∧ (arbVecF64 bs).1.all isNormal = true := by
      simpa [Bool.or_eq_true] using h
    refine ⟨_, rfl, ?_, ?_, ?_⟩
    · intro hnil
      have := congrArg (List.map (·.end)) hnil
      simp only [pieces_ends, List.map_nil] at this
      have hp := (List.mergeSort_perm (arbVecF64 bs).1 keyLe).length_eq
      rw [this] at hp
      have : (arbVecF64 bs).1 = [] := List.eq_nil_of_length_eq_zero hp.symm
      simp [this] at h'
    · intro s hs
      have hm : s.end ∈ (pieces d ((arbVecF64 bs).1.mergeSort keyLe) (arbVecF64 bs).2).1.map (·.end) :=
        List.mem_map_of_mem hs
      rw [pieces_ends] at hm
      have := (List.mergeSort_perm (arbVecF64 bs).1 keyLe).mem_iff.mp hm
      exact List.all_eq_true.mp h'.2 _ this
    · have hs := List.pairwise_mergeSort keyLe_trans keyLe_total (arbVecF64 bs).1
      rw [← pieces_ends d ((arbVecF64 bs).1.mergeSort keyLe) (arbVecF64 bs).2] at hs
      rw [List.pairwise_map] at hs
      exact hs.imp (by intro a b hab; simpa [keyLe] using hab)

section consequences
variable (ln exp : F64 → F64)

/-- every returned value is well-formed in the sense of C02 (with any libm) … -/
theorem arbitrary_WF (d : PieceDec T) (bs : Bytes) (pw : Piecewise F64 T) (h : arbitraryPw d bs = some pw) :
    @PP.Props.C02.WF F64 T (F64.inst ln exp) (F64.ordLaws ln exp) pw.segments := by
  rcases arbitrary_wf d bs with hn | ⟨pw', hs, h1, h2, h3⟩
  · rw [hn] at h; cases h
  · rw [hs] at h; cases h
    exact @PP.Props.C02.WF.mk F64 T (F64.inst ln exp) (F64.ordLaws ln exp) _ h1
      (fun s hs => normal_not_nan _ (h2 s hs)) h3

/-- … hence can be evaluated directly, through the stateful evaluator and through `evaluate_v` without
panic and with identical segment choice, on every history / non-decreasing argument sequence -/
theorem arbitrary_evaluable (d : PieceDec T) (bs : Bytes) (pw : Piecewise F64 T) (h : arbitraryPw d bs = some pw)
    (ev : @Evaluate T F64) (xs : List F64) :
    (@evaluatorRun F64 T (F64.inst ln exp) ev pw.segments xs).map (fun ys => ys.map some) =
      some (xs.map (@pwEvaluate F64 T (F64.inst ln exp) ev ⟨pw.segments⟩)) :=
  @PP.Props.C03.evaluator_eq_direct F64 T (F64.inst ln exp) (F64.ordLaws ln exp) ev pw.segments
    (arbitrary_WF ln exp d bs pw h) xs

theorem arbitrary_evaluable_v (d : PieceDec T) (bs : Bytes) (pw : Piecewise F64 T) (h : arbitraryPw d bs = some pw)
    (ev : @Evaluate T F64) (xs : List F64) (hxs : ∀ x ∈ xs, x.isNaN = false)
    (hsorted : xs.Pairwise (fun a b => F64.key a ≤ F64.key b)) :
    (@evaluateV F64 T (F64.inst ln exp) ev pw xs).map (fun ys => ys.map some) =
      some (xs.map (@pwEvaluate F64 T (F64.inst ln exp) ev pw)) :=
  @PP.Props.C12.evaluateV_sorted F64 T (F64.inst ln exp) (F64.ordLaws ln exp) ev pw
    (arbitrary_WF ln exp d bs pw h) xs hxs hsorted
end consequences

/-! non-vacuity: a byte string that decodes to two segments, given in descending order, comes back sorted -/
section example_
def leBytes (n : Nat) : List Nat := (List.range 8).map fun i => n / 256 ^ i % 256
def exBytes : Bytes := [1] ++ leBytes 0x4000000000000000 ++ [1] ++ leBytes 0x3FF0000000000000 ++ [0] ++
  leBytes 0x4024000000000000 ++ leBytes 0x4034000000000000
example : (arbitraryPw decPoly0 exBytes).isSome = true := by decide +kernel
example : (arbVecF64 exBytes).1.map F64.toBits = [0x4000000000000000, 0x3FF0000000000000] := by decide +kernel
example : arbitraryPw decPoly0 [] = none := by decide +kernel
example : arbitraryPw decPoly0 ([1] ++ leBytes 0) = none := by decide +kernel
end example_

end PP.Props.C19
