import PP.Props.C17Eq
/-!
# C17 for segments and piecewise functions whose pieces are `PolyN`  (per-piece form)

`PP/Props/C17Eq.lean` characterises `==`, `abs_diff_eq`, `relative_eq` of `Piecewise<T>` as the element-wise
conjunction over the FLATTENED list of all numbers (`piecewise_numberWise`), under the hypothesis
`hlen : ∀ a b : T, (nums a).length = (nums b).length` — true for the fixed-size piece types, FALSE for `T = PolyN`
(coefficient lists of any length; flattening would let a coefficient of one piece be compared with the breakpoint of
the next).  This file proves the three relations for `Segment<PolyN>` and `Piecewise<PolyN>` in the per-piece
(non-flattened) form, without any length hypothesis, in EVERY interpretation `F` (in particular bit-exact `F64`):

* **the relation itself** (`segment_polyN_abs/_rel/_peq`, `piecewise_polyN_abs/_rel/_peq`, all by `rfl`-unfolding of
  the generated instances): with `r` the scalar relation (`C17.R eps` = `abs_diff_eq` on `f64`, `C17.R' eps mr` =
  `relative_eq` on `f64`, `FloatLike.feq` = `==` on `f64`),
  `rel a b = r a.end b.end && listAll2 r a.poly.coeffs b.poly.coeffs` for segments, and
  `rel f g = listAll2 (fun a b => r a.end b.end && listAll2 r a.poly.coeffs b.poly.coeffs) f.segments g.segments`;
* **as a proposition** (`piecewise_polyN_abs_iff/_rel_iff/_peq_iff`): the relation holds iff the two functions have the
  same number of pieces and, piece by piece, the breakpoints are related and the coefficient lists are related by
  `listAll2` — lengths included (`pieceRel_iff`: same number of coefficients and coefficient by coefficient);
  hence `piecewise_polyN_*_length`, `piecewise_polyN_*_coeff_length`: different numbers of pieces, or a piece with a
  different number of coefficients, are never (approximately) equal;
* **implied by `==`** (bit-exact: `piecewise_polyN_relativeEq_of_peq_f64`, `piecewise_polyN_absDiffEq_of_peq_f64`):
  `segment_polyN_relativeEq_of_peq`, `piecewise_polyN_relativeEq_of_peq` (every interpretation,
  every `eps`, `max_relative`); `…_absDiffEq_of_peq_of` (every interpretation, given the scalar fact on the numbers
  that occur); `segment_polyN_absDiffEq_of_peq`, `piecewise_polyN_absDiffEq_of_peq` (exact interpretation over an
  ordered field, `0 ≤ eps`).

Instances: the GENERATED ones — `inst_AbsDiffEq_PolyN` / `inst_RelativeEq_PolyN` (`PP/Model/Poly/Loops.lean`),
`inst_PartialEq_PolyN`, `inst_*_Segment_T`, `inst_*_Piecewise_T`, as `C17Eq.polyN_numberWise` uses them.  The hand
instances `Hand.inst_AbsDiffEq_PolyN` / `Hand.inst_RelativeEq_PolyN` (`PP/Hand/Constructors.lean`) are also in scope
in the importing files; they are removed from instance resolution below so that every statement elaborates with the
generated ones, and `hand_instances_agree` records that the two are definitionally equal
(`Tie.polyN_instAbsDiffEq_eq`), so the theorems apply verbatim under either.
-/
set_option linter.unusedSectionVars false
set_option linter.unusedVariables false
namespace PP.Props.C17PolyN
open PP.Props.C17 (R R' all2_length all2_iff all2_ne_length)
open PP.Props.C17Eq (all2_imp R'_of_feq R_of_feq)

attribute [-instance] Hand.inst_AbsDiffEq_PolyN Hand.inst_RelativeEq_PolyN

variable {F : Type} [FloatLike F]

/-- the instances used below are the generated ones, and the hand instances are definitionally the same -/
theorem hand_instances_agree :
    (inferInstance : AbsDiffEq (PolyN F) F) = inst_AbsDiffEq_PolyN
      ∧ (inferInstance : RelativeEq (PolyN F) F) = inst_RelativeEq_PolyN
      ∧ (inst_AbsDiffEq_PolyN : AbsDiffEq (PolyN F) F) = Hand.inst_AbsDiffEq_PolyN
      ∧ (inst_RelativeEq_PolyN : RelativeEq (PolyN F) F) = Hand.inst_RelativeEq_PolyN :=
  ⟨rfl, rfl, rfl, rfl⟩

/-! ## the per-piece relation -/

/-- a scalar relation `r` lifted to one piece: the breakpoints are related and the coefficient lists are related
element-wise (`listAll2`: equal length included) -/
def pieceRel (r : F → F → Bool) (a b : Segment F (PolyN F)) : Bool :=
  r a.end b.end && listAll2 r a.poly._0 b.poly._0

/-- `pieceRel`, spelled out: breakpoints related, the same number of coefficients, coefficient by coefficient -/
theorem pieceRel_iff (r : F → F → Bool) (a b : Segment F (PolyN F)) :
    pieceRel r a b = true ↔ r a.end b.end = true ∧ a.poly._0.length = b.poly._0.length
      ∧ ∀ i (h : i < a.poly._0.length) (h' : i < b.poly._0.length), r a.poly._0[i] b.poly._0[i] = true := by
  simp only [pieceRel, Bool.and_eq_true, all2_iff]

/-- in terms of `nums` (breakpoint first, then the coefficients): the per-segment relation IS number-wise — no
length hypothesis is needed for ONE segment (`C17Eq.segment_numberWise`) -/
theorem pieceRel_eq_nums (r : F → F → Bool) (a b : Segment F (PolyN F)) :
    pieceRel r a b = listAll2 r (Nums.nums a) (Nums.nums b) := rfl

/-- monotone in the scalar relation, on the numbers that occur -/
theorem pieceRel_imp (r s : F → F → Bool) (a b : Segment F (PolyN F))
    (hm : ∀ x ∈ Nums.nums a, ∀ y ∈ Nums.nums b, r x y = true → s x y = true) (h : pieceRel r a b = true) :
    pieceRel s a b = true := by
  rw [pieceRel_eq_nums] at h ⊢
  exact all2_imp r s _ _ hm h

/-! ## segments -/

theorem segment_polyN_abs (a b : Segment F (PolyN F)) (eps : F) :
    AbsDiffEq.absDiffEq a b eps = pieceRel (R eps) a b := rfl
theorem segment_polyN_rel (a b : Segment F (PolyN F)) (eps mr : F) :
    RelativeEq.relativeEq a b eps mr = pieceRel (R' eps mr) a b := rfl
theorem segment_polyN_peq (a b : Segment F (PolyN F)) :
    PEq.peq a b = pieceRel FloatLike.feq a b := rfl

/-- segments whose pieces have different numbers of coefficients are never `==` / approximately equal -/
theorem pieceRel_coeff_length (r : F → F → Bool) (a b : Segment F (PolyN F)) (h : pieceRel r a b = true) :
    a.poly._0.length = b.poly._0.length := ((pieceRel_iff r a b).mp h).2.1

/-- `==` implies `relative_eq`: every interpretation, every tolerance -/
theorem segment_polyN_relativeEq_of_peq (a b : Segment F (PolyN F)) (eps mr : F) (h : PEq.peq a b = true) :
    RelativeEq.relativeEq a b eps mr = true := by
  rw [segment_polyN_rel]; rw [segment_polyN_peq] at h
  exact pieceRel_imp _ _ a b (fun x _ y _ hxy => R'_of_feq eps mr x y hxy) h

/-- `==` implies `abs_diff_eq` as soon as it does so for the numbers that occur -/
theorem segment_polyN_absDiffEq_of_peq_of (a b : Segment F (PolyN F)) (eps : F)
    (hs : ∀ x ∈ Nums.nums a, ∀ y ∈ Nums.nums b, FloatLike.feq x y = true → R eps x y = true)
    (h : PEq.peq a b = true) : AbsDiffEq.absDiffEq a b eps = true := by
  rw [segment_polyN_abs]; rw [segment_polyN_peq] at h
  exact pieceRel_imp _ _ a b hs h

/-! ## piecewise functions -/

theorem piecewise_polyN_abs (f g : Piecewise F (PolyN F)) (eps : F) :
    AbsDiffEq.absDiffEq f g eps = listAll2 (pieceRel (R eps)) f.segments g.segments := rfl
theorem piecewise_polyN_rel (f g : Piecewise F (PolyN F)) (eps mr : F) :
    RelativeEq.relativeEq f g eps mr = listAll2 (pieceRel (R' eps mr)) f.segments g.segments := rfl
theorem piecewise_polyN_peq (f g : Piecewise F (PolyN F)) :
    PEq.peq f g = listAll2 (pieceRel FloatLike.feq) f.segments g.segments := rfl

/-- the common shape: same number of pieces, and per piece: breakpoints related ∧ coefficient lists related by
`listAll2` (lengths included) -/
theorem all2_pieceRel_iff (r : F → F → Bool) (f g : List (Segment F (PolyN F))) :
    listAll2 (pieceRel r) f g = true ↔ f.length = g.length
      ∧ ∀ i (h : i < f.length) (h' : i < g.length),
          r f[i].end g[i].end = true ∧ listAll2 r f[i].poly._0 g[i].poly._0 = true := by
  rw [all2_iff]
  simp only [pieceRel, Bool.and_eq_true]

/-- **`abs_diff_eq` on `Piecewise<PolyN>`**: same number of pieces ∧ per piece (breakpoints within `eps` ∧ coefficient
lists of the same length and coefficient-wise within `eps`) -/
theorem piecewise_polyN_abs_iff (f g : Piecewise F (PolyN F)) (eps : F) :
    AbsDiffEq.absDiffEq f g eps = true ↔ f.segments.length = g.segments.length
      ∧ ∀ i (h : i < f.segments.length) (h' : i < g.segments.length),
          R eps f.segments[i].end g.segments[i].end = true
            ∧ listAll2 (R eps) f.segments[i].poly._0 g.segments[i].poly._0 = true := by
  rw [piecewise_polyN_abs]; exact all2_pieceRel_iff _ _ _

/-- **`relative_eq` on `Piecewise<PolyN>`** -/
theorem piecewise_polyN_rel_iff (f g : Piecewise F (PolyN F)) (eps mr : F) :
    RelativeEq.relativeEq f g eps mr = true ↔ f.segments.length = g.segments.length
      ∧ ∀ i (h : i < f.segments.length) (h' : i < g.segments.length),
          R' eps mr f.segments[i].end g.segments[i].end = true
            ∧ listAll2 (R' eps mr) f.segments[i].poly._0 g.segments[i].poly._0 = true := by
  rw [piecewise_polyN_rel]; exact all2_pieceRel_iff _ _ _

/-- **`==` on `Piecewise<PolyN>`** -/
theorem piecewise_polyN_peq_iff (f g : Piecewise F (PolyN F)) :
    PEq.peq f g = true ↔ f.segments.length = g.segments.length
      ∧ ∀ i (h : i < f.segments.length) (h' : i < g.segments.length),
          FloatLike.feq f.segments[i].end g.segments[i].end = true
            ∧ listAll2 FloatLike.feq f.segments[i].poly._0 g.segments[i].poly._0 = true := by
  rw [piecewise_polyN_peq]; exact all2_pieceRel_iff _ _ _

/-- different numbers of pieces: never (approximately) equal -/
theorem piecewise_polyN_abs_length (f g : Piecewise F (PolyN F)) (eps : F)
    (h : f.segments.length ≠ g.segments.length) : AbsDiffEq.absDiffEq f g eps = false :=
  all2_ne_length _ _ _ h
theorem piecewise_polyN_rel_length (f g : Piecewise F (PolyN F)) (eps mr : F)
    (h : f.segments.length ≠ g.segments.length) : RelativeEq.relativeEq f g eps mr = false :=
  all2_ne_length _ _ _ h
theorem piecewise_polyN_peq_length (f g : Piecewise F (PolyN F))
    (h : f.segments.length ≠ g.segments.length) : PEq.peq f g = false :=
  all2_ne_length _ _ _ h

/-- a piece with a different number of coefficients: never (approximately) equal, whatever the relation -/
theorem all2_pieceRel_coeff_length (r : F → F → Bool) (f g : List (Segment F (PolyN F))) (i : ℕ)
    (h : i < f.length) (h' : i < g.length) (hne : f[i].poly._0.length ≠ g[i].poly._0.length) :
    listAll2 (pieceRel r) f g = false := by
  cases hh : listAll2 (pieceRel r) f g with
  | false => rfl
  | true =>
    have := (((all2_pieceRel_iff r f g).mp hh).2 i h h').2
    exact absurd (all2_length _ _ _ this) hne
theorem piecewise_polyN_abs_coeff_length (f g : Piecewise F (PolyN F)) (eps : F) (i : ℕ)
    (h : i < f.segments.length) (h' : i < g.segments.length)
    (hne : f.segments[i].poly._0.length ≠ g.segments[i].poly._0.length) : AbsDiffEq.absDiffEq f g eps = false :=
  all2_pieceRel_coeff_length (R eps) _ _ i h h' hne
theorem piecewise_polyN_rel_coeff_length (f g : Piecewise F (PolyN F)) (eps mr : F) (i : ℕ)
    (h : i < f.segments.length) (h' : i < g.segments.length)
    (hne : f.segments[i].poly._0.length ≠ g.segments[i].poly._0.length) : RelativeEq.relativeEq f g eps mr = false :=
  all2_pieceRel_coeff_length (R' eps mr) _ _ i h h' hne
theorem piecewise_polyN_peq_coeff_length (f g : Piecewise F (PolyN F)) (i : ℕ)
    (h : i < f.segments.length) (h' : i < g.segments.length)
    (hne : f.segments[i].poly._0.length ≠ g.segments[i].poly._0.length) : PEq.peq f g = false :=
  all2_pieceRel_coeff_length FloatLike.feq _ _ i h h' hne

/-! ### implied by `==` -/

/-- `==` implies `relative_eq` on `Piecewise<PolyN>`: every interpretation (NaN, infinities included), every
`eps`, `max_relative` -/
theorem piecewise_polyN_relativeEq_of_peq (f g : Piecewise F (PolyN F)) (eps mr : F) (h : PEq.peq f g = true) :
    RelativeEq.relativeEq f g eps mr = true := by
  rw [piecewise_polyN_rel]; rw [piecewise_polyN_peq] at h
  exact all2_imp _ _ _ _
    (fun a _ b _ hab => pieceRel_imp _ _ a b (fun x _ y _ hxy => R'_of_feq eps mr x y hxy) hab) h

/-- `==` implies `abs_diff_eq` as soon as it does so for the numbers that occur (breakpoints and coefficients;
`Nums.nums f` is the list of all numbers of `f`) -/
theorem piecewise_polyN_absDiffEq_of_peq_of (f g : Piecewise F (PolyN F)) (eps : F)
    (hs : ∀ x ∈ Nums.nums f, ∀ y ∈ Nums.nums g, FloatLike.feq x y = true → R eps x y = true)
    (h : PEq.peq f g = true) : AbsDiffEq.absDiffEq f g eps = true := by
  rw [piecewise_polyN_abs]; rw [piecewise_polyN_peq] at h
  refine all2_imp _ _ _ _ (fun a ha b hb hab => pieceRel_imp _ _ a b (fun x hx y hy hxy => hs x ?_ y ?_ hxy) hab) h
  · show x ∈ (f.segments.map Nums.nums).flatten
    exact List.mem_flatten.mpr ⟨_, List.mem_map.mpr ⟨a, ha, rfl⟩, hx⟩
  · show y ∈ (g.segments.map Nums.nums).flatten
    exact List.mem_flatten.mpr ⟨_, List.mem_map.mpr ⟨b, hb, rfl⟩, hy⟩

/-! ## the exact interpretation over an ordered field: `==` implies `abs_diff_eq` for every `eps ≥ 0` -/
section exact
variable {K : Type} [Field K] [LinearOrder K] [IsStrictOrderedRing K] [Transc K]
attribute [local instance] exactFL

theorem segment_polyN_absDiffEq_of_peq (a b : Segment K (PolyN K)) (eps : K) (heps : 0 ≤ eps)
    (h : PEq.peq a b = true) : AbsDiffEq.absDiffEq a b eps = true :=
  segment_polyN_absDiffEq_of_peq_of a b eps (fun x _ y _ hxy => R_of_feq eps x y heps hxy) h

theorem piecewise_polyN_absDiffEq_of_peq (f g : Piecewise K (PolyN K)) (eps : K) (heps : 0 ≤ eps)
    (h : PEq.peq f g = true) : AbsDiffEq.absDiffEq f g eps = true :=
  piecewise_polyN_absDiffEq_of_peq_of f g eps (fun x _ y _ hxy => R_of_feq eps x y heps hxy) h

/-- in the exact interpretation `==` on `Piecewise<PolyN>` is structural equality -/
theorem piecewise_polyN_peq_iff_eq (f g : Piecewise K (PolyN K)) : PEq.peq f g = true ↔ f = g := by
  have hl : ∀ l m : List K, listAll2 FloatLike.feq l m = true ↔ l = m := by
    intro l
    induction l with
    | nil => intro m; cases m <;> simp [listAll2]
    | cons x xs ih => intro m; cases m with
      | nil => simp [listAll2]
      | cons y ys => simp [listAll2, ih, C17Eq.feq_iff_eq]
  have hp : ∀ a b : Segment K (PolyN K), pieceRel FloatLike.feq a b = true ↔ a = b := by
    intro a b
    obtain ⟨ae, ⟨ac⟩⟩ := a
    obtain ⟨be, ⟨bc⟩⟩ := b
    simp [pieceRel, hl, C17Eq.feq_iff_eq]
  have hL : ∀ l m : List (Segment K (PolyN K)), listAll2 (pieceRel FloatLike.feq) l m = true ↔ l = m := by
    intro l
    induction l with
    | nil => intro m; cases m <;> simp [listAll2]
    | cons x xs ih => intro m; cases m with
      | nil => simp [listAll2]
      | cons y ys => simp [listAll2, ih, hp]
  rw [piecewise_polyN_peq, hL]
  obtain ⟨fs⟩ := f
  obtain ⟨gs⟩ := g
  simp
end exact

/-! ## non-vacuity / sanity: concrete instances over ℚ -/
section example_
noncomputable local instance : Transc ℚ := ⟨fun x => x, fun x => x⟩
attribute [local instance] exactFL

/-- two pieces with DIFFERENT numbers of coefficients (a constant and a quadratic): outside the scope of
`C17Eq.piecewise_numberWise` (its `hlen` fails), inside the scope of this file -/
def fEx : Piecewise ℚ (PolyN ℚ) := ⟨[⟨1, ⟨[5]⟩⟩, ⟨2, ⟨[0, 1, 3]⟩⟩]⟩
/-- the same with one coefficient of the second piece perturbed by 1/4 -/
def gEx : Piecewise ℚ (PolyN ℚ) := ⟨[⟨1, ⟨[5]⟩⟩, ⟨2, ⟨[0, 1 + 1 / 4, 3]⟩⟩]⟩
/-- the same polynomial function, but the first piece written with a trailing zero coefficient -/
def hEx : Piecewise ℚ (PolyN ℚ) := ⟨[⟨1, ⟨[5, 0]⟩⟩, ⟨2, ⟨[0, 1, 3]⟩⟩]⟩

/-- `hlen` of `C17Eq.piecewise_numberWise` is false for `PolyN` -/
example : ¬ ∀ a b : PolyN ℚ, (Nums.nums a).length = (Nums.nums b).length := fun h => by
  have := h ⟨[5]⟩ ⟨[0, 1, 3]⟩
  simp [Nums.nums] at this

example : PEq.peq fEx fEx = true := (piecewise_polyN_peq_iff_eq fEx fEx).mpr rfl
/-- hence approximately equal under every tolerance `≥ 0` (the hypotheses are satisfiable) -/
example : AbsDiffEq.absDiffEq fEx fEx (0 : ℚ) = true :=
  piecewise_polyN_absDiffEq_of_peq fEx fEx 0 (le_refl _) ((piecewise_polyN_peq_iff_eq fEx fEx).mpr rfl)
example : RelativeEq.relativeEq fEx fEx (0 : ℚ) (-1 : ℚ) = true :=
  piecewise_polyN_relativeEq_of_peq fEx fEx 0 (-1) ((piecewise_polyN_peq_iff_eq fEx fEx).mpr rfl)
/-- a perturbed coefficient: not `==`, within 1/2, not within 1/8 -/
example : PEq.peq fEx gEx = false := by
  rw [piecewise_polyN_peq]
  simp [fEx, gEx, listAll2, pieceRel, FloatLike.feq]
example : AbsDiffEq.absDiffEq fEx gEx (1 / 2 : ℚ) = true := by
  rw [piecewise_polyN_abs]
  simp [fEx, gEx, listAll2, pieceRel, R, f64AbsDiffEq, FloatLike.le, FloatLike.abs, FloatLike.sub]
  norm_num [abs_le]
example : AbsDiffEq.absDiffEq fEx gEx (1 / 8 : ℚ) = false := by
  rw [piecewise_polyN_abs]
  simp [fEx, gEx, listAll2, pieceRel, R, f64AbsDiffEq, FloatLike.le, FloatLike.abs, FloatLike.sub]
  norm_num [abs_le]
/-- a piece with a different number of coefficients: never approximately equal, however large the tolerance -/
example (eps : ℚ) : AbsDiffEq.absDiffEq fEx hEx eps = false :=
  piecewise_polyN_abs_coeff_length fEx hEx eps 0 (by simp [fEx]) (by simp [hEx]) (by simp [fEx, hEx])
example : PEq.peq fEx hEx = false :=
  piecewise_polyN_peq_coeff_length fEx hEx 0 (by simp [fEx]) (by simp [hEx]) (by simp [fEx, hEx])
end example_

/-! bit-exact `F64`: the every-interpretation theorems instantiate (libm's `ln`/`exp` are parameters of `F64.inst`) -/
section f64
variable (ln exp : F64 → F64)
theorem piecewise_polyN_relativeEq_of_peq_f64 : letI := F64.inst ln exp
    ∀ (f g : Piecewise F64 (PolyN F64)) (eps mr : F64), PEq.peq f g = true → RelativeEq.relativeEq f g eps mr = true :=
  @piecewise_polyN_relativeEq_of_peq F64 (F64.inst ln exp)
/-- `==` implies `abs_diff_eq` on finite (canonical) numbers, for every non-NaN tolerance `≥ ±0` (NOT for infinities:
`C17Eq.inf_peq_not_absDiffEq`) -/
theorem piecewise_polyN_absDiffEq_of_peq_f64 : letI := F64.inst ln exp
    ∀ (f g : Piecewise F64 (PolyN F64)) (eps : F64), eps.isNaN = false → 0 ≤ F64.key eps →
      (∀ x ∈ Nums.nums f, x.Finite ∧ x.Canon) → (∀ y ∈ Nums.nums g, y.Finite ∧ y.Canon) →
      PEq.peq f g = true → AbsDiffEq.absDiffEq f g eps = true := by
  intro f g eps hn hk hf hg h
  exact @piecewise_polyN_absDiffEq_of_peq_of F64 (F64.inst ln exp) f g eps
    (fun x hx y hy hxy => PP.Props.C17Eq.F64.le_abs_sub_of_feq (hf x hx).1 (hf x hx).2 (hg y hy).1 (hg y hy).2 hn hk hxy) h
/-- a two-piece function whose last breakpoint is `+inf` and whose pieces have 1 and 2 coefficients -/
example : letI := F64.inst ln exp
    RelativeEq.relativeEq
      (⟨[⟨C17Eq.one64, ⟨[C17Eq.two64]⟩⟩, ⟨C17Eq.pinf, ⟨[C17Eq.two64, C17Eq.one64]⟩⟩]⟩ : Piecewise F64 (PolyN F64))
      ⟨[⟨C17Eq.one64, ⟨[C17Eq.two64]⟩⟩, ⟨C17Eq.pinf, ⟨[C17Eq.two64, C17Eq.one64]⟩⟩]⟩ F64.epsilon F64.epsilon = true :=
  piecewise_polyN_relativeEq_of_peq_f64 ln exp _ _ _ _ rfl
end f64

end PP.Props.C17PolyN
