import PP.Props.C01Bound
/-!
# Scheme-specific sharpenings of C01 (AUXILIARY: not among the obligations of any property)

These statements mention the *shape* of the evaluation scheme the source uses today (the measured rounding depth
κ, the explicit list of partial terms of the cubic).  A harmless change of scheme (Estrin ↔ Horner) legitimately
changes them, so `./check` builds and audits them but reports a failure here as a note, not as a violation.
-/
namespace PP.Props.C01Schemes
open PP.Lemmas.Rounding PP.Props.C01 PP.Props.C01Bound
variable {K : Type} [Field K] [LinearOrder K] [IsStrictOrderedRing K] [Transc K]

section
attribute [local instance] exactFL

/-! measured rounding depths κ of the generated schemes (by `rfl`) -/
section depths
variable (M : RModel K)
/-- measured rounding depth of the generated degree-0 scheme -/
theorem poly0_ct_k (p : Poly0 K) (x : K) : (p.ctRun M x).k = 0 := rfl
/-- measured rounding depth of the generated degree-1 scheme -/
theorem poly1_ct_k (p : Poly1 K) (x : K) : (p.ctRun M x).k = 1 := rfl
/-- measured rounding depth of the generated degree-2 scheme -/
theorem poly2_ct_k (p : Poly2 K) (x : K) : (p.ctRun M x).k = 2 := rfl
/-- measured rounding depth of the generated degree-3 scheme -/
theorem poly3_ct_k (p : Poly3 K) (x : K) : (p.ctRun M x).k = 3 := rfl
/-- measured rounding depth of the generated degree-4 scheme -/
theorem poly4_ct_k (p : Poly4 K) (x : K) : (p.ctRun M x).k = 4 := rfl
/-- measured rounding depth of the generated degree-5 scheme -/
theorem poly5_ct_k (p : Poly5 K) (x : K) : (p.ctRun M x).k = 5 := rfl
/-- measured rounding depth of the generated degree-6 scheme -/
theorem poly6_ct_k (p : Poly6 K) (x : K) : (p.ctRun M x).k = 6 := rfl
/-- measured rounding depth of the generated degree-7 scheme -/
theorem poly7_ct_k (p : Poly7 K) (x : K) : (p.ctRun M x).k = 7 := rfl
/-- measured rounding depth of the generated degree-8 scheme -/
theorem poly8_ct_k (p : Poly8 K) (x : K) : (p.ctRun M x).k = 8 := rfl
end depths

/-- sharp form with the measured depth κ = 0 of the generated scheme; no hypothesis on `u` -/
theorem poly0_rounding_sharp (M : RModel K) (p : Poly0 K) (x : K) :
    |p.evalRounded M x - (p._0)|
      ≤ ((1 + M.u) ^ 0 - 1) * (|p._0|) := by
  have h := (p.ctRun M x).bound rfl
  rw [poly0_ct_e_sum, poly0_ct_A_sum] at h
  exact h

/-- sharp form with the measured depth κ = 1 of the generated scheme; no hypothesis on `u` -/
theorem poly1_rounding_sharp (M : RModel K) (p : Poly1 K) (x : K) :
    |p.evalRounded M x - (p._0.a0 + p._0.a1 * x)|
      ≤ ((1 + M.u) ^ 1 - 1) * (|p._0.a0| + |p._0.a1| * |x|) := by
  have h := (p.ctRun M x).bound rfl
  rw [poly1_ct_e_sum, poly1_ct_A_sum] at h
  exact h

/-- sharp form with the measured depth κ = 2 of the generated scheme; no hypothesis on `u` -/
theorem poly2_rounding_sharp (M : RModel K) (p : Poly2 K) (x : K) :
    |p.evalRounded M x - (p._0.a0 + p._0.a1 * x + p._0.a2 * x ^ 2)|
      ≤ ((1 + M.u) ^ 2 - 1) * (|p._0.a0| + |p._0.a1| * |x| + |p._0.a2| * |x| ^ 2) := by
  have h := (p.ctRun M x).bound rfl
  rw [poly2_ct_e_sum, poly2_ct_A_sum] at h
  exact h

/-- sharp form with the measured depth κ = 3 of the generated scheme; no hypothesis on `u` -/
theorem poly3_rounding_sharp (M : RModel K) (p : Poly3 K) (x : K) :
    |p.evalRounded M x - (p._0.a0 + p._0.a1 * x + p._0.a2 * x ^ 2 + p._0.a3 * x ^ 3)|
      ≤ ((1 + M.u) ^ 3 - 1) * (|p._0.a0| + |p._0.a1| * |x| + |p._0.a2| * |x| ^ 2 + |p._0.a3| * |x| ^ 3) := by
  have h := (p.ctRun M x).bound rfl
  rw [poly3_ct_e_sum, poly3_ct_A_sum] at h
  exact h

/-- sharp form with the measured depth κ = 4 of the generated scheme; no hypothesis on `u` -/
theorem poly4_rounding_sharp (M : RModel K) (p : Poly4 K) (x : K) :
    |p.evalRounded M x - (p._0.a0 + p._0.a1 * x + p._0.a2 * x ^ 2 + p._0.a3 * x ^ 3 + p._0.a4 * x ^ 4)|
      ≤ ((1 + M.u) ^ 4 - 1) * (|p._0.a0| + |p._0.a1| * |x| + |p._0.a2| * |x| ^ 2 + |p._0.a3| * |x| ^ 3 + |p._0.a4| * |x| ^ 4) := by
  have h := (p.ctRun M x).bound rfl
  rw [poly4_ct_e_sum, poly4_ct_A_sum] at h
  exact h

/-- sharp form with the measured depth κ = 5 of the generated scheme; no hypothesis on `u` -/
theorem poly5_rounding_sharp (M : RModel K) (p : Poly5 K) (x : K) :
    |p.evalRounded M x - (p._0.a0 + p._0.a1 * x + p._0.a2 * x ^ 2 + p._0.a3 * x ^ 3 + p._0.a4 * x ^ 4 + p._0.a5 * x ^ 5)|
      ≤ ((1 + M.u) ^ 5 - 1) * (|p._0.a0| + |p._0.a1| * |x| + |p._0.a2| * |x| ^ 2 + |p._0.a3| * |x| ^ 3 + |p._0.a4| * |x| ^ 4 + |p._0.a5| * |x| ^ 5) := by
  have h := (p.ctRun M x).bound rfl
  rw [poly5_ct_e_sum, poly5_ct_A_sum] at h
  exact h

/-- sharp form with the measured depth κ = 6 of the generated scheme; no hypothesis on `u` -/
theorem poly6_rounding_sharp (M : RModel K) (p : Poly6 K) (x : K) :
    |p.evalRounded M x - (p._0.a0 + p._0.a1 * x + p._0.a2 * x ^ 2 + p._0.a3 * x ^ 3 + p._0.a4 * x ^ 4 + p._0.a5 * x ^ 5 + p._0.a6 * x ^ 6)|
      ≤ ((1 + M.u) ^ 6 - 1) * (|p._0.a0| + |p._0.a1| * |x| + |p._0.a2| * |x| ^ 2 + |p._0.a3| * |x| ^ 3 + |p._0.a4| * |x| ^ 4 + |p._0.a5| * |x| ^ 5 + |p._0.a6| * |x| ^ 6) := by
  have h := (p.ctRun M x).bound rfl
  rw [poly6_ct_e_sum, poly6_ct_A_sum] at h
  exact h

/-- sharp form with the measured depth κ = 7 of the generated scheme; no hypothesis on `u` -/
theorem poly7_rounding_sharp (M : RModel K) (p : Poly7 K) (x : K) :
    |p.evalRounded M x - (p._0.a0 + p._0.a1 * x + p._0.a2 * x ^ 2 + p._0.a3 * x ^ 3 + p._0.a4 * x ^ 4 + p._0.a5 * x ^ 5 + p._0.a6 * x ^ 6 + p._0.a7 * x ^ 7)|
      ≤ ((1 + M.u) ^ 7 - 1) * (|p._0.a0| + |p._0.a1| * |x| + |p._0.a2| * |x| ^ 2 + |p._0.a3| * |x| ^ 3 + |p._0.a4| * |x| ^ 4 + |p._0.a5| * |x| ^ 5 + |p._0.a6| * |x| ^ 6 + |p._0.a7| * |x| ^ 7) := by
  have h := (p.ctRun M x).bound rfl
  rw [poly7_ct_e_sum, poly7_ct_A_sum] at h
  exact h

/-- sharp form with the measured depth κ = 8 of the generated scheme; no hypothesis on `u` -/
theorem poly8_rounding_sharp (M : RModel K) (p : Poly8 K) (x : K) :
    |p.evalRounded M x - (p._0.a0 + p._0.a1 * x + p._0.a2 * x ^ 2 + p._0.a3 * x ^ 3 + p._0.a4 * x ^ 4 + p._0.a5 * x ^ 5 + p._0.a6 * x ^ 6 + p._0.a7 * x ^ 7 + p._0.a8 * x ^ 8)|
      ≤ ((1 + M.u) ^ 8 - 1) * (|p._0.a0| + |p._0.a1| * |x| + |p._0.a2| * |x| ^ 2 + |p._0.a3| * |x| ^ 3 + |p._0.a4| * |x| ^ 4 + |p._0.a5| * |x| ^ 5 + |p._0.a6| * |x| ^ 6 + |p._0.a7| * |x| ^ 7 + |p._0.a8| * |x| ^ 8) := by
  have h := (p.ctRun M x).bound rfl
  rw [poly8_ct_e_sum, poly8_ct_A_sum] at h
  exact h

/-- the exactness hypothesis of the cubic spelled out: the partial terms of the generated scheme
(`x²`, `c₁x+c₀`, `c₃x+c₂` and the final `fma`) are fixed points of `rnd`.  Scheme-dependent by nature. -/
theorem poly3_exact_explicit (M : RModel K) (p : Poly3 K) (x : K)
    (hx2 : M.rnd (x * x) = x * x)
    (ht0 : M.rnd (p._0.a1 * x + p._0.a0) = p._0.a1 * x + p._0.a0)
    (ht1 : M.rnd (p._0.a3 * x + p._0.a2) = p._0.a3 * x + p._0.a2)
    (hr : M.rnd ((p._0.a3 * x + p._0.a2) * (x * x) + (p._0.a1 * x + p._0.a0))
            = (p._0.a3 * x + p._0.a2) * (x * x) + (p._0.a1 * x + p._0.a0)) :
    p.evalRounded M x = p._0.a0 + p._0.a1 * x + p._0.a2 * x ^ 2 + p._0.a3 * x ^ 3 :=
  poly3_exact M p x ⟨⟨trivial, trivial, trivial, ht1⟩, ⟨trivial, trivial, hx2⟩, ⟨trivial, trivial, trivial, ht0⟩, hr⟩
end

section example_
noncomputable local instance : Transc ℚ := ⟨fun x => x, fun x => x⟩
attribute [local instance] exactFL
noncomputable abbrev M53 : RModel ℚ := RModel.m53

/-- the bound is a statement about a run that really rounds: here the rounded value differs from the exact one -/
example : (⟨⟨1, 1⟩⟩ : Poly1 ℚ).evalRounded M53 1 ≠ 1 + 1 * 1 := by
  show ((1 : ℚ) * 1 + 1) * (1 + 2 ^ (-53 : ℤ)) ≠ 1 + 1 * 1
  norm_num

/-- exactness hypothesis, non-trivially: in `RModel.intFix` (integers representable, everything else
inflated by `1 + 2⁻⁵³`) an integer polynomial at an integer point has only representable partial terms -/
example : ((⟨⟨1, -2, 3⟩⟩ : Poly2 ℚ).repRun RModel.intFix 2).ok :=
  ⟨trivial, ⟨trivial, trivial, RModel.intFix_of_eq_int (t := (2 : ℚ) * 2) 4 (by norm_num)⟩,
    ⟨trivial, trivial, trivial, RModel.intFix_of_eq_int (t := (-2 : ℚ) * 2 + 1) (-3) (by norm_num)⟩,
    RModel.intFix_of_eq_int (t := (3 : ℚ) * (2 * 2) + (-2 * 2 + 1)) 9 (by norm_num)⟩
example : PolyN.partialsFixed RModel.intFix [1, -2, 3] 2 :=
  ⟨RModel.intFix_of_eq_int 4 (by norm_num), RModel.intFix_of_eq_int 9 (by norm_num), trivial⟩
end example_

end PP.Props.C01Schemes
