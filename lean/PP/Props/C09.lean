import PP.Sem.Exact
import PP.Model.LogPoly.CalculusAttr
import PP.Props.C01
import PP.Lemmas.Calculus
/-!
# C09 — integration of log-polynomials (exact-arithmetic part, over ℝ with ln = Real.log, exp = Real.exp)

"For a log-polynomial f(t)=p(ln t) of any degree 0-8 and any knot with knot.x>0, the function F returned by
integral(knot) satisfies F(knot.x)=knot.y and F(b)-F(a) = integral of p(ln t) dt over [a,b] for all a,b>0, within
the rounding bound of the construction. indefinite() returns an antiderivative of the same f."

For each degree k ≠ 4 (`p : PolyK ℝ`, result `IntOfLog ℝ (PolyK ℝ)`, value `k + v·Q(ln v)`):
* `logpolyK_recurrence`            — Q + Q' = p (the generated coefficient recurrence is the right one)
* `logpolyK_indefinite_hasDerivAt` — for t > 0, d/dt evaluate (indefinite ⟨p⟩) = evaluate ⟨p⟩ t
* `logpolyK_indefinite_k`           — `(indefinite ⟨p⟩).k = 0`
* `logpolyK_integral_eq`           — `integral ⟨p⟩ knot` is `indefinite ⟨p⟩` with `k := knot.y − evaluate (indefinite ⟨p⟩) knot.x`
* `logpolyK_integral_eval`         — hence the two differ by that constant, pointwise
* `logpolyK_integral_knot`         — `evaluate (integral ⟨p⟩ knot) knot.x = knot.y` (pure algebra; any knot)
* `logpolyK_integral_hasDerivAt`   — for t > 0
* `logpolyK_integral_ftc`, `logpolyK_indefinite_ftc` — F(b) − F(a) = ∫ t in a..b, p(ln t), all a, b > 0

Degree 4 (`IntOfLogPoly4`, section `deg4`) evaluates through `LogPoly.taylor.exp_5_taylor`, which branches between a
16-term Taylor polynomial (−1.71 < x < 1.72, x = −ln v) and the closed form R(x) = (eˣ − Σ_{j<5} xʲ/j!)/x⁵.
The antiderivative statements are EXACT only with R; they are proved for `evalWith exp_5_tail_anal` (the generated
evaluation with `exp_5_taylor` replaced by the closed-form branch), and for the generated function itself wherever it
takes that branch.  On the Taylor window the generated function is only an approximate antiderivative: its derivative
is p(ln t) + u·(ln t)²⁰/20! (`logpoly4_indefinite_hasDerivAt_near`, counter-example `logpoly4_not_antiderivative`);
bounding that truncation is property C10.
-/
set_option linter.unusedSectionVars false
namespace PP.Props.C09
open PP.Props.C01 PP.Lemmas.Calculus

/-- the transcendental functions are the real ones -/
noncomputable local instance realTransc : Transc ℝ := ⟨Real.log, Real.exp⟩
attribute [local instance] exactFL

theorem ln_eq (v : ℝ) : Transc.ln v = Real.log v := rfl
theorem exp_eq (v : ℝ) : Transc.exp v = Real.exp v := rfl

/-! ## generic facts about `Log<T>` and `IntOfLog<T>` -/

/-- `IntOfLog::evaluate` is `v · Q(ln v) + k` -/
theorem intOfLog_eval {T : Type} [Evaluate T ℝ] (q : IntOfLog ℝ T) (v : ℝ) :
    Evaluate.evaluate q v = v * Evaluate.evaluate q.poly (Real.log v) + q.k := rfl

/-- d/dt [k + t·Q(ln t)] = Q(ln t) + Q'(ln t) for t > 0 -/
theorem intOfLog_hasDerivAt {T : Type} [Evaluate T ℝ] (q : IntOfLog ℝ T) (Q' t : ℝ) (ht : 0 < t)
    (hQ : HasDerivAt (fun y => Evaluate.evaluate q.poly y) Q' (Real.log t)) :
    HasDerivAt (fun t => Evaluate.evaluate q t) (Evaluate.evaluate q.poly (Real.log t) + Q') t :=
  (hasDerivAt_mul_comp_log _ Q' t ht hQ).add_const q.k

/-- a log-polynomial is continuous on (0,∞) as soon as the polynomial is continuous -/
theorem log_continuousOn {T : Type} [Evaluate T ℝ] (p : T)
    (hp : Continuous (fun y => Evaluate.evaluate p y)) :
    ContinuousOn (fun t => Evaluate.evaluate (⟨p⟩ : Log T) t) (Set.Ioi 0) :=
  hp.comp_continuousOn (Real.continuousOn_log.mono (fun _ ht => ne_of_gt (Set.mem_Ioi.mp ht)))

/-! ## degree 0 -/

/-- the generated recurrence solves Q + Q' = p -/
theorem logpoly0_recurrence (p : Poly0 ℝ) (y : ℝ) :
    Evaluate.evaluate (HasIntegral.indefinite (⟨p⟩ : Log (Poly0 ℝ))).poly y
      + Evaluate.evaluate (HasDerivative.derivative (HasIntegral.indefinite (⟨p⟩ : Log (Poly0 ℝ))).poly) y
      = Evaluate.evaluate p y := by
  rw [poly0_eval, poly0_eval, poly0_eval]
  exact_simp
  ring

theorem logpoly0_indefinite_hasDerivAt (p : Poly0 ℝ) (t : ℝ) (ht : 0 < t) :
    HasDerivAt (fun t => Evaluate.evaluate (HasIntegral.indefinite (⟨p⟩ : Log (Poly0 ℝ))) t)
      (Evaluate.evaluate (⟨p⟩ : Log (Poly0 ℝ)) t) t := by
  have h := intOfLog_hasDerivAt (HasIntegral.indefinite (⟨p⟩ : Log (Poly0 ℝ))) _ t ht (poly0_hasDerivAt _ _)
  rw [logpoly0_recurrence] at h
  exact h

/-- `indefinite` has constant term 0 -/
theorem logpoly0_indefinite_k (p : Poly0 ℝ) : (HasIntegral.indefinite (⟨p⟩ : Log (Poly0 ℝ))).k = 0 := by
  exact_simp

/-- `integral` is `indefinite` with a different constant `k`; the polynomial part is the same -/
theorem logpoly0_integral_eq (p : Poly0 ℝ) (knot : Knot ℝ) :
    HasIntegral.integral (⟨p⟩ : Log (Poly0 ℝ)) knot =
      { HasIntegral.indefinite (⟨p⟩ : Log (Poly0 ℝ)) with
        k := knot.y - Evaluate.evaluate (HasIntegral.indefinite (⟨p⟩ : Log (Poly0 ℝ))) knot.x } := by
  exact_simp
  congr 1
  ring

theorem logpoly0_integral_eval (p : Poly0 ℝ) (knot : Knot ℝ) (t : ℝ) :
    Evaluate.evaluate (HasIntegral.integral (⟨p⟩ : Log (Poly0 ℝ)) knot) t =
      Evaluate.evaluate (HasIntegral.indefinite (⟨p⟩ : Log (Poly0 ℝ))) t
        + (knot.y - Evaluate.evaluate (HasIntegral.indefinite (⟨p⟩ : Log (Poly0 ℝ))) knot.x) := by
  rw [logpoly0_integral_eq]
  simp only [intOfLog_eval, logpoly0_indefinite_k]
  ring

/-- F(knot.x) = knot.y — pure algebra, for every knot -/
theorem logpoly0_integral_knot (p : Poly0 ℝ) (knot : Knot ℝ) :
    Evaluate.evaluate (HasIntegral.integral (⟨p⟩ : Log (Poly0 ℝ)) knot) knot.x = knot.y := by
  rw [logpoly0_integral_eval]; ring

theorem logpoly0_integral_hasDerivAt (p : Poly0 ℝ) (knot : Knot ℝ) (t : ℝ) (ht : 0 < t) :
    HasDerivAt (fun t => Evaluate.evaluate (HasIntegral.integral (⟨p⟩ : Log (Poly0 ℝ)) knot) t)
      (Evaluate.evaluate (⟨p⟩ : Log (Poly0 ℝ)) t) t := by
  rw [funext (logpoly0_integral_eval p knot)]
  exact (logpoly0_indefinite_hasDerivAt p t ht).add_const _

/-- F(b) − F(a) = ∫ₐᵇ p(ln t) dt for all a, b > 0 (either order) -/
theorem logpoly0_integral_ftc (p : Poly0 ℝ) (knot : Knot ℝ) (a b : ℝ) (ha : 0 < a) (hb : 0 < b) :
    Evaluate.evaluate (HasIntegral.integral (⟨p⟩ : Log (Poly0 ℝ)) knot) b
        - Evaluate.evaluate (HasIntegral.integral (⟨p⟩ : Log (Poly0 ℝ)) knot) a
      = ∫ t in a..b, Evaluate.evaluate (⟨p⟩ : Log (Poly0 ℝ)) t :=
  ftc_pos _ _ a b ha hb (logpoly0_integral_hasDerivAt p knot) (log_continuousOn p (poly0_continuous p))

theorem logpoly0_indefinite_ftc (p : Poly0 ℝ) (a b : ℝ) (ha : 0 < a) (hb : 0 < b) :
    Evaluate.evaluate (HasIntegral.indefinite (⟨p⟩ : Log (Poly0 ℝ))) b
        - Evaluate.evaluate (HasIntegral.indefinite (⟨p⟩ : Log (Poly0 ℝ))) a
      = ∫ t in a..b, Evaluate.evaluate (⟨p⟩ : Log (Poly0 ℝ)) t :=
  ftc_pos _ _ a b ha hb (logpoly0_indefinite_hasDerivAt p) (log_continuousOn p (poly0_continuous p))

/-! ## degree 1 -/

/-- the generated recurrence solves Q + Q' = p -/
theorem logpoly1_recurrence (p : Poly1 ℝ) (y : ℝ) :
    Evaluate.evaluate (HasIntegral.indefinite (⟨p⟩ : Log (Poly1 ℝ))).poly y
      + Evaluate.evaluate (HasDerivative.derivative (HasIntegral.indefinite (⟨p⟩ : Log (Poly1 ℝ))).poly) y
      = Evaluate.evaluate p y := by
  rw [poly1_eval, poly1_eval, poly0_eval]
  exact_simp
  ring

theorem logpoly1_indefinite_hasDerivAt (p : Poly1 ℝ) (t : ℝ) (ht : 0 < t) :
    HasDerivAt (fun t => Evaluate.evaluate (HasIntegral.indefinite (⟨p⟩ : Log (Poly1 ℝ))) t)
      (Evaluate.evaluate (⟨p⟩ : Log (Poly1 ℝ)) t) t := by
  have h := intOfLog_hasDerivAt (HasIntegral.indefinite (⟨p⟩ : Log (Poly1 ℝ))) _ t ht (poly1_hasDerivAt _ _)
  rw [logpoly1_recurrence] at h
  exact h

/-- `indefinite` has constant term 0 -/
theorem logpoly1_indefinite_k (p : Poly1 ℝ) : (HasIntegral.indefinite (⟨p⟩ : Log (Poly1 ℝ))).k = 0 := by
  exact_simp

/-- `integral` is `indefinite` with a different constant `k`; the polynomial part is the same -/
theorem logpoly1_integral_eq (p : Poly1 ℝ) (knot : Knot ℝ) :
    HasIntegral.integral (⟨p⟩ : Log (Poly1 ℝ)) knot =
      { HasIntegral.indefinite (⟨p⟩ : Log (Poly1 ℝ)) with
        k := knot.y - Evaluate.evaluate (HasIntegral.indefinite (⟨p⟩ : Log (Poly1 ℝ))) knot.x } := by
  exact_simp
  congr 1
  ring

theorem logpoly1_integral_eval (p : Poly1 ℝ) (knot : Knot ℝ) (t : ℝ) :
    Evaluate.evaluate (HasIntegral.integral (⟨p⟩ : Log (Poly1 ℝ)) knot) t =
      Evaluate.evaluate (HasIntegral.indefinite (⟨p⟩ : Log (Poly1 ℝ))) t
        + (knot.y - Evaluate.evaluate (HasIntegral.indefinite (⟨p⟩ : Log (Poly1 ℝ))) knot.x) := by
  rw [logpoly1_integral_eq]
  simp only [intOfLog_eval, logpoly1_indefinite_k]
  ring

/-- F(knot.x) = knot.y — pure algebra, for every knot -/
theorem logpoly1_integral_knot (p : Poly1 ℝ) (knot : Knot ℝ) :
    Evaluate.evaluate (HasIntegral.integral (⟨p⟩ : Log (Poly1 ℝ)) knot) knot.x = knot.y := by
  rw [logpoly1_integral_eval]; ring

theorem logpoly1_integral_hasDerivAt (p : Poly1 ℝ) (knot : Knot ℝ) (t : ℝ) (ht : 0 < t) :
    HasDerivAt (fun t => Evaluate.evaluate (HasIntegral.integral (⟨p⟩ : Log (Poly1 ℝ)) knot) t)
      (Evaluate.evaluate (⟨p⟩ : Log (Poly1 ℝ)) t) t := by
  rw [funext (logpoly1_integral_eval p knot)]
  exact (logpoly1_indefinite_hasDerivAt p t ht).add_const _

/-- F(b) − F(a) = ∫ₐᵇ p(ln t) dt for all a, b > 0 (either order) -/
theorem logpoly1_integral_ftc (p : Poly1 ℝ) (knot : Knot ℝ) (a b : ℝ) (ha : 0 < a) (hb : 0 < b) :
    Evaluate.evaluate (HasIntegral.integral (⟨p⟩ : Log (Poly1 ℝ)) knot) b
        - Evaluate.evaluate (HasIntegral.integral (⟨p⟩ : Log (Poly1 ℝ)) knot) a
      = ∫ t in a..b, Evaluate.evaluate (⟨p⟩ : Log (Poly1 ℝ)) t :=
  ftc_pos _ _ a b ha hb (logpoly1_integral_hasDerivAt p knot) (log_continuousOn p (poly1_continuous p))

theorem logpoly1_indefinite_ftc (p : Poly1 ℝ) (a b : ℝ) (ha : 0 < a) (hb : 0 < b) :
    Evaluate.evaluate (HasIntegral.indefinite (⟨p⟩ : Log (Poly1 ℝ))) b
        - Evaluate.evaluate (HasIntegral.indefinite (⟨p⟩ : Log (Poly1 ℝ))) a
      = ∫ t in a..b, Evaluate.evaluate (⟨p⟩ : Log (Poly1 ℝ)) t :=
  ftc_pos _ _ a b ha hb (logpoly1_indefinite_hasDerivAt p) (log_continuousOn p (poly1_continuous p))

/-! ## degree 2 -/

/-- the generated recurrence solves Q + Q' = p -/
theorem logpoly2_recurrence (p : Poly2 ℝ) (y : ℝ) :
    Evaluate.evaluate (HasIntegral.indefinite (⟨p⟩ : Log (Poly2 ℝ))).poly y
      + Evaluate.evaluate (HasDerivative.derivative (HasIntegral.indefinite (⟨p⟩ : Log (Poly2 ℝ))).poly) y
      = Evaluate.evaluate p y := by
  rw [poly2_eval, poly2_eval, poly1_eval]
  exact_simp
  ring

theorem logpoly2_indefinite_hasDerivAt (p : Poly2 ℝ) (t : ℝ) (ht : 0 < t) :
    HasDerivAt (fun t => Evaluate.evaluate (HasIntegral.indefinite (⟨p⟩ : Log (Poly2 ℝ))) t)
      (Evaluate.evaluate (⟨p⟩ : Log (Poly2 ℝ)) t) t := by
  have h := intOfLog_hasDerivAt (HasIntegral.indefinite (⟨p⟩ : Log (Poly2 ℝ))) _ t ht (poly2_hasDerivAt _ _)
  rw [logpoly2_recurrence] at h
  exact h

/-- `indefinite` has constant term 0 -/
theorem logpoly2_indefinite_k (p : Poly2 ℝ) : (HasIntegral.indefinite (⟨p⟩ : Log (Poly2 ℝ))).k = 0 := by
  exact_simp

/-- `integral` is `indefinite` with a different constant `k`; the polynomial part is the same -/
theorem logpoly2_integral_eq (p : Poly2 ℝ) (knot : Knot ℝ) :
    HasIntegral.integral (⟨p⟩ : Log (Poly2 ℝ)) knot =
      { HasIntegral.indefinite (⟨p⟩ : Log (Poly2 ℝ)) with
        k := knot.y - Evaluate.evaluate (HasIntegral.indefinite (⟨p⟩ : Log (Poly2 ℝ))) knot.x } := by
  exact_simp
  congr 1
  ring

theorem logpoly2_integral_eval (p : Poly2 ℝ) (knot : Knot ℝ) (t : ℝ) :
    Evaluate.evaluate (HasIntegral.integral (⟨p⟩ : Log (Poly2 ℝ)) knot) t =
      Evaluate.evaluate (HasIntegral.indefinite (⟨p⟩ : Log (Poly2 ℝ))) t
        + (knot.y - Evaluate.evaluate (HasIntegral.indefinite (⟨p⟩ : Log (Poly2 ℝ))) knot.x) := by
  rw [logpoly2_integral_eq]
  simp only [intOfLog_eval, logpoly2_indefinite_k]
  ring

/-- F(knot.x) = knot.y — pure algebra, for every knot -/
theorem logpoly2_integral_knot (p : Poly2 ℝ) (knot : Knot ℝ) :
    Evaluate.evaluate (HasIntegral.integral (⟨p⟩ : Log (Poly2 ℝ)) knot) knot.x = knot.y := by
  rw [logpoly2_integral_eval]; ring

theorem logpoly2_integral_hasDerivAt (p : Poly2 ℝ) (knot : Knot ℝ) (t : ℝ) (ht : 0 < t) :
    HasDerivAt (fun t => Evaluate.evaluate (HasIntegral.integral (⟨p⟩ : Log (Poly2 ℝ)) knot) t)
      (Evaluate.evaluate (⟨p⟩ : Log (Poly2 ℝ)) t) t := by
  rw [funext (logpoly2_integral_eval p knot)]
  exact (logpoly2_indefinite_hasDerivAt p t ht).add_const _

/-- F(b) − F(a) = ∫ₐᵇ p(ln t) dt for all a, b > 0 (either order) -/
theorem logpoly2_integral_ftc (p : Poly2 ℝ) (knot : Knot ℝ) (a b : ℝ) (ha : 0 < a) (hb : 0 < b) :
    Evaluate.evaluate (HasIntegral.integral (⟨p⟩ : Log (Poly2 ℝ)) knot) b
        - Evaluate.evaluate (HasIntegral.integral (⟨p⟩ : Log (Poly2 ℝ)) knot) a
      = ∫ t in a..b, Evaluate.evaluate (⟨p⟩ : Log (Poly2 ℝ)) t :=
  ftc_pos _ _ a b ha hb (logpoly2_integral_hasDerivAt p knot) (log_continuousOn p (poly2_continuous p))

theorem logpoly2_indefinite_ftc (p : Poly2 ℝ) (a b : ℝ) (ha : 0 < a) (hb : 0 < b) :
    Evaluate.evaluate (HasIntegral.indefinite (⟨p⟩ : Log (Poly2 ℝ))) b
        - Evaluate.evaluate (HasIntegral.indefinite (⟨p⟩ : Log (Poly2 ℝ))) a
      = ∫ t in a..b, Evaluate.evaluate (⟨p⟩ : Log (Poly2 ℝ)) t :=
  ftc_pos _ _ a b ha hb (logpoly2_indefinite_hasDerivAt p) (log_continuousOn p (poly2_continuous p))

/-! ## degree 3 -/

/-- the generated recurrence solves Q + Q' = p -/
theorem logpoly3_recurrence (p : Poly3 ℝ) (y : ℝ) :
    Evaluate.evaluate (HasIntegral.indefinite (⟨p⟩ : Log (Poly3 ℝ))).poly y
      + Evaluate.evaluate (HasDerivative.derivative (HasIntegral.indefinite (⟨p⟩ : Log (Poly3 ℝ))).poly) y
      = Evaluate.evaluate p y := by
  rw [poly3_eval, poly3_eval, poly2_eval]
  exact_simp
  ring

theorem logpoly3_indefinite_hasDerivAt (p : Poly3 ℝ) (t : ℝ) (ht : 0 < t) :
    HasDerivAt (fun t => Evaluate.evaluate (HasIntegral.indefinite (⟨p⟩ : Log (Poly3 ℝ))) t)
      (Evaluate.evaluate (⟨p⟩ : Log (Poly3 ℝ)) t) t := by
  have h := intOfLog_hasDerivAt (HasIntegral.indefinite (⟨p⟩ : Log (Poly3 ℝ))) _ t ht (poly3_hasDerivAt _ _)
  rw [logpoly3_recurrence] at h
  exact h

/-- `indefinite` has constant term 0 -/
theorem logpoly3_indefinite_k (p : Poly3 ℝ) : (HasIntegral.indefinite (⟨p⟩ : Log (Poly3 ℝ))).k = 0 := by
  exact_simp

/-- `integral` is `indefinite` with a different constant `k`; the polynomial part is the same -/
theorem logpoly3_integral_eq (p : Poly3 ℝ) (knot : Knot ℝ) :
    HasIntegral.integral (⟨p⟩ : Log (Poly3 ℝ)) knot =
      { HasIntegral.indefinite (⟨p⟩ : Log (Poly3 ℝ)) with
        k := knot.y - Evaluate.evaluate (HasIntegral.indefinite (⟨p⟩ : Log (Poly3 ℝ))) knot.x } := by
  exact_simp
  congr 1
  ring

theorem logpoly3_integral_eval (p : Poly3 ℝ) (knot : Knot ℝ) (t : ℝ) :
    Evaluate.evaluate (HasIntegral.integral (⟨p⟩ : Log (Poly3 ℝ)) knot) t =
      Evaluate.evaluate (HasIntegral.indefinite (⟨p⟩ : Log (Poly3 ℝ))) t
        + (knot.y - Evaluate.evaluate (HasIntegral.indefinite (⟨p⟩ : Log (Poly3 ℝ))) knot.x) := by
  rw [logpoly3_integral_eq]
  simp only [intOfLog_eval, logpoly3_indefinite_k]
  ring

/-- F(knot.x) = knot.y — pure algebra, for every knot -/
theorem logpoly3_integral_knot (p : Poly3 ℝ) (knot : Knot ℝ) :
    Evaluate.evaluate (HasIntegral.integral (⟨p⟩ : Log (Poly3 ℝ)) knot) knot.x = knot.y := by
  rw [logpoly3_integral_eval]; ring

theorem logpoly3_integral_hasDerivAt (p : Poly3 ℝ) (knot : Knot ℝ) (t : ℝ) (ht : 0 < t) :
    HasDerivAt (fun t => Evaluate.evaluate (HasIntegral.integral (⟨p⟩ : Log (Poly3 ℝ)) knot) t)
      (Evaluate.evaluate (⟨p⟩ : Log (Poly3 ℝ)) t) t := by
  rw [funext (logpoly3_integral_eval p knot)]
  exact (logpoly3_indefinite_hasDerivAt p t ht).add_const _

/-- F(b) − F(a) = ∫ₐᵇ p(ln t) dt for all a, b > 0 (either order) -/
theorem logpoly3_integral_ftc (p : Poly3 ℝ) (knot : Knot ℝ) (a b : ℝ) (ha : 0 < a) (hb : 0 < b) :
    Evaluate.evaluate (HasIntegral.integral (⟨p⟩ : Log (Poly3 ℝ)) knot) b
        - Evaluate.evaluate (HasIntegral.integral (⟨p⟩ : Log (Poly3 ℝ)) knot) a
      = ∫ t in a..b, Evaluate.evaluate (⟨p⟩ : Log (Poly3 ℝ)) t :=
  ftc_pos _ _ a b ha hb (logpoly3_integral_hasDerivAt p knot) (log_continuousOn p (poly3_continuous p))

theorem logpoly3_indefinite_ftc (p : Poly3 ℝ) (a b : ℝ) (ha : 0 < a) (hb : 0 < b) :
    Evaluate.evaluate (HasIntegral.indefinite (⟨p⟩ : Log (Poly3 ℝ))) b
        - Evaluate.evaluate (HasIntegral.indefinite (⟨p⟩ : Log (Poly3 ℝ))) a
      = ∫ t in a..b, Evaluate.evaluate (⟨p⟩ : Log (Poly3 ℝ)) t :=
  ftc_pos _ _ a b ha hb (logpoly3_indefinite_hasDerivAt p) (log_continuousOn p (poly3_continuous p))

/-! ## degree 5 -/

/-- the generated recurrence solves Q + Q' = p -/
theorem logpoly5_recurrence (p : Poly5 ℝ) (y : ℝ) :
    Evaluate.evaluate (HasIntegral.indefinite (⟨p⟩ : Log (Poly5 ℝ))).poly y
      + Evaluate.evaluate (HasDerivative.derivative (HasIntegral.indefinite (⟨p⟩ : Log (Poly5 ℝ))).poly) y
      = Evaluate.evaluate p y := by
  rw [poly5_eval, poly5_eval, poly4_eval]
  exact_simp
  ring

theorem logpoly5_indefinite_hasDerivAt (p : Poly5 ℝ) (t : ℝ) (ht : 0 < t) :
    HasDerivAt (fun t => Evaluate.evaluate (HasIntegral.indefinite (⟨p⟩ : Log (Poly5 ℝ))) t)
      (Evaluate.evaluate (⟨p⟩ : Log (Poly5 ℝ)) t) t := by
  have h := intOfLog_hasDerivAt (HasIntegral.indefinite (⟨p⟩ : Log (Poly5 ℝ))) _ t ht (poly5_hasDerivAt _ _)
  rw [logpoly5_recurrence] at h
  exact h

/-- `indefinite` has constant term 0 -/
theorem logpoly5_indefinite_k (p : Poly5 ℝ) : (HasIntegral.indefinite (⟨p⟩ : Log (Poly5 ℝ))).k = 0 := by
  exact_simp

/-- `integral` is `indefinite` with a different constant `k`; the polynomial part is the same -/
theorem logpoly5_integral_eq (p : Poly5 ℝ) (knot : Knot ℝ) :
    HasIntegral.integral (⟨p⟩ : Log (Poly5 ℝ)) knot =
      { HasIntegral.indefinite (⟨p⟩ : Log (Poly5 ℝ)) with
        k := knot.y - Evaluate.evaluate (HasIntegral.indefinite (⟨p⟩ : Log (Poly5 ℝ))) knot.x } := by
  exact_simp
  congr 1
  ring

theorem logpoly5_integral_eval (p : Poly5 ℝ) (knot : Knot ℝ) (t : ℝ) :
    Evaluate.evaluate (HasIntegral.integral (⟨p⟩ : Log (Poly5 ℝ)) knot) t =
      Evaluate.evaluate (HasIntegral.indefinite (⟨p⟩ : Log (Poly5 ℝ))) t
        + (knot.y - Evaluate.evaluate (HasIntegral.indefinite (⟨p⟩ : Log (Poly5 ℝ))) knot.x) := by
  rw [logpoly5_integral_eq]
  simp only [intOfLog_eval, logpoly5_indefinite_k]
  ring

/-- F(knot.x) = knot.y — pure algebra, for every knot -/
theorem logpoly5_integral_knot (p : Poly5 ℝ) (knot : Knot ℝ) :
    Evaluate.evaluate (HasIntegral.integral (⟨p⟩ : Log (Poly5 ℝ)) knot) knot.x = knot.y := by
  rw [logpoly5_integral_eval]; ring

theorem logpoly5_integral_hasDerivAt (p : Poly5 ℝ) (knot : Knot ℝ) (t : ℝ) (ht : 0 < t) :
    HasDerivAt (fun t => Evaluate.evaluate (HasIntegral.integral (⟨p⟩ : Log (Poly5 ℝ)) knot) t)
      (Evaluate.evaluate (⟨p⟩ : Log (Poly5 ℝ)) t) t := by
  rw [funext (logpoly5_integral_eval p knot)]
  exact (logpoly5_indefinite_hasDerivAt p t ht).add_const _

/-- F(b) − F(a) = ∫ₐᵇ p(ln t) dt for all a, b > 0 (either order) -/
theorem logpoly5_integral_ftc (p : Poly5 ℝ) (knot : Knot ℝ) (a b : ℝ) (ha : 0 < a) (hb : 0 < b) :
    Evaluate.evaluate (HasIntegral.integral (⟨p⟩ : Log (Poly5 ℝ)) knot) b
        - Evaluate.evaluate (HasIntegral.integral (⟨p⟩ : Log (Poly5 ℝ)) knot) a
      = ∫ t in a..b, Evaluate.evaluate (⟨p⟩ : Log (Poly5 ℝ)) t :=
  ftc_pos _ _ a b ha hb (logpoly5_integral_hasDerivAt p knot) (log_continuousOn p (poly5_continuous p))

theorem logpoly5_indefinite_ftc (p : Poly5 ℝ) (a b : ℝ) (ha : 0 < a) (hb : 0 < b) :
    Evaluate.evaluate (HasIntegral.indefinite (⟨p⟩ : Log (Poly5 ℝ))) b
        - Evaluate.evaluate (HasIntegral.indefinite (⟨p⟩ : Log (Poly5 ℝ))) a
      = ∫ t in a..b, Evaluate.evaluate (⟨p⟩ : Log (Poly5 ℝ)) t :=
  ftc_pos _ _ a b ha hb (logpoly5_indefinite_hasDerivAt p) (log_continuousOn p (poly5_continuous p))

/-! ## degree 6 -/

/-- the generated recurrence solves Q + Q' = p -/
theorem logpoly6_recurrence (p : Poly6 ℝ) (y : ℝ) :
    Evaluate.evaluate (HasIntegral.indefinite (⟨p⟩ : Log (Poly6 ℝ))).poly y
      + Evaluate.evaluate (HasDerivative.derivative (HasIntegral.indefinite (⟨p⟩ : Log (Poly6 ℝ))).poly) y
      = Evaluate.evaluate p y := by
  rw [poly6_eval, poly6_eval, poly5_eval]
  exact_simp
  ring

theorem logpoly6_indefinite_hasDerivAt (p : Poly6 ℝ) (t : ℝ) (ht : 0 < t) :
    HasDerivAt (fun t => Evaluate.evaluate (HasIntegral.indefinite (⟨p⟩ : Log (Poly6 ℝ))) t)
      (Evaluate.evaluate (⟨p⟩ : Log (Poly6 ℝ)) t) t := by
  have h := intOfLog_hasDerivAt (HasIntegral.indefinite (⟨p⟩ : Log (Poly6 ℝ))) _ t ht (poly6_hasDerivAt _ _)
  rw [logpoly6_recurrence] at h
  exact h

/-- `indefinite` has constant term 0 -/
theorem logpoly6_indefinite_k (p : Poly6 ℝ) : (HasIntegral.indefinite (⟨p⟩ : Log (Poly6 ℝ))).k = 0 := by
  exact_simp

/-- `integral` is `indefinite` with a different constant `k`; the polynomial part is the same -/
theorem logpoly6_integral_eq (p : Poly6 ℝ) (knot : Knot ℝ) :
    HasIntegral.integral (⟨p⟩ : Log (Poly6 ℝ)) knot =
      { HasIntegral.indefinite (⟨p⟩ : Log (Poly6 ℝ)) with
        k := knot.y - Evaluate.evaluate (HasIntegral.indefinite (⟨p⟩ : Log (Poly6 ℝ))) knot.x } := by
  exact_simp
  congr 1
  ring

theorem logpoly6_integral_eval (p : Poly6 ℝ) (knot : Knot ℝ) (t : ℝ) :
    Evaluate.evaluate (HasIntegral.integral (⟨p⟩ : Log (Poly6 ℝ)) knot) t =
      Evaluate.evaluate (HasIntegral.indefinite (⟨p⟩ : Log (Poly6 ℝ))) t
        + (knot.y - Evaluate.evaluate (HasIntegral.indefinite (⟨p⟩ : Log (Poly6 ℝ))) knot.x) := by
  rw [logpoly6_integral_eq]
  simp only [intOfLog_eval, logpoly6_indefinite_k]
  ring

/-- F(knot.x) = knot.y — pure algebra, for every knot -/
theorem logpoly6_integral_knot (p : Poly6 ℝ) (knot : Knot ℝ) :
    Evaluate.evaluate (HasIntegral.integral (⟨p⟩ : Log (Poly6 ℝ)) knot) knot.x = knot.y := by
  rw [logpoly6_integral_eval]; ring

theorem logpoly6_integral_hasDerivAt (p : Poly6 ℝ) (knot : Knot ℝ) (t : ℝ) (ht : 0 < t) :
    HasDerivAt (fun t => Evaluate.evaluate (HasIntegral.integral (⟨p⟩ : Log (Poly6 ℝ)) knot) t)
      (Evaluate.evaluate (⟨p⟩ : Log (Poly6 ℝ)) t) t := by
  rw [funext (logpoly6_integral_eval p knot)]
  exact (logpoly6_indefinite_hasDerivAt p t ht).add_const _

/-- F(b) − F(a) = ∫ₐᵇ p(ln t) dt for all a, b > 0 (either order) -/
theorem logpoly6_integral_ftc (p : Poly6 ℝ) (knot : Knot ℝ) (a b : ℝ) (ha : 0 < a) (hb : 0 < b) :
    Evaluate.evaluate (HasIntegral.integral (⟨p⟩ : Log (Poly6 ℝ)) knot) b
        - Evaluate.evaluate (HasIntegral.integral (⟨p⟩ : Log (Poly6 ℝ)) knot) a
      = ∫ t in a..b, Evaluate.evaluate (⟨p⟩ : Log (Poly6 ℝ)) t :=
  ftc_pos _ _ a b ha hb (logpoly6_integral_hasDerivAt p knot) (log_continuousOn p (poly6_continuous p))

theorem logpoly6_indefinite_ftc (p : Poly6 ℝ) (a b : ℝ) (ha : 0 < a) (hb : 0 < b) :
    Evaluate.evaluate (HasIntegral.indefinite (⟨p⟩ : Log (Poly6 ℝ))) b
        - Evaluate.evaluate (HasIntegral.indefinite (⟨p⟩ : Log (Poly6 ℝ))) a
      = ∫ t in a..b, Evaluate.evaluate (⟨p⟩ : Log (Poly6 ℝ)) t :=
  ftc_pos _ _ a b ha hb (logpoly6_indefinite_hasDerivAt p) (log_continuousOn p (poly6_continuous p))

/-! ## degree 7 -/

/-- the generated recurrence solves Q + Q' = p -/
theorem logpoly7_recurrence (p : Poly7 ℝ) (y : ℝ) :
    Evaluate.evaluate (HasIntegral.indefinite (⟨p⟩ : Log (Poly7 ℝ))).poly y
      + Evaluate.evaluate (HasDerivative.derivative (HasIntegral.indefinite (⟨p⟩ : Log (Poly7 ℝ))).poly) y
      = Evaluate.evaluate p y := by
  rw [poly7_eval, poly7_eval, poly6_eval]
  exact_simp
  ring

theorem logpoly7_indefinite_hasDerivAt (p : Poly7 ℝ) (t : ℝ) (ht : 0 < t) :
    HasDerivAt (fun t => Evaluate.evaluate (HasIntegral.indefinite (⟨p⟩ : Log (Poly7 ℝ))) t)
      (Evaluate.evaluate (⟨p⟩ : Log (Poly7 ℝ)) t) t := by
  have h := intOfLog_hasDerivAt (HasIntegral.indefinite (⟨p⟩ : Log (Poly7 ℝ))) _ t ht (poly7_hasDerivAt _ _)
  rw [logpoly7_recurrence] at h
  exact h

/-- `indefinite` has constant term 0 -/
theorem logpoly7_indefinite_k (p : Poly7 ℝ) : (HasIntegral.indefinite (⟨p⟩ : Log (Poly7 ℝ))).k = 0 := by
  exact_simp

/-- `integral` is `indefinite` with a different constant `k`; the polynomial part is the same -/
theorem logpoly7_integral_eq (p : Poly7 ℝ) (knot : Knot ℝ) :
    HasIntegral.integral (⟨p⟩ : Log (Poly7 ℝ)) knot =
      { HasIntegral.indefinite (⟨p⟩ : Log (Poly7 ℝ)) with
        k := knot.y - Evaluate.evaluate (HasIntegral.indefinite (⟨p⟩ : Log (Poly7 ℝ))) knot.x } := by
  exact_simp
  congr 1
  ring

theorem logpoly7_integral_eval (p : Poly7 ℝ) (knot : Knot ℝ) (t : ℝ) :
    Evaluate.evaluate (HasIntegral.integral (⟨p⟩ : Log (Poly7 ℝ)) knot) t =
      Evaluate.evaluate (HasIntegral.indefinite (⟨p⟩ : Log (Poly7 ℝ))) t
        + (knot.y - Evaluate.evaluate (HasIntegral.indefinite (⟨p⟩ : Log (Poly7 ℝ))) knot.x) := by
  rw [logpoly7_integral_eq]
  simp only [intOfLog_eval, logpoly7_indefinite_k]
  ring

/-- F(knot.x) = knot.y — pure algebra, for every knot -/
theorem logpoly7_integral_knot (p : Poly7 ℝ) (knot : Knot ℝ) :
    Evaluate.evaluate (HasIntegral.integral (⟨p⟩ : Log (Poly7 ℝ)) knot) knot.x = knot.y := by
  rw [logpoly7_integral_eval]; ring

theorem logpoly7_integral_hasDerivAt (p : Poly7 ℝ) (knot : Knot ℝ) (t : ℝ) (ht : 0 < t) :
    HasDerivAt (fun t => Evaluate.evaluate (HasIntegral.integral (⟨p⟩ : Log (Poly7 ℝ)) knot) t)
      (Evaluate.evaluate (⟨p⟩ : Log (Poly7 ℝ)) t) t := by
  rw [funext (logpoly7_integral_eval p knot)]
  exact (logpoly7_indefinite_hasDerivAt p t ht).add_const _

/-- F(b) − F(a) = ∫ₐᵇ p(ln t) dt for all a, b > 0 (either order) -/
theorem logpoly7_integral_ftc (p : Poly7 ℝ) (knot : Knot ℝ) (a b : ℝ) (ha : 0 < a) (hb : 0 < b) :
    Evaluate.evaluate (HasIntegral.integral (⟨p⟩ : Log (Poly7 ℝ)) knot) b
        - Evaluate.evaluate (HasIntegral.integral (⟨p⟩ : Log (Poly7 ℝ)) knot) a
      = ∫ t in a..b, Evaluate.evaluate (⟨p⟩ : Log (Poly7 ℝ)) t :=
  ftc_pos _ _ a b ha hb (logpoly7_integral_hasDerivAt p knot) (log_continuousOn p (poly7_continuous p))

theorem logpoly7_indefinite_ftc (p : Poly7 ℝ) (a b : ℝ) (ha : 0 < a) (hb : 0 < b) :
    Evaluate.evaluate (HasIntegral.indefinite (⟨p⟩ : Log (Poly7 ℝ))) b
        - Evaluate.evaluate (HasIntegral.indefinite (⟨p⟩ : Log (Poly7 ℝ))) a
      = ∫ t in a..b, Evaluate.evaluate (⟨p⟩ : Log (Poly7 ℝ)) t :=
  ftc_pos _ _ a b ha hb (logpoly7_indefinite_hasDerivAt p) (log_continuousOn p (poly7_continuous p))

/-! ## degree 8 -/

/-- the generated recurrence solves Q + Q' = p -/
theorem logpoly8_recurrence (p : Poly8 ℝ) (y : ℝ) :
    Evaluate.evaluate (HasIntegral.indefinite (⟨p⟩ : Log (Poly8 ℝ))).poly y
      + Evaluate.evaluate (HasDerivative.derivative (HasIntegral.indefinite (⟨p⟩ : Log (Poly8 ℝ))).poly) y
      = Evaluate.evaluate p y := by
  rw [poly8_eval, poly8_eval, poly7_eval]
  exact_simp
  ring

theorem logpoly8_indefinite_hasDerivAt (p : Poly8 ℝ) (t : ℝ) (ht : 0 < t) :
    HasDerivAt (fun t => Evaluate.evaluate (HasIntegral.indefinite (⟨p⟩ : Log (Poly8 ℝ))) t)
      (Evaluate.evaluate (⟨p⟩ : Log (Poly8 ℝ)) t) t := by
  have h := intOfLog_hasDerivAt (HasIntegral.indefinite (⟨p⟩ : Log (Poly8 ℝ))) _ t ht (poly8_hasDerivAt _ _)
  rw [logpoly8_recurrence] at h
  exact h

/-- `indefinite` has constant term 0 -/
theorem logpoly8_indefinite_k (p : Poly8 ℝ) : (HasIntegral.indefinite (⟨p⟩ : Log (Poly8 ℝ))).k = 0 := by
  exact_simp

/-- `integral` is `indefinite` with a different constant `k`; the polynomial part is the same -/
theorem logpoly8_integral_eq (p : Poly8 ℝ) (knot : Knot ℝ) :
    HasIntegral.integral (⟨p⟩ : Log (Poly8 ℝ)) knot =
      { HasIntegral.indefinite (⟨p⟩ : Log (Poly8 ℝ)) with
        k := knot.y - Evaluate.evaluate (HasIntegral.indefinite (⟨p⟩ : Log (Poly8 ℝ))) knot.x } := by
  exact_simp
  congr 1
  ring

theorem logpoly8_integral_eval (p : Poly8 ℝ) (knot : Knot ℝ) (t : ℝ) :
    Evaluate.evaluate (HasIntegral.integral (⟨p⟩ : Log (Poly8 ℝ)) knot) t =
      Evaluate.evaluate (HasIntegral.indefinite (⟨p⟩ : Log (Poly8 ℝ))) t
        + (knot.y - Evaluate.evaluate (HasIntegral.indefinite (⟨p⟩ : Log (Poly8 ℝ))) knot.x) := by
  rw [logpoly8_integral_eq]
  simp only [intOfLog_eval, logpoly8_indefinite_k]
  ring

/-- F(knot.x) = knot.y — pure algebra, for every knot -/
theorem logpoly8_integral_knot (p : Poly8 ℝ) (knot : Knot ℝ) :
    Evaluate.evaluate (HasIntegral.integral (⟨p⟩ : Log (Poly8 ℝ)) knot) knot.x = knot.y := by
  rw [logpoly8_integral_eval]; ring

theorem logpoly8_integral_hasDerivAt (p : Poly8 ℝ) (knot : Knot ℝ) (t : ℝ) (ht : 0 < t) :
    HasDerivAt (fun t => Evaluate.evaluate (HasIntegral.integral (⟨p⟩ : Log (Poly8 ℝ)) knot) t)
      (Evaluate.evaluate (⟨p⟩ : Log (Poly8 ℝ)) t) t := by
  rw [funext (logpoly8_integral_eval p knot)]
  exact (logpoly8_indefinite_hasDerivAt p t ht).add_const _

/-- F(b) − F(a) = ∫ₐᵇ p(ln t) dt for all a, b > 0 (either order) -/
theorem logpoly8_integral_ftc (p : Poly8 ℝ) (knot : Knot ℝ) (a b : ℝ) (ha : 0 < a) (hb : 0 < b) :
    Evaluate.evaluate (HasIntegral.integral (⟨p⟩ : Log (Poly8 ℝ)) knot) b
        - Evaluate.evaluate (HasIntegral.integral (⟨p⟩ : Log (Poly8 ℝ)) knot) a
      = ∫ t in a..b, Evaluate.evaluate (⟨p⟩ : Log (Poly8 ℝ)) t :=
  ftc_pos _ _ a b ha hb (logpoly8_integral_hasDerivAt p knot) (log_continuousOn p (poly8_continuous p))

theorem logpoly8_indefinite_ftc (p : Poly8 ℝ) (a b : ℝ) (ha : 0 < a) (hb : 0 < b) :
    Evaluate.evaluate (HasIntegral.indefinite (⟨p⟩ : Log (Poly8 ℝ))) b
        - Evaluate.evaluate (HasIntegral.indefinite (⟨p⟩ : Log (Poly8 ℝ))) a
      = ∫ t in a..b, Evaluate.evaluate (⟨p⟩ : Log (Poly8 ℝ)) t :=
  ftc_pos _ _ a b ha hb (logpoly8_indefinite_hasDerivAt p) (log_continuousOn p (poly8_continuous p))

/-! ## degree 4 — `IntOfLogPoly4`, evaluated through `exp_5_taylor` -/
section deg4
open LogPoly.taylor

/-! ### which branch `exp_5_taylor` takes, and what the branches are -/

/-- inside the window −1.71 < x < 1.72 the 16-term Taylor polynomial is used … -/
theorem exp_5_taylor_of_near (x : ℝ) (h1 : -1.71 < x) (h2 : x < 1.72) :
    exp_5_taylor x = exp_5_tail_taylor x := by
  have h1' : (-(171 * (10:ℝ) ^ (-2 : ℤ))) < x := by norm_num at h1 ⊢; linarith
  have h2' : x < 172 * (10:ℝ) ^ (-2 : ℤ) := by norm_num at h2 ⊢; linarith
  simp only [exp_5_taylor, PNeg.neg, FloatLike.neg, FloatLike.ofDec, FloatLike.lt, Int.cast_ofNat, Int.reduceNeg,
    h1', h2', decide_true, Bool.and_self, if_true]

/-- … and outside it (x ≤ −1.71 or 1.72 ≤ x) the closed form -/
theorem exp_5_taylor_of_far (x : ℝ) (h : x ≤ -1.71 ∨ 1.72 ≤ x) :
    exp_5_taylor x = exp_5_tail_anal x := by
  have h' : ¬ ((-(171 * (10:ℝ) ^ (-2 : ℤ))) < x ∧ x < 172 * (10:ℝ) ^ (-2 : ℤ)) := by
    norm_num at h ⊢; intro h1; rcases h with h | h <;> linarith
  simp only [exp_5_taylor, PNeg.neg, FloatLike.neg, FloatLike.ofDec, FloatLike.lt, Int.cast_ofNat, Int.reduceNeg,
    Bool.and_eq_true, decide_eq_true_eq, h', if_false]

/-- the closed-form branch is R(x) = (eˣ − Σ_{j<5} xʲ/j!)/x⁵ for x ≠ 0 -/
theorem exp_5_tail_anal_eq (x : ℝ) (hx : x ≠ 0) :
    exp_5_tail_anal x = (Real.exp x - (1 + x + x ^ 2 / 2 + x ^ 3 / 6 + x ^ 4 / 24)) / x ^ 5 := by
  simp only [exp_5_tail_anal, PNeg.neg, PDiv.div, PSub.sub, PMul.mul, FloatLike.recip, FloatLike.fma, FloatLike.mul,
    FloatLike.neg, FloatLike.div, FloatLike.sub, FloatLike.exp, FloatLike.ofDec, exp_eq]
  norm_num
  field_simp
  ring

/-- (in exact arithmetic 1/0 = 0, so the closed-form branch is 0 at 0; the generated code never calls it there) -/
theorem exp_5_tail_anal_zero : exp_5_tail_anal (0 : ℝ) = 0 := by
  simp only [exp_5_tail_anal, PNeg.neg, PDiv.div, PSub.sub, PMul.mul, FloatLike.recip, FloatLike.fma, FloatLike.mul,
    FloatLike.neg, FloatLike.div, FloatLike.sub, FloatLike.exp, FloatLike.ofDec, exp_eq]
  norm_num

/-- the series branch is Σ_{j<16} xʲ/(j+5)! -/
theorem exp_5_tail_taylor_eq (x : ℝ) :
    exp_5_tail_taylor x = ∑ j ∈ Finset.range 16, x ^ j / ((j + 5).factorial : ℝ) := by
  simp only [exp_5_tail_taylor, PDiv.div, PMul.mul, FloatLike.fma, FloatLike.mul,
    FloatLike.div, FloatLike.ofDec, Finset.sum_range_succ, Finset.sum_range_zero, Nat.factorial]
  norm_num
  ring

theorem exp_5_tail_taylor_eq' (x : ℝ) :
    exp_5_tail_taylor x = 1 / 120 + x / 720 + x ^ 2 / 5040 + x ^ 3 / 40320 + x ^ 4 / 362880 + x ^ 5 / 3628800
      + x ^ 6 / 39916800 + x ^ 7 / 479001600 + x ^ 8 / 6227020800 + x ^ 9 / 87178291200
      + x ^ 10 / 1307674368000 + x ^ 11 / 20922789888000 + x ^ 12 / 355687428096000
      + x ^ 13 / 6402373705728000 + x ^ 14 / 121645100408832000 + x ^ 15 / 2432902008176640000 := by
  simp only [exp_5_tail_taylor, PDiv.div, PMul.mul, FloatLike.fma, FloatLike.mul,
    FloatLike.div, FloatLike.ofDec]
  norm_num
  ring

/-! ### the generated evaluation, parametrised by the tail function -/

/-- the generated `IntOfLogPoly4::evaluate` with the function `E` in place of `exp_5_taylor`:
`k + v·(a·x + b·x² + c·x³ + d·x⁴ + u·E(x)·x⁵)`, `x = −ln v` -/
noncomputable def evalWith (E : ℝ → ℝ) (q : IntOfLogPoly4 ℝ) (v : ℝ) : ℝ :=
  let x := -Real.log v
  v * (q.coeffs.a0 * x + q.coeffs.a1 * x ^ 2 + q.coeffs.a2 * x ^ 3 + q.coeffs.a3 * x ^ 4
        + q.u * E x * x ^ 5) + q.k

/-- the generated function is `evalWith exp_5_taylor` -/
theorem intOfLogPoly4_eval (q : IntOfLogPoly4 ℝ) (v : ℝ) :
    Evaluate.evaluate q v = evalWith exp_5_taylor q v := by
  simp only [evalWith, Evaluate.evaluate, inst_Evaluate_IntOfLogPoly4.evaluate, PMul.mul, PNeg.neg,
    FloatLike.fma, FloatLike.mul, FloatLike.neg, FloatLike.ln, FloatLike.ofDec, ln_eq]
  generalize exp_5_taylor (-Real.log v) = e
  ring

/-- `v` is outside the Taylor window: ln v ≥ 1.71 or ln v ≤ −1.72 (v ≥ 5.53 or v ≤ 0.179, about) -/
def Far (v : ℝ) : Prop := 1.71 ≤ Real.log v ∨ Real.log v ≤ -1.72
/-- `v` is inside the Taylor window: −1.72 < ln v < 1.71 -/
def Near (v : ℝ) : Prop := -1.72 < Real.log v ∧ Real.log v < 1.71

theorem near_or_far (v : ℝ) : Near v ∨ Far v := by
  unfold Near Far
  rcases lt_or_ge (Real.log v) 1.71 with h | h
  · rcases lt_or_ge (-1.72) (Real.log v) with h' | h'
    · exact Or.inl ⟨h', h⟩
    · exact Or.inr (Or.inr h')
  · exact Or.inr (Or.inl h)

/-- outside the window the generated function IS the closed-form one … -/
theorem intOfLogPoly4_eval_far (q : IntOfLogPoly4 ℝ) (v : ℝ) (h : Far v) :
    Evaluate.evaluate q v = evalWith exp_5_tail_anal q v := by
  rw [intOfLogPoly4_eval]
  simp only [evalWith]
  rw [exp_5_taylor_of_far]
  rcases h with h | h
  · left; linarith
  · right; linarith

/-- … and inside the window it is the series one -/
theorem intOfLogPoly4_eval_near (q : IntOfLogPoly4 ℝ) (v : ℝ) (h : Near v) :
    Evaluate.evaluate q v = evalWith exp_5_tail_taylor q v := by
  rw [intOfLogPoly4_eval]
  simp only [evalWith]
  rw [exp_5_taylor_of_near _ (by linarith [h.2]) (by linarith [h.1])]

/-! ### `integral` versus `indefinite` (pure algebra, both branches) -/

theorem logpoly4_indefinite_k (p : Poly4 ℝ) : (HasIntegral.indefinite (⟨p⟩ : Log (Poly4 ℝ))).k = 0 := by
  exact_simp

/-- the generated recurrence, explicitly: a = −c₀, b = (a + c₁)/2, c = (b − c₂)/3, d = (c + c₃)/4, u = 24(d − c₄) -/
theorem logpoly4_indefinite_lanes (p : Poly4 ℝ) :
    HasIntegral.indefinite (⟨p⟩ : Log (Poly4 ℝ)) =
      (let a := -p._0.a0
       let b := (a + p._0.a1) * (1 / 2)
       let c := (b - p._0.a2) * (1 / 3)
       let d := (c + p._0.a3) * (1 / 4)
       ({ k := 0, coeffs := ⟨a, b, c, d⟩, u := (d - p._0.a4) * 24 } : IntOfLogPoly4 ℝ)) := by
  exact_simp

/-- `integral` is `indefinite` with a different constant `k`; `coeffs` and `u` are the same -/
theorem logpoly4_integral_eq (p : Poly4 ℝ) (knot : Knot ℝ) :
    HasIntegral.integral (⟨p⟩ : Log (Poly4 ℝ)) knot =
      { HasIntegral.indefinite (⟨p⟩ : Log (Poly4 ℝ)) with
        k := knot.y - Evaluate.evaluate (HasIntegral.indefinite (⟨p⟩ : Log (Poly4 ℝ))) knot.x } := by
  have h0 := logpoly4_indefinite_k p
  show ({ HasIntegral.indefinite (⟨p⟩ : Log (Poly4 ℝ)) with
      k := (HasIntegral.indefinite (⟨p⟩ : Log (Poly4 ℝ))).k
        + (knot.y - Evaluate.evaluate (HasIntegral.indefinite (⟨p⟩ : Log (Poly4 ℝ))) knot.x) }
      : IntOfLogPoly4 ℝ) = _
  rw [h0, zero_add]

theorem evalWith_integral (E : ℝ → ℝ) (p : Poly4 ℝ) (knot : Knot ℝ) (t : ℝ) :
    evalWith E (HasIntegral.integral (⟨p⟩ : Log (Poly4 ℝ)) knot) t =
      evalWith E (HasIntegral.indefinite (⟨p⟩ : Log (Poly4 ℝ))) t
        + (knot.y - Evaluate.evaluate (HasIntegral.indefinite (⟨p⟩ : Log (Poly4 ℝ))) knot.x) := by
  rw [logpoly4_integral_eq]
  simp only [evalWith, logpoly4_indefinite_k]
  ring

theorem logpoly4_integral_eval (p : Poly4 ℝ) (knot : Knot ℝ) (t : ℝ) :
    Evaluate.evaluate (HasIntegral.integral (⟨p⟩ : Log (Poly4 ℝ)) knot) t =
      Evaluate.evaluate (HasIntegral.indefinite (⟨p⟩ : Log (Poly4 ℝ))) t
        + (knot.y - Evaluate.evaluate (HasIntegral.indefinite (⟨p⟩ : Log (Poly4 ℝ))) knot.x) := by
  rw [intOfLogPoly4_eval, evalWith_integral, ← intOfLogPoly4_eval]

/-- F(knot.x) = knot.y for the generated function — every knot, whichever branch is taken -/
theorem logpoly4_integral_knot (p : Poly4 ℝ) (knot : Knot ℝ) :
    Evaluate.evaluate (HasIntegral.integral (⟨p⟩ : Log (Poly4 ℝ)) knot) knot.x = knot.y := by
  rw [logpoly4_integral_eval]; ring

/-! ### the closed-form function is an exact antiderivative on (0,∞) -/

/-- coefficients (in y = ln v) of the closed form: `evalWith exp_5_tail_anal q v = v·Q(ln v) + (u + k)` -/
noncomputable def closedCoeffs (q : IntOfLogPoly4 ℝ) : List ℝ :=
  [-q.u, q.u - q.coeffs.a0, q.coeffs.a1 - q.u / 2, q.u / 6 - q.coeffs.a2, q.coeffs.a3 - q.u / 24]

theorem evalWith_anal_closed (q : IntOfLogPoly4 ℝ) (v : ℝ) (hv : 0 < v) :
    evalWith exp_5_tail_anal q v = v * polySum (closedCoeffs q) (Real.log v) + (q.u + q.k) := by
  by_cases h0 : Real.log v = 0
  · have hv1 : v = 1 := Real.eq_one_of_pos_of_log_eq_zero hv h0
    subst hv1
    simp only [evalWith, closedCoeffs, polySum, Real.log_one]
    ring
  · have hx : -Real.log v ≠ 0 := neg_ne_zero.mpr h0
    simp only [evalWith, closedCoeffs, polySum, exp_5_tail_anal_eq _ hx, Real.exp_neg, Real.exp_log hv]
    field_simp
    ring

theorem evalWith_anal_hasDerivAt (q : IntOfLogPoly4 ℝ) (t : ℝ) (ht : 0 < t) :
    HasDerivAt (fun t => evalWith exp_5_tail_anal q t)
      (polySum (closedCoeffs q) (Real.log t) + dSum (closedCoeffs q) (Real.log t)) t := by
  have h := (hasDerivAt_mul_comp_log (fun y => polySum (closedCoeffs q) y) _ t ht
    (hasDerivAt_polySum _ _)).add_const (q.u + q.k)
  refine h.congr_of_eventuallyEq ?_
  filter_upwards [lt_mem_nhds ht] with v hv
  exact evalWith_anal_closed q v hv

/-- the generated recurrence (a, b, c, d, u) solves Q + Q' = p -/
theorem logpoly4_closed_identity (p : Poly4 ℝ) (y : ℝ) :
    polySum (closedCoeffs (HasIntegral.indefinite (⟨p⟩ : Log (Poly4 ℝ)))) y
      + dSum (closedCoeffs (HasIntegral.indefinite (⟨p⟩ : Log (Poly4 ℝ)))) y
      = Evaluate.evaluate p y := by
  rw [poly4_eval]
  simp only [closedCoeffs, polySum, dSum]
  exact_simp
  ring

/-- C09.1 for k = 4, closed-form tail: an exact antiderivative of p(ln t) at every t > 0 (t = 1 included) -/
theorem logpoly4_indefinite_closed_hasDerivAt (p : Poly4 ℝ) (t : ℝ) (ht : 0 < t) :
    HasDerivAt (fun t => evalWith exp_5_tail_anal (HasIntegral.indefinite (⟨p⟩ : Log (Poly4 ℝ))) t)
      (Evaluate.evaluate (⟨p⟩ : Log (Poly4 ℝ)) t) t := by
  have h := evalWith_anal_hasDerivAt (HasIntegral.indefinite (⟨p⟩ : Log (Poly4 ℝ))) t ht
  rw [logpoly4_closed_identity] at h
  exact h

/-- C09.2 for k = 4, closed-form tail -/
theorem logpoly4_integral_closed_hasDerivAt (p : Poly4 ℝ) (knot : Knot ℝ) (t : ℝ) (ht : 0 < t) :
    HasDerivAt (fun t => evalWith exp_5_tail_anal (HasIntegral.integral (⟨p⟩ : Log (Poly4 ℝ)) knot) t)
      (Evaluate.evaluate (⟨p⟩ : Log (Poly4 ℝ)) t) t := by
  rw [funext (evalWith_integral exp_5_tail_anal p knot)]
  exact (logpoly4_indefinite_closed_hasDerivAt p t ht).add_const _

/-- with the closed-form tail, F(knot.x) = knot.y when the knot is outside the Taylor window (the constant `k` is
computed by the generated evaluation; inside the window the two differ by the truncation error, C10) -/
theorem logpoly4_integral_closed_knot (p : Poly4 ℝ) (knot : Knot ℝ) (h : Far knot.x) :
    evalWith exp_5_tail_anal (HasIntegral.integral (⟨p⟩ : Log (Poly4 ℝ)) knot) knot.x = knot.y := by
  rw [← intOfLogPoly4_eval_far _ _ h, logpoly4_integral_knot]

/-- C09.3 for k = 4, closed-form tail: all a, b > 0 -/
theorem logpoly4_integral_closed_ftc (p : Poly4 ℝ) (knot : Knot ℝ) (a b : ℝ) (ha : 0 < a) (hb : 0 < b) :
    evalWith exp_5_tail_anal (HasIntegral.integral (⟨p⟩ : Log (Poly4 ℝ)) knot) b
        - evalWith exp_5_tail_anal (HasIntegral.integral (⟨p⟩ : Log (Poly4 ℝ)) knot) a
      = ∫ t in a..b, Evaluate.evaluate (⟨p⟩ : Log (Poly4 ℝ)) t :=
  ftc_pos _ _ a b ha hb (logpoly4_integral_closed_hasDerivAt p knot) (log_continuousOn p (poly4_continuous p))

theorem logpoly4_indefinite_closed_ftc (p : Poly4 ℝ) (a b : ℝ) (ha : 0 < a) (hb : 0 < b) :
    evalWith exp_5_tail_anal (HasIntegral.indefinite (⟨p⟩ : Log (Poly4 ℝ))) b
        - evalWith exp_5_tail_anal (HasIntegral.indefinite (⟨p⟩ : Log (Poly4 ℝ))) a
      = ∫ t in a..b, Evaluate.evaluate (⟨p⟩ : Log (Poly4 ℝ)) t :=
  ftc_pos _ _ a b ha hb (logpoly4_indefinite_closed_hasDerivAt p) (log_continuousOn p (poly4_continuous p))

/-! ### consequences for the generated function itself -/

/-- strictly outside the window the generated function is an exact antiderivative … -/
theorem logpoly4_indefinite_hasDerivAt_far (p : Poly4 ℝ) (t : ℝ) (ht : 0 < t)
    (h : 1.71 < Real.log t ∨ Real.log t < -1.72) :
    HasDerivAt (fun t => Evaluate.evaluate (HasIntegral.indefinite (⟨p⟩ : Log (Poly4 ℝ))) t)
      (Evaluate.evaluate (⟨p⟩ : Log (Poly4 ℝ)) t) t := by
  refine (logpoly4_indefinite_closed_hasDerivAt p t ht).congr_of_eventuallyEq ?_
  have hc := Real.continuousAt_log ht.ne'
  rcases h with h | h
  · filter_upwards [hc.eventually (lt_mem_nhds h)] with v hv
    exact intOfLogPoly4_eval_far _ v (Or.inl hv.le)
  · filter_upwards [hc.eventually (gt_mem_nhds h)] with v hv
    exact intOfLogPoly4_eval_far _ v (Or.inr hv.le)

theorem logpoly4_integral_hasDerivAt_far (p : Poly4 ℝ) (knot : Knot ℝ) (t : ℝ) (ht : 0 < t)
    (h : 1.71 < Real.log t ∨ Real.log t < -1.72) :
    HasDerivAt (fun t => Evaluate.evaluate (HasIntegral.integral (⟨p⟩ : Log (Poly4 ℝ)) knot) t)
      (Evaluate.evaluate (⟨p⟩ : Log (Poly4 ℝ)) t) t := by
  rw [funext (logpoly4_integral_eval p knot)]
  exact (logpoly4_indefinite_hasDerivAt_far p t ht h).add_const _

/-- … and F(b) − F(a) = ∫ₐᵇ p(ln t) dt whenever both END POINTS are outside the window (the path may cross it) -/
theorem logpoly4_integral_ftc_far (p : Poly4 ℝ) (knot : Knot ℝ) (a b : ℝ) (ha : 0 < a) (hb : 0 < b)
    (hfa : Far a) (hfb : Far b) :
    Evaluate.evaluate (HasIntegral.integral (⟨p⟩ : Log (Poly4 ℝ)) knot) b
        - Evaluate.evaluate (HasIntegral.integral (⟨p⟩ : Log (Poly4 ℝ)) knot) a
      = ∫ t in a..b, Evaluate.evaluate (⟨p⟩ : Log (Poly4 ℝ)) t := by
  rw [intOfLogPoly4_eval_far _ _ hfa, intOfLogPoly4_eval_far _ _ hfb]
  exact logpoly4_integral_closed_ftc p knot a b ha hb

theorem logpoly4_indefinite_ftc_far (p : Poly4 ℝ) (a b : ℝ) (ha : 0 < a) (hb : 0 < b)
    (hfa : Far a) (hfb : Far b) :
    Evaluate.evaluate (HasIntegral.indefinite (⟨p⟩ : Log (Poly4 ℝ))) b
        - Evaluate.evaluate (HasIntegral.indefinite (⟨p⟩ : Log (Poly4 ℝ))) a
      = ∫ t in a..b, Evaluate.evaluate (⟨p⟩ : Log (Poly4 ℝ)) t := by
  rw [intOfLogPoly4_eval_far _ _ hfa, intOfLogPoly4_eval_far _ _ hfb]
  exact logpoly4_indefinite_closed_ftc p a b ha hb

/-! ### inside the window: the exact derivative of the generated function, and the counter-example -/

/-- coefficients (in y = ln v) on the series branch: `evalWith exp_5_tail_taylor q v = v·S(ln v) + k` -/
noncomputable def seriesCoeffs (q : IntOfLogPoly4 ℝ) : List ℝ :=
  [0, -q.coeffs.a0, q.coeffs.a1, -q.coeffs.a2, q.coeffs.a3, -q.u / 120, q.u / 720, -q.u / 5040, q.u / 40320,
   -q.u / 362880, q.u / 3628800, -q.u / 39916800, q.u / 479001600, -q.u / 6227020800, q.u / 87178291200,
   -q.u / 1307674368000, q.u / 20922789888000, -q.u / 355687428096000, q.u / 6402373705728000,
   -q.u / 121645100408832000, q.u / 2432902008176640000]

theorem evalWith_series_closed (q : IntOfLogPoly4 ℝ) (v : ℝ) :
    evalWith exp_5_tail_taylor q v = v * polySum (seriesCoeffs q) (Real.log v) + q.k := by
  simp only [evalWith, seriesCoeffs, polySum, exp_5_tail_taylor_eq']
  ring

theorem logpoly4_series_identity (p : Poly4 ℝ) (y : ℝ) :
    polySum (seriesCoeffs (HasIntegral.indefinite (⟨p⟩ : Log (Poly4 ℝ)))) y
      + dSum (seriesCoeffs (HasIntegral.indefinite (⟨p⟩ : Log (Poly4 ℝ)))) y
      = Evaluate.evaluate p y
        + (HasIntegral.indefinite (⟨p⟩ : Log (Poly4 ℝ))).u * y ^ 20 / 2432902008176640000 := by
  rw [poly4_eval]
  simp only [seriesCoeffs, polySum, dSum]
  exact_simp
  ring

/-- Inside the Taylor window the derivative of the GENERATED function is p(ln t) + u·(ln t)²⁰/20!
(20! = 2432902008176640000): an antiderivative only up to the truncation defect. -/
theorem logpoly4_indefinite_hasDerivAt_near (p : Poly4 ℝ) (t : ℝ) (ht : 0 < t) (h : Near t) :
    HasDerivAt (fun t => Evaluate.evaluate (HasIntegral.indefinite (⟨p⟩ : Log (Poly4 ℝ))) t)
      (Evaluate.evaluate (⟨p⟩ : Log (Poly4 ℝ)) t
        + (HasIntegral.indefinite (⟨p⟩ : Log (Poly4 ℝ))).u * Real.log t ^ 20 / 2432902008176640000) t := by
  have h1 := (hasDerivAt_mul_comp_log
    (fun y => polySum (seriesCoeffs (HasIntegral.indefinite (⟨p⟩ : Log (Poly4 ℝ)))) y) _ t ht
    (hasDerivAt_polySum _ _)).add_const (HasIntegral.indefinite (⟨p⟩ : Log (Poly4 ℝ))).k
  rw [logpoly4_series_identity] at h1
  refine h1.congr_of_eventuallyEq ?_
  have hc := Real.continuousAt_log ht.ne'
  filter_upwards [hc.eventually (lt_mem_nhds h.1), hc.eventually (gt_mem_nhds h.2)] with v hv1 hv2
  rw [intOfLogPoly4_eval_near _ v ⟨hv1, hv2⟩, evalWith_series_closed]

/-- COUNTER-EXAMPLE to "indefinite() returns an antiderivative of f" read exactly, for k = 4:
p(y) = y⁴ (f(t) = ln⁴ t), t = e.  There f(e) = 1 but the generated function has derivative 1 − 24/20!. -/
theorem logpoly4_not_antiderivative :
    ¬ HasDerivAt
        (fun t => Evaluate.evaluate (HasIntegral.indefinite (⟨⟨⟨0, 0, 0, 0, 1⟩⟩⟩ : Log (Poly4 ℝ))) t)
        (Evaluate.evaluate (⟨⟨⟨0, 0, 0, 0, 1⟩⟩⟩ : Log (Poly4 ℝ)) (Real.exp 1)) (Real.exp 1) := by
  intro hd
  have hn : Near (Real.exp 1) := by
    unfold Near; rw [Real.log_exp]; constructor <;> norm_num
  have h := logpoly4_indefinite_hasDerivAt_near ⟨⟨0, 0, 0, 0, 1⟩⟩ (Real.exp 1) (Real.exp_pos 1) hn
  have hu := hd.unique h
  rw [logpoly4_indefinite_lanes, Real.log_exp] at hu
  norm_num at hu

end deg4

/-! ## sanity: the hypotheses are satisfiable / concrete instances -/
section example_
open LogPoly.taylor
/-- f = ln t: the indefinite integral is t·(ln t − 1) -/
example (t : ℝ) : Evaluate.evaluate (HasIntegral.indefinite (⟨⟨⟨0, 1⟩⟩⟩ : Log (Poly1 ℝ))) t
    = t * (Real.log t - 1) := by
  rw [intOfLog_eval, poly1_eval]; exact_simp; ring
example : HasDerivAt (fun t => Evaluate.evaluate (HasIntegral.indefinite (⟨⟨⟨0, 1⟩⟩⟩ : Log (Poly1 ℝ))) t)
    (Evaluate.evaluate (⟨⟨⟨0, 1⟩⟩⟩ : Log (Poly1 ℝ)) 2) 2 :=
  logpoly1_indefinite_hasDerivAt _ 2 (by norm_num)
example (p : Poly8 ℝ) : Evaluate.evaluate (HasIntegral.integral (⟨p⟩ : Log (Poly8 ℝ)) ⟨2, 3⟩) 5
      - Evaluate.evaluate (HasIntegral.integral (⟨p⟩ : Log (Poly8 ℝ)) ⟨2, 3⟩) 1
    = ∫ t in (1:ℝ)..5, Evaluate.evaluate (⟨p⟩ : Log (Poly8 ℝ)) t :=
  logpoly8_integral_ftc p _ 1 5 (by norm_num) (by norm_num)
/-- `Far` is inhabited on both sides (v = e², v = e⁻²) and `Near` by v = 1 -/
example : Far (Real.exp 2) := by unfold Far; rw [Real.log_exp]; left; norm_num
example : Far (Real.exp (-2)) := by unfold Far; rw [Real.log_exp]; right; norm_num
example : Near 1 := by unfold Near; rw [Real.log_one]; constructor <;> norm_num
example (p : Poly4 ℝ) :
    Evaluate.evaluate (HasIntegral.integral (⟨p⟩ : Log (Poly4 ℝ)) ⟨1, 0⟩) (Real.exp 2)
      - Evaluate.evaluate (HasIntegral.integral (⟨p⟩ : Log (Poly4 ℝ)) ⟨1, 0⟩) (Real.exp (-2))
    = ∫ t in (Real.exp (-2))..(Real.exp 2), Evaluate.evaluate (⟨p⟩ : Log (Poly4 ℝ)) t :=
  logpoly4_integral_ftc_far p _ _ _ (Real.exp_pos _) (Real.exp_pos _)
    (by unfold Far; rw [Real.log_exp]; right; norm_num) (by unfold Far; rw [Real.log_exp]; left; norm_num)
end example_


end PP.Props.C09
