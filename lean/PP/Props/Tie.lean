import PP.Model.Piecewise.Loops
import PP.Model.Poly.Loops
import PP.Model.Linear.Loops
import PP.Model.Spline.Loops
import PP.Hand.Piecewise
import PP.Hand.Constructors
/-!
# Tie: the loop code as *generated* by the translator equals the hand models

`PP/Model/**/Loops.lean` is regenerated from `/repo/src` on every run (iterator / slice / `for` idioms
emitted as calls to `PP/Core/Iter.lean`, panics as `Option`).  Every theorem below states, for every
number type `F` and every piece type `T`, that a generated definition is equal to the hand model the
property files are written against — so the theorems about `Hand.*` hold for code that is tied to the
source by translation.  For `Option`-valued generated functions the hand model's `none` is the panic; where
the hand model is total the theorem says the generated function never returns `none`.

Core Lean only (no Mathlib).
-/

namespace PP.Props.Tie
open FloatLike

variable {F T : Type} [FloatLike F]

/-! ## 1–2. maps over the segments -/

/-- `impl HasDerivative for Piecewise<T>` -/
theorem derivative_eq {D : Type} [HasDerivative T D] (p : Piecewise F T) :
    inst_HasDerivative_Piecewise_T.derivative p = Hand.pwDerivative p := rfl

/-- `impl Mul<f64> for Piecewise<T>` -/
theorem mul_eq [PMul (Segment F T) F (Segment F T)] (p : Piecewise F T) (rhs : F) :
    inst_Mul_Piecewise_T.mul p rhs = Hand.pwMul p rhs := rfl

/-- `impl MulAssign<f64> for Piecewise<T>` -/
theorem mulAssign_eq [PMulAssign T F] [PMulAssign (Segment F T) F] (p : Piecewise F T) (rhs : F) :
    inst_MulAssign_Piecewise_T.mulAssign p rhs = Hand.pwMulAssign p rhs := rfl

/-- `impl Neg for Piecewise<T>` -/
theorem neg_eq [PNeg T T] (p : Piecewise F T) :
    inst_Neg_Piecewise_T.neg p = Hand.pwNeg p := rfl

/-- `impl Translate for Piecewise<T>` -/
theorem translate_eq [Translate T F] (p : Piecewise F T) (v : F) :
    inst_Translate_Piecewise_T.translate p v = Hand.pwTranslate p v := rfl

/-- the same five, through the generated instances -/
theorem derivative_inst_eq {D : Type} [HasDerivative T D] (p : Piecewise F T) :
    HasDerivative.derivative p = Hand.pwDerivative p := rfl
theorem mul_inst_eq [PMul (Segment F T) F (Segment F T)] (p : Piecewise F T) (rhs : F) :
    PMul.mul p rhs = Hand.pwMul p rhs := rfl
theorem mulAssign_inst_eq [PMulAssign T F] [PMulAssign (Segment F T) F] (p : Piecewise F T) (rhs : F) :
    PMulAssign.mulAssign p rhs = Hand.pwMulAssign p rhs := rfl
theorem neg_inst_eq [PNeg T T] (p : Piecewise F T) : PNeg.neg p = Hand.pwNeg p := rfl
theorem translate_inst_eq [Translate T F] (p : Piecewise F T) (v : F) :
    Translate.translate p v = Hand.pwTranslate p v := rfl

/-! ## 3. integration -/

section integral
variable {I : Type} [HasIntegral T (Knot F) I] [Evaluate I F] [Translate I F]

/-- `Segment::integral_iter_ref` -/
theorem integral_iter_ref_eq (segs : List (Segment F T)) (knot0 : Knot F) :
    Segment.integral_iter_ref segs knot0 = Hand.integralIter segs knot0 := by
  unfold Segment.integral_iter_ref
  induction segs generalizing knot0 with
  | nil => rfl
  | cons s rest ih =>
    simp only [Iter.mapAccum, Hand.integralIter]
    exact congrArg _ (ih _)

/-- `Segment::integral_iter` -/
theorem integral_iter_eq (segs : List (Segment F T)) (knot0 : Knot F) :
    Segment.integral_iter segs knot0 = Hand.integralIter segs knot0 :=
  integral_iter_ref_eq segs knot0

/-- `<Piecewise<T> as HasIntegral>::integral` -/
theorem integral_eq (p : Piecewise F T) (knot0 : Knot F) :
    inst_HasIntegral_Piecewise_T.integral p knot0 = Hand.pwIntegral p knot0 := by
  unfold inst_HasIntegral_Piecewise_T.integral Hand.pwIntegral
  rw [integral_iter_ref_eq]

/-- `<Piecewise<T> as HasIntegral>::indefinite`: the generated function is `Option`-valued because of
`self.segments[0]` and `&self.segments[1..]`; it never panics and returns the hand model's value -/
theorem indefinite_eq (p : Piecewise F T) :
    inst_HasIntegral_Piecewise_T.indefinite p = some (Hand.pwIndefinite p) := by
  obtain ⟨segs⟩ := p
  cases segs with
  | nil => rfl
  | cons s rest =>
    simp only [inst_HasIntegral_Piecewise_T.indefinite, Hand.pwIndefinite, Iter.sliceFrom, Iter.index,
      Iter.isEmpty, Iter.chain, Iter.once, integral_iter_ref_eq]
    simp
end integral

/-! ## 4. `linear` -/

/-- the stateful `map` of `linear`: `knots_iter.map(|k| incr_linear(&mut prev_knot, k))` -/
theorem linearGo_eq (ks : List (Knot F)) (prev : Knot F) :
    Iter.mapAccum ks prev
      (fun prev_knot k => let v := Linear.incr_linear prev_knot k; let prev_knot := v.2; (v.1, prev_knot))
      = Hand.linearGo prev ks := by
  induction ks generalizing prev with
  | nil => rfl
  | cons k ks ih =>
    simp only [Iter.mapAccum, Hand.linearGo]
    exact congrArg _ (ih _)

/-- `linear::linear` (`none` = the `assert!(knots.len() >= 2)` panic; the `unwrap` never fails) -/
theorem linear_eq (knots : List (Knot F)) : Linear.linear knots = Hand.linear knots := by
  unfold Linear.linear
  match knots with
  | [] => rfl
  | [_] => rfl
  | k0 :: k1 :: ks =>
    simp only [Hand.linear, Iter.assert, Iter.len, List.length_cons, List.head?_cons, List.tail_cons]
    have : Nat.ble 2 (ks.length + 1 + 1) = true := by simp [Nat.ble_eq]
    simp only [this, ↓reduceIte, Option.bind]
    exact congrArg (fun l => some (Piecewise.mk l)) (linearGo_eq (k1 :: ks) k0)

/-! ## 5. `PolyN` -/

/-- `impl Evaluate for PolyN` -/
theorem polyN_evaluate_eq (p : PolyN F) (x : F) :
    inst_Evaluate_PolyN.evaluate p x = Hand.polyNEvaluate p x := by
  unfold inst_Evaluate_PolyN.evaluate Hand.polyNEvaluate
  simp only [Iter.rev, Iter.fold]
  cases p._0.reverse <;> rfl

/-- `impl Translate for PolyN` -/
theorem polyN_translate_eq (p : PolyN F) (v : F) :
    inst_Translate_PolyN.translate p v = Hand.polyNTranslate p v := by
  obtain ⟨l⟩ := p
  cases l <;> rfl

/-- `impl AbsDiffEq for PolyN` -/
theorem polyN_absDiffEq_eq (a b : PolyN F) (eps : F) :
    inst_AbsDiffEq_PolyN.absDiffEq a b eps = AbsDiffEq.absDiffEq (self := Hand.inst_AbsDiffEq_PolyN) a b eps := rfl

/-- `impl RelativeEq for PolyN` -/
theorem polyN_relativeEq_eq (a b : PolyN F) (eps mr : F) :
    inst_RelativeEq_PolyN.relativeEq a b eps mr
      = RelativeEq.relativeEq (self := Hand.inst_RelativeEq_PolyN) a b eps mr := rfl

/-- the generated `PolyN` instances are the hand instances -/
theorem polyN_instEvaluate_eq : (inst_Evaluate_PolyN : Evaluate (PolyN F) F) = Hand.inst_Evaluate_PolyN := by
  unfold inst_Evaluate_PolyN Hand.inst_Evaluate_PolyN
  congr; funext p x; exact polyN_evaluate_eq p x
theorem polyN_instTranslate_eq : (inst_Translate_PolyN : Translate (PolyN F) F) = Hand.inst_Translate_PolyN := by
  unfold inst_Translate_PolyN Hand.inst_Translate_PolyN
  congr; funext p v; exact polyN_translate_eq p v
theorem polyN_instAbsDiffEq_eq : (inst_AbsDiffEq_PolyN : AbsDiffEq (PolyN F) F) = Hand.inst_AbsDiffEq_PolyN := rfl
theorem polyN_instRelativeEq_eq : (inst_RelativeEq_PolyN : RelativeEq (PolyN F) F) = Hand.inst_RelativeEq_PolyN := rfl

/-! ## 6. direct evaluation -/

section position
variable {A : Type}

theorem position_cons (a : A) (as : List A) (p : A → Bool) :
    Iter.position (a :: as) p = if p a then some 0 else (Iter.position as p).map (· + 1) := rfl

theorem position_lt {l : List A} {p : A → Bool} {i : Nat} (h : Iter.position l p = some i) : i < l.length := by
  induction l generalizing i with
  | nil => simp [Iter.position] at h
  | cons a as ih =>
    rw [position_cons] at h
    split at h
    · cases h; simp
    · cases hp : Iter.position as p with
      | none => simp [hp] at h
      | some j =>
        simp only [hp, Option.map_some, Option.some.injEq] at h
        subst h
        have := ih hp
        simp; omega

/-- `Iter.position` is core's `List.findIdx?` -/
theorem position_eq_findIdx? (l : List A) (p : A → Bool) : Iter.position l p = l.findIdx? p := by
  induction l with
  | nil => rfl
  | cons a as ih =>
    rw [position_cons, List.findIdx?_cons, ih]
end position

/-- the recursive segment selection is `position` + `last` / index -/
theorem selSeg_eq (segs : List (Segment F T)) (x : F) (h : segs ≠ []) :
    Hand.selSeg segs x =
      match Iter.position segs (fun seg => lt x seg.«end») with
      | none => segs.getLast?
      | some i => segs[i]? := by
  induction segs with
  | nil => contradiction
  | cons s rest ih =>
    cases rest with
    | nil =>
      by_cases hx : lt x s.«end» = true <;> simp [Hand.selSeg, Iter.position, hx]
    | cons s' rest' =>
      rw [position_cons]
      simp only [Hand.selSeg]
      by_cases hx : lt x s.«end» = true
      · simp [hx]
      · simp only [hx, Bool.false_eq_true, ↓reduceIte]
        rw [ih (by simp)]
        generalize Iter.position (s' :: rest') (fun seg => lt x seg.«end») = o
        cases o with
        | none => simp [List.getLast?_cons_cons]
        | some i => simp

/-- `impl Evaluate for Piecewise<T>` (`none` = the `assert!` panic; `last().unwrap()` and the index never fail) -/
theorem evaluate_eq [Evaluate T F] (p : Piecewise F T) (x : F) :
    inst_Evaluate_Piecewise_T.evaluate p x = Hand.pwEvaluate p x := by
  obtain ⟨segs⟩ := p
  unfold inst_Evaluate_Piecewise_T.evaluate Hand.pwEvaluate
  cases segs with
  | nil => rfl
  | cons s rest =>
    rw [selSeg_eq _ _ (by simp)]
    simp only [Iter.assert, Iter.isEmpty, List.isEmpty_cons, Bool.not_false, ↓reduceIte, Option.bind, Iter.last, Iter.index]
    cases Iter.position (s :: rest) (fun seg => lt x seg.«end») with
    | none => simp only; cases (s :: rest).getLast? <;> rfl
    | some i => simp only; cases (s :: rest)[i]? <;> rfl

/-! ## 7. `evaluate_v` -/

/-- one step of the suffix machine, in index form -/
theorem evalvAdvance_eq (cur : List (Segment F T)) (x : F) (h : cur ≠ []) :
    Hand.evalvAdvance cur x =
      cur.drop (Iter.mapOr (Iter.position cur (fun seg => lt x seg.«end»)) (cur.length - 1) (fun i => i)) := by
  induction cur with
  | nil => contradiction
  | cons s rest ih =>
    cases rest with
    | nil =>
      by_cases hx : lt x s.«end» = true <;> simp [Hand.evalvAdvance, Iter.position, Iter.mapOr, hx]
    | cons s' rest' =>
      rw [position_cons]
      simp only [Hand.evalvAdvance]
      by_cases hx : lt x s.«end» = true
      · simp [hx, Iter.mapOr]
      · simp only [hx, Bool.false_eq_true, ↓reduceIte]
        rw [ih (by simp)]
        generalize Iter.position (s' :: rest') (fun seg => lt x seg.«end») = o
        cases o with
        | none => simp [Iter.mapOr]
        | some i => simp [Iter.mapOr]

/-- the closure of `evaluate_v`, as generated -/
def evalvStep [Evaluate T F] (segs : List (Segment F T)) (prev_seg : Nat) (x : F) : Option (F × Nat) :=
  Option.bind (Iter.sliceFrom segs prev_seg) fun v'1 =>
  Option.bind (Iter.usub (Iter.len segs) 1) fun v'2 =>
  let prev_seg := (Iter.mapOr (Iter.position v'1 (fun seg => (FloatLike.lt x seg.«end»))) v'2 (fun i => (i + prev_seg)));
  Option.bind (Iter.index segs prev_seg) fun v'3 => some (((Evaluate.evaluate v'3.poly x), prev_seg))

theorem evalvStep_eq [Evaluate T F] (segs : List (Segment F T)) (prev : Nat) (x : F) (h : prev < segs.length) :
    ∃ prev', prev' < segs.length ∧ Hand.evalvAdvance (segs.drop prev) x = segs.drop prev' ∧
      ∃ s, segs[prev']? = some s ∧ evalvStep segs prev x = some (Evaluate.evaluate s.poly x, prev') := by
  have hne : segs.drop prev ≠ [] := by
    intro h0
    have := congrArg List.length h0
    simp at this; omega
  rw [evalvAdvance_eq _ _ hne]
  simp only [evalvStep, Iter.sliceFrom, Iter.usub, Iter.len, Iter.index]
  have h1 : prev ≤ segs.length := by omega
  have h2 : 1 ≤ segs.length := by omega
  simp only [h1, h2, ↓reduceIte, Option.bind]
  cases hp : Iter.position (segs.drop prev) (fun seg => lt x seg.«end») with
  | none =>
    refine ⟨segs.length - 1, by omega, ?_, ?_⟩
    · simp [Iter.mapOr, List.drop_drop]; congr 1; omega
    · have hl : segs.length - 1 < segs.length := by omega
      refine ⟨segs[segs.length - 1], by simp [hl], ?_⟩
      simp [Iter.mapOr, hl]
  | some i =>
    have hi := position_lt hp
    simp only [List.length_drop] at hi
    refine ⟨i + prev, by omega, ?_, ?_⟩
    · simp [Iter.mapOr, List.drop_drop, Nat.add_comm]
    · have hl : i + prev < segs.length := by omega
      refine ⟨segs[i + prev], by simp [hl], ?_⟩
      simp [Iter.mapOr, hl]

theorem evalvRun_eq [Evaluate T F] (segs : List (Segment F T)) (xs : List F) (prev : Nat) (h : prev < segs.length) :
    Iter.mapAccumM xs prev (evalvStep segs) = some (Hand.evalvRun (segs.drop prev) xs) := by
  induction xs generalizing prev with
  | nil => rfl
  | cons x xs ih =>
    obtain ⟨prev', hlt, hadv, s, hs, hstep⟩ := evalvStep_eq segs prev x h
    simp only [Iter.mapAccumM, hstep, Option.bind, ih prev' hlt, Hand.evalvRun, hadv]
    have : segs.drop prev' = s :: segs.drop (prev' + 1) := by
      rw [List.drop_eq_getElem_cons hlt]
      simp [List.getElem?_eq_getElem hlt] at hs
      rw [hs]
    rw [this]

/-- `Piecewise::evaluate_v` (`none` = the `assert!` panic; the slice, the subtraction and the index in the
closure never fail) -/
theorem evaluate_v_eq [Evaluate T F] (p : Piecewise F T) (xs : List F) :
    Piecewise.evaluate_v p xs = Hand.evaluateV p xs := by
  obtain ⟨segs⟩ := p
  cases segs with
  | nil => rfl
  | cons s rest =>
    have := evalvRun_eq (s :: rest) xs 0 (by simp)
    simp only [List.drop_zero] at this
    simp only [Piecewise.evaluate_v, Hand.evaluateV, Iter.assert, Iter.isEmpty, List.isEmpty_cons, Bool.not_false,
      ↓reduceIte, Option.bind]
    exact this

/-! ## 8. `constrained_spline`, approximate equality, `Default` -/


section zips
variable {A B C D : Type}

theorem zip3_take_left : ∀ (l : List A) (m : List B) (r : List C) (k : Nat), r.length ≤ k →
    List.zip (List.zip (l.take k) m) r = List.zip (List.zip l m) r
  | [], _, _, _, _ => by simp
  | _ :: _, [], _, _, _ => by simp
  | _ :: _, _ :: _, [], _, _ => by simp
  | a :: l, b :: m, c :: r, 0, h => by simp at h
  | a :: l, b :: m, c :: r, k + 1, h => by
    simp [zip3_take_left l m r k (by simpa using h)]

theorem zip3_take_mid : ∀ (l : List A) (m : List B) (r : List C) (k : Nat), r.length ≤ k →
    List.zip (List.zip l (m.take k)) r = List.zip (List.zip l m) r
  | [], _, _, _, _ => by simp
  | _ :: _, [], _, _, _ => by simp
  | _ :: _, _ :: _, [], _, _ => by simp
  | a :: l, b :: m, c :: r, 0, h => by simp at h
  | a :: l, b :: m, c :: r, k + 1, h => by
    simp [zip3_take_mid l m r k (by simpa using h)]

theorem zip4_take_snd : ∀ (x : List A) (y : List B) (z : List C) (w : List D) (k : Nat), w.length ≤ k →
    List.zip (List.zip (List.zip x (y.take k)) z) w = List.zip (List.zip (List.zip x y) z) w
  | [], _, _, _, _, _ => by simp
  | _ :: _, [], _, _, _, _ => by simp
  | _ :: _, _ :: _, [], _, _, _ => by simp
  | _ :: _, _ :: _, _ :: _, [], _, _ => by simp
  | a :: x, b :: y, c :: z, d :: w, 0, h => by simp at h
  | a :: x, b :: y, c :: z, d :: w, k + 1, h => by
    simp [zip4_take_snd x y z w k (by simpa using h)]
end zips

theorem fMid_eq_zip : ∀ (ks : List (Knot F)),
    Hand.fMid ks = (List.zip (List.zip ks (ks.drop 1)) (ks.drop 2)).map (fun ((k0, k1), k2) => Spline.f_dx k0 k1 k2)
  | [] => rfl
  | [_] => rfl
  | [_, _] => rfl
  | k0 :: k1 :: k2 :: rest => by
    have := fMid_eq_zip (k1 :: k2 :: rest)
    simp only [Hand.fMid, this]
    simp

theorem splineSegs_eq_zip : ∀ (fa : List F) (ks : List (Knot F)),
    Hand.splineSegs fa ks = (List.zip (List.zip (List.zip fa ks) (fa.drop 1)) (ks.drop 1)).map
      (fun (((f0, k0), f1), k1) => Spline.segment f0 k0 f1 k1)
  | [], _ => by simp [Hand.splineSegs]
  | [_], [] => by simp [Hand.splineSegs]
  | [_], _ :: _ => by simp [Hand.splineSegs]
  | _ :: _ :: _, [] => by simp [Hand.splineSegs]
  | _ :: _ :: _, [_] => by simp [Hand.splineSegs]
  | f0 :: f1 :: fs, k0 :: k1 :: ks => by
    have := splineSegs_eq_zip (f1 :: fs) (k1 :: ks)
    simp only [Hand.splineSegs, this]
    simp

omit [FloatLike F] in
theorem lastTwo_eq : ∀ (ks : List (Knot F)), 2 ≤ ks.length →
    Hand.lastTwo ks = (ks.take (ks.length - 1)).getLast?.bind fun a => ks.getLast?.bind fun b => some (a, b)
  | [], h => by simp at h
  | [_], h => by simp at h
  | [a, b], _ => by simp [Hand.lastTwo]
  | a :: b :: c :: rest, _ => by
    have := lastTwo_eq (b :: c :: rest) (by simp)
    simp only [Hand.lastTwo, this]
    simp [List.getLast?_cons_cons]

/-- `spline::constrained_spline` (`none` = the `assert!(ks0n.len() >= 3)` panic; none of the eleven slices,
`first()/last().unwrap()`, `f_mid[0]` and `len() - 1` can fail after it) -/
theorem constrained_spline_eq (ks : List (Knot F)) :
    Spline.constrained_spline ks = Hand.constrainedSpline ks := by
  match ks with
  | [] => rfl
  | [_] => rfl
  | [_, _] => rfl
  | k0 :: k1 :: k2 :: rest =>
    generalize hks : k0 :: k1 :: k2 :: rest = ks
    have hlen : ks.length = rest.length + 3 := by rw [← hks]; simp
    have hhead : ks.head? = some k0 := by rw [← hks]; rfl
    have hhead1 : (ks.drop 1).head? = some k1 := by rw [← hks]; rfl
    have hfall : Hand.fAll ks =
        match (Hand.fMid ks).head?, (Hand.fMid ks).getLast?, Hand.lastTwo ks with
        | some fx1, some fxm, some (km, kn) =>
          some (Hand.endSlope k0 k1 fx1 :: Hand.fMid ks ++ [Hand.endSlope km kn fxm])
        | _, _, _ => none := by rw [← hks]; rfl
    unfold Spline.constrained_spline Hand.constrainedSpline
    rw [hfall, lastTwo_eq ks (by omega)]
    simp only [Iter.assert, Iter.len, Iter.sliceFrom, Iter.sliceTo, Iter.usub, Iter.first, Iter.last, Iter.index,
      Iter.map, Iter.zip, Iter.chain, Iter.once, Iter.skip]
    have c1 : Nat.ble 3 ks.length = true := by simp [Nat.ble_eq]; omega
    have c2 : 1 ≤ ks.length := by omega
    have c3 : 1 ≤ (List.drop 1 ks).length := by simp; omega
    have c4 : ks.length - 1 ≤ ks.length := by omega
    have c5 : 1 ≤ (List.take (ks.length - 1) ks).length := by simp; omega
    have c6 : (List.take (ks.length - 1) ks).length - 1 ≤ (List.take (ks.length - 1) ks).length := by omega
    simp only [c1, c2, c3, c4, c5, c6, ↓reduceIte, Option.bind_some, hhead, hhead1]
    -- the three-fold zip of slices is the zip of `ks` with its tails
    have hz : ((List.take ((List.take (ks.length - 1) ks).length - 1) (List.take (ks.length - 1) ks)).zip
          (List.drop 1 (List.take (ks.length - 1) ks))).zip (List.drop 1 (List.drop 1 ks))
        = (ks.zip (ks.drop 1)).zip (ks.drop 2) := by
      rw [List.take_take, List.drop_take, List.drop_drop]
      rw [zip3_take_left _ _ _ _ (by simp; omega), zip3_take_mid _ _ _ _ (by simp; omega)]
    have hfm : List.map (fun x => Spline.f_dx x.1.fst x.1.snd x.snd)
        (((List.take ((List.take (ks.length - 1) ks).length - 1) (List.take (ks.length - 1) ks)).zip
          (List.drop 1 (List.take (ks.length - 1) ks))).zip (List.drop 1 (List.drop 1 ks))) = Hand.fMid ks := by
      rw [hz, fMid_eq_zip]
    rw [hfm]
    have hseg : ∀ fa : List F, List.map (fun x => Spline.segment x.1.1.fst x.1.1.snd x.1.snd x.snd)
        (((fa.zip (List.take (ks.length - 1) ks)).zip (List.drop 1 fa)).zip (List.drop 1 ks))
        = Hand.splineSegs fa ks := by
      intro fa
      rw [zip4_take_snd _ _ _ _ _ (by simp), splineSegs_eq_zip]
    simp only [hseg, List.head?_eq_getElem?]
    generalize (List.take (ks.length - 1) ks).getLast? = okm
    generalize ks.getLast? = okn
    generalize (Hand.fMid ks)[0]? = ofx1
    generalize (Hand.fMid ks).getLast? = ofxm
    cases okm <;> cases okn <;> cases ofx1 <;> cases ofxm <;> rfl

/-- `impl AbsDiffEq for Piecewise<T>`: the slice impl of `approx` over the segments (the hand model of C17) -/
theorem absDiffEq_eq [AbsDiffEq T F] (f g : Piecewise F T) (eps : F) :
    inst_AbsDiffEq_Piecewise_T.absDiffEq f g eps = AbsDiffEq.absDiffEq f.segments g.segments eps := rfl

/-- `impl RelativeEq for Piecewise<T>` -/
theorem relativeEq_eq [AbsDiffEq T F] [RelativeEq T F] (f g : Piecewise F T) (eps mr : F) :
    inst_RelativeEq_Piecewise_T.relativeEq f g eps mr = RelativeEq.relativeEq f.segments g.segments eps mr := rfl

/-- `impl Default for Piecewise<T>` -/
theorem default_eq : (inst_Default_Piecewise_T.«default» : Piecewise F T) = ⟨[]⟩ := rfl

end PP.Props.Tie
