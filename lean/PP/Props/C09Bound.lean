import PP.Lemmas.LogIntFP
import PP.Props.C10Bound
/-!
# C09 — integrals of log-polynomials: the FLOATING-POINT part ("within the rounding bound of the construction")

`PP/Props/C09.lean` proves C09 for the code read in exact arithmetic over ℝ.  This file proves the rounding
clauses for the same *generated* code — `impl HasIntegral for Log<PolyK>` (`indefinite`, `integral`), `Translate`,
`Evaluate (IntOfLog F T)`, `Evaluate (PolyK F)`, and for degree 4 `IntOfLogPoly4` — **run in rounded arithmetic**
`Rounded M`, for every rounding model `M : RModel ℝ` with `M.u ≤ 2⁻⁵³`; `ln = Real.log`, `exp = Real.exp`.

## What is ASSUMED (and not proved)
* the **standard model** of floating-point arithmetic (`PP/Sem/Rounded.lean`): every `+ − × ÷` and every `fma`
  returns `rnd (exact result)` with `|rnd t − t| ≤ u·|t|`, `u ≤ 2⁻⁵³` — **no underflow, no overflow**;
* **libm**: `ln v` is `rnd (Real.log v)` (correct to one rounding, same `u`); for degree 4 also `exp` (as in
  `C10Bound`);
* **literals** are `rnd (m·10^e)` and *not* assumed representable (`2.0·c` costs two roundings, `1.0/2.0` three);
  `0.0` is `rnd 0 = 0`; `rnd` is not assumed idempotent (`0.0 + t` costs a rounding);
* **inputs** (coefficients `c_i`, knot, arguments `a`, `b`) are exact reals.

## Notation
`c_i` the coefficients of `p`; `q_j` the exact antiderivative coefficients (`q_n = c_n`, `q_j = c_j − (j+1)·q_{j+1}`:
the lanes of the exact `indefinite`, `C09.logpolyK_recurrence`); `q̂_j` the computed ones;
`S_j = Σ_{i≥j} (i!/j!)·|c_i|` (`Smag⟨n⟩`; `|q_j| ≤ S_j` with equality when the signs of the `c_i` alternate);
`MagQ⟨n⟩ p v = Σ_j |q_j||ln v|^j`, `MagS⟨n⟩ p v = Σ_j S_j|ln v|^j` (`MagQ ≤ MagS`: `MagQ⟨n⟩_le_MagS`);
`F̂(v) = evalR M F v` the generated `evaluate` of `F` run in rounded arithmetic; `k̂ = F.k` the stored constant;
`g_k = (1+u)^k − 1 ≤ (k + 0.001)·u`.

## Results, for every degree `n ∈ {0,1,2,3,5,6,7,8}` (GENERATED blocks, identical up to the degree)
* **(6) `logpoly⟨n⟩_coeff_rounding`**: `|q̂_j − q_j| ≤ (κ_j + 0.001)·u·S_j`, `κ_j = 3(n−j)` for `j ≥ 1`, `κ_0 = 3n − 2` (`n ≥ 1`; `κ_0 = 0` for `n = 0`)
  (`κ_n = 0`: the leading coefficient is copied).  The bound is against `S_j`, **not** against `|q_j|`: the
  recurrence cancels (example at the end: `q₁ = 0`, `q̂₁ ≠ 0`).
* **(4) `logpoly⟨n⟩_knot_rounding`**: for `knot.x > 0`, `F = integral (Log p) knot` computed in rounded arithmetic,
  `|F̂(knot.x) − knot.y| ≤ 4.001·u·(|knot.y| + knot.x·(MagQ + (K_n + 0.001)·u·MagS))`  (`C_n = 4.001` for every `n`);
  `logpoly⟨n⟩_knot_rounding_S`: `≤ 4.01·u·(|knot.y| + knot.x·MagS)`.
  The second-order term `u²·MagS` cannot be dropped (`F̂(knot.x)` is built from the computed `q̂_j`, which may be
  non-zero where `q_j = 0`), but **there is no `(1 + |ln x|)` sensitivity term**: the constant `k̂` is computed from the
  *same* rounded value `T̂(x)` of the polynomial part that the evaluation at the knot recomputes, so the errors of
  `ln`, of the coefficients and of the polynomial evaluation cancel exactly; only the roundings of `x·T̂`, `y − ·`,
  `0.0 + ·` and of the final `fma` remain (`knot_gen`: `g₃|y| + g₄|x·T̂(x)|`).
* **(5) `logpoly⟨n⟩_integral_difference_rounding`**: for **all** `a, b > 0` (no bound on `|ln a|`, `|ln b|` is needed for
  `n ≠ 4`), `|F̂(b) − F̂(a) − ∫_a^b p(ln t) dt| ≤ (K_n + 1.001)·u·(a·MagS p a + b·MagS p b) + 2·u·|k̂|`;
  `…_rounding'`: with `|k̂| ≤ 1.005·(|knot.y| + knot.x·MagS p knot.x)` substituted.  The integral is the exact one of
  `C09.logpoly⟨n⟩_indefinite_ftc`.  Here the rounded logarithm `x̂ = ln v·(1+δ)` enters as a *relative* perturbation of
  the argument of a polynomial, i.e. as `j` extra roundings of the term `q_j x^j`: it is absorbed in the depth `K_n`
  and costs no `(1 + |ln v|)` factor against the magnitude `MagS` (against `|Q(ln v)|` itself it would).
* **`logpoly⟨n⟩_indefinite_difference_rounding`** ("`indefinite()` returns an antiderivative of the same `f`"): the same
  bound for the rounded `indefinite`, without the `k̂` term.
* depths: `K_n = 0, 2, 6, 9, 16, 19, 22, 26` for `n = 0, 1, 2, 3, 5, 6, 7, 8` (coefficient depth + one rounding of `ln`
  per power + depth of the generated Estrin scheme), so `C_n' = K_n + 1.001 = 1.001, 3.001, 7.001, 10.001, 17.001,
  20.001, 23.001, 27.001`.
## Degree 4 (`IntOfLogPoly4`, section `deg4`; evaluation bound `C10Bound.evaluate_rounding` reused)
`MagS4 p v = C10Bound.Mag (Smag4 p) v = v·(S_a|X| + S_b|X|² + S_c|X|³ + S_d|X|⁴) + S_u·v·|X|⁵·R(X)`, `X = −ln v`,
`S_a = |c₀|`, `S_b = (S_a+|c₁|)/2`, `S_c = (S_b+|c₂|)/3`, `S_d = (S_c+|c₃|)/4`, `S_u = (S_d+|c₄|)·24`.
* (6) `logpoly4_coeff_rounding`: `a = −c₀` exactly; `b, c, d, u` within `6.001, 12.001, 18.001, 21.001` `·u·S`.
* (4) `logpoly4_knot_rounding`: `knot.x > 0`, `|ln knot.x| ≤ 1000`: `|F̂(knot.x) − knot.y| ≤ 4.01·u·(|knot.y| + MagS4 p knot.x)`.
* (5) `logpoly4_integral_difference_rounding`: `a, b > 0`, `|ln a|, |ln b| ≤ 1000`:
  `|F̂(b) − F̂(a) − ∫_a^b p(ln t) dt| ≤ 1.003·10⁻¹²·(MagS4 p a + MagS4 p b + 2|k̂|)` — **not** of the form `C·u`: `10⁻¹²`
  is the C10 evaluation bound, which contains the truncation error `6·10⁻¹⁴` of the 16-term series and the honest
  `3.02·|ln v|·u` sensitivity of `exp` to the rounded logarithm (see `C10Bound`); the coefficient errors add `21.001·u`.
  `logpoly4_integral_difference_rounding'`, `logpoly4_indefinite_difference_rounding`, `logpoly4_k_abs` as above.
  The exact integral is `C09.logpoly4_indefinite_closed_ftc` (`ideal_ftc`).

## Method
The generated `indefinite` is *run at the counting semantics* `Ct M` (`PP/Sem/Count.lean`): the lanes of
`indefCt⟨n⟩ M p` carry by `rfl` the exact run, the rounded run and the depth, and the magnitude `S_j` after
`norm_num; ring`.  The generated polynomial `evaluate` is then run at `Ct M` on these lanes at
`xCt M v = (ln v, rnd (ln v), |ln v|, depth 1)`: `poly⟨n⟩_ct` (`PP/Lemmas/LogIntFP.lean`).  Nothing about the
recurrence or the evaluation scheme is restated; if the generator changes them, the depths (numerals checked by
`rfl`) change and the constants with them.  The `fma(v, ·, k)` of `IntOfLog::evaluate` and the `translate` of `integral`
are analysed once for every polynomial type (`knot_gen`, `difference_gen`).
Non-vacuity: section `examples` (`C10Bound.M53`: every operation, literal, `ln`, `exp` errs by the full `2⁻⁵³`;
`C10Bound.intFixR`: integers exact, everything else inflated).
-/

set_option linter.unusedSectionVars false
set_option linter.unusedVariables false

namespace PP.Props.C09Bound
open PP.Lemmas.Rounding PP.Lemmas.ExpTailFP PP.Lemmas.LogIntFP

attribute [local instance] PP.Props.C09.realTransc
attribute [local instance] exactFL

variable (M : RModel ℝ)

/-! ## degree 0 -/

/-- **(6) the antiderivative coefficients, degree 0**: each coefficient `q̂_j` computed by the rounded `indefinite` is
within `(κ_j + 0.001)·u·S_j` of the exact `q_j`, `S_j = Σ_(i≥j) (i!/j!)|c_i|` (`Smag0`), `κ = [0]` -/
theorem logpoly0_coeff_rounding (hu : M.u ≤ (2 : ℝ) ^ (-53 : ℤ)) (p : Poly0 ℝ) :
    |((indefR0 M p).poly._0).val - (HasIntegral.indefinite (⟨p⟩ : Log (Poly0 ℝ))).poly._0| ≤ (0 + 1 / 1000) * M.u * ((Smag0 p)._0) := by
  have h := coeff0_ct M p
  exact ct_numC M h hu (by norm_num) (by norm_num)
/-- the exact coefficients are dominated by the magnitudes: `|q_j| ≤ S_j`, hence `MagQ ≤ MagS`, degree 0 -/
theorem MagQ0_le_MagS (p : Poly0 ℝ) (v : ℝ) : MagQ0 p v ≤ MagS0 p v := by
  have h := coeff0_ct (RModel.exact ℝ) p
  exact h.1
/-- **(4) F̂(knot.x) = knot.y within the rounding bound, degree 0**: `F = integral (Log p) knot` computed in rounded
arithmetic and evaluated (rounded) at `knot.x > 0` differs from `knot.y` by at most
`4.001·u·(|knot.y| + knot.x·(Σ_j|q_j||ln x|^j + 0.001·u·Σ_j S_j|ln x|^j))` -/
theorem logpoly0_knot_rounding (hu : M.u ≤ (2 : ℝ) ^ (-53 : ℤ)) (p : Poly0 ℝ) (knot : Knot ℝ) (hx : 0 < knot.x) :
    |evalR M (HasIntegral.integral (⟨p.mapF Rounded.mk⟩ : Log (Poly0 (Rounded M))) (knot.mapF Rounded.mk)) knot.x - knot.y|
      ≤ (4 + 1 / 1000) * M.u * (|knot.y| + knot.x * (MagQ0 p knot.x + (0 + 1 / 1000) * M.u * MagS0 p knot.x)) := by
  exact knot_num M (indefR0 M p) (indefR0_k M p) hu knot.y hx (poly0_ct M p knot.x) (poly0_abs_le p knot.x)
    (by norm_num) (by norm_num)
/-- (4, magnitude form) `≤ 4.01·u·(|knot.y| + knot.x·Σ_j S_j|ln x|^j)`, degree 0 -/
theorem logpoly0_knot_rounding_S (hu : M.u ≤ (2 : ℝ) ^ (-53 : ℤ)) (p : Poly0 ℝ) (knot : Knot ℝ) (hx : 0 < knot.x) :
    |evalR M (HasIntegral.integral (⟨p.mapF Rounded.mk⟩ : Log (Poly0 (Rounded M))) (knot.mapF Rounded.mk)) knot.x - knot.y| ≤ (4 + 1 / 100) * M.u * (|knot.y| + knot.x * MagS0 p knot.x) :=
  knot_num_S M (indefR0 M p) (indefR0_k M p) hu knot.y hx (poly0_ct M p knot.x) (by norm_num)
/-- **(5) `integral_difference_rounding`, degree 0**: for all `a, b > 0`,
`|F̂(b) − F̂(a) − ∫_a^b p(ln t) dt| ≤ 1.001·u·(a·Σ_j S_j|ln a|^j + b·Σ_j S_j|ln b|^j) + 2·u·|k̂|`, `k̂ = F.k` the stored constant -/
theorem logpoly0_integral_difference_rounding (hu : M.u ≤ (2 : ℝ) ^ (-53 : ℤ)) (p : Poly0 ℝ) (knot : Knot ℝ)
    (a b : ℝ) (ha : 0 < a) (hb : 0 < b) :
    |evalR M (HasIntegral.integral (⟨p.mapF Rounded.mk⟩ : Log (Poly0 (Rounded M))) (knot.mapF Rounded.mk)) b - evalR M (HasIntegral.integral (⟨p.mapF Rounded.mk⟩ : Log (Poly0 (Rounded M))) (knot.mapF Rounded.mk)) a
        - ∫ t in a..b, Evaluate.evaluate (⟨p⟩ : Log (Poly0 ℝ)) t|
      ≤ (1 + 1 / 1000) * M.u * (a * MagS0 p a + b * MagS0 p b)
        + 2 * M.u * |(HasIntegral.integral (⟨p.mapF Rounded.mk⟩ : Log (Poly0 (Rounded M))) (knot.mapF Rounded.mk)).k.val| := by
  have h : |evalR M (HasIntegral.integral (⟨p.mapF Rounded.mk⟩ : Log (Poly0 (Rounded M))) (knot.mapF Rounded.mk)) b - evalR M (HasIntegral.integral (⟨p.mapF Rounded.mk⟩ : Log (Poly0 (Rounded M))) (knot.mapF Rounded.mk)) a
      - (b * Evaluate.evaluate (HasIntegral.indefinite (⟨p⟩ : Log (Poly0 ℝ))).poly (Real.log b) - a * Evaluate.evaluate (HasIntegral.indefinite (⟨p⟩ : Log (Poly0 ℝ))).poly (Real.log a))|
      ≤ (1 + 1 / 1000) * M.u * (a * MagS0 p a + b * MagS0 p b) + 2 * M.u * |(HasIntegral.integral (⟨p.mapF Rounded.mk⟩ : Log (Poly0 (Rounded M))) (knot.mapF Rounded.mk)).k.val| :=
    difference_num M (throughKnot M (indefR0 M p) knot.x knot.y) hu ha hb (poly0_ct M p a) (poly0_ct M p b)
      (by norm_num) (by norm_num)
  have hf := PP.Props.C09.logpoly0_indefinite_ftc p a b ha hb
  simp only [PP.Props.C09.intOfLog_eval, PP.Props.C09.logpoly0_indefinite_k, add_zero] at hf
  rw [← hf]
  exact h
/-- (5, with the stored constant bounded) `… + 2.01·u·(|knot.y| + knot.x·Σ_j S_j|ln x|^j)`, degree 0 -/
theorem logpoly0_integral_difference_rounding' (hu : M.u ≤ (2 : ℝ) ^ (-53 : ℤ)) (p : Poly0 ℝ) (knot : Knot ℝ)
    (hx : 0 < knot.x) (a b : ℝ) (ha : 0 < a) (hb : 0 < b) :
    |evalR M (HasIntegral.integral (⟨p.mapF Rounded.mk⟩ : Log (Poly0 (Rounded M))) (knot.mapF Rounded.mk)) b - evalR M (HasIntegral.integral (⟨p.mapF Rounded.mk⟩ : Log (Poly0 (Rounded M))) (knot.mapF Rounded.mk)) a
        - ∫ t in a..b, Evaluate.evaluate (⟨p⟩ : Log (Poly0 ℝ)) t|
      ≤ (1 + 1 / 1000) * M.u * (a * MagS0 p a + b * MagS0 p b)
        + (2 + 1 / 100) * M.u * (|knot.y| + knot.x * MagS0 p knot.x) := by
  have h := logpoly0_integral_difference_rounding M hu p knot a b ha hb
  have hk : |(HasIntegral.integral (⟨p.mapF Rounded.mk⟩ : Log (Poly0 (Rounded M))) (knot.mapF Rounded.mk)).k.val| ≤ (1 + 1 / 200) * (|knot.y| + knot.x * MagS0 p knot.x) :=
    k_abs_num M (indefR0 M p) (indefR0_k M p) hu knot.y hx (poly0_ct M p knot.x) (by norm_num)
  have := mul_le_mul_of_nonneg_left hk (by have := M.hu; positivity : (0 : ℝ) ≤ 2 * M.u)
  refine h.trans ?_
  have e : (2 + 1 / 100) * M.u * (|knot.y| + knot.x * MagS0 p knot.x)
      = 2 * M.u * ((1 + 1 / 200) * (|knot.y| + knot.x * MagS0 p knot.x)) := by ring
  rw [e]; linarith
/-- **`indefinite()` returns an antiderivative of the same `f`, degree 0**: the rounded `indefinite`, evaluated in rounded
arithmetic, satisfies `|Ĝ(b) − Ĝ(a) − ∫_a^b p(ln t) dt| ≤ 1.001·u·(a·Σ_j S_j|ln a|^j + b·Σ_j S_j|ln b|^j)` -/
theorem logpoly0_indefinite_difference_rounding (hu : M.u ≤ (2 : ℝ) ^ (-53 : ℤ)) (p : Poly0 ℝ)
    (a b : ℝ) (ha : 0 < a) (hb : 0 < b) :
    |evalR M (HasIntegral.indefinite (⟨p.mapF Rounded.mk⟩ : Log (Poly0 (Rounded M)))) b - evalR M (HasIntegral.indefinite (⟨p.mapF Rounded.mk⟩ : Log (Poly0 (Rounded M)))) a
        - ∫ t in a..b, Evaluate.evaluate (⟨p⟩ : Log (Poly0 ℝ)) t|
      ≤ (1 + 1 / 1000) * M.u * (a * MagS0 p a + b * MagS0 p b) := by
  have h : |evalR M (HasIntegral.indefinite (⟨p.mapF Rounded.mk⟩ : Log (Poly0 (Rounded M)))) b - evalR M (HasIntegral.indefinite (⟨p.mapF Rounded.mk⟩ : Log (Poly0 (Rounded M)))) a
      - (b * Evaluate.evaluate (HasIntegral.indefinite (⟨p⟩ : Log (Poly0 ℝ))).poly (Real.log b) - a * Evaluate.evaluate (HasIntegral.indefinite (⟨p⟩ : Log (Poly0 ℝ))).poly (Real.log a))|
      ≤ (1 + 1 / 1000) * M.u * (a * MagS0 p a + b * MagS0 p b) + 2 * M.u * |(indefR0 M p).k.val| :=
    difference_num M (indefR0 M p) hu ha hb (poly0_ct M p a) (poly0_ct M p b)
      (by norm_num) (by norm_num)
  have hf := PP.Props.C09.logpoly0_indefinite_ftc p a b ha hb
  simp only [PP.Props.C09.intOfLog_eval, PP.Props.C09.logpoly0_indefinite_k, add_zero] at hf
  rw [indefR0_k, abs_zero, mul_zero, add_zero] at h
  rw [← hf]
  exact h

/-! ## degree 1 -/

/-- **(6) the antiderivative coefficients, degree 1**: each coefficient `q̂_j` computed by the rounded `indefinite` is
within `(κ_j + 0.001)·u·S_j` of the exact `q_j`, `S_j = Σ_(i≥j) (i!/j!)|c_i|` (`Smag1`), `κ = [1, 0]` -/
theorem logpoly1_coeff_rounding (hu : M.u ≤ (2 : ℝ) ^ (-53 : ℤ)) (p : Poly1 ℝ) :
    |((indefR1 M p).poly._0.a0).val - (HasIntegral.indefinite (⟨p⟩ : Log (Poly1 ℝ))).poly._0.a0| ≤ (1 + 1 / 1000) * M.u * ((Smag1 p)._0.a0) ∧
    |((indefR1 M p).poly._0.a1).val - (HasIntegral.indefinite (⟨p⟩ : Log (Poly1 ℝ))).poly._0.a1| ≤ (0 + 1 / 1000) * M.u * ((Smag1 p)._0.a1) := by
  have h := coeff1_ct M p
  obtain ⟨h0, h1⟩ := h
  exact ⟨ct_numC M h0 hu (by norm_num) (by norm_num), ct_numC M h1 hu (by norm_num) (by norm_num)⟩
/-- the exact coefficients are dominated by the magnitudes: `|q_j| ≤ S_j`, hence `MagQ ≤ MagS`, degree 1 -/
theorem MagQ1_le_MagS (p : Poly1 ℝ) (v : ℝ) : MagQ1 p v ≤ MagS1 p v := by
  have h := coeff1_ct (RModel.exact ℝ) p
  obtain ⟨h0, h1⟩ := h
  have hL := abs_nonneg (Real.log v)
  unfold MagQ1 MagS1
  gcongr
  · exact h0.1
  · exact h1.1
/-- **(4) F̂(knot.x) = knot.y within the rounding bound, degree 1**: `F = integral (Log p) knot` computed in rounded
arithmetic and evaluated (rounded) at `knot.x > 0` differs from `knot.y` by at most
`4.001·u·(|knot.y| + knot.x·(Σ_j|q_j||ln x|^j + 2.001·u·Σ_j S_j|ln x|^j))` -/
theorem logpoly1_knot_rounding (hu : M.u ≤ (2 : ℝ) ^ (-53 : ℤ)) (p : Poly1 ℝ) (knot : Knot ℝ) (hx : 0 < knot.x) :
    |evalR M (HasIntegral.integral (⟨p.mapF Rounded.mk⟩ : Log (Poly1 (Rounded M))) (knot.mapF Rounded.mk)) knot.x - knot.y|
      ≤ (4 + 1 / 1000) * M.u * (|knot.y| + knot.x * (MagQ1 p knot.x + (2 + 1 / 1000) * M.u * MagS1 p knot.x)) := by
  exact knot_num M (indefR1 M p) (indefR1_k M p) hu knot.y hx (poly1_ct M p knot.x) (poly1_abs_le p knot.x)
    (by norm_num) (by norm_num)
/-- (4, magnitude form) `≤ 4.01·u·(|knot.y| + knot.x·Σ_j S_j|ln x|^j)`, degree 1 -/
theorem logpoly1_knot_rounding_S (hu : M.u ≤ (2 : ℝ) ^ (-53 : ℤ)) (p : Poly1 ℝ) (knot : Knot ℝ) (hx : 0 < knot.x) :
    |evalR M (HasIntegral.integral (⟨p.mapF Rounded.mk⟩ : Log (Poly1 (Rounded M))) (knot.mapF Rounded.mk)) knot.x - knot.y| ≤ (4 + 1 / 100) * M.u * (|knot.y| + knot.x * MagS1 p knot.x) :=
  knot_num_S M (indefR1 M p) (indefR1_k M p) hu knot.y hx (poly1_ct M p knot.x) (by norm_num)
/-- **(5) `integral_difference_rounding`, degree 1**: for all `a, b > 0`,
`|F̂(b) − F̂(a) − ∫_a^b p(ln t) dt| ≤ 3.001·u·(a·Σ_j S_j|ln a|^j + b·Σ_j S_j|ln b|^j) + 2·u·|k̂|`, `k̂ = F.k` the stored constant -/
theorem logpoly1_integral_difference_rounding (hu : M.u ≤ (2 : ℝ) ^ (-53 : ℤ)) (p : Poly1 ℝ) (knot : Knot ℝ)
    (a b : ℝ) (ha : 0 < a) (hb : 0 < b) :
    |evalR M (HasIntegral.integral (⟨p.mapF Rounded.mk⟩ : Log (Poly1 (Rounded M))) (knot.mapF Rounded.mk)) b - evalR M (HasIntegral.integral (⟨p.mapF Rounded.mk⟩ : Log (Poly1 (Rounded M))) (knot.mapF Rounded.mk)) a
        - ∫ t in a..b, Evaluate.evaluate (⟨p⟩ : Log (Poly1 ℝ)) t|
      ≤ (3 + 1 / 1000) * M.u * (a * MagS1 p a + b * MagS1 p b)
        + 2 * M.u * |(HasIntegral.integral (⟨p.mapF Rounded.mk⟩ : Log (Poly1 (Rounded M))) (knot.mapF Rounded.mk)).k.val| := by
  have h : |evalR M (HasIntegral.integral (⟨p.mapF Rounded.mk⟩ : Log (Poly1 (Rounded M))) (knot.mapF Rounded.mk)) b - evalR M (HasIntegral.integral (⟨p.mapF Rounded.mk⟩ : Log (Poly1 (Rounded M))) (knot.mapF Rounded.mk)) a
      - (b * Evaluate.evaluate (HasIntegral.indefinite (⟨p⟩ : Log (Poly1 ℝ))).poly (Real.log b) - a * Evaluate.evaluate (HasIntegral.indefinite (⟨p⟩ : Log (Poly1 ℝ))).poly (Real.log a))|
      ≤ (3 + 1 / 1000) * M.u * (a * MagS1 p a + b * MagS1 p b) + 2 * M.u * |(HasIntegral.integral (⟨p.mapF Rounded.mk⟩ : Log (Poly1 (Rounded M))) (knot.mapF Rounded.mk)).k.val| :=
    difference_num M (throughKnot M (indefR1 M p) knot.x knot.y) hu ha hb (poly1_ct M p a) (poly1_ct M p b)
      (by norm_num) (by norm_num)
  have hf := PP.Props.C09.logpoly1_indefinite_ftc p a b ha hb
  simp only [PP.Props.C09.intOfLog_eval, PP.Props.C09.logpoly1_indefinite_k, add_zero] at hf
  rw [← hf]
  exact h
/-- (5, with the stored constant bounded) `… + 2.01·u·(|knot.y| + knot.x·Σ_j S_j|ln x|^j)`, degree 1 -/
theorem logpoly1_integral_difference_rounding' (hu : M.u ≤ (2 : ℝ) ^ (-53 : ℤ)) (p : Poly1 ℝ) (knot : Knot ℝ)
    (hx : 0 < knot.x) (a b : ℝ) (ha : 0 < a) (hb : 0 < b) :
    |evalR M (HasIntegral.integral (⟨p.mapF Rounded.mk⟩ : Log (Poly1 (Rounded M))) (knot.mapF Rounded.mk)) b - evalR M (HasIntegral.integral (⟨p.mapF Rounded.mk⟩ : Log (Poly1 (Rounded M))) (knot.mapF Rounded.mk)) a
        - ∫ t in a..b, Evaluate.evaluate (⟨p⟩ : Log (Poly1 ℝ)) t|
      ≤ (3 + 1 / 1000) * M.u * (a * MagS1 p a + b * MagS1 p b)
        + (2 + 1 / 100) * M.u * (|knot.y| + knot.x * MagS1 p knot.x) := by
  have h := logpoly1_integral_difference_rounding M hu p knot a b ha hb
  have hk : |(HasIntegral.integral (⟨p.mapF Rounded.mk⟩ : Log (Poly1 (Rounded M))) (knot.mapF Rounded.mk)).k.val| ≤ (1 + 1 / 200) * (|knot.y| + knot.x * MagS1 p knot.x) :=
    k_abs_num M (indefR1 M p) (indefR1_k M p) hu knot.y hx (poly1_ct M p knot.x) (by norm_num)
  have := mul_le_mul_of_nonneg_left hk (by have := M.hu; positivity : (0 : ℝ) ≤ 2 * M.u)
  refine h.trans ?_
  have e : (2 + 1 / 100) * M.u * (|knot.y| + knot.x * MagS1 p knot.x)
      = 2 * M.u * ((1 + 1 / 200) * (|knot.y| + knot.x * MagS1 p knot.x)) := by ring
  rw [e]; linarith
/-- **`indefinite()` returns an antiderivative of the same `f`, degree 1**: the rounded `indefinite`, evaluated in rounded
arithmetic, satisfies `|Ĝ(b) − Ĝ(a) − ∫_a^b p(ln t) dt| ≤ 3.001·u·(a·Σ_j S_j|ln a|^j + b·Σ_j S_j|ln b|^j)` -/
theorem logpoly1_indefinite_difference_rounding (hu : M.u ≤ (2 : ℝ) ^ (-53 : ℤ)) (p : Poly1 ℝ)
    (a b : ℝ) (ha : 0 < a) (hb : 0 < b) :
    |evalR M (HasIntegral.indefinite (⟨p.mapF Rounded.mk⟩ : Log (Poly1 (Rounded M)))) b - evalR M (HasIntegral.indefinite (⟨p.mapF Rounded.mk⟩ : Log (Poly1 (Rounded M)))) a
        - ∫ t in a..b, Evaluate.evaluate (⟨p⟩ : Log (Poly1 ℝ)) t|
      ≤ (3 + 1 / 1000) * M.u * (a * MagS1 p a + b * MagS1 p b) := by
  have h : |evalR M (HasIntegral.indefinite (⟨p.mapF Rounded.mk⟩ : Log (Poly1 (Rounded M)))) b - evalR M (HasIntegral.indefinite (⟨p.mapF Rounded.mk⟩ : Log (Poly1 (Rounded M)))) a
      - (b * Evaluate.evaluate (HasIntegral.indefinite (⟨p⟩ : Log (Poly1 ℝ))).poly (Real.log b) - a * Evaluate.evaluate (HasIntegral.indefinite (⟨p⟩ : Log (Poly1 ℝ))).poly (Real.log a))|
      ≤ (3 + 1 / 1000) * M.u * (a * MagS1 p a + b * MagS1 p b) + 2 * M.u * |(indefR1 M p).k.val| :=
    difference_num M (indefR1 M p) hu ha hb (poly1_ct M p a) (poly1_ct M p b)
      (by norm_num) (by norm_num)
  have hf := PP.Props.C09.logpoly1_indefinite_ftc p a b ha hb
  simp only [PP.Props.C09.intOfLog_eval, PP.Props.C09.logpoly1_indefinite_k, add_zero] at hf
  rw [indefR1_k, abs_zero, mul_zero, add_zero] at h
  rw [← hf]
  exact h

/-! ## degree 2 -/

/-- **(6) the antiderivative coefficients, degree 2**: each coefficient `q̂_j` computed by the rounded `indefinite` is
within `(κ_j + 0.001)·u·S_j` of the exact `q_j`, `S_j = Σ_(i≥j) (i!/j!)|c_i|` (`Smag2`), `κ = [4, 3, 0]` -/
theorem logpoly2_coeff_rounding (hu : M.u ≤ (2 : ℝ) ^ (-53 : ℤ)) (p : Poly2 ℝ) :
    |((indefR2 M p).poly._0.a0).val - (HasIntegral.indefinite (⟨p⟩ : Log (Poly2 ℝ))).poly._0.a0| ≤ (4 + 1 / 1000) * M.u * ((Smag2 p)._0.a0) ∧
    |((indefR2 M p).poly._0.a1).val - (HasIntegral.indefinite (⟨p⟩ : Log (Poly2 ℝ))).poly._0.a1| ≤ (3 + 1 / 1000) * M.u * ((Smag2 p)._0.a1) ∧
    |((indefR2 M p).poly._0.a2).val - (HasIntegral.indefinite (⟨p⟩ : Log (Poly2 ℝ))).poly._0.a2| ≤ (0 + 1 / 1000) * M.u * ((Smag2 p)._0.a2) := by
  have h := coeff2_ct M p
  obtain ⟨h0, h1, h2⟩ := h
  exact ⟨ct_numC M h0 hu (by norm_num) (by norm_num), ct_numC M h1 hu (by norm_num) (by norm_num), ct_numC M h2 hu (by norm_num) (by norm_num)⟩
/-- the exact coefficients are dominated by the magnitudes: `|q_j| ≤ S_j`, hence `MagQ ≤ MagS`, degree 2 -/
theorem MagQ2_le_MagS (p : Poly2 ℝ) (v : ℝ) : MagQ2 p v ≤ MagS2 p v := by
  have h := coeff2_ct (RModel.exact ℝ) p
  obtain ⟨h0, h1, h2⟩ := h
  have hL := abs_nonneg (Real.log v)
  unfold MagQ2 MagS2
  gcongr
  · exact h0.1
  · exact h1.1
  · exact h2.1
/-- **(4) F̂(knot.x) = knot.y within the rounding bound, degree 2**: `F = integral (Log p) knot` computed in rounded
arithmetic and evaluated (rounded) at `knot.x > 0` differs from `knot.y` by at most
`4.001·u·(|knot.y| + knot.x·(Σ_j|q_j||ln x|^j + 6.001·u·Σ_j S_j|ln x|^j))` -/
theorem logpoly2_knot_rounding (hu : M.u ≤ (2 : ℝ) ^ (-53 : ℤ)) (p : Poly2 ℝ) (knot : Knot ℝ) (hx : 0 < knot.x) :
    |evalR M (HasIntegral.integral (⟨p.mapF Rounded.mk⟩ : Log (Poly2 (Rounded M))) (knot.mapF Rounded.mk)) knot.x - knot.y|
      ≤ (4 + 1 / 1000) * M.u * (|knot.y| + knot.x * (MagQ2 p knot.x + (6 + 1 / 1000) * M.u * MagS2 p knot.x)) := by
  exact knot_num M (indefR2 M p) (indefR2_k M p) hu knot.y hx (poly2_ct M p knot.x) (poly2_abs_le p knot.x)
    (by norm_num) (by norm_num)
/-- (4, magnitude form) `≤ 4.01·u·(|knot.y| + knot.x·Σ_j S_j|ln x|^j)`, degree 2 -/
theorem logpoly2_knot_rounding_S (hu : M.u ≤ (2 : ℝ) ^ (-53 : ℤ)) (p : Poly2 ℝ) (knot : Knot ℝ) (hx : 0 < knot.x) :
    |evalR M (HasIntegral.integral (⟨p.mapF Rounded.mk⟩ : Log (Poly2 (Rounded M))) (knot.mapF Rounded.mk)) knot.x - knot.y| ≤ (4 + 1 / 100) * M.u * (|knot.y| + knot.x * MagS2 p knot.x) :=
  knot_num_S M (indefR2 M p) (indefR2_k M p) hu knot.y hx (poly2_ct M p knot.x) (by norm_num)
/-- **(5) `integral_difference_rounding`, degree 2**: for all `a, b > 0`,
`|F̂(b) − F̂(a) − ∫_a^b p(ln t) dt| ≤ 7.001·u·(a·Σ_j S_j|ln a|^j + b·Σ_j S_j|ln b|^j) + 2·u·|k̂|`, `k̂ = F.k` the stored constant -/
theorem logpoly2_integral_difference_rounding (hu : M.u ≤ (2 : ℝ) ^ (-53 : ℤ)) (p : Poly2 ℝ) (knot : Knot ℝ)
    (a b : ℝ) (ha : 0 < a) (hb : 0 < b) :
    |evalR M (HasIntegral.integral (⟨p.mapF Rounded.mk⟩ : Log (Poly2 (Rounded M))) (knot.mapF Rounded.mk)) b - evalR M (HasIntegral.integral (⟨p.mapF Rounded.mk⟩ : Log (Poly2 (Rounded M))) (knot.mapF Rounded.mk)) a
        - ∫ t in a..b, Evaluate.evaluate (⟨p⟩ : Log (Poly2 ℝ)) t|
      ≤ (7 + 1 / 1000) * M.u * (a * MagS2 p a + b * MagS2 p b)
        + 2 * M.u * |(HasIntegral.integral (⟨p.mapF Rounded.mk⟩ : Log (Poly2 (Rounded M))) (knot.mapF Rounded.mk)).k.val| := by
  have h : |evalR M (HasIntegral.integral (⟨p.mapF Rounded.mk⟩ : Log (Poly2 (Rounded M))) (knot.mapF Rounded.mk)) b - evalR M (HasIntegral.integral (⟨p.mapF Rounded.mk⟩ : Log (Poly2 (Rounded M))) (knot.mapF Rounded.mk)) a
      - (b * Evaluate.evaluate (HasIntegral.indefinite (⟨p⟩ : Log (Poly2 ℝ))).poly (Real.log b) - a * Evaluate.evaluate (HasIntegral.indefinite (⟨p⟩ : Log (Poly2 ℝ))).poly (Real.log a))|
      ≤ (7 + 1 / 1000) * M.u * (a * MagS2 p a + b * MagS2 p b) + 2 * M.u * |(HasIntegral.integral (⟨p.mapF Rounded.mk⟩ : Log (Poly2 (Rounded M))) (knot.mapF Rounded.mk)).k.val| :=
    difference_num M (throughKnot M (indefR2 M p) knot.x knot.y) hu ha hb (poly2_ct M p a) (poly2_ct M p b)
      (by norm_num) (by norm_num)
  have hf := PP.Props.C09.logpoly2_indefinite_ftc p a b ha hb
  simp only [PP.Props.C09.intOfLog_eval, PP.Props.C09.logpoly2_indefinite_k, add_zero] at hf
  rw [← hf]
  exact h
/-- (5, with the stored constant bounded) `… + 2.01·u·(|knot.y| + knot.x·Σ_j S_j|ln x|^j)`, degree 2 -/
theorem logpoly2_integral_difference_rounding' (hu : M.u ≤ (2 : ℝ) ^ (-53 : ℤ)) (p : Poly2 ℝ) (knot : Knot ℝ)
    (hx : 0 < knot.x) (a b : ℝ) (ha : 0 < a) (hb : 0 < b) :
    |evalR M (HasIntegral.integral (⟨p.mapF Rounded.mk⟩ : Log (Poly2 (Rounded M))) (knot.mapF Rounded.mk)) b - evalR M (HasIntegral.integral (⟨p.mapF Rounded.mk⟩ : Log (Poly2 (Rounded M))) (knot.mapF Rounded.mk)) a
        - ∫ t in a..b, Evaluate.evaluate (⟨p⟩ : Log (Poly2 ℝ)) t|
      ≤ (7 + 1 / 1000) * M.u * (a * MagS2 p a + b * MagS2 p b)
        + (2 + 1 / 100) * M.u * (|knot.y| + knot.x * MagS2 p knot.x) := by
  have h := logpoly2_integral_difference_rounding M hu p knot a b ha hb
  have hk : |(HasIntegral.integral (⟨p.mapF Rounded.mk⟩ : Log (Poly2 (Rounded M))) (knot.mapF Rounded.mk)).k.val| ≤ (1 + 1 / 200) * (|knot.y| + knot.x * MagS2 p knot.x) :=
    k_abs_num M (indefR2 M p) (indefR2_k M p) hu knot.y hx (poly2_ct M p knot.x) (by norm_num)
  have := mul_le_mul_of_nonneg_left hk (by have := M.hu; positivity : (0 : ℝ) ≤ 2 * M.u)
  refine h.trans ?_
  have e : (2 + 1 / 100) * M.u * (|knot.y| + knot.x * MagS2 p knot.x)
      = 2 * M.u * ((1 + 1 / 200) * (|knot.y| + knot.x * MagS2 p knot.x)) := by ring
  rw [e]; linarith
/-- **`indefinite()` returns an antiderivative of the same `f`, degree 2**: the rounded `indefinite`, evaluated in rounded
arithmetic, satisfies `|Ĝ(b) − Ĝ(a) − ∫_a^b p(ln t) dt| ≤ 7.001·u·(a·Σ_j S_j|ln a|^j + b·Σ_j S_j|ln b|^j)` -/
theorem logpoly2_indefinite_difference_rounding (hu : M.u ≤ (2 : ℝ) ^ (-53 : ℤ)) (p : Poly2 ℝ)
    (a b : ℝ) (ha : 0 < a) (hb : 0 < b) :
    |evalR M (HasIntegral.indefinite (⟨p.mapF Rounded.mk⟩ : Log (Poly2 (Rounded M)))) b - evalR M (HasIntegral.indefinite (⟨p.mapF Rounded.mk⟩ : Log (Poly2 (Rounded M)))) a
        - ∫ t in a..b, Evaluate.evaluate (⟨p⟩ : Log (Poly2 ℝ)) t|
      ≤ (7 + 1 / 1000) * M.u * (a * MagS2 p a + b * MagS2 p b) := by
  have h : |evalR M (HasIntegral.indefinite (⟨p.mapF Rounded.mk⟩ : Log (Poly2 (Rounded M)))) b - evalR M (HasIntegral.indefinite (⟨p.mapF Rounded.mk⟩ : Log (Poly2 (Rounded M)))) a
      - (b * Evaluate.evaluate (HasIntegral.indefinite (⟨p⟩ : Log (Poly2 ℝ))).poly (Real.log b) - a * Evaluate.evaluate (HasIntegral.indefinite (⟨p⟩ : Log (Poly2 ℝ))).poly (Real.log a))|
      ≤ (7 + 1 / 1000) * M.u * (a * MagS2 p a + b * MagS2 p b) + 2 * M.u * |(indefR2 M p).k.val| :=
    difference_num M (indefR2 M p) hu ha hb (poly2_ct M p a) (poly2_ct M p b)
      (by norm_num) (by norm_num)
  have hf := PP.Props.C09.logpoly2_indefinite_ftc p a b ha hb
  simp only [PP.Props.C09.intOfLog_eval, PP.Props.C09.logpoly2_indefinite_k, add_zero] at hf
  rw [indefR2_k, abs_zero, mul_zero, add_zero] at h
  rw [← hf]
  exact h

/-! ## degree 3 -/

/-- **(6) the antiderivative coefficients, degree 3**: each coefficient `q̂_j` computed by the rounded `indefinite` is
within `(κ_j + 0.001)·u·S_j` of the exact `q_j`, `S_j = Σ_(i≥j) (i!/j!)|c_i|` (`Smag3`), `κ = [7, 6, 3, 0]` -/
theorem logpoly3_coeff_rounding (hu : M.u ≤ (2 : ℝ) ^ (-53 : ℤ)) (p : Poly3 ℝ) :
    |((indefR3 M p).poly._0.a0).val - (HasIntegral.indefinite (⟨p⟩ : Log (Poly3 ℝ))).poly._0.a0| ≤ (7 + 1 / 1000) * M.u * ((Smag3 p)._0.a0) ∧
    |((indefR3 M p).poly._0.a1).val - (HasIntegral.indefinite (⟨p⟩ : Log (Poly3 ℝ))).poly._0.a1| ≤ (6 + 1 / 1000) * M.u * ((Smag3 p)._0.a1) ∧
    |((indefR3 M p).poly._0.a2).val - (HasIntegral.indefinite (⟨p⟩ : Log (Poly3 ℝ))).poly._0.a2| ≤ (3 + 1 / 1000) * M.u * ((Smag3 p)._0.a2) ∧
    |((indefR3 M p).poly._0.a3).val - (HasIntegral.indefinite (⟨p⟩ : Log (Poly3 ℝ))).poly._0.a3| ≤ (0 + 1 / 1000) * M.u * ((Smag3 p)._0.a3) := by
  have h := coeff3_ct M p
  obtain ⟨h0, h1, h2, h3⟩ := h
  exact ⟨ct_numC M h0 hu (by norm_num) (by norm_num), ct_numC M h1 hu (by norm_num) (by norm_num), ct_numC M h2 hu (by norm_num) (by norm_num), ct_numC M h3 hu (by norm_num) (by norm_num)⟩
/-- the exact coefficients are dominated by the magnitudes: `|q_j| ≤ S_j`, hence `MagQ ≤ MagS`, degree 3 -/
theorem MagQ3_le_MagS (p : Poly3 ℝ) (v : ℝ) : MagQ3 p v ≤ MagS3 p v := by
  have h := coeff3_ct (RModel.exact ℝ) p
  obtain ⟨h0, h1, h2, h3⟩ := h
  have hL := abs_nonneg (Real.log v)
  unfold MagQ3 MagS3
  gcongr
  · exact h0.1
  · exact h1.1
  · exact h2.1
  · exact h3.1
/-- **(4) F̂(knot.x) = knot.y within the rounding bound, degree 3**: `F = integral (Log p) knot` computed in rounded
arithmetic and evaluated (rounded) at `knot.x > 0` differs from `knot.y` by at most
`4.001·u·(|knot.y| + knot.x·(Σ_j|q_j||ln x|^j + 9.001·u·Σ_j S_j|ln x|^j))` -/
theorem logpoly3_knot_rounding (hu : M.u ≤ (2 : ℝ) ^ (-53 : ℤ)) (p : Poly3 ℝ) (knot : Knot ℝ) (hx : 0 < knot.x) :
    |evalR M (HasIntegral.integral (⟨p.mapF Rounded.mk⟩ : Log (Poly3 (Rounded M))) (knot.mapF Rounded.mk)) knot.x - knot.y|
      ≤ (4 + 1 / 1000) * M.u * (|knot.y| + knot.x * (MagQ3 p knot.x + (9 + 1 / 1000) * M.u * MagS3 p knot.x)) := by
  exact knot_num M (indefR3 M p) (indefR3_k M p) hu knot.y hx (poly3_ct M p knot.x) (poly3_abs_le p knot.x)
    (by norm_num) (by norm_num)
/-- (4, magnitude form) `≤ 4.01·u·(|knot.y| + knot.x·Σ_j S_j|ln x|^j)`, degree 3 -/
theorem logpoly3_knot_rounding_S (hu : M.u ≤ (2 : ℝ) ^ (-53 : ℤ)) (p : Poly3 ℝ) (knot : Knot ℝ) (hx : 0 < knot.x) :
    |evalR M (HasIntegral.integral (⟨p.mapF Rounded.mk⟩ : Log (Poly3 (Rounded M))) (knot.mapF Rounded.mk)) knot.x - knot.y| ≤ (4 + 1 / 100) * M.u * (|knot.y| + knot.x * MagS3 p knot.x) :=
  knot_num_S M (indefR3 M p) (indefR3_k M p) hu knot.y hx (poly3_ct M p knot.x) (by norm_num)
/-- **(5) `integral_difference_rounding`, degree 3**: for all `a, b > 0`,
`|F̂(b) − F̂(a) − ∫_a^b p(ln t) dt| ≤ 10.001·u·(a·Σ_j S_j|ln a|^j + b·Σ_j S_j|ln b|^j) + 2·u·|k̂|`, `k̂ = F.k` the stored constant -/
theorem logpoly3_integral_difference_rounding (hu : M.u ≤ (2 : ℝ) ^ (-53 : ℤ)) (p : Poly3 ℝ) (knot : Knot ℝ)
    (a b : ℝ) (ha : 0 < a) (hb : 0 < b) :
    |evalR M (HasIntegral.integral (⟨p.mapF Rounded.mk⟩ : Log (Poly3 (Rounded M))) (knot.mapF Rounded.mk)) b - evalR M (HasIntegral.integral (⟨p.mapF Rounded.mk⟩ : Log (Poly3 (Rounded M))) (knot.mapF Rounded.mk)) a
        - ∫ t in a..b, Evaluate.evaluate (⟨p⟩ : Log (Poly3 ℝ)) t|
      ≤ (10 + 1 / 1000) * M.u * (a * MagS3 p a + b * MagS3 p b)
        + 2 * M.u * |(HasIntegral.integral (⟨p.mapF Rounded.mk⟩ : Log (Poly3 (Rounded M))) (knot.mapF Rounded.mk)).k.val| := by
  have h : |evalR M (HasIntegral.integral (⟨p.mapF Rounded.mk⟩ : Log (Poly3 (Rounded M))) (knot.mapF Rounded.mk)) b - evalR M (HasIntegral.integral (⟨p.mapF Rounded.mk⟩ : Log (Poly3 (Rounded M))) (knot.mapF Rounded.mk)) a
      - (b * Evaluate.evaluate (HasIntegral.indefinite (⟨p⟩ : Log (Poly3 ℝ))).poly (Real.log b) - a * Evaluate.evaluate (HasIntegral.indefinite (⟨p⟩ : Log (Poly3 ℝ))).poly (Real.log a))|
      ≤ (10 + 1 / 1000) * M.u * (a * MagS3 p a + b * MagS3 p b) + 2 * M.u * |(HasIntegral.integral (⟨p.mapF Rounded.mk⟩ : Log (Poly3 (Rounded M))) (knot.mapF Rounded.mk)).k.val| :=
    difference_num M (throughKnot M (indefR3 M p) knot.x knot.y) hu ha hb (poly3_ct M p a) (poly3_ct M p b)
      (by norm_num) (by norm_num)
  have hf := PP.Props.C09.logpoly3_indefinite_ftc p a b ha hb
  simp only [PP.Props.C09.intOfLog_eval, PP.Props.C09.logpoly3_indefinite_k, add_zero] at hf
  rw [← hf]
  exact h
/-- (5, with the stored constant bounded) `… + 2.01·u·(|knot.y| + knot.x·Σ_j S_j|ln x|^j)`, degree 3 -/
theorem logpoly3_integral_difference_rounding' (hu : M.u ≤ (2 : ℝ) ^ (-53 : ℤ)) (p : Poly3 ℝ) (knot : Knot ℝ)
    (hx : 0 < knot.x) (a b : ℝ) (ha : 0 < a) (hb : 0 < b) :
    |evalR M (HasIntegral.integral (⟨p.mapF Rounded.mk⟩ : Log (Poly3 (Rounded M))) (knot.mapF Rounded.mk)) b - evalR M (HasIntegral.integral (⟨p.mapF Rounded.mk⟩ : Log (Poly3 (Rounded M))) (knot.mapF Rounded.mk)) a
        - ∫ t in a..b, Evaluate.evaluate (⟨p⟩ : Log (Poly3 ℝ)) t|
      ≤ (10 + 1 / 1000) * M.u * (a * MagS3 p a + b * MagS3 p b)
        + (2 + 1 / 100) * M.u * (|knot.y| + knot.x * MagS3 p knot.x) := by
  have h := logpoly3_integral_difference_rounding M hu p knot a b ha hb
  have hk : |(HasIntegral.integral (⟨p.mapF Rounded.mk⟩ : Log (Poly3 (Rounded M))) (knot.mapF Rounded.mk)).k.val| ≤ (1 + 1 / 200) * (|knot.y| + knot.x * MagS3 p knot.x) :=
    k_abs_num M (indefR3 M p) (indefR3_k M p) hu knot.y hx (poly3_ct M p knot.x) (by norm_num)
  have := mul_le_mul_of_nonneg_left hk (by have := M.hu; positivity : (0 : ℝ) ≤ 2 * M.u)
  refine h.trans ?_
  have e : (2 + 1 / 100) * M.u * (|knot.y| + knot.x * MagS3 p knot.x)
      = 2 * M.u * ((1 + 1 / 200) * (|knot.y| + knot.x * MagS3 p knot.x)) := by ring
  rw [e]; linarith
/-- **`indefinite()` returns an antiderivative of the same `f`, degree 3**: the rounded `indefinite`, evaluated in rounded
arithmetic, satisfies `|Ĝ(b) − Ĝ(a) − ∫_a^b p(ln t) dt| ≤ 10.001·u·(a·Σ_j S_j|ln a|^j + b·Σ_j S_j|ln b|^j)` -/
theorem logpoly3_indefinite_difference_rounding (hu : M.u ≤ (2 : ℝ) ^ (-53 : ℤ)) (p : Poly3 ℝ)
    (a b : ℝ) (ha : 0 < a) (hb : 0 < b) :
    |evalR M (HasIntegral.indefinite (⟨p.mapF Rounded.mk⟩ : Log (Poly3 (Rounded M)))) b - evalR M (HasIntegral.indefinite (⟨p.mapF Rounded.mk⟩ : Log (Poly3 (Rounded M)))) a
        - ∫ t in a..b, Evaluate.evaluate (⟨p⟩ : Log (Poly3 ℝ)) t|
      ≤ (10 + 1 / 1000) * M.u * (a * MagS3 p a + b * MagS3 p b) := by
  have h : |evalR M (HasIntegral.indefinite (⟨p.mapF Rounded.mk⟩ : Log (Poly3 (Rounded M)))) b - evalR M (HasIntegral.indefinite (⟨p.mapF Rounded.mk⟩ : Log (Poly3 (Rounded M)))) a
      - (b * Evaluate.evaluate (HasIntegral.indefinite (⟨p⟩ : Log (Poly3 ℝ))).poly (Real.log b) - a * Evaluate.evaluate (HasIntegral.indefinite (⟨p⟩ : Log (Poly3 ℝ))).poly (Real.log a))|
      ≤ (10 + 1 / 1000) * M.u * (a * MagS3 p a + b * MagS3 p b) + 2 * M.u * |(indefR3 M p).k.val| :=
    difference_num M (indefR3 M p) hu ha hb (poly3_ct M p a) (poly3_ct M p b)
      (by norm_num) (by norm_num)
  have hf := PP.Props.C09.logpoly3_indefinite_ftc p a b ha hb
  simp only [PP.Props.C09.intOfLog_eval, PP.Props.C09.logpoly3_indefinite_k, add_zero] at hf
  rw [indefR3_k, abs_zero, mul_zero, add_zero] at h
  rw [← hf]
  exact h

/-! ## degree 5 -/

/-- **(6) the antiderivative coefficients, degree 5**: each coefficient `q̂_j` computed by the rounded `indefinite` is
within `(κ_j + 0.001)·u·S_j` of the exact `q_j`, `S_j = Σ_(i≥j) (i!/j!)|c_i|` (`Smag5`), `κ = [13, 12, 9, 6, 3, 0]` -/
theorem logpoly5_coeff_rounding (hu : M.u ≤ (2 : ℝ) ^ (-53 : ℤ)) (p : Poly5 ℝ) :
    |((indefR5 M p).poly._0.a0).val - (HasIntegral.indefinite (⟨p⟩ : Log (Poly5 ℝ))).poly._0.a0| ≤ (13 + 1 / 1000) * M.u * ((Smag5 p)._0.a0) ∧
    |((indefR5 M p).poly._0.a1).val - (HasIntegral.indefinite (⟨p⟩ : Log (Poly5 ℝ))).poly._0.a1| ≤ (12 + 1 / 1000) * M.u * ((Smag5 p)._0.a1) ∧
    |((indefR5 M p).poly._0.a2).val - (HasIntegral.indefinite (⟨p⟩ : Log (Poly5 ℝ))).poly._0.a2| ≤ (9 + 1 / 1000) * M.u * ((Smag5 p)._0.a2) ∧
    |((indefR5 M p).poly._0.a3).val - (HasIntegral.indefinite (⟨p⟩ : Log (Poly5 ℝ))).poly._0.a3| ≤ (6 + 1 / 1000) * M.u * ((Smag5 p)._0.a3) ∧
    |((indefR5 M p).poly._0.a4).val - (HasIntegral.indefinite (⟨p⟩ : Log (Poly5 ℝ))).poly._0.a4| ≤ (3 + 1 / 1000) * M.u * ((Smag5 p)._0.a4) ∧
    |((indefR5 M p).poly._0.a5).val - (HasIntegral.indefinite (⟨p⟩ : Log (Poly5 ℝ))).poly._0.a5| ≤ (0 + 1 / 1000) * M.u * ((Smag5 p)._0.a5) := by
  have h := coeff5_ct M p
  obtain ⟨h0, h1, h2, h3, h4, h5⟩ := h
  exact ⟨ct_numC M h0 hu (by norm_num) (by norm_num), ct_numC M h1 hu (by norm_num) (by norm_num), ct_numC M h2 hu (by norm_num) (by norm_num), ct_numC M h3 hu (by norm_num) (by norm_num), ct_numC M h4 hu (by norm_num) (by norm_num), ct_numC M h5 hu (by norm_num) (by norm_num)⟩
/-- the exact coefficients are dominated by the magnitudes: `|q_j| ≤ S_j`, hence `MagQ ≤ MagS`, degree 5 -/
theorem MagQ5_le_MagS (p : Poly5 ℝ) (v : ℝ) : MagQ5 p v ≤ MagS5 p v := by
  have h := coeff5_ct (RModel.exact ℝ) p
  obtain ⟨h0, h1, h2, h3, h4, h5⟩ := h
  have hL := abs_nonneg (Real.log v)
  unfold MagQ5 MagS5
  gcongr
  · exact h0.1
  · exact h1.1
  · exact h2.1
  · exact h3.1
  · exact h4.1
  · exact h5.1
/-- **(4) F̂(knot.x) = knot.y within the rounding bound, degree 5**: `F = integral (Log p) knot` computed in rounded
arithmetic and evaluated (rounded) at `knot.x > 0` differs from `knot.y` by at most
`4.001·u·(|knot.y| + knot.x·(Σ_j|q_j||ln x|^j + 16.001·u·Σ_j S_j|ln x|^j))` -/
theorem logpoly5_knot_rounding (hu : M.u ≤ (2 : ℝ) ^ (-53 : ℤ)) (p : Poly5 ℝ) (knot : Knot ℝ) (hx : 0 < knot.x) :
    |evalR M (HasIntegral.integral (⟨p.mapF Rounded.mk⟩ : Log (Poly5 (Rounded M))) (knot.mapF Rounded.mk)) knot.x - knot.y|
      ≤ (4 + 1 / 1000) * M.u * (|knot.y| + knot.x * (MagQ5 p knot.x + (16 + 1 / 1000) * M.u * MagS5 p knot.x)) := by
  exact knot_num M (indefR5 M p) (indefR5_k M p) hu knot.y hx (poly5_ct M p knot.x) (poly5_abs_le p knot.x)
    (by norm_num) (by norm_num)
/-- (4, magnitude form) `≤ 4.01·u·(|knot.y| + knot.x·Σ_j S_j|ln x|^j)`, degree 5 -/
theorem logpoly5_knot_rounding_S (hu : M.u ≤ (2 : ℝ) ^ (-53 : ℤ)) (p : Poly5 ℝ) (knot : Knot ℝ) (hx : 0 < knot.x) :
    |evalR M (HasIntegral.integral (⟨p.mapF Rounded.mk⟩ : Log (Poly5 (Rounded M))) (knot.mapF Rounded.mk)) knot.x - knot.y| ≤ (4 + 1 / 100) * M.u * (|knot.y| + knot.x * MagS5 p knot.x) :=
  knot_num_S M (indefR5 M p) (indefR5_k M p) hu knot.y hx (poly5_ct M p knot.x) (by norm_num)
/-- **(5) `integral_difference_rounding`, degree 5**: for all `a, b > 0`,
`|F̂(b) − F̂(a) − ∫_a^b p(ln t) dt| ≤ 17.001·u·(a·Σ_j S_j|ln a|^j + b·Σ_j S_j|ln b|^j) + 2·u·|k̂|`, `k̂ = F.k` the stored constant -/
theorem logpoly5_integral_difference_rounding (hu : M.u ≤ (2 : ℝ) ^ (-53 : ℤ)) (p : Poly5 ℝ) (knot : Knot ℝ)
    (a b : ℝ) (ha : 0 < a) (hb : 0 < b) :
    |evalR M (HasIntegral.integral (⟨p.mapF Rounded.mk⟩ : Log (Poly5 (Rounded M))) (knot.mapF Rounded.mk)) b - evalR M (HasIntegral.integral (⟨p.mapF Rounded.mk⟩ : Log (Poly5 (Rounded M))) (knot.mapF Rounded.mk)) a
        - ∫ t in a..b, Evaluate.evaluate (⟨p⟩ : Log (Poly5 ℝ)) t|
      ≤ (17 + 1 / 1000) * M.u * (a * MagS5 p a + b * MagS5 p b)
        + 2 * M.u * |(HasIntegral.integral (⟨p.mapF Rounded.mk⟩ : Log (Poly5 (Rounded M))) (knot.mapF Rounded.mk)).k.val| := by
  have h : |evalR M (HasIntegral.integral (⟨p.mapF Rounded.mk⟩ : Log (Poly5 (Rounded M))) (knot.mapF Rounded.mk)) b - evalR M (HasIntegral.integral (⟨p.mapF Rounded.mk⟩ : Log (Poly5 (Rounded M))) (knot.mapF Rounded.mk)) a
      - (b * Evaluate.evaluate (HasIntegral.indefinite (⟨p⟩ : Log (Poly5 ℝ))).poly (Real.log b) - a * Evaluate.evaluate (HasIntegral.indefinite (⟨p⟩ : Log (Poly5 ℝ))).poly (Real.log a))|
      ≤ (17 + 1 / 1000) * M.u * (a * MagS5 p a + b * MagS5 p b) + 2 * M.u * |(HasIntegral.integral (⟨p.mapF Rounded.mk⟩ : Log (Poly5 (Rounded M))) (knot.mapF Rounded.mk)).k.val| :=
    difference_num M (throughKnot M (indefR5 M p) knot.x knot.y) hu ha hb (poly5_ct M p a) (poly5_ct M p b)
      (by norm_num) (by norm_num)
  have hf := PP.Props.C09.logpoly5_indefinite_ftc p a b ha hb
  simp only [PP.Props.C09.intOfLog_eval, PP.Props.C09.logpoly5_indefinite_k, add_zero] at hf
  rw [← hf]
  exact h
/-- (5, with the stored constant bounded) `… + 2.01·u·(|knot.y| + knot.x·Σ_j S_j|ln x|^j)`, degree 5 -/
theorem logpoly5_integral_difference_rounding' (hu : M.u ≤ (2 : ℝ) ^ (-53 : ℤ)) (p : Poly5 ℝ) (knot : Knot ℝ)
    (hx : 0 < knot.x) (a b : ℝ) (ha : 0 < a) (hb : 0 < b) :
    |evalR M (HasIntegral.integral (⟨p.mapF Rounded.mk⟩ : Log (Poly5 (Rounded M))) (knot.mapF Rounded.mk)) b - evalR M (HasIntegral.integral (⟨p.mapF Rounded.mk⟩ : Log (Poly5 (Rounded M))) (knot.mapF Rounded.mk)) a
        - ∫ t in a..b, Evaluate.evaluate (⟨p⟩ : Log (Poly5 ℝ)) t|
      ≤ (17 + 1 / 1000) * M.u * (a * MagS5 p a + b * MagS5 p b)
        + (2 + 1 / 100) * M.u * (|knot.y| + knot.x * MagS5 p knot.x) := by
  have h := logpoly5_integral_difference_rounding M hu p knot a b ha hb
  have hk : |(HasIntegral.integral (⟨p.mapF Rounded.mk⟩ : Log (Poly5 (Rounded M))) (knot.mapF Rounded.mk)).k.val| ≤ (1 + 1 / 200) * (|knot.y| + knot.x * MagS5 p knot.x) :=
    k_abs_num M (indefR5 M p) (indefR5_k M p) hu knot.y hx (poly5_ct M p knot.x) (by norm_num)
  have := mul_le_mul_of_nonneg_left hk (by have := M.hu; positivity : (0 : ℝ) ≤ 2 * M.u)
  refine h.trans ?_
  have e : (2 + 1 / 100) * M.u * (|knot.y| + knot.x * MagS5 p knot.x)
      = 2 * M.u * ((1 + 1 / 200) * (|knot.y| + knot.x * MagS5 p knot.x)) := by ring
  rw [e]; linarith
/-- **`indefinite()` returns an antiderivative of the same `f`, degree 5**: the rounded `indefinite`, evaluated in rounded
arithmetic, satisfies `|Ĝ(b) − Ĝ(a) − ∫_a^b p(ln t) dt| ≤ 17.001·u·(a·Σ_j S_j|ln a|^j + b·Σ_j S_j|ln b|^j)` -/
theorem logpoly5_indefinite_difference_rounding (hu : M.u ≤ (2 : ℝ) ^ (-53 : ℤ)) (p : Poly5 ℝ)
    (a b : ℝ) (ha : 0 < a) (hb : 0 < b) :
    |evalR M (HasIntegral.indefinite (⟨p.mapF Rounded.mk⟩ : Log (Poly5 (Rounded M)))) b - evalR M (HasIntegral.indefinite (⟨p.mapF Rounded.mk⟩ : Log (Poly5 (Rounded M)))) a
        - ∫ t in a..b, Evaluate.evaluate (⟨p⟩ : Log (Poly5 ℝ)) t|
      ≤ (17 + 1 / 1000) * M.u * (a * MagS5 p a + b * MagS5 p b) := by
  have h : |evalR M (HasIntegral.indefinite (⟨p.mapF Rounded.mk⟩ : Log (Poly5 (Rounded M)))) b - evalR M (HasIntegral.indefinite (⟨p.mapF Rounded.mk⟩ : Log (Poly5 (Rounded M)))) a
      - (b * Evaluate.evaluate (HasIntegral.indefinite (⟨p⟩ : Log (Poly5 ℝ))).poly (Real.log b) - a * Evaluate.evaluate (HasIntegral.indefinite (⟨p⟩ : Log (Poly5 ℝ))).poly (Real.log a))|
      ≤ (17 + 1 / 1000) * M.u * (a * MagS5 p a + b * MagS5 p b) + 2 * M.u * |(indefR5 M p).k.val| :=
    difference_num M (indefR5 M p) hu ha hb (poly5_ct M p a) (poly5_ct M p b)
      (by norm_num) (by norm_num)
  have hf := PP.Props.C09.logpoly5_indefinite_ftc p a b ha hb
  simp only [PP.Props.C09.intOfLog_eval, PP.Props.C09.logpoly5_indefinite_k, add_zero] at hf
  rw [indefR5_k, abs_zero, mul_zero, add_zero] at h
  rw [← hf]
  exact h

/-! ## degree 6 -/

/-- **(6) the antiderivative coefficients, degree 6**: each coefficient `q̂_j` computed by the rounded `indefinite` is
within `(κ_j + 0.001)·u·S_j` of the exact `q_j`, `S_j = Σ_(i≥j) (i!/j!)|c_i|` (`Smag6`), `κ = [16, 15, 12, 9, 6, 3, 0]` -/
theorem logpoly6_coeff_rounding (hu : M.u ≤ (2 : ℝ) ^ (-53 : ℤ)) (p : Poly6 ℝ) :
    |((indefR6 M p).poly._0.a0).val - (HasIntegral.indefinite (⟨p⟩ : Log (Poly6 ℝ))).poly._0.a0| ≤ (16 + 1 / 1000) * M.u * ((Smag6 p)._0.a0) ∧
    |((indefR6 M p).poly._0.a1).val - (HasIntegral.indefinite (⟨p⟩ : Log (Poly6 ℝ))).poly._0.a1| ≤ (15 + 1 / 1000) * M.u * ((Smag6 p)._0.a1) ∧
    |((indefR6 M p).poly._0.a2).val - (HasIntegral.indefinite (⟨p⟩ : Log (Poly6 ℝ))).poly._0.a2| ≤ (12 + 1 / 1000) * M.u * ((Smag6 p)._0.a2) ∧
    |((indefR6 M p).poly._0.a3).val - (HasIntegral.indefinite (⟨p⟩ : Log (Poly6 ℝ))).poly._0.a3| ≤ (9 + 1 / 1000) * M.u * ((Smag6 p)._0.a3) ∧
    |((indefR6 M p).poly._0.a4).val - (HasIntegral.indefinite (⟨p⟩ : Log (Poly6 ℝ))).poly._0.a4| ≤ (6 + 1 / 1000) * M.u * ((Smag6 p)._0.a4) ∧
    |((indefR6 M p).poly._0.a5).val - (HasIntegral.indefinite (⟨p⟩ : Log (Poly6 ℝ))).poly._0.a5| ≤ (3 + 1 / 1000) * M.u * ((Smag6 p)._0.a5) ∧
    |((indefR6 M p).poly._0.a6).val - (HasIntegral.indefinite (⟨p⟩ : Log (Poly6 ℝ))).poly._0.a6| ≤ (0 + 1 / 1000) * M.u * ((Smag6 p)._0.a6) := by
  have h := coeff6_ct M p
  obtain ⟨h0, h1, h2, h3, h4, h5, h6⟩ := h
  exact ⟨ct_numC M h0 hu (by norm_num) (by norm_num), ct_numC M h1 hu (by norm_num) (by norm_num), ct_numC M h2 hu (by norm_num) (by norm_num), ct_numC M h3 hu (by norm_num) (by norm_num), ct_numC M h4 hu (by norm_num) (by norm_num), ct_numC M h5 hu (by norm_num) (by norm_num), ct_numC M h6 hu (by norm_num) (by norm_num)⟩
/-- the exact coefficients are dominated by the magnitudes: `|q_j| ≤ S_j`, hence `MagQ ≤ MagS`, degree 6 -/
theorem MagQ6_le_MagS (p : Poly6 ℝ) (v : ℝ) : MagQ6 p v ≤ MagS6 p v := by
  have h := coeff6_ct (RModel.exact ℝ) p
  obtain ⟨h0, h1, h2, h3, h4, h5, h6⟩ := h
  have hL := abs_nonneg (Real.log v)
  unfold MagQ6 MagS6
  gcongr
  · exact h0.1
  · exact h1.1
  · exact h2.1
  · exact h3.1
  · exact h4.1
  · exact h5.1
  · exact h6.1
/-- **(4) F̂(knot.x) = knot.y within the rounding bound, degree 6**: `F = integral (Log p) knot` computed in rounded
arithmetic and evaluated (rounded) at `knot.x > 0` differs from `knot.y` by at most
`4.001·u·(|knot.y| + knot.x·(Σ_j|q_j||ln x|^j + 19.001·u·Σ_j S_j|ln x|^j))` -/
theorem logpoly6_knot_rounding (hu : M.u ≤ (2 : ℝ) ^ (-53 : ℤ)) (p : Poly6 ℝ) (knot : Knot ℝ) (hx : 0 < knot.x) :
    |evalR M (HasIntegral.integral (⟨p.mapF Rounded.mk⟩ : Log (Poly6 (Rounded M))) (knot.mapF Rounded.mk)) knot.x - knot.y|
      ≤ (4 + 1 / 1000) * M.u * (|knot.y| + knot.x * (MagQ6 p knot.x + (19 + 1 / 1000) * M.u * MagS6 p knot.x)) := by
  exact knot_num M (indefR6 M p) (indefR6_k M p) hu knot.y hx (poly6_ct M p knot.x) (poly6_abs_le p knot.x)
    (by norm_num) (by norm_num)
/-- (4, magnitude form) `≤ 4.01·u·(|knot.y| + knot.x·Σ_j S_j|ln x|^j)`, degree 6 -/
theorem logpoly6_knot_rounding_S (hu : M.u ≤ (2 : ℝ) ^ (-53 : ℤ)) (p : Poly6 ℝ) (knot : Knot ℝ) (hx : 0 < knot.x) :
    |evalR M (HasIntegral.integral (⟨p.mapF Rounded.mk⟩ : Log (Poly6 (Rounded M))) (knot.mapF Rounded.mk)) knot.x - knot.y| ≤ (4 + 1 / 100) * M.u * (|knot.y| + knot.x * MagS6 p knot.x) :=
  knot_num_S M (indefR6 M p) (indefR6_k M p) hu knot.y hx (poly6_ct M p knot.x) (by norm_num)
/-- **(5) `integral_difference_rounding`, degree 6**: for all `a, b > 0`,
`|F̂(b) − F̂(a) − ∫_a^b p(ln t) dt| ≤ 20.001·u·(a·Σ_j S_j|ln a|^j + b·Σ_j S_j|ln b|^j) + 2·u·|k̂|`, `k̂ = F.k` the stored constant -/
theorem logpoly6_integral_difference_rounding (hu : M.u ≤ (2 : ℝ) ^ (-53 : ℤ)) (p : Poly6 ℝ) (knot : Knot ℝ)
    (a b : ℝ) (ha : 0 < a) (hb : 0 < b) :
    |evalR M (HasIntegral.integral (⟨p.mapF Rounded.mk⟩ : Log (Poly6 (Rounded M))) (knot.mapF Rounded.mk)) b - evalR M (HasIntegral.integral (⟨p.mapF Rounded.mk⟩ : Log (Poly6 (Rounded M))) (knot.mapF Rounded.mk)) a
        - ∫ t in a..b, Evaluate.evaluate (⟨p⟩ : Log (Poly6 ℝ)) t|
      ≤ (20 + 1 / 1000) * M.u * (a * MagS6 p a + b * MagS6 p b)
        + 2 * M.u * |(HasIntegral.integral (⟨p.mapF Rounded.mk⟩ : Log (Poly6 (Rounded M))) (knot.mapF Rounded.mk)).k.val| := by
  have h : |evalR M (HasIntegral.integral (⟨p.mapF Rounded.mk⟩ : Log (Poly6 (Rounded M))) (knot.mapF Rounded.mk)) b - evalR M (HasIntegral.integral (⟨p.mapF Rounded.mk⟩ : Log (Poly6 (Rounded M))) (knot.mapF Rounded.mk)) a
      - (b * Evaluate.evaluate (HasIntegral.indefinite (⟨p⟩ : Log (Poly6 ℝ))).poly (Real.log b) - a * Evaluate.evaluate (HasIntegral.indefinite (⟨p⟩ : Log (Poly6 ℝ))).poly (Real.log a))|
      ≤ (20 + 1 / 1000) * M.u * (a * MagS6 p a + b * MagS6 p b) + 2 * M.u * |(HasIntegral.integral (⟨p.mapF Rounded.mk⟩ : Log (Poly6 (Rounded M))) (knot.mapF Rounded.mk)).k.val| :=
    difference_num M (throughKnot M (indefR6 M p) knot.x knot.y) hu ha hb (poly6_ct M p a) (poly6_ct M p b)
      (by norm_num) (by norm_num)
  have hf := PP.Props.C09.logpoly6_indefinite_ftc p a b ha hb
  simp only [PP.Props.C09.intOfLog_eval, PP.Props.C09.logpoly6_indefinite_k, add_zero] at hf
  rw [← hf]
  exact h
/-- (5, with the stored constant bounded) `… + 2.01·u·(|knot.y| + knot.x·Σ_j S_j|ln x|^j)`, degree 6 -/
theorem logpoly6_integral_difference_rounding' (hu : M.u ≤ (2 : ℝ) ^ (-53 : ℤ)) (p : Poly6 ℝ) (knot : Knot ℝ)
    (hx : 0 < knot.x) (a b : ℝ) (ha : 0 < a) (hb : 0 < b) :
    |evalR M (HasIntegral.integral (⟨p.mapF Rounded.mk⟩ : Log (Poly6 (Rounded M))) (knot.mapF Rounded.mk)) b - evalR M (HasIntegral.integral (⟨p.mapF Rounded.mk⟩ : Log (Poly6 (Rounded M))) (knot.mapF Rounded.mk)) a
        - ∫ t in a..b, Evaluate.evaluate (⟨p⟩ : Log (Poly6 ℝ)) t|
      ≤ (20 + 1 / 1000) * M.u * (a * MagS6 p a + b * MagS6 p b)
        + (2 + 1 / 100) * M.u * (|knot.y| + knot.x * MagS6 p knot.x) := by
  have h := logpoly6_integral_difference_rounding M hu p knot a b ha hb
  have hk : |(HasIntegral.integral (⟨p.mapF Rounded.mk⟩ : Log (Poly6 (Rounded M))) (knot.mapF Rounded.mk)).k.val| ≤ (1 + 1 / 200) * (|knot.y| + knot.x * MagS6 p knot.x) :=
    k_abs_num M (indefR6 M p) (indefR6_k M p) hu knot.y hx (poly6_ct M p knot.x) (by norm_num)
  have := mul_le_mul_of_nonneg_left hk (by have := M.hu; positivity : (0 : ℝ) ≤ 2 * M.u)
  refine h.trans ?_
  have e : (2 + 1 / 100) * M.u * (|knot.y| + knot.x * MagS6 p knot.x)
      = 2 * M.u * ((1 + 1 / 200) * (|knot.y| + knot.x * MagS6 p knot.x)) := by ring
  rw [e]; linarith
/-- **`indefinite()` returns an antiderivative of the same `f`, degree 6**: the rounded `indefinite`, evaluated in rounded
arithmetic, satisfies `|Ĝ(b) − Ĝ(a) − ∫_a^b p(ln t) dt| ≤ 20.001·u·(a·Σ_j S_j|ln a|^j + b·Σ_j S_j|ln b|^j)` -/
theorem logpoly6_indefinite_difference_rounding (hu : M.u ≤ (2 : ℝ) ^ (-53 : ℤ)) (p : Poly6 ℝ)
    (a b : ℝ) (ha : 0 < a) (hb : 0 < b) :
    |evalR M (HasIntegral.indefinite (⟨p.mapF Rounded.mk⟩ : Log (Poly6 (Rounded M)))) b - evalR M (HasIntegral.indefinite (⟨p.mapF Rounded.mk⟩ : Log (Poly6 (Rounded M)))) a
        - ∫ t in a..b, Evaluate.evaluate (⟨p⟩ : Log (Poly6 ℝ)) t|
      ≤ (20 + 1 / 1000) * M.u * (a * MagS6 p a + b * MagS6 p b) := by
  have h : |evalR M (HasIntegral.indefinite (⟨p.mapF Rounded.mk⟩ : Log (Poly6 (Rounded M)))) b - evalR M (HasIntegral.indefinite (⟨p.mapF Rounded.mk⟩ : Log (Poly6 (Rounded M)))) a
      - (b * Evaluate.evaluate (HasIntegral.indefinite (⟨p⟩ : Log (Poly6 ℝ))).poly (Real.log b) - a * Evaluate.evaluate (HasIntegral.indefinite (⟨p⟩ : Log (Poly6 ℝ))).poly (Real.log a))|
      ≤ (20 + 1 / 1000) * M.u * (a * MagS6 p a + b * MagS6 p b) + 2 * M.u * |(indefR6 M p).k.val| :=
    difference_num M (indefR6 M p) hu ha hb (poly6_ct M p a) (poly6_ct M p b)
      (by norm_num) (by norm_num)
  have hf := PP.Props.C09.logpoly6_indefinite_ftc p a b ha hb
  simp only [PP.Props.C09.intOfLog_eval, PP.Props.C09.logpoly6_indefinite_k, add_zero] at hf
  rw [indefR6_k, abs_zero, mul_zero, add_zero] at h
  rw [← hf]
  exact h

/-! ## degree 7 -/

/-- **(6) the antiderivative coefficients, degree 7**: each coefficient `q̂_j` computed by the rounded `indefinite` is
within `(κ_j + 0.001)·u·S_j` of the exact `q_j`, `S_j = Σ_(i≥j) (i!/j!)|c_i|` (`Smag7`), `κ = [19, 18, 15, 12, 9, 6, 3, 0]` -/
theorem logpoly7_coeff_rounding (hu : M.u ≤ (2 : ℝ) ^ (-53 : ℤ)) (p : Poly7 ℝ) :
    |((indefR7 M p).poly._0.a0).val - (HasIntegral.indefinite (⟨p⟩ : Log (Poly7 ℝ))).poly._0.a0| ≤ (19 + 1 / 1000) * M.u * ((Smag7 p)._0.a0) ∧
    |((indefR7 M p).poly._0.a1).val - (HasIntegral.indefinite (⟨p⟩ : Log (Poly7 ℝ))).poly._0.a1| ≤ (18 + 1 / 1000) * M.u * ((Smag7 p)._0.a1) ∧
    |((indefR7 M p).poly._0.a2).val - (HasIntegral.indefinite (⟨p⟩ : Log (Poly7 ℝ))).poly._0.a2| ≤ (15 + 1 / 1000) * M.u * ((Smag7 p)._0.a2) ∧
    |((indefR7 M p).poly._0.a3).val - (HasIntegral.indefinite (⟨p⟩ : Log (Poly7 ℝ))).poly._0.a3| ≤ (12 + 1 / 1000) * M.u * ((Smag7 p)._0.a3) ∧
    |((indefR7 M p).poly._0.a4).val - (HasIntegral.indefinite (⟨p⟩ : Log (Poly7 ℝ))).poly._0.a4| ≤ (9 + 1 / 1000) * M.u * ((Smag7 p)._0.a4) ∧
    |((indefR7 M p).poly._0.a5).val - (HasIntegral.indefinite (⟨p⟩ : Log (Poly7 ℝ))).poly._0.a5| ≤ (6 + 1 / 1000) * M.u * ((Smag7 p)._0.a5) ∧
    |((indefR7 M p).poly._0.a6).val - (HasIntegral.indefinite (⟨p⟩ : Log (Poly7 ℝ))).poly._0.a6| ≤ (3 + 1 / 1000) * M.u * ((Smag7 p)._0.a6) ∧
    |((indefR7 M p).poly._0.a7).val - (HasIntegral.indefinite (⟨p⟩ : Log (Poly7 ℝ))).poly._0.a7| ≤ (0 + 1 / 1000) * M.u * ((Smag7 p)._0.a7) := by
  have h := coeff7_ct M p
  obtain ⟨h0, h1, h2, h3, h4, h5, h6, h7⟩ := h
  exact ⟨ct_numC M h0 hu (by norm_num) (by norm_num), ct_numC M h1 hu (by norm_num) (by norm_num), ct_numC M h2 hu (by norm_num) (by norm_num), ct_numC M h3 hu (by norm_num) (by norm_num), ct_numC M h4 hu (by norm_num) (by norm_num), ct_numC M h5 hu (by norm_num) (by norm_num), ct_numC M h6 hu (by norm_num) (by norm_num), ct_numC M h7 hu (by norm_num) (by norm_num)⟩
/-- the exact coefficients are dominated by the magnitudes: `|q_j| ≤ S_j`, hence `MagQ ≤ MagS`, degree 7 -/
theorem MagQ7_le_MagS (p : Poly7 ℝ) (v : ℝ) : MagQ7 p v ≤ MagS7 p v := by
  have h := coeff7_ct (RModel.exact ℝ) p
  obtain ⟨h0, h1, h2, h3, h4, h5, h6, h7⟩ := h
  have hL := abs_nonneg (Real.log v)
  unfold MagQ7 MagS7
  gcongr
  · exact h0.1
  · exact h1.1
  · exact h2.1
  · exact h3.1
  · exact h4.1
  · exact h5.1
  · exact h6.1
  · exact h7.1
/-- **(4) F̂(knot.x) = knot.y within the rounding bound, degree 7**: `F = integral (Log p) knot` computed in rounded
arithmetic and evaluated (rounded) at `knot.x > 0` differs from `knot.y` by at most
`4.001·u·(|knot.y| + knot.x·(Σ_j|q_j||ln x|^j + 22.001·u·Σ_j S_j|ln x|^j))` -/
theorem logpoly7_knot_rounding (hu : M.u ≤ (2 : ℝ) ^ (-53 : ℤ)) (p : Poly7 ℝ) (knot : Knot ℝ) (hx : 0 < knot.x) :
    |evalR M (HasIntegral.integral (⟨p.mapF Rounded.mk⟩ : Log (Poly7 (Rounded M))) (knot.mapF Rounded.mk)) knot.x - knot.y|
      ≤ (4 + 1 / 1000) * M.u * (|knot.y| + knot.x * (MagQ7 p knot.x + (22 + 1 / 1000) * M.u * MagS7 p knot.x)) := by
  exact knot_num M (indefR7 M p) (indefR7_k M p) hu knot.y hx (poly7_ct M p knot.x) (poly7_abs_le p knot.x)
    (by norm_num) (by norm_num)
/-- (4, magnitude form) `≤ 4.01·u·(|knot.y| + knot.x·Σ_j S_j|ln x|^j)`, degree 7 -/
theorem logpoly7_knot_rounding_S (hu : M.u ≤ (2 : ℝ) ^ (-53 : ℤ)) (p : Poly7 ℝ) (knot : Knot ℝ) (hx : 0 < knot.x) :
    |evalR M (HasIntegral.integral (⟨p.mapF Rounded.mk⟩ : Log (Poly7 (Rounded M))) (knot.mapF Rounded.mk)) knot.x - knot.y| ≤ (4 + 1 / 100) * M.u * (|knot.y| + knot.x * MagS7 p knot.x) :=
  knot_num_S M (indefR7 M p) (indefR7_k M p) hu knot.y hx (poly7_ct M p knot.x) (by norm_num)
/-- **(5) `integral_difference_rounding`, degree 7**: for all `a, b > 0`,
`|F̂(b) − F̂(a) − ∫_a^b p(ln t) dt| ≤ 23.001·u·(a·Σ_j S_j|ln a|^j + b·Σ_j S_j|ln b|^j) + 2·u·|k̂|`, `k̂ = F.k` the stored constant -/
theorem logpoly7_integral_difference_rounding (hu : M.u ≤ (2 : ℝ) ^ (-53 : ℤ)) (p : Poly7 ℝ) (knot : Knot ℝ)
    (a b : ℝ) (ha : 0 < a) (hb : 0 < b) :
    |evalR M (HasIntegral.integral (⟨p.mapF Rounded.mk⟩ : Log (Poly7 (Rounded M))) (knot.mapF Rounded.mk)) b - evalR M (HasIntegral.integral (⟨p.mapF Rounded.mk⟩ : Log (Poly7 (Rounded M))) (knot.mapF Rounded.mk)) a
        - ∫ t in a..b, Evaluate.evaluate (⟨p⟩ : Log (Poly7 ℝ)) t|
      ≤ (23 + 1 / 1000) * M.u * (a * MagS7 p a + b * MagS7 p b)
        + 2 * M.u * |(HasIntegral.integral (⟨p.mapF Rounded.mk⟩ : Log (Poly7 (Rounded M))) (knot.mapF Rounded.mk)).k.val| := by
  have h : |evalR M (HasIntegral.integral (⟨p.mapF Rounded.mk⟩ : Log (Poly7 (Rounded M))) (knot.mapF Rounded.mk)) b - evalR M (HasIntegral.integral (⟨p.mapF Rounded.mk⟩ : Log (Poly7 (Rounded M))) (knot.mapF Rounded.mk)) a
      - (b * Evaluate.evaluate (HasIntegral.indefinite (⟨p⟩ : Log (Poly7 ℝ))).poly (Real.log b) - a * Evaluate.evaluate (HasIntegral.indefinite (⟨p⟩ : Log (Poly7 ℝ))).poly (Real.log a))|
      ≤ (23 + 1 / 1000) * M.u * (a * MagS7 p a + b * MagS7 p b) + 2 * M.u * |(HasIntegral.integral (⟨p.mapF Rounded.mk⟩ : Log (Poly7 (Rounded M))) (knot.mapF Rounded.mk)).k.val| :=
    difference_num M (throughKnot M (indefR7 M p) knot.x knot.y) hu ha hb (poly7_ct M p a) (poly7_ct M p b)
      (by norm_num) (by norm_num)
  have hf := PP.Props.C09.logpoly7_indefinite_ftc p a b ha hb
  simp only [PP.Props.C09.intOfLog_eval, PP.Props.C09.logpoly7_indefinite_k, add_zero] at hf
  rw [← hf]
  exact h
/-- (5, with the stored constant bounded) `… + 2.01·u·(|knot.y| + knot.x·Σ_j S_j|ln x|^j)`, degree 7 -/
theorem logpoly7_integral_difference_rounding' (hu : M.u ≤ (2 : ℝ) ^ (-53 : ℤ)) (p : Poly7 ℝ) (knot : Knot ℝ)
    (hx : 0 < knot.x) (a b : ℝ) (ha : 0 < a) (hb : 0 < b) :
    |evalR M (HasIntegral.integral (⟨p.mapF Rounded.mk⟩ : Log (Poly7 (Rounded M))) (knot.mapF Rounded.mk)) b - evalR M (HasIntegral.integral (⟨p.mapF Rounded.mk⟩ : Log (Poly7 (Rounded M))) (knot.mapF Rounded.mk)) a
        - ∫ t in a..b, Evaluate.evaluate (⟨p⟩ : Log (Poly7 ℝ)) t|
      ≤ (23 + 1 / 1000) * M.u * (a * MagS7 p a + b * MagS7 p b)
        + (2 + 1 / 100) * M.u * (|knot.y| + knot.x * MagS7 p knot.x) := by
  have h := logpoly7_integral_difference_rounding M hu p knot a b ha hb
  have hk : |(HasIntegral.integral (⟨p.mapF Rounded.mk⟩ : Log (Poly7 (Rounded M))) (knot.mapF Rounded.mk)).k.val| ≤ (1 + 1 / 200) * (|knot.y| + knot.x * MagS7 p knot.x) :=
    k_abs_num M (indefR7 M p) (indefR7_k M p) hu knot.y hx (poly7_ct M p knot.x) (by norm_num)
  have := mul_le_mul_of_nonneg_left hk (by have := M.hu; positivity : (0 : ℝ) ≤ 2 * M.u)
  refine h.trans ?_
  have e : (2 + 1 / 100) * M.u * (|knot.y| + knot.x * MagS7 p knot.x)
      = 2 * M.u * ((1 + 1 / 200) * (|knot.y| + knot.x * MagS7 p knot.x)) := by ring
  rw [e]; linarith
/-- **`indefinite()` returns an antiderivative of the same `f`, degree 7**: the rounded `indefinite`, evaluated in rounded
arithmetic, satisfies `|Ĝ(b) − Ĝ(a) − ∫_a^b p(ln t) dt| ≤ 23.001·u·(a·Σ_j S_j|ln a|^j + b·Σ_j S_j|ln b|^j)` -/
theorem logpoly7_indefinite_difference_rounding (hu : M.u ≤ (2 : ℝ) ^ (-53 : ℤ)) (p : Poly7 ℝ)
    (a b : ℝ) (ha : 0 < a) (hb : 0 < b) :
    |evalR M (HasIntegral.indefinite (⟨p.mapF Rounded.mk⟩ : Log (Poly7 (Rounded M)))) b - evalR M (HasIntegral.indefinite (⟨p.mapF Rounded.mk⟩ : Log (Poly7 (Rounded M)))) a
        - ∫ t in a..b, Evaluate.evaluate (⟨p⟩ : Log (Poly7 ℝ)) t|
      ≤ (23 + 1 / 1000) * M.u * (a * MagS7 p a + b * MagS7 p b) := by
  have h : |evalR M (HasIntegral.indefinite (⟨p.mapF Rounded.mk⟩ : Log (Poly7 (Rounded M)))) b - evalR M (HasIntegral.indefinite (⟨p.mapF Rounded.mk⟩ : Log (Poly7 (Rounded M)))) a
      - (b * Evaluate.evaluate (HasIntegral.indefinite (⟨p⟩ : Log (Poly7 ℝ))).poly (Real.log b) - a * Evaluate.evaluate (HasIntegral.indefinite (⟨p⟩ : Log (Poly7 ℝ))).poly (Real.log a))|
      ≤ (23 + 1 / 1000) * M.u * (a * MagS7 p a + b * MagS7 p b) + 2 * M.u * |(indefR7 M p).k.val| :=
    difference_num M (indefR7 M p) hu ha hb (poly7_ct M p a) (poly7_ct M p b)
      (by norm_num) (by norm_num)
  have hf := PP.Props.C09.logpoly7_indefinite_ftc p a b ha hb
  simp only [PP.Props.C09.intOfLog_eval, PP.Props.C09.logpoly7_indefinite_k, add_zero] at hf
  rw [indefR7_k, abs_zero, mul_zero, add_zero] at h
  rw [← hf]
  exact h

/-! ## degree 8 -/

/-- **(6) the antiderivative coefficients, degree 8**: each coefficient `q̂_j` computed by the rounded `indefinite` is
within `(κ_j + 0.001)·u·S_j` of the exact `q_j`, `S_j = Σ_(i≥j) (i!/j!)|c_i|` (`Smag8`), `κ = [22, 21, 18, 15, 12, 9, 6, 3, 0]` -/
theorem logpoly8_coeff_rounding (hu : M.u ≤ (2 : ℝ) ^ (-53 : ℤ)) (p : Poly8 ℝ) :
    |((indefR8 M p).poly._0.a0).val - (HasIntegral.indefinite (⟨p⟩ : Log (Poly8 ℝ))).poly._0.a0| ≤ (22 + 1 / 1000) * M.u * ((Smag8 p)._0.a0) ∧
    |((indefR8 M p).poly._0.a1).val - (HasIntegral.indefinite (⟨p⟩ : Log (Poly8 ℝ))).poly._0.a1| ≤ (21 + 1 / 1000) * M.u * ((Smag8 p)._0.a1) ∧
    |((indefR8 M p).poly._0.a2).val - (HasIntegral.indefinite (⟨p⟩ : Log (Poly8 ℝ))).poly._0.a2| ≤ (18 + 1 / 1000) * M.u * ((Smag8 p)._0.a2) ∧
    |((indefR8 M p).poly._0.a3).val - (HasIntegral.indefinite (⟨p⟩ : Log (Poly8 ℝ))).poly._0.a3| ≤ (15 + 1 / 1000) * M.u * ((Smag8 p)._0.a3) ∧
    |((indefR8 M p).poly._0.a4).val - (HasIntegral.indefinite (⟨p⟩ : Log (Poly8 ℝ))).poly._0.a4| ≤ (12 + 1 / 1000) * M.u * ((Smag8 p)._0.a4) ∧
    |((indefR8 M p).poly._0.a5).val - (HasIntegral.indefinite (⟨p⟩ : Log (Poly8 ℝ))).poly._0.a5| ≤ (9 + 1 / 1000) * M.u * ((Smag8 p)._0.a5) ∧
    |((indefR8 M p).poly._0.a6).val - (HasIntegral.indefinite (⟨p⟩ : Log (Poly8 ℝ))).poly._0.a6| ≤ (6 + 1 / 1000) * M.u * ((Smag8 p)._0.a6) ∧
    |((indefR8 M p).poly._0.a7).val - (HasIntegral.indefinite (⟨p⟩ : Log (Poly8 ℝ))).poly._0.a7| ≤ (3 + 1 / 1000) * M.u * ((Smag8 p)._0.a7) ∧
    |((indefR8 M p).poly._0.a8).val - (HasIntegral.indefinite (⟨p⟩ : Log (Poly8 ℝ))).poly._0.a8| ≤ (0 + 1 / 1000) * M.u * ((Smag8 p)._0.a8) := by
  have h := coeff8_ct M p
  obtain ⟨h0, h1, h2, h3, h4, h5, h6, h7, h8⟩ := h
  exact ⟨ct_numC M h0 hu (by norm_num) (by norm_num), ct_numC M h1 hu (by norm_num) (by norm_num), ct_numC M h2 hu (by norm_num) (by norm_num), ct_numC M h3 hu (by norm_num) (by norm_num), ct_numC M h4 hu (by norm_num) (by norm_num), ct_numC M h5 hu (by norm_num) (by norm_num), ct_numC M h6 hu (by norm_num) (by norm_num), ct_numC M h7 hu (by norm_num) (by norm_num), ct_numC M h8 hu (by norm_num) (by norm_num)⟩
/-- the exact coefficients are dominated by the magnitudes: `|q_j| ≤ S_j`, hence `MagQ ≤ MagS`, degree 8 -/
theorem MagQ8_le_MagS (p : Poly8 ℝ) (v : ℝ) : MagQ8 p v ≤ MagS8 p v := by
  have h := coeff8_ct (RModel.exact ℝ) p
  obtain ⟨h0, h1, h2, h3, h4, h5, h6, h7, h8⟩ := h
  have hL := abs_nonneg (Real.log v)
  unfold MagQ8 MagS8
  gcongr
  · exact h0.1
  · exact h1.1
  · exact h2.1
  · exact h3.1
  · exact h4.1
  · exact h5.1
  · exact h6.1
  · exact h7.1
  · exact h8.1
/-- **(4) F̂(knot.x) = knot.y within the rounding bound, degree 8**: `F = integral (Log p) knot` computed in rounded
arithmetic and evaluated (rounded) at `knot.x > 0` differs from `knot.y` by at most
`4.001·u·(|knot.y| + knot.x·(Σ_j|q_j||ln x|^j + 26.001·u·Σ_j S_j|ln x|^j))` -/
theorem logpoly8_knot_rounding (hu : M.u ≤ (2 : ℝ) ^ (-53 : ℤ)) (p : Poly8 ℝ) (knot : Knot ℝ) (hx : 0 < knot.x) :
    |evalR M (HasIntegral.integral (⟨p.mapF Rounded.mk⟩ : Log (Poly8 (Rounded M))) (knot.mapF Rounded.mk)) knot.x - knot.y|
      ≤ (4 + 1 / 1000) * M.u * (|knot.y| + knot.x * (MagQ8 p knot.x + (26 + 1 / 1000) * M.u * MagS8 p knot.x)) := by
  exact knot_num M (indefR8 M p) (indefR8_k M p) hu knot.y hx (poly8_ct M p knot.x) (poly8_abs_le p knot.x)
    (by norm_num) (by norm_num)
/-- (4, magnitude form) `≤ 4.01·u·(|knot.y| + knot.x·Σ_j S_j|ln x|^j)`, degree 8 -/
theorem logpoly8_knot_rounding_S (hu : M.u ≤ (2 : ℝ) ^ (-53 : ℤ)) (p : Poly8 ℝ) (knot : Knot ℝ) (hx : 0 < knot.x) :
    |evalR M (HasIntegral.integral (⟨p.mapF Rounded.mk⟩ : Log (Poly8 (Rounded M))) (knot.mapF Rounded.mk)) knot.x - knot.y| ≤ (4 + 1 / 100) * M.u * (|knot.y| + knot.x * MagS8 p knot.x) :=
  knot_num_S M (indefR8 M p) (indefR8_k M p) hu knot.y hx (poly8_ct M p knot.x) (by norm_num)
/-- **(5) `integral_difference_rounding`, degree 8**: for all `a, b > 0`,
`|F̂(b) − F̂(a) − ∫_a^b p(ln t) dt| ≤ 27.001·u·(a·Σ_j S_j|ln a|^j + b·Σ_j S_j|ln b|^j) + 2·u·|k̂|`, `k̂ = F.k` the stored constant -/
theorem logpoly8_integral_difference_rounding (hu : M.u ≤ (2 : ℝ) ^ (-53 : ℤ)) (p : Poly8 ℝ) (knot : Knot ℝ)
    (a b : ℝ) (ha : 0 < a) (hb : 0 < b) :
    |evalR M (HasIntegral.integral (⟨p.mapF Rounded.mk⟩ : Log (Poly8 (Rounded M))) (knot.mapF Rounded.mk)) b - evalR M (HasIntegral.integral (⟨p.mapF Rounded.mk⟩ : Log (Poly8 (Rounded M))) (knot.mapF Rounded.mk)) a
        - ∫ t in a..b, Evaluate.evaluate (⟨p⟩ : Log (Poly8 ℝ)) t|
      ≤ (27 + 1 / 1000) * M.u * (a * MagS8 p a + b * MagS8 p b)
        + 2 * M.u * |(HasIntegral.integral (⟨p.mapF Rounded.mk⟩ : Log (Poly8 (Rounded M))) (knot.mapF Rounded.mk)).k.val| := by
  have h : |evalR M (HasIntegral.integral (⟨p.mapF Rounded.mk⟩ : Log (Poly8 (Rounded M))) (knot.mapF Rounded.mk)) b - evalR M (HasIntegral.integral (⟨p.mapF Rounded.mk⟩ : Log (Poly8 (Rounded M))) (knot.mapF Rounded.mk)) a
      - (b * Evaluate.evaluate (HasIntegral.indefinite (⟨p⟩ : Log (Poly8 ℝ))).poly (Real.log b) - a * Evaluate.evaluate (HasIntegral.indefinite (⟨p⟩ : Log (Poly8 ℝ))).poly (Real.log a))|
      ≤ (27 + 1 / 1000) * M.u * (a * MagS8 p a + b * MagS8 p b) + 2 * M.u * |(HasIntegral.integral (⟨p.mapF Rounded.mk⟩ : Log (Poly8 (Rounded M))) (knot.mapF Rounded.mk)).k.val| :=
    difference_num M (throughKnot M (indefR8 M p) knot.x knot.y) hu ha hb (poly8_ct M p a) (poly8_ct M p b)
      (by norm_num) (by norm_num)
  have hf := PP.Props.C09.logpoly8_indefinite_ftc p a b ha hb
  simp only [PP.Props.C09.intOfLog_eval, PP.Props.C09.logpoly8_indefinite_k, add_zero] at hf
  rw [← hf]
  exact h
/-- (5, with the stored constant bounded) `… + 2.01·u·(|knot.y| + knot.x·Σ_j S_j|ln x|^j)`, degree 8 -/
theorem logpoly8_integral_difference_rounding' (hu : M.u ≤ (2 : ℝ) ^ (-53 : ℤ)) (p : Poly8 ℝ) (knot : Knot ℝ)
    (hx : 0 < knot.x) (a b : ℝ) (ha : 0 < a) (hb : 0 < b) :
    |evalR M (HasIntegral.integral (⟨p.mapF Rounded.mk⟩ : Log (Poly8 (Rounded M))) (knot.mapF Rounded.mk)) b - evalR M (HasIntegral.integral (⟨p.mapF Rounded.mk⟩ : Log (Poly8 (Rounded M))) (knot.mapF Rounded.mk)) a
        - ∫ t in a..b, Evaluate.evaluate (⟨p⟩ : Log (Poly8 ℝ)) t|
      ≤ (27 + 1 / 1000) * M.u * (a * MagS8 p a + b * MagS8 p b)
        + (2 + 1 / 100) * M.u * (|knot.y| + knot.x * MagS8 p knot.x) := by
  have h := logpoly8_integral_difference_rounding M hu p knot a b ha hb
  have hk : |(HasIntegral.integral (⟨p.mapF Rounded.mk⟩ : Log (Poly8 (Rounded M))) (knot.mapF Rounded.mk)).k.val| ≤ (1 + 1 / 200) * (|knot.y| + knot.x * MagS8 p knot.x) :=
    k_abs_num M (indefR8 M p) (indefR8_k M p) hu knot.y hx (poly8_ct M p knot.x) (by norm_num)
  have := mul_le_mul_of_nonneg_left hk (by have := M.hu; positivity : (0 : ℝ) ≤ 2 * M.u)
  refine h.trans ?_
  have e : (2 + 1 / 100) * M.u * (|knot.y| + knot.x * MagS8 p knot.x)
      = 2 * M.u * ((1 + 1 / 200) * (|knot.y| + knot.x * MagS8 p knot.x)) := by ring
  rw [e]; linarith
/-- **`indefinite()` returns an antiderivative of the same `f`, degree 8**: the rounded `indefinite`, evaluated in rounded
arithmetic, satisfies `|Ĝ(b) − Ĝ(a) − ∫_a^b p(ln t) dt| ≤ 27.001·u·(a·Σ_j S_j|ln a|^j + b·Σ_j S_j|ln b|^j)` -/
theorem logpoly8_indefinite_difference_rounding (hu : M.u ≤ (2 : ℝ) ^ (-53 : ℤ)) (p : Poly8 ℝ)
    (a b : ℝ) (ha : 0 < a) (hb : 0 < b) :
    |evalR M (HasIntegral.indefinite (⟨p.mapF Rounded.mk⟩ : Log (Poly8 (Rounded M)))) b - evalR M (HasIntegral.indefinite (⟨p.mapF Rounded.mk⟩ : Log (Poly8 (Rounded M)))) a
        - ∫ t in a..b, Evaluate.evaluate (⟨p⟩ : Log (Poly8 ℝ)) t|
      ≤ (27 + 1 / 1000) * M.u * (a * MagS8 p a + b * MagS8 p b) := by
  have h : |evalR M (HasIntegral.indefinite (⟨p.mapF Rounded.mk⟩ : Log (Poly8 (Rounded M)))) b - evalR M (HasIntegral.indefinite (⟨p.mapF Rounded.mk⟩ : Log (Poly8 (Rounded M)))) a
      - (b * Evaluate.evaluate (HasIntegral.indefinite (⟨p⟩ : Log (Poly8 ℝ))).poly (Real.log b) - a * Evaluate.evaluate (HasIntegral.indefinite (⟨p⟩ : Log (Poly8 ℝ))).poly (Real.log a))|
      ≤ (27 + 1 / 1000) * M.u * (a * MagS8 p a + b * MagS8 p b) + 2 * M.u * |(indefR8 M p).k.val| :=
    difference_num M (indefR8 M p) hu ha hb (poly8_ct M p a) (poly8_ct M p b)
      (by norm_num) (by norm_num)
  have hf := PP.Props.C09.logpoly8_indefinite_ftc p a b ha hb
  simp only [PP.Props.C09.intOfLog_eval, PP.Props.C09.logpoly8_indefinite_k, add_zero] at hf
  rw [indefR8_k, abs_zero, mul_zero, add_zero] at h
  rw [← hf]
  exact h

/-! ## degree 4 (`IntOfLogPoly4`) -/
section deg4
open PP.Lemmas.ExpTail

/-- the magnitude of degree 4: `C10Bound.Mag` of the magnitudes `Smag4 p` of the five numbers, i.e.
`v·(S_a|X| + S_b|X|² + S_c|X|³ + S_d|X|⁴) + S_u·v·|X|⁵·R(X)`, `X = −ln v` -/
noncomputable def MagS4 (p : Poly4 ℝ) (v : ℝ) : ℝ := PP.Props.C10Bound.Mag (Smag4 p) v

theorem MagS4_nonneg (p : Poly4 ℝ) {v : ℝ} (hv : 0 < v) : 0 ≤ MagS4 p v :=
  PP.Props.C10Bound.Mag_nonneg _ hv

theorem u100 (hu : M.u ≤ (2 : ℝ) ^ (-53 : ℤ)) : M.u ≤ 1 / 100 := by
  have := PP.Lemmas.LogIntFP.u_small M hu
  linarith

/-- **(6) the numbers of the degree-4 form** `(a, b, c, d, u)` computed by the rounded `indefinite`:
`a = −c₀` exactly; the others within `(κ + 0.001)·u·S`, `κ = 6, 12, 18, 21`, of the exact ones, `S` the
magnitudes `Smag4` (`(|c₀|+|c₁|)/2`, …) -/
theorem logpoly4_coeff_rounding (hu : M.u ≤ (2 : ℝ) ^ (-53 : ℤ)) (p : Poly4 ℝ) :
    (indefR4 M p).coeffs.a0.val = (HasIntegral.indefinite (⟨p⟩ : Log (Poly4 ℝ))).coeffs.a0 ∧
    |(indefR4 M p).coeffs.a1.val - (HasIntegral.indefinite (⟨p⟩ : Log (Poly4 ℝ))).coeffs.a1|
      ≤ (6 + 1 / 1000) * M.u * (Smag4 p).coeffs.a1 ∧
    |(indefR4 M p).coeffs.a2.val - (HasIntegral.indefinite (⟨p⟩ : Log (Poly4 ℝ))).coeffs.a2|
      ≤ (12 + 1 / 1000) * M.u * (Smag4 p).coeffs.a2 ∧
    |(indefR4 M p).coeffs.a3.val - (HasIntegral.indefinite (⟨p⟩ : Log (Poly4 ℝ))).coeffs.a3|
      ≤ (18 + 1 / 1000) * M.u * (Smag4 p).coeffs.a3 ∧
    |(indefR4 M p).u.val - (HasIntegral.indefinite (⟨p⟩ : Log (Poly4 ℝ))).u|
      ≤ (21 + 1 / 1000) * M.u * (Smag4 p).u := by
  obtain ⟨h0, h1, h2, h3, h4⟩ := coeff4_ct M (u100 M hu) p
  exact ⟨rfl, ct_numC M h1 hu (by norm_num) (by norm_num), ct_numC M h2 hu (by norm_num) (by norm_num),
    ct_numC M h3 hu (by norm_num) (by norm_num), ct_numC M h4 hu (by norm_num) (by norm_num)⟩

/-- uniform forms of (6): every number is within `21.001·u·S` of the exact one and at most `(1 + 10⁻¹³)·S` -/
theorem coeff4_uniform (hu : M.u ≤ (2 : ℝ) ^ (-53 : ℤ)) (p : Poly4 ℝ) :
    (|(indefR4 M p).coeffs.a0.val - (HasIntegral.indefinite (⟨p⟩ : Log (Poly4 ℝ))).coeffs.a0|
        ≤ (21 + 1 / 1000) * M.u * (Smag4 p).coeffs.a0 ∧
     |(indefR4 M p).coeffs.a1.val - (HasIntegral.indefinite (⟨p⟩ : Log (Poly4 ℝ))).coeffs.a1|
        ≤ (21 + 1 / 1000) * M.u * (Smag4 p).coeffs.a1 ∧
     |(indefR4 M p).coeffs.a2.val - (HasIntegral.indefinite (⟨p⟩ : Log (Poly4 ℝ))).coeffs.a2|
        ≤ (21 + 1 / 1000) * M.u * (Smag4 p).coeffs.a2 ∧
     |(indefR4 M p).coeffs.a3.val - (HasIntegral.indefinite (⟨p⟩ : Log (Poly4 ℝ))).coeffs.a3|
        ≤ (21 + 1 / 1000) * M.u * (Smag4 p).coeffs.a3 ∧
     |(indefR4 M p).u.val - (HasIntegral.indefinite (⟨p⟩ : Log (Poly4 ℝ))).u|
        ≤ (21 + 1 / 1000) * M.u * (Smag4 p).u) ∧
    (|(indefR4 M p).coeffs.a0.val| ≤ (1 + 1 / 10 ^ 13) * |(Smag4 p).coeffs.a0| ∧
     |(indefR4 M p).coeffs.a1.val| ≤ (1 + 1 / 10 ^ 13) * |(Smag4 p).coeffs.a1| ∧
     |(indefR4 M p).coeffs.a2.val| ≤ (1 + 1 / 10 ^ 13) * |(Smag4 p).coeffs.a2| ∧
     |(indefR4 M p).coeffs.a3.val| ≤ (1 + 1 / 10 ^ 13) * |(Smag4 p).coeffs.a3| ∧
     |(indefR4 M p).u.val| ≤ (1 + 1 / 10 ^ 13) * |(Smag4 p).u|) := by
  obtain ⟨h0, h1, h2, h3, h4⟩ := coeff4_ct M (u100 M hu) p
  have hu15 := PP.Lemmas.LogIntFP.u_small M hu
  have hu0 := M.hu
  have key : ∀ {e a A : ℝ} {k : ℕ}, CtInv M e a A k → k ≤ 21 →
      |a - e| ≤ (21 + 1 / 1000) * M.u * A ∧ |a| ≤ (1 + 1 / 10 ^ 13) * |A| := by
    intro e a A k h hk
    have hA := h.A_nonneg
    have h1 : |a - e| ≤ (21 + 1 / 1000) * M.u * A :=
      ct_numC M (h.mono hk) hu (by norm_num) (by norm_num)
    refine ⟨h1, ?_⟩
    rw [abs_of_nonneg hA]
    have : |a| ≤ |e| + |a - e| := by
      calc |a| = |e + (a - e)| := by ring_nf
        _ ≤ _ := abs_add_le _ _
    have h2 := h.1
    have : (21 + 1 / 1000) * M.u * A ≤ 1 / 10 ^ 13 * A := by
      apply mul_le_mul_of_nonneg_right _ hA
      nlinarith
    linarith
  exact ⟨⟨(key h0 (by norm_num)).1, (key h1 (by norm_num)).1, (key h2 (by norm_num)).1,
    (key h3 (by norm_num)).1, (key h4 (by norm_num)).1⟩,
    ⟨(key h0 (by norm_num)).2, (key h1 (by norm_num)).2, (key h2 (by norm_num)).2,
    (key h3 (by norm_num)).2, (key h4 (by norm_num)).2⟩⟩

/-- the magnitude of the computed numbers (any constant `k`) is `|k| + (1 + 10⁻¹³)·MagS4` at most -/
theorem Mag_computed_le (hu : M.u ≤ (2 : ℝ) ^ (-53 : ℤ)) (p : Poly4 ℝ) (k : ℝ) {v : ℝ} (hv : 0 < v) :
    PP.Props.C10Bound.Mag (⟨k, (indefR4 M p).coeffs.mapF Rounded.val, (indefR4 M p).u.val⟩ : IntOfLogPoly4 ℝ) v
      ≤ |k| + (1 + 1 / 10 ^ 13) * MagS4 p v := by
  obtain ⟨-, c0, c1, c2, c3, c4⟩ := coeff4_uniform M hu p
  have h := Mag_le_of_coeffs
    (q := (⟨0, (indefR4 M p).coeffs.mapF Rounded.val, (indefR4 M p).u.val⟩ : IntOfLogPoly4 ℝ))
    (s := Smag4 p) (c := 1 + 1 / 10 ^ 13) hv (by simp [Smag4]) c0 c1 c2 c3 c4
  have e : PP.Props.C10Bound.Mag
      (⟨k, (indefR4 M p).coeffs.mapF Rounded.val, (indefR4 M p).u.val⟩ : IntOfLogPoly4 ℝ) v
      = |k| + PP.Props.C10Bound.Mag
        (⟨0, (indefR4 M p).coeffs.mapF Rounded.val, (indefR4 M p).u.val⟩ : IntOfLogPoly4 ℝ) v := by
    simp only [PP.Props.C10Bound.Mag, abs_zero]; ring
  rw [e, MagS4]
  linarith

/-- the rounded value of the indefinite integral (degree 4) is at most `(1 + 2·10⁻¹²)·MagS4` -/
theorem indef4_abs_le (hu : M.u ≤ (2 : ℝ) ^ (-53 : ℤ)) (p : Poly4 ℝ) {v : ℝ} (hv : 0 < v)
    (hL : |Real.log v| ≤ 1000) : |evalR4 M (indefR4 M p) v| ≤ (1 + 2 / 10 ^ 12) * MagS4 p v := by
  have hr := PP.Props.C10Bound.evaluate_rounding M hu (valsOf M (indefR4 M p)) hv hL
  have hi := abs_ideal_le_Mag (valsOf M (indefR4 M p)) hv
  have hm : PP.Props.C10Bound.Mag (valsOf M (indefR4 M p)) v
      ≤ |(indefR4 M p).k.val| + (1 + 1 / 10 ^ 13) * MagS4 p v := Mag_computed_le M hu p _ hv
  have h0 : |(indefR4 M p).k.val| = 0 := by rw [indefR4_k, abs_zero]
  have hS := MagS4_nonneg p hv
  have : |evalR4 M (indefR4 M p) v| ≤ |PP.Props.C10.ideal (valsOf M (indefR4 M p)) v|
      + |evalR4 M (indefR4 M p) v - PP.Props.C10.ideal (valsOf M (indefR4 M p)) v| := by
    calc |evalR4 M (indefR4 M p) v| = |PP.Props.C10.ideal (valsOf M (indefR4 M p)) v
          + (evalR4 M (indefR4 M p) v - PP.Props.C10.ideal (valsOf M (indefR4 M p)) v)| := by ring_nf
      _ ≤ _ := abs_add_le _ _
  have hr' : |evalR4 M (indefR4 M p) v - PP.Props.C10.ideal (valsOf M (indefR4 M p)) v|
      ≤ 1 / 10 ^ 12 * PP.Props.C10Bound.Mag (valsOf M (indefR4 M p)) v := hr
  nlinarith

/-- **(4) F̂(knot.x) = knot.y within the rounding bound, degree 4**: for `knot.x > 0`, `|ln knot.x| ≤ 1000`,
`|F̂(knot.x) − knot.y| ≤ 4.01·u·(|knot.y| + MagS4 p knot.x)` -/
theorem logpoly4_knot_rounding (hu : M.u ≤ (2 : ℝ) ^ (-53 : ℤ)) (p : Poly4 ℝ) (knot : Knot ℝ) (hx : 0 < knot.x)
    (hL : |Real.log knot.x| ≤ 1000) :
    |evalR4 M (HasIntegral.integral (⟨p.mapF Rounded.mk⟩ : Log (Poly4 (Rounded M))) (knot.mapF Rounded.mk)) knot.x
        - knot.y| ≤ (4 + 1 / 100) * M.u * (|knot.y| + MagS4 p knot.x) := by
  have h := (knot4_gen M (indefR4 M p) (indefR4_k M p) knot.x knot.y).1
  refine h.trans ?_
  have hE := indef4_abs_le M hu p hx hL
  have hS := MagS4_nonneg p hx
  have hu0 := M.hu
  have hu15 := PP.Lemmas.LogIntFP.u_small M hu
  have g3 := growth_num M.hu hu 3 (by norm_num)
  have g4 := growth_num M.hu hu 4 (by norm_num)
  have h1u : 0 < 1 - M.u := by linarith
  have hq : |evalR4 M (indefR4 M p) knot.x| / (1 - M.u) ≤ (1 + 3 / 10 ^ 12) * MagS4 p knot.x := by
    rw [div_le_iff₀ h1u]
    nlinarith
  have a := abs_nonneg knot.y
  have q0 : 0 ≤ |evalR4 M (indefR4 M p) knot.x| / (1 - M.u) := div_nonneg (abs_nonneg _) h1u.le
  have m1 := mul_le_mul_of_nonneg_right g3 a
  have m2 := mul_le_mul_of_nonneg_right g4 q0
  have m3 : (4 + 1 / 1000) * M.u * (|evalR4 M (indefR4 M p) knot.x| / (1 - M.u))
      ≤ (4 + 1 / 1000) * M.u * ((1 + 3 / 10 ^ 12) * MagS4 p knot.x) :=
    mul_le_mul_of_nonneg_left hq (by positivity)
  have uS := mul_nonneg hu0 hS
  norm_num at m1 m2
  nlinarith [mul_nonneg hu0 a]

/-- the stored constant, degree 4: `|k̂| ≤ 1.005·(|knot.y| + MagS4 p knot.x)` -/
theorem logpoly4_k_abs (hu : M.u ≤ (2 : ℝ) ^ (-53 : ℤ)) (p : Poly4 ℝ) (knot : Knot ℝ) (hx : 0 < knot.x)
    (hL : |Real.log knot.x| ≤ 1000) :
    |(HasIntegral.integral (⟨p.mapF Rounded.mk⟩ : Log (Poly4 (Rounded M))) (knot.mapF Rounded.mk)).k.val|
      ≤ (1 + 1 / 200) * (|knot.y| + MagS4 p knot.x) := by
  have h := (knot4_gen M (indefR4 M p) (indefR4_k M p) knot.x knot.y).2
  refine h.trans ?_
  have hE := indef4_abs_le M hu p hx hL
  have hS := MagS4_nonneg p hx
  have hu0 := M.hu
  have hu15 := PP.Lemmas.LogIntFP.u_small M hu
  have h1u : 0 < 1 - M.u := by linarith
  have hq : |evalR4 M (indefR4 M p) knot.x| / (1 - M.u) ≤ (1 + 3 / 10 ^ 12) * MagS4 p knot.x := by
    rw [div_le_iff₀ h1u]
    nlinarith
  have a := abs_nonneg knot.y
  have s1 : (1 + M.u) ^ 2 ≤ 1 + 1 / 1000 := by nlinarith
  have s2 : |knot.y| + (1 + M.u) * (|evalR4 M (indefR4 M p) knot.x| / (1 - M.u))
      ≤ (1 + 1 / 1000) * (|knot.y| + MagS4 p knot.x) := by nlinarith
  calc _ ≤ (1 + 1 / 1000) * ((1 + 1 / 1000) * (|knot.y| + MagS4 p knot.x)) :=
        mul_le_mul s1 s2 (by positivity) (by norm_num)
    _ ≤ _ := by nlinarith

/-- (5), degree 4, core: the numbers `(a, b, c, d, u)` of the rounded `indefinite` with **any** constant `k̂` -/
theorem logpoly4_difference_core (hu : M.u ≤ (2 : ℝ) ^ (-53 : ℤ)) (p : Poly4 ℝ) (k : Rounded M)
    (a b : ℝ) (ha : 0 < a) (hb : 0 < b) (hLa : |Real.log a| ≤ 1000) (hLb : |Real.log b| ≤ 1000) :
    |evalR4 M { indefR4 M p with k := k } b - evalR4 M { indefR4 M p with k := k } a
        - ∫ t in a..b, Evaluate.evaluate (⟨p⟩ : Log (Poly4 ℝ)) t|
      ≤ (1 + 3 / 1000) / 10 ^ 12 * (MagS4 p a + MagS4 p b + 2 * |k.val|) := by
  set F : IntOfLogPoly4 (Rounded M) := { indefR4 M p with k := k } with hF
  set E := HasIntegral.indefinite (⟨p⟩ : Log (Poly4 ℝ)) with hE
  have hEk : E.k = 0 := PP.Props.C09.logpoly4_indefinite_k p
  obtain ⟨⟨d0, d1, d2, d3, d4⟩, -⟩ := coeff4_uniform M hu p
  obtain ⟨p0, p1, p2, p3, p4⟩ := Smag4_nonneg p
  have hu0 := M.hu
  have hu15 := PP.Lemmas.LogIntFP.u_small M hu
  -- evaluation against the ideal value of the computed numbers
  have rb : |evalR4 M F b - PP.Props.C10.ideal (valsOf M F) b|
      ≤ 1 / 10 ^ 12 * PP.Props.C10Bound.Mag (valsOf M F) b :=
    PP.Props.C10Bound.evaluate_rounding M hu (valsOf M F) hb hLb
  have ra : |evalR4 M F a - PP.Props.C10.ideal (valsOf M F) a|
      ≤ 1 / 10 ^ 12 * PP.Props.C10Bound.Mag (valsOf M F) a :=
    PP.Props.C10Bound.evaluate_rounding M hu (valsOf M F) ha hLa
  -- the magnitudes of the computed numbers
  have mb : PP.Props.C10Bound.Mag (valsOf M F) b ≤ |k.val| + (1 + 1 / 10 ^ 13) * MagS4 p b :=
    Mag_computed_le M hu p k.val hb
  have ma : PP.Props.C10Bound.Mag (valsOf M F) a ≤ |k.val| + (1 + 1 / 10 ^ 13) * MagS4 p a :=
    Mag_computed_le M hu p k.val ha
  -- the ideal value of the computed numbers against that of the exact ones
  have cb : |(PP.Props.C10.ideal (valsOf M F) b - (valsOf M F).k) - (PP.Props.C10.ideal E b - E.k)|
      ≤ (21 + 1 / 1000) * M.u * MagS4 p b :=
    ideal_close (q := valsOf M F) (q' := E) (s := Smag4 p) hb rfl d0 d1 d2 d3 d4 p0 p1 p2 p3 p4
  have ca : |(PP.Props.C10.ideal (valsOf M F) a - (valsOf M F).k) - (PP.Props.C10.ideal E a - E.k)|
      ≤ (21 + 1 / 1000) * M.u * MagS4 p a :=
    ideal_close (q := valsOf M F) (q' := E) (s := Smag4 p) ha rfl d0 d1 d2 d3 d4 p0 p1 p2 p3 p4
  rw [← ideal_ftc p a b ha hb, ← hE]
  have hSa := MagS4_nonneg p ha
  have hSb := MagS4_nonneg p hb
  have hk := abs_nonneg k.val
  have e : evalR4 M F b - evalR4 M F a - (PP.Props.C10.ideal E b - PP.Props.C10.ideal E a)
      = (evalR4 M F b - PP.Props.C10.ideal (valsOf M F) b)
        - (evalR4 M F a - PP.Props.C10.ideal (valsOf M F) a)
        + ((PP.Props.C10.ideal (valsOf M F) b - (valsOf M F).k) - (PP.Props.C10.ideal E b - E.k))
        - ((PP.Props.C10.ideal (valsOf M F) a - (valsOf M F).k) - (PP.Props.C10.ideal E a - E.k)) := by ring
  rw [e]
  have t1 := abs_sub (evalR4 M F b - PP.Props.C10.ideal (valsOf M F) b)
    (evalR4 M F a - PP.Props.C10.ideal (valsOf M F) a)
  have t2 := abs_add_le ((evalR4 M F b - PP.Props.C10.ideal (valsOf M F) b)
        - (evalR4 M F a - PP.Props.C10.ideal (valsOf M F) a))
    ((PP.Props.C10.ideal (valsOf M F) b - (valsOf M F).k) - (PP.Props.C10.ideal E b - E.k))
  have t3 := abs_sub ((evalR4 M F b - PP.Props.C10.ideal (valsOf M F) b)
        - (evalR4 M F a - PP.Props.C10.ideal (valsOf M F) a)
        + ((PP.Props.C10.ideal (valsOf M F) b - (valsOf M F).k) - (PP.Props.C10.ideal E b - E.k)))
    ((PP.Props.C10.ideal (valsOf M F) a - (valsOf M F).k) - (PP.Props.C10.ideal E a - E.k))
  have uSa := mul_nonneg hu0 hSa
  have uSb := mul_nonneg hu0 hSb
  have hu21 : (21 + 1 / 1000) * M.u ≤ 29 / 10 ^ 16 := by
    have : M.u ≤ 1110224 / 10 ^ 22 := hu.trans (by norm_num)
    linarith
  have c1 := mul_le_mul_of_nonneg_right hu21 hSa
  have c2 := mul_le_mul_of_nonneg_right hu21 hSb
  nlinarith

/-- **(5) `integral_difference_rounding`, degree 4**: for `a, b > 0` with `|ln a|, |ln b| ≤ 1000`,
`|F̂(b) − F̂(a) − ∫_a^b p(ln t) dt| ≤ 1.003·10⁻¹²·(MagS4 p a + MagS4 p b + 2|k̂|)`
(`10⁻¹²` is the evaluation bound of C10, which contains the truncation `6·10⁻¹⁴` of the series branch — hence not
a multiple of `u`; the coefficient errors contribute `21.001·u`). -/
theorem logpoly4_integral_difference_rounding (hu : M.u ≤ (2 : ℝ) ^ (-53 : ℤ)) (p : Poly4 ℝ) (knot : Knot ℝ)
    (a b : ℝ) (ha : 0 < a) (hb : 0 < b) (hLa : |Real.log a| ≤ 1000) (hLb : |Real.log b| ≤ 1000) :
    |evalR4 M (HasIntegral.integral (⟨p.mapF Rounded.mk⟩ : Log (Poly4 (Rounded M))) (knot.mapF Rounded.mk)) b
        - evalR4 M (HasIntegral.integral (⟨p.mapF Rounded.mk⟩ : Log (Poly4 (Rounded M))) (knot.mapF Rounded.mk)) a
        - ∫ t in a..b, Evaluate.evaluate (⟨p⟩ : Log (Poly4 ℝ)) t|
      ≤ (1 + 3 / 1000) / 10 ^ 12 * (MagS4 p a + MagS4 p b
          + 2 * |(HasIntegral.integral (⟨p.mapF Rounded.mk⟩ : Log (Poly4 (Rounded M)))
              (knot.mapF Rounded.mk)).k.val|) :=
  logpoly4_difference_core M hu p
    (HasIntegral.integral (⟨p.mapF Rounded.mk⟩ : Log (Poly4 (Rounded M))) (knot.mapF Rounded.mk)).k
    a b ha hb hLa hLb

/-- (5, with the stored constant bounded), degree 4 -/
theorem logpoly4_integral_difference_rounding' (hu : M.u ≤ (2 : ℝ) ^ (-53 : ℤ)) (p : Poly4 ℝ) (knot : Knot ℝ)
    (hx : 0 < knot.x) (hL : |Real.log knot.x| ≤ 1000)
    (a b : ℝ) (ha : 0 < a) (hb : 0 < b) (hLa : |Real.log a| ≤ 1000) (hLb : |Real.log b| ≤ 1000) :
    |evalR4 M (HasIntegral.integral (⟨p.mapF Rounded.mk⟩ : Log (Poly4 (Rounded M))) (knot.mapF Rounded.mk)) b
        - evalR4 M (HasIntegral.integral (⟨p.mapF Rounded.mk⟩ : Log (Poly4 (Rounded M))) (knot.mapF Rounded.mk)) a
        - ∫ t in a..b, Evaluate.evaluate (⟨p⟩ : Log (Poly4 ℝ)) t|
      ≤ (1 + 3 / 1000) / 10 ^ 12 * (MagS4 p a + MagS4 p b + (2 + 1 / 100) * (|knot.y| + MagS4 p knot.x)) := by
  refine (logpoly4_integral_difference_rounding M hu p knot a b ha hb hLa hLb).trans ?_
  have hk := logpoly4_k_abs M hu p knot hx hL
  apply mul_le_mul_of_nonneg_left _ (by norm_num)
  linarith

/-- **`indefinite()` returns an antiderivative of the same `f`, degree 4** (`k̂ = 0`) -/
theorem logpoly4_indefinite_difference_rounding (hu : M.u ≤ (2 : ℝ) ^ (-53 : ℤ)) (p : Poly4 ℝ)
    (a b : ℝ) (ha : 0 < a) (hb : 0 < b) (hLa : |Real.log a| ≤ 1000) (hLb : |Real.log b| ≤ 1000) :
    |evalR4 M (HasIntegral.indefinite (⟨p.mapF Rounded.mk⟩ : Log (Poly4 (Rounded M)))) b
        - evalR4 M (HasIntegral.indefinite (⟨p.mapF Rounded.mk⟩ : Log (Poly4 (Rounded M)))) a
        - ∫ t in a..b, Evaluate.evaluate (⟨p⟩ : Log (Poly4 ℝ)) t|
      ≤ (1 + 3 / 1000) / 10 ^ 12 * (MagS4 p a + MagS4 p b) := by
  have h := logpoly4_difference_core M hu p (indefR4 M p).k a b ha hb hLa hLb
  rw [indefR4_k, abs_zero, mul_zero, add_zero] at h
  exact h

end deg4

/-! ## the statements spelled out for one degree (no auxiliary definitions) -/

/-- **(4) for degree 2, spelled out**: `f(t) = c₀ + c₁·ln t + c₂·ln² t`, knot `(x, y)`, `x > 0` -/
theorem logpoly2_knot_rounding_spelled (hu : M.u ≤ (2 : ℝ) ^ (-53 : ℤ)) (c0 c1 c2 x y : ℝ) (hx : 0 < x) :
    |(Evaluate.evaluate
        (HasIntegral.integral (⟨⟨⟨⟨c0⟩, ⟨c1⟩, ⟨c2⟩⟩⟩⟩ : Log (Poly2 (Rounded M))) (⟨⟨x⟩, ⟨y⟩⟩ : Knot (Rounded M)))
        (⟨x⟩ : Rounded M)).val - y|
      ≤ (4 + 1 / 100) * M.u * (|y| + x * ((|c0| + |c1| + 2 * |c2|) + (|c1| + 2 * |c2|) * |Real.log x|
          + |c2| * |Real.log x| ^ 2)) :=
  logpoly2_knot_rounding_S M hu ⟨⟨c0, c1, c2⟩⟩ ⟨x, y⟩ hx

/-- **(5) for degree 2, spelled out** -/
theorem logpoly2_integral_difference_rounding_spelled (hu : M.u ≤ (2 : ℝ) ^ (-53 : ℤ)) (c0 c1 c2 x y : ℝ)
    (hx : 0 < x) (a b : ℝ) (ha : 0 < a) (hb : 0 < b) :
    let F := HasIntegral.integral (⟨⟨⟨⟨c0⟩, ⟨c1⟩, ⟨c2⟩⟩⟩⟩ : Log (Poly2 (Rounded M))) (⟨⟨x⟩, ⟨y⟩⟩ : Knot (Rounded M))
    let mag := fun v : ℝ => v * ((|c0| + |c1| + 2 * |c2|) + (|c1| + 2 * |c2|) * |Real.log v| + |c2| * |Real.log v| ^ 2)
    |(Evaluate.evaluate F (⟨b⟩ : Rounded M)).val - (Evaluate.evaluate F (⟨a⟩ : Rounded M)).val
        - ∫ t in a..b, (c0 + c1 * Real.log t + c2 * Real.log t ^ 2)|
      ≤ (7 + 1 / 1000) * M.u * (mag a + mag b) + (2 + 1 / 100) * M.u * (|y| + mag x) := by
  intro F mag
  have h := logpoly2_integral_difference_rounding' M hu ⟨⟨c0, c1, c2⟩⟩ ⟨x, y⟩ hx a b ha hb
  have e : (fun t => Evaluate.evaluate (⟨⟨⟨c0, c1, c2⟩⟩⟩ : Log (Poly2 ℝ)) t)
      = fun t => c0 + c1 * Real.log t + c2 * Real.log t ^ 2 := by
    funext t
    show Evaluate.evaluate (⟨⟨c0, c1, c2⟩⟩ : Poly2 ℝ) (Real.log t) = _
    rw [PP.Props.C01.poly2_eval]
  rw [e] at h
  exact h

/-! ## non-vacuity: the hypotheses are satisfiable in models that really round -/
section examples
open PP.Props.C10Bound (M53 M53_u intFixR)

/-- concrete data of degree 0 (signs alternate: the recurrence does not cancel) -/
noncomputable def ex0 : Poly0 ℝ := ⟨1⟩
example := logpoly0_coeff_rounding M53 M53_u ex0
example := logpoly0_knot_rounding M53 M53_u ex0 ⟨2, 3⟩ (by norm_num)
example := logpoly0_knot_rounding_S M53 M53_u ex0 ⟨2, 3⟩ (by norm_num)
example := logpoly0_integral_difference_rounding M53 M53_u ex0 ⟨2, 3⟩ (1 / 2) 5 (by norm_num) (by norm_num)
example := logpoly0_integral_difference_rounding' intFixR (le_refl _) ex0 ⟨2, 3⟩ (by norm_num) (1 / 2) 5 (by norm_num) (by norm_num)
example := logpoly0_indefinite_difference_rounding M53 M53_u ex0 (1 / 2) 5 (by norm_num) (by norm_num)
/-- concrete data of degree 1 (signs alternate: the recurrence does not cancel) -/
noncomputable def ex1 : Poly1 ℝ := ⟨⟨1, -2⟩⟩
example := logpoly1_coeff_rounding M53 M53_u ex1
example := logpoly1_knot_rounding M53 M53_u ex1 ⟨2, 3⟩ (by norm_num)
example := logpoly1_knot_rounding_S M53 M53_u ex1 ⟨2, 3⟩ (by norm_num)
example := logpoly1_integral_difference_rounding M53 M53_u ex1 ⟨2, 3⟩ (1 / 2) 5 (by norm_num) (by norm_num)
example := logpoly1_integral_difference_rounding' intFixR (le_refl _) ex1 ⟨2, 3⟩ (by norm_num) (1 / 2) 5 (by norm_num) (by norm_num)
example := logpoly1_indefinite_difference_rounding M53 M53_u ex1 (1 / 2) 5 (by norm_num) (by norm_num)
/-- concrete data of degree 2 (signs alternate: the recurrence does not cancel) -/
noncomputable def ex2 : Poly2 ℝ := ⟨⟨1, -2, 3⟩⟩
example := logpoly2_coeff_rounding M53 M53_u ex2
example := logpoly2_knot_rounding M53 M53_u ex2 ⟨2, 3⟩ (by norm_num)
example := logpoly2_knot_rounding_S M53 M53_u ex2 ⟨2, 3⟩ (by norm_num)
example := logpoly2_integral_difference_rounding M53 M53_u ex2 ⟨2, 3⟩ (1 / 2) 5 (by norm_num) (by norm_num)
example := logpoly2_integral_difference_rounding' intFixR (le_refl _) ex2 ⟨2, 3⟩ (by norm_num) (1 / 2) 5 (by norm_num) (by norm_num)
example := logpoly2_indefinite_difference_rounding M53 M53_u ex2 (1 / 2) 5 (by norm_num) (by norm_num)
/-- concrete data of degree 3 (signs alternate: the recurrence does not cancel) -/
noncomputable def ex3 : Poly3 ℝ := ⟨⟨1, -2, 3, 1 / 2⟩⟩
example := logpoly3_coeff_rounding M53 M53_u ex3
example := logpoly3_knot_rounding M53 M53_u ex3 ⟨2, 3⟩ (by norm_num)
example := logpoly3_knot_rounding_S M53 M53_u ex3 ⟨2, 3⟩ (by norm_num)
example := logpoly3_integral_difference_rounding M53 M53_u ex3 ⟨2, 3⟩ (1 / 2) 5 (by norm_num) (by norm_num)
example := logpoly3_integral_difference_rounding' intFixR (le_refl _) ex3 ⟨2, 3⟩ (by norm_num) (1 / 2) 5 (by norm_num) (by norm_num)
example := logpoly3_indefinite_difference_rounding M53 M53_u ex3 (1 / 2) 5 (by norm_num) (by norm_num)
/-- concrete data of degree 5 (signs alternate: the recurrence does not cancel) -/
noncomputable def ex5 : Poly5 ℝ := ⟨⟨1, -2, 3, 1 / 2, -1, 2⟩⟩
example := logpoly5_coeff_rounding M53 M53_u ex5
example := logpoly5_knot_rounding M53 M53_u ex5 ⟨2, 3⟩ (by norm_num)
example := logpoly5_knot_rounding_S M53 M53_u ex5 ⟨2, 3⟩ (by norm_num)
example := logpoly5_integral_difference_rounding M53 M53_u ex5 ⟨2, 3⟩ (1 / 2) 5 (by norm_num) (by norm_num)
example := logpoly5_integral_difference_rounding' intFixR (le_refl _) ex5 ⟨2, 3⟩ (by norm_num) (1 / 2) 5 (by norm_num) (by norm_num)
example := logpoly5_indefinite_difference_rounding M53 M53_u ex5 (1 / 2) 5 (by norm_num) (by norm_num)
/-- concrete data of degree 6 (signs alternate: the recurrence does not cancel) -/
noncomputable def ex6 : Poly6 ℝ := ⟨⟨1, -2, 3, 1 / 2, -1, 2, -3⟩⟩
example := logpoly6_coeff_rounding M53 M53_u ex6
example := logpoly6_knot_rounding M53 M53_u ex6 ⟨2, 3⟩ (by norm_num)
example := logpoly6_knot_rounding_S M53 M53_u ex6 ⟨2, 3⟩ (by norm_num)
example := logpoly6_integral_difference_rounding M53 M53_u ex6 ⟨2, 3⟩ (1 / 2) 5 (by norm_num) (by norm_num)
example := logpoly6_integral_difference_rounding' intFixR (le_refl _) ex6 ⟨2, 3⟩ (by norm_num) (1 / 2) 5 (by norm_num) (by norm_num)
example := logpoly6_indefinite_difference_rounding M53 M53_u ex6 (1 / 2) 5 (by norm_num) (by norm_num)
/-- concrete data of degree 7 (signs alternate: the recurrence does not cancel) -/
noncomputable def ex7 : Poly7 ℝ := ⟨⟨1, -2, 3, 1 / 2, -1, 2, -3, 1 / 3⟩⟩
example := logpoly7_coeff_rounding M53 M53_u ex7
example := logpoly7_knot_rounding M53 M53_u ex7 ⟨2, 3⟩ (by norm_num)
example := logpoly7_knot_rounding_S M53 M53_u ex7 ⟨2, 3⟩ (by norm_num)
example := logpoly7_integral_difference_rounding M53 M53_u ex7 ⟨2, 3⟩ (1 / 2) 5 (by norm_num) (by norm_num)
example := logpoly7_integral_difference_rounding' intFixR (le_refl _) ex7 ⟨2, 3⟩ (by norm_num) (1 / 2) 5 (by norm_num) (by norm_num)
example := logpoly7_indefinite_difference_rounding M53 M53_u ex7 (1 / 2) 5 (by norm_num) (by norm_num)
/-- concrete data of degree 8 (signs alternate: the recurrence does not cancel) -/
noncomputable def ex8 : Poly8 ℝ := ⟨⟨1, -2, 3, 1 / 2, -1, 2, -3, 1 / 3, 5⟩⟩
example := logpoly8_coeff_rounding M53 M53_u ex8
example := logpoly8_knot_rounding M53 M53_u ex8 ⟨2, 3⟩ (by norm_num)
example := logpoly8_knot_rounding_S M53 M53_u ex8 ⟨2, 3⟩ (by norm_num)
example := logpoly8_integral_difference_rounding M53 M53_u ex8 ⟨2, 3⟩ (1 / 2) 5 (by norm_num) (by norm_num)
example := logpoly8_integral_difference_rounding' intFixR (le_refl _) ex8 ⟨2, 3⟩ (by norm_num) (1 / 2) 5 (by norm_num) (by norm_num)
example := logpoly8_indefinite_difference_rounding M53 M53_u ex8 (1 / 2) 5 (by norm_num) (by norm_num)

/-! ### degree 4 -/
noncomputable def ex4 : Poly4 ℝ := ⟨⟨1, -2, 3, 1 / 2, -1⟩⟩
theorem log2_ok : |Real.log 2| ≤ 1000 := PP.Props.C10Bound.abs_log_two_le.trans (by norm_num)
theorem logexp_ok : |Real.log (Real.exp (-3))| ≤ 1000 := by
  rw [Real.log_exp, abs_neg, abs_of_pos (by norm_num : (0 : ℝ) < 3)]; norm_num
example := logpoly4_coeff_rounding M53 M53_u ex4
/-- knot at `x = 2` (series branch of the evaluation) -/
example := logpoly4_knot_rounding M53 M53_u ex4 ⟨2, 3⟩ (by norm_num) log2_ok
/-- knot at `x = e⁻³` (closed-form branch) -/
example := logpoly4_knot_rounding M53 M53_u ex4 ⟨Real.exp (-3), 3⟩ (Real.exp_pos _) logexp_ok
example := logpoly4_integral_difference_rounding M53 M53_u ex4 ⟨2, 3⟩ (Real.exp (-3)) 2 (Real.exp_pos _)
  (by norm_num) logexp_ok log2_ok
example := logpoly4_integral_difference_rounding' intFixR (le_refl _) ex4 ⟨2, 3⟩ (by norm_num) log2_ok
  (Real.exp (-3)) 2 (Real.exp_pos _) (by norm_num) logexp_ok log2_ok
example := logpoly4_indefinite_difference_rounding M53 M53_u ex4 (Real.exp (-3)) 2 (Real.exp_pos _)
  (by norm_num) logexp_ok log2_ok

/-! ### the models really round, and the recurrence really cancels -/

/-- `p = 1 + 2y + y²`: the exact antiderivative coefficient `q₁ = c₁ − 2c₂` is `0`, the computed one is not
(`2 − 2(1+u)²` in `M53`): this is why (6) and (4) bound against `S_j`, not against `|q_j|` -/
example : (HasIntegral.indefinite (⟨⟨⟨1, 2, 1⟩⟩⟩ : Log (Poly2 ℝ))).poly._0.a1 = 0 ∧
    (indefR2 M53 ⟨⟨1, 2, 1⟩⟩).poly._0.a1.val ≠ 0 := by
  constructor
  · exact_simp; norm_num
  · show M53.rnd (2 - M53.rnd (M53.rnd (((2 : ℤ) : ℝ) * (10 : ℝ) ^ (0 : ℤ)) * 1)) ≠ 0
    simp only [M53, RModel.inflate]
    norm_num

example := logpoly2_knot_rounding_spelled M53 M53_u 1 (-2) 3 2 3 (by norm_num)
example := logpoly2_integral_difference_rounding_spelled M53 M53_u 1 (-2) 3 2 3 (by norm_num) (1 / 2) 5
  (by norm_num) (by norm_num)

end examples

end PP.Props.C09Bound
