import PP.Sem.Pair64
import PP.Sem.Tracked
import PP.Model.Linear.FnsAttr
import PP.Props.C01Bound
/-!
# IEEEPrograms — bit-exact `F64` statements for programs with division and branches

`PP/Props/IEEE.lean` transfers the polynomial evaluators (straight-line, `fma`/`mul` only) from the bit-exact
soft-float `F64` to the rounded interpretation `Rounded M64`.  This file does the same for the programs that divide
and branch, by running the *generated* model at the paired interpretation `P64` (`PP/Sem/Pair64.lean`) on inputs
injected from `F64` values, and combines the result with the certified running error bound `Tr M64`
(`PP/Sem/Tracked.lean`):

1. `Spline.segment` (straight-line, six divisions): `segment_p64_x`, `segment_p64_r` (projections, by `rfl`),
   `SegmentOk64` (the explicit side condition: 39 `InRange` conditions on the rounded intermediates, `x₁ ≠ x₀`,
   inputs finite and canonical), `segment_ok_iff` (it IS the accumulated `ok`), `spline_segment_transfer`,
   `spline_segment_f64_bound` (each coefficient of the bit-exact run within the certified `.b` of the exact rational
   Hermite coefficient).
2. `Spline.f_dx` (a branch on `slope01 * slope12 <= 0.0`): `FdxOk64`, `f_dx_same_branch`, `spline_f_dx_transfer`,
   `spline_f_dx_f64_bound`.
3. `Linear.segment` (a branch on `dx < f64::EPSILON`): `LinearOk64`, `linear_segment_same_branch`,
   `linear_segment_transfer`.
4. `Hand.polyNEvaluate` (Horner loop, any number of coefficients): `HornerOk64`/`PolyNOk64` (recursion over the
   coefficient list), `polyN_p64_x`, `polyN_p64_r`, `polyN_transfer`, `polyN_f64_bound`
   (`4(n+2)·2⁻⁵³·Σ|cᵢ||x|ⁱ` for the bit-exact run).

`InRange r` is `r = 0 ∨ 2⁻¹⁰²² ≤ |r| < 2¹⁰²⁴(1−2⁻⁵⁴)`; `rnd64` is binary64 round-to-nearest-even with unbounded
exponent; `FC a` is "finite and canonical".  `ln exp : F64 → F64` are libm's functions (parameters of `F64.inst`;
none of these programs calls them).
-/
set_option linter.unusedSectionVars false
namespace PP.Props.IEEEPrograms
open F64 (InRange rnd64)

/-- finite and canonical -/
def FC (a : F64) : Prop := a.Finite ∧ a.Canon

/-! ## literals -/

theorem lit_val (n : ℤ) : ((n : ℤ) : ℚ) * (10:ℚ) ^ (0:ℤ) = n := by simp
theorem lit0 : rnd64 (((0:ℤ):ℚ) * (10:ℚ) ^ (0:ℤ)) = 0 := by
  rw [lit_val]; exact_mod_cast F64.rnd64_int 0 (by decide)
theorem lit1 : rnd64 (((1:ℤ):ℚ) * (10:ℚ) ^ (0:ℤ)) = 1 := by
  rw [lit_val]; exact_mod_cast F64.rnd64_int 1 (by decide)
theorem lit2 : rnd64 (((2:ℤ):ℚ) * (10:ℚ) ^ (0:ℤ)) = 2 := by
  rw [lit_val]; exact_mod_cast F64.rnd64_int 2 (by decide)
theorem lit3 : rnd64 (((3:ℤ):ℚ) * (10:ℚ) ^ (0:ℤ)) = 3 := by
  rw [lit_val]; exact_mod_cast F64.rnd64_int 3 (by decide)
theorem lit6 : rnd64 (((6:ℤ):ℚ) * (10:ℚ) ^ (0:ℤ)) = 6 := by
  rw [lit_val]; exact_mod_cast F64.rnd64_int 6 (by decide)
theorem inr_lit (n : ℤ) (hn : n.natAbs ≤ 2 ^ 53) : InRange (((n:ℤ):ℚ) * (10:ℚ) ^ (0:ℤ)) := by
  rw [lit_val]; exact F64.inRange_int n hn
theorem inr0 : InRange (((0:ℤ):ℚ) * (10:ℚ) ^ (0:ℤ)) := inr_lit 0 (by decide)
theorem inr1 : InRange (((1:ℤ):ℚ) * (10:ℚ) ^ (0:ℤ)) := inr_lit 1 (by decide)
theorem inr2 : InRange (((2:ℤ):ℚ) * (10:ℚ) ^ (0:ℤ)) := inr_lit 2 (by decide)
theorem inr3 : InRange (((3:ℤ):ℚ) * (10:ℚ) ^ (0:ℤ)) := inr_lit 3 (by decide)
theorem inr6 : InRange (((6:ℤ):ℚ) * (10:ℚ) ^ (0:ℤ)) := inr_lit 6 (by decide)

/-- a rational of magnitude in `[2⁻¹⁰, 1]` is in range -/
theorem inRange_of_small {r : ℚ} (h1 : (2:ℚ) ^ (-10 : ℤ) ≤ |r|) (h2 : |r| ≤ 1) : InRange r := by
  right
  refine ⟨le_trans (zpow_le_zpow_right₀ (by norm_num) (by norm_num)) h1, lt_of_le_of_lt h2 ?_⟩
  have := (F64.inRange_of_one_le (r := 1) (by norm_num) (by norm_num)).resolve_left (by norm_num)
  simpa using this.2

theorem inr_sixth : InRange ((1:ℚ) / 6) := inRange_of_small (by norm_num) (by norm_num)
theorem inr_half : InRange ((1:ℚ) / 2) := inRange_of_small (by norm_num) (by norm_num)

theorem repr_half : F64.Representable ((1:ℚ) / 2) := by
  refine ⟨F64.fin false (2 ^ 52) (-53), trivial, ⟨by norm_num, by norm_num, Or.inl (le_refl _), by norm_num⟩, ?_⟩
  show F64.sgn false * ((2 ^ 52 : Nat) : ℚ) * (2:ℚ) ^ (-53 : Int) = _
  rw [F64.sgn_false, one_mul]; norm_num

/-- `0.5` is exact -/
theorem rnd_half : rnd64 ((1:ℚ) / 2) = 1 / 2 :=
  F64.rnd64_of_representable repr_half (Or.inr (inr_half.resolve_left (by norm_num)).1)

/-- `rnd64` has no spurious zero (relative error < 1) -/
theorem rnd64_ne_zero {t : ℚ} : rnd64 t ≠ 0 ↔ t ≠ 0 := not_congr (M64.rnd_eq_zero_iff (t := t))
theorem rnd64_pos {t : ℚ} : 0 < rnd64 t ↔ 0 < t := M64.rnd_pos_iff (t := t)

/-! ## the part of `Linear.segment` after its branch (generic in the number type) -/

/-- the part of `Linear.segment` after the branch, as a function of the slope `pv` (any number type) -/
@[reducible] def linearTail {F : Type} [FloatLike F] (k0 k1 : Knot F) (pv : F) : Segment F (Poly1 F) :=
  let poly : Poly1 F := HasIntegral.indefinite (Poly0.mk pv)
  let poly := Translate.translate poly (PSub.sub k0.y (Evaluate.evaluate poly k0.x))
  Segment.mk («end» := k1.x) (poly := poly)

/-- `Linear.segment` is the branch on `dx < EPSILON` followed by `linearTail` -/
theorem linear_eq_tail {F : Type} [FloatLike F] (k0 k1 : Knot F) :
    Linear.segment k0 k1 = linearTail k0 k1
      (if FloatLike.lt (PSub.sub k1.x k0.x) (FloatLike.epsilon : F) then (FloatLike.ofDec 0 0 : F)
       else PDiv.div (PSub.sub k1.y k0.y) (PSub.sub k1.x k0.x)) := rfl

section programs
variable (ln exp : F64 → F64) [Transc ℚ]
attribute [local instance] exactFL

/-! ## 1. `Spline.segment` -/

/-- the generated `Spline.segment` run at the bit-exact soft-float -/
@[reducible] def segmentF64 (f0 : F64) (k0 : Knot F64) (f1 : F64) (k1 : Knot F64) : Segment F64 (Poly3 F64) :=
  @Spline.segment F64 (F64.inst ln exp) f0 k0 f1 k1

/-- … at the paired interpretation, on the injected inputs -/
@[reducible] noncomputable def segmentP64 (f0 : F64) (k0 : Knot F64) (f1 : F64) (k1 : Knot F64) :
    Segment P64 (Poly3 P64) :=
  @Spline.segment P64 (P64.inst ln exp) (P64.inp f0) (k0.mapF P64.inp) (P64.inp f1) (k1.mapF P64.inp)

/-- … at the rounded interpretation `Rounded M64`, on the values -/
@[reducible] noncomputable def segmentR64 (f0 : F64) (k0 : Knot F64) (f1 : F64) (k1 : Knot F64) :
    Segment (Rounded M64) (Poly3 (Rounded M64)) :=
  Spline.segmentRounded M64 f0.val (k0.mapF F64.val) f1.val (k1.mapF F64.val)

/-- `.x` is the run at `F64` (four coefficients and `end`) -/
theorem segment_p64_x (f0 : F64) (k0 : Knot F64) (f1 : F64) (k1 : Knot F64) :
    (segmentP64 ln exp f0 k0 f1 k1).poly._0.a0.x = (segmentF64 ln exp f0 k0 f1 k1).poly._0.a0 ∧
    (segmentP64 ln exp f0 k0 f1 k1).poly._0.a1.x = (segmentF64 ln exp f0 k0 f1 k1).poly._0.a1 ∧
    (segmentP64 ln exp f0 k0 f1 k1).poly._0.a2.x = (segmentF64 ln exp f0 k0 f1 k1).poly._0.a2 ∧
    (segmentP64 ln exp f0 k0 f1 k1).poly._0.a3.x = (segmentF64 ln exp f0 k0 f1 k1).poly._0.a3 ∧
    (segmentP64 ln exp f0 k0 f1 k1).«end».x = (segmentF64 ln exp f0 k0 f1 k1).«end» :=
  ⟨rfl, rfl, rfl, rfl, rfl⟩

/-- `.r` is the run at `Rounded M64` on the values -/
theorem segment_p64_r (f0 : F64) (k0 : Knot F64) (f1 : F64) (k1 : Knot F64) :
    (segmentP64 ln exp f0 k0 f1 k1).poly._0.a0.r = (segmentR64 f0 k0 f1 k1).poly._0.a0.val ∧
    (segmentP64 ln exp f0 k0 f1 k1).poly._0.a1.r = (segmentR64 f0 k0 f1 k1).poly._0.a1.val ∧
    (segmentP64 ln exp f0 k0 f1 k1).poly._0.a2.r = (segmentR64 f0 k0 f1 k1).poly._0.a2.val ∧
    (segmentP64 ln exp f0 k0 f1 k1).poly._0.a3.r = (segmentR64 f0 k0 f1 k1).poly._0.a3.val ∧
    (segmentP64 ln exp f0 k0 f1 k1).«end».r = (segmentR64 f0 k0 f1 k1).«end».val :=
  ⟨rfl, rfl, rfl, rfl, rfl⟩

/-- **the side condition of `Spline.segment`, explicitly**: the six inputs are finite and canonical, the knots have
distinct abscissae, and the exact result of each of the 39 rounded operations of the construction (on the rounded
intermediates, named as in `spline.rs`) is `0` or in the normal range.  (The literals `1.0, 2.0, 3.0, 6.0, 0.5` are
exact and `1/6` is in range: no condition.) -/
def SegmentOk64 (f0 : F64) (k0 : Knot F64) (f1 : F64) (k1 : Knot F64) : Prop :=
  let x0 := k0.x.val; let y0 := k0.y.val; let x1 := k1.x.val; let y1 := k1.y.val
  let g0 := f0.val; let g1 := f1.val
  let dy := rnd64 (y1 - y0)
  let dx := rnd64 (x1 - x0)
  let slope := rnd64 (dy / dx)
  let x0x0 := rnd64 (x0 * x0)
  let s3 := rnd64 (3 * slope)
  let t0 := rnd64 (2 * g0)
  let u0 := rnd64 (g1 + t0)
  let v0 := rnd64 (s3 - u0)
  let w0 := rnd64 (2 * v0)
  let f00 := rnd64 (w0 / dx)
  let t1 := rnd64 (2 * g1)
  let u1 := rnd64 (t1 + g0)
  let v1 := rnd64 (u1 - s3)
  let w1 := rnd64 (2 * v1)
  let f11 := rnd64 (w1 / dx)
  let sixth := rnd64 (1 / 6)
  let dd := rnd64 (f11 - f00)
  let d0 := rnd64 (sixth * dd)
  let d := rnd64 (d0 / dx)
  let p := rnd64 (x1 * f00)
  let q := rnd64 (x0 * f11)
  let pq := rnd64 (p - q)
  let c0 := rnd64 (1 / 2 * pq)
  let c := rnd64 (c0 / dx)
  let sx := rnd64 (x1 + x0)
  let csx := rnd64 (c * sx)
  let b0 := rnd64 (slope - csx)
  let x1x1 := rnd64 (x1 * x1)
  let x1x0 := rnd64 (x1 * x0)
  let m0 := rnd64 (x1x1 + x1x0)
  let m1 := rnd64 (m0 + x0x0)
  let dm := rnd64 (d * m1)
  let b := rnd64 (b0 - dm)
  let bx := rnd64 (b * x0)
  let a0 := rnd64 (y0 - bx)
  let cx := rnd64 (c * x0x0)
  let a1 := rnd64 (a0 - cx)
  let dxx := rnd64 (d * x0x0)
  let dxxx := rnd64 (dxx * x0)
  (FC f0 ∧ FC f1 ∧ FC k0.x ∧ FC k0.y ∧ FC k1.x ∧ FC k1.y) ∧ x1 ≠ x0 ∧
  InRange (y1 - y0) ∧
  InRange (x1 - x0) ∧
  InRange (dy / dx) ∧
  InRange (x0 * x0) ∧
  InRange (3 * slope) ∧
  InRange (2 * g0) ∧
  InRange (g1 + t0) ∧
  InRange (s3 - u0) ∧
  InRange (2 * v0) ∧
  InRange (w0 / dx) ∧
  InRange (2 * g1) ∧
  InRange (t1 + g0) ∧
  InRange (u1 - s3) ∧
  InRange (2 * v1) ∧
  InRange (w1 / dx) ∧
  InRange (f11 - f00) ∧
  InRange (sixth * dd) ∧
  InRange (d0 / dx) ∧
  InRange (x1 * f00) ∧
  InRange (x0 * f11) ∧
  InRange (p - q) ∧
  InRange (1 / 2 * pq) ∧
  InRange (c0 / dx) ∧
  InRange (x1 + x0) ∧
  InRange (c * sx) ∧
  InRange (slope - csx) ∧
  InRange (x1 * x1) ∧
  InRange (x1 * x0) ∧
  InRange (x1x1 + x1x0) ∧
  InRange (m0 + x0x0) ∧
  InRange (d * m1) ∧
  InRange (b0 - dm) ∧
  InRange (b * x0) ∧
  InRange (y0 - bx) ∧
  InRange (c * x0x0) ∧
  InRange (a0 - cx) ∧
  InRange (d * x0x0) ∧
  InRange (dxx * x0) ∧
  InRange (a1 - dxxx)

/-- the accumulated `ok` of the four coefficients of the paired run -/
def segmentP64ok (f0 : F64) (k0 : Knot F64) (f1 : F64) (k1 : Knot F64) : Prop :=
  (segmentP64 ln exp f0 k0 f1 k1).poly._0.a0.ok ∧ (segmentP64 ln exp f0 k0 f1 k1).poly._0.a1.ok ∧
  (segmentP64 ln exp f0 k0 f1 k1).poly._0.a2.ok ∧ (segmentP64 ln exp f0 k0 f1 k1).poly._0.a3.ok

/-- `SegmentOk64` is exactly the accumulated side condition of the paired run -/
theorem segment_ok_iff (f0 : F64) (k0 : Knot F64) (f1 : F64) (k1 : Knot F64) :
    segmentP64ok ln exp f0 k0 f1 k1 ↔ SegmentOk64 f0 k0 f1 k1 := by
  unfold segmentP64ok
  constructor
  · intro h
    simp only [Spline.segment, PSub.sub, PDiv.div, PMul.mul, PAdd.add, FloatLike.sub, FloatLike.div,
      FloatLike.mul, FloatLike.add, FloatLike.ofDec, P64.inp, lit1, lit2, lit3, lit6, inr1, inr2, inr3, inr6,
      true_and, rnd64_ne_zero, rnd_half, inr_sixth, inr_half, sub_ne_zero] at h
    simp only [SegmentOk64, FC, h, and_self, ne_eq, not_false_eq_true]
  · intro h
    simp only [SegmentOk64, FC] at h
    obtain ⟨⟨hf0, hf1, hx0, hy0, hx1, hy1⟩, hne, h0, h1, h2, h3, h4, h5, h6, h7, h8, h9, h10, h11, h12, h13, h14, h15, h16, h17, h18, h19, h20, h21, h22, h23, h24, h25, h26, h27, h28, h29, h30, h31, h32, h33, h34, h35, h36, h37, h38⟩ := h
    have hdx : k1.x.val - k0.x.val ≠ 0 := sub_ne_zero.mpr hne
    simp only [Spline.segment, PSub.sub, PDiv.div, PMul.mul, PAdd.add, FloatLike.sub, FloatLike.div,
      FloatLike.mul, FloatLike.add, FloatLike.ofDec, P64.inp, lit1, lit2, lit3, lit6, inr1, inr2, inr3, inr6,
      true_and, rnd64_ne_zero, rnd_half, inr_sixth, inr_half]
    simp only [hf0, hf1, hx0, hy0, hx1, hy1, hdx, h0, h1, h2, h3, h4, h5, h6, h7, h8, h9, h10, h11, h12, h13, h14, h15, h16, h17, h18, h19, h20, h21, h22, h23, h24, h25, h26, h27, h28, h29, h30, h31, h32, h33, h34, h35, h36, h37, h38, and_self, ne_eq, not_false_eq_true,
      OfNat.ofNat_ne_zero]

/-- **transfer for `Spline.segment`**: under `SegmentOk64` every coefficient of the bit-exact `F64` run is finite,
canonical, and its value is the coefficient of the `Rounded M64` run; `end` is `x₁` itself -/
theorem spline_segment_transfer (f0 : F64) (k0 : Knot F64) (f1 : F64) (k1 : Knot F64)
    (h : SegmentOk64 f0 k0 f1 k1) :
    let S := segmentF64 ln exp f0 k0 f1 k1
    let R := segmentR64 f0 k0 f1 k1
    (FC S.poly._0.a0 ∧ S.poly._0.a0.val = R.poly._0.a0.val) ∧
    (FC S.poly._0.a1 ∧ S.poly._0.a1.val = R.poly._0.a1.val) ∧
    (FC S.poly._0.a2 ∧ S.poly._0.a2.val = R.poly._0.a2.val) ∧
    (FC S.poly._0.a3 ∧ S.poly._0.a3.val = R.poly._0.a3.val) ∧
    S.«end» = k1.x ∧ S.«end».val = R.«end».val := by
  obtain ⟨h0, h1, h2, h3⟩ := (segment_ok_iff ln exp f0 k0 f1 k1).mpr h
  have t0 := (segmentP64 ln exp f0 k0 f1 k1).poly._0.a0.transfer h0
  have t1 := (segmentP64 ln exp f0 k0 f1 k1).poly._0.a1.transfer h1
  have t2 := (segmentP64 ln exp f0 k0 f1 k1).poly._0.a2.transfer h2
  have t3 := (segmentP64 ln exp f0 k0 f1 k1).poly._0.a3.transfer h3
  exact ⟨⟨⟨t0.1, t0.2.1⟩, t0.2.2⟩, ⟨⟨t1.1, t1.2.1⟩, t1.2.2⟩, ⟨⟨t2.1, t2.2.1⟩, t2.2.2⟩, ⟨⟨t3.1, t3.2.1⟩, t3.2.2⟩,
    rfl, rfl⟩

/-- **`Spline.segment`, bit-exact**: under `SegmentOk64` each coefficient of the `F64` run is within the certified
bound `.b` (tracked interpretation `Tr M64`: a function of the exact intermediate magnitudes and `2⁻⁵³` only) of the
exact rational Hermite-cubic coefficient, and `end` is exact -/
theorem spline_segment_f64_bound (f0 : F64) (k0 : Knot F64) (f1 : F64) (k1 : Knot F64)
    (h : SegmentOk64 f0 k0 f1 k1) :
    let S := segmentF64 ln exp f0 k0 f1 k1
    let E := Spline.segment (F := ℚ) f0.val (k0.mapF F64.val) f1.val (k1.mapF F64.val)
    let T := Spline.segmentTr M64 f0.val (k0.mapF F64.val) f1.val (k1.mapF F64.val)
    |S.poly._0.a0.val - E.poly._0.a0| ≤ T.poly._0.a0.b ∧ |S.poly._0.a1.val - E.poly._0.a1| ≤ T.poly._0.a1.b ∧
    |S.poly._0.a2.val - E.poly._0.a2| ≤ T.poly._0.a2.b ∧ |S.poly._0.a3.val - E.poly._0.a3| ≤ T.poly._0.a3.b ∧
    S.«end».val = E.«end» := by
  have hne : (k1.mapF F64.val).x ≠ (k0.mapF F64.val).x := h.2.1
  obtain ⟨⟨_, e0⟩, ⟨_, e1⟩, ⟨_, e2⟩, ⟨_, e3⟩, _, e4⟩ := spline_segment_transfer ln exp f0 k0 f1 k1 h
  obtain ⟨b0, b1, b2, b3, b4⟩ := segment_tracked M64 f0.val (k0.mapF F64.val) f1.val (k1.mapF F64.val) hne
  simp only at e0 e1 e2 e3 e4 b0 b1 b2 b3 b4 ⊢
  rw [e0, e1, e2, e3, e4]
  exact ⟨b0, b1, b2, b3, b4⟩

/-! ## 2. `Spline.f_dx` -/

@[reducible] def f_dxF64 (k0 k1 k2 : Knot F64) : F64 := @Spline.f_dx F64 (F64.inst ln exp) k0 k1 k2

@[reducible] noncomputable def f_dxP64 (k0 k1 k2 : Knot F64) : P64 :=
  @Spline.f_dx P64 (P64.inst ln exp) (k0.mapF P64.inp) (k1.mapF P64.inp) (k2.mapF P64.inp)

@[reducible] noncomputable def f_dxR64 (k0 k1 k2 : Knot F64) : ℚ :=
  Spline.f_dxRounded M64 (k0.mapF F64.val) (k1.mapF F64.val) (k2.mapF F64.val)

/-- the slope `(y_b − y_a)/(x_b − x_a)` as `f_dx` computes it, paired -/
@[reducible] noncomputable def slopeP64 (ka kb : Knot F64) : P64 :=
  @FloatLike.div P64 (P64.inst ln exp)
    (@FloatLike.sub P64 (P64.inst ln exp) (P64.inp kb.y) (P64.inp ka.y))
    (@FloatLike.sub P64 (P64.inst ln exp) (P64.inp kb.x) (P64.inp ka.x))

/-- the tested product `slope01 * slope12`, paired -/
@[reducible] noncomputable def prodP64 (k0 k1 k2 : Knot F64) : P64 :=
  @FloatLike.mul P64 (P64.inst ln exp) (slopeP64 ln exp k0 k1) (slopeP64 ln exp k1 k2)

/-- the `else` branch `2.0 / (slope01.recip() + slope12.recip())`, paired -/
@[reducible] noncomputable def harmP64 (k0 k1 k2 : Knot F64) : P64 :=
  @FloatLike.div P64 (P64.inst ln exp) (@FloatLike.ofDec P64 (P64.inst ln exp) 2 0)
    (@FloatLike.add P64 (P64.inst ln exp)
      (@FloatLike.recip P64 (P64.inst ln exp) (slopeP64 ln exp k0 k1))
      (@FloatLike.recip P64 (P64.inst ln exp) (slopeP64 ln exp k1 k2)))

theorem f_dxP64_eq (k0 k1 k2 : Knot F64) :
    f_dxP64 ln exp k0 k1 k2 =
      if F64.le (prodP64 ln exp k0 k1 k2).x (F64.ofDec 0 0) = true
      then @FloatLike.ofDec P64 (P64.inst ln exp) 0 0 else harmP64 ln exp k0 k1 k2 := rfl

/-- `.x` is the run at `F64` (the paired run branches on the bit-exact comparison) -/
theorem f_dx_p64_x (k0 k1 k2 : Knot F64) : (f_dxP64 ln exp k0 k1 k2).x = f_dxF64 ln exp k0 k1 k2 := by
  rw [f_dxP64_eq, apply_ite P64.x]
  rfl


/-- **the side condition of `Spline.f_dx`, explicitly**: inputs finite and canonical, distinct abscissae, the exact
result of each operation up to the tested product is `0` or in the normal range, and — only when the (rounded) product
is positive, i.e. on the `else` branch — the same for the two reciprocals, their sum and the final quotient -/
def FdxOk64 (k0 k1 k2 : Knot F64) : Prop :=
  let x0 := k0.x.val; let y0 := k0.y.val; let x1 := k1.x.val; let y1 := k1.y.val
  let x2 := k2.x.val; let y2 := k2.y.val
  let s01 := rnd64 (rnd64 (y1 - y0) / rnd64 (x1 - x0))
  let s12 := rnd64 (rnd64 (y2 - y1) / rnd64 (x2 - x1))
  (FC k0.x ∧ FC k0.y ∧ FC k1.x ∧ FC k1.y ∧ FC k2.x ∧ FC k2.y) ∧ x1 ≠ x0 ∧ x2 ≠ x1 ∧
  InRange (y1 - y0) ∧ InRange (x1 - x0) ∧ InRange (rnd64 (y1 - y0) / rnd64 (x1 - x0)) ∧
  InRange (y2 - y1) ∧ InRange (x2 - x1) ∧ InRange (rnd64 (y2 - y1) / rnd64 (x2 - x1)) ∧
  InRange (s01 * s12) ∧
  (0 < s01 * s12 →
    InRange (1 / s01) ∧ InRange (1 / s12) ∧ InRange (rnd64 (1 / s01) + rnd64 (1 / s12)) ∧
    InRange (2 / rnd64 (rnd64 (1 / s01) + rnd64 (1 / s12))))

/-- the tested product is `ok` -/
theorem fdx_prod_ok (k0 k1 k2 : Knot F64) (h : FdxOk64 k0 k1 k2) : (prodP64 ln exp k0 k1 k2).ok := by
  simp only [FdxOk64, FC] at h
  obtain ⟨⟨a0, a1, a2, a3, a4, a5⟩, n1, n2, h1, h2, h3, h4, h5, h6, h7, -⟩ := h
  have d1 : k1.x.val - k0.x.val ≠ 0 := sub_ne_zero.mpr n1
  have d2 : k2.x.val - k1.x.val ≠ 0 := sub_ne_zero.mpr n2
  simp only [prodP64, slopeP64, FloatLike.sub, FloatLike.div, FloatLike.mul, P64.inp, rnd64_ne_zero]
  simp only [a0, a1, a2, a3, a4, a5, d1, d2, h1, h2, h3, h4, h5, h6, h7, and_self, ne_eq, not_false_eq_true]

/-- the `r` component of the tested product -/
theorem prodP64_r (k0 k1 k2 : Knot F64) :
    (prodP64 ln exp k0 k1 k2).r =
      rnd64 (rnd64 (rnd64 (k1.y.val - k0.y.val) / rnd64 (k1.x.val - k0.x.val)) *
        rnd64 (rnd64 (k2.y.val - k1.y.val) / rnd64 (k2.x.val - k1.x.val))) := rfl

/-- the `else` branch is `ok` when the product is positive -/
theorem fdx_harm_ok (k0 k1 k2 : Knot F64) (h : FdxOk64 k0 k1 k2) (hpos : 0 < (prodP64 ln exp k0 k1 k2).r) :
    (harmP64 ln exp k0 k1 k2).ok := by
  rw [prodP64_r, rnd64_pos] at hpos
  simp only [FdxOk64, FC] at h
  obtain ⟨⟨a0, a1, a2, a3, a4, a5⟩, n1, n2, h1, h2, h3, h4, h5, h6, h7, hh⟩ := h
  obtain ⟨h8, h9, h10, h11⟩ := hh hpos
  have d1 : k1.x.val - k0.x.val ≠ 0 := sub_ne_zero.mpr n1
  have d2 : k2.x.val - k1.x.val ≠ 0 := sub_ne_zero.mpr n2
  generalize hs1 : rnd64 (rnd64 (k1.y.val - k0.y.val) / rnd64 (k1.x.val - k0.x.val)) = s01 at *
  generalize hs2 : rnd64 (rnd64 (k2.y.val - k1.y.val) / rnd64 (k2.x.val - k1.x.val)) = s12 at *
  have z1 : s01 ≠ 0 := fun e => by rw [e, zero_mul] at hpos; exact lt_irrefl _ hpos
  have z2 : s12 ≠ 0 := fun e => by rw [e, mul_zero] at hpos; exact lt_irrefl _ hpos
  have zs : rnd64 (1 / s01) + rnd64 (1 / s12) ≠ 0 := by
    rcases mul_pos_iff.mp hpos with ⟨p1, p2⟩ | ⟨p1, p2⟩
    · have := rnd64_pos.mpr (one_div_pos.mpr p1)
      have := rnd64_pos.mpr (one_div_pos.mpr p2)
      linarith
    · have q1 : rnd64 (1 / s01) < 0 := (M64.rnd_neg_iff (t := 1 / s01)).mpr (one_div_neg.mpr p1)
      have q2 : rnd64 (1 / s12) < 0 := (M64.rnd_neg_iff (t := 1 / s12)).mpr (one_div_neg.mpr p2)
      linarith
  simp only [harmP64, slopeP64, FloatLike.sub, FloatLike.div, FloatLike.add, FloatLike.recip, FloatLike.ofDec, P64.inp,
    rnd64_ne_zero, lit1, lit2, inr1, inr2, true_and, hs1, hs2]
  simp only [a0, a1, a2, a3, a4, a5, d1, d2, h1, h2, h3, h4, h5, h6, h8, h9, h10, h11, z1, z2, zs, and_self,
    ne_eq, not_false_eq_true]

/-- **same branch**: under `FdxOk64` the bit-exact test `slope01 * slope12 <= 0.0` is the test of the
`Rounded M64` run -/
theorem f_dx_same_branch (k0 k1 k2 : Knot F64) (h : FdxOk64 k0 k1 k2) :
    F64.le (prodP64 ln exp k0 k1 k2).x (F64.ofDec 0 0) =
      FloatLike.le (⟨(prodP64 ln exp k0 k1 k2).r⟩ : Rounded M64) (FloatLike.ofDec 0 0) :=
  P64.le_same_branch ln exp (prodP64 ln exp k0 k1 k2) (@FloatLike.ofDec P64 (P64.inst ln exp) 0 0)
    (fdx_prod_ok ln exp k0 k1 k2 h) inr0

/-- `.r` is the run at `Rounded M64` (same branch) -/
theorem f_dx_p64_r (k0 k1 k2 : Knot F64) (h : FdxOk64 k0 k1 k2) :
    (f_dxP64 ln exp k0 k1 k2).r = f_dxR64 k0 k1 k2 := by
  have hb := f_dx_same_branch ln exp k0 k1 k2 h
  rw [f_dxP64_eq, apply_ite P64.r]
  unfold f_dxR64 Spline.f_dxRounded Spline.f_dx
  simp only []
  rw [apply_ite Rounded.val]
  exact if_congr (Iff.of_eq (congrArg (· = true) hb)) rfl rfl

/-- the accumulated side condition of the branch taken holds -/
theorem f_dx_p64_ok (k0 k1 k2 : Knot F64) (h : FdxOk64 k0 k1 k2) : (f_dxP64 ln exp k0 k1 k2).ok := by
  have hb := f_dx_same_branch ln exp k0 k1 k2 h
  rw [f_dxP64_eq]
  split
  · exact inr0
  · next hc =>
    apply fdx_harm_ok ln exp k0 k1 k2 h
    rw [hb] at hc
    have hc' : ¬ ((prodP64 ln exp k0 k1 k2).r ≤ rnd64 (((0:ℤ):ℚ) * (10:ℚ) ^ (0:ℤ))) := by
      intro hle; exact hc (decide_eq_true hle)
    rw [lit0] at hc'
    exact not_le.mp hc'

/-- **transfer for `Spline.f_dx`**: under `FdxOk64` the bit-exact `F64` result is finite, canonical, and its value
is the result of the `Rounded M64` run -/
theorem spline_f_dx_transfer (k0 k1 k2 : Knot F64) (h : FdxOk64 k0 k1 k2) :
    FC (f_dxF64 ln exp k0 k1 k2) ∧ (f_dxF64 ln exp k0 k1 k2).val = f_dxR64 k0 k1 k2 := by
  have t := (f_dxP64 ln exp k0 k1 k2).transfer (f_dx_p64_ok ln exp k0 k1 k2 h)
  rw [f_dx_p64_x, f_dx_p64_r ln exp k0 k1 k2 h] at t
  exact ⟨⟨t.1, t.2.1⟩, t.2.2⟩

/-- the tracked slope is `ok` as soon as the abscissae differ (its only division is by `x_b − x_a`) -/
theorem slopeTr_ok (ka kb : Knot ℚ) (hne : kb.x ≠ ka.x) : (Spline.slopeTr M64 ka kb).ok := by
  have hdx : Tr.rb M64 ((Tr.inp M64 kb.x).e - (Tr.inp M64 ka.x).e) ((Tr.inp M64 kb.x).b + (Tr.inp M64 ka.x).b)
      < |(Tr.inp M64 kb.x).e - (Tr.inp M64 ka.x).e| := by
    show 0 + 0 + M64.u * (|kb.x - ka.x| + (0 + 0)) < |kb.x - ka.x|
    have := Tr.lit_margin M64 (kb.x - ka.x) (sub_ne_zero.mpr hne)
    simpa using this
  exact ⟨⟨trivial, trivial⟩, ⟨trivial, trivial⟩, hdx⟩

/-- **`Spline.f_dx`, bit-exact**: under `FdxOk64` and the side conditions of the tracked run (`hok`: the divisors of
the tracked run are bounded away from 0; `s01`, `s12`: both slopes have certified signs, so that the rounded run takes
the branch of the exact run) the `F64` result is within the certified bound `.b` of the exact rational value -/
theorem spline_f_dx_f64_bound (k0 k1 k2 : Knot F64) (h : FdxOk64 k0 k1 k2)
    (hok : (Spline.f_dxTr M64 (k0.mapF F64.val) (k1.mapF F64.val) (k2.mapF F64.val)).ok)
    (s01 : (Spline.slopeTr M64 (k0.mapF F64.val) (k1.mapF F64.val)).b
      < |(Spline.slopeTr M64 (k0.mapF F64.val) (k1.mapF F64.val)).e|)
    (s12 : (Spline.slopeTr M64 (k1.mapF F64.val) (k2.mapF F64.val)).b
      < |(Spline.slopeTr M64 (k1.mapF F64.val) (k2.mapF F64.val)).e|) :
    |(f_dxF64 ln exp k0 k1 k2).val - Spline.f_dx (F := ℚ) (k0.mapF F64.val) (k1.mapF F64.val) (k2.mapF F64.val)|
      ≤ (Spline.f_dxTr M64 (k0.mapF F64.val) (k1.mapF F64.val) (k2.mapF F64.val)).b := by
  rw [(spline_f_dx_transfer ln exp k0 k1 k2 h).2]
  exact f_dx_tracked M64 _ _ _ hok (slopeTr_ok _ _ h.2.1) (slopeTr_ok _ _ h.2.2.1) s01 s12

/-! ## 3. `Linear.segment` -/

@[reducible] def linearF64 (k0 k1 : Knot F64) : Segment F64 (Poly1 F64) :=
  @Linear.segment F64 (F64.inst ln exp) k0 k1

@[reducible] noncomputable def linearP64 (k0 k1 : Knot F64) : Segment P64 (Poly1 P64) :=
  @Linear.segment P64 (P64.inst ln exp) (k0.mapF P64.inp) (k1.mapF P64.inp)

@[reducible] noncomputable def linearR64 (k0 k1 : Knot F64) : Segment (Rounded M64) (Poly1 (Rounded M64)) :=
  Linear.segment (k0.mapF F64.toRounded) (k1.mapF F64.toRounded)

/-- `dx = x₁ − x₀`, paired -/
@[reducible] noncomputable def dxP64 (k0 k1 : Knot F64) : P64 :=
  @FloatLike.sub P64 (P64.inst ln exp) (P64.inp k1.x) (P64.inp k0.x)

/-- the slope on the `else` branch, paired -/
@[reducible] noncomputable def pvP64 (k0 k1 : Knot F64) : P64 :=
  @FloatLike.div P64 (P64.inst ln exp)
    (@FloatLike.sub P64 (P64.inst ln exp) (P64.inp k1.y) (P64.inp k0.y)) (dxP64 ln exp k0 k1)

theorem linearP64_eq (k0 k1 : Knot F64) :
    linearP64 ln exp k0 k1 =
      if F64.lt (dxP64 ln exp k0 k1).x F64.epsilon = true
      then @linearTail P64 (P64.inst ln exp) (k0.mapF P64.inp) (k1.mapF P64.inp)
        (@FloatLike.ofDec P64 (P64.inst ln exp) 0 0)
      else @linearTail P64 (P64.inst ln exp) (k0.mapF P64.inp) (k1.mapF P64.inp) (pvP64 ln exp k0 k1) := by
  unfold linearP64
  rw [@linear_eq_tail P64 (P64.inst ln exp)]
  exact apply_ite _ _ _ _

theorem linearF64_eq (k0 k1 : Knot F64) :
    linearF64 ln exp k0 k1 =
      if F64.lt (dxP64 ln exp k0 k1).x F64.epsilon = true
      then @linearTail F64 (F64.inst ln exp) k0 k1 (F64.ofDec 0 0)
      else @linearTail F64 (F64.inst ln exp) k0 k1 (pvP64 ln exp k0 k1).x := by
  unfold linearF64
  rw [@linear_eq_tail F64 (F64.inst ln exp)]
  exact apply_ite _ _ _ _

theorem linearR64_eq (k0 k1 : Knot F64) :
    linearR64 k0 k1 =
      if FloatLike.lt (⟨(dxP64 ln exp k0 k1).r⟩ : Rounded M64) (FloatLike.epsilon : Rounded M64) = true
      then linearTail (k0.mapF F64.toRounded) (k1.mapF F64.toRounded) (FloatLike.ofDec 0 0 : Rounded M64)
      else linearTail (k0.mapF F64.toRounded) (k1.mapF F64.toRounded) (⟨(pvP64 ln exp k0 k1).r⟩ : Rounded M64) := by
  unfold linearR64
  rw [linear_eq_tail]
  exact apply_ite _ _ _ _


/-- transfer for the straight-line tail (`indefinite`, `evaluate`, `translate`), for any paired slope `pv` -/
theorem linearTail_transfer (k0 k1 : Knot F64) (pv : P64) (hpv : pv.ok) (hx0 : FC k0.x) (hy0 : FC k0.y)
    (h1 : InRange (pv.r * k0.x.val + 0)) (h2 : InRange (k0.y.val - rnd64 (pv.r * k0.x.val + 0)))
    (h3 : InRange (0 + rnd64 (k0.y.val - rnd64 (pv.r * k0.x.val + 0)))) :
    let S := @linearTail F64 (F64.inst ln exp) k0 k1 pv.x
    let R := linearTail (k0.mapF F64.toRounded) (k1.mapF F64.toRounded) (⟨pv.r⟩ : Rounded M64)
    (FC S.poly._0.a0 ∧ S.poly._0.a0.val = R.poly._0.a0.val) ∧
    (FC S.poly._0.a1 ∧ S.poly._0.a1.val = R.poly._0.a1.val) := by
  have ok0 : (@linearTail P64 (P64.inst ln exp) (k0.mapF P64.inp) (k1.mapF P64.inp) pv).poly._0.a0.ok := by
    simp only [FC] at hx0 hy0
    simp only [pp_model, HasIntegral.indefinite, Translate.translate, Evaluate.evaluate,
      PAddAssign.addAssign, PSub.sub, FloatLike.add, FloatLike.sub, FloatLike.fma, FloatLike.ofDec, P64.inp,
      lit0, inr0, true_and]
    simp only [hpv, hx0, hy0, h1, h2, h3, and_self]
  have t0 := (@linearTail P64 (P64.inst ln exp) (k0.mapF P64.inp) (k1.mapF P64.inp) pv).poly._0.a0.transfer ok0
  have t1 := pv.transfer hpv
  exact ⟨⟨⟨t0.1, t0.2.1⟩, t0.2.2⟩, ⟨⟨t1.1, t1.2.1⟩, t1.2.2⟩⟩

/-- **the side condition of `Linear.segment`, explicitly** (`pv` is the slope chosen by the branch) -/
def LinearOk64 (k0 k1 : Knot F64) : Prop :=
  let x0 := k0.x.val; let y0 := k0.y.val; let x1 := k1.x.val; let y1 := k1.y.val
  let dx := rnd64 (x1 - x0)
  let pv := if dx < (2:ℚ) ^ (-52 : ℤ) then 0 else rnd64 (rnd64 (y1 - y0) / dx)
  let t := rnd64 (pv * x0 + 0)
  let v := rnd64 (y0 - t)
  (FC k0.x ∧ FC k0.y ∧ FC k1.x ∧ FC k1.y) ∧ InRange (x1 - x0) ∧
  (¬ dx < (2:ℚ) ^ (-52 : ℤ) → InRange (y1 - y0) ∧ InRange (rnd64 (y1 - y0) / dx)) ∧
  InRange (pv * x0 + 0) ∧ InRange (y0 - t) ∧ InRange (0 + v)

theorem dxP64_ok (k0 k1 : Knot F64) (h : LinearOk64 k0 k1) : (dxP64 ln exp k0 k1).ok := by
  simp only [LinearOk64, FC] at h
  exact ⟨h.1.2.2.1, h.1.1, h.2.1⟩

/-- **same branch**: under `LinearOk64` the bit-exact test `dx < f64::EPSILON` is the test of the `Rounded M64` run,
i.e. `rnd64 (x₁ − x₀) < 2⁻⁵²` -/
theorem linear_segment_same_branch (k0 k1 : Knot F64) (h : LinearOk64 k0 k1) :
    F64.lt (dxP64 ln exp k0 k1).x F64.epsilon =
      FloatLike.lt (⟨(dxP64 ln exp k0 k1).r⟩ : Rounded M64) (FloatLike.epsilon : Rounded M64) :=
  P64.lt_same_branch ln exp (dxP64 ln exp k0 k1) (@FloatLike.epsilon P64 (P64.inst ln exp))
    (dxP64_ok ln exp k0 k1 h) trivial

/-- **transfer for `Linear.segment`**: under `LinearOk64` both coefficients of the bit-exact `F64` run are finite,
canonical and their values are the coefficients of the `Rounded M64` run; `end` is `x₁` itself -/
theorem linear_segment_transfer (k0 k1 : Knot F64) (h : LinearOk64 k0 k1) :
    let S := linearF64 ln exp k0 k1
    let R := linearR64 k0 k1
    (FC S.poly._0.a0 ∧ S.poly._0.a0.val = R.poly._0.a0.val) ∧
    (FC S.poly._0.a1 ∧ S.poly._0.a1.val = R.poly._0.a1.val) ∧
    S.«end» = k1.x ∧ S.«end».val = R.«end».val := by
  have hb := linear_segment_same_branch ln exp k0 k1 h
  have hdx := dxP64_ok ln exp k0 k1 h
  simp only [LinearOk64, FC] at h
  obtain ⟨⟨a0, a1, a2, a3⟩, h1, h2, h3, h4, h5⟩ := h
  simp only []
  rw [linearF64_eq, linearR64_eq ln exp, hb]
  by_cases hc : FloatLike.lt (⟨(dxP64 ln exp k0 k1).r⟩ : Rounded M64) (FloatLike.epsilon : Rounded M64) = true
  · have hc' : rnd64 (k1.x.val - k0.x.val) < (2:ℚ) ^ (-52 : ℤ) := of_decide_eq_true hc
    rw [if_pos hc, if_pos hc]
    rw [if_pos hc'] at h3 h4 h5
    have := linearTail_transfer ln exp k0 k1 (@FloatLike.ofDec P64 (P64.inst ln exp) 0 0) inr0 a0 a1
      (by show InRange (rnd64 _ * _ + 0); rw [lit0]; exact h3)
      (by show InRange (_ - rnd64 (rnd64 _ * _ + 0)); rw [lit0]; exact h4)
      (by show InRange (0 + rnd64 (_ - rnd64 (rnd64 _ * _ + 0))); rw [lit0]; exact h5)
    exact ⟨this.1, this.2, rfl, rfl⟩
  · have hc' : ¬ rnd64 (k1.x.val - k0.x.val) < (2:ℚ) ^ (-52 : ℤ) := fun hlt => hc (decide_eq_true hlt)
    rw [if_neg hc, if_neg hc]
    rw [if_neg hc'] at h3 h4 h5
    obtain ⟨h2a, h2b⟩ := h2 hc'
    have hne : rnd64 (k1.x.val - k0.x.val) ≠ 0 := by
      intro e; rw [e] at hc'; exact hc' (by positivity)
    have hpv : (pvP64 ln exp k0 k1).ok := ⟨⟨a3, a1, h2a⟩, hdx, hne, h2b⟩
    have := linearTail_transfer ln exp k0 k1 (pvP64 ln exp k0 k1) hpv a0 a1 h3 h4 h5
    exact ⟨this.1, this.2, rfl, rfl⟩

/-! ## 4. `Hand.polyNEvaluate` (dynamic degree, Horner loop) -/

@[reducible] def polyNF64 (cs : List F64) (x : F64) : F64 :=
  @Hand.polyNEvaluate F64 (F64.inst ln exp) ⟨cs⟩ x

@[reducible] noncomputable def polyNP64 (cs : List F64) (x : F64) : P64 :=
  @Hand.polyNEvaluate P64 (P64.inst ln exp) ⟨cs.map P64.inp⟩ (P64.inp x)

/-- the side condition of the Horner loop from the accumulator value `acc` on: each remaining coefficient is finite
and canonical and each exact `acc·x + e` is `0` or in the normal range -/
def HornerOk64 (x : F64) : ℚ → List F64 → Prop
  | _, [] => True
  | acc, e :: rest => FC e ∧ InRange (acc * x.val + e.val) ∧ HornerOk64 x (rnd64 (acc * x.val + e.val)) rest

/-- **the side condition of `PolyN::evaluate`**, by recursion over the coefficient list (highest degree first) -/
def PolyNOk64 (cs : List F64) (x : F64) : Prop :=
  match cs.reverse with
  | [] => True
  | first :: rest => FC x ∧ FC first ∧ HornerOk64 x first.val rest

/-- the loop, paired: projections and `ok` by induction over the remaining coefficients -/
theorem horner_p64 (x : F64) (hx : FC x) (rest : List F64) (acc : P64) (hacc : acc.ok)
    (h : HornerOk64 x acc.r rest) :
    let P := (rest.map P64.inp).foldl (fun a e => @FloatLike.fma P64 (P64.inst ln exp) a (P64.inp x) e) acc
    P.ok ∧ P.x = rest.foldl (fun a e => F64.fma a x e) acc.x ∧
      P.r = rest.foldl (fun a e => rnd64 (a * x.val + e.val)) acc.r := by
  induction rest generalizing acc with
  | nil => exact ⟨hacc, rfl, rfl⟩
  | cons e rest ih =>
    obtain ⟨he, hr, hrest⟩ := h
    exact ih (@FloatLike.fma P64 (P64.inst ln exp) acc (P64.inp x) (P64.inp e)) ⟨hacc, hx, he, hr⟩ hrest


/-- the loop at `Rounded M64` on the values is the fold of `a ↦ rnd64 (a·x + e)` -/
theorem horner_rounded (x : F64) (rest : List F64) (acc : Rounded M64) :
    ((rest.map F64.toRounded).foldl (fun a e => FloatLike.fma a (⟨x.val⟩ : Rounded M64) e) acc).val =
      rest.foldl (fun a e => rnd64 (a * x.val + e.val)) acc.val := by
  induction rest generalizing acc with
  | nil => rfl
  | cons e rest ih => exact ih _

/-- the `Rounded M64` run of `PolyN::evaluate` on the values, as a fold -/
theorem polyN_rounded_eq (cs : List F64) (x : F64) (first : F64) (rest : List F64)
    (hrev : cs.reverse = first :: rest) :
    PolyN.evalRounded M64 (cs.map F64.val) x.val = rest.foldl (fun a e => rnd64 (a * x.val + e.val)) first.val := by
  have h1 : (cs.map F64.val).map (Rounded.mk (M := M64)) = cs.map F64.toRounded := by
    rw [List.map_map]; rfl
  show (Hand.polyNEvaluate (⟨(cs.map F64.val).map Rounded.mk⟩ : PolyN (Rounded M64)) ⟨x.val⟩).val = _
  rw [h1, Hand.polyNEvaluate_map F64.toRounded cs _ first rest hrev, horner_rounded]

/-- `.x` / `.r` projections and `ok` of the paired run of `PolyN::evaluate` (non-empty coefficient list) -/
theorem polyN_p64 (cs : List F64) (x : F64) (first : F64) (rest : List F64) (hrev : cs.reverse = first :: rest)
    (h : PolyNOk64 cs x) :
    (polyNP64 ln exp cs x).ok ∧ (polyNP64 ln exp cs x).x = polyNF64 ln exp cs x ∧
      (polyNP64 ln exp cs x).r = PolyN.evalRounded M64 (cs.map F64.val) x.val := by
  unfold PolyNOk64 at h
  rw [hrev] at h
  obtain ⟨hx, hf, hh⟩ := h
  have hP : polyNP64 ln exp cs x = (rest.map P64.inp).foldl
      (fun a e => @FloatLike.fma P64 (P64.inst ln exp) a (P64.inp x) e) (P64.inp first) :=
    @Hand.polyNEvaluate_map F64 P64 (P64.inst ln exp) P64.inp cs (P64.inp x) first rest hrev
  have hF : polyNF64 ln exp cs x = rest.foldl (fun a e => F64.fma a x e) first := by
    simp only [polyNF64, Hand.polyNEvaluate, hrev]; rfl
  obtain ⟨ok, ex, er⟩ := horner_p64 ln exp x hx rest (P64.inp first) hf hh
  rw [hP, hF, polyN_rounded_eq cs x first rest hrev]
  exact ⟨ok, ex, er⟩

/-- **transfer for `PolyN::evaluate`** (any number of coefficients, the empty list included): under `PolyNOk64` the
bit-exact `F64` result is finite, canonical, and its value is the result of the `Rounded M64` run -/
theorem polyN_transfer (cs : List F64) (x : F64) (h : PolyNOk64 cs x) :
    FC (polyNF64 ln exp cs x) ∧ (polyNF64 ln exp cs x).val = PolyN.evalRounded M64 (cs.map F64.val) x.val := by
  rcases hrev : cs.reverse with _ | ⟨first, rest⟩
  · have hcs : cs = [] := List.reverse_eq_nil_iff.mp hrev
    subst hcs
    have t := F64.val_ofDec_int 0 (by decide)
    refine ⟨⟨t.1, t.2.1⟩, ?_⟩
    show (F64.ofDec 0 0).val = _
    rw [t.2.2, List.map_nil, PP.Props.C01Bound.polyN_rounding_empty]; norm_num
  · obtain ⟨ok, ex, er⟩ := polyN_p64 ln exp cs x first rest hrev h
    have t := (polyNP64 ln exp cs x).transfer ok
    rw [ex, er] at t
    exact ⟨⟨t.1, t.2.1⟩, t.2.2⟩

/-- **`PolyN::evaluate`, bit-exact**: for `n+1` coefficients, under `PolyNOk64`, the `F64` result of the Horner loop
is within `4(n+2)·2⁻⁵³·Σ|cᵢ||x|ⁱ` of `Σcᵢxⁱ` -/
theorem polyN_f64_bound (cs : List F64) (x : F64) (n : ℕ) (hlen : cs.length = n + 1) (hn : n ≤ 2 ^ 52)
    (h : PolyNOk64 cs x) :
    FC (polyNF64 ln exp cs x) ∧
    |(polyNF64 ln exp cs x).val - PP.Props.C01.polySum (cs.map F64.val) x.val|
      ≤ 4 * (n + 2) * (2 : ℚ) ^ (-53 : ℤ) * PP.Props.C01.polySum ((cs.map F64.val).map abs) |x.val| := by
  obtain ⟨hfc, hv⟩ := polyN_transfer ln exp cs x h
  refine ⟨hfc, ?_⟩
  rw [hv]
  exact PP.Props.C01Bound.polyN_rounding_c01 M64 (le_refl _) (cs.map F64.val) x.val n
    (by rw [List.length_map]; exact hlen) hn

end programs

/-! ## non-vacuity: every side condition is satisfiable by a concrete, non-trivial instance -/
section examples
noncomputable local instance : Transc ℚ := ⟨fun x => x, fun x => x⟩
attribute [local instance] exactFL

theorem rnd_int' (n : ℤ) (hn : n.natAbs ≤ 2 ^ 53) (t : ℚ) (ht : t = n) : rnd64 t = t :=
  ht ▸ F64.rnd64_int n hn
theorem inr_int' (n : ℤ) (hn : n.natAbs ≤ 2 ^ 53) (t : ℚ) (ht : t = n) : InRange t :=
  ht ▸ F64.inRange_int n hn

theorem e0 : rnd64 0 = 0 := rnd_int' 0 (by decide) _ (by norm_num)
theorem e1 : rnd64 1 = 1 := rnd_int' 1 (by decide) _ (by norm_num)
theorem e2 : rnd64 2 = 2 := rnd_int' 2 (by decide) _ (by norm_num)
theorem e3 : rnd64 3 = 3 := rnd_int' 3 (by decide) _ (by norm_num)
theorem e4 : rnd64 4 = 4 := rnd_int' 4 (by decide) _ (by norm_num)
theorem e5 : rnd64 5 = 5 := rnd_int' 5 (by decide) _ (by norm_num)
theorem e6 : rnd64 6 = 6 := rnd_int' 6 (by decide) _ (by norm_num)
theorem e7 : rnd64 7 = 7 := rnd_int' 7 (by decide) _ (by norm_num)
theorem em1 : rnd64 (-1) = -1 := rnd_int' (-1) (by decide) _ (by norm_num)
theorem i0 : InRange 0 := inr_int' 0 (by decide) _ (by norm_num)
theorem i1 : InRange 1 := inr_int' 1 (by decide) _ (by norm_num)
theorem i2 : InRange 2 := inr_int' 2 (by decide) _ (by norm_num)
theorem i3 : InRange 3 := inr_int' 3 (by decide) _ (by norm_num)
theorem i4 : InRange 4 := inr_int' 4 (by decide) _ (by norm_num)
theorem i5 : InRange 5 := inr_int' 5 (by decide) _ (by norm_num)
theorem i6 : InRange 6 := inr_int' 6 (by decide) _ (by norm_num)
theorem i7 : InRange 7 := inr_int' 7 (by decide) _ (by norm_num)
theorem im1 : InRange (-1) := inr_int' (-1) (by decide) _ (by norm_num)

theorem fc_int (n : ℤ) (hn : n.natAbs ≤ 2 ^ 53) : FC (F64.ofDec n 0) :=
  ⟨(F64.val_ofDec_int n hn).1, (F64.val_ofDec_int n hn).2.1⟩
theorem val_int (n : ℤ) (hn : n.natAbs ≤ 2 ^ 53) : (F64.ofDec n 0).val = n := (F64.val_ofDec_int n hn).2.2


theorem e18 : rnd64 18 = 18 := rnd_int' 18 (by decide) _ (by norm_num)
theorem e52 : rnd64 52 = 52 := rnd_int' 52 (by decide) _ (by norm_num)
theorem i18 : InRange 18 := inr_int' 18 (by decide) _ (by norm_num)
theorem i52 : InRange 52 := inr_int' 52 (by decide) _ (by norm_num)
theorem i157 : InRange 157 := inr_int' 157 (by decide) _ (by norm_num)

/-! ### 1. `Spline.segment`: knots (1,0), (2,2) with end slopes 1 and 3 — the exact cubic is x² − x -/

theorem exSegment : SegmentOk64 (F64.ofDec 1 0) ⟨F64.ofDec 1 0, F64.ofDec 0 0⟩ (F64.ofDec 3 0) ⟨F64.ofDec 2 0, F64.ofDec 2 0⟩ := by
  have v0 := val_int 0 (by decide)
  have v1 := val_int 1 (by decide)
  have v2 := val_int 2 (by decide)
  have v3 := val_int 3 (by decide)
  simp only [SegmentOk64, v0, v1, v2, v3, fc_int 0 (by decide), fc_int 1 (by decide), fc_int 2 (by decide),
    fc_int 3 (by decide), and_self, true_and]
  norm_num [e0, e1, e2, e3, e4, e5, e6, e7, em1, i0, i1, i2, i3, i4, i5, i6, i7, im1, rnd_half]

example (ln exp : F64 → F64) := spline_segment_transfer ln exp _ _ _ _ exSegment
example (ln exp : F64 → F64) := spline_segment_f64_bound ln exp _ _ _ _ exSegment

/-! ### 2. `Spline.f_dx`: knots (0,0), (2,1), (3,2) — slopes 1/2 and 1, `else` branch, harmonic mean 2/3 -/

theorem i23 : InRange ((2:ℚ) / 3) := inRange_of_small (by norm_num) (by norm_num)

theorem exFdx : FdxOk64 ⟨F64.ofDec 0 0, F64.ofDec 0 0⟩ ⟨F64.ofDec 2 0, F64.ofDec 1 0⟩ ⟨F64.ofDec 3 0, F64.ofDec 2 0⟩ := by
  have v0 := val_int 0 (by decide)
  have v1 := val_int 1 (by decide)
  have v2 := val_int 2 (by decide)
  have v3 := val_int 3 (by decide)
  simp only [FdxOk64, v0, v1, v2, v3, fc_int 0 (by decide), fc_int 1 (by decide), fc_int 2 (by decide),
    fc_int 3 (by decide), and_self, true_and]
  norm_num [e0, e1, e2, e3, i0, i1, i2, i3, rnd_half, inr_half, i23]

local macro "tr_eval" : tactic =>
  `(tactic| (unfold Spline.slopeTr; exact_simp; simp [Tr.inp, M64_u, Tr.rb, Tr.db]; try norm_num))

example (ln exp : F64 → F64) :
    |(f_dxF64 ln exp ⟨F64.ofDec 0 0, F64.ofDec 0 0⟩ ⟨F64.ofDec 2 0, F64.ofDec 1 0⟩ ⟨F64.ofDec 3 0, F64.ofDec 2 0⟩).val
        - Spline.f_dx (F := ℚ) ⟨0, 0⟩ ⟨2, 1⟩ ⟨3, 2⟩|
      ≤ (Spline.f_dxTr M64 ⟨0, 0⟩ ⟨2, 1⟩ ⟨3, 2⟩).b := by
  have v0 := val_int 0 (by decide)
  have v1 := val_int 1 (by decide)
  have v2 := val_int 2 (by decide)
  have v3 := val_int 3 (by decide)
  have := spline_f_dx_f64_bound ln exp _ _ _ exFdx
  simp only [Knot.mapF, v0, v1, v2, v3] at this
  norm_num at this
  apply this
  · unfold Spline.f_dxTr Spline.f_dx
    exact_simp
    simp [Tr.inp, M64_u, Tr.rb, Tr.db, FloatLike.le]
    norm_num
  · tr_eval
  · tr_eval

/-! ### 3. `Linear.segment`: both branches -/

/-- `else` branch: knots (1,2), (3,6), slope 2 -/
theorem exLinear : LinearOk64 ⟨F64.ofDec 1 0, F64.ofDec 2 0⟩ ⟨F64.ofDec 3 0, F64.ofDec 6 0⟩ := by
  have v1 := val_int 1 (by decide)
  have v2 := val_int 2 (by decide)
  have v3 := val_int 3 (by decide)
  have v6 := val_int 6 (by decide)
  simp only [LinearOk64, v1, v2, v3, v6, fc_int 1 (by decide), fc_int 2 (by decide), fc_int 3 (by decide),
    fc_int 6 (by decide), and_self, true_and]
  norm_num [e0, e1, e2, e3, e4, i0, i1, i2, i3, i4]

/-- `then` branch (`dx < EPSILON`): knots (1,2), (1,5), slope forced to 0 -/
theorem exLinearFlat : LinearOk64 ⟨F64.ofDec 1 0, F64.ofDec 2 0⟩ ⟨F64.ofDec 1 0, F64.ofDec 5 0⟩ := by
  have v1 := val_int 1 (by decide)
  have v2 := val_int 2 (by decide)
  have v5 := val_int 5 (by decide)
  simp only [LinearOk64, v1, v2, v5, fc_int 1 (by decide), fc_int 2 (by decide), fc_int 5 (by decide),
    and_self, true_and]
  norm_num [e0, e1, e2, i0, i1, i2]

example (ln exp : F64 → F64) := linear_segment_transfer ln exp _ _ exLinear
example (ln exp : F64 → F64) := linear_segment_transfer ln exp _ _ exLinearFlat

/-! ### 4. `PolyN::evaluate`: 5x³ + 3x² − 2x + 1 at x = 3 (Horner values 5, 18, 52, 157) -/

theorem exPolyN : PolyNOk64 [F64.ofDec 1 0, F64.ofDec (-2) 0, F64.ofDec 3 0, F64.ofDec 5 0] (F64.ofDec 3 0) := by
  have v1 := val_int 1 (by decide)
  have vm2 := val_int (-2) (by decide)
  have v3 := val_int 3 (by decide)
  have v5 := val_int 5 (by decide)
  simp only [PolyNOk64, HornerOk64, List.reverse_cons, List.reverse_nil, List.nil_append, List.cons_append,
    v1, vm2, v3, v5, fc_int 1 (by decide), fc_int (-2) (by decide), fc_int 3 (by decide),
    fc_int 5 (by decide), true_and, and_true]
  norm_num [e18, e52, i18, i52, i157]

example (ln exp : F64 → F64) := polyN_f64_bound ln exp _ _ 3 rfl (by norm_num) exPolyN

end examples

end PP.Props.IEEEPrograms
