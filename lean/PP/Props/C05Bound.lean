import PP.Props.C04Bound
import PP.Props.C05
/-!
# C05 — monotonicity / range / zero slope of the constrained spline: the FLOATING-POINT part

`PP/Props/C05.lean` proves C05 for the generated code read in exact arithmetic.  This file proves the clauses
"… the spline is monotone and stays between the two knot ordinates for every x of the interval **(up to the
construction's rounding bound)**, and its slope at an interior knot is zero **(to the same bound)** whenever the two
adjacent secant slopes differ in sign or either is zero" for the same generated code run in rounded arithmetic
`Rounded M`, for every `M : RModel K` (any linearly ordered field `K`) with `M.u ≤ 2⁻⁵³`.

## What is ASSUMED
The standard model (no underflow / overflow; `|rnd t − t| ≤ u|t|`, `u ≤ 2⁻⁵³`; literals rounded; comparisons exact),
exact knots with strictly increasing abscissae — exactly as in `PP/Props/C04Bound.lean`.  For the single-segment
theorems additionally: the two given end slopes lie in the monotonicity region of `C05.segment_monotone`
(`Btw0 (3s) f`, between `0` and three times the secant slope).  For the whole spline NOTHING more: the *computed*
slopes are proved to lie in that region (`slopeHat_region`).  No well-conditioning hypothesis.

## Results (`S = segMag`, `S' = segMagD` of `PP/Lemmas/SplineFP.lean`: the magnitudes of the terms of the cubic /
## of its derivative at `x`, for the slopes actually used; `S(x) ≤ |y₀| + 2|s|X + 52(|s|+|f0|+|f1|)X³/h²`)
5. `monotoneBetween_perturb` (generic: a cubic within `B`, `B'` of a `C05.MonotoneBetween` cubic is
   `MonotoneBetweenUpTo B B'`);
   `segment_range_rounding`: the computed cubic `p̂` of `segment f0 k0 f1 k1` is `MonotoneBetweenUpTo` with
   `B(x) = 30.001·u·S(x)`, `B'(x) = 26.001·u·S'(x)`, i.e. for every `x ∈ [x₀,x₁]`:
   `min y − B(x) ≤ p̂(x) ≤ max y + B(x)`, `p̂'(x) ≥ −B'(x)` (rising data) / `≤ B'(x)` (falling data), and
   `p̂(x) ≤ p̂(x') + B(x) + B(x')` for `x ≤ x'` (rising; symmetric for falling);
   `segment_range_rounding_eval`: the generated `evaluate` in `Rounded M` stays in `[min y − 32.001·u·S(x), max y + …]`
   and is monotone up to `32.001·u·(S(x)+S(x'))`;
   `segment_range_uniform`: on the whole interval `B(x) ≤ 30.001·u·S(X)`, `X = max |x₀| |x₁|`.
6. `interior_slope_zero_rounded`: under C05's hypothesis (adjacent secant slopes of different sign, or one zero) the
   computed interior slope is EXACTLY `0`: the clause holds with bound `0`;
   `spline_slope_zero_rounding`: and the two computed cubics meeting there have derivative at most `26.001·u·S'`
   (exact derivative) / `28.001·u·S'` (generated code) in absolute value at that knot.
7. `slopeHat_region`: the slopes computed by the rounded run lie in the monotonicity region of the *exact* theorem;
   `spline_range_rounding`: hence every piece of the rounded spline is `MonotoneBetweenUpTo` on its interval with the
   bounds of (5), and `spline_range_rounding_eval` for the generated evaluation.
Non-vacuity: section `examples` (model `RModel.m53`).
-/
set_option linter.unusedSectionVars false
set_option linter.unusedVariables false
namespace PP.Props.C05Bound
open Hand PP.Spline PP.Lemmas.Rounding PP.Lemmas.SplineFP PP.Props.C04 PP.Props.C05 PP.Props.C04Bound

section main
variable {K : Type} [Field K] [LinearOrder K] [IsStrictOrderedRing K] [Transc K] (M : RModel K)
attribute [local instance] exactFL

/-! ## 5. range and monotonicity up to the rounding bound -/

/-- `C05.MonotoneBetween` up to the bounds `B` (values) and `B'` (derivative): for every `x` of `[k0.x, k1.x]` the
derivative has the weak sign of `k1.y − k0.y` up to `B' x`, the value stays between the knot ordinates up to `B x`,
and the cubic is monotone up to `B x + B x'`. -/
def MonotoneBetweenUpTo (p : Poly3 K) (k0 k1 : Knot K) (B B' : K → K) : Prop :=
  ∀ x, k0.x ≤ x → x ≤ k1.x →
    (k0.y ≤ k1.y → -B' x ≤ Evaluate.evaluate (HasDerivative.derivative p) x) ∧
    (k1.y ≤ k0.y → Evaluate.evaluate (HasDerivative.derivative p) x ≤ B' x) ∧
    min k0.y k1.y - B x ≤ Evaluate.evaluate p x ∧ Evaluate.evaluate p x ≤ max k0.y k1.y + B x ∧
    ∀ x', x ≤ x' → x' ≤ k1.x →
      (k0.y ≤ k1.y → Evaluate.evaluate p x ≤ Evaluate.evaluate p x' + (B x + B x')) ∧
      (k1.y ≤ k0.y → Evaluate.evaluate p x' ≤ Evaluate.evaluate p x + (B x + B x'))

/-- a cubic `q` within `B` (values) and `B'` (derivative) of a `MonotoneBetween` cubic `p` -/
theorem monotoneBetween_perturb {p q : Poly3 K} {k0 k1 : Knot K} {B B' : K → K}
    (h : MonotoneBetween p k0 k1)
    (hv : ∀ x, |Evaluate.evaluate q x - Evaluate.evaluate p x| ≤ B x)
    (hd : ∀ x, |Evaluate.evaluate (HasDerivative.derivative q) x
      - Evaluate.evaluate (HasDerivative.derivative p) x| ≤ B' x) :
    MonotoneBetweenUpTo q k0 k1 B B' := by
  intro x hx0 hx1
  obtain ⟨d1, d2, v1, v2, mono⟩ := h x hx0 hx1
  have vx := abs_le.mp (hv x)
  have dx := abs_le.mp (hd x)
  refine ⟨fun hy => by linarith [d1 hy], fun hy => by linarith [d2 hy], by linarith, by linarith, ?_⟩
  intro x' hxx hx1'
  obtain ⟨m1, m2⟩ := mono x' hxx hx1'
  have vx' := abs_le.mp (hv x')
  exact ⟨fun hy => by linarith [m1 hy], fun hy => by linarith [m2 hy]⟩

section seg
variable (hu : M.u ≤ (2 : K) ^ (-53 : ℤ)) (f0 f1 : K) (k0 k1 : Knot K) (hx : k0.x < k1.x)
  (h0 : Btw0 (3 * ((k1.y - k0.y) / (k1.x - k0.x))) f0) (h1 : Btw0 (3 * ((k1.y - k0.y) / (k1.x - k0.x))) f1)
include hu hx h0 h1

/-- **(5) `segment_range_rounding`**: for end slopes in the monotonicity region, the cubic with the COMPUTED
coefficients is monotone / stays between the knot ordinates on `[x₀, x₁]` up to the coefficient-perturbation bounds
`B(x) = 30.001·u·S(x)`, `B'(x) = 26.001·u·S'(x)`. -/
theorem segment_range_rounding :
    MonotoneBetweenUpTo (segPoly M f0 k0 f1 k1) k0 k1
      (fun x => (30 + 1 / 1000) * M.u * segMag |f0| k0 |f1| k1 x)
      (fun x => (26 + 1 / 1000) * M.u * segMagD |f0| k0 |f1| k1 x) :=
  monotoneBetween_perturb (segment_monotone f0 f1 k0 k1 hx h0 h1)
    (fun x => (segment_eval_rounding M hu f0 f1 k0 k1 hx x).1)
    (fun x => (segment_deriv_rounding M hu f0 f1 k0 k1 hx x).1)

/-- **(5) the generated `evaluate` in `Rounded M`** on the computed cubic, at every exact `x` of the interval: it stays
between the knot ordinates and is monotone up to `32.001·u·S` -/
theorem segment_range_rounding_eval (x : K) (hx0 : k0.x ≤ x) (hx1 : x ≤ k1.x) :
    let ev := fun t : K => (Evaluate.evaluate (Spline.segmentRounded M f0 k0 f1 k1).poly (⟨t⟩ : Rounded M)).val
    let B := fun t : K => (32 + 1 / 1000) * M.u * segMag |f0| k0 |f1| k1 t
    min k0.y k1.y - B x ≤ ev x ∧ ev x ≤ max k0.y k1.y + B x ∧
    ∀ x', x ≤ x' → x' ≤ k1.x →
      (k0.y ≤ k1.y → ev x ≤ ev x' + (B x + B x')) ∧ (k1.y ≤ k0.y → ev x' ≤ ev x + (B x + B x')) := by
  intro ev B
  simp only [ev, B]
  obtain ⟨-, -, v1, v2, mono⟩ := segment_monotone f0 f1 k0 k1 hx h0 h1 x hx0 hx1
  have vx := abs_le.mp (segment_eval_rounding M hu f0 f1 k0 k1 hx x).2
  refine ⟨by linarith, by linarith, ?_⟩
  intro x' hxx hx1'
  obtain ⟨m1, m2⟩ := mono x' hxx hx1'
  have vx' := abs_le.mp (segment_eval_rounding M hu f0 f1 k0 k1 hx x').2
  exact ⟨fun hy => by linarith [m1 hy], fun hy => by linarith [m2 hy]⟩

omit h0 h1 in
/-- on the interval the bounds are at most their value at `X = max |x₀| |x₁|` -/
theorem segment_range_uniform (x : K) (hx0 : k0.x ≤ x) (hx1 : x ≤ k1.x) :
    segMag |f0| k0 |f1| k1 x ≤ segMag |f0| k0 |f1| k1 (max |k0.x| |k1.x|) ∧
    segMagD |f0| k0 |f1| k1 x ≤ segMagD |f0| k0 |f1| k1 (max |k0.x| |k1.x|) := by
  have hX : |x| ≤ max |k0.x| |k1.x| := abs_le_max_abs_abs hx0 hx1
  exact ⟨segMag_mono hx (abs_nonneg _) (abs_nonneg _) hX, segMagD_mono hx (abs_nonneg _) (abs_nonneg _) hX⟩

/-- **(5) uniform form**: for every `x ∈ [x₀,x₁]` the computed cubic stays within
`[min y − B, max y + B]`, `B = 30.001·u·S(X)`, `X = max |x₀| |x₁|` (a single number for the interval) -/
theorem segment_range_rounding_uniform (x : K) (hx0 : k0.x ≤ x) (hx1 : x ≤ k1.x) :
    let B := (30 + 1 / 1000) * M.u * segMag |f0| k0 |f1| k1 (max |k0.x| |k1.x|)
    min k0.y k1.y - B ≤ Evaluate.evaluate (segPoly M f0 k0 f1 k1) x ∧
    Evaluate.evaluate (segPoly M f0 k0 f1 k1) x ≤ max k0.y k1.y + B := by
  intro B
  obtain ⟨-, -, v1, v2, -⟩ := segment_range_rounding M hu f0 f1 k0 k1 hx h0 h1 x hx0 hx1
  have hS := (segment_range_uniform M hu f0 f1 k0 k1 hx x hx0 hx1).1
  have hu0 := M.hu
  have : (30 + 1 / 1000) * M.u * segMag |f0| k0 |f1| k1 x ≤ B :=
    mul_le_mul_of_nonneg_left hS (by positivity)
  simp only at v1 v2
  exact ⟨by linarith, by linarith⟩

end seg

/-! ## 6. zero slope where the data turn: no error at all -/

/-- **(6)** under C05's hypothesis the slope computed at the interior knot is EXACTLY `0` -/
theorem interior_slope_zero_rounded (k0 k1 k2 : Knot K) (h01 : k0.x < k1.x) (h12 : k1.x < k2.x)
    (h : ((k1.y - k0.y) / (k1.x - k0.x) ≤ 0 ∧ 0 ≤ (k2.y - k1.y) / (k2.x - k1.x)) ∨
         (0 ≤ (k1.y - k0.y) / (k1.x - k0.x) ∧ (k2.y - k1.y) / (k2.x - k1.x) ≤ 0)) :
    Spline.f_dxRounded M k0 k1 k2 = 0 := by
  refine (f_dx_rounding_zero M k0 k1 k2 h01 h12 ?_).1
  rcases h with h | h
  · exact mul_nonpos_of_nonpos_of_nonneg h.1 h.2
  · exact mul_nonpos_of_nonneg_of_nonpos h.1 h.2


theorem abs_le_of_sub_zero {a f B : K} (hf : f = 0) (h : |a - f| ≤ B) : |a| ≤ B := by
  subst hf; simpa using h

/-- **(6) on the curve**: where the data turn (interior knot `i+1`), the computed slope is exactly `0` and the two
computed cubics meeting there have a derivative of magnitude at most `26.001·u·S'` (exact derivative of the computed
cubic) / `28.001·u·S'` (generated `derivative` + `evaluate` in `Rounded M`) at that knot. -/
theorem spline_slope_zero_rounding (hu : M.u ≤ (2 : K) ^ (-53 : ℤ)) {ks : List (Knot K)}
    {pw : Piecewise (Rounded M) (Poly3 (Rounded M))}
    (hp : constrainedSpline (rk M ks) = some pw) (hs : (ks.map Knot.x).Pairwise (· < ·))
    (h3 : 3 ≤ ks.length) (i : ℕ) (h : i + 2 < ks.length)
    (hz : ((ks[i + 1].y - ks[i].y) / (ks[i + 1].x - ks[i].x) ≤ 0 ∧
            0 ≤ (ks[i + 2].y - ks[i + 1].y) / (ks[i + 2].x - ks[i + 1].x)) ∨
          (0 ≤ (ks[i + 1].y - ks[i].y) / (ks[i + 1].x - ks[i].x) ∧
            (ks[i + 2].y - ks[i + 1].y) / (ks[i + 2].x - ks[i + 1].x) ≤ 0)) :
    let fl := slopeHat M ks h3 i (by omega)
    let f := slopeHat M ks h3 (i + 1) (by omega)
    let fr := slopeHat M ks h3 (i + 2) h
    let x := ks[i + 1].x
    let Bl := segMagD |fl| ks[i] |f| ks[i + 1] x
    let Br := segMagD |f| ks[i + 1] |fr| ks[i + 2] x
    f = 0 ∧ ∃ sl sr, pw.segments[i]? = some sl ∧ pw.segments[i + 1]? = some sr ∧
      |Evaluate.evaluate (HasDerivative.derivative (sl.poly.mapF Rounded.val)) x| ≤ (26 + 1 / 1000) * M.u * Bl ∧
      |Evaluate.evaluate (HasDerivative.derivative (sr.poly.mapF Rounded.val)) x| ≤ (26 + 1 / 1000) * M.u * Br ∧
      |(Evaluate.evaluate (HasDerivative.derivative sl.poly) (⟨x⟩ : Rounded M)).val| ≤ (28 + 1 / 1000) * M.u * Bl ∧
      |(Evaluate.evaluate (HasDerivative.derivative sr.poly) (⟨x⟩ : Rounded M)).val| ≤ (28 + 1 / 1000) * M.u * Br := by
  intro fl f fr x Bl Br
  have hf : f = 0 := by
    show slopeHat M ks h3 (i + 1) (by omega) = 0
    rw [slopeHat_mid M ks h3 i h]
    exact interior_slope_zero_rounded M ks[i] ks[i + 1] ks[i + 2] (sorted_lt hs i (by omega))
      (sorted_lt hs (i + 1) h) hz
  obtain ⟨sl, sr, e1, e2, -, a, b, -, c, d, -⟩ := spline_c1_rounding M hu hp hs h3 i h
  exact ⟨hf, sl, sr, e1, e2, abs_le_of_sub_zero hf a, abs_le_of_sub_zero hf b, abs_le_of_sub_zero hf c,
    abs_le_of_sub_zero hf d⟩

/-! ## 7. the computed slopes lie in the monotonicity region; the whole rounded spline -/

theorem btw_perturb_mid {c f g : K} (h : Btw0 (2 * c) f) (hg : |g - f| ≤ 1 / 2 * |f|) : Btw0 (3 * c) g := by
  have hg' := abs_le.mp hg
  rcases h with ⟨h0, h1⟩ | ⟨h0, h1⟩
  · rw [abs_of_nonneg h0] at hg'
    exact Or.inl ⟨by linarith, by linarith⟩
  · rw [abs_of_nonpos h1] at hg'
    exact Or.inr ⟨by linarith, by linarith⟩

theorem btw_perturb_end {s f e : K} (h : Btw0 (2 * s) f) (he : |e - (3 / 2 * s - f / 2)| ≤ 1 / 2 * |s|) :
    Btw0 (3 * s) e := by
  have he' := abs_le.mp he
  rcases h with ⟨h0, h1⟩ | ⟨h0, h1⟩
  · rw [abs_of_nonneg (by linarith : 0 ≤ s)] at he'
    exact Or.inl ⟨by linarith, by linarith⟩
  · rw [abs_of_nonpos (by linarith : s ≤ 0)] at he'
    exact Or.inr ⟨by linarith, by linarith⟩

theorem u_tiny (hu : M.u ≤ (2 : K) ^ (-53 : ℤ)) : M.u ≤ 1 / 10 ^ 15 := hu.trans two_pow_neg53_le

/-- the computed interior slope lies between `0` and three times EACH adjacent secant slope -/
theorem mid_region (hu : M.u ≤ (2 : K) ^ (-53 : ℤ)) (k0 k1 k2 : Knot K) (h01 : k0.x < k1.x) (h12 : k1.x < k2.x) :
    Btw0 (3 * secant k0 k1) (Spline.f_dxRounded M k0 k1 k2) ∧
    Btw0 (3 * secant k1 k2) (Spline.f_dxRounded M k0 k1 k2) := by
  have E := f_dx_rounding M hu k0 k1 k2 h01 h12
  have hu15 := u_tiny M hu
  have hu0 := M.hu
  have hE : |Spline.f_dxRounded M k0 k1 k2 - Spline.f_dx k0 k1 k2| ≤ 1 / 2 * |Spline.f_dx k0 k1 k2| := by
    refine E.trans (mul_le_mul_of_nonneg_right ?_ (abs_nonneg _))
    nlinarith
  exact ⟨btw_perturb_mid (f_dx_btw_left k0 k1 k2) hE, btw_perturb_mid (f_dx_btw_right k0 k1 k2) hE⟩

theorem end_region_aux (hu : M.u ≤ (2 : K) ^ (-53 : ℤ)) {s f e : K} (h : Btw0 (2 * s) f)
    (he : |e - (3 / 2 * s - f / 2)| ≤ (17 + 1 / 1000) * M.u * (3 / 2 * |s| + 1 / 2 * |f|)) : Btw0 (3 * s) e := by
  refine btw_perturb_end h (he.trans ?_)
  have hf := Btw0.abs_le h
  rw [abs_mul, abs_two] at hf
  have hu15 := u_tiny M hu
  have hu0 := M.hu
  have hs0 := abs_nonneg s
  have h1 : (17 + 1 / 1000) * M.u * (3 / 2 * |s| + 1 / 2 * |f|) ≤ (17 + 1 / 1000) * M.u * (5 / 2 * |s|) :=
    mul_le_mul_of_nonneg_left (by linarith) (by positivity)
  have h2 : (17 + 1 / 1000) * M.u * (5 / 2) ≤ 1 / 2 := by nlinarith
  nlinarith

/-- the computed slope at the first knot lies between `0` and three times the first secant slope -/
theorem first_region (hu : M.u ≤ (2 : K) ^ (-53 : ℤ)) (k0 k1 k2 : Knot K) (h01 : k0.x < k1.x) (h12 : k1.x < k2.x) :
    Btw0 (3 * secant k0 k1) (endSlopeRounded M k0 k1 (Spline.f_dxRounded M k0 k1 k2)) := by
  refine end_region_aux M hu (f_dx_btw_left k0 k1 k2) ?_
  have := first_slope_rounding M hu k0 k1 k2 h01 h12
  rwa [mul_div_assoc] at this

/-- the computed slope at the last knot lies between `0` and three times the last secant slope -/
theorem last_region (hu : M.u ≤ (2 : K) ^ (-53 : ℤ)) (k0 k1 k2 : Knot K) (h01 : k0.x < k1.x) (h12 : k1.x < k2.x) :
    Btw0 (3 * secant k1 k2) (endSlopeRounded M k1 k2 (Spline.f_dxRounded M k0 k1 k2)) := by
  refine end_region_aux M hu (f_dx_btw_right k0 k1 k2) ?_
  have := last_slope_rounding M hu k0 k1 k2 h01 h12
  rwa [mul_div_assoc] at this

section spline
variable {ks : List (Knot K)}

/-- **(7)** the two slopes the rounded run passes to `segment` on interval `i` lie in the monotonicity region of the
exact theorem `C05.segment_monotone` (between `0` and three times the secant slope of the interval) -/
theorem slopeHat_region (hu : M.u ≤ (2 : K) ^ (-53 : ℤ)) (hs : (ks.map Knot.x).Pairwise (· < ·))
    (h3 : 3 ≤ ks.length) (i : ℕ) (h : i + 1 < ks.length) :
    Btw0 (3 * ((ks[i + 1].y - ks[i].y) / (ks[i + 1].x - ks[i].x))) (slopeHat M ks h3 i (by omega)) ∧
    Btw0 (3 * ((ks[i + 1].y - ks[i].y) / (ks[i + 1].x - ks[i].x))) (slopeHat M ks h3 (i + 1) h) := by
  constructor
  · match i, h with
    | 0, h =>
      rw [slopeHat_zero]
      exact first_region M hu ks[0] ks[1] ks[2] (sorted_lt hs 0 (by omega)) (sorted_lt hs 1 (by omega))
    | j + 1, h =>
      rw [slopeHat_mid M ks h3 j h]
      exact (mid_region M hu ks[j] ks[j + 1] ks[j + 2] (sorted_lt hs j (by omega)) (sorted_lt hs (j + 1) h)).2
  · by_cases hn : i + 2 = ks.length
    · rw [slopeHat_last M ks h3 i hn]
      obtain ⟨l, rfl⟩ : ∃ l, i = l + 1 := ⟨i - 1, by omega⟩
      simp only [Nat.add_sub_cancel]
      exact last_region M hu ks[l] ks[l + 1] ks[l + 1 + 1] (sorted_lt hs l (by omega))
        (sorted_lt hs (l + 1) (by omega))
    · rw [slopeHat_mid M ks h3 i (by omega)]
      exact (mid_region M hu ks[i] ks[i + 1] ks[i + 2] (sorted_lt hs i (by omega))
        (sorted_lt hs (i + 1) (by omega))).1

/-- **(7) `spline_range_rounding`**: every piece of the spline computed in `Rounded M` is, on its knot interval and
for EVERY `x` of it, monotone and between the two knot ordinates up to `B(x) = 30.001·u·S(x)` (values) and
`B'(x) = 26.001·u·S'(x)` (derivative); `S`, `S'` for the computed end slopes `fl`, `fr` of the piece. -/
theorem spline_range_rounding (hu : M.u ≤ (2 : K) ^ (-53 : ℤ)) {pw : Piecewise (Rounded M) (Poly3 (Rounded M))}
    (hp : constrainedSpline (rk M ks) = some pw) (hs : (ks.map Knot.x).Pairwise (· < ·))
    (h3 : 3 ≤ ks.length) (i : ℕ) (h : i + 1 < ks.length) :
    let fl := slopeHat M ks h3 i (by omega)
    let fr := slopeHat M ks h3 (i + 1) h
    ∃ s, pw.segments[i]? = some s ∧
      MonotoneBetweenUpTo (s.poly.mapF Rounded.val) ks[i] ks[i + 1]
        (fun x => (30 + 1 / 1000) * M.u * segMag |fl| ks[i] |fr| ks[i + 1] x)
        (fun x => (26 + 1 / 1000) * M.u * segMagD |fl| ks[i] |fr| ks[i + 1] x) := by
  intro fl fr
  have R := slopeHat_region M hu hs h3 i h
  exact ⟨_, spline_rounded_segment M ks hp h3 i h,
    segment_range_rounding M hu fl fr ks[i] ks[i + 1] (sorted_lt hs i h) R.1 R.2⟩

/-- **(7)** the same for the generated `evaluate` run in `Rounded M` on the computed pieces (`32.001·u·S`) -/
theorem spline_range_rounding_eval (hu : M.u ≤ (2 : K) ^ (-53 : ℤ))
    {pw : Piecewise (Rounded M) (Poly3 (Rounded M))}
    (hp : constrainedSpline (rk M ks) = some pw) (hs : (ks.map Knot.x).Pairwise (· < ·))
    (h3 : 3 ≤ ks.length) (i : ℕ) (h : i + 1 < ks.length) (x : K) (hx0 : ks[i].x ≤ x) (hx1 : x ≤ ks[i + 1].x) :
    let fl := slopeHat M ks h3 i (by omega)
    let fr := slopeHat M ks h3 (i + 1) h
    let B := fun t : K => (32 + 1 / 1000) * M.u * segMag |fl| ks[i] |fr| ks[i + 1] t
    ∃ s, pw.segments[i]? = some s ∧
      min ks[i].y ks[i + 1].y - B x ≤ (Evaluate.evaluate s.poly (⟨x⟩ : Rounded M)).val ∧
      (Evaluate.evaluate s.poly (⟨x⟩ : Rounded M)).val ≤ max ks[i].y ks[i + 1].y + B x ∧
      ∀ x', x ≤ x' → x' ≤ ks[i + 1].x →
        (ks[i].y ≤ ks[i + 1].y → (Evaluate.evaluate s.poly (⟨x⟩ : Rounded M)).val
            ≤ (Evaluate.evaluate s.poly (⟨x'⟩ : Rounded M)).val + (B x + B x')) ∧
        (ks[i + 1].y ≤ ks[i].y → (Evaluate.evaluate s.poly (⟨x'⟩ : Rounded M)).val
            ≤ (Evaluate.evaluate s.poly (⟨x⟩ : Rounded M)).val + (B x + B x')) := by
  intro fl fr B
  have R := slopeHat_region M hu hs h3 i h
  exact ⟨_, spline_rounded_segment M ks hp h3 i h,
    segment_range_rounding_eval M hu fl fr ks[i] ks[i + 1] (sorted_lt hs i h) R.1 R.2 x hx0 hx1⟩

end spline
end main

/-! ## non-vacuity (model `RModel.m53`, knots `C04.exKnots` = (0,0), (1,1), (3,2), (4,0)) -/
section examples
noncomputable local instance : Transc ℚ := ⟨fun x => x, fun x => x⟩
attribute [local instance] exactFL
open RModel

/-- `segment_range_rounding` & co.: knots (1,1), (3,2) (secant slope 1/2), end slopes 2/3 and 0 in `[0, 3/2]` -/
theorem exBtw : Btw0 (3 * (((⟨3, 2⟩ : Knot ℚ).y - (⟨1, 1⟩ : Knot ℚ).y) / ((⟨3, 2⟩ : Knot ℚ).x - (⟨1, 1⟩ : Knot ℚ).x)))
    (2 / 3 : ℚ) ∧
    Btw0 (3 * (((⟨3, 2⟩ : Knot ℚ).y - (⟨1, 1⟩ : Knot ℚ).y) / ((⟨3, 2⟩ : Knot ℚ).x - (⟨1, 1⟩ : Knot ℚ).x))) (0 : ℚ) :=
  ⟨Or.inl ⟨by norm_num, by norm_num⟩, Btw0.zero _⟩
example := segment_range_rounding m53 m53_u (2 / 3) 0 ⟨1, 1⟩ ⟨3, 2⟩ (by norm_num) exBtw.1 exBtw.2
example := segment_range_rounding_eval m53 m53_u (2 / 3) 0 ⟨1, 1⟩ ⟨3, 2⟩ (by norm_num) exBtw.1 exBtw.2 2
  (by norm_num) (by norm_num)
example := segment_range_rounding_uniform m53 m53_u (2 / 3) 0 ⟨1, 1⟩ ⟨3, 2⟩ (by norm_num) exBtw.1 exBtw.2 2
  (by norm_num) (by norm_num)
/-- `interior_slope_zero_rounded`: slopes 1/2 and −2 -/
example : Spline.f_dxRounded m53 ⟨1, 1⟩ ⟨3, 2⟩ ⟨4, 0⟩ = 0 :=
  interior_slope_zero_rounded m53 ⟨1, 1⟩ ⟨3, 2⟩ ⟨4, 0⟩ (by norm_num) (by norm_num) (Or.inr (by norm_num))
/-- the whole spline: `spline_range_rounding(_eval)` on every interval, `spline_slope_zero_rounding` at knot 2 -/
example : True := by
  obtain ⟨pw, hp⟩ := ex_rounded
  have h1 := spline_range_rounding m53 m53_u hp exKnots_sorted (by decide) 0 (by decide)
  have h2 := spline_range_rounding m53 m53_u hp exKnots_sorted (by decide) 2 (by decide)
  have h3 := spline_range_rounding_eval m53 m53_u hp exKnots_sorted (by decide) 1 (by decide) 2
    (by simp [exKnots]) (by simp [exKnots]; norm_num)
  have h4 := spline_slope_zero_rounding m53 m53_u hp exKnots_sorted (by decide) 1 (by decide)
    (Or.inr (by simp [exKnots]; norm_num))
  trivial
end examples

end PP.Props.C05Bound
