import PP.Lemmas.Evaluator
/-!
# C03 (and the history part of C16) — the stateful evaluator equals direct evaluation on EVERY history

Model: `Hand.evNew`, `Hand.evStep`, `Hand.evRun`, `Hand.evaluatorRun` (zipper form of
`PiecewiseEvaluator::{new, evaluate}`, tied to the code by campaigns `evaluator` and `evaluator-nan`).
The theorem quantifies over every well-formed segment list, every piece type, and every finite
history over ALL of `F` — NaN and ±∞ at any position.  The reachable cursor states are covered by the
invariant `Inv`, not enumerated.
-/
set_option linter.unusedSectionVars false
namespace PP.Props.C03
open FloatLike OrdLaws Hand PP.Props.C02 PP.Lemmas.Evaluator
variable {F T : Type} [FloatLike F] [OrdLaws F] [Evaluate T F]

/-- the cursor invariant: the zipper is a split of the segment list; every skipped end is ≤ the last
argument and every end still ahead is ≥ it -/
structure Inv (segs : List (Segment F T)) (st : EvSt F T) : Prop where
  shape : st.pre.reverse ++ st.tl ++ [st.last] = segs
  Lnn : isNaN st.L = false
  pre_le : ∀ p ∈ st.pre, key p.end ≤ key st.L
  tl_ge : ∀ t ∈ st.tl, key st.L ≤ key t.end

/-- `new` succeeds exactly on non-empty input … -/
theorem evNew_isSome (segs : List (Segment F T)) : (evNew segs).isSome = !segs.isEmpty := by
  cases segs <;> simp [evNew]

/-- … and establishes the invariant. -/
theorem evNew_inv (segs : List (Segment F T)) (hwf : WF segs) (st : EvSt F T) (h : evNew segs = some st) :
    Inv segs st := by
  cases segs with
  | nil => simp [evNew] at h
  | cons s rest =>
    simp only [evNew, Option.some.injEq] at h
    subst h
    have hsplit : (s :: rest).dropLast ++ [(s :: rest).getLast (by simp)] = s :: rest :=
      List.dropLast_concat_getLast (by simp)
    refine ⟨by simpa using hsplit, ?_, by simp, ?_⟩
    · cases hf : (s :: rest).dropLast with
      | nil => simp only; exact hwf.nn _ (List.getLast_mem _)
      | cons f fs =>
        simp only
        exact hwf.nn f (List.dropLast_subset _ (by rw [hf]; simp))
    · cases hf : (s :: rest).dropLast with
      | nil => simp
      | cons f fs =>
        intro t ht
        simp only
        have hs := hwf.sorted
        rw [← hsplit, hf] at hs
        rcases List.mem_cons.mp ht with rfl | ht
        · exact Int.le_refl _
        · have := (List.pairwise_append.mp hs).1
          exact (List.pairwise_cons.mp this).1 t ht

/-- One step from any state satisfying the invariant: the answer is direct evaluation's, and the
invariant is re-established — for every argument, NaN included. -/
theorem step_correct (segs : List (Segment F T)) (hwf : WF segs) (st : EvSt F T) (hinv : Inv segs st) (x : F) :
    Inv segs (evStep st x).1 ∧ some (evStep st x).2 = pwEvaluate ⟨segs⟩ x := by
  have hnn : ∀ s ∈ st.pre.reverse ++ st.tl ++ [st.last], isNaN s.end = false := by
    rw [hinv.shape]; exact hwf.nn
  have hsorted : Sorted (st.pre.reverse ++ st.tl ++ [st.last]) := by
    unfold Sorted; rw [hinv.shape]; exact hwf.sorted
  have hsorted' : Sorted (st.pre.reverse ++ st.tl) := by
    unfold Sorted at hsorted ⊢; exact (List.pairwise_append.mp hsorted).1
  have hnn_pre : NN st.pre := fun s hs => hnn s (by simp [hs])
  have hnn_tl : NN st.tl := fun s hs => hnn s (by simp [hs])
  unfold pwEvaluate
  by_cases hx : isNaN x = true
  · -- a NaN query: state untouched, answered from the last segment, as direct evaluation does
    simp only [evStep, hx, if_true]
    refine ⟨hinv, ?_⟩
    rw [last_of_nan _ _ hx, ← hinv.shape]; simp
  · have hx' : isNaN x = false := by simpa using hx
    simp only [evStep, hx', Bool.false_eq_true, if_false]
    by_cases hdir : le st.L x = true
    · -- forward
      have hLx : key st.L ≤ key x := (le_iff hinv.Lnn hx').mp hdir
      obtain ⟨f1, f2, f3, ⟨k, f4⟩⟩ := fwd_spec st.pre st.tl x hx' hnn_tl
      simp only [hdir, if_true]
      generalize hr : evFwd st.pre st.tl x = r at f1 f2 f3 f4
      obtain ⟨pre', tl'⟩ := r
      simp only at f1 f2 f3 f4 ⊢
      have hpre' : ∀ p ∈ pre', key p.end ≤ key x := by
        intro p hp
        rcases f2 p hp with h | h
        · exact Int.le_trans (hinv.pre_le p h) hLx
        · exact h
      have hpre_lt : ∀ a ∈ pre'.reverse, lt x a.end = false := by
        intro a ha
        have ham : a ∈ pre' := by simpa using ha
        have han : isNaN a.end = false := hnn a (by
          have : a ∈ pre'.reverse ++ tl' := List.mem_append_left _ ha
          rw [f1] at this; exact List.mem_append_left _ this)
        exact (lt_false_iff hx' han).mpr (hpre' a ham)
      have htl_sorted : Sorted tl' := by
        rw [f4]; unfold Sorted at hsorted' ⊢
        exact ((List.pairwise_append.mp hsorted').2.1).sublist (List.drop_sublist k _)
      have hshape : pre'.reverse ++ tl' ++ [st.last] = segs := by rw [f1]; exact hinv.shape
      refine ⟨⟨hshape, hx', hpre', ?_⟩, ?_⟩
      · intro t ht
        cases htl : tl' with
        | nil => rw [htl] at ht; simp at ht
        | cons t0 ts =>
          rw [htl] at ht htl_sorted f3
          have h0 : key x < key t0.end := f3 t0 (by simp)
          rcases List.mem_cons.mp ht with rfl | ht
          · exact Int.le_of_lt h0
          · exact Int.le_trans (Int.le_of_lt h0) ((List.pairwise_cons.mp htl_sorted).1 t ht)
      · rw [← hshape]
        cases htl : tl' with
        | nil =>
          simp only [List.append_nil]
          rw [sel_split pre'.reverse [] st.last x hpre_lt (Or.inr rfl)]; rfl
        | cons t0 ts =>
          rw [htl] at f3
          have h0 : key x < key t0.end := f3 t0 (by simp)
          have ht0n : isNaN t0.end = false := hnn t0 (by
            have : t0 ∈ pre'.reverse ++ tl' := by rw [htl]; simp
            rw [f1] at this; exact List.mem_append_left _ this)
          simp only [List.cons_append, List.append_assoc]
          rw [sel_split pre'.reverse (ts ++ [st.last]) t0 x hpre_lt (Or.inl ((lt_iff hx' ht0n).mpr h0))]; rfl
    · -- backward
      have hdir' : le st.L x = false := by simpa using hdir
      have hxL : key x < key st.L := (le_false_iff hinv.Lnn hx').mp hdir'
      obtain ⟨b1, b2, b3⟩ := bwd_spec st.pre st.tl x hx' hnn_pre hsorted'
        (fun t ht => Int.lt_of_lt_of_le hxL (hinv.tl_ge t ht))
      simp only [hdir', Bool.false_eq_true, if_false]
      generalize hr : evBwd st.pre st.tl x = r at b1 b2 b3
      obtain ⟨pre', tl'⟩ := r
      simp only at b1 b2 b3 ⊢
      have hshape : pre'.reverse ++ tl' ++ [st.last] = segs := by rw [b1]; exact hinv.shape
      have hpre_lt : ∀ a ∈ pre'.reverse, lt x a.end = false := by
        intro a ha
        have ham : a ∈ pre' := by simpa using ha
        have han : isNaN a.end = false := hnn a (by
          have : a ∈ pre'.reverse ++ tl' := List.mem_append_left _ ha
          rw [b1] at this; exact List.mem_append_left _ this)
        exact (lt_false_iff hx' han).mpr (b2 a ham)
      refine ⟨⟨hshape, hx', b2, fun t ht => Int.le_of_lt (b3 t ht)⟩, ?_⟩
      rw [← hshape]
      cases htl : tl' with
      | nil =>
        simp only [List.append_nil]
        rw [sel_split pre'.reverse [] st.last x hpre_lt (Or.inr rfl)]; rfl
      | cons t0 ts =>
        rw [htl] at b3
        have h0 : key x < key t0.end := b3 t0 (by simp)
        have ht0n : isNaN t0.end = false := hnn t0 (by
          have : t0 ∈ pre'.reverse ++ tl' := by rw [htl]; simp
          rw [b1] at this; exact List.mem_append_left _ this)
        simp only [List.cons_append, List.append_assoc]
        rw [sel_split pre'.reverse (ts ++ [st.last]) t0 x hpre_lt (Or.inl ((lt_iff hx' ht0n).mpr h0))]; rfl

/-- Every history from every invariant state: the outputs are exactly direct evaluation's. -/
theorem run_correct (segs : List (Segment F T)) (hwf : WF segs) (xs : List F) :
    ∀ st, Inv segs st → (evRun st xs).map some = xs.map (pwEvaluate ⟨segs⟩) := by
  induction xs with
  | nil => intro _ _; rfl
  | cons x xs ih =>
    intro st hinv
    obtain ⟨h1, h2⟩ := step_correct segs hwf st hinv x
    simp only [evRun, List.map_cons]
    rw [h2, ih _ h1]

/-- **C03 / C16 (history).**  For every well-formed function and every finite history over all of `F`
(any interleaving of forward and backward moves, repeats, exact hits on breakpoints, ±∞, NaN at any
position) the evaluator session does not panic and returns, query by query, exactly what direct
evaluation returns for that argument — in particular the answer never depends on earlier queries. -/
theorem evaluator_eq_direct (segs : List (Segment F T)) (hwf : WF segs) (xs : List F) :
    (evaluatorRun segs xs).map (fun ys => ys.map some) = some (xs.map (pwEvaluate ⟨segs⟩)) := by
  unfold evaluatorRun
  cases h : evNew segs with
  | none =>
    have := evNew_isSome segs
    rw [h] at this
    have hne := hwf.ne
    cases segs <;> simp_all
  | some st =>
    simp only [Option.map_some]
    rw [run_correct segs hwf xs st (evNew_inv segs hwf st h)]

/-- the only panic of the evaluator: an empty segment list (the documented rejection) -/
theorem evaluator_empty (xs : List F) : evaluatorRun ([] : List (Segment F T)) xs = none := rfl

/-! non-vacuity: a reachable non-initial state satisfying the invariant, over `F64` -/
section example_
local instance : FloatLike F64 := F64.inst PP.Props.C02.exLn PP.Props.C02.exLn
local instance : OrdLaws F64 := F64.ordLaws PP.Props.C02.exLn PP.Props.C02.exLn
local instance : Evaluate (Poly0 F64) F64 := ⟨fun p _ => p._0⟩
example : WF PP.Props.C02.exSegs := ⟨by decide, by decide, by decide⟩
example : evaluatorRun PP.Props.C02.exSegs [PP.Props.C02.three, F64.nan, PP.Props.C02.one, F64.inf true]
    = some [PP.Props.C02.three, PP.Props.C02.three, PP.Props.C02.two, PP.Props.C02.one] := by decide
end example_

end PP.Props.C03
