import PP.Props.C02
import PP.Model.Piecewise.OpsAttr
import PP.Model.Piecewise.CalculusAttr
/-!
# C15 — scalar operations on segments and piecewise functions preserve breakpoints

Generic in the number type and the piece type.  `Segment`-level operators are the *generated* instances
(`PP/Model/Piecewise/Ops.lean`, `Calculus.lean`); the piecewise loops are `Hand.pwMul`, `pwMulAssign`,
`pwNeg`, `pwTranslate`, `pwDerivative` (tied by campaign `pwops`).
-/
set_option linter.unusedSectionVars false
namespace PP.Props.C15
open FloatLike Hand
variable {F T : Type} [FloatLike F]

/-! ## segments -/
theorem seg_mul [PMul T F T] (g : Segment F T) (s : F) : (PMul.mul g s : Segment F T) = ⟨g.end, PMul.mul g.poly s⟩ := rfl
theorem seg_mulAssign [PMulAssign T F] (g : Segment F T) (s : F) :
    PMulAssign.mulAssign g s = ⟨g.end, PMulAssign.mulAssign g.poly s⟩ := rfl
/-- the `&mut Segment<T>` impl is the `Segment<T>` impl -/
theorem seg_mulAssign_refmut [PMulAssign T F] (g : Segment F T) (s : F) :
    inst_MulAssign_RefMut_Segment_T.mulAssign g s = inst_MulAssign_Segment_T.mulAssign g s := rfl
theorem seg_translate [Translate T F] (g : Segment F T) (c : F) :
    Translate.translate g c = ⟨g.end, Translate.translate g.poly c⟩ := rfl
theorem seg_derivative {D : Type} [HasDerivative T D] (g : Segment F T) :
    (HasDerivative.derivative g : Segment F D) = ⟨g.end, HasDerivative.derivative g.poly⟩ := rfl
theorem seg_evaluate [Evaluate T F] (g : Segment F T) (x : F) : Evaluate.evaluate g x = Evaluate.evaluate g.poly x := rfl

/-! ## piecewise: a map over the pieces that keeps every `end` -/

/-- what all five loops are: a map that rewrites the piece and keeps the breakpoint -/
def mapPieces {U : Type} (h : T → U) (p : Piecewise F T) : Piecewise F U :=
  ⟨p.segments.map (fun g => ⟨g.end, h g.poly⟩)⟩

theorem pwMul_eq [PMul T F T] (p : Piecewise F T) (s : F) : pwMul p s = mapPieces (fun t => PMul.mul t s) p := rfl
theorem pwMulAssign_eq [PMulAssign T F] (p : Piecewise F T) (s : F) :
    pwMulAssign p s = mapPieces (fun t => PMulAssign.mulAssign t s) p := rfl
theorem pwNeg_eq [PNeg T T] (p : Piecewise F T) : pwNeg p = mapPieces (fun t => PNeg.neg t) p := rfl
theorem pwTranslate_eq [Translate T F] (p : Piecewise F T) (c : F) :
    pwTranslate p c = mapPieces (fun t => Translate.translate t c) p := rfl
theorem pwDerivative_eq {D : Type} [HasDerivative T D] (p : Piecewise F T) :
    (pwDerivative p : Piecewise F D) = mapPieces (fun t => HasDerivative.derivative t) p := rfl

variable {U : Type} (h : T → U) (p : Piecewise F T)

/-- number of pieces, their order and every breakpoint are unchanged (bit-identical: the same values) -/
theorem map_length : (mapPieces h p).segments.length = p.segments.length := by simp [mapPieces]
theorem map_ends : (mapPieces h p).segments.map (·.end) = p.segments.map (·.end) := by
  simp [mapPieces, List.map_map, Function.comp_def]
/-- each piece's function is the piece-level operation applied to it -/
theorem map_polys : (mapPieces h p).segments.map (·.poly) = p.segments.map (fun g => h g.poly) := by
  simp [mapPieces, List.map_map, Function.comp_def]
theorem map_get (i : Nat) : (mapPieces h p).segments[i]? = (p.segments[i]?).map (fun g => ⟨g.end, h g.poly⟩) := by
  simp [mapPieces]

/-- selection commutes with the map: the same segment is chosen on both sides of every breakpoint -/
theorem sel_map (l : List (Segment F T)) (x : F) :
    selSeg (l.map (fun g => (⟨g.end, h g.poly⟩ : Segment F U))) x = (selSeg l x).map (fun g => ⟨g.end, h g.poly⟩) := by
  induction l with
  | nil => rfl
  | cons s rest ih =>
    cases rest with
    | nil => rfl
    | cons s' rest' =>
      simp only [List.map_cons, selSeg] at ih ⊢
      by_cases hl : lt x s.end = true
      · simp [hl]
      · have hl' : lt x s.end = false := by simpa using hl
        simp only [hl', Bool.false_eq_true, if_false]; exact ih

/-- **pointwise**: the operated function at x is the piece-level operation applied to the piece that the
ORIGINAL function selects at x, evaluated at x — for every x, NaN and ±∞ included. -/
theorem eval_map [Evaluate T F] [Evaluate U F] (x : F) :
    pwEvaluate (mapPieces h p) x = (selSeg p.segments x).map (fun g => Evaluate.evaluate (h g.poly) x) := by
  unfold pwEvaluate mapPieces
  rw [sel_map]; cases selSeg p.segments x <;> rfl

/-- so a piece-level value law lifts to the whole function, e.g. `(f*s)(x) = s·f(x)` -/
theorem eval_map_law [Evaluate T F] [Evaluate U F] (φ : F → F)
    (hlaw : ∀ (t : T) (x : F), Evaluate.evaluate (h t) x = φ (Evaluate.evaluate t x)) (x : F) :
    pwEvaluate (mapPieces h p) x = (pwEvaluate p x).map φ := by
  rw [eval_map]; unfold pwEvaluate
  cases selSeg p.segments x with
  | none => rfl
  | some g => simp only [Option.map_some]; rw [hlaw]; rfl

/-- `*=` gives exactly the result of `*` whenever it does on the pieces -/
theorem pwMulAssign_eq_pwMul [PMul T F T] [PMulAssign T F]
    (hp : ∀ (t : T) (s : F), PMulAssign.mulAssign t s = PMul.mul t s) (p : Piecewise F T) (s : F) :
    pwMulAssign p s = pwMul p s := by
  simp only [pwMulAssign_eq, pwMul_eq, mapPieces, hp]

end PP.Props.C15
