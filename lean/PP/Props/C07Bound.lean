import PP.Sem.Count
import PP.Props.C01Bound
import PP.Props.C07
import PP.Lemmas.CalculusFP
import PP.Model.Poly.CalculusAttr
/-!
# C07 — integration of polynomials: the FLOATING-POINT part

`PP/Props/C07.lean` proves C07 for the code read in exact arithmetic.  This file proves the rounding clauses
("its value at knot.x is knot.y (within rounding)", "F(b)−F(a) equals the exact integral", "differentiating the
result returns p coefficient-wise to within one unit in the last place") for the same GENERATED code
(`inst_HasIntegral_Poly⟨n⟩.indefinite / .integral`, `inst_HasDerivative_Poly⟨n+1⟩.derivative`,
`inst_Translate_Poly⟨n+1⟩.translate`, `inst_Evaluate_Poly⟨n+1⟩.evaluate`, n = 0..7) **run in rounded arithmetic**
`Rounded M`, for every linearly ordered field `K` and every rounding model `M : RModel K`.

## What is ASSUMED (and not proved)
* the **standard model** of floating-point arithmetic (`RModel`): every operation returns `rnd (exact result)`,
  `|rnd t − t| ≤ u·|t|` (i.e. **no underflow, no overflow**), `fma` is ONE rounding; for (2), (3): `u ≤ 2⁻⁵³`;
* the **inputs are exact**: the coefficients `cᵢ` of `p`, the knot `(x, y)` and the arguments `a, b` are arbitrary
  elements of `K`, taken as they are (in the Rust code they are `f64`s);
* decimal literals are `rnd (m·10^e)` and are **NOT assumed representable**: `2.0 … 8.0` may be rounded (only the
  `…_fixed` variants assume `rnd j = j`, `LitFixed`); `rnd` is **not assumed idempotent** (`x += v` on the
  constant term `0.0` costs a rounding: the constant term is `rnd (0 + rnd (y − E))`).

## Results, for each degree n = 0..7 (`p : Poly⟨n⟩ K`, result of degree n+1; theorem names `poly⟨n⟩_…`)
Notation: `S(t) = Σᵢ |cᵢ/(i+1)|·|t|^{i+1}`, `P(t) = Σᵢ cᵢ/(i+1)·t^{i+1}`,
`p.indefiniteRounded M`, `p.integralRounded M knot`, `p.derivIndefRounded M` = the coefficients computed by the
rounded runs of `indefinite`, `integral(knot)`, `derivative ∘ indefinite`.
1. `poly⟨n⟩_indefinite_coeff_rounding` : constant term `= 0` exactly, linear coefficient `= c₀` exactly, and for i ≥ 1
   `|computed − cᵢ/(i+1)| ≤ 2u/(1−u)·|cᵢ/(i+1)|` — the honest constant when the divisor literal `i+1` is itself rounded
   (two roundings; `2u/(1−u) ≤ 2.001·u`);
   `poly⟨n⟩_indefinite_coeff_rounding_fixed` : `≤ u·|cᵢ/(i+1)|` if the literals `2 … n+1` are representable (`LitFixed`).
2. `poly⟨n⟩_integral_at_knot_rounding` (`u ≤ 2⁻⁵³`): the ROUNDED evaluation of `F = integral p knot` at `knot.x`:
   `|F̂(knot.x) − knot.y| ≤ (3n+6)·u·(|knot.y| + S(knot.x))`          (C_n = 3n+6 = 3κ+3, κ = n+1);
   `poly⟨n⟩_integral_at_knot_exact_eval`: the computed coefficients evaluated EXACTLY at `knot.x`:
   `|F(knot.x) − knot.y| ≤ (n+4)·u·(|knot.y| + S(knot.x))`;
   `poly⟨n⟩_integral_lanes_rounded`: `F` has the coefficients of `indefinite p` and the constant term
   `rnd (0 + rnd (knot.y − Ê))`, `Ê` = rounded value of `indefinite p` at `knot.x`.
3. `poly⟨n⟩_integral_difference_rounding` (`u ≤ 2⁻⁵³`), all `a b`:
   `|F̂(b) − F̂(a) − (P(b) − P(a))| ≤ (n+4)·u·(S(a) + S(b) + 2|k|)`,  `k` = the computed constant term of `F`;
   over ℝ `poly⟨n⟩_integral_difference_rounding_real`: the same with `∫ t in a..b, p t` (via `C07.poly⟨n⟩_indefinite_ftc`).
4. `poly⟨n⟩_derivative_indefinite_rounding` : `derivative (indefinite p)`, all in `Rounded M`: coefficient 0 is `c₀`
   exactly and `|computed − cᵢ| ≤ (2u + u²)·|cᵢ|` for i ≥ 1 — *whether or not the literal `i+1` is representable*:
   the generated derivative multiplies by the same rounded literal the integral divided by, which cancels.

κ = n+1 is the rounding depth of the generated evaluation scheme of degree n+1, *measured* by running it at the
counting semantics (`Nat.le_of_ble_eq_true rfl`): a scheme of larger depth makes (2), (3) fail to re-check, one of
smaller or equal depth re-checks unchanged.  Nothing else about the schemes is used (no code is restated: every
generated definition is reached by `rfl`).

Non-vacuity: section `examples` (models `RModel.m53`: every operation errs by the full relative `2⁻⁵³`;
`RModel.intFix`: integers exact, everything else inflated — there the bounds `u·|c/3|` of (1, fixed literals) and
`(2u+u²)|c|` of (4) are attained; `intShrink`: literals not representable — there `2u/(1−u)·|c/3|` of (1) is attained;
in `M53` the defect of (2) is `≈ 3u ≠ 0`).
-/
set_option linter.unusedSectionVars false
set_option linter.unusedVariables false

/-! ## the rounded runs (GENERATED block: identical up to the degree) -/
section runs
variable {K : Type} [Field K] [LinearOrder K] [IsStrictOrderedRing K] [Transc K] (M : RModel K)
/-- coefficients computed by `indefinite` run in `Rounded M` on the exact coefficients of `p` -/
@[reducible] noncomputable def Poly0.indefiniteRounded (p : Poly0 K) : Poly1 K :=
  (HasIntegral.indefinite (p.mapF Rounded.mk : Poly0 (Rounded M)) : Poly1 (Rounded M)).mapF Rounded.val
/-- coefficients computed by `integral(knot)` run in `Rounded M` -/
@[reducible] noncomputable def Poly0.integralRounded (p : Poly0 K) (knot : Knot K) : Poly1 K :=
  (HasIntegral.integral (p.mapF Rounded.mk : Poly0 (Rounded M)) (knot.mapF Rounded.mk) : Poly1 (Rounded M)).mapF
    Rounded.val
/-- coefficients computed by `derivative (indefinite p)`, all in `Rounded M` -/
@[reducible] noncomputable def Poly0.derivIndefRounded (p : Poly0 K) : Poly0 K :=
  (HasDerivative.derivative (HasIntegral.indefinite (p.mapF Rounded.mk : Poly0 (Rounded M)) : Poly1 (Rounded M))
    : Poly0 (Rounded M)).mapF Rounded.val
/-- coefficients computed by `indefinite` run in `Rounded M` on the exact coefficients of `p` -/
@[reducible] noncomputable def Poly1.indefiniteRounded (p : Poly1 K) : Poly2 K :=
  (HasIntegral.indefinite (p.mapF Rounded.mk : Poly1 (Rounded M)) : Poly2 (Rounded M)).mapF Rounded.val
/-- coefficients computed by `integral(knot)` run in `Rounded M` -/
@[reducible] noncomputable def Poly1.integralRounded (p : Poly1 K) (knot : Knot K) : Poly2 K :=
  (HasIntegral.integral (p.mapF Rounded.mk : Poly1 (Rounded M)) (knot.mapF Rounded.mk) : Poly2 (Rounded M)).mapF
    Rounded.val
/-- coefficients computed by `derivative (indefinite p)`, all in `Rounded M` -/
@[reducible] noncomputable def Poly1.derivIndefRounded (p : Poly1 K) : Poly1 K :=
  (HasDerivative.derivative (HasIntegral.indefinite (p.mapF Rounded.mk : Poly1 (Rounded M)) : Poly2 (Rounded M))
    : Poly1 (Rounded M)).mapF Rounded.val
/-- coefficients computed by `indefinite` run in `Rounded M` on the exact coefficients of `p` -/
@[reducible] noncomputable def Poly2.indefiniteRounded (p : Poly2 K) : Poly3 K :=
  (HasIntegral.indefinite (p.mapF Rounded.mk : Poly2 (Rounded M)) : Poly3 (Rounded M)).mapF Rounded.val
/-- coefficients computed by `integral(knot)` run in `Rounded M` -/
@[reducible] noncomputable def Poly2.integralRounded (p : Poly2 K) (knot : Knot K) : Poly3 K :=
  (HasIntegral.integral (p.mapF Rounded.mk : Poly2 (Rounded M)) (knot.mapF Rounded.mk) : Poly3 (Rounded M)).mapF
    Rounded.val
/-- coefficients computed by `derivative (indefinite p)`, all in `Rounded M` -/
@[reducible] noncomputable def Poly2.derivIndefRounded (p : Poly2 K) : Poly2 K :=
  (HasDerivative.derivative (HasIntegral.indefinite (p.mapF Rounded.mk : Poly2 (Rounded M)) : Poly3 (Rounded M))
    : Poly2 (Rounded M)).mapF Rounded.val
/-- coefficients computed by `indefinite` run in `Rounded M` on the exact coefficients of `p` -/
@[reducible] noncomputable def Poly3.indefiniteRounded (p : Poly3 K) : Poly4 K :=
  (HasIntegral.indefinite (p.mapF Rounded.mk : Poly3 (Rounded M)) : Poly4 (Rounded M)).mapF Rounded.val
/-- coefficients computed by `integral(knot)` run in `Rounded M` -/
@[reducible] noncomputable def Poly3.integralRounded (p : Poly3 K) (knot : Knot K) : Poly4 K :=
  (HasIntegral.integral (p.mapF Rounded.mk : Poly3 (Rounded M)) (knot.mapF Rounded.mk) : Poly4 (Rounded M)).mapF
    Rounded.val
/-- coefficients computed by `derivative (indefinite p)`, all in `Rounded M` -/
@[reducible] noncomputable def Poly3.derivIndefRounded (p : Poly3 K) : Poly3 K :=
  (HasDerivative.derivative (HasIntegral.indefinite (p.mapF Rounded.mk : Poly3 (Rounded M)) : Poly4 (Rounded M))
    : Poly3 (Rounded M)).mapF Rounded.val
/-- coefficients computed by `indefinite` run in `Rounded M` on the exact coefficients of `p` -/
@[reducible] noncomputable def Poly4.indefiniteRounded (p : Poly4 K) : Poly5 K :=
  (HasIntegral.indefinite (p.mapF Rounded.mk : Poly4 (Rounded M)) : Poly5 (Rounded M)).mapF Rounded.val
/-- coefficients computed by `integral(knot)` run in `Rounded M` -/
@[reducible] noncomputable def Poly4.integralRounded (p : Poly4 K) (knot : Knot K) : Poly5 K :=
  (HasIntegral.integral (p.mapF Rounded.mk : Poly4 (Rounded M)) (knot.mapF Rounded.mk) : Poly5 (Rounded M)).mapF
    Rounded.val
/-- coefficients computed by `derivative (indefinite p)`, all in `Rounded M` -/
@[reducible] noncomputable def Poly4.derivIndefRounded (p : Poly4 K) : Poly4 K :=
  (HasDerivative.derivative (HasIntegral.indefinite (p.mapF Rounded.mk : Poly4 (Rounded M)) : Poly5 (Rounded M))
    : Poly4 (Rounded M)).mapF Rounded.val
/-- coefficients computed by `indefinite` run in `Rounded M` on the exact coefficients of `p` -/
@[reducible] noncomputable def Poly5.indefiniteRounded (p : Poly5 K) : Poly6 K :=
  (HasIntegral.indefinite (p.mapF Rounded.mk : Poly5 (Rounded M)) : Poly6 (Rounded M)).mapF Rounded.val
/-- coefficients computed by `integral(knot)` run in `Rounded M` -/
@[reducible] noncomputable def Poly5.integralRounded (p : Poly5 K) (knot : Knot K) : Poly6 K :=
  (HasIntegral.integral (p.mapF Rounded.mk : Poly5 (Rounded M)) (knot.mapF Rounded.mk) : Poly6 (Rounded M)).mapF
    Rounded.val
/-- coefficients computed by `derivative (indefinite p)`, all in `Rounded M` -/
@[reducible] noncomputable def Poly5.derivIndefRounded (p : Poly5 K) : Poly5 K :=
  (HasDerivative.derivative (HasIntegral.indefinite (p.mapF Rounded.mk : Poly5 (Rounded M)) : Poly6 (Rounded M))
    : Poly5 (Rounded M)).mapF Rounded.val
/-- coefficients computed by `indefinite` run in `Rounded M` on the exact coefficients of `p` -/
@[reducible] noncomputable def Poly6.indefiniteRounded (p : Poly6 K) : Poly7 K :=
  (HasIntegral.indefinite (p.mapF Rounded.mk : Poly6 (Rounded M)) : Poly7 (Rounded M)).mapF Rounded.val
/-- coefficients computed by `integral(knot)` run in `Rounded M` -/
@[reducible] noncomputable def Poly6.integralRounded (p : Poly6 K) (knot : Knot K) : Poly7 K :=
  (HasIntegral.integral (p.mapF Rounded.mk : Poly6 (Rounded M)) (knot.mapF Rounded.mk) : Poly7 (Rounded M)).mapF
    Rounded.val
/-- coefficients computed by `derivative (indefinite p)`, all in `Rounded M` -/
@[reducible] noncomputable def Poly6.derivIndefRounded (p : Poly6 K) : Poly6 K :=
  (HasDerivative.derivative (HasIntegral.indefinite (p.mapF Rounded.mk : Poly6 (Rounded M)) : Poly7 (Rounded M))
    : Poly6 (Rounded M)).mapF Rounded.val
/-- coefficients computed by `indefinite` run in `Rounded M` on the exact coefficients of `p` -/
@[reducible] noncomputable def Poly7.indefiniteRounded (p : Poly7 K) : Poly8 K :=
  (HasIntegral.indefinite (p.mapF Rounded.mk : Poly7 (Rounded M)) : Poly8 (Rounded M)).mapF Rounded.val
/-- coefficients computed by `integral(knot)` run in `Rounded M` -/
@[reducible] noncomputable def Poly7.integralRounded (p : Poly7 K) (knot : Knot K) : Poly8 K :=
  (HasIntegral.integral (p.mapF Rounded.mk : Poly7 (Rounded M)) (knot.mapF Rounded.mk) : Poly8 (Rounded M)).mapF
    Rounded.val
/-- coefficients computed by `derivative (indefinite p)`, all in `Rounded M` -/
@[reducible] noncomputable def Poly7.derivIndefRounded (p : Poly7 K) : Poly7 K :=
  (HasDerivative.derivative (HasIntegral.indefinite (p.mapF Rounded.mk : Poly7 (Rounded M)) : Poly8 (Rounded M))
    : Poly7 (Rounded M)).mapF Rounded.val
end runs

namespace PP.Props.C07Bound
open PP.Lemmas.Rounding PP.Lemmas.CalculusFP PP.Props.C01
variable {K : Type} [Field K] [LinearOrder K] [IsStrictOrderedRing K] [Transc K]

section
attribute [local instance] exactFL

/-! ## the evaluation schemes of degree 1..8 in list form (depth κ = degree, measured) -/
theorem poly1_list_bound (M : RModel K) (r : Poly1 K) (t : K) :
    |r.evalRounded M t - (r._0.a0 + t * polySum [r._0.a1] t)|
      ≤ ((1 + M.u) ^ 1 - 1) * (|r._0.a0| + |t| * polySum (List.map abs [r._0.a1]) |t|) := by
  have h := (r.ctRun M t).bound_le rfl 1 (Nat.le_of_ble_eq_true rfl)
  rw [poly1_ct_e_sum, poly1_ct_A_sum] at h
  have e1 : r._0.a0 + t * polySum [r._0.a1] t = r._0.a0 + r._0.a1 * t := by
    simp only [polySum]; ring
  have e2 : |r._0.a0| + |t| * polySum (List.map abs [r._0.a1]) |t| = |r._0.a0| + |r._0.a1| * |t| := by
    simp only [polySum, List.map_cons, List.map_nil]; ring
  rw [e1, e2]; exact h

theorem poly2_list_bound (M : RModel K) (r : Poly2 K) (t : K) :
    |r.evalRounded M t - (r._0.a0 + t * polySum [r._0.a1, r._0.a2] t)|
      ≤ ((1 + M.u) ^ 2 - 1) * (|r._0.a0| + |t| * polySum (List.map abs [r._0.a1, r._0.a2]) |t|) := by
  have h := (r.ctRun M t).bound_le rfl 2 (Nat.le_of_ble_eq_true rfl)
  rw [poly2_ct_e_sum, poly2_ct_A_sum] at h
  have e1 : r._0.a0 + t * polySum [r._0.a1, r._0.a2] t = r._0.a0 + r._0.a1 * t + r._0.a2 * t ^ 2 := by
    simp only [polySum]; ring
  have e2 : |r._0.a0| + |t| * polySum (List.map abs [r._0.a1, r._0.a2]) |t| = |r._0.a0| + |r._0.a1| * |t| + |r._0.a2| * |t| ^ 2 := by
    simp only [polySum, List.map_cons, List.map_nil]; ring
  rw [e1, e2]; exact h

theorem poly3_list_bound (M : RModel K) (r : Poly3 K) (t : K) :
    |r.evalRounded M t - (r._0.a0 + t * polySum [r._0.a1, r._0.a2, r._0.a3] t)|
      ≤ ((1 + M.u) ^ 3 - 1) * (|r._0.a0| + |t| * polySum (List.map abs [r._0.a1, r._0.a2, r._0.a3]) |t|) := by
  have h := (r.ctRun M t).bound_le rfl 3 (Nat.le_of_ble_eq_true rfl)
  rw [poly3_ct_e_sum, poly3_ct_A_sum] at h
  have e1 : r._0.a0 + t * polySum [r._0.a1, r._0.a2, r._0.a3] t = r._0.a0 + r._0.a1 * t + r._0.a2 * t ^ 2 + r._0.a3 * t ^ 3 := by
    simp only [polySum]; ring
  have e2 : |r._0.a0| + |t| * polySum (List.map abs [r._0.a1, r._0.a2, r._0.a3]) |t| = |r._0.a0| + |r._0.a1| * |t| + |r._0.a2| * |t| ^ 2 + |r._0.a3| * |t| ^ 3 := by
    simp only [polySum, List.map_cons, List.map_nil]; ring
  rw [e1, e2]; exact h

theorem poly4_list_bound (M : RModel K) (r : Poly4 K) (t : K) :
    |r.evalRounded M t - (r._0.a0 + t * polySum [r._0.a1, r._0.a2, r._0.a3, r._0.a4] t)|
      ≤ ((1 + M.u) ^ 4 - 1) * (|r._0.a0| + |t| * polySum (List.map abs [r._0.a1, r._0.a2, r._0.a3, r._0.a4]) |t|) := by
  have h := (r.ctRun M t).bound_le rfl 4 (Nat.le_of_ble_eq_true rfl)
  rw [poly4_ct_e_sum, poly4_ct_A_sum] at h
  have e1 : r._0.a0 + t * polySum [r._0.a1, r._0.a2, r._0.a3, r._0.a4] t = r._0.a0 + r._0.a1 * t + r._0.a2 * t ^ 2 + r._0.a3 * t ^ 3 + r._0.a4 * t ^ 4 := by
    simp only [polySum]; ring
  have e2 : |r._0.a0| + |t| * polySum (List.map abs [r._0.a1, r._0.a2, r._0.a3, r._0.a4]) |t| = |r._0.a0| + |r._0.a1| * |t| + |r._0.a2| * |t| ^ 2 + |r._0.a3| * |t| ^ 3 + |r._0.a4| * |t| ^ 4 := by
    simp only [polySum, List.map_cons, List.map_nil]; ring
  rw [e1, e2]; exact h

theorem poly5_list_bound (M : RModel K) (r : Poly5 K) (t : K) :
    |r.evalRounded M t - (r._0.a0 + t * polySum [r._0.a1, r._0.a2, r._0.a3, r._0.a4, r._0.a5] t)|
      ≤ ((1 + M.u) ^ 5 - 1) * (|r._0.a0| + |t| * polySum (List.map abs [r._0.a1, r._0.a2, r._0.a3, r._0.a4, r._0.a5]) |t|) := by
  have h := (r.ctRun M t).bound_le rfl 5 (Nat.le_of_ble_eq_true rfl)
  rw [poly5_ct_e_sum, poly5_ct_A_sum] at h
  have e1 : r._0.a0 + t * polySum [r._0.a1, r._0.a2, r._0.a3, r._0.a4, r._0.a5] t = r._0.a0 + r._0.a1 * t + r._0.a2 * t ^ 2 + r._0.a3 * t ^ 3 + r._0.a4 * t ^ 4 + r._0.a5 * t ^ 5 := by
    simp only [polySum]; ring
  have e2 : |r._0.a0| + |t| * polySum (List.map abs [r._0.a1, r._0.a2, r._0.a3, r._0.a4, r._0.a5]) |t| = |r._0.a0| + |r._0.a1| * |t| + |r._0.a2| * |t| ^ 2 + |r._0.a3| * |t| ^ 3 + |r._0.a4| * |t| ^ 4 + |r._0.a5| * |t| ^ 5 := by
    simp only [polySum, List.map_cons, List.map_nil]; ring
  rw [e1, e2]; exact h

theorem poly6_list_bound (M : RModel K) (r : Poly6 K) (t : K) :
    |r.evalRounded M t - (r._0.a0 + t * polySum [r._0.a1, r._0.a2, r._0.a3, r._0.a4, r._0.a5, r._0.a6] t)|
      ≤ ((1 + M.u) ^ 6 - 1) * (|r._0.a0| + |t| * polySum (List.map abs [r._0.a1, r._0.a2, r._0.a3, r._0.a4, r._0.a5, r._0.a6]) |t|) := by
  have h := (r.ctRun M t).bound_le rfl 6 (Nat.le_of_ble_eq_true rfl)
  rw [poly6_ct_e_sum, poly6_ct_A_sum] at h
  have e1 : r._0.a0 + t * polySum [r._0.a1, r._0.a2, r._0.a3, r._0.a4, r._0.a5, r._0.a6] t = r._0.a0 + r._0.a1 * t + r._0.a2 * t ^ 2 + r._0.a3 * t ^ 3 + r._0.a4 * t ^ 4 + r._0.a5 * t ^ 5 + r._0.a6 * t ^ 6 := by
    simp only [polySum]; ring
  have e2 : |r._0.a0| + |t| * polySum (List.map abs [r._0.a1, r._0.a2, r._0.a3, r._0.a4, r._0.a5, r._0.a6]) |t| = |r._0.a0| + |r._0.a1| * |t| + |r._0.a2| * |t| ^ 2 + |r._0.a3| * |t| ^ 3 + |r._0.a4| * |t| ^ 4 + |r._0.a5| * |t| ^ 5 + |r._0.a6| * |t| ^ 6 := by
    simp only [polySum, List.map_cons, List.map_nil]; ring
  rw [e1, e2]; exact h

theorem poly7_list_bound (M : RModel K) (r : Poly7 K) (t : K) :
    |r.evalRounded M t - (r._0.a0 + t * polySum [r._0.a1, r._0.a2, r._0.a3, r._0.a4, r._0.a5, r._0.a6, r._0.a7] t)|
      ≤ ((1 + M.u) ^ 7 - 1) * (|r._0.a0| + |t| * polySum (List.map abs [r._0.a1, r._0.a2, r._0.a3, r._0.a4, r._0.a5, r._0.a6, r._0.a7]) |t|) := by
  have h := (r.ctRun M t).bound_le rfl 7 (Nat.le_of_ble_eq_true rfl)
  rw [poly7_ct_e_sum, poly7_ct_A_sum] at h
  have e1 : r._0.a0 + t * polySum [r._0.a1, r._0.a2, r._0.a3, r._0.a4, r._0.a5, r._0.a6, r._0.a7] t = r._0.a0 + r._0.a1 * t + r._0.a2 * t ^ 2 + r._0.a3 * t ^ 3 + r._0.a4 * t ^ 4 + r._0.a5 * t ^ 5 + r._0.a6 * t ^ 6 + r._0.a7 * t ^ 7 := by
    simp only [polySum]; ring
  have e2 : |r._0.a0| + |t| * polySum (List.map abs [r._0.a1, r._0.a2, r._0.a3, r._0.a4, r._0.a5, r._0.a6, r._0.a7]) |t| = |r._0.a0| + |r._0.a1| * |t| + |r._0.a2| * |t| ^ 2 + |r._0.a3| * |t| ^ 3 + |r._0.a4| * |t| ^ 4 + |r._0.a5| * |t| ^ 5 + |r._0.a6| * |t| ^ 6 + |r._0.a7| * |t| ^ 7 := by
    simp only [polySum, List.map_cons, List.map_nil]; ring
  rw [e1, e2]; exact h

theorem poly8_list_bound (M : RModel K) (r : Poly8 K) (t : K) :
    |r.evalRounded M t - (r._0.a0 + t * polySum [r._0.a1, r._0.a2, r._0.a3, r._0.a4, r._0.a5, r._0.a6, r._0.a7, r._0.a8] t)|
      ≤ ((1 + M.u) ^ 8 - 1) * (|r._0.a0| + |t| * polySum (List.map abs [r._0.a1, r._0.a2, r._0.a3, r._0.a4, r._0.a5, r._0.a6, r._0.a7, r._0.a8]) |t|) := by
  have h := (r.ctRun M t).bound_le rfl 8 (Nat.le_of_ble_eq_true rfl)
  rw [poly8_ct_e_sum, poly8_ct_A_sum] at h
  have e1 : r._0.a0 + t * polySum [r._0.a1, r._0.a2, r._0.a3, r._0.a4, r._0.a5, r._0.a6, r._0.a7, r._0.a8] t = r._0.a0 + r._0.a1 * t + r._0.a2 * t ^ 2 + r._0.a3 * t ^ 3 + r._0.a4 * t ^ 4 + r._0.a5 * t ^ 5 + r._0.a6 * t ^ 6 + r._0.a7 * t ^ 7 + r._0.a8 * t ^ 8 := by
    simp only [polySum]; ring
  have e2 : |r._0.a0| + |t| * polySum (List.map abs [r._0.a1, r._0.a2, r._0.a3, r._0.a4, r._0.a5, r._0.a6, r._0.a7, r._0.a8]) |t| = |r._0.a0| + |r._0.a1| * |t| + |r._0.a2| * |t| ^ 2 + |r._0.a3| * |t| ^ 3 + |r._0.a4| * |t| ^ 4 + |r._0.a5| * |t| ^ 5 + |r._0.a6| * |t| ^ 6 + |r._0.a7| * |t| ^ 7 + |r._0.a8| * |t| ^ 8 := by
    simp only [polySum, List.map_cons, List.map_nil]; ring
  rw [e1, e2]; exact h

/-! ## degree 0 -/

/-- **(1)** the coefficients computed by `indefinite`: constant term exactly 0, `c₀` copied, `cᵢ/(i+1)` within
`2u/(1−u)` (rounded divisor literal) -/
theorem poly0_indefinite_coeff_rounding (M : RModel K) (p : Poly0 K) :
    (p.indefiniteRounded M)._0.a0 = 0
      ∧ (p.indefiniteRounded M)._0.a1 = p._0 :=
  ⟨lit_zero M 0,
   rfl⟩

/-- (1, representable literals) `cᵢ/(i+1)` within `u` when the literals `2 … n+1` (here: up to 1) are fixed by `rnd` -/
theorem poly0_indefinite_coeff_rounding_fixed (M : RModel K) (hlit : LitFixed M 1) (p : Poly0 K) :
    (p.indefiniteRounded M)._0.a0 = 0
      ∧ (p.indefiniteRounded M)._0.a1 = p._0 :=
  ⟨lit_zero M 0,
   rfl⟩

theorem poly0_rel (M : RModel K) (p : Poly0 K) :
    List.Forall₂ (Rel (2 * M.u / (1 - M.u))) [(p.indefiniteRounded M)._0.a1] [p._0] := by
  obtain ⟨h0, h1⟩ := poly0_indefinite_coeff_rounding M p
  exact List.Forall₂.cons (Rel.of_eq (eta_nonneg M.hu M.hu1) h1) List.Forall₂.nil

theorem poly0_S_eq (p : Poly0 K) (t : K) :
    |t| * polySum (List.map abs [p._0]) |t| = |p._0| * |t| := by
  simp only [polySum, List.map_cons, List.map_nil]; ring

theorem poly0_P_eq (p : Poly0 K) (t : K) :
    t * polySum [p._0] t = p._0 * t := by
  simp only [polySum]; ring

/-- (2, structure) `integral p knot` computed in `Rounded M`: the coefficients of `indefinite p`, with the constant
term `rnd (0 + rnd (knot.y − Ê))` where `Ê` is the rounded value of `indefinite p` at `knot.x` -/
theorem poly0_integral_lanes_rounded (M : RModel K) (p : Poly0 K) (knot : Knot K) :
    p.integralRounded M knot =
      ⟨⟨M.rnd ((p.indefiniteRounded M)._0.a0 + M.rnd (knot.y - (p.indefiniteRounded M).evalRounded M knot.x)), (p.indefiniteRounded M)._0.a1⟩⟩ := rfl

/-- **(2)** "its value at knot.x is knot.y (within rounding)": the rounded evaluation of the rounded `integral p knot`
at `knot.x`; `C_0 = 3·0+6` -/
theorem poly0_integral_at_knot_rounding (M : RModel K) (hu : M.u ≤ (2 : K) ^ (-53 : ℤ)) (p : Poly0 K) (knot : Knot K) :
    |(p.integralRounded M knot).evalRounded M knot.x - knot.y|
      ≤ (3 * 0 + 6) * M.u * (|knot.y| + (|p._0| * |knot.x|)) := by
  have key := knot_defect M hu 1 (by norm_num) (poly0_rel M p) knot.x knot.y ((p.indefiniteRounded M)._0.a0)
    ((p.indefiniteRounded M).evalRounded M knot.x) ((p.integralRounded M knot)._0.a0) ((p.integralRounded M knot).evalRounded M knot.x) (lit_zero M 0)
    (poly1_list_bound M (p.indefiniteRounded M) knot.x) rfl (poly1_list_bound M (p.integralRounded M knot) knot.x)
  rw [poly0_S_eq] at key
  refine key.trans (le_of_eq ?_)
  push_cast; ring

/-- (2, exact evaluation) the computed coefficients of `integral p knot`, evaluated EXACTLY at `knot.x` -/
theorem poly0_integral_at_knot_exact_eval (M : RModel K) (hu : M.u ≤ (2 : K) ^ (-53 : ℤ)) (p : Poly0 K) (knot : Knot K) :
    |Evaluate.evaluate (p.integralRounded M knot) knot.x - knot.y|
      ≤ (0 + 4) * M.u * (|knot.y| + (|p._0| * |knot.x|)) := by
  have key := knot_defect_exact M hu 1 (by norm_num) (poly0_rel M p) knot.x knot.y ((p.indefiniteRounded M)._0.a0)
    ((p.indefiniteRounded M).evalRounded M knot.x) ((p.integralRounded M knot)._0.a0) (lit_zero M 0) (poly1_list_bound M (p.indefiniteRounded M) knot.x) rfl
  have e : Evaluate.evaluate (p.integralRounded M knot) knot.x
      = (p.integralRounded M knot)._0.a0 + knot.x * polySum [(p.indefiniteRounded M)._0.a1] knot.x := by
    rw [poly1_eval, poly0_integral_lanes_rounded]
    simp only [polySum]; ring
  rw [e]
  rw [poly0_S_eq] at key
  refine key.trans (le_of_eq ?_)
  push_cast; ring

/-- **(3)** `F̂(b) − F̂(a)` against the exact integral `P(b) − P(a)` of `p` over `[a, b]`, all `a b` -/
theorem poly0_integral_difference_rounding (M : RModel K) (hu : M.u ≤ (2 : K) ^ (-53 : ℤ)) (p : Poly0 K)
    (knot : Knot K) (a b : K) :
    |(p.integralRounded M knot).evalRounded M b - (p.integralRounded M knot).evalRounded M a
        - ((p._0 * b) - (p._0 * a))|
      ≤ (0 + 4) * M.u * ((|p._0| * |a|) + (|p._0| * |b|)
          + 2 * |(p.integralRounded M knot)._0.a0|) := by
  have key := difference_defect M hu 1 (by norm_num) (poly0_rel M p) a b ((p.integralRounded M knot)._0.a0)
    ((p.integralRounded M knot).evalRounded M a) ((p.integralRounded M knot).evalRounded M b)
    (poly1_list_bound M (p.integralRounded M knot) a) (poly1_list_bound M (p.integralRounded M knot) b)
  rw [poly0_S_eq, poly0_S_eq, poly0_P_eq, poly0_P_eq] at key
  refine key.trans (le_of_eq ?_)
  push_cast; ring

/-- **(4)** `derivative (indefinite p)` in `Rounded M` is `p` exactly (degree 0: no arithmetic) -/
theorem poly0_derivative_indefinite_rounding (M : RModel K) (p : Poly0 K) :
    (p.derivIndefRounded M)._0 = p._0 := rfl

/-! ## degree 1 -/

/-- **(1)** the coefficients computed by `indefinite`: constant term exactly 0, `c₀` copied, `cᵢ/(i+1)` within
`2u/(1−u)` (rounded divisor literal) -/
theorem poly1_indefinite_coeff_rounding (M : RModel K) (p : Poly1 K) :
    (p.indefiniteRounded M)._0.a0 = 0
      ∧ (p.indefiniteRounded M)._0.a1 = p._0.a0
      ∧ |(p.indefiniteRounded M)._0.a2 - p._0.a1 / 2| ≤ 2 * M.u / (1 - M.u) * |p._0.a1 / 2| :=
  ⟨lit_zero M 0,
   rfl,
   div_lit_close M (p._0.a1) (l := ((((2 : ℤ)) : K) * (10 : K) ^ (0 : ℤ))) (q := 2) (by norm_num) (by norm_num)⟩

/-- (1, representable literals) `cᵢ/(i+1)` within `u` when the literals `2 … n+1` (here: up to 2) are fixed by `rnd` -/
theorem poly1_indefinite_coeff_rounding_fixed (M : RModel K) (hlit : LitFixed M 2) (p : Poly1 K) :
    (p.indefiniteRounded M)._0.a0 = 0
      ∧ (p.indefiniteRounded M)._0.a1 = p._0.a0
      ∧ |(p.indefiniteRounded M)._0.a2 - p._0.a1 / 2| ≤ M.u * |p._0.a1 / 2| :=
  ⟨lit_zero M 0,
   rfl,
   div_lit_fixed M (p._0.a1) (l := ((((2 : ℤ)) : K) * (10 : K) ^ (0 : ℤ))) (q := 2) (by norm_num)
     (hlit.get 2 (by norm_num) (by norm_num) (by norm_num))⟩

theorem poly1_rel (M : RModel K) (p : Poly1 K) :
    List.Forall₂ (Rel (2 * M.u / (1 - M.u))) [(p.indefiniteRounded M)._0.a1, (p.indefiniteRounded M)._0.a2] [p._0.a0, p._0.a1 / 2] := by
  obtain ⟨h0, h1, h2⟩ := poly1_indefinite_coeff_rounding M p
  exact List.Forall₂.cons (Rel.of_eq (eta_nonneg M.hu M.hu1) h1) (List.Forall₂.cons h2 List.Forall₂.nil)

theorem poly1_S_eq (p : Poly1 K) (t : K) :
    |t| * polySum (List.map abs [p._0.a0, p._0.a1 / 2]) |t| = |p._0.a0| * |t| + |p._0.a1 / 2| * |t| ^ 2 := by
  simp only [polySum, List.map_cons, List.map_nil]; ring

theorem poly1_P_eq (p : Poly1 K) (t : K) :
    t * polySum [p._0.a0, p._0.a1 / 2] t = p._0.a0 * t + p._0.a1 / 2 * t ^ 2 := by
  simp only [polySum]; ring

/-- (2, structure) `integral p knot` computed in `Rounded M`: the coefficients of `indefinite p`, with the constant
term `rnd (0 + rnd (knot.y − Ê))` where `Ê` is the rounded value of `indefinite p` at `knot.x` -/
theorem poly1_integral_lanes_rounded (M : RModel K) (p : Poly1 K) (knot : Knot K) :
    p.integralRounded M knot =
      ⟨⟨M.rnd ((p.indefiniteRounded M)._0.a0 + M.rnd (knot.y - (p.indefiniteRounded M).evalRounded M knot.x)), (p.indefiniteRounded M)._0.a1, (p.indefiniteRounded M)._0.a2⟩⟩ := rfl

/-- **(2)** "its value at knot.x is knot.y (within rounding)": the rounded evaluation of the rounded `integral p knot`
at `knot.x`; `C_1 = 3·1+6` -/
theorem poly1_integral_at_knot_rounding (M : RModel K) (hu : M.u ≤ (2 : K) ^ (-53 : ℤ)) (p : Poly1 K) (knot : Knot K) :
    |(p.integralRounded M knot).evalRounded M knot.x - knot.y|
      ≤ (3 * 1 + 6) * M.u * (|knot.y| + (|p._0.a0| * |knot.x| + |p._0.a1 / 2| * |knot.x| ^ 2)) := by
  have key := knot_defect M hu 2 (by norm_num) (poly1_rel M p) knot.x knot.y ((p.indefiniteRounded M)._0.a0)
    ((p.indefiniteRounded M).evalRounded M knot.x) ((p.integralRounded M knot)._0.a0) ((p.integralRounded M knot).evalRounded M knot.x) (lit_zero M 0)
    (poly2_list_bound M (p.indefiniteRounded M) knot.x) rfl (poly2_list_bound M (p.integralRounded M knot) knot.x)
  rw [poly1_S_eq] at key
  refine key.trans (le_of_eq ?_)
  push_cast; ring

/-- (2, exact evaluation) the computed coefficients of `integral p knot`, evaluated EXACTLY at `knot.x` -/
theorem poly1_integral_at_knot_exact_eval (M : RModel K) (hu : M.u ≤ (2 : K) ^ (-53 : ℤ)) (p : Poly1 K) (knot : Knot K) :
    |Evaluate.evaluate (p.integralRounded M knot) knot.x - knot.y|
      ≤ (1 + 4) * M.u * (|knot.y| + (|p._0.a0| * |knot.x| + |p._0.a1 / 2| * |knot.x| ^ 2)) := by
  have key := knot_defect_exact M hu 2 (by norm_num) (poly1_rel M p) knot.x knot.y ((p.indefiniteRounded M)._0.a0)
    ((p.indefiniteRounded M).evalRounded M knot.x) ((p.integralRounded M knot)._0.a0) (lit_zero M 0) (poly2_list_bound M (p.indefiniteRounded M) knot.x) rfl
  have e : Evaluate.evaluate (p.integralRounded M knot) knot.x
      = (p.integralRounded M knot)._0.a0 + knot.x * polySum [(p.indefiniteRounded M)._0.a1, (p.indefiniteRounded M)._0.a2] knot.x := by
    rw [poly2_eval, poly1_integral_lanes_rounded]
    simp only [polySum]; ring
  rw [e]
  rw [poly1_S_eq] at key
  refine key.trans (le_of_eq ?_)
  push_cast; ring

/-- **(3)** `F̂(b) − F̂(a)` against the exact integral `P(b) − P(a)` of `p` over `[a, b]`, all `a b` -/
theorem poly1_integral_difference_rounding (M : RModel K) (hu : M.u ≤ (2 : K) ^ (-53 : ℤ)) (p : Poly1 K)
    (knot : Knot K) (a b : K) :
    |(p.integralRounded M knot).evalRounded M b - (p.integralRounded M knot).evalRounded M a
        - ((p._0.a0 * b + p._0.a1 / 2 * b ^ 2) - (p._0.a0 * a + p._0.a1 / 2 * a ^ 2))|
      ≤ (1 + 4) * M.u * ((|p._0.a0| * |a| + |p._0.a1 / 2| * |a| ^ 2) + (|p._0.a0| * |b| + |p._0.a1 / 2| * |b| ^ 2)
          + 2 * |(p.integralRounded M knot)._0.a0|) := by
  have key := difference_defect M hu 2 (by norm_num) (poly1_rel M p) a b ((p.integralRounded M knot)._0.a0)
    ((p.integralRounded M knot).evalRounded M a) ((p.integralRounded M knot).evalRounded M b)
    (poly2_list_bound M (p.integralRounded M knot) a) (poly2_list_bound M (p.integralRounded M knot) b)
  rw [poly1_S_eq, poly1_S_eq, poly1_P_eq, poly1_P_eq] at key
  refine key.trans (le_of_eq ?_)
  push_cast; ring

/-- **(4)** `derivative (indefinite p)`, all in `Rounded M`, returns `p` coefficient-wise within `(2u + u²)|cᵢ|`
(the rounded literal `i+1` cancels: no representability assumption) -/
theorem poly1_derivative_indefinite_rounding (M : RModel K) (p : Poly1 K) :
    (p.derivIndefRounded M)._0.a0 = p._0.a0
      ∧ |(p.derivIndefRounded M)._0.a1 - p._0.a1| ≤ (2 * M.u + M.u ^ 2) * |p._0.a1| :=
  ⟨rfl,
   mul_div_lit_close M (p._0.a1) (l := ((((2 : ℤ)) : K) * (10 : K) ^ (0 : ℤ))) (q := 2) (by norm_num) (by norm_num)⟩

/-! ## degree 2 -/

/-- **(1)** the coefficients computed by `indefinite`: constant term exactly 0, `c₀` copied, `cᵢ/(i+1)` within
`2u/(1−u)` (rounded divisor literal) -/
theorem poly2_indefinite_coeff_rounding (M : RModel K) (p : Poly2 K) :
    (p.indefiniteRounded M)._0.a0 = 0
      ∧ (p.indefiniteRounded M)._0.a1 = p._0.a0
      ∧ |(p.indefiniteRounded M)._0.a2 - p._0.a1 / 2| ≤ 2 * M.u / (1 - M.u) * |p._0.a1 / 2|
      ∧ |(p.indefiniteRounded M)._0.a3 - p._0.a2 / 3| ≤ 2 * M.u / (1 - M.u) * |p._0.a2 / 3| :=
  ⟨lit_zero M 0,
   rfl,
   div_lit_close M (p._0.a1) (l := ((((2 : ℤ)) : K) * (10 : K) ^ (0 : ℤ))) (q := 2) (by norm_num) (by norm_num),
   div_lit_close M (p._0.a2) (l := ((((3 : ℤ)) : K) * (10 : K) ^ (0 : ℤ))) (q := 3) (by norm_num) (by norm_num)⟩

/-- (1, representable literals) `cᵢ/(i+1)` within `u` when the literals `2 … n+1` (here: up to 3) are fixed by `rnd` -/
theorem poly2_indefinite_coeff_rounding_fixed (M : RModel K) (hlit : LitFixed M 3) (p : Poly2 K) :
    (p.indefiniteRounded M)._0.a0 = 0
      ∧ (p.indefiniteRounded M)._0.a1 = p._0.a0
      ∧ |(p.indefiniteRounded M)._0.a2 - p._0.a1 / 2| ≤ M.u * |p._0.a1 / 2|
      ∧ |(p.indefiniteRounded M)._0.a3 - p._0.a2 / 3| ≤ M.u * |p._0.a2 / 3| :=
  ⟨lit_zero M 0,
   rfl,
   div_lit_fixed M (p._0.a1) (l := ((((2 : ℤ)) : K) * (10 : K) ^ (0 : ℤ))) (q := 2) (by norm_num)
     (hlit.get 2 (by norm_num) (by norm_num) (by norm_num)),
   div_lit_fixed M (p._0.a2) (l := ((((3 : ℤ)) : K) * (10 : K) ^ (0 : ℤ))) (q := 3) (by norm_num)
     (hlit.get 3 (by norm_num) (by norm_num) (by norm_num))⟩

theorem poly2_rel (M : RModel K) (p : Poly2 K) :
    List.Forall₂ (Rel (2 * M.u / (1 - M.u))) [(p.indefiniteRounded M)._0.a1, (p.indefiniteRounded M)._0.a2, (p.indefiniteRounded M)._0.a3] [p._0.a0, p._0.a1 / 2, p._0.a2 / 3] := by
  obtain ⟨h0, h1, h2, h3⟩ := poly2_indefinite_coeff_rounding M p
  exact List.Forall₂.cons (Rel.of_eq (eta_nonneg M.hu M.hu1) h1) (List.Forall₂.cons h2 (List.Forall₂.cons h3 List.Forall₂.nil))

theorem poly2_S_eq (p : Poly2 K) (t : K) :
    |t| * polySum (List.map abs [p._0.a0, p._0.a1 / 2, p._0.a2 / 3]) |t| = |p._0.a0| * |t| + |p._0.a1 / 2| * |t| ^ 2 + |p._0.a2 / 3| * |t| ^ 3 := by
  simp only [polySum, List.map_cons, List.map_nil]; ring

theorem poly2_P_eq (p : Poly2 K) (t : K) :
    t * polySum [p._0.a0, p._0.a1 / 2, p._0.a2 / 3] t = p._0.a0 * t + p._0.a1 / 2 * t ^ 2 + p._0.a2 / 3 * t ^ 3 := by
  simp only [polySum]; ring

/-- (2, structure) `integral p knot` computed in `Rounded M`: the coefficients of `indefinite p`, with the constant
term `rnd (0 + rnd (knot.y − Ê))` where `Ê` is the rounded value of `indefinite p` at `knot.x` -/
theorem poly2_integral_lanes_rounded (M : RModel K) (p : Poly2 K) (knot : Knot K) :
    p.integralRounded M knot =
      ⟨⟨M.rnd ((p.indefiniteRounded M)._0.a0 + M.rnd (knot.y - (p.indefiniteRounded M).evalRounded M knot.x)), (p.indefiniteRounded M)._0.a1, (p.indefiniteRounded M)._0.a2, (p.indefiniteRounded M)._0.a3⟩⟩ := rfl

/-- **(2)** "its value at knot.x is knot.y (within rounding)": the rounded evaluation of the rounded `integral p knot`
at `knot.x`; `C_2 = 3·2+6` -/
theorem poly2_integral_at_knot_rounding (M : RModel K) (hu : M.u ≤ (2 : K) ^ (-53 : ℤ)) (p : Poly2 K) (knot : Knot K) :
    |(p.integralRounded M knot).evalRounded M knot.x - knot.y|
      ≤ (3 * 2 + 6) * M.u * (|knot.y| + (|p._0.a0| * |knot.x| + |p._0.a1 / 2| * |knot.x| ^ 2 + |p._0.a2 / 3| * |knot.x| ^ 3)) := by
  have key := knot_defect M hu 3 (by norm_num) (poly2_rel M p) knot.x knot.y ((p.indefiniteRounded M)._0.a0)
    ((p.indefiniteRounded M).evalRounded M knot.x) ((p.integralRounded M knot)._0.a0) ((p.integralRounded M knot).evalRounded M knot.x) (lit_zero M 0)
    (poly3_list_bound M (p.indefiniteRounded M) knot.x) rfl (poly3_list_bound M (p.integralRounded M knot) knot.x)
  rw [poly2_S_eq] at key
  refine key.trans (le_of_eq ?_)
  push_cast; ring

/-- (2, exact evaluation) the computed coefficients of `integral p knot`, evaluated EXACTLY at `knot.x` -/
theorem poly2_integral_at_knot_exact_eval (M : RModel K) (hu : M.u ≤ (2 : K) ^ (-53 : ℤ)) (p : Poly2 K) (knot : Knot K) :
    |Evaluate.evaluate (p.integralRounded M knot) knot.x - knot.y|
      ≤ (2 + 4) * M.u * (|knot.y| + (|p._0.a0| * |knot.x| + |p._0.a1 / 2| * |knot.x| ^ 2 + |p._0.a2 / 3| * |knot.x| ^ 3)) := by
  have key := knot_defect_exact M hu 3 (by norm_num) (poly2_rel M p) knot.x knot.y ((p.indefiniteRounded M)._0.a0)
    ((p.indefiniteRounded M).evalRounded M knot.x) ((p.integralRounded M knot)._0.a0) (lit_zero M 0) (poly3_list_bound M (p.indefiniteRounded M) knot.x) rfl
  have e : Evaluate.evaluate (p.integralRounded M knot) knot.x
      = (p.integralRounded M knot)._0.a0 + knot.x * polySum [(p.indefiniteRounded M)._0.a1, (p.indefiniteRounded M)._0.a2, (p.indefiniteRounded M)._0.a3] knot.x := by
    rw [poly3_eval, poly2_integral_lanes_rounded]
    simp only [polySum]; ring
  rw [e]
  rw [poly2_S_eq] at key
  refine key.trans (le_of_eq ?_)
  push_cast; ring

/-- **(3)** `F̂(b) − F̂(a)` against the exact integral `P(b) − P(a)` of `p` over `[a, b]`, all `a b` -/
theorem poly2_integral_difference_rounding (M : RModel K) (hu : M.u ≤ (2 : K) ^ (-53 : ℤ)) (p : Poly2 K)
    (knot : Knot K) (a b : K) :
    |(p.integralRounded M knot).evalRounded M b - (p.integralRounded M knot).evalRounded M a
        - ((p._0.a0 * b + p._0.a1 / 2 * b ^ 2 + p._0.a2 / 3 * b ^ 3) - (p._0.a0 * a + p._0.a1 / 2 * a ^ 2 + p._0.a2 / 3 * a ^ 3))|
      ≤ (2 + 4) * M.u * ((|p._0.a0| * |a| + |p._0.a1 / 2| * |a| ^ 2 + |p._0.a2 / 3| * |a| ^ 3) + (|p._0.a0| * |b| + |p._0.a1 / 2| * |b| ^ 2 + |p._0.a2 / 3| * |b| ^ 3)
          + 2 * |(p.integralRounded M knot)._0.a0|) := by
  have key := difference_defect M hu 3 (by norm_num) (poly2_rel M p) a b ((p.integralRounded M knot)._0.a0)
    ((p.integralRounded M knot).evalRounded M a) ((p.integralRounded M knot).evalRounded M b)
    (poly3_list_bound M (p.integralRounded M knot) a) (poly3_list_bound M (p.integralRounded M knot) b)
  rw [poly2_S_eq, poly2_S_eq, poly2_P_eq, poly2_P_eq] at key
  refine key.trans (le_of_eq ?_)
  push_cast; ring

/-- **(4)** `derivative (indefinite p)`, all in `Rounded M`, returns `p` coefficient-wise within `(2u + u²)|cᵢ|`
(the rounded literal `i+1` cancels: no representability assumption) -/
theorem poly2_derivative_indefinite_rounding (M : RModel K) (p : Poly2 K) :
    (p.derivIndefRounded M)._0.a0 = p._0.a0
      ∧ |(p.derivIndefRounded M)._0.a1 - p._0.a1| ≤ (2 * M.u + M.u ^ 2) * |p._0.a1|
      ∧ |(p.derivIndefRounded M)._0.a2 - p._0.a2| ≤ (2 * M.u + M.u ^ 2) * |p._0.a2| :=
  ⟨rfl,
   mul_div_lit_close M (p._0.a1) (l := ((((2 : ℤ)) : K) * (10 : K) ^ (0 : ℤ))) (q := 2) (by norm_num) (by norm_num),
   mul_div_lit_close M (p._0.a2) (l := ((((3 : ℤ)) : K) * (10 : K) ^ (0 : ℤ))) (q := 3) (by norm_num) (by norm_num)⟩

/-! ## degree 3 -/

/-- **(1)** the coefficients computed by `indefinite`: constant term exactly 0, `c₀` copied, `cᵢ/(i+1)` within
`2u/(1−u)` (rounded divisor literal) -/
theorem poly3_indefinite_coeff_rounding (M : RModel K) (p : Poly3 K) :
    (p.indefiniteRounded M)._0.a0 = 0
      ∧ (p.indefiniteRounded M)._0.a1 = p._0.a0
      ∧ |(p.indefiniteRounded M)._0.a2 - p._0.a1 / 2| ≤ 2 * M.u / (1 - M.u) * |p._0.a1 / 2|
      ∧ |(p.indefiniteRounded M)._0.a3 - p._0.a2 / 3| ≤ 2 * M.u / (1 - M.u) * |p._0.a2 / 3|
      ∧ |(p.indefiniteRounded M)._0.a4 - p._0.a3 / 4| ≤ 2 * M.u / (1 - M.u) * |p._0.a3 / 4| :=
  ⟨lit_zero M 0,
   rfl,
   div_lit_close M (p._0.a1) (l := ((((2 : ℤ)) : K) * (10 : K) ^ (0 : ℤ))) (q := 2) (by norm_num) (by norm_num),
   div_lit_close M (p._0.a2) (l := ((((3 : ℤ)) : K) * (10 : K) ^ (0 : ℤ))) (q := 3) (by norm_num) (by norm_num),
   div_lit_close M (p._0.a3) (l := ((((4 : ℤ)) : K) * (10 : K) ^ (0 : ℤ))) (q := 4) (by norm_num) (by norm_num)⟩

/-- (1, representable literals) `cᵢ/(i+1)` within `u` when the literals `2 … n+1` (here: up to 4) are fixed by `rnd` -/
theorem poly3_indefinite_coeff_rounding_fixed (M : RModel K) (hlit : LitFixed M 4) (p : Poly3 K) :
    (p.indefiniteRounded M)._0.a0 = 0
      ∧ (p.indefiniteRounded M)._0.a1 = p._0.a0
      ∧ |(p.indefiniteRounded M)._0.a2 - p._0.a1 / 2| ≤ M.u * |p._0.a1 / 2|
      ∧ |(p.indefiniteRounded M)._0.a3 - p._0.a2 / 3| ≤ M.u * |p._0.a2 / 3|
      ∧ |(p.indefiniteRounded M)._0.a4 - p._0.a3 / 4| ≤ M.u * |p._0.a3 / 4| :=
  ⟨lit_zero M 0,
   rfl,
   div_lit_fixed M (p._0.a1) (l := ((((2 : ℤ)) : K) * (10 : K) ^ (0 : ℤ))) (q := 2) (by norm_num)
     (hlit.get 2 (by norm_num) (by norm_num) (by norm_num)),
   div_lit_fixed M (p._0.a2) (l := ((((3 : ℤ)) : K) * (10 : K) ^ (0 : ℤ))) (q := 3) (by norm_num)
     (hlit.get 3 (by norm_num) (by norm_num) (by norm_num)),
   div_lit_fixed M (p._0.a3) (l := ((((4 : ℤ)) : K) * (10 : K) ^ (0 : ℤ))) (q := 4) (by norm_num)
     (hlit.get 4 (by norm_num) (by norm_num) (by norm_num))⟩

theorem poly3_rel (M : RModel K) (p : Poly3 K) :
    List.Forall₂ (Rel (2 * M.u / (1 - M.u))) [(p.indefiniteRounded M)._0.a1, (p.indefiniteRounded M)._0.a2, (p.indefiniteRounded M)._0.a3, (p.indefiniteRounded M)._0.a4] [p._0.a0, p._0.a1 / 2, p._0.a2 / 3, p._0.a3 / 4] := by
  obtain ⟨h0, h1, h2, h3, h4⟩ := poly3_indefinite_coeff_rounding M p
  exact List.Forall₂.cons (Rel.of_eq (eta_nonneg M.hu M.hu1) h1) (List.Forall₂.cons h2 (List.Forall₂.cons h3 (List.Forall₂.cons h4 List.Forall₂.nil)))

theorem poly3_S_eq (p : Poly3 K) (t : K) :
    |t| * polySum (List.map abs [p._0.a0, p._0.a1 / 2, p._0.a2 / 3, p._0.a3 / 4]) |t| = |p._0.a0| * |t| + |p._0.a1 / 2| * |t| ^ 2 + |p._0.a2 / 3| * |t| ^ 3 + |p._0.a3 / 4| * |t| ^ 4 := by
  simp only [polySum, List.map_cons, List.map_nil]; ring

theorem poly3_P_eq (p : Poly3 K) (t : K) :
    t * polySum [p._0.a0, p._0.a1 / 2, p._0.a2 / 3, p._0.a3 / 4] t = p._0.a0 * t + p._0.a1 / 2 * t ^ 2 + p._0.a2 / 3 * t ^ 3 + p._0.a3 / 4 * t ^ 4 := by
  simp only [polySum]; ring

/-- (2, structure) `integral p knot` computed in `Rounded M`: the coefficients of `indefinite p`, with the constant
term `rnd (0 + rnd (knot.y − Ê))` where `Ê` is the rounded value of `indefinite p` at `knot.x` -/
theorem poly3_integral_lanes_rounded (M : RModel K) (p : Poly3 K) (knot : Knot K) :
    p.integralRounded M knot =
      ⟨⟨M.rnd ((p.indefiniteRounded M)._0.a0 + M.rnd (knot.y - (p.indefiniteRounded M).evalRounded M knot.x)), (p.indefiniteRounded M)._0.a1, (p.indefiniteRounded M)._0.a2, (p.indefiniteRounded M)._0.a3, (p.indefiniteRounded M)._0.a4⟩⟩ := rfl

/-- **(2)** "its value at knot.x is knot.y (within rounding)": the rounded evaluation of the rounded `integral p knot`
at `knot.x`; `C_3 = 3·3+6` -/
theorem poly3_integral_at_knot_rounding (M : RModel K) (hu : M.u ≤ (2 : K) ^ (-53 : ℤ)) (p : Poly3 K) (knot : Knot K) :
    |(p.integralRounded M knot).evalRounded M knot.x - knot.y|
      ≤ (3 * 3 + 6) * M.u * (|knot.y| + (|p._0.a0| * |knot.x| + |p._0.a1 / 2| * |knot.x| ^ 2 + |p._0.a2 / 3| * |knot.x| ^ 3 + |p._0.a3 / 4| * |knot.x| ^ 4)) := by
  have key := knot_defect M hu 4 (by norm_num) (poly3_rel M p) knot.x knot.y ((p.indefiniteRounded M)._0.a0)
    ((p.indefiniteRounded M).evalRounded M knot.x) ((p.integralRounded M knot)._0.a0) ((p.integralRounded M knot).evalRounded M knot.x) (lit_zero M 0)
    (poly4_list_bound M (p.indefiniteRounded M) knot.x) rfl (poly4_list_bound M (p.integralRounded M knot) knot.x)
  rw [poly3_S_eq] at key
  refine key.trans (le_of_eq ?_)
  push_cast; ring

/-- (2, exact evaluation) the computed coefficients of `integral p knot`, evaluated EXACTLY at `knot.x` -/
theorem poly3_integral_at_knot_exact_eval (M : RModel K) (hu : M.u ≤ (2 : K) ^ (-53 : ℤ)) (p : Poly3 K) (knot : Knot K) :
    |Evaluate.evaluate (p.integralRounded M knot) knot.x - knot.y|
      ≤ (3 + 4) * M.u * (|knot.y| + (|p._0.a0| * |knot.x| + |p._0.a1 / 2| * |knot.x| ^ 2 + |p._0.a2 / 3| * |knot.x| ^ 3 + |p._0.a3 / 4| * |knot.x| ^ 4)) := by
  have key := knot_defect_exact M hu 4 (by norm_num) (poly3_rel M p) knot.x knot.y ((p.indefiniteRounded M)._0.a0)
    ((p.indefiniteRounded M).evalRounded M knot.x) ((p.integralRounded M knot)._0.a0) (lit_zero M 0) (poly4_list_bound M (p.indefiniteRounded M) knot.x) rfl
  have e : Evaluate.evaluate (p.integralRounded M knot) knot.x
      = (p.integralRounded M knot)._0.a0 + knot.x * polySum [(p.indefiniteRounded M)._0.a1, (p.indefiniteRounded M)._0.a2, (p.indefiniteRounded M)._0.a3, (p.indefiniteRounded M)._0.a4] knot.x := by
    rw [poly4_eval, poly3_integral_lanes_rounded]
    simp only [polySum]; ring
  rw [e]
  rw [poly3_S_eq] at key
  refine key.trans (le_of_eq ?_)
  push_cast; ring

/-- **(3)** `F̂(b) − F̂(a)` against the exact integral `P(b) − P(a)` of `p` over `[a, b]`, all `a b` -/
theorem poly3_integral_difference_rounding (M : RModel K) (hu : M.u ≤ (2 : K) ^ (-53 : ℤ)) (p : Poly3 K)
    (knot : Knot K) (a b : K) :
    |(p.integralRounded M knot).evalRounded M b - (p.integralRounded M knot).evalRounded M a
        - ((p._0.a0 * b + p._0.a1 / 2 * b ^ 2 + p._0.a2 / 3 * b ^ 3 + p._0.a3 / 4 * b ^ 4) - (p._0.a0 * a + p._0.a1 / 2 * a ^ 2 + p._0.a2 / 3 * a ^ 3 + p._0.a3 / 4 * a ^ 4))|
      ≤ (3 + 4) * M.u * ((|p._0.a0| * |a| + |p._0.a1 / 2| * |a| ^ 2 + |p._0.a2 / 3| * |a| ^ 3 + |p._0.a3 / 4| * |a| ^ 4) + (|p._0.a0| * |b| + |p._0.a1 / 2| * |b| ^ 2 + |p._0.a2 / 3| * |b| ^ 3 + |p._0.a3 / 4| * |b| ^ 4)
          + 2 * |(p.integralRounded M knot)._0.a0|) := by
  have key := difference_defect M hu 4 (by norm_num) (poly3_rel M p) a b ((p.integralRounded M knot)._0.a0)
    ((p.integralRounded M knot).evalRounded M a) ((p.integralRounded M knot).evalRounded M b)
    (poly4_list_bound M (p.integralRounded M knot) a) (poly4_list_bound M (p.integralRounded M knot) b)
  rw [poly3_S_eq, poly3_S_eq, poly3_P_eq, poly3_P_eq] at key
  refine key.trans (le_of_eq ?_)
  push_cast; ring

/-- **(4)** `derivative (indefinite p)`, all in `Rounded M`, returns `p` coefficient-wise within `(2u + u²)|cᵢ|`
(the rounded literal `i+1` cancels: no representability assumption) -/
theorem poly3_derivative_indefinite_rounding (M : RModel K) (p : Poly3 K) :
    (p.derivIndefRounded M)._0.a0 = p._0.a0
      ∧ |(p.derivIndefRounded M)._0.a1 - p._0.a1| ≤ (2 * M.u + M.u ^ 2) * |p._0.a1|
      ∧ |(p.derivIndefRounded M)._0.a2 - p._0.a2| ≤ (2 * M.u + M.u ^ 2) * |p._0.a2|
      ∧ |(p.derivIndefRounded M)._0.a3 - p._0.a3| ≤ (2 * M.u + M.u ^ 2) * |p._0.a3| :=
  ⟨rfl,
   mul_div_lit_close M (p._0.a1) (l := ((((2 : ℤ)) : K) * (10 : K) ^ (0 : ℤ))) (q := 2) (by norm_num) (by norm_num),
   mul_div_lit_close M (p._0.a2) (l := ((((3 : ℤ)) : K) * (10 : K) ^ (0 : ℤ))) (q := 3) (by norm_num) (by norm_num),
   mul_div_lit_close M (p._0.a3) (l := ((((4 : ℤ)) : K) * (10 : K) ^ (0 : ℤ))) (q := 4) (by norm_num) (by norm_num)⟩

/-! ## degree 4 -/

/-- **(1)** the coefficients computed by `indefinite`: constant term exactly 0, `c₀` copied, `cᵢ/(i+1)` within
`2u/(1−u)` (rounded divisor literal) -/
theorem poly4_indefinite_coeff_rounding (M : RModel K) (p : Poly4 K) :
    (p.indefiniteRounded M)._0.a0 = 0
      ∧ (p.indefiniteRounded M)._0.a1 = p._0.a0
      ∧ |(p.indefiniteRounded M)._0.a2 - p._0.a1 / 2| ≤ 2 * M.u / (1 - M.u) * |p._0.a1 / 2|
      ∧ |(p.indefiniteRounded M)._0.a3 - p._0.a2 / 3| ≤ 2 * M.u / (1 - M.u) * |p._0.a2 / 3|
      ∧ |(p.indefiniteRounded M)._0.a4 - p._0.a3 / 4| ≤ 2 * M.u / (1 - M.u) * |p._0.a3 / 4|
      ∧ |(p.indefiniteRounded M)._0.a5 - p._0.a4 / 5| ≤ 2 * M.u / (1 - M.u) * |p._0.a4 / 5| :=
  ⟨lit_zero M 0,
   rfl,
   div_lit_close M (p._0.a1) (l := ((((2 : ℤ)) : K) * (10 : K) ^ (0 : ℤ))) (q := 2) (by norm_num) (by norm_num),
   div_lit_close M (p._0.a2) (l := ((((3 : ℤ)) : K) * (10 : K) ^ (0 : ℤ))) (q := 3) (by norm_num) (by norm_num),
   div_lit_close M (p._0.a3) (l := ((((4 : ℤ)) : K) * (10 : K) ^ (0 : ℤ))) (q := 4) (by norm_num) (by norm_num),
   div_lit_close M (p._0.a4) (l := ((((5 : ℤ)) : K) * (10 : K) ^ (0 : ℤ))) (q := 5) (by norm_num) (by norm_num)⟩

/-- (1, representable literals) `cᵢ/(i+1)` within `u` when the literals `2 … n+1` (here: up to 5) are fixed by `rnd` -/
theorem poly4_indefinite_coeff_rounding_fixed (M : RModel K) (hlit : LitFixed M 5) (p : Poly4 K) :
    (p.indefiniteRounded M)._0.a0 = 0
      ∧ (p.indefiniteRounded M)._0.a1 = p._0.a0
      ∧ |(p.indefiniteRounded M)._0.a2 - p._0.a1 / 2| ≤ M.u * |p._0.a1 / 2|
      ∧ |(p.indefiniteRounded M)._0.a3 - p._0.a2 / 3| ≤ M.u * |p._0.a2 / 3|
      ∧ |(p.indefiniteRounded M)._0.a4 - p._0.a3 / 4| ≤ M.u * |p._0.a3 / 4|
      ∧ |(p.indefiniteRounded M)._0.a5 - p._0.a4 / 5| ≤ M.u * |p._0.a4 / 5| :=
  ⟨lit_zero M 0,
   rfl,
   div_lit_fixed M (p._0.a1) (l := ((((2 : ℤ)) : K) * (10 : K) ^ (0 : ℤ))) (q := 2) (by norm_num)
     (hlit.get 2 (by norm_num) (by norm_num) (by norm_num)),
   div_lit_fixed M (p._0.a2) (l := ((((3 : ℤ)) : K) * (10 : K) ^ (0 : ℤ))) (q := 3) (by norm_num)
     (hlit.get 3 (by norm_num) (by norm_num) (by norm_num)),
   div_lit_fixed M (p._0.a3) (l := ((((4 : ℤ)) : K) * (10 : K) ^ (0 : ℤ))) (q := 4) (by norm_num)
     (hlit.get 4 (by norm_num) (by norm_num) (by norm_num)),
   div_lit_fixed M (p._0.a4) (l := ((((5 : ℤ)) : K) * (10 : K) ^ (0 : ℤ))) (q := 5) (by norm_num)
     (hlit.get 5 (by norm_num) (by norm_num) (by norm_num))⟩

theorem poly4_rel (M : RModel K) (p : Poly4 K) :
    List.Forall₂ (Rel (2 * M.u / (1 - M.u))) [(p.indefiniteRounded M)._0.a1, (p.indefiniteRounded M)._0.a2, (p.indefiniteRounded M)._0.a3, (p.indefiniteRounded M)._0.a4, (p.indefiniteRounded M)._0.a5] [p._0.a0, p._0.a1 / 2, p._0.a2 / 3, p._0.a3 / 4, p._0.a4 / 5] := by
  obtain ⟨h0, h1, h2, h3, h4, h5⟩ := poly4_indefinite_coeff_rounding M p
  exact List.Forall₂.cons (Rel.of_eq (eta_nonneg M.hu M.hu1) h1) (List.Forall₂.cons h2 (List.Forall₂.cons h3 (List.Forall₂.cons h4 (List.Forall₂.cons h5 List.Forall₂.nil))))

theorem poly4_S_eq (p : Poly4 K) (t : K) :
    |t| * polySum (List.map abs [p._0.a0, p._0.a1 / 2, p._0.a2 / 3, p._0.a3 / 4, p._0.a4 / 5]) |t| = |p._0.a0| * |t| + |p._0.a1 / 2| * |t| ^ 2 + |p._0.a2 / 3| * |t| ^ 3 + |p._0.a3 / 4| * |t| ^ 4 + |p._0.a4 / 5| * |t| ^ 5 := by
  simp only [polySum, List.map_cons, List.map_nil]; ring

theorem poly4_P_eq (p : Poly4 K) (t : K) :
    t * polySum [p._0.a0, p._0.a1 / 2, p._0.a2 / 3, p._0.a3 / 4, p._0.a4 / 5] t = p._0.a0 * t + p._0.a1 / 2 * t ^ 2 + p._0.a2 / 3 * t ^ 3 + p._0.a3 / 4 * t ^ 4 + p._0.a4 / 5 * t ^ 5 := by
  simp only [polySum]; ring

/-- (2, structure) `integral p knot` computed in `Rounded M`: the coefficients of `indefinite p`, with the constant
term `rnd (0 + rnd (knot.y − Ê))` where `Ê` is the rounded value of `indefinite p` at `knot.x` -/
theorem poly4_integral_lanes_rounded (M : RModel K) (p : Poly4 K) (knot : Knot K) :
    p.integralRounded M knot =
      ⟨⟨M.rnd ((p.indefiniteRounded M)._0.a0 + M.rnd (knot.y - (p.indefiniteRounded M).evalRounded M knot.x)), (p.indefiniteRounded M)._0.a1, (p.indefiniteRounded M)._0.a2, (p.indefiniteRounded M)._0.a3, (p.indefiniteRounded M)._0.a4, (p.indefiniteRounded M)._0.a5⟩⟩ := rfl

/-- **(2)** "its value at knot.x is knot.y (within rounding)": the rounded evaluation of the rounded `integral p knot`
at `knot.x`; `C_4 = 3·4+6` -/
theorem poly4_integral_at_knot_rounding (M : RModel K) (hu : M.u ≤ (2 : K) ^ (-53 : ℤ)) (p : Poly4 K) (knot : Knot K) :
    |(p.integralRounded M knot).evalRounded M knot.x - knot.y|
      ≤ (3 * 4 + 6) * M.u * (|knot.y| + (|p._0.a0| * |knot.x| + |p._0.a1 / 2| * |knot.x| ^ 2 + |p._0.a2 / 3| * |knot.x| ^ 3 + |p._0.a3 / 4| * |knot.x| ^ 4 + |p._0.a4 / 5| * |knot.x| ^ 5)) := by
  have key := knot_defect M hu 5 (by norm_num) (poly4_rel M p) knot.x knot.y ((p.indefiniteRounded M)._0.a0)
    ((p.indefiniteRounded M).evalRounded M knot.x) ((p.integralRounded M knot)._0.a0) ((p.integralRounded M knot).evalRounded M knot.x) (lit_zero M 0)
    (poly5_list_bound M (p.indefiniteRounded M) knot.x) rfl (poly5_list_bound M (p.integralRounded M knot) knot.x)
  rw [poly4_S_eq] at key
  refine key.trans (le_of_eq ?_)
  push_cast; ring

/-- (2, exact evaluation) the computed coefficients of `integral p knot`, evaluated EXACTLY at `knot.x` -/
theorem poly4_integral_at_knot_exact_eval (M : RModel K) (hu : M.u ≤ (2 : K) ^ (-53 : ℤ)) (p : Poly4 K) (knot : Knot K) :
    |Evaluate.evaluate (p.integralRounded M knot) knot.x - knot.y|
      ≤ (4 + 4) * M.u * (|knot.y| + (|p._0.a0| * |knot.x| + |p._0.a1 / 2| * |knot.x| ^ 2 + |p._0.a2 / 3| * |knot.x| ^ 3 + |p._0.a3 / 4| * |knot.x| ^ 4 + |p._0.a4 / 5| * |knot.x| ^ 5)) := by
  have key := knot_defect_exact M hu 5 (by norm_num) (poly4_rel M p) knot.x knot.y ((p.indefiniteRounded M)._0.a0)
    ((p.indefiniteRounded M).evalRounded M knot.x) ((p.integralRounded M knot)._0.a0) (lit_zero M 0) (poly5_list_bound M (p.indefiniteRounded M) knot.x) rfl
  have e : Evaluate.evaluate (p.integralRounded M knot) knot.x
      = (p.integralRounded M knot)._0.a0 + knot.x * polySum [(p.indefiniteRounded M)._0.a1, (p.indefiniteRounded M)._0.a2, (p.indefiniteRounded M)._0.a3, (p.indefiniteRounded M)._0.a4, (p.indefiniteRounded M)._0.a5] knot.x := by
    rw [poly5_eval, poly4_integral_lanes_rounded]
    simp only [polySum]; ring
  rw [e]
  rw [poly4_S_eq] at key
  refine key.trans (le_of_eq ?_)
  push_cast; ring

/-- **(3)** `F̂(b) − F̂(a)` against the exact integral `P(b) − P(a)` of `p` over `[a, b]`, all `a b` -/
theorem poly4_integral_difference_rounding (M : RModel K) (hu : M.u ≤ (2 : K) ^ (-53 : ℤ)) (p : Poly4 K)
    (knot : Knot K) (a b : K) :
    |(p.integralRounded M knot).evalRounded M b - (p.integralRounded M knot).evalRounded M a
        - ((p._0.a0 * b + p._0.a1 / 2 * b ^ 2 + p._0.a2 / 3 * b ^ 3 + p._0.a3 / 4 * b ^ 4 + p._0.a4 / 5 * b ^ 5) - (p._0.a0 * a + p._0.a1 / 2 * a ^ 2 + p._0.a2 / 3 * a ^ 3 + p._0.a3 / 4 * a ^ 4 + p._0.a4 / 5 * a ^ 5))|
      ≤ (4 + 4) * M.u * ((|p._0.a0| * |a| + |p._0.a1 / 2| * |a| ^ 2 + |p._0.a2 / 3| * |a| ^ 3 + |p._0.a3 / 4| * |a| ^ 4 + |p._0.a4 / 5| * |a| ^ 5) + (|p._0.a0| * |b| + |p._0.a1 / 2| * |b| ^ 2 + |p._0.a2 / 3| * |b| ^ 3 + |p._0.a3 / 4| * |b| ^ 4 + |p._0.a4 / 5| * |b| ^ 5)
          + 2 * |(p.integralRounded M knot)._0.a0|) := by
  have key := difference_defect M hu 5 (by norm_num) (poly4_rel M p) a b ((p.integralRounded M knot)._0.a0)
    ((p.integralRounded M knot).evalRounded M a) ((p.integralRounded M knot).evalRounded M b)
    (poly5_list_bound M (p.integralRounded M knot) a) (poly5_list_bound M (p.integralRounded M knot) b)
  rw [poly4_S_eq, poly4_S_eq, poly4_P_eq, poly4_P_eq] at key
  refine key.trans (le_of_eq ?_)
  push_cast; ring

/-- **(4)** `derivative (indefinite p)`, all in `Rounded M`, returns `p` coefficient-wise within `(2u + u²)|cᵢ|`
(the rounded literal `i+1` cancels: no representability assumption) -/
theorem poly4_derivative_indefinite_rounding (M : RModel K) (p : Poly4 K) :
    (p.derivIndefRounded M)._0.a0 = p._0.a0
      ∧ |(p.derivIndefRounded M)._0.a1 - p._0.a1| ≤ (2 * M.u + M.u ^ 2) * |p._0.a1|
      ∧ |(p.derivIndefRounded M)._0.a2 - p._0.a2| ≤ (2 * M.u + M.u ^ 2) * |p._0.a2|
      ∧ |(p.derivIndefRounded M)._0.a3 - p._0.a3| ≤ (2 * M.u + M.u ^ 2) * |p._0.a3|
      ∧ |(p.derivIndefRounded M)._0.a4 - p._0.a4| ≤ (2 * M.u + M.u ^ 2) * |p._0.a4| :=
  ⟨rfl,
   mul_div_lit_close M (p._0.a1) (l := ((((2 : ℤ)) : K) * (10 : K) ^ (0 : ℤ))) (q := 2) (by norm_num) (by norm_num),
   mul_div_lit_close M (p._0.a2) (l := ((((3 : ℤ)) : K) * (10 : K) ^ (0 : ℤ))) (q := 3) (by norm_num) (by norm_num),
   mul_div_lit_close M (p._0.a3) (l := ((((4 : ℤ)) : K) * (10 : K) ^ (0 : ℤ))) (q := 4) (by norm_num) (by norm_num),
   mul_div_lit_close M (p._0.a4) (l := ((((5 : ℤ)) : K) * (10 : K) ^ (0 : ℤ))) (q := 5) (by norm_num) (by norm_num)⟩

/-! ## degree 5 -/

/-- **(1)** the coefficients computed by `indefinite`: constant term exactly 0, `c₀` copied, `cᵢ/(i+1)` within
`2u/(1−u)` (rounded divisor literal) -/
theorem poly5_indefinite_coeff_rounding (M : RModel K) (p : Poly5 K) :
    (p.indefiniteRounded M)._0.a0 = 0
      ∧ (p.indefiniteRounded M)._0.a1 = p._0.a0
      ∧ |(p.indefiniteRounded M)._0.a2 - p._0.a1 / 2| ≤ 2 * M.u / (1 - M.u) * |p._0.a1 / 2|
      ∧ |(p.indefiniteRounded M)._0.a3 - p._0.a2 / 3| ≤ 2 * M.u / (1 - M.u) * |p._0.a2 / 3|
      ∧ |(p.indefiniteRounded M)._0.a4 - p._0.a3 / 4| ≤ 2 * M.u / (1 - M.u) * |p._0.a3 / 4|
      ∧ |(p.indefiniteRounded M)._0.a5 - p._0.a4 / 5| ≤ 2 * M.u / (1 - M.u) * |p._0.a4 / 5|
      ∧ |(p.indefiniteRounded M)._0.a6 - p._0.a5 / 6| ≤ 2 * M.u / (1 - M.u) * |p._0.a5 / 6| :=
  ⟨lit_zero M 0,
   rfl,
   div_lit_close M (p._0.a1) (l := ((((2 : ℤ)) : K) * (10 : K) ^ (0 : ℤ))) (q := 2) (by norm_num) (by norm_num),
   div_lit_close M (p._0.a2) (l := ((((3 : ℤ)) : K) * (10 : K) ^ (0 : ℤ))) (q := 3) (by norm_num) (by norm_num),
   div_lit_close M (p._0.a3) (l := ((((4 : ℤ)) : K) * (10 : K) ^ (0 : ℤ))) (q := 4) (by norm_num) (by norm_num),
   div_lit_close M (p._0.a4) (l := ((((5 : ℤ)) : K) * (10 : K) ^ (0 : ℤ))) (q := 5) (by norm_num) (by norm_num),
   div_lit_close M (p._0.a5) (l := ((((6 : ℤ)) : K) * (10 : K) ^ (0 : ℤ))) (q := 6) (by norm_num) (by norm_num)⟩

/-- (1, representable literals) `cᵢ/(i+1)` within `u` when the literals `2 … n+1` (here: up to 6) are fixed by `rnd` -/
theorem poly5_indefinite_coeff_rounding_fixed (M : RModel K) (hlit : LitFixed M 6) (p : Poly5 K) :
    (p.indefiniteRounded M)._0.a0 = 0
      ∧ (p.indefiniteRounded M)._0.a1 = p._0.a0
      ∧ |(p.indefiniteRounded M)._0.a2 - p._0.a1 / 2| ≤ M.u * |p._0.a1 / 2|
      ∧ |(p.indefiniteRounded M)._0.a3 - p._0.a2 / 3| ≤ M.u * |p._0.a2 / 3|
      ∧ |(p.indefiniteRounded M)._0.a4 - p._0.a3 / 4| ≤ M.u * |p._0.a3 / 4|
      ∧ |(p.indefiniteRounded M)._0.a5 - p._0.a4 / 5| ≤ M.u * |p._0.a4 / 5|
      ∧ |(p.indefiniteRounded M)._0.a6 - p._0.a5 / 6| ≤ M.u * |p._0.a5 / 6| :=
  ⟨lit_zero M 0,
   rfl,
   div_lit_fixed M (p._0.a1) (l := ((((2 : ℤ)) : K) * (10 : K) ^ (0 : ℤ))) (q := 2) (by norm_num)
     (hlit.get 2 (by norm_num) (by norm_num) (by norm_num)),
   div_lit_fixed M (p._0.a2) (l := ((((3 : ℤ)) : K) * (10 : K) ^ (0 : ℤ))) (q := 3) (by norm_num)
     (hlit.get 3 (by norm_num) (by norm_num) (by norm_num)),
   div_lit_fixed M (p._0.a3) (l := ((((4 : ℤ)) : K) * (10 : K) ^ (0 : ℤ))) (q := 4) (by norm_num)
     (hlit.get 4 (by norm_num) (by norm_num) (by norm_num)),
   div_lit_fixed M (p._0.a4) (l := ((((5 : ℤ)) : K) * (10 : K) ^ (0 : ℤ))) (q := 5) (by norm_num)
     (hlit.get 5 (by norm_num) (by norm_num) (by norm_num)),
   div_lit_fixed M (p._0.a5) (l := ((((6 : ℤ)) : K) * (10 : K) ^ (0 : ℤ))) (q := 6) (by norm_num)
     (hlit.get 6 (by norm_num) (by norm_num) (by norm_num))⟩

theorem poly5_rel (M : RModel K) (p : Poly5 K) :
    List.Forall₂ (Rel (2 * M.u / (1 - M.u))) [(p.indefiniteRounded M)._0.a1, (p.indefiniteRounded M)._0.a2, (p.indefiniteRounded M)._0.a3, (p.indefiniteRounded M)._0.a4, (p.indefiniteRounded M)._0.a5, (p.indefiniteRounded M)._0.a6] [p._0.a0, p._0.a1 / 2, p._0.a2 / 3, p._0.a3 / 4, p._0.a4 / 5, p._0.a5 / 6] := by
  obtain ⟨h0, h1, h2, h3, h4, h5, h6⟩ := poly5_indefinite_coeff_rounding M p
  exact List.Forall₂.cons (Rel.of_eq (eta_nonneg M.hu M.hu1) h1) (List.Forall₂.cons h2 (List.Forall₂.cons h3 (List.Forall₂.cons h4 (List.Forall₂.cons h5 (List.Forall₂.cons h6 List.Forall₂.nil)))))

theorem poly5_S_eq (p : Poly5 K) (t : K) :
    |t| * polySum (List.map abs [p._0.a0, p._0.a1 / 2, p._0.a2 / 3, p._0.a3 / 4, p._0.a4 / 5, p._0.a5 / 6]) |t| = |p._0.a0| * |t| + |p._0.a1 / 2| * |t| ^ 2 + |p._0.a2 / 3| * |t| ^ 3 + |p._0.a3 / 4| * |t| ^ 4 + |p._0.a4 / 5| * |t| ^ 5 + |p._0.a5 / 6| * |t| ^ 6 := by
  simp only [polySum, List.map_cons, List.map_nil]; ring

theorem poly5_P_eq (p : Poly5 K) (t : K) :
    t * polySum [p._0.a0, p._0.a1 / 2, p._0.a2 / 3, p._0.a3 / 4, p._0.a4 / 5, p._0.a5 / 6] t = p._0.a0 * t + p._0.a1 / 2 * t ^ 2 + p._0.a2 / 3 * t ^ 3 + p._0.a3 / 4 * t ^ 4 + p._0.a4 / 5 * t ^ 5 + p._0.a5 / 6 * t ^ 6 := by
  simp only [polySum]; ring

/-- (2, structure) `integral p knot` computed in `Rounded M`: the coefficients of `indefinite p`, with the constant
term `rnd (0 + rnd (knot.y − Ê))` where `Ê` is the rounded value of `indefinite p` at `knot.x` -/
theorem poly5_integral_lanes_rounded (M : RModel K) (p : Poly5 K) (knot : Knot K) :
    p.integralRounded M knot =
      ⟨⟨M.rnd ((p.indefiniteRounded M)._0.a0 + M.rnd (knot.y - (p.indefiniteRounded M).evalRounded M knot.x)), (p.indefiniteRounded M)._0.a1, (p.indefiniteRounded M)._0.a2, (p.indefiniteRounded M)._0.a3, (p.indefiniteRounded M)._0.a4, (p.indefiniteRounded M)._0.a5, (p.indefiniteRounded M)._0.a6⟩⟩ := rfl

/-- **(2)** "its value at knot.x is knot.y (within rounding)": the rounded evaluation of the rounded `integral p knot`
at `knot.x`; `C_5 = 3·5+6` -/
theorem poly5_integral_at_knot_rounding (M : RModel K) (hu : M.u ≤ (2 : K) ^ (-53 : ℤ)) (p : Poly5 K) (knot : Knot K) :
    |(p.integralRounded M knot).evalRounded M knot.x - knot.y|
      ≤ (3 * 5 + 6) * M.u * (|knot.y| + (|p._0.a0| * |knot.x| + |p._0.a1 / 2| * |knot.x| ^ 2 + |p._0.a2 / 3| * |knot.x| ^ 3 + |p._0.a3 / 4| * |knot.x| ^ 4 + |p._0.a4 / 5| * |knot.x| ^ 5 + |p._0.a5 / 6| * |knot.x| ^ 6)) := by
  have key := knot_defect M hu 6 (by norm_num) (poly5_rel M p) knot.x knot.y ((p.indefiniteRounded M)._0.a0)
    ((p.indefiniteRounded M).evalRounded M knot.x) ((p.integralRounded M knot)._0.a0) ((p.integralRounded M knot).evalRounded M knot.x) (lit_zero M 0)
    (poly6_list_bound M (p.indefiniteRounded M) knot.x) rfl (poly6_list_bound M (p.integralRounded M knot) knot.x)
  rw [poly5_S_eq] at key
  refine key.trans (le_of_eq ?_)
  push_cast; ring

/-- (2, exact evaluation) the computed coefficients of `integral p knot`, evaluated EXACTLY at `knot.x` -/
theorem poly5_integral_at_knot_exact_eval (M : RModel K) (hu : M.u ≤ (2 : K) ^ (-53 : ℤ)) (p : Poly5 K) (knot : Knot K) :
    |Evaluate.evaluate (p.integralRounded M knot) knot.x - knot.y|
      ≤ (5 + 4) * M.u * (|knot.y| + (|p._0.a0| * |knot.x| + |p._0.a1 / 2| * |knot.x| ^ 2 + |p._0.a2 / 3| * |knot.x| ^ 3 + |p._0.a3 / 4| * |knot.x| ^ 4 + |p._0.a4 / 5| * |knot.x| ^ 5 + |p._0.a5 / 6| * |knot.x| ^ 6)) := by
  have key := knot_defect_exact M hu 6 (by norm_num) (poly5_rel M p) knot.x knot.y ((p.indefiniteRounded M)._0.a0)
    ((p.indefiniteRounded M).evalRounded M knot.x) ((p.integralRounded M knot)._0.a0) (lit_zero M 0) (poly6_list_bound M (p.indefiniteRounded M) knot.x) rfl
  have e : Evaluate.evaluate (p.integralRounded M knot) knot.x
      = (p.integralRounded M knot)._0.a0 + knot.x * polySum [(p.indefiniteRounded M)._0.a1, (p.indefiniteRounded M)._0.a2, (p.indefiniteRounded M)._0.a3, (p.indefiniteRounded M)._0.a4, (p.indefiniteRounded M)._0.a5, (p.indefiniteRounded M)._0.a6] knot.x := by
    rw [poly6_eval, poly5_integral_lanes_rounded]
    simp only [polySum]; ring
  rw [e]
  rw [poly5_S_eq] at key
  refine key.trans (le_of_eq ?_)
  push_cast; ring

/-- **(3)** `F̂(b) − F̂(a)` against the exact integral `P(b) − P(a)` of `p` over `[a, b]`, all `a b` -/
theorem poly5_integral_difference_rounding (M : RModel K) (hu : M.u ≤ (2 : K) ^ (-53 : ℤ)) (p : Poly5 K)
    (knot : Knot K) (a b : K) :
    |(p.integralRounded M knot).evalRounded M b - (p.integralRounded M knot).evalRounded M a
        - ((p._0.a0 * b + p._0.a1 / 2 * b ^ 2 + p._0.a2 / 3 * b ^ 3 + p._0.a3 / 4 * b ^ 4 + p._0.a4 / 5 * b ^ 5 + p._0.a5 / 6 * b ^ 6) - (p._0.a0 * a + p._0.a1 / 2 * a ^ 2 + p._0.a2 / 3 * a ^ 3 + p._0.a3 / 4 * a ^ 4 + p._0.a4 / 5 * a ^ 5 + p._0.a5 / 6 * a ^ 6))|
      ≤ (5 + 4) * M.u * ((|p._0.a0| * |a| + |p._0.a1 / 2| * |a| ^ 2 + |p._0.a2 / 3| * |a| ^ 3 + |p._0.a3 / 4| * |a| ^ 4 + |p._0.a4 / 5| * |a| ^ 5 + |p._0.a5 / 6| * |a| ^ 6) + (|p._0.a0| * |b| + |p._0.a1 / 2| * |b| ^ 2 + |p._0.a2 / 3| * |b| ^ 3 + |p._0.a3 / 4| * |b| ^ 4 + |p._0.a4 / 5| * |b| ^ 5 + |p._0.a5 / 6| * |b| ^ 6)
          + 2 * |(p.integralRounded M knot)._0.a0|) := by
  have key := difference_defect M hu 6 (by norm_num) (poly5_rel M p) a b ((p.integralRounded M knot)._0.a0)
    ((p.integralRounded M knot).evalRounded M a) ((p.integralRounded M knot).evalRounded M b)
    (poly6_list_bound M (p.integralRounded M knot) a) (poly6_list_bound M (p.integralRounded M knot) b)
  rw [poly5_S_eq, poly5_S_eq, poly5_P_eq, poly5_P_eq] at key
  refine key.trans (le_of_eq ?_)
  push_cast; ring

/-- **(4)** `derivative (indefinite p)`, all in `Rounded M`, returns `p` coefficient-wise within `(2u + u²)|cᵢ|`
(the rounded literal `i+1` cancels: no representability assumption) -/
theorem poly5_derivative_indefinite_rounding (M : RModel K) (p : Poly5 K) :
    (p.derivIndefRounded M)._0.a0 = p._0.a0
      ∧ |(p.derivIndefRounded M)._0.a1 - p._0.a1| ≤ (2 * M.u + M.u ^ 2) * |p._0.a1|
      ∧ |(p.derivIndefRounded M)._0.a2 - p._0.a2| ≤ (2 * M.u + M.u ^ 2) * |p._0.a2|
      ∧ |(p.derivIndefRounded M)._0.a3 - p._0.a3| ≤ (2 * M.u + M.u ^ 2) * |p._0.a3|
      ∧ |(p.derivIndefRounded M)._0.a4 - p._0.a4| ≤ (2 * M.u + M.u ^ 2) * |p._0.a4|
      ∧ |(p.derivIndefRounded M)._0.a5 - p._0.a5| ≤ (2 * M.u + M.u ^ 2) * |p._0.a5| :=
  ⟨rfl,
   mul_div_lit_close M (p._0.a1) (l := ((((2 : ℤ)) : K) * (10 : K) ^ (0 : ℤ))) (q := 2) (by norm_num) (by norm_num),
   mul_div_lit_close M (p._0.a2) (l := ((((3 : ℤ)) : K) * (10 : K) ^ (0 : ℤ))) (q := 3) (by norm_num) (by norm_num),
   mul_div_lit_close M (p._0.a3) (l := ((((4 : ℤ)) : K) * (10 : K) ^ (0 : ℤ))) (q := 4) (by norm_num) (by norm_num),
   mul_div_lit_close M (p._0.a4) (l := ((((5 : ℤ)) : K) * (10 : K) ^ (0 : ℤ))) (q := 5) (by norm_num) (by norm_num),
   mul_div_lit_close M (p._0.a5) (l := ((((6 : ℤ)) : K) * (10 : K) ^ (0 : ℤ))) (q := 6) (by norm_num) (by norm_num)⟩

/-! ## degree 6 -/

/-- **(1)** the coefficients computed by `indefinite`: constant term exactly 0, `c₀` copied, `cᵢ/(i+1)` within
`2u/(1−u)` (rounded divisor literal) -/
theorem poly6_indefinite_coeff_rounding (M : RModel K) (p : Poly6 K) :
    (p.indefiniteRounded M)._0.a0 = 0
      ∧ (p.indefiniteRounded M)._0.a1 = p._0.a0
      ∧ |(p.indefiniteRounded M)._0.a2 - p._0.a1 / 2| ≤ 2 * M.u / (1 - M.u) * |p._0.a1 / 2|
      ∧ |(p.indefiniteRounded M)._0.a3 - p._0.a2 / 3| ≤ 2 * M.u / (1 - M.u) * |p._0.a2 / 3|
      ∧ |(p.indefiniteRounded M)._0.a4 - p._0.a3 / 4| ≤ 2 * M.u / (1 - M.u) * |p._0.a3 / 4|
      ∧ |(p.indefiniteRounded M)._0.a5 - p._0.a4 / 5| ≤ 2 * M.u / (1 - M.u) * |p._0.a4 / 5|
      ∧ |(p.indefiniteRounded M)._0.a6 - p._0.a5 / 6| ≤ 2 * M.u / (1 - M.u) * |p._0.a5 / 6|
      ∧ |(p.indefiniteRounded M)._0.a7 - p._0.a6 / 7| ≤ 2 * M.u / (1 - M.u) * |p._0.a6 / 7| :=
  ⟨lit_zero M 0,
   rfl,
   div_lit_close M (p._0.a1) (l := ((((2 : ℤ)) : K) * (10 : K) ^ (0 : ℤ))) (q := 2) (by norm_num) (by norm_num),
   div_lit_close M (p._0.a2) (l := ((((3 : ℤ)) : K) * (10 : K) ^ (0 : ℤ))) (q := 3) (by norm_num) (by norm_num),
   div_lit_close M (p._0.a3) (l := ((((4 : ℤ)) : K) * (10 : K) ^ (0 : ℤ))) (q := 4) (by norm_num) (by norm_num),
   div_lit_close M (p._0.a4) (l := ((((5 : ℤ)) : K) * (10 : K) ^ (0 : ℤ))) (q := 5) (by norm_num) (by norm_num),
   div_lit_close M (p._0.a5) (l := ((((6 : ℤ)) : K) * (10 : K) ^ (0 : ℤ))) (q := 6) (by norm_num) (by norm_num),
   div_lit_close M (p._0.a6) (l := ((((7 : ℤ)) : K) * (10 : K) ^ (0 : ℤ))) (q := 7) (by norm_num) (by norm_num)⟩

/-- (1, representable literals) `cᵢ/(i+1)` within `u` when the literals `2 … n+1` (here: up to 7) are fixed by `rnd` -/
theorem poly6_indefinite_coeff_rounding_fixed (M : RModel K) (hlit : LitFixed M 7) (p : Poly6 K) :
    (p.indefiniteRounded M)._0.a0 = 0
      ∧ (p.indefiniteRounded M)._0.a1 = p._0.a0
      ∧ |(p.indefiniteRounded M)._0.a2 - p._0.a1 / 2| ≤ M.u * |p._0.a1 / 2|
      ∧ |(p.indefiniteRounded M)._0.a3 - p._0.a2 / 3| ≤ M.u * |p._0.a2 / 3|
      ∧ |(p.indefiniteRounded M)._0.a4 - p._0.a3 / 4| ≤ M.u * |p._0.a3 / 4|
      ∧ |(p.indefiniteRounded M)._0.a5 - p._0.a4 / 5| ≤ M.u * |p._0.a4 / 5|
      ∧ |(p.indefiniteRounded M)._0.a6 - p._0.a5 / 6| ≤ M.u * |p._0.a5 / 6|
      ∧ |(p.indefiniteRounded M)._0.a7 - p._0.a6 / 7| ≤ M.u * |p._0.a6 / 7| :=
  ⟨lit_zero M 0,
   rfl,
   div_lit_fixed M (p._0.a1) (l := ((((2 : ℤ)) : K) * (10 : K) ^ (0 : ℤ))) (q := 2) (by norm_num)
     (hlit.get 2 (by norm_num) (by norm_num) (by norm_num)),
   div_lit_fixed M (p._0.a2) (l := ((((3 : ℤ)) : K) * (10 : K) ^ (0 : ℤ))) (q := 3) (by norm_num)
     (hlit.get 3 (by norm_num) (by norm_num) (by norm_num)),
   div_lit_fixed M (p._0.a3) (l := ((((4 : ℤ)) : K) * (10 : K) ^ (0 : ℤ))) (q := 4) (by norm_num)
     (hlit.get 4 (by norm_num) (by norm_num) (by norm_num)),
   div_lit_fixed M (p._0.a4) (l := ((((5 : ℤ)) : K) * (10 : K) ^ (0 : ℤ))) (q := 5) (by norm_num)
     (hlit.get 5 (by norm_num) (by norm_num) (by norm_num)),
   div_lit_fixed M (p._0.a5) (l := ((((6 : ℤ)) : K) * (10 : K) ^ (0 : ℤ))) (q := 6) (by norm_num)
     (hlit.get 6 (by norm_num) (by norm_num) (by norm_num)),
   div_lit_fixed M (p._0.a6) (l := ((((7 : ℤ)) : K) * (10 : K) ^ (0 : ℤ))) (q := 7) (by norm_num)
     (hlit.get 7 (by norm_num) (by norm_num) (by norm_num))⟩

theorem poly6_rel (M : RModel K) (p : Poly6 K) :
    List.Forall₂ (Rel (2 * M.u / (1 - M.u))) [(p.indefiniteRounded M)._0.a1, (p.indefiniteRounded M)._0.a2, (p.indefiniteRounded M)._0.a3, (p.indefiniteRounded M)._0.a4, (p.indefiniteRounded M)._0.a5, (p.indefiniteRounded M)._0.a6, (p.indefiniteRounded M)._0.a7] [p._0.a0, p._0.a1 / 2, p._0.a2 / 3, p._0.a3 / 4, p._0.a4 / 5, p._0.a5 / 6, p._0.a6 / 7] := by
  obtain ⟨h0, h1, h2, h3, h4, h5, h6, h7⟩ := poly6_indefinite_coeff_rounding M p
  exact List.Forall₂.cons (Rel.of_eq (eta_nonneg M.hu M.hu1) h1) (List.Forall₂.cons h2 (List.Forall₂.cons h3 (List.Forall₂.cons h4 (List.Forall₂.cons h5 (List.Forall₂.cons h6 (List.Forall₂.cons h7 List.Forall₂.nil))))))

theorem poly6_S_eq (p : Poly6 K) (t : K) :
    |t| * polySum (List.map abs [p._0.a0, p._0.a1 / 2, p._0.a2 / 3, p._0.a3 / 4, p._0.a4 / 5, p._0.a5 / 6, p._0.a6 / 7]) |t| = |p._0.a0| * |t| + |p._0.a1 / 2| * |t| ^ 2 + |p._0.a2 / 3| * |t| ^ 3 + |p._0.a3 / 4| * |t| ^ 4 + |p._0.a4 / 5| * |t| ^ 5 + |p._0.a5 / 6| * |t| ^ 6 + |p._0.a6 / 7| * |t| ^ 7 := by
  simp only [polySum, List.map_cons, List.map_nil]; ring

theorem poly6_P_eq (p : Poly6 K) (t : K) :
    t * polySum [p._0.a0, p._0.a1 / 2, p._0.a2 / 3, p._0.a3 / 4, p._0.a4 / 5, p._0.a5 / 6, p._0.a6 / 7] t = p._0.a0 * t + p._0.a1 / 2 * t ^ 2 + p._0.a2 / 3 * t ^ 3 + p._0.a3 / 4 * t ^ 4 + p._0.a4 / 5 * t ^ 5 + p._0.a5 / 6 * t ^ 6 + p._0.a6 / 7 * t ^ 7 := by
  simp only [polySum]; ring

/-- (2, structure) `integral p knot` computed in `Rounded M`: the coefficients of `indefinite p`, with the constant
term `rnd (0 + rnd (knot.y − Ê))` where `Ê` is the rounded value of `indefinite p` at `knot.x` -/
theorem poly6_integral_lanes_rounded (M : RModel K) (p : Poly6 K) (knot : Knot K) :
    p.integralRounded M knot =
      ⟨⟨M.rnd ((p.indefiniteRounded M)._0.a0 + M.rnd (knot.y - (p.indefiniteRounded M).evalRounded M knot.x)), (p.indefiniteRounded M)._0.a1, (p.indefiniteRounded M)._0.a2, (p.indefiniteRounded M)._0.a3, (p.indefiniteRounded M)._0.a4, (p.indefiniteRounded M)._0.a5, (p.indefiniteRounded M)._0.a6, (p.indefiniteRounded M)._0.a7⟩⟩ := rfl

/-- **(2)** "its value at knot.x is knot.y (within rounding)": the rounded evaluation of the rounded `integral p knot`
at `knot.x`; `C_6 = 3·6+6` -/
theorem poly6_integral_at_knot_rounding (M : RModel K) (hu : M.u ≤ (2 : K) ^ (-53 : ℤ)) (p : Poly6 K) (knot : Knot K) :
    |(p.integralRounded M knot).evalRounded M knot.x - knot.y|
      ≤ (3 * 6 + 6) * M.u * (|knot.y| + (|p._0.a0| * |knot.x| + |p._0.a1 / 2| * |knot.x| ^ 2 + |p._0.a2 / 3| * |knot.x| ^ 3 + |p._0.a3 / 4| * |knot.x| ^ 4 + |p._0.a4 / 5| * |knot.x| ^ 5 + |p._0.a5 / 6| * |knot.x| ^ 6 + |p._0.a6 / 7| * |knot.x| ^ 7)) := by
  have key := knot_defect M hu 7 (by norm_num) (poly6_rel M p) knot.x knot.y ((p.indefiniteRounded M)._0.a0)
    ((p.indefiniteRounded M).evalRounded M knot.x) ((p.integralRounded M knot)._0.a0) ((p.integralRounded M knot).evalRounded M knot.x) (lit_zero M 0)
    (poly7_list_bound M (p.indefiniteRounded M) knot.x) rfl (poly7_list_bound M (p.integralRounded M knot) knot.x)
  rw [poly6_S_eq] at key
  refine key.trans (le_of_eq ?_)
  push_cast; ring

/-- (2, exact evaluation) the computed coefficients of `integral p knot`, evaluated EXACTLY at `knot.x` -/
theorem poly6_integral_at_knot_exact_eval (M : RModel K) (hu : M.u ≤ (2 : K) ^ (-53 : ℤ)) (p : Poly6 K) (knot : Knot K) :
    |Evaluate.evaluate (p.integralRounded M knot) knot.x - knot.y|
      ≤ (6 + 4) * M.u * (|knot.y| + (|p._0.a0| * |knot.x| + |p._0.a1 / 2| * |knot.x| ^ 2 + |p._0.a2 / 3| * |knot.x| ^ 3 + |p._0.a3 / 4| * |knot.x| ^ 4 + |p._0.a4 / 5| * |knot.x| ^ 5 + |p._0.a5 / 6| * |knot.x| ^ 6 + |p._0.a6 / 7| * |knot.x| ^ 7)) := by
  have key := knot_defect_exact M hu 7 (by norm_num) (poly6_rel M p) knot.x knot.y ((p.indefiniteRounded M)._0.a0)
    ((p.indefiniteRounded M).evalRounded M knot.x) ((p.integralRounded M knot)._0.a0) (lit_zero M 0) (poly7_list_bound M (p.indefiniteRounded M) knot.x) rfl
  have e : Evaluate.evaluate (p.integralRounded M knot) knot.x
      = (p.integralRounded M knot)._0.a0 + knot.x * polySum [(p.indefiniteRounded M)._0.a1, (p.indefiniteRounded M)._0.a2, (p.indefiniteRounded M)._0.a3, (p.indefiniteRounded M)._0.a4, (p.indefiniteRounded M)._0.a5, (p.indefiniteRounded M)._0.a6, (p.indefiniteRounded M)._0.a7] knot.x := by
    rw [poly7_eval, poly6_integral_lanes_rounded]
    simp only [polySum]; ring
  rw [e]
  rw [poly6_S_eq] at key
  refine key.trans (le_of_eq ?_)
  push_cast; ring

/-- **(3)** `F̂(b) − F̂(a)` against the exact integral `P(b) − P(a)` of `p` over `[a, b]`, all `a b` -/
theorem poly6_integral_difference_rounding (M : RModel K) (hu : M.u ≤ (2 : K) ^ (-53 : ℤ)) (p : Poly6 K)
    (knot : Knot K) (a b : K) :
    |(p.integralRounded M knot).evalRounded M b - (p.integralRounded M knot).evalRounded M a
        - ((p._0.a0 * b + p._0.a1 / 2 * b ^ 2 + p._0.a2 / 3 * b ^ 3 + p._0.a3 / 4 * b ^ 4 + p._0.a4 / 5 * b ^ 5 + p._0.a5 / 6 * b ^ 6 + p._0.a6 / 7 * b ^ 7) - (p._0.a0 * a + p._0.a1 / 2 * a ^ 2 + p._0.a2 / 3 * a ^ 3 + p._0.a3 / 4 * a ^ 4 + p._0.a4 / 5 * a ^ 5 + p._0.a5 / 6 * a ^ 6 + p._0.a6 / 7 * a ^ 7))|
      ≤ (6 + 4) * M.u * ((|p._0.a0| * |a| + |p._0.a1 / 2| * |a| ^ 2 + |p._0.a2 / 3| * |a| ^ 3 + |p._0.a3 / 4| * |a| ^ 4 + |p._0.a4 / 5| * |a| ^ 5 + |p._0.a5 / 6| * |a| ^ 6 + |p._0.a6 / 7| * |a| ^ 7) + (|p._0.a0| * |b| + |p._0.a1 / 2| * |b| ^ 2 + |p._0.a2 / 3| * |b| ^ 3 + |p._0.a3 / 4| * |b| ^ 4 + |p._0.a4 / 5| * |b| ^ 5 + |p._0.a5 / 6| * |b| ^ 6 + |p._0.a6 / 7| * |b| ^ 7)
          + 2 * |(p.integralRounded M knot)._0.a0|) := by
  have key := difference_defect M hu 7 (by norm_num) (poly6_rel M p) a b ((p.integralRounded M knot)._0.a0)
    ((p.integralRounded M knot).evalRounded M a) ((p.integralRounded M knot).evalRounded M b)
    (poly7_list_bound M (p.integralRounded M knot) a) (poly7_list_bound M (p.integralRounded M knot) b)
  rw [poly6_S_eq, poly6_S_eq, poly6_P_eq, poly6_P_eq] at key
  refine key.trans (le_of_eq ?_)
  push_cast; ring

/-- **(4)** `derivative (indefinite p)`, all in `Rounded M`, returns `p` coefficient-wise within `(2u + u²)|cᵢ|`
(the rounded literal `i+1` cancels: no representability assumption) -/
theorem poly6_derivative_indefinite_rounding (M : RModel K) (p : Poly6 K) :
    (p.derivIndefRounded M)._0.a0 = p._0.a0
      ∧ |(p.derivIndefRounded M)._0.a1 - p._0.a1| ≤ (2 * M.u + M.u ^ 2) * |p._0.a1|
      ∧ |(p.derivIndefRounded M)._0.a2 - p._0.a2| ≤ (2 * M.u + M.u ^ 2) * |p._0.a2|
      ∧ |(p.derivIndefRounded M)._0.a3 - p._0.a3| ≤ (2 * M.u + M.u ^ 2) * |p._0.a3|
      ∧ |(p.derivIndefRounded M)._0.a4 - p._0.a4| ≤ (2 * M.u + M.u ^ 2) * |p._0.a4|
      ∧ |(p.derivIndefRounded M)._0.a5 - p._0.a5| ≤ (2 * M.u + M.u ^ 2) * |p._0.a5|
      ∧ |(p.derivIndefRounded M)._0.a6 - p._0.a6| ≤ (2 * M.u + M.u ^ 2) * |p._0.a6| :=
  ⟨rfl,
   mul_div_lit_close M (p._0.a1) (l := ((((2 : ℤ)) : K) * (10 : K) ^ (0 : ℤ))) (q := 2) (by norm_num) (by norm_num),
   mul_div_lit_close M (p._0.a2) (l := ((((3 : ℤ)) : K) * (10 : K) ^ (0 : ℤ))) (q := 3) (by norm_num) (by norm_num),
   mul_div_lit_close M (p._0.a3) (l := ((((4 : ℤ)) : K) * (10 : K) ^ (0 : ℤ))) (q := 4) (by norm_num) (by norm_num),
   mul_div_lit_close M (p._0.a4) (l := ((((5 : ℤ)) : K) * (10 : K) ^ (0 : ℤ))) (q := 5) (by norm_num) (by norm_num),
   mul_div_lit_close M (p._0.a5) (l := ((((6 : ℤ)) : K) * (10 : K) ^ (0 : ℤ))) (q := 6) (by norm_num) (by norm_num),
   mul_div_lit_close M (p._0.a6) (l := ((((7 : ℤ)) : K) * (10 : K) ^ (0 : ℤ))) (q := 7) (by norm_num) (by norm_num)⟩

/-! ## degree 7 -/

/-- **(1)** the coefficients computed by `indefinite`: constant term exactly 0, `c₀` copied, `cᵢ/(i+1)` within
`2u/(1−u)` (rounded divisor literal) -/
theorem poly7_indefinite_coeff_rounding (M : RModel K) (p : Poly7 K) :
    (p.indefiniteRounded M)._0.a0 = 0
      ∧ (p.indefiniteRounded M)._0.a1 = p._0.a0
      ∧ |(p.indefiniteRounded M)._0.a2 - p._0.a1 / 2| ≤ 2 * M.u / (1 - M.u) * |p._0.a1 / 2|
      ∧ |(p.indefiniteRounded M)._0.a3 - p._0.a2 / 3| ≤ 2 * M.u / (1 - M.u) * |p._0.a2 / 3|
      ∧ |(p.indefiniteRounded M)._0.a4 - p._0.a3 / 4| ≤ 2 * M.u / (1 - M.u) * |p._0.a3 / 4|
      ∧ |(p.indefiniteRounded M)._0.a5 - p._0.a4 / 5| ≤ 2 * M.u / (1 - M.u) * |p._0.a4 / 5|
      ∧ |(p.indefiniteRounded M)._0.a6 - p._0.a5 / 6| ≤ 2 * M.u / (1 - M.u) * |p._0.a5 / 6|
      ∧ |(p.indefiniteRounded M)._0.a7 - p._0.a6 / 7| ≤ 2 * M.u / (1 - M.u) * |p._0.a6 / 7|
      ∧ |(p.indefiniteRounded M)._0.a8 - p._0.a7 / 8| ≤ 2 * M.u / (1 - M.u) * |p._0.a7 / 8| :=
  ⟨lit_zero M 0,
   rfl,
   div_lit_close M (p._0.a1) (l := ((((2 : ℤ)) : K) * (10 : K) ^ (0 : ℤ))) (q := 2) (by norm_num) (by norm_num),
   div_lit_close M (p._0.a2) (l := ((((3 : ℤ)) : K) * (10 : K) ^ (0 : ℤ))) (q := 3) (by norm_num) (by norm_num),
   div_lit_close M (p._0.a3) (l := ((((4 : ℤ)) : K) * (10 : K) ^ (0 : ℤ))) (q := 4) (by norm_num) (by norm_num),
   div_lit_close M (p._0.a4) (l := ((((5 : ℤ)) : K) * (10 : K) ^ (0 : ℤ))) (q := 5) (by norm_num) (by norm_num),
   div_lit_close M (p._0.a5) (l := ((((6 : ℤ)) : K) * (10 : K) ^ (0 : ℤ))) (q := 6) (by norm_num) (by norm_num),
   div_lit_close M (p._0.a6) (l := ((((7 : ℤ)) : K) * (10 : K) ^ (0 : ℤ))) (q := 7) (by norm_num) (by norm_num),
   div_lit_close M (p._0.a7) (l := ((((8 : ℤ)) : K) * (10 : K) ^ (0 : ℤ))) (q := 8) (by norm_num) (by norm_num)⟩

/-- (1, representable literals) `cᵢ/(i+1)` within `u` when the literals `2 … n+1` (here: up to 8) are fixed by `rnd` -/
theorem poly7_indefinite_coeff_rounding_fixed (M : RModel K) (hlit : LitFixed M 8) (p : Poly7 K) :
    (p.indefiniteRounded M)._0.a0 = 0
      ∧ (p.indefiniteRounded M)._0.a1 = p._0.a0
      ∧ |(p.indefiniteRounded M)._0.a2 - p._0.a1 / 2| ≤ M.u * |p._0.a1 / 2|
      ∧ |(p.indefiniteRounded M)._0.a3 - p._0.a2 / 3| ≤ M.u * |p._0.a2 / 3|
      ∧ |(p.indefiniteRounded M)._0.a4 - p._0.a3 / 4| ≤ M.u * |p._0.a3 / 4|
      ∧ |(p.indefiniteRounded M)._0.a5 - p._0.a4 / 5| ≤ M.u * |p._0.a4 / 5|
      ∧ |(p.indefiniteRounded M)._0.a6 - p._0.a5 / 6| ≤ M.u * |p._0.a5 / 6|
      ∧ |(p.indefiniteRounded M)._0.a7 - p._0.a6 / 7| ≤ M.u * |p._0.a6 / 7|
      ∧ |(p.indefiniteRounded M)._0.a8 - p._0.a7 / 8| ≤ M.u * |p._0.a7 / 8| :=
  ⟨lit_zero M 0,
   rfl,
   div_lit_fixed M (p._0.a1) (l := ((((2 : ℤ)) : K) * (10 : K) ^ (0 : ℤ))) (q := 2) (by norm_num)
     (hlit.get 2 (by norm_num) (by norm_num) (by norm_num)),
   div_lit_fixed M (p._0.a2) (l := ((((3 : ℤ)) : K) * (10 : K) ^ (0 : ℤ))) (q := 3) (by norm_num)
     (hlit.get 3 (by norm_num) (by norm_num) (by norm_num)),
   div_lit_fixed M (p._0.a3) (l := ((((4 : ℤ)) : K) * (10 : K) ^ (0 : ℤ))) (q := 4) (by norm_num)
     (hlit.get 4 (by norm_num) (by norm_num) (by norm_num)),
   div_lit_fixed M (p._0.a4) (l := ((((5 : ℤ)) : K) * (10 : K) ^ (0 : ℤ))) (q := 5) (by norm_num)
     (hlit.get 5 (by norm_num) (by norm_num) (by norm_num)),
   div_lit_fixed M (p._0.a5) (l := ((((6 : ℤ)) : K) * (10 : K) ^ (0 : ℤ))) (q := 6) (by norm_num)
     (hlit.get 6 (by norm_num) (by norm_num) (by norm_num)),
   div_lit_fixed M (p._0.a6) (l := ((((7 : ℤ)) : K) * (10 : K) ^ (0 : ℤ))) (q := 7) (by norm_num)
     (hlit.get 7 (by norm_num) (by norm_num) (by norm_num)),
   div_lit_fixed M (p._0.a7) (l := ((((8 : ℤ)) : K) * (10 : K) ^ (0 : ℤ))) (q := 8) (by norm_num)
     (hlit.get 8 (by norm_num) (by norm_num) (by norm_num))⟩

theorem poly7_rel (M : RModel K) (p : Poly7 K) :
    List.Forall₂ (Rel (2 * M.u / (1 - M.u))) [(p.indefiniteRounded M)._0.a1, (p.indefiniteRounded M)._0.a2, (p.indefiniteRounded M)._0.a3, (p.indefiniteRounded M)._0.a4, (p.indefiniteRounded M)._0.a5, (p.indefiniteRounded M)._0.a6, (p.indefiniteRounded M)._0.a7, (p.indefiniteRounded M)._0.a8] [p._0.a0, p._0.a1 / 2, p._0.a2 / 3, p._0.a3 / 4, p._0.a4 / 5, p._0.a5 / 6, p._0.a6 / 7, p._0.a7 / 8] := by
  obtain ⟨h0, h1, h2, h3, h4, h5, h6, h7, h8⟩ := poly7_indefinite_coeff_rounding M p
  exact List.Forall₂.cons (Rel.of_eq (eta_nonneg M.hu M.hu1) h1) (List.Forall₂.cons h2 (List.Forall₂.cons h3 (List.Forall₂.cons h4 (List.Forall₂.cons h5 (List.Forall₂.cons h6 (List.Forall₂.cons h7 (List.Forall₂.cons h8 List.Forall₂.nil)))))))

theorem poly7_S_eq (p : Poly7 K) (t : K) :
    |t| * polySum (List.map abs [p._0.a0, p._0.a1 / 2, p._0.a2 / 3, p._0.a3 / 4, p._0.a4 / 5, p._0.a5 / 6, p._0.a6 / 7, p._0.a7 / 8]) |t| = |p._0.a0| * |t| + |p._0.a1 / 2| * |t| ^ 2 + |p._0.a2 / 3| * |t| ^ 3 + |p._0.a3 / 4| * |t| ^ 4 + |p._0.a4 / 5| * |t| ^ 5 + |p._0.a5 / 6| * |t| ^ 6 + |p._0.a6 / 7| * |t| ^ 7 + |p._0.a7 / 8| * |t| ^ 8 := by
  simp only [polySum, List.map_cons, List.map_nil]; ring

theorem poly7_P_eq (p : Poly7 K) (t : K) :
    t * polySum [p._0.a0, p._0.a1 / 2, p._0.a2 / 3, p._0.a3 / 4, p._0.a4 / 5, p._0.a5 / 6, p._0.a6 / 7, p._0.a7 / 8] t = p._0.a0 * t + p._0.a1 / 2 * t ^ 2 + p._0.a2 / 3 * t ^ 3 + p._0.a3 / 4 * t ^ 4 + p._0.a4 / 5 * t ^ 5 + p._0.a5 / 6 * t ^ 6 + p._0.a6 / 7 * t ^ 7 + p._0.a7 / 8 * t ^ 8 := by
  simp only [polySum]; ring

/-- (2, structure) `integral p knot` computed in `Rounded M`: the coefficients of `indefinite p`, with the constant
term `rnd (0 + rnd (knot.y − Ê))` where `Ê` is the rounded value of `indefinite p` at `knot.x` -/
theorem poly7_integral_lanes_rounded (M : RModel K) (p : Poly7 K) (knot : Knot K) :
    p.integralRounded M knot =
      ⟨⟨M.rnd ((p.indefiniteRounded M)._0.a0 + M.rnd (knot.y - (p.indefiniteRounded M).evalRounded M knot.x)), (p.indefiniteRounded M)._0.a1, (p.indefiniteRounded M)._0.a2, (p.indefiniteRounded M)._0.a3, (p.indefiniteRounded M)._0.a4, (p.indefiniteRounded M)._0.a5, (p.indefiniteRounded M)._0.a6, (p.indefiniteRounded M)._0.a7, (p.indefiniteRounded M)._0.a8⟩⟩ := rfl

/-- **(2)** "its value at knot.x is knot.y (within rounding)": the rounded evaluation of the rounded `integral p knot`
at `knot.x`; `C_7 = 3·7+6` -/
theorem poly7_integral_at_knot_rounding (M : RModel K) (hu : M.u ≤ (2 : K) ^ (-53 : ℤ)) (p : Poly7 K) (knot : Knot K) :
    |(p.integralRounded M knot).evalRounded M knot.x - knot.y|
      ≤ (3 * 7 + 6) * M.u * (|knot.y| + (|p._0.a0| * |knot.x| + |p._0.a1 / 2| * |knot.x| ^ 2 + |p._0.a2 / 3| * |knot.x| ^ 3 + |p._0.a3 / 4| * |knot.x| ^ 4 + |p._0.a4 / 5| * |knot.x| ^ 5 + |p._0.a5 / 6| * |knot.x| ^ 6 + |p._0.a6 / 7| * |knot.x| ^ 7 + |p._0.a7 / 8| * |knot.x| ^ 8)) := by
  have key := knot_defect M hu 8 (by norm_num) (poly7_rel M p) knot.x knot.y ((p.indefiniteRounded M)._0.a0)
    ((p.indefiniteRounded M).evalRounded M knot.x) ((p.integralRounded M knot)._0.a0) ((p.integralRounded M knot).evalRounded M knot.x) (lit_zero M 0)
    (poly8_list_bound M (p.indefiniteRounded M) knot.x) rfl (poly8_list_bound M (p.integralRounded M knot) knot.x)
  rw [poly7_S_eq] at key
  refine key.trans (le_of_eq ?_)
  push_cast; ring

/-- (2, exact evaluation) the computed coefficients of `integral p knot`, evaluated EXACTLY at `knot.x` -/
theorem poly7_integral_at_knot_exact_eval (M : RModel K) (hu : M.u ≤ (2 : K) ^ (-53 : ℤ)) (p : Poly7 K) (knot : Knot K) :
    |Evaluate.evaluate (p.integralRounded M knot) knot.x - knot.y|
      ≤ (7 + 4) * M.u * (|knot.y| + (|p._0.a0| * |knot.x| + |p._0.a1 / 2| * |knot.x| ^ 2 + |p._0.a2 / 3| * |knot.x| ^ 3 + |p._0.a3 / 4| * |knot.x| ^ 4 + |p._0.a4 / 5| * |knot.x| ^ 5 + |p._0.a5 / 6| * |knot.x| ^ 6 + |p._0.a6 / 7| * |knot.x| ^ 7 + |p._0.a7 / 8| * |knot.x| ^ 8)) := by
  have key := knot_defect_exact M hu 8 (by norm_num) (poly7_rel M p) knot.x knot.y ((p.indefiniteRounded M)._0.a0)
    ((p.indefiniteRounded M).evalRounded M knot.x) ((p.integralRounded M knot)._0.a0) (lit_zero M 0) (poly8_list_bound M (p.indefiniteRounded M) knot.x) rfl
  have e : Evaluate.evaluate (p.integralRounded M knot) knot.x
      = (p.integralRounded M knot)._0.a0 + knot.x * polySum [(p.indefiniteRounded M)._0.a1, (p.indefiniteRounded M)._0.a2, (p.indefiniteRounded M)._0.a3, (p.indefiniteRounded M)._0.a4, (p.indefiniteRounded M)._0.a5, (p.indefiniteRounded M)._0.a6, (p.indefiniteRounded M)._0.a7, (p.indefiniteRounded M)._0.a8] knot.x := by
    rw [poly8_eval, poly7_integral_lanes_rounded]
    simp only [polySum]; ring
  rw [e]
  rw [poly7_S_eq] at key
  refine key.trans (le_of_eq ?_)
  push_cast; ring

/-- **(3)** `F̂(b) − F̂(a)` against the exact integral `P(b) − P(a)` of `p` over `[a, b]`, all `a b` -/
theorem poly7_integral_difference_rounding (M : RModel K) (hu : M.u ≤ (2 : K) ^ (-53 : ℤ)) (p : Poly7 K)
    (knot : Knot K) (a b : K) :
    |(p.integralRounded M knot).evalRounded M b - (p.integralRounded M knot).evalRounded M a
        - ((p._0.a0 * b + p._0.a1 / 2 * b ^ 2 + p._0.a2 / 3 * b ^ 3 + p._0.a3 / 4 * b ^ 4 + p._0.a4 / 5 * b ^ 5 + p._0.a5 / 6 * b ^ 6 + p._0.a6 / 7 * b ^ 7 + p._0.a7 / 8 * b ^ 8) - (p._0.a0 * a + p._0.a1 / 2 * a ^ 2 + p._0.a2 / 3 * a ^ 3 + p._0.a3 / 4 * a ^ 4 + p._0.a4 / 5 * a ^ 5 + p._0.a5 / 6 * a ^ 6 + p._0.a6 / 7 * a ^ 7 + p._0.a7 / 8 * a ^ 8))|
      ≤ (7 + 4) * M.u * ((|p._0.a0| * |a| + |p._0.a1 / 2| * |a| ^ 2 + |p._0.a2 / 3| * |a| ^ 3 + |p._0.a3 / 4| * |a| ^ 4 + |p._0.a4 / 5| * |a| ^ 5 + |p._0.a5 / 6| * |a| ^ 6 + |p._0.a6 / 7| * |a| ^ 7 + |p._0.a7 / 8| * |a| ^ 8) + (|p._0.a0| * |b| + |p._0.a1 / 2| * |b| ^ 2 + |p._0.a2 / 3| * |b| ^ 3 + |p._0.a3 / 4| * |b| ^ 4 + |p._0.a4 / 5| * |b| ^ 5 + |p._0.a5 / 6| * |b| ^ 6 + |p._0.a6 / 7| * |b| ^ 7 + |p._0.a7 / 8| * |b| ^ 8)
          + 2 * |(p.integralRounded M knot)._0.a0|) := by
  have key := difference_defect M hu 8 (by norm_num) (poly7_rel M p) a b ((p.integralRounded M knot)._0.a0)
    ((p.integralRounded M knot).evalRounded M a) ((p.integralRounded M knot).evalRounded M b)
    (poly8_list_bound M (p.integralRounded M knot) a) (poly8_list_bound M (p.integralRounded M knot) b)
  rw [poly7_S_eq, poly7_S_eq, poly7_P_eq, poly7_P_eq] at key
  refine key.trans (le_of_eq ?_)
  push_cast; ring

/-- **(4)** `derivative (indefinite p)`, all in `Rounded M`, returns `p` coefficient-wise within `(2u + u²)|cᵢ|`
(the rounded literal `i+1` cancels: no representability assumption) -/
theorem poly7_derivative_indefinite_rounding (M : RModel K) (p : Poly7 K) :
    (p.derivIndefRounded M)._0.a0 = p._0.a0
      ∧ |(p.derivIndefRounded M)._0.a1 - p._0.a1| ≤ (2 * M.u + M.u ^ 2) * |p._0.a1|
      ∧ |(p.derivIndefRounded M)._0.a2 - p._0.a2| ≤ (2 * M.u + M.u ^ 2) * |p._0.a2|
      ∧ |(p.derivIndefRounded M)._0.a3 - p._0.a3| ≤ (2 * M.u + M.u ^ 2) * |p._0.a3|
      ∧ |(p.derivIndefRounded M)._0.a4 - p._0.a4| ≤ (2 * M.u + M.u ^ 2) * |p._0.a4|
      ∧ |(p.derivIndefRounded M)._0.a5 - p._0.a5| ≤ (2 * M.u + M.u ^ 2) * |p._0.a5|
      ∧ |(p.derivIndefRounded M)._0.a6 - p._0.a6| ≤ (2 * M.u + M.u ^ 2) * |p._0.a6|
      ∧ |(p.derivIndefRounded M)._0.a7 - p._0.a7| ≤ (2 * M.u + M.u ^ 2) * |p._0.a7| :=
  ⟨rfl,
   mul_div_lit_close M (p._0.a1) (l := ((((2 : ℤ)) : K) * (10 : K) ^ (0 : ℤ))) (q := 2) (by norm_num) (by norm_num),
   mul_div_lit_close M (p._0.a2) (l := ((((3 : ℤ)) : K) * (10 : K) ^ (0 : ℤ))) (q := 3) (by norm_num) (by norm_num),
   mul_div_lit_close M (p._0.a3) (l := ((((4 : ℤ)) : K) * (10 : K) ^ (0 : ℤ))) (q := 4) (by norm_num) (by norm_num),
   mul_div_lit_close M (p._0.a4) (l := ((((5 : ℤ)) : K) * (10 : K) ^ (0 : ℤ))) (q := 5) (by norm_num) (by norm_num),
   mul_div_lit_close M (p._0.a5) (l := ((((6 : ℤ)) : K) * (10 : K) ^ (0 : ℤ))) (q := 6) (by norm_num) (by norm_num),
   mul_div_lit_close M (p._0.a6) (l := ((((7 : ℤ)) : K) * (10 : K) ^ (0 : ℤ))) (q := 7) (by norm_num) (by norm_num),
   mul_div_lit_close M (p._0.a7) (l := ((((8 : ℤ)) : K) * (10 : K) ^ (0 : ℤ))) (q := 8) (by norm_num) (by norm_num)⟩

end

/-! ## (3) over ℝ: against `∫ t in a..b, p t` -/
section real
variable [Transc ℝ]
attribute [local instance] exactFL

/-- (3, over ℝ) against the integral itself -/
theorem poly0_integral_difference_rounding_real (M : RModel ℝ) (hu : M.u ≤ (2 : ℝ) ^ (-53 : ℤ)) (p : Poly0 ℝ)
    (knot : Knot ℝ) (a b : ℝ) :
    |(p.integralRounded M knot).evalRounded M b - (p.integralRounded M knot).evalRounded M a - ∫ t in a..b, Evaluate.evaluate p t|
      ≤ (0 + 4) * M.u * ((|p._0| * |a|) + (|p._0| * |b|)
          + 2 * |(p.integralRounded M knot)._0.a0|) := by
  have e : (∫ t in a..b, Evaluate.evaluate p t) = (p._0 * b) - (p._0 * a) := by
    rw [← PP.Props.C07.poly0_indefinite_ftc p a b, PP.Props.C07.poly0_indefinite, poly1_eval, poly1_eval]
    ring
  rw [e]; exact poly0_integral_difference_rounding M hu p knot a b

/-- (3, over ℝ) against the integral itself -/
theorem poly1_integral_difference_rounding_real (M : RModel ℝ) (hu : M.u ≤ (2 : ℝ) ^ (-53 : ℤ)) (p : Poly1 ℝ)
    (knot : Knot ℝ) (a b : ℝ) :
    |(p.integralRounded M knot).evalRounded M b - (p.integralRounded M knot).evalRounded M a - ∫ t in a..b, Evaluate.evaluate p t|
      ≤ (1 + 4) * M.u * ((|p._0.a0| * |a| + |p._0.a1 / 2| * |a| ^ 2) + (|p._0.a0| * |b| + |p._0.a1 / 2| * |b| ^ 2)
          + 2 * |(p.integralRounded M knot)._0.a0|) := by
  have e : (∫ t in a..b, Evaluate.evaluate p t) = (p._0.a0 * b + p._0.a1 / 2 * b ^ 2) - (p._0.a0 * a + p._0.a1 / 2 * a ^ 2) := by
    rw [← PP.Props.C07.poly1_indefinite_ftc p a b, PP.Props.C07.poly1_indefinite, poly2_eval, poly2_eval]
    ring
  rw [e]; exact poly1_integral_difference_rounding M hu p knot a b

/-- (3, over ℝ) against the integral itself -/
theorem poly2_integral_difference_rounding_real (M : RModel ℝ) (hu : M.u ≤ (2 : ℝ) ^ (-53 : ℤ)) (p : Poly2 ℝ)
    (knot : Knot ℝ) (a b : ℝ) :
    |(p.integralRounded M knot).evalRounded M b - (p.integralRounded M knot).evalRounded M a - ∫ t in a..b, Evaluate.evaluate p t|
      ≤ (2 + 4) * M.u * ((|p._0.a0| * |a| + |p._0.a1 / 2| * |a| ^ 2 + |p._0.a2 / 3| * |a| ^ 3) + (|p._0.a0| * |b| + |p._0.a1 / 2| * |b| ^ 2 + |p._0.a2 / 3| * |b| ^ 3)
          + 2 * |(p.integralRounded M knot)._0.a0|) := by
  have e : (∫ t in a..b, Evaluate.evaluate p t) = (p._0.a0 * b + p._0.a1 / 2 * b ^ 2 + p._0.a2 / 3 * b ^ 3) - (p._0.a0 * a + p._0.a1 / 2 * a ^ 2 + p._0.a2 / 3 * a ^ 3) := by
    rw [← PP.Props.C07.poly2_indefinite_ftc p a b, PP.Props.C07.poly2_indefinite, poly3_eval, poly3_eval]
    ring
  rw [e]; exact poly2_integral_difference_rounding M hu p knot a b

/-- (3, over ℝ) against the integral itself -/
theorem poly3_integral_difference_rounding_real (M : RModel ℝ) (hu : M.u ≤ (2 : ℝ) ^ (-53 : ℤ)) (p : Poly3 ℝ)
    (knot : Knot ℝ) (a b : ℝ) :
    |(p.integralRounded M knot).evalRounded M b - (p.integralRounded M knot).evalRounded M a - ∫ t in a..b, Evaluate.evaluate p t|
      ≤ (3 + 4) * M.u * ((|p._0.a0| * |a| + |p._0.a1 / 2| * |a| ^ 2 + |p._0.a2 / 3| * |a| ^ 3 + |p._0.a3 / 4| * |a| ^ 4) + (|p._0.a0| * |b| + |p._0.a1 / 2| * |b| ^ 2 + |p._0.a2 / 3| * |b| ^ 3 + |p._0.a3 / 4| * |b| ^ 4)
          + 2 * |(p.integralRounded M knot)._0.a0|) := by
  have e : (∫ t in a..b, Evaluate.evaluate p t) = (p._0.a0 * b + p._0.a1 / 2 * b ^ 2 + p._0.a2 / 3 * b ^ 3 + p._0.a3 / 4 * b ^ 4) - (p._0.a0 * a + p._0.a1 / 2 * a ^ 2 + p._0.a2 / 3 * a ^ 3 + p._0.a3 / 4 * a ^ 4) := by
    rw [← PP.Props.C07.poly3_indefinite_ftc p a b, PP.Props.C07.poly3_indefinite, poly4_eval, poly4_eval]
    ring
  rw [e]; exact poly3_integral_difference_rounding M hu p knot a b

/-- (3, over ℝ) against the integral itself -/
theorem poly4_integral_difference_rounding_real (M : RModel ℝ) (hu : M.u ≤ (2 : ℝ) ^ (-53 : ℤ)) (p : Poly4 ℝ)
    (knot : Knot ℝ) (a b : ℝ) :
    |(p.integralRounded M knot).evalRounded M b - (p.integralRounded M knot).evalRounded M a - ∫ t in a..b, Evaluate.evaluate p t|
      ≤ (4 + 4) * M.u * ((|p._0.a0| * |a| + |p._0.a1 / 2| * |a| ^ 2 + |p._0.a2 / 3| * |a| ^ 3 + |p._0.a3 / 4| * |a| ^ 4 + |p._0.a4 / 5| * |a| ^ 5) + (|p._0.a0| * |b| + |p._0.a1 / 2| * |b| ^ 2 + |p._0.a2 / 3| * |b| ^ 3 + |p._0.a3 / 4| * |b| ^ 4 + |p._0.a4 / 5| * |b| ^ 5)
          + 2 * |(p.integralRounded M knot)._0.a0|) := by
  have e : (∫ t in a..b, Evaluate.evaluate p t) = (p._0.a0 * b + p._0.a1 / 2 * b ^ 2 + p._0.a2 / 3 * b ^ 3 + p._0.a3 / 4 * b ^ 4 + p._0.a4 / 5 * b ^ 5) - (p._0.a0 * a + p._0.a1 / 2 * a ^ 2 + p._0.a2 / 3 * a ^ 3 + p._0.a3 / 4 * a ^ 4 + p._0.a4 / 5 * a ^ 5) := by
    rw [← PP.Props.C07.poly4_indefinite_ftc p a b, PP.Props.C07.poly4_indefinite, poly5_eval, poly5_eval]
    ring
  rw [e]; exact poly4_integral_difference_rounding M hu p knot a b

/-- (3, over ℝ) against the integral itself -/
theorem poly5_integral_difference_rounding_real (M : RModel ℝ) (hu : M.u ≤ (2 : ℝ) ^ (-53 : ℤ)) (p : Poly5 ℝ)
    (knot : Knot ℝ) (a b : ℝ) :
    |(p.integralRounded M knot).evalRounded M b - (p.integralRounded M knot).evalRounded M a - ∫ t in a..b, Evaluate.evaluate p t|
      ≤ (5 + 4) * M.u * ((|p._0.a0| * |a| + |p._0.a1 / 2| * |a| ^ 2 + |p._0.a2 / 3| * |a| ^ 3 + |p._0.a3 / 4| * |a| ^ 4 + |p._0.a4 / 5| * |a| ^ 5 + |p._0.a5 / 6| * |a| ^ 6) + (|p._0.a0| * |b| + |p._0.a1 / 2| * |b| ^ 2 + |p._0.a2 / 3| * |b| ^ 3 + |p._0.a3 / 4| * |b| ^ 4 + |p._0.a4 / 5| * |b| ^ 5 + |p._0.a5 / 6| * |b| ^ 6)
          + 2 * |(p.integralRounded M knot)._0.a0|) := by
  have e : (∫ t in a..b, Evaluate.evaluate p t) = (p._0.a0 * b + p._0.a1 / 2 * b ^ 2 + p._0.a2 / 3 * b ^ 3 + p._0.a3 / 4 * b ^ 4 + p._0.a4 / 5 * b ^ 5 + p._0.a5 / 6 * b ^ 6) - (p._0.a0 * a + p._0.a1 / 2 * a ^ 2 + p._0.a2 / 3 * a ^ 3 + p._0.a3 / 4 * a ^ 4 + p._0.a4 / 5 * a ^ 5 + p._0.a5 / 6 * a ^ 6) := by
    rw [← PP.Props.C07.poly5_indefinite_ftc p a b, PP.Props.C07.poly5_indefinite, poly6_eval, poly6_eval]
    ring
  rw [e]; exact poly5_integral_difference_rounding M hu p knot a b

/-- (3, over ℝ) against the integral itself -/
theorem poly6_integral_difference_rounding_real (M : RModel ℝ) (hu : M.u ≤ (2 : ℝ) ^ (-53 : ℤ)) (p : Poly6 ℝ)
    (knot : Knot ℝ) (a b : ℝ) :
    |(p.integralRounded M knot).evalRounded M b - (p.integralRounded M knot).evalRounded M a - ∫ t in a..b, Evaluate.evaluate p t|
      ≤ (6 + 4) * M.u * ((|p._0.a0| * |a| + |p._0.a1 / 2| * |a| ^ 2 + |p._0.a2 / 3| * |a| ^ 3 + |p._0.a3 / 4| * |a| ^ 4 + |p._0.a4 / 5| * |a| ^ 5 + |p._0.a5 / 6| * |a| ^ 6 + |p._0.a6 / 7| * |a| ^ 7) + (|p._0.a0| * |b| + |p._0.a1 / 2| * |b| ^ 2 + |p._0.a2 / 3| * |b| ^ 3 + |p._0.a3 / 4| * |b| ^ 4 + |p._0.a4 / 5| * |b| ^ 5 + |p._0.a5 / 6| * |b| ^ 6 + |p._0.a6 / 7| * |b| ^ 7)
          + 2 * |(p.integralRounded M knot)._0.a0|) := by
  have e : (∫ t in a..b, Evaluate.evaluate p t) = (p._0.a0 * b + p._0.a1 / 2 * b ^ 2 + p._0.a2 / 3 * b ^ 3 + p._0.a3 / 4 * b ^ 4 + p._0.a4 / 5 * b ^ 5 + p._0.a5 / 6 * b ^ 6 + p._0.a6 / 7 * b ^ 7) - (p._0.a0 * a + p._0.a1 / 2 * a ^ 2 + p._0.a2 / 3 * a ^ 3 + p._0.a3 / 4 * a ^ 4 + p._0.a4 / 5 * a ^ 5 + p._0.a5 / 6 * a ^ 6 + p._0.a6 / 7 * a ^ 7) := by
    rw [← PP.Props.C07.poly6_indefinite_ftc p a b, PP.Props.C07.poly6_indefinite, poly7_eval, poly7_eval]
    ring
  rw [e]; exact poly6_integral_difference_rounding M hu p knot a b

/-- (3, over ℝ) against the integral itself -/
theorem poly7_integral_difference_rounding_real (M : RModel ℝ) (hu : M.u ≤ (2 : ℝ) ^ (-53 : ℤ)) (p : Poly7 ℝ)
    (knot : Knot ℝ) (a b : ℝ) :
    |(p.integralRounded M knot).evalRounded M b - (p.integralRounded M knot).evalRounded M a - ∫ t in a..b, Evaluate.evaluate p t|
      ≤ (7 + 4) * M.u * ((|p._0.a0| * |a| + |p._0.a1 / 2| * |a| ^ 2 + |p._0.a2 / 3| * |a| ^ 3 + |p._0.a3 / 4| * |a| ^ 4 + |p._0.a4 / 5| * |a| ^ 5 + |p._0.a5 / 6| * |a| ^ 6 + |p._0.a6 / 7| * |a| ^ 7 + |p._0.a7 / 8| * |a| ^ 8) + (|p._0.a0| * |b| + |p._0.a1 / 2| * |b| ^ 2 + |p._0.a2 / 3| * |b| ^ 3 + |p._0.a3 / 4| * |b| ^ 4 + |p._0.a4 / 5| * |b| ^ 5 + |p._0.a5 / 6| * |b| ^ 6 + |p._0.a6 / 7| * |b| ^ 7 + |p._0.a7 / 8| * |b| ^ 8)
          + 2 * |(p.integralRounded M knot)._0.a0|) := by
  have e : (∫ t in a..b, Evaluate.evaluate p t) = (p._0.a0 * b + p._0.a1 / 2 * b ^ 2 + p._0.a2 / 3 * b ^ 3 + p._0.a3 / 4 * b ^ 4 + p._0.a4 / 5 * b ^ 5 + p._0.a5 / 6 * b ^ 6 + p._0.a6 / 7 * b ^ 7 + p._0.a7 / 8 * b ^ 8) - (p._0.a0 * a + p._0.a1 / 2 * a ^ 2 + p._0.a2 / 3 * a ^ 3 + p._0.a3 / 4 * a ^ 4 + p._0.a4 / 5 * a ^ 5 + p._0.a5 / 6 * a ^ 6 + p._0.a6 / 7 * a ^ 7 + p._0.a7 / 8 * a ^ 8) := by
    rw [← PP.Props.C07.poly7_indefinite_ftc p a b, PP.Props.C07.poly7_indefinite, poly8_eval, poly8_eval]
    ring
  rw [e]; exact poly7_integral_difference_rounding M hu p knot a b

end real

/-! ## non-vacuity: the hypotheses are satisfiable in models that really round -/
section examples
noncomputable local instance : Transc ℚ := ⟨fun x => x, fun x => x⟩
noncomputable local instance instTranscReal : Transc ℝ := ⟨Real.log, Real.exp⟩

/-- `u = 2⁻⁵³` exactly and *every* operation errs by the full relative `u` -/
noncomputable abbrev M53 : RModel ℚ := RModel.m53
/-- the same over ℝ -/
noncomputable def M53R : RModel ℝ := RModel.inflate (2 ^ (-53 : ℤ)) (by positivity) (by norm_num)

example : M53.u ≤ (2 : ℚ) ^ (-53 : ℤ) := le_refl _
example : M53R.u ≤ (2 : ℝ) ^ (-53 : ℤ) := le_refl _

/-- integers are fixed by `RModel.intFix` (which is not the identity: `intFix.rnd (1/2) ≠ 1/2`) -/
theorem intFix_litFixed : LitFixed RModel.intFix 8 := fun j _ _ => by
  simpa using RModel.intFix_int (j : ℤ)

theorem intFix_third : RModel.intFix.rnd (1 / 3) = 1 / 3 * (1 + 2 ^ (-53 : ℤ)) := by
  simp [RModel.intFix]

/-- (1): `∫ (1 − 2x + 3x²)`, the cubic coefficient -/
example : |((⟨⟨1, -2, 3⟩⟩ : Poly2 ℚ).indefiniteRounded M53)._0.a3 - 3 / 3|
    ≤ 2 * M53.u / (1 - M53.u) * |(3 : ℚ) / 3| :=
  (poly2_indefinite_coeff_rounding M53 ⟨⟨1, -2, 3⟩⟩).2.2.2

/-- (1, representable literals): the hypothesis `LitFixed` holds in `intFix` … -/
example : |((⟨⟨1, 1, 1⟩⟩ : Poly2 ℚ).indefiniteRounded RModel.intFix)._0.a3 - 1 / 3|
    ≤ RModel.intFix.u * |(1 : ℚ) / 3| :=
  (poly2_indefinite_coeff_rounding_fixed RModel.intFix (fun j h2 h3 => intFix_litFixed j h2 (by omega))
    ⟨⟨1, 1, 1⟩⟩).2.2.2

/-- … and there the bound `u·|c/3|` of (1) is ATTAINED: the computed coefficient of `x³` in `∫ (1 + x + x²)` is
`(1/3)(1 + 2⁻⁵³)` -/
example : |((⟨⟨1, 1, 1⟩⟩ : Poly2 ℚ).indefiniteRounded RModel.intFix)._0.a3 - 1 / 3|
    = RModel.intFix.u * |(1 : ℚ) / 3| := by
  show |RModel.intFix.rnd (1 / RModel.intFix.rnd (((3 : ℤ) : ℚ) * (10 : ℚ) ^ (0 : ℤ))) - 1 / 3|
    = (2 : ℚ) ^ (-53 : ℤ) * |(1 : ℚ) / 3|
  have h3 : RModel.intFix.rnd (((3 : ℤ) : ℚ) * (10 : ℚ) ^ (0 : ℤ)) = 3 := by
    simpa using RModel.intFix_int 3
  rw [h3, intFix_third]
  norm_num [abs_of_pos]

theorem den_ne_one_of_mem_Ioo {t : ℚ} (h0 : 0 < t) (h1 : t < 1) : t.den ≠ 1 := by
  intro h
  have e := Rat.coe_int_num_of_den_eq_one h
  rw [← e] at h0 h1
  have a : 0 < t.num := by exact_mod_cast h0
  have b : t.num < 1 := by exact_mod_cast h1
  omega

/-- a model in which the literals are NOT representable: integers are rounded DOWN by the full `u`,
everything else UP -/
def intShrink : RModel ℚ where
  rnd := fun t => if t.den = 1 then t * (1 - 2 ^ (-53 : ℤ)) else t * (1 + 2 ^ (-53 : ℤ))
  u := 2 ^ (-53 : ℤ)
  hu := by positivity
  hu1 := by norm_num
  h := fun t => by
    split
    · have : t * (1 - 2 ^ (-53 : ℤ)) - t = -(2 ^ (-53 : ℤ) * t) := by ring
      rw [this, abs_neg, abs_mul, abs_of_nonneg (by positivity)]
    · have : t * (1 + 2 ^ (-53 : ℤ)) - t = 2 ^ (-53 : ℤ) * t := by ring
      rw [this, abs_mul, abs_of_nonneg (by positivity)]
  rnd_neg := fun t => by
    simp only [Rat.neg_den]
    split <;> ring

/-- (1), rounded literals: the constant `2u/(1−u)` of the general statement is ATTAINED in `intShrink`
(`rnd 3 = 3(1−u)`, then `rnd (1/(3(1−u))) = (1+u)/(3(1−u))`) -/
example : |((⟨⟨1, 1, 1⟩⟩ : Poly2 ℚ).indefiniteRounded intShrink)._0.a3 - 1 / 3|
    = 2 * intShrink.u / (1 - intShrink.u) * |(1 : ℚ) / 3| := by
  show |intShrink.rnd (1 / intShrink.rnd (((3 : ℤ) : ℚ) * (10 : ℚ) ^ (0 : ℤ))) - 1 / 3|
    = 2 * (2 : ℚ) ^ (-53 : ℤ) / (1 - (2 : ℚ) ^ (-53 : ℤ)) * |(1 : ℚ) / 3|
  have h3 : intShrink.rnd (((3 : ℤ) : ℚ) * (10 : ℚ) ^ (0 : ℤ)) = 3 * (1 - 2 ^ (-53 : ℤ)) := by
    simp [intShrink]
  rw [h3]
  have h4 : intShrink.rnd (1 / (3 * (1 - 2 ^ (-53 : ℤ))))
      = 1 / (3 * (1 - 2 ^ (-53 : ℤ))) * (1 + 2 ^ (-53 : ℤ)) := by
    have : (1 / (3 * (1 - 2 ^ (-53 : ℤ))) : ℚ).den ≠ 1 :=
      den_ne_one_of_mem_Ioo (by norm_num) (by norm_num)
    show (if (1 / (3 * (1 - 2 ^ (-53 : ℤ))) : ℚ).den = 1 then _ else _) = _
    rw [if_neg this]
  rw [h4]
  norm_num [abs_of_pos]

theorem M53_rnd (t : ℚ) : M53.rnd t = t * (1 + 2 ^ (-53 : ℤ)) := rfl

/-- (2): the defect is real ("within rounding" cannot be dropped): `∫ 1` through the knot `(1, 0)` in `M53` takes the
value `−((1+u)³ − 1)(1+u) ≈ −3u ≠ 0` at `x = 1` (the bound of (2) is `6u·(|0| + |1|·|1|)`) -/
example : ((⟨1⟩ : Poly0 ℚ).integralRounded M53 ⟨1, 0⟩).evalRounded M53 1
    = -((1 + 2 ^ (-53 : ℤ)) ^ 3 - 1) * (1 + 2 ^ (-53 : ℤ)) := by
  show M53.rnd (1 * 1 + M53.rnd (M53.rnd (((0 : ℤ) : ℚ) * (10 : ℚ) ^ (0 : ℤ))
      + M53.rnd (0 - M53.rnd (1 * 1 + M53.rnd (((0 : ℤ) : ℚ) * (10 : ℚ) ^ (0 : ℤ)))))) = _
  simp only [M53_rnd]
  ring

/-- (2): `∫ (1 − 2x + 3x²)` through the knot `(2, 10)` -/
example : |((⟨⟨1, -2, 3⟩⟩ : Poly2 ℚ).integralRounded M53 ⟨2, 10⟩).evalRounded M53 2 - 10|
    ≤ (3 * 2 + 6) * M53.u * (|10| + (|1| * |2| + |-2 / 2| * |2| ^ 2 + |3 / 3| * |2| ^ 3)) :=
  poly2_integral_at_knot_rounding M53 (le_refl _) ⟨⟨1, -2, 3⟩⟩ ⟨2, 10⟩

/-- (2), degree 7 -/
example : |((⟨⟨1, -2, 3, -4, 5, -6, 7, -8⟩⟩ : Poly7 ℚ).integralRounded M53 ⟨2, 10⟩).evalRounded M53 2 - 10|
    ≤ (3 * 7 + 6) * M53.u * (|10| + (|1| * |2| + |-2 / 2| * |2| ^ 2 + |3 / 3| * |2| ^ 3 + |-4 / 4| * |2| ^ 4
        + |5 / 5| * |2| ^ 5 + |-6 / 6| * |2| ^ 6 + |7 / 7| * |2| ^ 7 + |-8 / 8| * |2| ^ 8)) :=
  poly7_integral_at_knot_rounding M53 (le_refl _) ⟨⟨1, -2, 3, -4, 5, -6, 7, -8⟩⟩ ⟨2, 10⟩

section
attribute [local instance] exactFL
/-- (2, exact evaluation of the computed coefficients) -/
example : |Evaluate.evaluate ((⟨⟨1, -2, 3⟩⟩ : Poly2 ℚ).integralRounded M53 ⟨2, 10⟩) 2 - 10|
    ≤ (2 + 4) * M53.u * (|10| + (|1| * |2| + |-2 / 2| * |2| ^ 2 + |3 / 3| * |2| ^ 3)) :=
  poly2_integral_at_knot_exact_eval M53 (le_refl _) ⟨⟨1, -2, 3⟩⟩ ⟨2, 10⟩
end

/-- (3): `∫₁³ (1 − 2x + 3x²)` -/
example : |((⟨⟨1, -2, 3⟩⟩ : Poly2 ℚ).integralRounded M53 ⟨2, 10⟩).evalRounded M53 3
      - ((⟨⟨1, -2, 3⟩⟩ : Poly2 ℚ).integralRounded M53 ⟨2, 10⟩).evalRounded M53 1
      - ((1 * 3 + -2 / 2 * 3 ^ 2 + 3 / 3 * 3 ^ 3) - (1 * 1 + -2 / 2 * 1 ^ 2 + 3 / 3 * 1 ^ 3))|
    ≤ (2 + 4) * M53.u * ((|1| * |1| + |-2 / 2| * |1| ^ 2 + |3 / 3| * |1| ^ 3)
        + (|1| * |3| + |-2 / 2| * |3| ^ 2 + |3 / 3| * |3| ^ 3)
        + 2 * |((⟨⟨1, -2, 3⟩⟩ : Poly2 ℚ).integralRounded M53 ⟨2, 10⟩)._0.a0|) :=
  poly2_integral_difference_rounding M53 (le_refl _) ⟨⟨1, -2, 3⟩⟩ ⟨2, 10⟩ 1 3

section
attribute [local instance] exactFL
/-- (3, over ℝ, against the integral) -/
example : |((⟨⟨1, -2, 3⟩⟩ : Poly2 ℝ).integralRounded M53R ⟨2, 10⟩).evalRounded M53R 3
      - ((⟨⟨1, -2, 3⟩⟩ : Poly2 ℝ).integralRounded M53R ⟨2, 10⟩).evalRounded M53R 1
      - ∫ t in (1 : ℝ)..3, Evaluate.evaluate (⟨⟨1, -2, 3⟩⟩ : Poly2 ℝ) t|
    ≤ (2 + 4) * M53R.u * ((|1| * |1| + |-2 / 2| * |1| ^ 2 + |3 / 3| * |1| ^ 3)
        + (|1| * |3| + |-2 / 2| * |3| ^ 2 + |3 / 3| * |3| ^ 3)
        + 2 * |((⟨⟨1, -2, 3⟩⟩ : Poly2 ℝ).integralRounded M53R ⟨2, 10⟩)._0.a0|) :=
  poly2_integral_difference_rounding_real M53R (le_refl _) ⟨⟨1, -2, 3⟩⟩ ⟨2, 10⟩ 1 3
end

/-- (4): every operation inflated … -/
example : |((⟨⟨1, -2, 3⟩⟩ : Poly2 ℚ).derivIndefRounded M53)._0.a2 - 3| ≤ (2 * M53.u + M53.u ^ 2) * |3| :=
  (poly2_derivative_indefinite_rounding M53 ⟨⟨1, -2, 3⟩⟩).2.2

/-- … and in `intFix` the bound `(2u + u²)|c|` of (4) is ATTAINED: `3·rnd(1/3) = 1 + u` is not an integer and is
inflated once more -/
example : |((⟨⟨1, 1, 1⟩⟩ : Poly2 ℚ).derivIndefRounded RModel.intFix)._0.a2 - 1|
    = (2 * RModel.intFix.u + RModel.intFix.u ^ 2) * |1| := by
  show |RModel.intFix.rnd (RModel.intFix.rnd (((3 : ℤ) : ℚ) * (10 : ℚ) ^ (0 : ℤ))
      * RModel.intFix.rnd (1 / RModel.intFix.rnd (((3 : ℤ) : ℚ) * (10 : ℚ) ^ (0 : ℤ)))) - 1|
    = (2 * (2 : ℚ) ^ (-53 : ℤ) + ((2 : ℚ) ^ (-53 : ℤ)) ^ 2) * |1|
  have h3 : RModel.intFix.rnd (((3 : ℤ) : ℚ) * (10 : ℚ) ^ (0 : ℤ)) = 3 := by
    simpa using RModel.intFix_int 3
  rw [h3, intFix_third]
  have h4 : RModel.intFix.rnd (3 * (1 / 3 * (1 + 2 ^ (-53 : ℤ))))
      = 3 * (1 / 3 * (1 + 2 ^ (-53 : ℤ))) * (1 + 2 ^ (-53 : ℤ)) := by
    simp [RModel.intFix]
  rw [h4]
  norm_num [abs_of_pos]

end examples

end PP.Props.C07Bound
