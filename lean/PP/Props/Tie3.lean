import PP.Model.Piecewise.Arbitrary
import PP.Model.Poly.Arbitrary
import PP.Hand.Arbitrary
import PP.Lemmas.Arb
/-!
# Tie3: `impl Arbitrary for Piecewise<T>`, as *generated*, equals the hand model of C19

`PP/Model/Piecewise/Arbitrary.lean` (the impl at piecewise.rs:194-212) and `PP/Model/Poly/Arbitrary.lean`
(the `#[derive(Arbitrary)]` instances of `Poly0..Poly8`, `PolyN`, `Knot`) are regenerated from `/repo/src`
on every run (`rust/translator/src/emit/arb.rs`), against the model of the external crate in
`PP/Core/Arb.lean`: a function over `&mut Unstructured` returning `arbitrary::Result<X>` is a function
`Arb.Unstructured → Arb.Res X` with the three outcomes `ok x rest` / `err e rest` / `panic`.

Property C19 is stated about the total hand model `Hand.Arb.arbitraryPw d : Bytes → Option (Piecewise F64 T)`
(`none` = `Err(IncorrectFormat)`), parameterised by a piece decoder `d`.  This file proves, for the piece
types `Poly0 … Poly8` and `PolyN` over the bit-exact `F64` and for EVERY byte list `u`:

* generated `Ok pw` ↔ hand `some pw`, with the same `pw` (and the unread bytes are what the hand model's
  decoders leave);
* generated `Err e` ↔ hand `none`, and then `e = IncorrectFormat`;
* the generated function never returns `panic`: the `unwrap()` in the comparator of `sort_by` is only
  reached on ends that passed `is_normal`, hence are not NaN, hence `partial_cmp` is `Some`; and the fuel
  of `Vec<f64>::arbitrary` is never exhausted.

Also: `Arb.sortBy` (merge sort with a comparator that may panic) on all-normal ends is
`List.mergeSort … keyLe`, the sort of the hand model (`sortBy_ends`).

Core Lean only (no Mathlib).
-/
set_option linter.unusedSectionVars false
namespace PP.Props.Tie3
open Arb Hand.Arb

/-! ## 1. the external crate's decoders at `f64`, `Vec<f64>`: never an error, and the hand model's functions -/

theorem arbitrary_f64 (u : Unstructured) :
    ArbitraryT.arbitrary (α := F64) u = .ok (arbF64 u).1 (arbF64 u).2 := rfl

theorem arbF64_length (u : Bytes) : (arbF64 u).2.length ≤ u.length := uintLE_length 8 u

/-- `Vec::<f64>::arbitrary` never runs out of fuel (given more fuel than bytes) and is the hand model's loop -/
theorem arbitraryIter_f64 : ∀ (fuel : Nat) (u : Unstructured), u.length < fuel →
    arbitraryIter (A := F64) fuel u = .ok (arbVecAux fuel u).1 (arbVecAux fuel u).2
  | 0, _, h => absurd h (Nat.not_lt_zero _)
  | fuel + 1, [], _ => rfl
  | fuel + 1, b :: bs, h => by
    have hb : (arbitraryBool (b :: bs)) = .ok (b % 2 == 1) bs := by
      simp only [arbitraryBool, arbitraryUInt, uintLE, fillBuffer, fromLeBytes, Res.bind]
      congr 2; omega
    have hl : (arbF64 bs).2.length < fuel := by
      have := arbF64_length bs
      simp only [List.length_cons] at h; omega
    have ih := arbitraryIter_f64 fuel (arbF64 bs).2 hl
    rw [arbitraryIter, hb]
    cases hc : (b % 2 == 1)
    · simp [arbVecAux, hc]
    · simp [arbVecAux, hc, arbitrary_f64, Res.bind, ih]

theorem arbitrary_vec_f64 (u : Unstructured) :
    ArbitraryT.arbitrary (α := List F64) u = .ok (arbVecF64 u).1 (arbVecF64 u).2 :=
  arbitraryIter_f64 (u.length + 1) u (Nat.lt_succ_self _)

/-! ## 2. the derived instances are the hand model's piece decoders -/

/-- the class method `T::arbitrary` never fails and is the total decoder `d` -/
def Decodes (T : Type) [ArbitraryT T] (d : PieceDec T) : Prop :=
  ∀ u, ArbitraryT.arbitrary (α := T) u = .ok (d.dec u).1 (d.dec u).2

theorem decodes_poly0 : Decodes (Poly0 F64) decPoly0 := fun _ => rfl
theorem decodes_poly1 : Decodes (Poly1 F64) decPoly1 := fun u => by
  show inst_Arbitrary_Poly1.arbitrary u = _
  simp only [inst_Arbitrary_Poly1.arbitrary, arbitrary_arr2, arbitrary_f64, Res.bind_ok, decPoly1, decArr, arbFloats,
    Arr2.ofList?, Option.map, Option.getD]
theorem decodes_poly2 : Decodes (Poly2 F64) decPoly2 := fun u => by
  show inst_Arbitrary_Poly2.arbitrary u = _
  simp only [inst_Arbitrary_Poly2.arbitrary, arbitrary_arr3, arbitrary_f64, Res.bind_ok, decPoly2, decArr, arbFloats,
    Arr3.ofList?, Option.map, Option.getD]
theorem decodes_poly3 : Decodes (Poly3 F64) decPoly3 := fun u => by
  show inst_Arbitrary_Poly3.arbitrary u = _
  simp only [inst_Arbitrary_Poly3.arbitrary, arbitrary_arr4, arbitrary_f64, Res.bind_ok, decPoly3, decArr, arbFloats,
    Arr4.ofList?, Option.map, Option.getD]
theorem decodes_poly4 : Decodes (Poly4 F64) decPoly4 := fun u => by
  show inst_Arbitrary_Poly4.arbitrary u = _
  simp only [inst_Arbitrary_Poly4.arbitrary, arbitrary_arr5, arbitrary_f64, Res.bind_ok, decPoly4, decArr, arbFloats,
    Arr5.ofList?, Option.map, Option.getD]
theorem decodes_poly5 : Decodes (Poly5 F64) decPoly5 := fun u => by
  show inst_Arbitrary_Poly5.arbitrary u = _
  simp only [inst_Arbitrary_Poly5.arbitrary, arbitrary_arr6, arbitrary_f64, Res.bind_ok, decPoly5, decArr, arbFloats,
    Arr6.ofList?, Option.map, Option.getD]
theorem decodes_poly6 : Decodes (Poly6 F64) decPoly6 := fun u => by
  show inst_Arbitrary_Poly6.arbitrary u = _
  simp only [inst_Arbitrary_Poly6.arbitrary, arbitrary_arr7, arbitrary_f64, Res.bind_ok, decPoly6, decArr, arbFloats,
    Arr7.ofList?, Option.map, Option.getD]
theorem decodes_poly7 : Decodes (Poly7 F64) decPoly7 := fun u => by
  show inst_Arbitrary_Poly7.arbitrary u = _
  simp only [inst_Arbitrary_Poly7.arbitrary, arbitrary_arr8, arbitrary_f64, Res.bind_ok, decPoly7, decArr, arbFloats,
    Arr8.ofList?, Option.map, Option.getD]
theorem decodes_poly8 : Decodes (Poly8 F64) decPoly8 := fun u => by
  show inst_Arbitrary_Poly8.arbitrary u = _
  simp only [inst_Arbitrary_Poly8.arbitrary, arbitrary_arr9, arbitrary_f64, Res.bind_ok, decPoly8, decArr, arbFloats,
    Arr9.ofList?, Option.map, Option.getD]
theorem decodes_polyN : Decodes (PolyN F64) decPolyN := fun u => by
  show Res.bind (ArbitraryT.arbitrary (α := List F64) u) _ = _
  rw [arbitrary_vec_f64]; rfl

/-! ## 3. `sort_by(|x, y| x.partial_cmp(y).unwrap())` on normal ends: no panic, and `List.mergeSort … keyLe` -/

/-- a normal float is not NaN -/
theorem normal_not_nan (x : F64) (h : F64.isNormal x = true) : x.isNaN = false := by
  cases x <;> simp_all [F64.isNaN]

section
variable (ln exp : F64 → F64)

/-- `partial_cmp` of two non-NaN floats is `Some`, and "not `Greater`" is the order of the keys -/
theorem partialCmp_defined (a b : F64) (ha : a.isNaN = false) (hb : b.isNaN = false) :
    ∃ o, @Iter.partialCmp F64 (F64.inst ln exp) a b = some o ∧ (o != Ordering.gt) = keyLe a b := by
  have e : @Iter.partialCmp F64 (F64.inst ln exp) a b =
      if (a.isNaN || b.isNaN) = true then none
      else if F64.lt a b = true then some .lt else if F64.lt b a = true then some .gt else some .eq := rfl
  rw [e]
  simp only [ha, hb, Bool.or_self, Bool.false_eq_true, if_false, F64.lt, Bool.not_false, Bool.true_and,
    decide_eq_true_eq, keyLe]
  by_cases h1 : F64.key a < F64.key b
  · refine ⟨.lt, by simp [h1], ?_⟩
    have : F64.key a ≤ F64.key b := by omega
    simp [this]
  · by_cases h2 : F64.key b < F64.key a
    · refine ⟨.gt, by simp [h1, h2], ?_⟩
      have : ¬ F64.key a ≤ F64.key b := by omega
      simp [this]
    · refine ⟨.eq, by simp [h1, h2], ?_⟩
      have : F64.key a ≤ F64.key b := by omega
      simp [this]

/-- the comparator closure as the translator emits it -/
abbrev cmpClosure : F64 → F64 → Option Ordering :=
  fun x y => Option.bind (@Iter.partialCmp F64 (F64.inst ln exp) x y) fun v => some v

/-- **the `unwrap` cannot fail**: on ends that are all normal, the generated `sort_by` does not panic and
returns the stable merge sort by key of the hand model -/
theorem sortBy_ends (ends : List F64) (h : ends.all F64.isNormal = true) :
    Arb.sortBy ends (cmpClosure ln exp) = some (ends.mergeSort keyLe) := by
  refine sortBy_eq_mergeSort _ _ ends.length ends (Nat.le_refl _) ?_
  intro a ha b hb
  have na := normal_not_nan a (List.all_eq_true.mp h a ha)
  have nb := normal_not_nan b (List.all_eq_true.mp h b hb)
  obtain ⟨o, ho, hle⟩ := partialCmp_defined ln exp a b na nb
  exact ⟨o, by simp [cmpClosure, ho], hle⟩

/-! ## 4. the generated `arbitrary` -/

variable {T : Type} [ArbitraryT T]

/-- the generated `<Piecewise<T> as Arbitrary>::arbitrary` at the bit-exact `F64` (`ln`, `exp` are the
parameters of the `FloatLike` instance; the function does not use them) -/
abbrev genArbitrary (u : Unstructured) : Res (Piecewise F64 T) :=
  @inst_Arbitrary_Piecewise_T.arbitrary F64 T _ (F64.inst ln exp) _ u

/-- the `map(|end| Ok(Segment { end, poly: T::arbitrary(u)? })).collect::<Result<Vec<_>>>()` of the
generated code is the hand model's `pieces` -/
theorem collectMap_pieces (d : PieceDec T) (hd : Decodes T d) : ∀ (es : List F64) (u : Unstructured),
    Arb.collectMap es (fun e u => Res.bind (ArbitraryT.arbitrary (α := T) u) fun v u =>
      Res.ok (Segment.mk («end» := e) (poly := v)) u) u = .ok (pieces d es u).1 (pieces d es u).2
  | [], _ => rfl
  | e :: es, u => by
    rw [collectMap, hd u, Res.bind_ok, Res.bind_ok, collectMap_pieces d hd es, Res.bind_ok]
    rfl

/-- **generated = hand**, as one equation: on every byte list the generated function returns
`Ok` of the hand model's value (with the bytes the hand decoders leave) or `Err(IncorrectFormat)` exactly
when the hand model returns `none` -/
theorem arbitrary_eq (d : PieceDec T) (hd : Decodes T d) (u : Unstructured) :
    genArbitrary ln exp u =
      match arbitraryPw d u with
      | some pw => .ok pw (pieces d ((arbVecF64 u).1.mergeSort keyLe) (arbVecF64 u).2).2
      | none => .err .incorrectFormat (arbVecF64 u).2 := by
  unfold genArbitrary inst_Arbitrary_Piecewise_T.arbitrary arbitraryPw
  rw [arbitrary_vec_f64, Res.bind_ok]
  have hcond : (Iter.isEmpty (arbVecF64 u).1 || !(Iter.all (arbVecF64 u).1 fun x => StdF64.isNormal x)) =
      ((arbVecF64 u).1.isEmpty || !((arbVecF64 u).1.all isNormal)) := rfl
  rw [hcond]
  by_cases hc : ((arbVecF64 u).1.isEmpty || !((arbVecF64 u).1.all isNormal)) = true
  · simp only [hc, if_true]
  · have hn : (arbVecF64 u).1.all F64.isNormal = true := by
      have : (arbVecF64 u).1.isEmpty = false ∧ (arbVecF64 u).1.all isNormal = true := by
        simpa [Bool.or_eq_true] using hc
      exact this.2
    have hs := sortBy_ends ln exp (arbVecF64 u).1 hn
    simp only [hc, Bool.false_eq_true, if_false]
    show Res.bindPanic (Arb.sortBy (arbVecF64 u).1 (cmpClosure ln exp)) _ = _
    rw [hs, Res.bindPanic_some, collectMap_pieces d hd, Res.bind_ok]

/-- what "the generated `arbitrary` for piece type `T` is the hand model with decoder `d`" means -/
structure Tied (d : PieceDec T) : Prop where
  /-- generated `Ok(pw)` ↔ hand `some pw`, the same `pw` -/
  ok_iff : ∀ (u : Unstructured) (pw : Piecewise F64 T),
    (∃ u', genArbitrary ln exp u = .ok pw u') ↔ arbitraryPw d u = some pw
  /-- generated `Err(_)` ↔ hand `none` -/
  err_iff : ∀ (u : Unstructured), (∃ e u', genArbitrary ln exp (T := T) u = .err e u') ↔ arbitraryPw d u = none
  /-- the only error is `IncorrectFormat` -/
  err_is : ∀ (u u' : Unstructured) (e : Error), genArbitrary ln exp (T := T) u = .err e u' → e = .incorrectFormat
  /-- the generated function never panics (the `unwrap` in the comparator, the fuel of `Vec::arbitrary`) -/
  no_panic : ∀ (u : Unstructured), genArbitrary ln exp (T := T) u ≠ .panic

theorem tied_of_decodes (d : PieceDec T) (hd : Decodes T d) : Tied ln exp d := by
  refine ⟨?_, ?_, ?_, ?_⟩
  · intro u pw
    rw [arbitrary_eq ln exp d hd u]
    cases arbitraryPw d u <;> simp
  · intro u
    rw [arbitrary_eq ln exp d hd u]
    cases arbitraryPw d u <;> simp
  · intro u u' e
    rw [arbitrary_eq ln exp d hd u]
    cases arbitraryPw d u <;> simp
    intro h _; exact h.symm
  · intro u
    rw [arbitrary_eq ln exp d hd u]
    cases arbitraryPw d u <;> simp

/-! ## 5. the ten piece types -/

theorem tie_poly0 : Tied ln exp decPoly0 := tied_of_decodes ln exp _ decodes_poly0
theorem tie_poly1 : Tied ln exp decPoly1 := tied_of_decodes ln exp _ decodes_poly1
theorem tie_poly2 : Tied ln exp decPoly2 := tied_of_decodes ln exp _ decodes_poly2
theorem tie_poly3 : Tied ln exp decPoly3 := tied_of_decodes ln exp _ decodes_poly3
theorem tie_poly4 : Tied ln exp decPoly4 := tied_of_decodes ln exp _ decodes_poly4
theorem tie_poly5 : Tied ln exp decPoly5 := tied_of_decodes ln exp _ decodes_poly5
theorem tie_poly6 : Tied ln exp decPoly6 := tied_of_decodes ln exp _ decodes_poly6
theorem tie_poly7 : Tied ln exp decPoly7 := tied_of_decodes ln exp _ decodes_poly7
theorem tie_poly8 : Tied ln exp decPoly8 := tied_of_decodes ln exp _ decodes_poly8
theorem tie_polyN : Tied ln exp decPolyN := tied_of_decodes ln exp _ decodes_polyN

end

/-! ## 6. non-vacuity -/
section example_
variable (ln exp : F64 → F64)

def leBytes (n : Nat) : List Nat := (List.range 8).map fun i => n / 256 ^ i % 256
/-- two ends `2.0`, `1.0` (descending), then two `Poly0` pieces `10.0`, `20.0` -/
def exBytes : Bytes := [1] ++ leBytes 0x4000000000000000 ++ [1] ++ leBytes 0x3FF0000000000000 ++ [0] ++
  leBytes 0x4024000000000000 ++ leBytes 0x4034000000000000

/-- the hypothesis of `tied_of_decodes` holds for the derived instances -/
example : Decodes (Poly3 F64) decPoly3 := decodes_poly3

/-- the generated function returns `Ok` on `exBytes` … -/
example : ∃ pw u', genArbitrary ln exp (T := Poly0 F64) exBytes = .ok pw u' := by
  have h : (arbitraryPw decPoly0 exBytes).isSome = true := by decide +kernel
  obtain ⟨pw, hpw⟩ := Option.isSome_iff_exists.mp h
  exact ⟨pw, ((tie_poly0 ln exp).ok_iff exBytes pw).mpr hpw⟩

/-- … and `Err(IncorrectFormat)` on the empty input and on a zero end -/
example : ∃ u', genArbitrary ln exp (T := Poly0 F64) [] = .err .incorrectFormat u' := by
  obtain ⟨e, u', h⟩ := ((tie_poly0 ln exp).err_iff []).mpr (by decide +kernel)
  exact ⟨u', by rw [h, (tie_poly0 ln exp).err_is _ _ _ h]⟩
example : ∃ u', genArbitrary ln exp (T := PolyN F64) ([1] ++ leBytes 0) = .err .incorrectFormat u' := by
  obtain ⟨e, u', h⟩ := ((tie_polyN ln exp).err_iff ([1] ++ leBytes 0)).mpr (by decide +kernel)
  exact ⟨u', by rw [h, (tie_polyN ln exp).err_is _ _ _ h]⟩

/-- the hypothesis of `sortBy_ends` is satisfiable … -/
example : [F64.ofBits 0x4000000000000000, F64.ofBits 0x3FF0000000000000].all F64.isNormal = true := by
  decide +kernel
/-- … and it is needed: the panic of `unwrap` is really in the model — a NaN among the ends makes the
generated `sort_by` panic -/
example : Arb.sortBy [F64.nan, F64.ofBits 0x3FF0000000000000] (cmpClosure ln exp) = none := by
  rw [Arb.sortBy]
  simp only [Arb.sortBy, List.length_nil, List.take, List.drop, Option.bind_some, Arb.mergeBy, cmpClosure]
  rfl
end example_

end PP.Props.Tie3
