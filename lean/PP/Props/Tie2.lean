import PP.Model.Piecewise.Evaluator
import PP.Model.Piecewise.Merge
import PP.Hand.Piecewise
/-!
# Tie2: the last loop code of `src/piecewise.rs`, as *generated*, equals the hand models

`PP/Model/Piecewise/Evaluator.lean` (`PiecewiseEvaluator::{new, evaluate}`) and
`PP/Model/Piecewise/Merge.lean` (`impl Add<&Piecewise<T>> for &Piecewise<T>`, `impl Sub<…>`) are
regenerated from `/repo/src` on every run (`rust/translator/src/emit/ctrl.rs`: `loop { … break … }`,
branches with effects, `match` on `Ordering`, the slice / `Option` idioms of `PP/Core/Iter.lean`).
This file proves them equal to the hand models the property files (C03, C13, C16) are written against.

* Evaluator.  The generated state is the Rust struct read literally: three independent lists
  (`all_segments_front`, `tail`, `last` as a value) and `last_evaluation`; `evaluate` maps a state and
  `x` to `Option (answer × new state)` (`&mut self`; `none` = panic of the `[..n]` slice).  `abs` maps
  it to the hand model's zipper `Hand.EvSt`; the representation invariant `Inv` is "`tail` is a suffix
  of `all_segments_front`".  `new` establishes `Inv`, `evaluate` preserves it, never panics under it
  and is `Hand.evStep` through `abs` for EVERY `x` (NaN: early return, cursor untouched); hence a whole
  session is `Hand.evaluatorRun` (`evaluator_run_eq`).
* Merge.  The generated loop runs on indices `i`, `j` with an explicit fuel
  `len f + len g + 1`; `add_eq` / `sub_eq` say the generated functions are `Hand.pwAdd` / `Hand.pwSub`
  as `Option`s for ALL inputs (empty operand or NaN breakpoint: `none` on both sides), which includes
  that the fuel is never exhausted (`merge_fuel_irrelevant`: any fuel `≥ len f + len g - 1` gives the
  same answer).

Core Lean only (no Mathlib).
-/

namespace PP.Props.Tie2
open FloatLike

variable {F T : Type} [FloatLike F]

/-! ## 1. `PiecewiseEvaluator` -/

/-- abstraction function: the generated state record (three slices as lists) as the hand model's zipper -/
def abs (st : PiecewiseEvaluator F T) : Hand.EvSt F T :=
  { pre := (st.all_segments_front.take (st.all_segments_front.length - st.tail.length)).reverse
    tl := st.tail
    last := st.last
    L := st.last_evaluation }

/-- representation invariant: `tail` is a suffix of `all_segments_front` -/
def Inv (st : PiecewiseEvaluator F T) : Prop := st.tail <:+ st.all_segments_front

omit [FloatLike F] in
theorem take_prefix (p tl : List (Segment F T)) :
    (p ++ tl).take ((p ++ tl).length - tl.length) = p := by
  have : (p ++ tl).length - tl.length = p.length := by simp
  rw [this, List.take_left']
  rfl

omit [FloatLike F] in
theorem abs_mk (p tl : List (Segment F T)) (last : Segment F T) (L : F) :
    abs ⟨p ++ tl, tl, last, L⟩ = ⟨p.reverse, tl, last, L⟩ := by
  simp only [abs, take_prefix]


/-- the segment in front of the cursor, or the last one -/
def cur (tl : List (Segment F T)) (last : Segment F T) : Segment F T :=
  match tl with
  | [] => last
  | t :: _ => t

/-- happy path: the generated `loop` over `self.tail.split_first()` is `Hand.evFwd` -/
theorem fwd_eq (front : List (Segment F T)) (last : Segment F T) (L x : F) :
    ∀ (tl p : List (Segment F T)), front = p ++ tl →
      ∃ q tl', front = q ++ tl' ∧ Hand.evFwd p.reverse tl x = (q.reverse, tl') ∧
        Iter.loopSplitFirst tl (⟨front, tl, last, L⟩ : PiecewiseEvaluator F T)
          (fun self => (self.last, self))
          (fun self first tail =>
            if (FloatLike.lt x first.«end») then (Iter.Flow.brk (first, self))
            else let self := { self with tail := tail }; Iter.Flow.next self)
          = (cur tl' last, ⟨front, tl', last, L⟩) := by
  intro tl
  induction tl with
  | nil => intro p h; exact ⟨p, [], h, rfl, rfl⟩
  | cons t ts ih =>
    intro p h
    by_cases hx : lt x t.«end» = true
    · refine ⟨p, t :: ts, h, ?_, ?_⟩
      · simp only [Hand.evFwd, hx, if_true]
      · simp only [Iter.loopSplitFirst, hx, if_true, cur]
    · obtain ⟨q, tl', h1, h2, h3⟩ := ih (p ++ [t]) (by simp [h])
      refine ⟨q, tl', h1, ?_, ?_⟩
      · simp only [Hand.evFwd, hx]
        simpa using h2
      · simp only [Iter.loopSplitFirst, hx]
        exact h3


theorem enumFrom_append {A : Type} (l : List A) (a : A) (n : Nat) :
    Iter.enumFrom n (l ++ [a]) = Iter.enumFrom n l ++ [(n + l.length, a)] := by
  induction l generalizing n with
  | nil => simp [Iter.enumFrom]
  | cons b bs ih => simp [Iter.enumFrom, ih, Nat.add_assoc, Nat.add_comm 1]

/-- `enumerate().rev()` of the skipped prefix, walked from the cursor backwards -/
theorem rev_enumerate_snoc {A : Type} (l : List A) (a : A) :
    Iter.rev (Iter.enumerate (l ++ [a])) = (l.length, a) :: Iter.rev (Iter.enumerate l) := by
  simp [Iter.enumerate, enumFrom_append]

/-- unhappy path: the generated `enumerate().rev().find_map(..).unwrap_or(..)` is `Hand.evBwd` -/
theorem bwd_eq (front : List (Segment F T)) (x : F) :
    ∀ (r tl : List (Segment F T)), front = r.reverse ++ tl →
      ∃ q tl', front = q ++ tl' ∧ Hand.evBwd r tl x = (q.reverse, tl') ∧
        Iter.unwrapOr (Iter.findMap (Iter.rev (Iter.enumerate r.reverse))
          (fun (ix, seg) => (if (FloatLike.le seg.«end» x) then
            (some (Iter.unwrapOr (Iter.optMap (Iter.splitAtChecked front (ix + 1)) (fun (_, tail) => tail)) []))
            else none))) front = tl' := by
  intro r
  induction r with
  | nil =>
    intro tl h
    exact ⟨[], tl, h, rfl, by simpa [Iter.findMap, Iter.enumFrom] using h⟩
  | cons a as ih =>
    intro tl h
    rw [List.reverse_cons] at h ⊢
    rw [rev_enumerate_snoc]
    by_cases hx : le a.«end» x = true
    · refine ⟨as.reverse ++ [a], tl, h, ?_, ?_⟩
      · simp only [Hand.evBwd, hx, if_true]
        simp
      · have hlen : as.reverse.length + 1 ≤ front.length := by
          rw [h]; simp
        have hdrop : front.drop (as.reverse.length + 1) = tl := by
          rw [h]
          have : as.reverse.length + 1 = (as.reverse ++ [a]).length := by simp
          rw [this, List.drop_left']
          rfl
        simp only [Iter.findMap, hx, if_true, Iter.splitAtChecked, hlen, hdrop]
    · obtain ⟨q, tl', h1, h2, h3⟩ := ih (a :: tl) (by simp [h])
      refine ⟨q, tl', h1, ?_, ?_⟩
      · simp only [Hand.evBwd, hx]
        exact h2
      · simp only [Iter.findMap, hx]
        exact h3


/-- `PiecewiseEvaluator::new`: the generated function is `Hand.evNew` through `abs` -/
theorem evaluator_new_eq [Evaluate T F] (segs : List (Segment F T)) :
    (PiecewiseEvaluator.new segs).map abs = Hand.evNew segs := by
  cases segs with
  | nil => rfl
  | cons s rest =>
    simp only [PiecewiseEvaluator.new, Iter.splitLast, Option.bind, Option.map, Hand.evNew, abs,
      Nat.sub_self, List.take_zero, List.reverse_nil]
    cases (s :: rest).dropLast <;> rfl

/-- `new` establishes the invariant -/
theorem evaluator_new_inv [Evaluate T F] (segs : List (Segment F T)) (st : PiecewiseEvaluator F T)
    (h : PiecewiseEvaluator.new segs = some st) : Inv st := by
  cases segs with
  | nil => simp [PiecewiseEvaluator.new, Iter.splitLast] at h
  | cons s rest =>
    simp only [PiecewiseEvaluator.new, Iter.splitLast, Option.bind, Option.some.injEq] at h
    subst h
    exact List.suffix_refl _

/-- `PiecewiseEvaluator::evaluate` on a state that satisfies the invariant: it does not panic, it
preserves the invariant, and it is `Hand.evStep` through `abs` — for every `x`, NaN included -/
theorem evaluator_evaluate_spec [Evaluate T F] (st : PiecewiseEvaluator F T) (h : Inv st) (x : F) :
    ∃ st' y, PiecewiseEvaluator.evaluate st x = some (y, st') ∧ Inv st' ∧
      Hand.evStep (abs st) x = (abs st', y) := by
  obtain ⟨front, tl, last, L⟩ := st
  obtain ⟨p, hp⟩ := h
  simp only at hp
  subst hp
  by_cases hn : isNaN x = true
  · refine ⟨⟨p ++ tl, tl, last, L⟩, Evaluate.evaluate last x, ?_, ⟨p, rfl⟩, ?_⟩
    · simp only [PiecewiseEvaluator.evaluate, hn, if_true]
    · simp only [Hand.evStep, hn, if_true, abs]
  · by_cases hL : le L x = true
    · obtain ⟨q, tl', h1, h2, h3⟩ := fwd_eq (p ++ tl) last L x tl p rfl
      refine ⟨⟨p ++ tl, tl', last, x⟩, Evaluate.evaluate (cur tl' last) x, ?_, ⟨q, h1.symm⟩, ?_⟩
      · simp only [PiecewiseEvaluator.evaluate, hn, hL, if_true, h3, Option.bind]
        rfl
      · rw [abs_mk]
        rw [h1, abs_mk]
        simp only [Hand.evStep, hn, hL, if_true, h2]
        cases tl' <;> rfl
    · obtain ⟨q, tl', h1, h2, h3⟩ := bwd_eq (p ++ tl) x p.reverse tl (by simp)
      rw [List.reverse_reverse] at h3
      refine ⟨⟨p ++ tl, tl', last, x⟩, Evaluate.evaluate (cur tl' last) x, ?_, ⟨q, h1.symm⟩, ?_⟩
      · have hs : Iter.sliceTo (p ++ tl) ((p ++ tl).length - tl.length) = some p := by
          simp only [Iter.sliceTo, Nat.sub_le, if_true, take_prefix]
        simp only [PiecewiseEvaluator.evaluate, hn, hL, Iter.saturatingSub, Iter.len, hs, Option.bind, h3]
        cases tl' <;> rfl
      · rw [abs_mk]
        rw [h1, abs_mk]
        simp only [Hand.evStep, hn, hL, h2]
        cases tl' <;> rfl


/-- if the generated `evaluate` returns `(y, st')` from a state satisfying the invariant, the hand model
steps from `abs st` to `abs st'` with the same answer -/
theorem evaluator_evaluate_eq [Evaluate T F] (st st' : PiecewiseEvaluator F T) (h : Inv st) (x y : F)
    (he : PiecewiseEvaluator.evaluate st x = some (y, st')) :
    Hand.evStep (abs st) x = (abs st', y) := by
  obtain ⟨st'', y', h1, _, h3⟩ := evaluator_evaluate_spec st h x
  rw [h1] at he
  cases he
  exact h3

/-- the hypotheses of `evaluator_evaluate_eq` are satisfiable: on any two segments `new` succeeds, its
state satisfies `Inv`, and every query (NaN or not) is answered with some `(y, st')` -/
example [Evaluate T F] (s1 s2 : Segment F T) (x : F) :
    ∃ st st' y, PiecewiseEvaluator.new [s1, s2] = some st ∧ Inv st ∧
      PiecewiseEvaluator.evaluate st x = some (y, st') := by
  have hnew : PiecewiseEvaluator.new [s1, s2] = some ⟨[s1], [s1], s2, s1.«end»⟩ := rfl
  have hinv := evaluator_new_inv _ _ hnew
  obtain ⟨st', y, h1, _, _⟩ := evaluator_evaluate_spec _ hinv x
  exact ⟨_, st', y, hnew, hinv, h1⟩

/-- `evaluate` preserves the invariant -/
theorem evaluator_evaluate_inv [Evaluate T F] (st st' : PiecewiseEvaluator F T) (h : Inv st) (x y : F)
    (he : PiecewiseEvaluator.evaluate st x = some (y, st')) : Inv st' := by
  obtain ⟨st'', y', h1, h2, _⟩ := evaluator_evaluate_spec st h x
  rw [h1] at he
  cases he
  exact h2

/-- `evaluate` does not panic on a state that satisfies the invariant (the `[..n]` slice is in range) -/
theorem evaluator_evaluate_total [Evaluate T F] (st : PiecewiseEvaluator F T) (h : Inv st) (x : F) :
    (PiecewiseEvaluator.evaluate st x).isSome = true := by
  obtain ⟨_, _, h1, _, _⟩ := evaluator_evaluate_spec st h x
  rw [h1]; rfl

/-- a run of the generated evaluator: the answers to the queries `xs` from the state `st`
(`none` = some call panicked) -/
def genRun [Evaluate T F] (st : PiecewiseEvaluator F T) : List F → Option (List F)
  | [] => some []
  | x :: xs =>
    Option.bind (PiecewiseEvaluator.evaluate st x) fun r =>
    Option.bind (genRun r.2 xs) fun ys => some (r.1 :: ys)

/-- a whole session of the generated evaluator: `new`, then the queries -/
def genSession [Evaluate T F] (segs : List (Segment F T)) (xs : List F) : Option (List F) :=
  Option.bind (PiecewiseEvaluator.new segs) fun st => genRun st xs

theorem genRun_eq [Evaluate T F] (xs : List F) :
    ∀ (st : PiecewiseEvaluator F T), Inv st → genRun st xs = some (Hand.evRun (abs st) xs) := by
  induction xs with
  | nil => intro st _; rfl
  | cons x xs ih =>
    intro st h
    obtain ⟨st', y, h1, h2, h3⟩ := evaluator_evaluate_spec st h x
    simp only [genRun, h1, Option.bind, ih st' h2, Hand.evRun, h3]

/-- a whole session (`new`, then any list of queries, NaN included) of the generated evaluator gives
the answers of the hand model; both are `none` exactly for an empty segment list -/
theorem evaluator_run_eq [Evaluate T F] (segs : List (Segment F T)) (xs : List F) :
    genSession segs xs = Hand.evaluatorRun segs xs := by
  unfold genSession Hand.evaluatorRun
  rw [← evaluator_new_eq]
  cases hnew : PiecewiseEvaluator.new segs with
  | none => rfl
  | some st =>
    simp only [Option.bind, Option.map]
    exact genRun_eq xs st (evaluator_new_inv segs st hnew)


/-! ## 2. `&Piecewise + &Piecewise`, `&Piecewise - &Piecewise` : the two-cursor merge loop -/

/-- `f64::partial_cmp` of `PP/Core/Iter.lean` is the hand model's `pcmp` (same definition) -/
theorem partialCmp_eq (a b : F) : Iter.partialCmp a b = Hand.pcmp a b := rfl

/-- one pass through the body of the merge loop, as generated (`op` = `&a.poly + &b.poly` / `-`) -/
def mstep {P : Type} (op : T → T → P) (f g : List (Segment F T)) (i_max j_max : Nat) :
    Nat × Nat × List (Segment F P) →
      Option (Iter.Flow (Nat × Nat × List (Segment F P)) (Nat × Nat × List (Segment F P))) :=
  (fun (j, i, res) => Option.bind (Iter.index f i) fun v'5 => let a := v'5; Option.bind (Iter.index g j) fun v'6 => let b := v'6; let a_last := (Nat.ble i_max i); let b_last := (Nat.ble j_max j); Option.bind (Iter.partialCmp a.«end» b.«end») fun v'7 => let v'10 := (match v'7 with | Ordering.lt => (let v'8 := (if a_last then (let j := (j + 1); (b.«end», j, i)) else (let i := (i + 1); (a.«end», j, i))); let j := v'8.2.1; let i := v'8.2.2; (v'8.1, j, i)) | Ordering.gt => (let v'9 := (if b_last then (let i := (i + 1); (a.«end», i, j)) else (let j := (j + 1); (b.«end», i, j))); let i := v'9.2.1; let j := v'9.2.2; (v'9.1, j, i)) | Ordering.eq => (let i := (Iter.umin i_max (i + 1)); let j := (Iter.umin j_max (j + 1)); (a.«end», j, i))); let j := v'10.2.1; let i := v'10.2.2; let «end» := v'10.1; let ab := (Segment.mk («end» := «end») (poly := (op a.poly b.poly))); let res := (Iter.push res ab); if (a_last && b_last) then (some (Iter.Flow.brk (j, i, res))) else some (Iter.Flow.next (j, i, res)))

/-- the generated `add`, with its loop body named: `rfl` (this is where a change of the source shows) -/
theorem add_unfold [PAdd T T T] (f g : Piecewise F T) :
    inst_Add_Ref_Piecewise_T.add f g =
      Option.bind (Iter.usub (f.segments.length + g.segments.length) 1) fun _ =>
      Option.bind (Iter.usub f.segments.length 1) fun i_max =>
      Option.bind (Iter.usub g.segments.length 1) fun j_max =>
      Option.bind (Iter.loopFuel (f.segments.length + g.segments.length + 1) (0, 0, [])
        (mstep (fun a b => PAdd.add a b) f.segments g.segments i_max j_max)) fun v =>
      some ⟨v.2.2⟩ := rfl


/-- the generated `sub` has the same shape with `-` on the pieces -/
theorem sub_unfold [PSub T T T] (f g : Piecewise F T) :
    inst_Sub_Ref_Piecewise_T.sub f g =
      Option.bind (Iter.usub (f.segments.length + g.segments.length) 1) fun _ =>
      Option.bind (Iter.usub f.segments.length 1) fun i_max =>
      Option.bind (Iter.usub g.segments.length 1) fun j_max =>
      Option.bind (Iter.loopFuel (f.segments.length + g.segments.length + 1) (0, 0, [])
        (mstep (fun a b => PSub.sub a b) f.segments g.segments i_max j_max)) fun v =>
      some ⟨v.2.2⟩ := rfl


section cursor
variable {A : Type}

theorem idx_of_drop {l r : List A} {i : Nat} {a : A} (h : l.drop i = a :: r) : l[i]? = some a := by
  rw [← List.head?_drop, h]; rfl

theorem idx_of_drop_nil {l : List A} {i : Nat} (h : l.drop i = []) : l[i]? = none := by
  rw [← List.head?_drop, h]; rfl

theorem drop_succ {l r : List A} {i : Nat} {a : A} (h : l.drop i = a :: r) : l.drop (i + 1) = r := by
  rw [← List.tail_drop, h]; rfl

theorem len_of_drop {l r : List A} {i : Nat} (h : l.drop i = r) : l.length - i = r.length := by
  rw [← h, List.length_drop]

/-- the cursor is on the last element: `i >= i_max` -/
theorem last_of_drop {l : List A} {i : Nat} {a : A} (h : l.drop i = [a]) :
    Nat.ble (l.length - 1) i = true := by
  have := len_of_drop h
  simp only [List.length_cons, List.length_nil] at this
  rw [Nat.ble_eq]; omega

theorem notlast_of_drop {l r : List A} {i : Nat} {a b : A} (h : l.drop i = a :: b :: r) :
    Nat.ble (l.length - 1) i = false := by
  have := len_of_drop h
  simp only [List.length_cons] at this
  rw [← Bool.not_eq_true, Nat.ble_eq]; omega

theorem umin_last {l : List A} {i : Nat} {a : A} (h : l.drop i = [a]) :
    Iter.umin (l.length - 1) (i + 1) = i := by
  have := len_of_drop h
  simp only [List.length_cons, List.length_nil] at this
  simp only [Iter.umin]; omega

theorem umin_notlast {l r : List A} {i : Nat} {a b : A} (h : l.drop i = a :: b :: r) :
    Iter.umin (l.length - 1) (i + 1) = i + 1 := by
  have := len_of_drop h
  simp only [List.length_cons] at this
  simp only [Iter.umin]; omega

end cursor

/-- the index loop from the cursors `(i, j)` with `res` already emitted, on enough fuel, is `Hand.merge`
on the two suffixes (`fun_induction` along the hand model; every case is one pass through `mstep`) -/
theorem merge_loop {P : Type} (op : T → T → P) (f g : List (Segment F T)) (fs gs : List (Segment F T)) :
    ∀ (i j fuel : Nat) (res : List (Segment F P)),
      f.drop i = fs → g.drop j = gs → fs.length + gs.length ≤ fuel + 1 →
      (Iter.loopFuel fuel (j, i, res) (mstep op f g (f.length - 1) (g.length - 1))).map (fun s => s.2.2)
        = (Hand.merge op fs gs).map (fun r => res ++ r) := by
  fun_induction Hand.merge op fs gs
  case case1 gs =>
    intro i j fuel res hi hj hf
    cases fuel with
    | zero => rfl
    | succ n => simp only [Iter.loopFuel, mstep, Iter.index, idx_of_drop_nil hi, Option.bind, Option.map]
  case case2 fs hne =>
    intro i j fuel res hi hj hf
    cases fs with
    | nil => exact absurd rfl hne
    | cons a fr =>
      cases fuel with
      | zero => rfl
      | succ n =>
        simp only [Iter.loopFuel, mstep, Iter.index, idx_of_drop hi, idx_of_drop_nil hj, Option.bind, Option.map]
  case case3 a b =>
    intro i j fuel res hi hj hf
    cases fuel with
    | zero => simp at hf
    | succ n =>
      simp only [Iter.loopFuel, mstep, Iter.index, idx_of_drop hi, idx_of_drop hj, Option.bind,
        last_of_drop hi, last_of_drop hj, partialCmp_eq]
      cases Hand.pcmp a.«end» b.«end» with
      | none => rfl
      | some o => cases o <;> simp [Iter.push]
  case case4 a b g' gs' hpc =>
    intro i j fuel res hi hj hf
    cases fuel with
    | zero => rfl
    | succ n =>
      simp only [Iter.loopFuel, mstep, Iter.index, idx_of_drop hi, idx_of_drop hj, Option.bind,
        partialCmp_eq, hpc, Option.map]
  case case5 a b g' gs' o hpc ih =>
    intro i j fuel res hi hj hf
    cases fuel with
    | zero => simp only [List.length_cons, List.length_nil] at hf; omega
    | succ n =>
      have hf' : [a].length + (g' :: gs').length ≤ n + 1 := by
        simp only [List.length_cons, List.length_nil] at hf ⊢; omega
      simp only [Iter.loopFuel, mstep, Iter.index, idx_of_drop hi, idx_of_drop hj, Option.bind,
        last_of_drop hi, notlast_of_drop hj, partialCmp_eq, hpc, umin_last hi, umin_notlast hj]
      cases o <;> simp only [Bool.and_false, Bool.false_eq_true, if_false, if_true] <;>
        (rw [ih i (j + 1) n _ hi (drop_succ hj) hf']
         cases Hand.merge op [a] (g' :: gs') <;> simp [Iter.push])
  case case6 a f' fs' b hpc =>
    intro i j fuel res hi hj hf
    cases fuel with
    | zero => rfl
    | succ n =>
      simp only [Iter.loopFuel, mstep, Iter.index, idx_of_drop hi, idx_of_drop hj, Option.bind,
        partialCmp_eq, hpc, Option.map]
  case case7 a f' fs' b o hpc ih =>
    intro i j fuel res hi hj hf
    cases fuel with
    | zero => simp only [List.length_cons, List.length_nil] at hf; omega
    | succ n =>
      have hf' : (f' :: fs').length + [b].length ≤ n + 1 := by
        simp only [List.length_cons, List.length_nil] at hf ⊢; omega
      simp only [Iter.loopFuel, mstep, Iter.index, idx_of_drop hi, idx_of_drop hj, Option.bind,
        notlast_of_drop hi, last_of_drop hj, partialCmp_eq, hpc, umin_notlast hi, umin_last hj]
      cases o <;> simp only [Bool.false_and, Bool.false_eq_true, if_false, if_true] <;>
        (rw [ih (i + 1) j n _ (drop_succ hi) hj hf']
         cases Hand.merge op (f' :: fs') [b] <;> simp [Iter.push])
  case case8 a f' fs' b g' gs' hpc =>
    intro i j fuel res hi hj hf
    cases fuel with
    | zero => rfl
    | succ n =>
      simp only [Iter.loopFuel, mstep, Iter.index, idx_of_drop hi, idx_of_drop hj, Option.bind,
        partialCmp_eq, hpc, Option.map]
  case case9 a f' fs' b g' gs' hpc ih =>
    intro i j fuel res hi hj hf
    cases fuel with
    | zero => simp only [List.length_cons] at hf; omega
    | succ n =>
      have hf' : (f' :: fs').length + (b :: g' :: gs').length ≤ n + 1 := by
        simp only [List.length_cons] at hf ⊢; omega
      simp only [Iter.loopFuel, mstep, Iter.index, idx_of_drop hi, idx_of_drop hj, Option.bind,
        notlast_of_drop hi, notlast_of_drop hj, partialCmp_eq, hpc,
        Bool.false_and, Bool.false_eq_true, if_false]
      rw [ih (i + 1) j n _ (drop_succ hi) hj hf']
      cases Hand.merge op (f' :: fs') (b :: g' :: gs') <;> simp [Iter.push]
  case case10 a f' fs' b g' gs' hpc ih =>
    intro i j fuel res hi hj hf
    cases fuel with
    | zero => simp only [List.length_cons] at hf; omega
    | succ n =>
      have hf' : (a :: f' :: fs').length + (g' :: gs').length ≤ n + 1 := by
        simp only [List.length_cons] at hf ⊢; omega
      simp only [Iter.loopFuel, mstep, Iter.index, idx_of_drop hi, idx_of_drop hj, Option.bind,
        notlast_of_drop hi, notlast_of_drop hj, partialCmp_eq, hpc,
        Bool.false_and, Bool.false_eq_true, if_false]
      rw [ih i (j + 1) n _ hi (drop_succ hj) hf']
      cases Hand.merge op (a :: f' :: fs') (g' :: gs') <;> simp [Iter.push]
  case case11 a f' fs' b g' gs' hpc ih =>
    intro i j fuel res hi hj hf
    cases fuel with
    | zero => simp only [List.length_cons] at hf; omega
    | succ n =>
      have hf' : (f' :: fs').length + (g' :: gs').length ≤ n + 1 := by
        simp only [List.length_cons] at hf ⊢; omega
      simp only [Iter.loopFuel, mstep, Iter.index, idx_of_drop hi, idx_of_drop hj, Option.bind,
        notlast_of_drop hi, notlast_of_drop hj, partialCmp_eq, hpc, umin_notlast hi, umin_notlast hj,
        Bool.false_and, Bool.false_eq_true, if_false]
      rw [ih (i + 1) (j + 1) n _ (drop_succ hi) (drop_succ hj) hf']
      cases Hand.merge op (f' :: fs') (g' :: gs') <;> simp [Iter.push]


/-- the whole generated function body (both copies have this shape, `op` = `+` / `-` on the pieces) is
`Hand.merge`: empty operands and NaN breakpoints are `none` on both sides, and the fuel
`len f + len g + 1` is never exhausted -/
theorem merge_main {P : Type} (op : T → T → P) (f g : List (Segment F T)) :
    (Option.bind (Iter.usub (f.length + g.length) 1) fun _ =>
      Option.bind (Iter.usub f.length 1) fun i_max =>
      Option.bind (Iter.usub g.length 1) fun j_max =>
      Option.bind (Iter.loopFuel (f.length + g.length + 1) (0, 0, []) (mstep op f g i_max j_max)) fun v =>
      some (Piecewise.mk v.2.2))
      = (Hand.merge op f g).map Piecewise.mk := by
  cases f with
  | nil =>
    cases g with
    | nil => simp [Iter.usub, Hand.merge]
    | cons b gr => simp [Iter.usub, Hand.merge]
  | cons a fr =>
    cases g with
    | nil => simp [Iter.usub, Hand.merge]
    | cons b gr =>
      have h := merge_loop op (a :: fr) (b :: gr) (a :: fr) (b :: gr) 0 0
        ((a :: fr).length + (b :: gr).length + 1) [] rfl rfl (by omega)
      have e1 : Iter.usub ((a :: fr).length + (b :: gr).length) 1
          = some ((a :: fr).length + (b :: gr).length - 1) := by
        simp [Iter.usub]
      have e2 : Iter.usub (a :: fr).length 1 = some ((a :: fr).length - 1) := by simp [Iter.usub]
      have e3 : Iter.usub (b :: gr).length 1 = some ((b :: gr).length - 1) := by simp [Iter.usub]
      rw [e1, e2, e3]
      simp only [Option.bind]
      cases hl : Iter.loopFuel ((a :: fr).length + (b :: gr).length + 1) (0, 0, [])
          (mstep op (a :: fr) (b :: gr) ((a :: fr).length - 1) ((b :: gr).length - 1)) with
      | none =>
        rw [hl] at h
        cases hm : Hand.merge op (a :: fr) (b :: gr) with
        | none => rfl
        | some r => rw [hm] at h; simp at h
      | some v =>
        rw [hl] at h
        cases hm : Hand.merge op (a :: fr) (b :: gr) with
        | none => rw [hm] at h; simp at h
        | some r =>
          rw [hm] at h
          simp only [Option.map, List.nil_append, Option.some.injEq] at h
          simp only [Option.map, h]

/-- more fuel changes nothing: any bound `≥ len f + len g - 1` gives the hand model's answer, so the
generated bound `len f + len g + 1` is never the reason for a `none` -/
theorem merge_fuel_irrelevant {P : Type} (op : T → T → P) (f g : List (Segment F T)) (fuel : Nat)
    (h : f.length + g.length ≤ fuel + 1) :
    (Iter.loopFuel fuel (0, 0, []) (mstep op f g (f.length - 1) (g.length - 1))).map (fun s => s.2.2)
      = Hand.merge op f g := by
  have := merge_loop op f g f g 0 0 fuel [] rfl rfl h
  rw [this]
  cases Hand.merge op f g <;> simp

/-- the hypothesis of `merge_fuel_irrelevant` holds for the fuel the translator emits -/
example (f g : List (Segment F T)) : f.length + g.length ≤ (f.length + g.length + 1) + 1 := by omega

/-- `impl Add<&Piecewise<T>> for &Piecewise<T>`: the generated `add` is `Hand.pwAdd`, for all inputs -/
theorem add_eq [PAdd T T T] (f g : Piecewise F T) :
    inst_Add_Ref_Piecewise_T.add f g = Hand.pwAdd f g := by
  rw [add_unfold]
  exact merge_main (fun a b => PAdd.add a b) f.segments g.segments

/-- `impl Sub<&Piecewise<T>> for &Piecewise<T>`: the generated `sub` is `Hand.pwSub`, for all inputs -/
theorem sub_eq [PSub T T T] (f g : Piecewise F T) :
    inst_Sub_Ref_Piecewise_T.sub f g = Hand.pwSub f g := by
  rw [sub_unfold]
  exact merge_main (fun a b => PSub.sub a b) f.segments g.segments

end PP.Props.Tie2
