import PP.Lemmas.Evaluator
/-!
# C12 — `evaluate_v`: every argument is evaluated with the segment direct evaluation selects for the
running maximum of the arguments so far; for non-decreasing arguments that is pointwise evaluation.

Model: `Hand.evalvAdvance`, `Hand.evalvRun`, `Hand.evaluateV` (state = the suffix `segments[prev_seg..]`),
tied to `Piecewise::evaluate_v` by campaign `evalv`.  One output per input by construction of `evalvRun`
(laziness = the Mealy-machine shape; the harness drives the real iterator element by element).
-/
set_option linter.unusedSectionVars false
namespace PP.Props.C12
open FloatLike OrdLaws Hand PP.Props.C02 PP.Lemmas.Evaluator
variable {F T : Type} [FloatLike F] [OrdLaws F] [Evaluate T F]

/-- running maximum (IEEE `<`), `none` before the first argument -/
def rmaxStep (m : Option F) (x : F) : F :=
  match m with
  | none => x
  | some m => if lt m x then x else m

/-- the property's wording as a specification: segment chosen by direct evaluation at the running
maximum, evaluated at the argument itself -/
def evalvSpec (segs : List (Segment F T)) : Option F → List F → List (Option F)
  | _, [] => []
  | m, x :: xs =>
    let m' := rmaxStep m x
    (selSeg segs m').map (fun s => Evaluate.evaluate s.poly x) :: evalvSpec segs (some m') xs

/-- cursor invariant: `cur` is a non-empty suffix; everything skipped ends at or before the running
maximum, and the head of `cur` is what direct evaluation selects for it -/
def InvV (segs cur : List (Segment F T)) (m : Option F) : Prop :=
  ∃ skipped, segs = skipped ++ cur ∧ cur ≠ [] ∧
    match m with
    | none => skipped = []
    | some m => isNaN m = false ∧ (∀ a ∈ skipped, key a.end ≤ key m) ∧
        ∃ h t, cur = h :: t ∧ (key m < key h.end ∨ t = [])

theorem advance_spec (cur : List (Segment F T)) (x : F) (hx : isNaN x = false) (hnn : NN cur) (hne : cur ≠ []) :
    ∃ sk h t, cur = sk ++ h :: t ∧ evalvAdvance cur x = h :: t ∧ (∀ a ∈ sk, key a.end ≤ key x) ∧
      (key x < key h.end ∨ t = []) := by
  induction cur with
  | nil => exact absurd rfl hne
  | cons s rest ih =>
    cases rest with
    | nil => exact ⟨[], s, [], rfl, rfl, by simp, Or.inr rfl⟩
    | cons s' rest' =>
      have hsn : isNaN s.end = false := hnn s (by simp)
      by_cases h : lt x s.end = true
      · exact ⟨[], s, s' :: rest', rfl, by simp [evalvAdvance, h], by simp, Or.inl ((lt_iff hx hsn).mp h)⟩
      · have h' : lt x s.end = false := by simpa using h
        obtain ⟨sk, hd, t, e1, e2, e3, e4⟩ := ih (fun a ha => hnn a (by simp [ha])) (by simp)
        refine ⟨s :: sk, hd, t, by rw [e1]; rfl, by simp only [evalvAdvance, h', Bool.false_eq_true, if_false]; exact e2, ?_, e4⟩
        intro a ha
        rcases List.mem_cons.mp ha with rfl | ha
        · exact (lt_false_iff hx hsn).mp h'
        · exact e3 a ha

theorem step_spec (segs cur : List (Segment F T)) (hwf : WF segs) (m : Option F) (hinv : InvV segs cur m)
    (x : F) (hx : isNaN x = false) :
    ∃ h t, evalvAdvance cur x = h :: t ∧ selSeg segs (rmaxStep m x) = some h ∧
      InvV segs (h :: t) (some (rmaxStep m x)) := by
  obtain ⟨skipped, hseg, hne, hm⟩ := hinv
  have hnn_all : ∀ s ∈ skipped ++ cur, isNaN s.end = false := by rw [← hseg]; exact hwf.nn
  have hnn_cur : NN cur := fun s hs => hnn_all s (List.mem_append_right _ hs)
  have sel_of (sk : List (Segment F T)) (h : Segment F T) (t : List (Segment F T)) (y : F) (hy : isNaN y = false)
      (hs : segs = sk ++ h :: t) (hsk : ∀ a ∈ sk, key a.end ≤ key y) (hh : key y < key h.end ∨ t = []) :
      selSeg segs y = some h := by
    rw [hs]
    apply sel_split
    · intro a ha
      have : isNaN a.end = false := hwf.nn a (by rw [hs]; exact List.mem_append_left _ ha)
      exact (lt_false_iff hy this).mpr (hsk a ha)
    · rcases hh with hh | hh
      · left
        have : isNaN h.end = false := hwf.nn h (by rw [hs]; simp)
        exact (lt_iff hy this).mpr hh
      · exact Or.inr hh
  cases m with
  | none =>
    simp only at hm; subst hm
    simp only [List.nil_append] at hseg; subst hseg
    obtain ⟨sk, h, t, e1, e2, e3, e4⟩ := advance_spec segs x hx hnn_cur hne
    refine ⟨h, t, e2, sel_of sk h t x hx e1 e3 e4, ⟨sk, e1, by simp, hx, e3, h, t, rfl, e4⟩⟩
  | some mv =>
    obtain ⟨hmn, hsk, h0, t0, hcur, hh0⟩ := hm
    by_cases hlt : lt mv x = true
    · -- a new maximum: scan forward from the current suffix
      have hk : key mv < key x := (lt_iff hmn hx).mp hlt
      obtain ⟨sk, h, t, e1, e2, e3, e4⟩ := advance_spec cur x hx hnn_cur hne
      have hs : segs = (skipped ++ sk) ++ h :: t := by rw [hseg, e1]; simp
      have hsk' : ∀ a ∈ skipped ++ sk, key a.end ≤ key x := by
        intro a ha
        rcases List.mem_append.mp ha with ha | ha
        · exact Int.le_trans (hsk a ha) (Int.le_of_lt hk)
        · exact e3 a ha
      simp only [rmaxStep, hlt, if_true]
      exact ⟨h, t, e2, sel_of _ h t x hx hs hsk' e4, ⟨skipped ++ sk, hs, by simp, hx, hsk', h, t, rfl, e4⟩⟩
    · -- below the running maximum: the cursor does not move
      have hlt' : lt mv x = false := by simpa using hlt
      have hk : key x ≤ key mv := (lt_false_iff hmn hx).mp hlt'
      have hstay : evalvAdvance cur x = h0 :: t0 := by
        rw [hcur]
        cases t0 with
        | nil => rfl
        | cons t1 ts =>
          have h0n : isNaN h0.end = false := hnn_cur h0 (by rw [hcur]; simp)
          rcases hh0 with hh0 | hh0
          · have : lt x h0.end = true := (lt_iff hx h0n).mpr (Int.lt_of_le_of_lt hk hh0)
            simp [evalvAdvance, this]
          · simp at hh0
      simp only [rmaxStep, hlt', Bool.false_eq_true, if_false]
      refine ⟨h0, t0, hstay, sel_of skipped h0 t0 mv hmn (by rw [hseg, hcur]) hsk hh0,
        ⟨skipped, by rw [hseg, hcur], by simp, hmn, hsk, h0, t0, rfl, hh0⟩⟩

theorem run_spec (segs : List (Segment F T)) (hwf : WF segs) (xs : List F) (hxs : ∀ x ∈ xs, isNaN x = false) :
    ∀ cur m, InvV segs cur m → (evalvRun cur xs).map some = evalvSpec segs m xs := by
  induction xs with
  | nil => intro _ _ _; rfl
  | cons x xs ih =>
    intro cur m hinv
    obtain ⟨h, t, e1, e2, e3⟩ := step_spec segs cur hwf m hinv x (hxs x (by simp))
    simp only [evalvRun, e1, evalvSpec, e2, List.map_cons, Option.map_some]
    rw [ih (fun y hy => hxs y (by simp [hy])) (h :: t) _ e3]

/-- **C12, general form.** For a well-formed function and ANY sequence of non-NaN arguments, `evaluate_v`
does not panic and its k-th output is the value at xₖ of the segment that direct evaluation selects for
max(x₀..xₖ): it never moves back to an earlier segment. -/
theorem evaluateV_spec (p : Piecewise F T) (hwf : WF p.segments) (xs : List F) (hxs : ∀ x ∈ xs, isNaN x = false) :
    (evaluateV p xs).map (fun ys => ys.map some) = some (evalvSpec p.segments none xs) := by
  unfold evaluateV
  have hne := hwf.ne
  cases hs : p.segments with
  | nil => exact absurd hs hne
  | cons s rest =>
    simp only [Option.map_some]
    rw [← hs, run_spec p.segments hwf xs hxs p.segments none ⟨[], by simp, hne, rfl⟩]

/-- selection depends only on the order position of the argument -/
theorem sel_congr_key (segs : List (Segment F T)) (a b : F) (ha : isNaN a = false) (hb : isNaN b = false)
    (h : key a = key b) : selSeg segs a = selSeg segs b := by
  have : ∀ e : F, lt a e = lt b e := by
    intro e; simp [lt_def, ha, hb, h]
  induction segs with
  | nil => rfl
  | cons s rest ih =>
    cases rest with
    | nil => rfl
    | cons s' rest' => simp only [selSeg, this, ih]

theorem spec_of_sorted (segs : List (Segment F T)) (xs : List F) (hxs : ∀ x ∈ xs, isNaN x = false)
    (hsorted : xs.Pairwise (fun a b => key a ≤ key b)) :
    ∀ m : Option F, (∀ mv, m = some mv → isNaN mv = false ∧ ∀ x ∈ xs, key mv ≤ key x) →
      evalvSpec segs m xs = xs.map (fun x => (selSeg segs x).map (fun s => Evaluate.evaluate s.poly x)) := by
  induction xs with
  | nil => intro _ _; rfl
  | cons x xs ih =>
    intro m hm
    have hx := hxs x (by simp)
    have hkey : isNaN (rmaxStep m x) = false ∧ key (rmaxStep m x) = key x := by
      cases m with
      | none => exact ⟨hx, rfl⟩
      | some mv =>
        obtain ⟨hmn, hle⟩ := hm mv rfl
        by_cases hlt : lt mv x = true
        · simp [rmaxStep, hlt, hx]
        · have hlt' : lt mv x = false := by simpa using hlt
          have : key x ≤ key mv := (lt_false_iff hmn hx).mp hlt'
          simp only [rmaxStep, hlt', Bool.false_eq_true, if_false]
          exact ⟨hmn, Int.le_antisymm (hle x (by simp)) this⟩
    simp only [evalvSpec, List.map_cons]
    rw [sel_congr_key segs _ x hkey.1 hx hkey.2]
    congr 1
    apply ih (fun y hy => hxs y (by simp [hy])) (List.pairwise_cons.mp hsorted).2
    intro mv hmv
    simp only [Option.some.injEq] at hmv; subst hmv
    refine ⟨hkey.1, fun y hy => ?_⟩
    rw [hkey.2]; exact (List.pairwise_cons.mp hsorted).1 y hy

/-- **C12, non-decreasing arguments.** The batch yields, in order, exactly what evaluating each argument
individually returns. -/
theorem evaluateV_sorted (p : Piecewise F T) (hwf : WF p.segments) (xs : List F) (hxs : ∀ x ∈ xs, isNaN x = false)
    (hsorted : xs.Pairwise (fun a b => key a ≤ key b)) :
    (evaluateV p xs).map (fun ys => ys.map some) = some (xs.map (pwEvaluate p)) := by
  rw [evaluateV_spec p hwf xs hxs, spec_of_sorted p.segments xs hxs hsorted none (by intro _ h; cases h)]
  rfl

/-- the documented rejection -/
theorem evaluateV_empty (xs : List F) : evaluateV (⟨[]⟩ : Piecewise F T) xs = none := rfl

section example_
local instance : FloatLike F64 := F64.inst PP.Props.C02.exLn PP.Props.C02.exLn
local instance : OrdLaws F64 := F64.ordLaws PP.Props.C02.exLn PP.Props.C02.exLn
local instance : Evaluate (Poly0 F64) F64 := ⟨fun p _ => p._0⟩
open PP.Props.C02 in
example : evaluateV ⟨exSegs⟩ [two, one, F64.inf true, three] = some [three, three, three, three] := by decide
end example_

end PP.Props.C12
