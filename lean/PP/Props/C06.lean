import PP.Lemmas.LinInt
import PP.Props.C02
/-!
# C06 — the piecewise-linear constructor `linear`

Model: `Hand.linear` / `Hand.linearGo` (the scan of linear.rs:6-19) over the *generated*
`Linear.incr_linear`, `Linear.segment`.  `none` is the `assert!(knots.len() >= 2)` panic.

* (a) every interpretation: panic iff fewer than two knots; `n-1` segments; the ends are literally the tail
  of the running `f64::max` scan of the abscissae; segment `i` is `Linear.segment` of the forced knots
  `i`, `i+1`.
* (b) IEEE order laws + the law of `f64::max`: for non-NaN abscissae the ends are non-NaN and
  non-decreasing (the result is well formed in the sense of C02) — no other hypothesis.
* (c) exact interpretation: a segment passes through its left knot, and through its right knot when it is
  at least ε wide; a narrower one is constant.
* (d) exact interpretation, strictly increasing abscissae with gaps ≥ ε: interpolation, knot values,
  extrapolation by the end segments.
-/
set_option linter.unusedSectionVars false
namespace PP.Props.C06
open FloatLike Hand PP.Lemmas.LinInt

/-! ## (a) every interpretation -/
section every
variable {F : Type} [FloatLike F]

/-- a segment ends at its right knot's abscissa -/
theorem segment_end (k0 k1 : Knot F) : (Linear.segment k0 k1).end = k1.x := rfl

/-- `linear` panics exactly when there are fewer than two knots (whatever the knots are: NaN, ∞, …) -/
theorem linear_none_iff (ks : List (Knot F)) : Hand.linear ks = none ↔ ks.length < 2 := by
  match ks with
  | [] => simp [Hand.linear]
  | [_] => simp [Hand.linear]
  | _ :: _ :: _ => simp [Hand.linear]

theorem linear_isSome_iff (ks : List (Knot F)) : (Hand.linear ks).isSome = true ↔ 2 ≤ ks.length := by
  rw [← Option.ne_none_iff_isSome, Ne, linear_none_iff]; omega

/-- the result is `Linear.segment` over consecutive forced knots -/
theorem linear_segments (ks : List (Knot F)) (p : Piecewise F (Poly1 F)) (h : Hand.linear ks = some p) :
    p.segments = List.zipWith Linear.segment (forced ks) (forced ks).tail := by
  match ks, h with
  | k0 :: k1 :: rest, h =>
    simp only [Hand.linear, Option.some.injEq] at h
    subst h
    exact linearGo_eq k0 (k1 :: rest)

/-- one segment per consecutive knot pair: `n - 1` segments -/
theorem linear_length (ks : List (Knot F)) (p : Piecewise F (Poly1 F)) (h : Hand.linear ks = some p) :
    p.segments.length + 1 = ks.length := by
  match ks, h with
  | k0 :: k1 :: rest, h =>
    simp only [Hand.linear, Option.some.injEq] at h
    subst h
    simp

/-- the ends are the running maximum of the abscissae, without its first element — literally -/
theorem linear_ends (ks : List (Knot F)) (p : Piecewise F (Poly1 F)) (h : Hand.linear ks = some p) :
    p.segments.map (·.end) = (runMax (ks.map (·.x))).tail := by
  match ks, h with
  | k0 :: k1 :: rest, h =>
    simp only [Hand.linear, Option.some.injEq] at h
    subst h
    exact linearGo_ends k0 (k1 :: rest)

/-- segment `i` is `Linear.segment` of the knots `i`, `i+1` with abscissae forced to the running maximum -/
theorem linear_getElem (ks : List (Knot F)) (p : Piecewise F (Poly1 F)) (h : Hand.linear ks = some p)
    (i : Nat) (hi : i + 1 < ks.length) :
    p.segments[i]'(by have := linear_length ks p h; omega) =
      Linear.segment
        ⟨(runMax (ks.map (·.x)))[i]'(by simp; omega), (ks[i]'(by omega)).y⟩
        ⟨(runMax (ks.map (·.x)))[i + 1]'(by simp; omega), ks[i + 1].y⟩ := by
  have hs := linear_segments ks p h
  have e1 := forced_getElem ks i (by omega)
  have e2 := forced_getElem ks (i + 1) hi
  simp only [hs, List.getElem_zipWith, List.getElem_tail, e1, e2]

end every

/-! ## (b) non-NaN abscissae ⇒ well-formed result -/
section order
variable {F : Type} [FloatLike F] [OrdLaws F] [MaxLaws F]
open OrdLaws

/-- the ends are non-decreasing (and non-NaN) as soon as no abscissa is NaN; ordinates are arbitrary -/
theorem linear_ends_sorted (ks : List (Knot F)) (p : Piecewise F (Poly1 F)) (h : Hand.linear ks = some p)
    (hnn : ∀ k ∈ ks, isNaN k.x = false) :
    (p.segments.map (·.end)).Pairwise (fun a b => key a ≤ key b) ∧
      ∀ e ∈ p.segments.map (·.end), isNaN e = false := by
  rw [linear_ends ks p h]
  match ks, h with
  | k0 :: k1 :: rest, _ =>
    have hm : isNaN k0.x = false := hnn k0 (by simp)
    have hx : ∀ x ∈ (k1 :: rest).map (·.x), isNaN x = false := by
      intro x hx
      rcases List.mem_map.mp hx with ⟨k, hk, rfl⟩
      exact hnn k (by simp at hk ⊢; tauto)
    simp only [List.map_cons, runMax] at hx ⊢
    refine ⟨(runMaxFrom_pairwise k0.x _ hm hx).tail, ?_⟩
    intro e he
    exact (runMaxFrom_mem k0.x _ hm hx e (List.mem_of_mem_tail he)).1

/-- … i.e. the result satisfies the well-formedness predicate of C02 (so every selection theorem applies) -/
theorem linear_WF (ks : List (Knot F)) (p : Piecewise F (Poly1 F)) (h : Hand.linear ks = some p)
    (hnn : ∀ k ∈ ks, isNaN k.x = false) : C02.WF p.segments := by
  obtain ⟨hs, hn⟩ := linear_ends_sorted ks p h hnn
  refine ⟨?_, ?_, ?_⟩
  · have := linear_length ks p h
    have h2 := (linear_isSome_iff ks).mp (by rw [h]; rfl)
    intro he; rw [he] at this; simp at this; omega
  · intro s hs'; exact hn s.end (List.mem_map.mpr ⟨s, hs', rfl⟩)
  · exact (List.pairwise_map (f := fun s : Segment F (Poly1 F) => s.end) (R := fun a b => key a ≤ key b)).mp hs

end order

/-! ## (c) exact interpretation: one segment -/
section exact
variable {K : Type} [Field K] [LinearOrder K] [IsStrictOrderedRing K] [Transc K]
attribute [local instance] exactFL

/-- machine epsilon of the exact interpretation -/
theorem epsilon_eq : (FloatLike.epsilon : K) = (2 : K) ^ (-52 : Int) := rfl

/-- a segment always passes through its left knot -/
theorem segment_left (k0 k1 : Knot K) :
    Evaluate.evaluate (Linear.segment k0 k1).poly k0.x = k0.y := by
  rw [segment_eval]; ring

/-- at least ε wide: slope = Δy/Δx … -/
theorem segment_slope (k0 k1 : Knot K) (h : (FloatLike.epsilon : K) ≤ k1.x - k0.x) :
    (Linear.segment k0 k1).poly._0.a1 = (k1.y - k0.y) / (k1.x - k0.x) := by
  rw [segment_a1, slope, if_neg (not_lt.mpr h)]

/-- … the segment is the straight line through both knots … -/
theorem segment_wide (k0 k1 : Knot K) (h : (FloatLike.epsilon : K) ≤ k1.x - k0.x) (x : K) :
    Evaluate.evaluate (Linear.segment k0 k1).poly x =
      k0.y + (k1.y - k0.y) / (k1.x - k0.x) * (x - k0.x) := by
  rw [segment_eval, slope, if_neg (not_lt.mpr h)]

/-- … in particular it passes through its right knot -/
theorem segment_right (k0 k1 : Knot K) (h : (FloatLike.epsilon : K) ≤ k1.x - k0.x) :
    Evaluate.evaluate (Linear.segment k0 k1).poly k1.x = k1.y := by
  rw [segment_wide k0 k1 h]
  have : k1.x - k0.x ≠ 0 := ne_of_gt (lt_of_lt_of_le eps_pos h)
  field_simp; ring

/-- narrower than ε (including zero and negative width): constant at the left ordinate, slope 0 -/
theorem segment_narrow (k0 k1 : Knot K) (h : k1.x - k0.x < (FloatLike.epsilon : K)) (x : K) :
    Evaluate.evaluate (Linear.segment k0 k1).poly x = k0.y ∧ (Linear.segment k0 k1).poly._0.a1 = 0 := by
  rw [segment_eval, segment_a1, slope, if_pos h]; constructor <;> ring

/-- a narrow segment misses its right knot unless the ordinates agree -/
theorem segment_narrow_right (k0 k1 : Knot K) (h : k1.x - k0.x < (FloatLike.epsilon : K)) :
    Evaluate.evaluate (Linear.segment k0 k1).poly k1.x = k0.y :=
  (segment_narrow k0 k1 h k1.x).1

/-! ### the whole `linear`, exact: forced abscissae are the running `max` of the field -/

theorem runMaxFrom_exact_getElem_succ (m : K) (xs : List K) (i : Nat) (hi : i < xs.length) :
    (runMaxFrom m xs)[i + 1]'(by simpa using hi) = Max.max ((runMaxFrom m xs)[i]'(by simp; omega)) xs[i] := by
  induction xs generalizing m i with
  | nil => simp at hi
  | cons y ys ih =>
    cases i with
    | zero => cases ys <;> simp [runMaxFrom, max_eq]
    | succ i =>
      simp only [runMaxFrom, List.getElem_cons_succ]
      exact ih (FloatLike.max m y) i (by simpa using hi)

/-- running maximum over the field: each entry is `max` of the previous entry and the abscissa -/
theorem runMax_exact_getElem_succ (xs : List K) (i : Nat) (hi : i + 1 < xs.length) :
    (runMax xs)[i + 1]'(by simpa using hi) = Max.max ((runMax xs)[i]'(by simp; omega)) xs[i + 1] := by
  match xs, hi with
  | x :: xs, hi => exact runMaxFrom_exact_getElem_succ x xs i (by simpa using hi)

theorem runMax_getElem_zero {F : Type} [FloatLike F] (xs : List F) (h : 0 < xs.length) :
    (runMax xs)[0]'(by simpa using h) = xs[0] := by
  match xs, h with
  | x :: xs, _ => cases xs <;> simp [runMax, runMaxFrom]

/-! ## (d) interpolation for strictly increasing abscissae with gaps ≥ ε -/

/-- hypothesis of (d): consecutive abscissae are at least ε apart -/
def Gaps (ks : List (Knot K)) : Prop :=
  ∀ i (hi : i + 1 < ks.length), (FloatLike.epsilon : K) ≤ ks[i + 1].x - (ks[i]'(by omega)).x

theorem Gaps.step {ks : List (Knot K)} (hg : Gaps ks) :
    ∀ i (hi : i + 1 < ks.length), (ks[i]'(by omega)).x ≤ ks[i + 1].x := by
  intro i hi
  have := hg i hi
  have := eps_pos (K := K)
  linarith

theorem Gaps.chain {ks : List (Knot K)} (hg : Gaps ks) :
    List.IsChain (fun a b : Knot K => a.x ≤ b.x) ks := by
  rw [List.isChain_iff_getElem]
  intro i hi; exact hg.step i hi

/-- with ordered abscissae nothing is forced: segment `i` joins knot `i` and knot `i+1` -/
theorem linear_sorted_getElem (ks : List (Knot K)) (p : Piecewise K (Poly1 K)) (h : Hand.linear ks = some p)
    (hc : List.IsChain (fun a b : Knot K => a.x ≤ b.x) ks) (i : Nat) (hi : i + 1 < ks.length) :
    p.segments[i]'(by have := linear_length ks p h; omega) = Linear.segment (ks[i]'(by omega)) ks[i + 1] := by
  have hs := linear_segments ks p h
  simp only [hs, forced_of_chain ks hc, List.getElem_zipWith, List.getElem_tail]

/-- selection: on `[x_i, x_{i+1})` — unbounded below for the first and above for the last segment — the
function is evaluated by the segment joining knots `i` and `i+1` -/
theorem linear_select (ks : List (Knot K)) (p : Piecewise K (Poly1 K)) (h : Hand.linear ks = some p)
    (hg : Gaps ks) (i : Nat) (hi : i + 1 < ks.length) (x : K)
    (hlo : i = 0 ∨ (ks[i]'(by omega)).x ≤ x) (hhi : i + 2 = ks.length ∨ x < ks[i + 1].x) :
    pwEvaluate p x = some (Evaluate.evaluate (Linear.segment (ks[i]'(by omega)) ks[i + 1]).poly x) := by
  have hlen := linear_length ks p h
  have hseg := fun j hj => linear_sorted_getElem ks p h hg.chain j hj
  have hsel : selSeg p.segments x = some (p.segments[i]'(by omega)) := by
    apply selSeg_getElem
    · intro j hj
      rw [hseg j (by omega), segment_end, lt_false_iff']
      rcases hlo with h0 | hlo
      · omega
      · exact le_trans (mono_of_step ks hg.step (j + 1) i (by omega) (by omega)) hlo
    · rcases hhi with hl | hhi
      · right; omega
      · left; rw [hseg i hi, segment_end, lt_iff']; exact hhi
  unfold pwEvaluate
  rw [hsel, hseg i hi]; rfl

/-- **interpolation**: between two consecutive knots the value is their straight-line interpolant -/
theorem linear_interpolates (ks : List (Knot K)) (p : Piecewise K (Poly1 K)) (h : Hand.linear ks = some p)
    (hg : Gaps ks) (i : Nat) (hi : i + 1 < ks.length) (x : K)
    (hlo : (ks[i]'(by omega)).x ≤ x) (hhi : x < ks[i + 1].x) :
    pwEvaluate p x =
      some ((ks[i]'(by omega)).y +
        (ks[i + 1].y - (ks[i]'(by omega)).y) / (ks[i + 1].x - (ks[i]'(by omega)).x) * (x - (ks[i]'(by omega)).x)) := by
  rw [linear_select ks p h hg i hi x (Or.inr hlo) (Or.inr hhi), segment_wide _ _ (hg i hi)]

/-- **left of the first knot** the first segment's line is extrapolated -/
theorem linear_extrapolates_left (ks : List (Knot K)) (p : Piecewise K (Poly1 K)) (h : Hand.linear ks = some p)
    (hg : Gaps ks) (h2 : 1 < ks.length) (x : K) (hx : x < (ks[0]'(by omega)).x) :
    pwEvaluate p x =
      some ((ks[0]'(by omega)).y +
        (ks[1].y - (ks[0]'(by omega)).y) / (ks[1].x - (ks[0]'(by omega)).x) * (x - (ks[0]'(by omega)).x)) := by
  rw [linear_select ks p h hg 0 h2 x (Or.inl rfl) (Or.inr (lt_of_lt_of_le hx (hg.step 0 h2))),
    segment_wide _ _ (hg 0 h2)]

/-- **right of (and at) the last knot** the last segment's line is extrapolated -/
theorem linear_extrapolates_right (ks : List (Knot K)) (p : Piecewise K (Poly1 K)) (h : Hand.linear ks = some p)
    (hg : Gaps ks) (n : Nat) (hn : ks.length = n + 2) (x : K) (hx : (ks[n + 1]'(by omega)).x ≤ x) :
    pwEvaluate p x =
      some ((ks[n]'(by omega)).y +
        ((ks[n + 1]'(by omega)).y - (ks[n]'(by omega)).y) / ((ks[n + 1]'(by omega)).x - (ks[n]'(by omega)).x)
          * (x - (ks[n]'(by omega)).x)) := by
  have hi : n + 1 < ks.length := by omega
  rw [linear_select ks p h hg n hi x (Or.inr (le_trans (hg.step n hi) hx)) (Or.inl hn.symm),
    segment_wide _ _ (hg n hi)]

/-- **at every knot** (the last one included) the value is that knot's ordinate -/
theorem linear_at_knot (ks : List (Knot K)) (p : Piecewise K (Poly1 K)) (h : Hand.linear ks = some p)
    (hg : Gaps ks) (i : Nat) (hi : i < ks.length) :
    pwEvaluate p ks[i].x = some ks[i].y := by
  have h2 : 2 ≤ ks.length := (linear_isSome_iff ks).mp (by rw [h]; rfl)
  rcases Nat.lt_or_ge (i + 1) ks.length with hlt | hge
  · have hlt' : ks[i].x < ks[i + 1].x := by
      have := hg i hlt
      have := eps_pos (K := K)
      linarith
    rw [linear_select ks p h hg i hlt _ (Or.inr (le_refl _)) (Or.inr hlt'), segment_left]
  · obtain ⟨n, rfl⟩ : ∃ n, i = n + 1 := ⟨i - 1, by omega⟩
    have hn : n + 1 < ks.length := hi
    rw [linear_select ks p h hg n hn _ (Or.inr (hg.step n hn)) (Or.inl (by omega)),
      segment_right _ _ (hg n hn)]

end exact

/-! ## non-vacuity -/
section examples

/-! exact interpretation over ℚ: three knots, gaps 1 and 2 -/
section exact_example
noncomputable local instance : Transc ℚ := ⟨fun x => x, fun x => x⟩
attribute [local instance] exactFL

def exKs : List (Knot ℚ) := [⟨0, 0⟩, ⟨1, 1⟩, ⟨3, 0⟩]

theorem exKs_gaps : Gaps exKs := by
  intro i hi
  have hi' : i + 1 < 3 := hi
  rw [epsilon_eq]
  have : i = 0 ∨ i = 1 := by omega
  rcases this with rfl | rfl <;> norm_num [exKs]

example : ∃ p, Hand.linear exKs = some p ∧ pwEvaluate p 2 = some (1 / 2) ∧ pwEvaluate p 3 = some 0
    ∧ pwEvaluate p (-1) = some (-1) ∧ pwEvaluate p 5 = some (-1) := by
  refine ⟨_, rfl, ?_, ?_, ?_, ?_⟩
  · rw [linear_interpolates exKs _ rfl exKs_gaps 1 (by decide) 2 (by norm_num [exKs]) (by norm_num [exKs])]
    norm_num [exKs]
  · exact linear_at_knot exKs _ rfl exKs_gaps 2 (by decide)
  · rw [linear_extrapolates_left exKs _ rfl exKs_gaps (by decide) (-1) (by norm_num [exKs])]
    norm_num [exKs]
  · rw [linear_extrapolates_right exKs _ rfl exKs_gaps 1 rfl 5 (by norm_num [exKs])]
    norm_num [exKs]

/-- a narrow / backwards pair: the segment is constant and misses its right knot -/
example : Evaluate.evaluate (Linear.segment (⟨1, 5⟩ : Knot ℚ) ⟨1, 7⟩).poly 1 = 5 :=
  segment_narrow_right _ _ (by rw [epsilon_eq]; norm_num)
end exact_example

/-! bit-exact interpretation: abscissae 1, 3, 2, 4 (not monotone) give ends 3, 3, 4 -/
section f64_example
def exLn : F64 → F64 := fun _ => F64.nan
local instance : FloatLike F64 := F64.inst exLn exLn
local instance : OrdLaws F64 := F64.ordLaws exLn exLn
local instance : MaxLaws F64 := F64.maxLaws exLn exLn
def f (n : Int) : F64 := F64.ofDec n 0
def exKs64 : List (Knot F64) := [⟨f 1, f 10⟩, ⟨f 3, f 20⟩, ⟨f 2, f 30⟩, ⟨f 4, f 40⟩]
example : ∀ k ∈ exKs64, isNaN k.x = false := by decide
example : runMax (exKs64.map (·.x)) = [f 1, f 3, f 3, f 4] := by decide
/-- the hypotheses of (b) are satisfiable; the second segment has zero width -/
example : ∃ p, Hand.linear exKs64 = some p ∧ p.segments.map (·.end) = [f 3, f 3, f 4]
    ∧ C02.WF p.segments := by
  refine ⟨_, rfl, ?_, ?_⟩
  · rw [linear_ends exKs64 _ rfl]; decide
  · exact linear_WF exKs64 _ rfl (by decide)
end f64_example

end examples

end PP.Props.C06
