import PP.Lemmas.SplineFP
import PP.Props.C04
/-!
# C04 — the constrained cubic spline: the FLOATING-POINT part (rounding clause)

`PP/Props/C04.lean` proves C04 for the generated code read in exact arithmetic.  This file proves its last clause
("Deviations are bounded by a small multiple of 2^-53 times the magnitudes of the intermediate terms of the
construction") for the *same generated code* (`Spline.f_dx`, `Spline.segment`, `Hand.endSlope`/`Hand.constrainedSpline`,
the generated `Evaluate (Poly3)`, `HasDerivative (Poly3)`, `Evaluate (Poly2)`) **run in rounded arithmetic**
`Rounded M`, for every rounding model `M : RModel K` over every linearly ordered field `K` with `M.u ≤ 2⁻⁵³`.

## What is ASSUMED
* the **standard model** of floating-point arithmetic (`PP/Sem/Rounded.lean`): every `+ − × ÷` returns
  `rnd (exact result)` with `|rnd t − t| ≤ u·|t|`, `u ≤ 2⁻⁵³`, i.e. **no underflow, no overflow**; comparisons exact;
* decimal literals are `rnd (m·10^e)` and are *not* assumed representable (`2.0`, `3.0`, `1.0/6.0` … each cost a
  rounding, although all of them except `1/6` are exact in binary64): the constants below are therefore slightly
  pessimistic for binary64;
* **inputs are exact**: the knots (and, for the single-segment theorems, the two end slopes) are field elements;
* **strictly increasing abscissae** (`k0.x < k1.x`; for the spline `(ks.map Knot.x).Pairwise (· < ·)`).
* **NO well-conditioning hypothesis is needed anywhere**: every divisor of the construction is `x₁ − x₀` (one
  rounding, known to relative accuracy `u`), a literal, or — in the harmonic mean — a computed secant slope /
  a sum of two reciprocals *of equal sign* (no cancellation), all known to relative accuracy.  Conditioning shows up
  only through the magnitudes `S` (powers of `|x|/(x₁−x₀)`), never as a hypothesis.

## Results (all fully proved).  `g(k) := (1+u)^k − 1 ≤ (k + 0.001)·u` (`growth_num`).
1. `f_dx_branch_agrees`, `f_dx_same_branch'`: the rounded test `slope01*slope12 <= 0.0` has the outcome of the exact test
   (signs survive every rounding) — unconditionally.
   `f_dx_rounding_zero`: if the exact secant slopes differ in sign or one is zero, the computed interior slope is
   **exactly `0`** (no error at all) — this is C05's "slope at an interior knot is zero whenever …" with bound `0`.
   `f_dx_rounding`: `|f̂ − f| ≤ 11.001·u·|f|`, `f = Spline.f_dx` (exact: `0` or the harmonic mean);
   `f_dx_rounding_harmonic` (the same against `2·s01·s12/(s01+s12)`), `f_dx_rounding_secant`
   (`≤ 22.002·u·min(|s01|,|s12|)`).
2. `end_slope_rounding` (eq. 7b/7c with a neighbouring slope known to depth `kf ≤ 11`:
   `≤ 17.001·u·(3/2·|s| + G/2)`), `first_slope_rounding`, `last_slope_rounding`
   (`|computed − (3/2·s − f/2)| ≤ 17.001·u·(3/2·|s| + |f|/2)`, `f` the exact interior slope),
   `end_slope_rounding_given` (neighbouring slope taken as given: `10.001·u·(3/2·|s| + |g|/2)`).
3. For the cubic computed by `Spline.segment f0 k0 f1 k1` in `Rounded M` (`f0, f1` given):
   `segment_coeff_rounding` (`|ĉ_j − c_j| ≤ (30|26|22|21).001·u·A_j`, `A_j = magA … magD`),
   `segment_eval_rounding` (every `x`: exact value of the computed cubic `≤ 30.001·u·S(x)` from the exact cubic;
   generated rounded `evaluate` `≤ 32.001·u·S(x)`), `segment_through_knots_rounding` (at `x₀`, `x₁` against `y₀`, `y₁`),
   `segment_deriv_rounding`, `segment_derivative_rounding` (derivative of the computed cubic `≤ 26.001·u·S'(x)`;
   generated rounded `derivative` + `evaluate` `≤ 28.001·u·S'(x)`; at `x₀`, `x₁` against `f0`, `f1`), where
   `S(x) = segMag = A_a + A_b|x| + A_c|x|² + A_d|x|³`, `S'(x) = segMagD = A_b + 2A_c|x| + 3A_d|x|²` and
   `A_a … A_d` are the construction run on absolute values (`PP/Lemmas/SplineFP.lean`, `magS … magA`);
   `segMag_le`, `segMagD_le` (`PP/Lemmas/SplineFP.lean`): readable majorants, `S(x) ≤ |y₀| + 2|s|X + 52·T·X³/h²`,
   `S'(x) ≤ |s| + 36·T·X²/h²` (`X ≥ |x₀|,|x₁|,|x|`, `h = x₁−x₀`, `T = |s|+|f0|+|f1|`): the conditioning `(X/h)²` is
   explicit; `segment_knots_readable`: the eight bounds of `segment_through_knots_rounding` /
   `segment_derivative_rounding` with these majorants.
4. For the whole `Hand.constrainedSpline` in `Rounded M` on `n ≥ 3` knots (`slopeHat i` = the computed slope at knot
   `i`, the SAME number used by the two cubics meeting there):
   `spline_rounded_segment`, `slopeHat_mid/zero/last` (what the pieces and slopes are), `slopeHat_ct` / `spline_slope_rounding`
   (every computed knot slope within `17.001·u·slopeMag` of the exact one),
   `spline_c0_rounding` (both cubics at an interior knot within `30.001·u·S` (exact value) / `32.001·u·S`
   (rounded evaluation) of `y`; C⁰ defect ≤ sum), `spline_c1_rounding` (both derivatives within `26.001·u·S'` /
   `28.001·u·S'` of the common computed slope; C¹ defect ≤ sum), `spline_piece_rounding` (every piece, the two end
   pieces included: through both knots, end derivatives = the computed slopes, within the bounds of (3)),
   `slopeHat_abs_le` (`|computed slope| ≤ (1+u)^17·slopeMag`: converts the `|f̂|` inside `S`, `S'` to exact quantities),
   `spline_vs_exact` (every coefficient of every piece within `47.001·u·A_j` of the exact Kruger spline's, magnitudes
   in exact quantities only).
Non-vacuity: section `examples` (model `RModel.m53`: every operation errs by the full `2⁻⁵³`).

## Method
The bounds are derived in the counting semantics `CtInv` of `PP/Sem/Count.lean` rather than by bounding the running
bound `.b` of `PP/Sem/Tracked.lean`: both live in the same standard model and speak about the same rounded run
(`Spline.segmentRounded M`, `Spline.f_dxRounded M` are the `.a` projections of `Spline.segmentTr`, `Spline.f_dxTr`),
but `CtInv` yields the closed form `((1+u)^k − 1)·A` directly, `A` being the program run on absolute values.  Unlike
`f_dx_tr_a`, the branch agreement proved here needs no margin hypothesis (it also covers a zero secant slope).
Straight-line code is analysed by composing the invariant lemmas of the counting semantics (`CtInv`,
`PP/Sem/Count.lean`; division added in `PP/Lemmas/SplineFP.lean`) along the program; the composed term type-checks
against the *generated* definition by `rfl`.  The theorems are about `Spline.segmentRounded M`, `Spline.f_dxRounded M`
(`PP/Sem/Tracked.lean`), so they apply verbatim to the binary64 run through `spline_segment_transfer` /
`spline_f_dx_transfer` of `PP/Props/IEEEPrograms.lean` (`M = M64`).
-/
set_option linter.unusedSectionVars false
set_option linter.unusedVariables false
namespace PP.Props.C04Bound
open Hand PP.Spline PP.Lemmas.Rounding PP.Lemmas.SplineFP PP.Props.C04

section main
variable {K : Type} [Field K] [LinearOrder K] [IsStrictOrderedRing K] [Transc K] (M : RModel K)
attribute [local instance] exactFL

/-! ## 1. the interior slope `f_dx` -/

/-- **(1) branch agreement**: the product of the two computed secant slopes is `≤ 0` iff the exact one is -/
theorem f_dx_branch_agrees (k0 k1 k2 : Knot K) (h01 : k0.x < k1.x) (h12 : k1.x < k2.x) :
    slopeR M k0 k1 * slopeR M k1 k2 ≤ 0 ↔ secant k0 k1 * secant k1 k2 ≤ 0 :=
  slope_mul_nonpos_iff M k0 k1 k2 h01 h12

/-- the same on the generated test `slope01 * slope12 <= 0.0` run in `Rounded M` -/
theorem f_dx_same_branch' (k0 k1 k2 : Knot K) (h01 : k0.x < k1.x) (h12 : k1.x < k2.x) :
    FloatLike.le (FloatLike.mul (⟨slopeR M k0 k1⟩ : Rounded M) ⟨slopeR M k1 k2⟩) (FloatLike.ofDec 0 0)
      = decide (secant k0 k1 * secant k1 k2 ≤ 0) :=
  f_dx_same_branch M k0 k1 k2 h01 h12

/-- **(1) the exact-zero case**: if the exact secant slopes differ in sign or one of them is zero, the rounded run
returns EXACTLY `0` (and so does the exact run): no rounding error at all. -/
theorem f_dx_rounding_zero (k0 k1 k2 : Knot K) (h01 : k0.x < k1.x) (h12 : k1.x < k2.x)
    (h : secant k0 k1 * secant k1 k2 ≤ 0) :
    Spline.f_dxRounded M k0 k1 k2 = 0 ∧ Spline.f_dx k0 k1 k2 = 0 := by
  rw [f_dxRounded_eq M k0 k1 k2 h01 h12, f_dx_eq, if_pos h, if_pos h]
  exact ⟨rfl, rfl⟩

/-- **(1) `f_dx_rounding`**: the computed interior slope is within `11.001·u·|f|` of the exact `f = Spline.f_dx`
(`0`, or the harmonic mean of the secant slopes).  No conditioning hypothesis. -/
theorem f_dx_rounding (hu : M.u ≤ (2 : K) ^ (-53 : ℤ)) (k0 k1 k2 : Knot K) (h01 : k0.x < k1.x) (h12 : k1.x < k2.x) :
    |Spline.f_dxRounded M k0 k1 k2 - Spline.f_dx k0 k1 k2| ≤ (11 + 1 / 1000) * M.u * |Spline.f_dx k0 k1 k2| := by
  exact ct_bound_c (f_dx_ct M hu k0 k1 k2 h01 h12) hu (by norm_num) (by norm_num)

/-- the same against the harmonic mean written out -/
theorem f_dx_rounding_harmonic (hu : M.u ≤ (2 : K) ^ (-53 : ℤ)) (k0 k1 k2 : Knot K) (h01 : k0.x < k1.x)
    (h12 : k1.x < k2.x) (hpos : 0 < secant k0 k1 * secant k1 k2) :
    |Spline.f_dxRounded M k0 k1 k2 - 2 * secant k0 k1 * secant k1 k2 / (secant k0 k1 + secant k1 k2)|
      ≤ (11 + 1 / 1000) * M.u * |2 * secant k0 k1 * secant k1 k2 / (secant k0 k1 + secant k1 k2)| := by
  have := f_dx_rounding M hu k0 k1 k2 h01 h12
  rwa [f_dx_eq, if_neg (not_le.mpr hpos)] at this

theorem Btw0.abs_le {c f : K} (h : Btw0 c f) : |f| ≤ |c| := by
  rcases h with ⟨h0, h1⟩ | ⟨h0, h1⟩
  · rw [abs_of_nonneg h0, abs_of_nonneg (h0.trans h1)]; exact h1
  · rw [abs_of_nonpos h1, abs_of_nonpos (h0.trans h1)]; linarith

/-- `|f_dx| ≤ 2·min(|s01|, |s12|)` -/
theorem f_dx_abs_le (k0 k1 k2 : Knot K) :
    |Spline.f_dx k0 k1 k2| ≤ 2 * min |secant k0 k1| |secant k1 k2| := by
  have a := Btw0.abs_le (f_dx_btw_left k0 k1 k2)
  have b := Btw0.abs_le (f_dx_btw_right k0 k1 k2)
  rw [abs_mul, abs_two] at a b
  rcases le_total |secant k0 k1| |secant k1 k2| with h | h
  · rw [min_eq_left h]; exact a
  · rw [min_eq_right h]; exact b

/-- in terms of the magnitudes of the secant slopes: `≤ 22.002·u·min(|s01|, |s12|)` -/
theorem f_dx_rounding_secant (hu : M.u ≤ (2 : K) ^ (-53 : ℤ)) (k0 k1 k2 : Knot K) (h01 : k0.x < k1.x)
    (h12 : k1.x < k2.x) :
    |Spline.f_dxRounded M k0 k1 k2 - Spline.f_dx k0 k1 k2|
      ≤ (22 + 2 / 1000) * M.u * min |secant k0 k1| |secant k1 k2| := by
  have h1 := f_dx_rounding M hu k0 k1 k2 h01 h12
  have h2 := f_dx_abs_le k0 k1 k2
  have h3 : (11 + 1 / 1000) * M.u * |Spline.f_dx k0 k1 k2|
      ≤ (11 + 1 / 1000) * M.u * (2 * min |secant k0 k1| |secant k1 k2|) :=
    mul_le_mul_of_nonneg_left h2 (by have := M.hu; positivity)
  linarith

/-! ## 2. the end-knot slopes (eq. 7b / 7c) -/

/-- **(2)** eq. 7b/7c in rounded arithmetic, the neighbouring slope `g ≈ f` being known to depth `kf ≤ 11` against the
magnitude `G`: within `17.001·u·(3/2·|s| + G/2)` of `3/2·s − f/2` -/
theorem end_slope_rounding (hu : M.u ≤ (2 : K) ^ (-53 : ℤ)) (ka kb : Knot K) (hx : ka.x < kb.x)
    {f g G : K} {kf : ℕ} (hf : CtInv M f g G kf) (hkf : kf ≤ 11) :
    |endSlopeRounded M ka kb g - (3 / 2 * (kb.y - ka.y) / (kb.x - ka.x) - f / 2)|
      ≤ (17 + 1 / 1000) * M.u * (3 / 2 * |secant ka kb| + 1 / 2 * G) := by
  have h := (endSlope_ct M hu ka kb hx hf).mono (show max 9 (kf + 5) + 1 ≤ 17 by omega)
  have := ct_bound_c h hu (by norm_num) (c := 17 + 1 / 1000) (by norm_num)
  rwa [endSlope_eq] at this

/-- the neighbouring slope taken as given (exact input `g`): `10.001·u·(3/2·|s| + |g|/2)` -/
theorem end_slope_rounding_given (hu : M.u ≤ (2 : K) ^ (-53 : ℤ)) (ka kb : Knot K) (hx : ka.x < kb.x) (g : K) :
    |endSlopeRounded M ka kb g - (3 / 2 * (kb.y - ka.y) / (kb.x - ka.x) - g / 2)|
      ≤ (10 + 1 / 1000) * M.u * (3 / 2 * |secant ka kb| + 1 / 2 * |g|) := by
  have h := (endSlope_ct M hu ka kb hx (CtInv.inp M g)).mono (show max 9 (0 + 5) + 1 ≤ 10 by omega)
  have := ct_bound_c h hu (by norm_num) (c := 10 + 1 / 1000) (by norm_num)
  rwa [endSlope_eq] at this

/-- **(2) first knot**: the computed slope at `x₀` (7b applied to the computed slope at `x₁`) against the exact one -/
theorem first_slope_rounding (hu : M.u ≤ (2 : K) ^ (-53 : ℤ)) (k0 k1 k2 : Knot K) (h01 : k0.x < k1.x)
    (h12 : k1.x < k2.x) :
    |endSlopeRounded M k0 k1 (Spline.f_dxRounded M k0 k1 k2)
        - (3 / 2 * (k1.y - k0.y) / (k1.x - k0.x) - Spline.f_dx k0 k1 k2 / 2)|
      ≤ (17 + 1 / 1000) * M.u * (3 / 2 * |secant k0 k1| + 1 / 2 * |Spline.f_dx k0 k1 k2|) :=
  end_slope_rounding M hu k0 k1 h01 (f_dx_ct M hu k0 k1 k2 h01 h12) (le_refl _)

/-- **(2) last knot**: the computed slope at `xₙ` (7c applied to the computed slope at `xₘ`) against the exact one -/
theorem last_slope_rounding (hu : M.u ≤ (2 : K) ^ (-53 : ℤ)) (k0 k1 k2 : Knot K) (h01 : k0.x < k1.x)
    (h12 : k1.x < k2.x) :
    |endSlopeRounded M k1 k2 (Spline.f_dxRounded M k0 k1 k2)
        - (3 / 2 * (k2.y - k1.y) / (k2.x - k1.x) - Spline.f_dx k0 k1 k2 / 2)|
      ≤ (17 + 1 / 1000) * M.u * (3 / 2 * |secant k1 k2| + 1 / 2 * |Spline.f_dx k0 k1 k2|) :=
  end_slope_rounding M hu k1 k2 h12 (f_dx_ct M hu k0 k1 k2 h01 h12) (le_refl _)

/-! ## 3. one segment: coefficients, interpolation, end derivatives -/

section seg
variable (hu : M.u ≤ (2 : K) ^ (-53 : ℤ)) (f0 f1 : K) (k0 k1 : Knot K) (hx : k0.x < k1.x)
include hu hx

/-- **(3) the four coefficients**: computed vs exact, against the magnitudes `magA … magD`; the segment end is exact -/
theorem segment_coeff_rounding :
    let E := Spline.segment f0 k0 f1 k1
    let R := Spline.segmentRounded M f0 k0 f1 k1
    |R.poly._0.a0.val - E.poly._0.a0| ≤ (30 + 1 / 1000) * M.u * magA |f0| k0 |f1| k1 ∧
    |R.poly._0.a1.val - E.poly._0.a1| ≤ (26 + 1 / 1000) * M.u * magB |f0| k0 |f1| k1 ∧
    |R.poly._0.a2.val - E.poly._0.a2| ≤ (22 + 1 / 1000) * M.u * magC |f0| k0 |f1| k1 ∧
    |R.poly._0.a3.val - E.poly._0.a3| ≤ (21 + 1 / 1000) * M.u * magD |f0| k0 |f1| k1 ∧
    R.«end».val = k1.x := by
  intro E R
  obtain ⟨hA, hB, hC, hD⟩ := segment_ct M hu k0 k1 hx (CtInv.inp M f0) (CtInv.inp M f1)
  exact ⟨ct_bound_c hA hu (by norm_num) (by norm_num), ct_bound_c hB hu (by norm_num) (by norm_num),
    ct_bound_c hC hu (by norm_num) (by norm_num), ct_bound_c hD hu (by norm_num) (by norm_num), rfl⟩

/-- **(3) evaluation at any `x`**: the exact value of the computed cubic, and the generated `evaluate` run in
`Rounded M` on it, against the exact cubic -/
theorem segment_eval_rounding (x : K) :
    |Evaluate.evaluate (segPoly M f0 k0 f1 k1) x - Evaluate.evaluate (Spline.segment f0 k0 f1 k1).poly x|
      ≤ (30 + 1 / 1000) * M.u * segMag |f0| k0 |f1| k1 x ∧
    |(Evaluate.evaluate (Spline.segmentRounded M f0 k0 f1 k1).poly (⟨x⟩ : Rounded M)).val
        - Evaluate.evaluate (Spline.segment f0 k0 f1 k1).poly x|
      ≤ (32 + 1 / 1000) * M.u * segMag |f0| k0 |f1| k1 x := by
  exact ⟨ct_bound_c (segment_coef_eval_ct M hu k0 k1 hx (CtInv.inp M f0) (CtInv.inp M f1) x) hu (by norm_num)
      (by norm_num),
    ct_bound_c (segment_eval_ct M hu k0 k1 hx (CtInv.inp M f0) (CtInv.inp M f1) x) hu (by norm_num) (by norm_num)⟩

/-- **(3) `segment_through_knots_rounding`**: the computed cubic passes through both knots up to
`30.001·u·S(x_i)` (exact evaluation) resp. `32.001·u·S(x_i)` (generated evaluation in `Rounded M`) -/
theorem segment_through_knots_rounding :
    |Evaluate.evaluate (segPoly M f0 k0 f1 k1) k0.x - k0.y| ≤ (30 + 1 / 1000) * M.u * segMag |f0| k0 |f1| k1 k0.x ∧
    |Evaluate.evaluate (segPoly M f0 k0 f1 k1) k1.x - k1.y| ≤ (30 + 1 / 1000) * M.u * segMag |f0| k0 |f1| k1 k1.x ∧
    |(Evaluate.evaluate (Spline.segmentRounded M f0 k0 f1 k1).poly (⟨k0.x⟩ : Rounded M)).val - k0.y|
      ≤ (32 + 1 / 1000) * M.u * segMag |f0| k0 |f1| k1 k0.x ∧
    |(Evaluate.evaluate (Spline.segmentRounded M f0 k0 f1 k1).poly (⟨k1.x⟩ : Rounded M)).val - k1.y|
      ≤ (32 + 1 / 1000) * M.u * segMag |f0| k0 |f1| k1 k1.x := by
  have a := segment_eval_rounding M hu f0 f1 k0 k1 hx k0.x
  have b := segment_eval_rounding M hu f0 f1 k0 k1 hx k1.x
  rw [seg_left f0 f1 k0 k1 (ne_of_lt hx)] at a
  rw [seg_right f0 f1 k0 k1 (ne_of_lt hx)] at b
  exact ⟨a.1, b.1, a.2, b.2⟩

/-- **(3) derivative at any `x`**: the exact derivative of the computed cubic, and the generated `derivative` +
`evaluate` run in `Rounded M` on it, against the derivative of the exact cubic -/
theorem segment_deriv_rounding (x : K) :
    |Evaluate.evaluate (HasDerivative.derivative (segPoly M f0 k0 f1 k1)) x
        - Evaluate.evaluate (HasDerivative.derivative (Spline.segment f0 k0 f1 k1).poly) x|
      ≤ (26 + 1 / 1000) * M.u * segMagD |f0| k0 |f1| k1 x ∧
    |(Evaluate.evaluate (HasDerivative.derivative (Spline.segmentRounded M f0 k0 f1 k1).poly) (⟨x⟩ : Rounded M)).val
        - Evaluate.evaluate (HasDerivative.derivative (Spline.segment f0 k0 f1 k1).poly) x|
      ≤ (28 + 1 / 1000) * M.u * segMagD |f0| k0 |f1| k1 x := by
  exact ⟨ct_bound_c (segment_coef_deriv_ct M hu k0 k1 hx (CtInv.inp M f0) (CtInv.inp M f1) x) hu (by norm_num)
      (by norm_num),
    ct_bound_c (segment_deriv_ct M hu k0 k1 hx (CtInv.inp M f0) (CtInv.inp M f1) x) hu (by norm_num) (by norm_num)⟩

/-- **(3) `segment_derivative_rounding`**: the derivative of the computed cubic at `x₀`, `x₁` is the prescribed
`f0`, `f1` up to `26.001·u·S'(x_i)` (exact derivative) resp. `28.001·u·S'(x_i)` (generated code in `Rounded M`) -/
theorem segment_derivative_rounding :
    |Evaluate.evaluate (HasDerivative.derivative (segPoly M f0 k0 f1 k1)) k0.x - f0|
      ≤ (26 + 1 / 1000) * M.u * segMagD |f0| k0 |f1| k1 k0.x ∧
    |Evaluate.evaluate (HasDerivative.derivative (segPoly M f0 k0 f1 k1)) k1.x - f1|
      ≤ (26 + 1 / 1000) * M.u * segMagD |f0| k0 |f1| k1 k1.x ∧
    |(Evaluate.evaluate (HasDerivative.derivative (Spline.segmentRounded M f0 k0 f1 k1).poly)
        (⟨k0.x⟩ : Rounded M)).val - f0| ≤ (28 + 1 / 1000) * M.u * segMagD |f0| k0 |f1| k1 k0.x ∧
    |(Evaluate.evaluate (HasDerivative.derivative (Spline.segmentRounded M f0 k0 f1 k1).poly)
        (⟨k1.x⟩ : Rounded M)).val - f1| ≤ (28 + 1 / 1000) * M.u * segMagD |f0| k0 |f1| k1 k1.x := by
  have a := segment_deriv_rounding M hu f0 f1 k0 k1 hx k0.x
  have b := segment_deriv_rounding M hu f0 f1 k0 k1 hx k1.x
  rw [seg_dleft f0 f1 k0 k1 (ne_of_lt hx)] at a
  rw [seg_dright f0 f1 k0 k1 (ne_of_lt hx)] at b
  exact ⟨a.1, b.1, a.2, b.2⟩

/-- **(3) readable form**: with `X ≥ |x₀|, |x₁|`, `h = x₁ − x₀`, `|s| = |y₁−y₀|/h`, every bound of
`segment_through_knots_rounding` is at most `C·u·(|y₀| + 2|s|X + 52·(|s|+|f0|+|f1|)·X³/h²)` and every bound of
`segment_derivative_rounding` at most `C·u·(|s| + 36·(|s|+|f0|+|f1|)·X²/h²)`: the conditioning `(X/h)²` is explicit -/
theorem segment_knots_readable {X : K} (h0 : |k0.x| ≤ X) (h1 : |k1.x| ≤ X) :
    let c := (magS k0 k1 + |f0| + |f1|) / (k1.x - k0.x) / (k1.x - k0.x)
    let B := |k0.y| + 2 * magS k0 k1 * X + 52 * X ^ 3 * c
    let B' := magS k0 k1 + 36 * X ^ 2 * c
    |Evaluate.evaluate (segPoly M f0 k0 f1 k1) k0.x - k0.y| ≤ (30 + 1 / 1000) * M.u * B ∧
    |Evaluate.evaluate (segPoly M f0 k0 f1 k1) k1.x - k1.y| ≤ (30 + 1 / 1000) * M.u * B ∧
    |(Evaluate.evaluate (Spline.segmentRounded M f0 k0 f1 k1).poly (⟨k0.x⟩ : Rounded M)).val - k0.y|
      ≤ (32 + 1 / 1000) * M.u * B ∧
    |(Evaluate.evaluate (Spline.segmentRounded M f0 k0 f1 k1).poly (⟨k1.x⟩ : Rounded M)).val - k1.y|
      ≤ (32 + 1 / 1000) * M.u * B ∧
    |Evaluate.evaluate (HasDerivative.derivative (segPoly M f0 k0 f1 k1)) k0.x - f0| ≤ (26 + 1 / 1000) * M.u * B' ∧
    |Evaluate.evaluate (HasDerivative.derivative (segPoly M f0 k0 f1 k1)) k1.x - f1| ≤ (26 + 1 / 1000) * M.u * B' ∧
    |(Evaluate.evaluate (HasDerivative.derivative (Spline.segmentRounded M f0 k0 f1 k1).poly)
        (⟨k0.x⟩ : Rounded M)).val - f0| ≤ (28 + 1 / 1000) * M.u * B' ∧
    |(Evaluate.evaluate (HasDerivative.derivative (Spline.segmentRounded M f0 k0 f1 k1).poly)
        (⟨k1.x⟩ : Rounded M)).val - f1| ≤ (28 + 1 / 1000) * M.u * B' := by
  intro c B B'
  obtain ⟨a1, a2, a3, a4⟩ := segment_through_knots_rounding M hu f0 f1 k0 k1 hx
  obtain ⟨b1, b2, b3, b4⟩ := segment_derivative_rounding M hu f0 f1 k0 k1 hx
  have s0 : segMag |f0| k0 |f1| k1 k0.x ≤ B := segMag_le hx (abs_nonneg _) (abs_nonneg _) h0 h1 h0
  have s1 : segMag |f0| k0 |f1| k1 k1.x ≤ B := segMag_le hx (abs_nonneg _) (abs_nonneg _) h0 h1 h1
  have d0 : segMagD |f0| k0 |f1| k1 k0.x ≤ B' := segMagD_le hx (abs_nonneg _) (abs_nonneg _) h0 h1 h0
  have d1 : segMagD |f0| k0 |f1| k1 k1.x ≤ B' := segMagD_le hx (abs_nonneg _) (abs_nonneg _) h0 h1 h1
  have hu0 := M.hu
  have w : ∀ {n S T : K}, 0 ≤ n → S ≤ T → n * M.u * S ≤ n * M.u * T := fun hn h =>
    mul_le_mul_of_nonneg_left h (mul_nonneg hn hu0)
  exact ⟨a1.trans (w (by norm_num) s0), a2.trans (w (by norm_num) s1), a3.trans (w (by norm_num) s0),
    a4.trans (w (by norm_num) s1), b1.trans (w (by norm_num) d0), b2.trans (w (by norm_num) d1),
    b3.trans (w (by norm_num) d0), b4.trans (w (by norm_num) d1)⟩

end seg

/-! ## 4. the whole spline in `Rounded M` -/
section spline
variable (ks : List (Knot K))

/-- the (exact) knots injected into `Rounded M`: the input of the rounded run -/
abbrev rk : List (Knot (Rounded M)) := ks.map (Knot.mapF Rounded.mk)

theorem rk_length : (rk M ks).length = ks.length := List.length_map _

/-- the slope the rounded run computes at knot `i` (entry `i` of `Hand.fAll` in `Rounded M`): the SAME number is
passed to the cubic on the left and to the cubic on the right of knot `i` -/
noncomputable def slopeHat (h3 : 3 ≤ ks.length) (i : ℕ) (hi : i < ks.length) : K :=
  (knotSlope (rk M ks) (by rw [rk_length]; exact h3) i (by rw [rk_length]; exact hi)).val

/-- it is entry `i` of the slope list of the rounded run -/
theorem slopeHat_spec {fa : List (Rounded M)} (hf : fAll (rk M ks) = some fa) (h3 : 3 ≤ ks.length) (i : ℕ)
    (hi : i < ks.length) : fa[i]? = some ⟨slopeHat M ks h3 i hi⟩ :=
  fAll_getElem? hf (by rw [rk_length]; exact h3) i (by rw [rk_length]; exact hi)

theorem slopeHat_mid (h3 : 3 ≤ ks.length) (i : ℕ) (h : i + 2 < ks.length) :
    slopeHat M ks h3 (i + 1) (by omega) = Spline.f_dxRounded M ks[i] ks[i + 1] ks[i + 2] := by
  unfold slopeHat
  rw [knotSlope_mid (rk M ks) _ i (by rw [rk_length]; exact h)]
  simp only [List.getElem_map]

theorem slopeHat_zero (h3 : 3 ≤ ks.length) :
    slopeHat M ks h3 0 (by omega)
      = endSlopeRounded M ks[0] ks[1] (Spline.f_dxRounded M ks[0] ks[1] ks[2]) := by
  unfold slopeHat
  rw [knotSlope_zero]
  simp only [List.getElem_map]

theorem slopeHat_last (h3 : 3 ≤ ks.length) (i : ℕ) (h : i + 2 = ks.length) :
    slopeHat M ks h3 (i + 1) (by omega)
      = endSlopeRounded M ks[i] ks[i + 1] (Spline.f_dxRounded M ks[i - 1] ks[i] ks[i + 1]) := by
  unfold slopeHat
  rw [knotSlope_last (rk M ks) _ i (by rw [rk_length]; exact h)]
  simp only [List.getElem_map]

/-- piece `i` of the rounded run is `Spline.segment` run in `Rounded M` on the exact knots `i`, `i+1` and the
computed slopes at these knots -/
theorem spline_rounded_segment {pw : Piecewise (Rounded M) (Poly3 (Rounded M))}
    (hp : constrainedSpline (rk M ks) = some pw) (h3 : 3 ≤ ks.length) (i : ℕ) (h : i + 1 < ks.length) :
    pw.segments[i]? = some (Spline.segmentRounded M (slopeHat M ks h3 i (by omega)) ks[i]
      (slopeHat M ks h3 (i + 1) h) ks[i + 1]) := by
  rw [spline_segment' hp (by rw [rk_length]; exact h3) i (by rw [rk_length]; exact h)]
  simp only [List.getElem_map]
  rfl


/-- the magnitude against which the computed slope at knot `i` is accurate: `|f|` for an interior slope `f`,
`3/2·|s| + |f|/2` for an end slope `3/2·s − f/2` (exact quantities only) -/
noncomputable def slopeMag (h3 : 3 ≤ ks.length) : (i : ℕ) → i < ks.length → K
  | 0, _ => (3 / 2 : K) * |secant ks[0] ks[1]| + (1 / 2 : K) * |Spline.f_dx ks[0] ks[1] ks[2]|
  | j + 1, h =>
    if hn : j + 2 = ks.length then
      (3 / 2 : K) * |secant ks[j] ks[j + 1]| + (1 / 2 : K) * |Spline.f_dx ks[j - 1] ks[j] ks[j + 1]|
    else |Spline.f_dx ks[j] ks[j + 1] ks[j + 2]|

variable {ks}

/-- **(2)+(1) every computed knot slope** approximates the exact knot slope (`C04.knotSlope`: eq. 7a–c) with
depth 17 against `slopeMag` -/
theorem slopeHat_ct (hu : M.u ≤ (2 : K) ^ (-53 : ℤ)) (hs : (ks.map Knot.x).Pairwise (· < ·))
    (h3 : 3 ≤ ks.length) (i : ℕ) (hi : i < ks.length) :
    CtInv M (knotSlope ks h3 i hi) (slopeHat M ks h3 i hi) (slopeMag ks h3 i hi) 17 := by
  match i, hi with
  | 0, hi =>
    rw [slopeHat_zero, knotSlope_zero]
    simp only [slopeMag]
    exact (endSlope_ct M hu ks[0] ks[1] (sorted_lt hs 0 (by omega))
      (f_dx_ct M hu ks[0] ks[1] ks[2] (sorted_lt hs 0 (by omega)) (sorted_lt hs 1 (by omega)))).mono (show max 9 (11 + 5) + 1 ≤ 17 by norm_num)
  | j + 1, hi =>
    by_cases hn : j + 2 = ks.length
    · rw [slopeHat_last M ks h3 j hn, knotSlope_last ks h3 j hn]
      simp only [slopeMag, dif_pos hn]
      obtain ⟨l, rfl⟩ : ∃ l, j = l + 1 := ⟨j - 1, by omega⟩
      simp only [Nat.add_sub_cancel]
      exact (endSlope_ct M hu ks[l + 1] ks[l + 1 + 1] (sorted_lt hs (l + 1) (by omega))
        (f_dx_ct M hu ks[l] ks[l + 1] ks[l + 1 + 1] (sorted_lt hs l (by omega))
          (sorted_lt hs (l + 1) (by omega)))).mono (show max 9 (11 + 5) + 1 ≤ 17 by norm_num)
    · rw [slopeHat_mid M ks h3 j (by omega), knotSlope_mid ks h3 j (by omega)]
      simp only [slopeMag, dif_neg hn]
      exact (f_dx_ct M hu ks[j] ks[j + 1] ks[j + 2] (sorted_lt hs j (by omega))
        (sorted_lt hs (j + 1) (by omega))).mono (show 11 ≤ 17 by norm_num)

/-- **(2) every knot slope of the spline**: `|computed − exact| ≤ 17.001·u·slopeMag` -/
theorem spline_slope_rounding (hu : M.u ≤ (2 : K) ^ (-53 : ℤ)) (hs : (ks.map Knot.x).Pairwise (· < ·))
    (h3 : 3 ≤ ks.length) (i : ℕ) (hi : i < ks.length) :
    |slopeHat M ks h3 i hi - knotSlope ks h3 i hi| ≤ (17 + 1 / 1000) * M.u * slopeMag ks h3 i hi :=
  ct_bound_c (slopeHat_ct M hu hs h3 i hi) hu (by norm_num) (by norm_num)

/-- the computed knot slope is at most `(1+u)^17` times the exact magnitude `slopeMag` (to express the `|f̂|` occurring in
the magnitudes `S`, `S'` below in exact quantities) -/
theorem slopeHat_abs_le (hu : M.u ≤ (2 : K) ^ (-53 : ℤ)) (hs : (ks.map Knot.x).Pairwise (· < ·))
    (h3 : 3 ≤ ks.length) (i : ℕ) (hi : i < ks.length) :
    |slopeHat M ks h3 i hi| ≤ (1 + M.u) ^ 17 * slopeMag ks h3 i hi :=
  ct_abs_le (slopeHat_ct M hu hs h3 i hi)

/-- **(4) every piece of the rounded spline**: it is the rounded `segment` of the two computed end slopes `fl`, `fr`; it
passes through both knots of its interval and has the derivatives `fl`, `fr` there, up to the bounds of (3). -/
theorem spline_piece_rounding (hu : M.u ≤ (2 : K) ^ (-53 : ℤ)) {pw : Piecewise (Rounded M) (Poly3 (Rounded M))}
    (hp : constrainedSpline (rk M ks) = some pw) (hs : (ks.map Knot.x).Pairwise (· < ·))
    (h3 : 3 ≤ ks.length) (i : ℕ) (h : i + 1 < ks.length) :
    let fl := slopeHat M ks h3 i (by omega)
    let fr := slopeHat M ks h3 (i + 1) h
    let S := segMag |fl| ks[i] |fr| ks[i + 1]
    let S' := segMagD |fl| ks[i] |fr| ks[i + 1]
    ∃ s, pw.segments[i]? = some s ∧ s = Spline.segmentRounded M fl ks[i] fr ks[i + 1] ∧
      |Evaluate.evaluate (s.poly.mapF Rounded.val) ks[i].x - ks[i].y| ≤ (30 + 1 / 1000) * M.u * S ks[i].x ∧
      |Evaluate.evaluate (s.poly.mapF Rounded.val) ks[i + 1].x - ks[i + 1].y|
        ≤ (30 + 1 / 1000) * M.u * S ks[i + 1].x ∧
      |(Evaluate.evaluate s.poly (⟨ks[i].x⟩ : Rounded M)).val - ks[i].y| ≤ (32 + 1 / 1000) * M.u * S ks[i].x ∧
      |(Evaluate.evaluate s.poly (⟨ks[i + 1].x⟩ : Rounded M)).val - ks[i + 1].y|
        ≤ (32 + 1 / 1000) * M.u * S ks[i + 1].x ∧
      |Evaluate.evaluate (HasDerivative.derivative (s.poly.mapF Rounded.val)) ks[i].x - fl|
        ≤ (26 + 1 / 1000) * M.u * S' ks[i].x ∧
      |Evaluate.evaluate (HasDerivative.derivative (s.poly.mapF Rounded.val)) ks[i + 1].x - fr|
        ≤ (26 + 1 / 1000) * M.u * S' ks[i + 1].x ∧
      |(Evaluate.evaluate (HasDerivative.derivative s.poly) (⟨ks[i].x⟩ : Rounded M)).val - fl|
        ≤ (28 + 1 / 1000) * M.u * S' ks[i].x ∧
      |(Evaluate.evaluate (HasDerivative.derivative s.poly) (⟨ks[i + 1].x⟩ : Rounded M)).val - fr|
        ≤ (28 + 1 / 1000) * M.u * S' ks[i + 1].x := by
  intro fl fr S S'
  have hx := sorted_lt hs i h
  obtain ⟨a1, a2, a3, a4⟩ := segment_through_knots_rounding M hu fl fr ks[i] ks[i + 1] hx
  obtain ⟨b1, b2, b3, b4⟩ := segment_derivative_rounding M hu fl fr ks[i] ks[i + 1] hx
  exact ⟨_, spline_rounded_segment M ks hp h3 i h, rfl, a1, a2, a3, a4, b1, b2, b3, b4⟩


theorem abs_sub_le_of_both {a b c B1 B2 : K} (h1 : |a - c| ≤ B1) (h2 : |b - c| ≤ B2) : |a - b| ≤ B1 + B2 := by
  have := abs_sub_le a c b
  rw [abs_sub_comm c b] at this
  linarith

/-- **(4) `spline_c1_rounding`**: at an interior knot `i+1` the two adjacent computed cubics have derivatives within the
bounds of (3) of the SAME computed slope `f = f_dxRounded` (the two calls of `segment` receive the same number), hence
the C¹ defect is at most the sum of the two bounds — for the exact derivative of the computed cubics (`26.001·u`) and
for the generated `derivative`/`evaluate` run in `Rounded M` (`28.001·u`). -/
theorem spline_c1_rounding (hu : M.u ≤ (2 : K) ^ (-53 : ℤ)) {pw : Piecewise (Rounded M) (Poly3 (Rounded M))}
    (hp : constrainedSpline (rk M ks) = some pw) (hs : (ks.map Knot.x).Pairwise (· < ·))
    (h3 : 3 ≤ ks.length) (i : ℕ) (h : i + 2 < ks.length) :
    let fl := slopeHat M ks h3 i (by omega)
    let f := slopeHat M ks h3 (i + 1) (by omega)
    let fr := slopeHat M ks h3 (i + 2) h
    let x := ks[i + 1].x
    let Bl := segMagD |fl| ks[i] |f| ks[i + 1] x
    let Br := segMagD |f| ks[i + 1] |fr| ks[i + 2] x
    ∃ sl sr, pw.segments[i]? = some sl ∧ pw.segments[i + 1]? = some sr ∧
      f = Spline.f_dxRounded M ks[i] ks[i + 1] ks[i + 2] ∧
      |Evaluate.evaluate (HasDerivative.derivative (sl.poly.mapF Rounded.val)) x - f| ≤ (26 + 1 / 1000) * M.u * Bl ∧
      |Evaluate.evaluate (HasDerivative.derivative (sr.poly.mapF Rounded.val)) x - f| ≤ (26 + 1 / 1000) * M.u * Br ∧
      |Evaluate.evaluate (HasDerivative.derivative (sl.poly.mapF Rounded.val)) x
          - Evaluate.evaluate (HasDerivative.derivative (sr.poly.mapF Rounded.val)) x|
        ≤ (26 + 1 / 1000) * M.u * (Bl + Br) ∧
      |(Evaluate.evaluate (HasDerivative.derivative sl.poly) (⟨x⟩ : Rounded M)).val - f| ≤ (28 + 1 / 1000) * M.u * Bl ∧
      |(Evaluate.evaluate (HasDerivative.derivative sr.poly) (⟨x⟩ : Rounded M)).val - f| ≤ (28 + 1 / 1000) * M.u * Br ∧
      |(Evaluate.evaluate (HasDerivative.derivative sl.poly) (⟨x⟩ : Rounded M)).val
          - (Evaluate.evaluate (HasDerivative.derivative sr.poly) (⟨x⟩ : Rounded M)).val|
        ≤ (28 + 1 / 1000) * M.u * (Bl + Br) := by
  intro fl f fr x Bl Br
  obtain ⟨-, l2, -, l4⟩ := segment_derivative_rounding M hu fl f ks[i] ks[i + 1] (sorted_lt hs i (by omega))
  obtain ⟨r1, -, r3, -⟩ := segment_derivative_rounding M hu f fr ks[i + 1] ks[i + 2] (sorted_lt hs (i + 1) h)
  refine ⟨_, _, spline_rounded_segment M ks hp h3 i (by omega), spline_rounded_segment M ks hp h3 (i + 1) h,
    slopeHat_mid M ks h3 i h, l2, r1, ?_, l4, r3, ?_⟩
  · rw [mul_add]; exact abs_sub_le_of_both l2 r1
  · rw [mul_add]; exact abs_sub_le_of_both l4 r3

/-- **(4) `spline_c0_rounding`**: at an interior knot `i+1` both adjacent computed cubics pass through `(x, y)` within the
bounds of (3); the C⁰ defect is at most the sum of the two bounds — for the exact values of the computed cubics
(`30.001·u`) and for the generated `evaluate` run in `Rounded M` (`32.001·u`). -/
theorem spline_c0_rounding (hu : M.u ≤ (2 : K) ^ (-53 : ℤ)) {pw : Piecewise (Rounded M) (Poly3 (Rounded M))}
    (hp : constrainedSpline (rk M ks) = some pw) (hs : (ks.map Knot.x).Pairwise (· < ·))
    (h3 : 3 ≤ ks.length) (i : ℕ) (h : i + 2 < ks.length) :
    let fl := slopeHat M ks h3 i (by omega)
    let f := slopeHat M ks h3 (i + 1) (by omega)
    let fr := slopeHat M ks h3 (i + 2) h
    let x := ks[i + 1].x
    let y := ks[i + 1].y
    let Bl := segMag |fl| ks[i] |f| ks[i + 1] x
    let Br := segMag |f| ks[i + 1] |fr| ks[i + 2] x
    ∃ sl sr, pw.segments[i]? = some sl ∧ pw.segments[i + 1]? = some sr ∧
      |Evaluate.evaluate (sl.poly.mapF Rounded.val) x - y| ≤ (30 + 1 / 1000) * M.u * Bl ∧
      |Evaluate.evaluate (sr.poly.mapF Rounded.val) x - y| ≤ (30 + 1 / 1000) * M.u * Br ∧
      |Evaluate.evaluate (sl.poly.mapF Rounded.val) x - Evaluate.evaluate (sr.poly.mapF Rounded.val) x|
        ≤ (30 + 1 / 1000) * M.u * (Bl + Br) ∧
      |(Evaluate.evaluate sl.poly (⟨x⟩ : Rounded M)).val - y| ≤ (32 + 1 / 1000) * M.u * Bl ∧
      |(Evaluate.evaluate sr.poly (⟨x⟩ : Rounded M)).val - y| ≤ (32 + 1 / 1000) * M.u * Br ∧
      |(Evaluate.evaluate sl.poly (⟨x⟩ : Rounded M)).val - (Evaluate.evaluate sr.poly (⟨x⟩ : Rounded M)).val|
        ≤ (32 + 1 / 1000) * M.u * (Bl + Br) := by
  intro fl f fr x y Bl Br
  obtain ⟨-, l2, -, l4⟩ := segment_through_knots_rounding M hu fl f ks[i] ks[i + 1] (sorted_lt hs i (by omega))
  obtain ⟨r1, -, r3, -⟩ := segment_through_knots_rounding M hu f fr ks[i + 1] ks[i + 2] (sorted_lt hs (i + 1) h)
  refine ⟨_, _, spline_rounded_segment M ks hp h3 i (by omega), spline_rounded_segment M ks hp h3 (i + 1) h,
    l2, r1, ?_, l4, r3, ?_⟩
  · rw [mul_add]; exact abs_sub_le_of_both l2 r1
  · rw [mul_add]; exact abs_sub_le_of_both l4 r3

/-- **the rounded spline against the exact Kruger spline** (magnitudes in exact quantities only): every coefficient of
every piece is within `(47|43|39|38).001·u·A_j` of the corresponding coefficient of the exact spline, the `A_j` being
the magnitudes of the construction for the exact knot-slope magnitudes `slopeMag`; the ends are equal. -/
theorem spline_vs_exact (hu : M.u ≤ (2 : K) ^ (-53 : ℤ)) {pw : Piecewise (Rounded M) (Poly3 (Rounded M))}
    {pwE : Piecewise K (Poly3 K)} (hp : constrainedSpline (rk M ks) = some pw)
    (hpE : constrainedSpline ks = some pwE) (hs : (ks.map Knot.x).Pairwise (· < ·))
    (h3 : 3 ≤ ks.length) (i : ℕ) (h : i + 1 < ks.length) :
    let G0 := slopeMag ks h3 i (by omega)
    let G1 := slopeMag ks h3 (i + 1) h
    ∃ s e, pw.segments[i]? = some s ∧ pwE.segments[i]? = some e ∧ s.«end».val = e.«end» ∧
      |s.poly._0.a0.val - e.poly._0.a0| ≤ (47 + 1 / 1000) * M.u * magA G0 ks[i] G1 ks[i + 1] ∧
      |s.poly._0.a1.val - e.poly._0.a1| ≤ (43 + 1 / 1000) * M.u * magB G0 ks[i] G1 ks[i + 1] ∧
      |s.poly._0.a2.val - e.poly._0.a2| ≤ (39 + 1 / 1000) * M.u * magC G0 ks[i] G1 ks[i + 1] ∧
      |s.poly._0.a3.val - e.poly._0.a3| ≤ (38 + 1 / 1000) * M.u * magD G0 ks[i] G1 ks[i + 1] ∧
      ∀ x, |Evaluate.evaluate (s.poly.mapF Rounded.val) x - Evaluate.evaluate e.poly x|
            ≤ (47 + 1 / 1000) * M.u * segMag G0 ks[i] G1 ks[i + 1] x ∧
          |(Evaluate.evaluate s.poly (⟨x⟩ : Rounded M)).val - Evaluate.evaluate e.poly x|
            ≤ (49 + 1 / 1000) * M.u * segMag G0 ks[i] G1 ks[i + 1] x := by
  intro G0 G1
  have hx := sorted_lt hs i h
  have c0 := slopeHat_ct M hu hs h3 i (by omega)
  have c1 := slopeHat_ct M hu hs h3 (i + 1) h
  obtain ⟨hA, hB, hC, hD⟩ := segment_ct M hu ks[i] ks[i + 1] hx c0 c1
  refine ⟨_, _, spline_rounded_segment M ks hp h3 i h, spline_segment' hpE h3 i h, rfl,
    ct_bound_c hA hu (by norm_num) (by norm_num), ct_bound_c hB hu (by norm_num) (by norm_num),
    ct_bound_c hC hu (by norm_num) (by norm_num), ct_bound_c hD hu (by norm_num) (by norm_num), fun x => ⟨?_, ?_⟩⟩
  · exact ct_bound_c (segment_coef_eval_ct M hu ks[i] ks[i + 1] hx c0 c1 x) hu (by norm_num) (by norm_num)
  · exact ct_bound_c (segment_eval_ct M hu ks[i] ks[i + 1] hx c0 c1 x) hu (by norm_num) (by norm_num)

end spline
end main

/-! ## non-vacuity: the hypotheses are satisfiable in a model that really rounds (`RModel.m53`: every operation errs
by the full relative `2⁻⁵³`), on the knots of `C04.exKnots` (rising, rising, falling) -/
section examples
noncomputable local instance : Transc ℚ := ⟨fun x => x, fun x => x⟩
attribute [local instance] exactFL
open RModel

theorem m53_u : m53.u ≤ (2 : ℚ) ^ (-53 : ℤ) := le_refl _
/-- the model is not the identity -/
example : m53.rnd 1 ≠ 1 := by simp [m53, inflate]

/-- `f_dx_branch_agrees`, `f_dx_rounding`, `f_dx_rounding_secant`: slopes 1 and 1/2 (harmonic-mean branch) -/
example := f_dx_branch_agrees m53 (⟨0, 0⟩ : Knot ℚ) ⟨1, 1⟩ ⟨3, 2⟩ (by norm_num) (by norm_num)
example := f_dx_rounding m53 m53_u ⟨0, 0⟩ ⟨1, 1⟩ ⟨3, 2⟩ (by norm_num) (by norm_num)
example := f_dx_rounding_secant m53 m53_u ⟨0, 0⟩ ⟨1, 1⟩ ⟨3, 2⟩ (by norm_num) (by norm_num)
example := f_dx_rounding_harmonic m53 m53_u ⟨0, 0⟩ ⟨1, 1⟩ ⟨3, 2⟩ (by norm_num) (by norm_num) (by norm_num [secant])
/-- `f_dx_rounding_zero`: slopes 1/2 and −2 (the data turn): the computed slope is exactly 0 -/
example : Spline.f_dxRounded m53 ⟨1, 1⟩ ⟨3, 2⟩ ⟨4, 0⟩ = 0 :=
  (f_dx_rounding_zero m53 ⟨1, 1⟩ ⟨3, 2⟩ ⟨4, 0⟩ (by norm_num) (by norm_num) (by norm_num [secant])).1
/-- end slopes -/
example := first_slope_rounding m53 m53_u ⟨0, 0⟩ ⟨1, 1⟩ ⟨3, 2⟩ (by norm_num) (by norm_num)
example := last_slope_rounding m53 m53_u ⟨1, 1⟩ ⟨3, 2⟩ ⟨4, 0⟩ (by norm_num) (by norm_num)
example := end_slope_rounding_given m53 m53_u ⟨0, 0⟩ ⟨1, 1⟩ (by norm_num) (2 / 3)
example := end_slope_rounding m53 m53_u ⟨0, 0⟩ ⟨1, 1⟩ (by norm_num)
  (f_dx_ct m53 m53_u ⟨0, 0⟩ ⟨1, 1⟩ ⟨3, 2⟩ (by norm_num) (by norm_num)) (le_refl _)
/-- one segment: knots (1,1), (3,2) with end slopes 2/3 and 0 -/
example := segment_coeff_rounding m53 m53_u (2 / 3) 0 ⟨1, 1⟩ ⟨3, 2⟩ (by norm_num)
example := segment_eval_rounding m53 m53_u (2 / 3) 0 ⟨1, 1⟩ ⟨3, 2⟩ (by norm_num) 2
example := segment_through_knots_rounding m53 m53_u (2 / 3) 0 ⟨1, 1⟩ ⟨3, 2⟩ (by norm_num)
example := segment_deriv_rounding m53 m53_u (2 / 3) 0 ⟨1, 1⟩ ⟨3, 2⟩ (by norm_num) 2
example := segment_derivative_rounding m53 m53_u (2 / 3) 0 ⟨1, 1⟩ ⟨3, 2⟩ (by norm_num)
example := segment_knots_readable m53 m53_u (2 / 3) 0 ⟨1, 1⟩ ⟨3, 2⟩ (by norm_num) (X := 3) (by norm_num) (by norm_num)

/-- the rounded run of the whole spline on `exKnots` succeeds -/
theorem ex_rounded : ∃ pw, constrainedSpline (rk m53 exKnots) = some pw :=
  (spline_structure (rk m53 exKnots) (by simp [exKnots])).imp fun _ h => h.1

/-- the hypotheses of `spline_piece_rounding`, `spline_c0_rounding`, `spline_c1_rounding`, `spline_slope_rounding`,
`spline_vs_exact` (interior knots 1 and 2) -/
example : ∃ pw pwE, constrainedSpline (rk m53 exKnots) = some pw ∧ constrainedSpline exKnots = some pwE ∧
    (exKnots.map Knot.x).Pairwise (· < ·) ∧ 3 ≤ exKnots.length ∧ 1 + 2 < exKnots.length := by
  obtain ⟨pw, hp⟩ := ex_rounded
  obtain ⟨pwE, hpE, -⟩ := spline_structure exKnots (by decide)
  exact ⟨pw, pwE, hp, hpE, exKnots_sorted, by decide, by decide⟩
example : True := by
  obtain ⟨pw, hp⟩ := ex_rounded
  obtain ⟨pwE, hpE, -⟩ := spline_structure exKnots (by decide)
  have h1 := spline_piece_rounding m53 m53_u hp exKnots_sorted (by decide) 0 (by decide)
  have h2 := spline_c0_rounding m53 m53_u hp exKnots_sorted (by decide) 1 (by decide)
  have h3 := spline_c1_rounding m53 m53_u hp exKnots_sorted (by decide) 1 (by decide)
  have h4 := spline_slope_rounding m53 m53_u exKnots_sorted (by decide) 3 (by decide)
  have h5 := spline_vs_exact m53 m53_u hp hpE exKnots_sorted (by decide) 2 (by decide)
  trivial
end examples

end PP.Props.C04Bound
