import PP.Props.C04
/-!
# C05 — the constrained spline is monotone between knots, flat where the data turn, exact on lines,
# and is Kruger's spline  (exact part)

Property (verbatim): "Under the preconditions of C04, on every knot interval the spline is monotone
and stays between the two knot ordinates for every x of the interval (up to the construction's
rounding bound), and its slope at an interior knot is zero (to the same bound) whenever the two
adjacent secant slopes differ in sign or either is zero. Collinear knots reproduce the straight line,
and the whole curve coincides with the exact (rational-arithmetic) Kruger constrained spline of the
data."

All statements are about the generated program (`Spline.f_dx`, `Spline.segment`, `Poly3`/`Poly2`
`evaluate`/`derivative`) and the hand model `Hand.constrainedSpline`, interpreted exactly over an
arbitrary linearly ordered field `K` (ℚ, ℝ, …).  Monotonicity is derived without analysis: the sign of
p′ comes from its Bernstein form, and p(x′) − p(x) = (x′−x)/6 · (p′(x) + 4p′(mid) + p′(x′)) (Simpson's
rule, exact for cubics) turns it into monotonicity in any ordered field.
-/
set_option linter.unusedSectionVars false
set_option linter.unusedVariables false
namespace PP.Props.C05
open Hand PP.Spline PP.Props.C04

section exact
variable {K : Type} [Field K] [LinearOrder K] [IsStrictOrderedRing K] [Transc K]
attribute [local instance] exactFL

/-! ## (f) monotonicity -/

/-- Specification: on `[k0.x, k1.x]` the cubic `p` has a derivative of the (weak) sign of `k1.y - k0.y`,
is monotone in that direction, and stays between the two knot ordinates — for EVERY `x` of the
interval. -/
def MonotoneBetween (p : Poly3 K) (k0 k1 : Knot K) : Prop :=
  ∀ x, k0.x ≤ x → x ≤ k1.x →
    (k0.y ≤ k1.y → 0 ≤ Evaluate.evaluate (HasDerivative.derivative p) x) ∧
    (k1.y ≤ k0.y → Evaluate.evaluate (HasDerivative.derivative p) x ≤ 0) ∧
    min k0.y k1.y ≤ Evaluate.evaluate p x ∧ Evaluate.evaluate p x ≤ max k0.y k1.y ∧
    ∀ x', x ≤ x' → x' ≤ k1.x →
      (k0.y ≤ k1.y → Evaluate.evaluate p x ≤ Evaluate.evaluate p x') ∧
      (k1.y ≤ k0.y → Evaluate.evaluate p x' ≤ Evaluate.evaluate p x)

/-- Bernstein form (degree 2 on `[x0,x1]`) of the derivative of the segment cubic: its Bernstein
coefficients are `f0`, `3s - f0 - f1`, `f1` with `s` the secant slope. -/
theorem segment_deriv_bernstein (f0 f1 : K) (k0 k1 : Knot K) (h : k0.x ≠ k1.x) (x : K) :
    Evaluate.evaluate (HasDerivative.derivative (Spline.segment f0 k0 f1 k1).poly) x * (k1.x - k0.x) ^ 2 =
      f0 * (k1.x - x) ^ 2
      + (3 * ((k1.y - k0.y) / (k1.x - k0.x)) - f0 - f1) * (2 * (x - k0.x) * (k1.x - x))
      + f1 * (x - k0.x) ^ 2 :=
  seg_deriv_bernstein f0 f1 k0 k1 h x

/-- The monotonicity region used: both end slopes between `0` and `3s` (`Btw0 c f` = "`f` lies between
0 and `c`"; for `s = 0` it forces `f0 = f1 = 0`).  This is the box `[0,3]²` of de Boor–Swartz /
Fritsch–Carlson for `α = f0/s`, `β = f1/s`. -/
theorem segment_monotone (f0 f1 : K) (k0 k1 : Knot K) (hx : k0.x < k1.x)
    (h0 : Btw0 (3 * ((k1.y - k0.y) / (k1.x - k0.x))) f0)
    (h1 : Btw0 (3 * ((k1.y - k0.y) / (k1.x - k0.x))) f1) :
    MonotoneBetween (Spline.segment f0 k0 f1 k1).poly k0 k1 := by
  intro x hx0 hx1
  have S := seg_deriv_sign f0 f1 k0 k1 hx h0 h1 x hx0 hx1
  have B := seg_between f0 f1 k0 k1 hx h0 h1 x hx0 hx1
  exact ⟨S.1, S.2, B.1, B.2, fun x' hxx hx1' => seg_mono f0 f1 k0 k1 hx h0 h1 x x' hx0 hxx hx1'⟩

/-- the same with the classical ratios `α = f0/s`, `β = f1/s ∈ [0,3]` (secant slope `s ≠ 0`) -/
theorem segment_monotone_of_ratios (f0 f1 : K) (k0 k1 : Knot K) (hx : k0.x < k1.x)
    (hs : (k1.y - k0.y) / (k1.x - k0.x) ≠ 0)
    (a0 : 0 ≤ f0 / ((k1.y - k0.y) / (k1.x - k0.x))) (a3 : f0 / ((k1.y - k0.y) / (k1.x - k0.x)) ≤ 3)
    (b0 : 0 ≤ f1 / ((k1.y - k0.y) / (k1.x - k0.x))) (b3 : f1 / ((k1.y - k0.y) / (k1.x - k0.x)) ≤ 3) :
    MonotoneBetween (Spline.segment f0 k0 f1 k1).poly k0 k1 := by
  have key : ∀ (s f : K), s ≠ 0 → 0 ≤ f / s → f / s ≤ 3 → Btw0 (3 * s) f := by
    intro s f hs h0 h3
    have e : f = f / s * s := by field_simp
    rcases lt_or_gt_of_ne hs with hneg | hpos
    · right; rw [e]; constructor
      · nlinarith
      · exact mul_nonpos_of_nonneg_of_nonpos h0 (le_of_lt hneg)
    · left; rw [e]; constructor
      · exact mul_nonneg h0 (le_of_lt hpos)
      · nlinarith
  exact segment_monotone f0 f1 k0 k1 hx (key _ _ hs a0 a3) (key _ _ hs b0 b3)

/-- exact region, interior knots: `f_dx` (0 or the harmonic mean) lies between 0 and twice EACH of the
two adjacent secant slopes, i.e. `α, β ∈ [0,2]` (in fact `[0,2)`) on both neighbouring intervals -/
theorem interior_slope_region (k0 k1 k2 : Knot K) :
    Btw0 (2 * ((k1.y - k0.y) / (k1.x - k0.x))) (Spline.f_dx k0 k1 k2) ∧
    Btw0 (2 * ((k2.y - k1.y) / (k2.x - k1.x))) (Spline.f_dx k0 k1 k2) :=
  ⟨f_dx_btw_left k0 k1 k2, f_dx_btw_right k0 k1 k2⟩

/-- exact region, end knots: if the neighbouring slope `f` has ratio in `[0,2]` then the end slope
(7b/7c) has ratio in `[1/2, 3/2]`: `endSlope - s/2` lies between 0 and `s` -/
theorem end_slope_region (ka kb : Knot K) (f : K)
    (h : Btw0 (2 * ((kb.y - ka.y) / (kb.x - ka.x))) f) :
    Btw0 ((kb.y - ka.y) / (kb.x - ka.x)) (Hand.endSlope ka kb f - (kb.y - ka.y) / (kb.x - ka.x) / 2) := by
  have e : Hand.endSlope ka kb f = 3 / 2 * ((kb.y - ka.y) / (kb.x - ka.x)) - f / 2 := by
    rw [endSlope_eq]; ring
  rw [e]
  rcases h with h | h
  · exact Or.inl ⟨by linarith [h.1, h.2], by linarith [h.1, h.2]⟩
  · exact Or.inr ⟨by linarith [h.1, h.2], by linarith [h.1, h.2]⟩

/-- The slopes the construction puts at the two ends of interval `i` are in the region: interior
slopes (harmonic mean or 0) lie between 0 and `2s`, end slopes (7b/7c) between `s/2` and `3s/2`. -/
theorem spline_slopes_in_region (ks : List (Knot K)) (h3 : 3 ≤ ks.length) (i : Nat) (h : i + 1 < ks.length) :
    Btw0 (3 * ((ks[i + 1].y - ks[i].y) / (ks[i + 1].x - ks[i].x))) (knotSlope ks h3 i (by omega)) ∧
    Btw0 (3 * ((ks[i + 1].y - ks[i].y) / (ks[i + 1].x - ks[i].x))) (knotSlope ks h3 (i + 1) h) := by
  constructor
  · match i, h with
    | 0, h =>
      rw [knotSlope_zero]
      exact endSlope_btw ks[0] ks[1] _ (f_dx_btw_left ks[0] ks[1] ks[2])
    | j + 1, h =>
      rw [knotSlope_mid ks h3 j h]
      exact (f_dx_btw_right ks[j] ks[j + 1] ks[j + 2]).two_three
  · by_cases hn : i + 2 = ks.length
    · rw [knotSlope_last ks h3 i hn]
      exact endSlope_btw ks[i] ks[i + 1] _ (f_dx_btw_right ks[i - 1] ks[i] ks[i + 1])
    · rw [knotSlope_mid ks h3 i (by omega)]
      exact (f_dx_btw_left ks[i] ks[i + 1] ks[i + 2]).two_three

/-- (f) **Monotonicity of the constrained spline.**  For strictly increasing abscissae, on EVERY knot
interval (the two end intervals included) and for EVERY `x` of the interval: the derivative of the
piece has the sign of `y_{i+1} - y_i`, the piece is monotone, and its value stays between `y_i` and
`y_{i+1}`. -/
theorem spline_monotone {ks : List (Knot K)} {pw : Piecewise K (Poly3 K)}
    (hp : constrainedSpline ks = some pw) (hs : (ks.map Knot.x).Pairwise (· < ·))
    (i : Nat) (h : i + 1 < ks.length) :
    ∃ s, pw.segments[i]? = some s ∧ MonotoneBetween s.poly ks[i] ks[i + 1] := by
  have h3 : 3 ≤ ks.length := (spline_isSome_iff ks).mp (by rw [hp]; rfl)
  have R := spline_slopes_in_region ks h3 i h
  exact ⟨_, spline_segment' hp h3 i h, segment_monotone _ _ _ _ (sorted_lt hs i h) R.1 R.2⟩

/-! ## (g) zero slope where the data turn; flat intervals -/

/-- the interior slope is 0 when the adjacent secant slopes differ in sign or either is zero -/
theorem interior_slope_zero (k0 k1 k2 : Knot K)
    (h : ((k1.y - k0.y) / (k1.x - k0.x) ≤ 0 ∧ 0 ≤ (k2.y - k1.y) / (k2.x - k1.x)) ∨
         (0 ≤ (k1.y - k0.y) / (k1.x - k0.x) ∧ (k2.y - k1.y) / (k2.x - k1.x) ≤ 0)) :
    Spline.f_dx k0 k1 k2 = 0 := by
  rw [f_dx_eq, if_pos]
  rcases h with h | h
  · exact mul_nonpos_of_nonpos_of_nonneg h.1 h.2
  · exact mul_nonpos_of_nonneg_of_nonpos h.1 h.2

/-- … and only then: for secant slopes of equal strict sign the slope is not 0 -/
theorem interior_slope_zero_iff (k0 k1 k2 : Knot K) :
    Spline.f_dx k0 k1 k2 = 0 ↔
      (k1.y - k0.y) / (k1.x - k0.x) * ((k2.y - k1.y) / (k2.x - k1.x)) ≤ 0 := by
  constructor
  · intro h0
    by_contra hn
    have hpos := not_le.mp hn
    have B := harm_btw _ _ hpos
    rw [f_dx_eq, if_neg hn] at h0
    unfold secant at h0
    have hne : (k1.y - k0.y) / (k1.x - k0.x) + (k2.y - k1.y) / (k2.x - k1.x) ≠ 0 := by
      intro hz
      have : (k2.y - k1.y) / (k2.x - k1.x) = -((k1.y - k0.y) / (k1.x - k0.x)) :=
        eq_neg_of_add_eq_zero_right hz
      rw [this] at hpos
      nlinarith [mul_self_nonneg ((k1.y - k0.y) / (k1.x - k0.x))]
    rw [div_eq_zero_iff] at h0
    rcases h0 with h0 | h0
    · have : 2 * ((k1.y - k0.y) / (k1.x - k0.x) * ((k2.y - k1.y) / (k2.x - k1.x))) = 0 := by
        rw [← h0]; ring
      linarith
    · exact hne h0
  · intro h; rw [f_dx_eq, if_pos h]

/-- (g) on the curve: at an interior knot where the data turn (or are flat on one side) both adjacent
cubics have slope exactly 0 -/
theorem spline_slope_zero {ks : List (Knot K)} {pw : Piecewise K (Poly3 K)}
    (hp : constrainedSpline ks = some pw) (hs : (ks.map Knot.x).Pairwise (· < ·))
    (i : Nat) (h : i + 2 < ks.length)
    (hturn : ((ks[i + 1].y - ks[i].y) / (ks[i + 1].x - ks[i].x) ≤ 0 ∧
                0 ≤ (ks[i + 2].y - ks[i + 1].y) / (ks[i + 2].x - ks[i + 1].x)) ∨
             (0 ≤ (ks[i + 1].y - ks[i].y) / (ks[i + 1].x - ks[i].x) ∧
                (ks[i + 2].y - ks[i + 1].y) / (ks[i + 2].x - ks[i + 1].x) ≤ 0)) :
    ∃ sl sr, pw.segments[i]? = some sl ∧ pw.segments[i + 1]? = some sr ∧
      Evaluate.evaluate (HasDerivative.derivative sl.poly) ks[i + 1].x = 0 ∧
      Evaluate.evaluate (HasDerivative.derivative sr.poly) ks[i + 1].x = 0 := by
  obtain ⟨sl, sr, h1, h2, h3, h4⟩ := spline_C1 hp hs i h
  rw [interior_slope_zero _ _ _ hturn] at h3 h4
  exact ⟨sl, sr, h1, h2, h3, h4⟩

/-- (g) a flat interval (`y_i = y_{i+1}`), interior or at either end, is reproduced by the constant
cubic, coefficient for coefficient -/
theorem spline_flat {ks : List (Knot K)} {pw : Piecewise K (Poly3 K)}
    (hp : constrainedSpline ks = some pw) (i : Nat) (h : i + 1 < ks.length)
    (hy : ks[i].y = ks[i + 1].y) :
    pw.segments[i]? = some ⟨ks[i + 1].x, ⟨⟨ks[i].y, 0, 0, 0⟩⟩⟩ := by
  have h3 : 3 ≤ ks.length := (spline_isSome_iff ks).mp (by rw [hp]; rfl)
  have R := spline_slopes_in_region ks h3 i h
  rw [hy, sub_self, zero_div, mul_zero] at R
  rw [spline_segment' hp h3 i h, R.1.eq_zero, R.2.eq_zero, ← seg_flat ks[i] ks[i + 1] hy]
  rfl

/-! ## (h) collinear knots -/

theorem f_dx_same (b : K) (k0 k1 k2 : Knot K) (h01 : secant k0 k1 = b) (h12 : secant k1 k2 = b) :
    Spline.f_dx k0 k1 k2 = b := by
  rw [f_dx_eq, h01, h12]
  split
  · rename_i h
    have : b * b = 0 := le_antisymm h (mul_self_nonneg b)
    exact (mul_self_eq_zero.mp this).symm
  · rename_i h
    have hb : b ≠ 0 := fun h0 => h (by rw [h0, mul_zero])
    field_simp; ring

theorem endSlope_same (b : K) (ka kb : Knot K) (h : secant ka kb = b) : Hand.endSlope ka kb b = b := by
  rw [endSlope_eq, mul_div_assoc]
  unfold secant at h
  rw [h]; ring

/-- (h) **Collinear knots reproduce the straight line**: every piece is exactly `a + b·x`, with
coefficients `(a, b, 0, 0)`; the result is given in closed form. -/
theorem spline_collinear (a b : K) (ks : List (Knot K)) (h3 : 3 ≤ ks.length)
    (hs : (ks.map Knot.x).Pairwise (· < ·)) (hline : ∀ k ∈ ks, k.y = a + b * k.x) :
    constrainedSpline ks = some ⟨ks.tail.map fun k => ⟨k.x, ⟨⟨a, b, 0, 0⟩⟩⟩⟩ := by
  obtain ⟨pw, hp, hlen, -⟩ := spline_structure ks h3
  rw [hp]
  have hsec : ∀ i (h : i + 1 < ks.length), secant ks[i] ks[i + 1] = b := by
    intro i h
    have hx := sub_ne_zero.mpr (ne_of_gt (sorted_lt hs i h))
    unfold secant
    rw [hline _ (List.getElem_mem _), hline _ (List.getElem_mem _)]
    field_simp; ring
  have hslope : ∀ i (h : i < ks.length), knotSlope ks h3 i h = b := by
    intro i h
    match i, h with
    | 0, h =>
      rw [knotSlope_zero, f_dx_same b _ _ _ (hsec 0 (by omega)) (hsec 1 (by omega))]
      exact endSlope_same b _ _ (hsec 0 (by omega))
    | j + 1, h =>
      by_cases hn : j + 2 = ks.length
      · rw [knotSlope_last ks h3 j hn]
        obtain ⟨l, rfl⟩ : ∃ l, j = l + 1 := ⟨j - 1, by omega⟩
        simp only [Nat.add_sub_cancel]
        rw [f_dx_same b _ _ _ (hsec l (by omega)) (hsec (l + 1) (by omega))]
        exact endSlope_same b _ _ (hsec (l + 1) (by omega))
      · rw [knotSlope_mid ks h3 j (by omega)]
        exact f_dx_same b _ _ _ (hsec j (by omega)) (hsec (j + 1) (by omega))
  congr 1
  obtain ⟨segs⟩ := pw
  congr 1
  apply List.ext_getElem?
  intro i
  by_cases h : i + 1 < ks.length
  · have e := spline_segment' hp h3 i h
    simp only at e
    rw [e, hslope i (by omega), hslope (i + 1) h, List.getElem?_map, List.getElem?_tail,
      List.getElem?_eq_getElem h, Option.map_some]
    congr 1
    have hx := ne_of_lt (sorted_lt hs i h)
    have := seg_line a b ks[i] ks[i + 1] hx (hline _ (List.getElem_mem _)) (hline _ (List.getElem_mem _))
    rw [← this]
    rfl
  · simp only at hlen
    rw [List.getElem?_eq_none (by omega), List.getElem?_eq_none (by simp; omega)]

/-- … hence every piece evaluates to the line at EVERY `x` (inside or outside its interval) -/
theorem spline_collinear_eval (a b : K) (ks : List (Knot K)) (h3 : 3 ≤ ks.length)
    (hs : (ks.map Knot.x).Pairwise (· < ·)) (hline : ∀ k ∈ ks, k.y = a + b * k.x) :
    ∃ pw, constrainedSpline ks = some pw ∧
      ∀ s ∈ pw.segments, ∀ x, Evaluate.evaluate s.poly x = a + b * x := by
  refine ⟨_, spline_collinear a b ks h3 hs hline, ?_⟩
  intro s hsm x
  simp only [List.mem_map] at hsm
  obtain ⟨k, -, rfl⟩ := hsm
  rw [eval3]; ring

/-! ## (i) uniqueness: the model is Kruger's spline -/

/-- (i) the segment cubic is THE cubic with the Hermite data of C04(c): any `Poly3` with the same
values and first derivatives at two distinct abscissae has the same four coefficients -/
theorem segment_unique (f0 f1 : K) (k0 k1 : Knot K) (hx : k0.x ≠ k1.x) (q : Poly3 K)
    (q0 : Evaluate.evaluate q k0.x = k0.y) (q1 : Evaluate.evaluate q k1.x = k1.y)
    (d0 : Evaluate.evaluate (HasDerivative.derivative q) k0.x = f0)
    (d1 : Evaluate.evaluate (HasDerivative.derivative q) k1.x = f1) :
    q = (Spline.segment f0 k0 f1 k1).poly :=
  seg_unique f0 f1 k0 k1 hx q q0 q1 d0 d1

/-- Kruger's constrained spline of the data, defined directly by the paper's conditions and not by
the program: knot slopes `D i` by eq. (7a) (interior: 0 if the secant slopes differ in sign or one
vanishes, else `2 / ((x₊-x)/(y₊-y) + (x-x₋)/(y-y₋))`), (7b), (7c) (ends), and on every interval the cubic
`q i` through both knots with those end slopes. -/
structure IsKruger (ks : List (Knot K)) (D : Nat → K) (q : Nat → Poly3 K) : Prop where
  slope_mid : ∀ i (h : i + 2 < ks.length), D (i + 1) =
    if (ks[i + 1].y - ks[i].y) / (ks[i + 1].x - ks[i].x)
        * ((ks[i + 2].y - ks[i + 1].y) / (ks[i + 2].x - ks[i + 1].x)) ≤ 0 then 0
    else (2 : K) / ((ks[i + 2].x - ks[i + 1].x) / (ks[i + 2].y - ks[i + 1].y)
              + (ks[i + 1].x - ks[i].x) / (ks[i + 1].y - ks[i].y))
  slope_first : ∀ (h : 3 ≤ ks.length),
    D 0 = (3 : K) * (ks[1].y - ks[0].y) / ((2 : K) * (ks[1].x - ks[0].x)) - D 1 / 2
  slope_last : ∀ m (h : m + 2 = ks.length),
    D (m + 1) = (3 : K) * (ks[m + 1].y - ks[m].y) / ((2 : K) * (ks[m + 1].x - ks[m].x)) - D m / 2
  hermite : ∀ i (h : i + 1 < ks.length),
    Evaluate.evaluate (q i) ks[i].x = ks[i].y ∧ Evaluate.evaluate (q i) ks[i + 1].x = ks[i + 1].y ∧
    Evaluate.evaluate (HasDerivative.derivative (q i)) ks[i].x = D i ∧
    Evaluate.evaluate (HasDerivative.derivative (q i)) ks[i + 1].x = D (i + 1)

/-- eq. (7a) in the paper's form is what `f_dx` computes -/
theorem f_dx_kruger (k0 k1 k2 : Knot K) :
    Spline.f_dx k0 k1 k2 =
      if (k1.y - k0.y) / (k1.x - k0.x) * ((k2.y - k1.y) / (k2.x - k1.x)) ≤ 0 then 0
      else 2 / ((k2.x - k1.x) / (k2.y - k1.y) + (k1.x - k0.x) / (k1.y - k0.y)) := by
  exact_simp
  simp only [FloatLike.le, decide_eq_true_eq, one_div_div]
  rw [add_comm]

/-- Kruger's slopes are the slopes of the construction -/
theorem kruger_slopes {ks : List (Knot K)} {D : Nat → K} {q : Nat → Poly3 K} (hk : IsKruger ks D q)
    (h3 : 3 ≤ ks.length) (i : Nat) (h : i < ks.length) : D i = knotSlope ks h3 i h := by
  have mid : ∀ j (hj : j + 2 < ks.length), D (j + 1) = Spline.f_dx ks[j] ks[j + 1] ks[j + 2] := by
    intro j hj; rw [hk.slope_mid j hj, f_dx_kruger]
  match i, h with
  | 0, h =>
    rw [knotSlope_zero, hk.slope_first h3, mid 0 (by omega), endSlope_eq]
    have : ks[0 + 1] = ks[1] := rfl
    have : ks[0 + 2] = ks[2] := rfl
    simp only [zero_add]
    field_simp
  | j + 1, h =>
    by_cases hn : j + 2 = ks.length
    · rw [knotSlope_last ks h3 j hn, hk.slope_last j hn, endSlope_eq]
      obtain ⟨l, rfl⟩ : ∃ l, j = l + 1 := ⟨j - 1, by omega⟩
      rw [mid l (by omega)]
      simp only [Nat.add_sub_cancel]
      field_simp
    · rw [knotSlope_mid ks h3 j (by omega)]
      exact mid j (by omega)

/-- (i) **The whole curve coincides with Kruger's constrained spline**: whatever slopes `D` and cubics
`q` satisfy the paper's defining conditions for the data, piece `i` of the program's result is `q i`
(same four coefficients) with end `x_{i+1}`. -/
theorem spline_eq_kruger {ks : List (Knot K)} {pw : Piecewise K (Poly3 K)}
    (hp : constrainedSpline ks = some pw) (hs : (ks.map Knot.x).Pairwise (· < ·))
    {D : Nat → K} {q : Nat → Poly3 K} (hk : IsKruger ks D q)
    (i : Nat) (h : i + 1 < ks.length) :
    pw.segments[i]? = some ⟨ks[i + 1].x, q i⟩ := by
  have h3 : 3 ≤ ks.length := (spline_isSome_iff ks).mp (by rw [hp]; rfl)
  obtain ⟨q0, q1, d0, d1⟩ := hk.hermite i h
  rw [kruger_slopes hk h3 i (by omega)] at d0
  rw [kruger_slopes hk h3 (i + 1) h] at d1
  rw [spline_segment' hp h3 i h,
    seg_unique _ _ _ _ (ne_of_lt (sorted_lt hs i h)) (q i) q0 q1 d0 d1]
  rfl

/-- (i) and Kruger's conditions are satisfiable — by the program's own slopes and pieces -/
theorem spline_is_kruger {ks : List (Knot K)} {pw : Piecewise K (Poly3 K)}
    (hp : constrainedSpline ks = some pw) (hs : (ks.map Knot.x).Pairwise (· < ·)) :
    ∃ D q, IsKruger ks D q ∧ ∀ i s, pw.segments[i]? = some s → s.poly = q i := by
  have h3 : 3 ≤ ks.length := (spline_isSome_iff ks).mp (by rw [hp]; rfl)
  let D : Nat → K := fun i => if h : i < ks.length then knotSlope ks h3 i h else 0
  have hD : ∀ i (h : i < ks.length), D i = knotSlope ks h3 i h := by
    intro i h; simp only [D]; rw [dif_pos h]
  let q : Nat → Poly3 K := fun i =>
    if h : i + 1 < ks.length then
      (Spline.segment (knotSlope ks h3 i (by omega)) ks[i] (knotSlope ks h3 (i + 1) h) ks[i + 1]).poly
    else ⟨⟨0, 0, 0, 0⟩⟩
  have hq : ∀ i (h : i + 1 < ks.length), q i =
      (Spline.segment (knotSlope ks h3 i (by omega)) ks[i] (knotSlope ks h3 (i + 1) h) ks[i + 1]).poly := by
    intro i h; simp only [q]; rw [dif_pos h]
  refine ⟨D, q, ⟨?_, ?_, ?_, ?_⟩, ?_⟩
  · intro i h
    rw [hD (i + 1) (by omega), knotSlope_mid ks h3 i h, f_dx_kruger]
  · intro _
    rw [hD 0 (by omega), hD 1 (by omega), knotSlope_zero, knotSlope_mid ks h3 0 (by omega), endSlope_eq]
    simp only [zero_add]
    field_simp
  · intro m hm
    rw [hD (m + 1) (by omega), hD m (by omega), knotSlope_last ks h3 m hm, endSlope_eq]
    obtain ⟨l, rfl⟩ : ∃ l, m = l + 1 := ⟨m - 1, by omega⟩
    rw [knotSlope_mid ks h3 l (by omega)]
    simp only [Nat.add_sub_cancel]
    field_simp
  · intro i h
    have hx := ne_of_lt (sorted_lt hs i h)
    rw [hq i h, hD i (by omega), hD (i + 1) h]
    exact ⟨seg_left _ _ _ _ hx, seg_right _ _ _ _ hx, seg_dleft _ _ _ _ hx, seg_dright _ _ _ _ hx⟩
  · intro i s hs'
    have hlen : pw.segments.length = ks.length - 1 := by
      obtain ⟨pw', hp', hl, -⟩ := spline_structure ks h3
      rw [hp] at hp'; cases hp'; exact hl
    have hi : i + 1 < ks.length := by
      have := (List.getElem?_eq_some_iff.mp hs').1
      omega
    rw [spline_segment' hp h3 i hi] at hs'
    rw [hq i hi, ← Option.some.inj hs']

end exact

/-! ## non-vacuity: concrete instances over ℚ -/
section example_
noncomputable local instance : Transc ℚ := ⟨fun x => x, fun x => x⟩
attribute [local instance] exactFL

/-- hypotheses of `spline_monotone`, `spline_slope_zero` (the data of `C04.exKnots` turn at knot 2:
secant slopes 1/2 and −2), `spline_eq_kruger`/`spline_is_kruger` -/
example : ∃ pw, constrainedSpline exKnots = some pw ∧ (exKnots.map Knot.x).Pairwise (· < ·) ∧
    1 + 2 < exKnots.length :=
  (spline_structure exKnots (by decide)).imp fun _ h => ⟨h.1, exKnots_sorted, by decide⟩
example : (0 : ℚ) ≤ ((2 : ℚ) - 1) / (3 - 1) ∧ ((0 : ℚ) - 2) / (4 - 3) ≤ 0 := by norm_num
/-- `IsKruger` is inhabited for that data -/
example : ∃ D q, IsKruger exKnots D q := by
  obtain ⟨pw, hp, -⟩ := spline_structure exKnots (by decide)
  obtain ⟨D, q, h, -⟩ := spline_is_kruger hp exKnots_sorted
  exact ⟨D, q, h⟩
/-- `segment_monotone_of_ratios`: α = 1/2, β = 5/2 on the unit interval with secant slope 2 -/
example : ((2 : ℚ) - 0) / (1 - 0) ≠ 0 ∧ 0 ≤ (1 : ℚ) / ((2 - 0) / (1 - 0)) ∧ (1 : ℚ) / ((2 - 0) / (1 - 0)) ≤ 3 ∧
    0 ≤ (5 : ℚ) / ((2 - 0) / (1 - 0)) ∧ (5 : ℚ) / ((2 - 0) / (1 - 0)) ≤ 3 := by norm_num
/-- `spline_flat`: a flat last interval -/
example : ([⟨0, 0⟩, ⟨1, 1⟩, ⟨2, 3⟩, ⟨5, 3⟩] : List (Knot ℚ))[2].y
    = ([⟨0, 0⟩, ⟨1, 1⟩, ⟨2, 3⟩, ⟨5, 3⟩] : List (Knot ℚ))[3].y := rfl
/-- `spline_collinear` on the data of the repository's own unit test `test_constrained_spline_simple`
(spline.rs:97): the expected value of that test, now for exact arithmetic -/
example : constrainedSpline ([⟨0, 0⟩, ⟨1, 1⟩, ⟨2, 2⟩, ⟨3, 3⟩] : List (Knot ℚ)) =
    some ⟨[⟨1, ⟨⟨0, 1, 0, 0⟩⟩⟩, ⟨2, ⟨⟨0, 1, 0, 0⟩⟩⟩, ⟨3, ⟨⟨0, 1, 0, 0⟩⟩⟩]⟩ := by
  have := spline_collinear (0 : ℚ) 1 [⟨0, 0⟩, ⟨1, 1⟩, ⟨2, 2⟩, ⟨3, 3⟩] (by decide)
    (by simp; norm_num) (by simp)
  simpa using this
end example_

end PP.Props.C05
