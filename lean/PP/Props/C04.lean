import PP.Lemmas.Spline
/-!
# C04 — the constrained cubic spline: structure, interpolation, C¹, Kruger's slopes  (exact part)

Property (verbatim): "For at least three knots with strictly increasing finite abscissae,
constrained_spline returns one cubic per knot interval whose end is the interval's right abscissa
verbatim; each cubic passes through both knots of its interval, and the two cubics meeting at an
interior knot have the same first derivative there, namely the harmonic mean of the two adjacent
secant slopes (the end-knot slopes are 3/2 of the end secant slope minus half the neighbouring knot
slope). Deviations are bounded by a small multiple of 2^-53 times the magnitudes of the intermediate
terms of the construction."

This file: the structural clauses for EVERY number type `F` (so also for `F64`, bit for bit), and the
algebraic clauses for the generated program interpreted exactly over an arbitrary linearly ordered
field `K`.  (The rounding-bound clause is proved elsewhere.)

Model: `Hand.constrainedSpline` (spline.rs:10-48; `none` = the `assert!` panic) calling the generated
`Spline.f_dx`, `Spline.segment`; `Evaluate`/`HasDerivative` are the generated `Poly3`/`Poly2` methods.
-/
set_option linter.unusedSectionVars false
set_option linter.unusedVariables false
namespace PP.Props.C04
open Hand PP.Spline

/-! ## (a), (b): structure — every `FloatLike F`, no arithmetic law used -/
section structure_
variable {F : Type} [FloatLike F]

/-- fewer than three knots: the documented panic -/
theorem spline_panic (ks : List (Knot F)) (h : ks.length < 3) : constrainedSpline ks = none := by
  simp [constrainedSpline, fAll_none ks h]

/-- the slope list exists exactly for ≥ 3 knots and has one entry per knot -/
theorem fAll_some (ks : List (Knot F)) (h : 3 ≤ ks.length) :
    ∃ fa, fAll ks = some fa ∧ fa.length = ks.length := by
  refine ⟨_, fAll_eq ks h, ?_⟩
  simp only [List.length_cons, List.length_append, fMid_length, List.length_nil]; omega

theorem fAll_isSome_iff (ks : List (Knot F)) : (fAll ks).isSome ↔ 3 ≤ ks.length := by
  constructor
  · intro h; by_contra hn
    rw [fAll_none ks (by omega)] at h; simp at h
  · intro h; rw [fAll_eq ks h]; rfl

theorem fAll_length {ks : List (Knot F)} {fa : List F} (hf : fAll ks = some fa) :
    fa.length = ks.length ∧ 3 ≤ ks.length := by
  have h3 : 3 ≤ ks.length := (fAll_isSome_iff ks).mp (by rw [hf]; rfl)
  obtain ⟨fa', h1, h2⟩ := fAll_some ks h3
  rw [hf] at h1; cases h1; exact ⟨h2, h3⟩

/-- (b) first entry: eq. 7b applied to the first two knots and the slope at knot 1 -/
theorem fAll_first {ks : List (Knot F)} {fa : List F} (hf : fAll ks = some fa) (h : 3 ≤ ks.length) :
    fa[0]? = some (endSlope ks[0] ks[1] (Spline.f_dx ks[0] ks[1] ks[2])) := by
  rw [fAll_eq ks h] at hf; cases hf; rfl

/-- (b) interior entries: eq. 7a, `f_dx` of the three surrounding knots -/
theorem fAll_mid {ks : List (Knot F)} {fa : List F} (hf : fAll ks = some fa)
    (i : Nat) (h : i + 2 < ks.length) :
    fa[i + 1]? = some (Spline.f_dx ks[i] ks[i + 1] ks[i + 2]) := by
  rw [fAll_eq ks (by omega)] at hf; cases hf
  rw [List.cons_append, List.getElem?_cons_succ, List.getElem?_append_left (by rw [fMid_length]; omega)]
  exact fMid_getElem? i ks h

/-- (b) last entry: eq. 7c applied to the last two knots and the slope at the last-but-one knot -/
theorem fAll_last {ks : List (Knot F)} {fa : List F} (hf : fAll ks = some fa) (h : 3 ≤ ks.length) :
    fa[ks.length - 1]? = some (endSlope ks[ks.length - 2] ks[ks.length - 1]
      (Spline.f_dx ks[ks.length - 3] ks[ks.length - 2] ks[ks.length - 1])) := by
  rw [fAll_eq ks h] at hf; cases hf
  have key : ∀ (a b : F) (l : List F) (n : Nat), n = l.length + 1 → (a :: l ++ [b])[n]? = some b := by
    intro a b l n hn; subst hn; simp
  exact key _ _ _ _ (by rw [fMid_length]; omega)

/-- (b) the result is `splineSegs` of the slope list and the knots -/
theorem spline_of_fAll {ks : List (Knot F)} {fa : List F} (hf : fAll ks = some fa) :
    constrainedSpline ks = some ⟨splineSegs fa ks⟩ := by
  simp [constrainedSpline, hf]

/-- (b) alignment: segment `i` is `Spline.segment` of slopes `i, i+1` and knots `i, i+1` -/
theorem spline_segment {ks : List (Knot F)} {fa : List F} {pw : Piecewise F (Poly3 F)}
    (hf : fAll ks = some fa) (hp : constrainedSpline ks = some pw)
    (i : Nat) (h1 : i + 1 < ks.length) (h2 : i + 1 < fa.length) :
    pw.segments[i]? = some (Spline.segment fa[i] ks[i] fa[i + 1] ks[i + 1]) := by
  rw [spline_of_fAll hf] at hp; cases hp
  exact splineSegs_getElem? i fa ks h2 h1

/-- (a) one cubic per knot interval; the ends are the right abscissae verbatim -/
theorem spline_structure (ks : List (Knot F)) (h : 3 ≤ ks.length) :
    ∃ pw, constrainedSpline ks = some pw ∧ pw.segments.length = ks.length - 1 ∧
      pw.segments.map (·.end) = (ks.map Knot.x).tail := by
  obtain ⟨fa, hf, hl⟩ := fAll_some ks h
  refine ⟨_, spline_of_fAll hf, ?_, ?_⟩
  · show (splineSegs fa ks).length = _
    rw [splineSegs_length, hl, Nat.min_self]
  · exact splineSegs_ends fa ks (by omega)

/-- success is equivalent to having at least three knots -/
theorem spline_isSome_iff (ks : List (Knot F)) : (constrainedSpline ks).isSome ↔ 3 ≤ ks.length := by
  simp [constrainedSpline, fAll_isSome_iff]

/-- The slope the construction assigns to knot `i` (eq. 7a–c of Kruger's paper), written out by
cases; `fAll_getElem?` below shows that this is the `i`-th entry of `Hand.fAll`. -/
def knotSlope (ks : List (Knot F)) (h3 : 3 ≤ ks.length) : (i : Nat) → i < ks.length → F
  | 0, _ => endSlope ks[0] ks[1] (Spline.f_dx ks[0] ks[1] ks[2])
  | j + 1, h =>
    if hn : j + 2 = ks.length then endSlope ks[j] ks[j + 1] (Spline.f_dx ks[j - 1] ks[j] ks[j + 1])
    else Spline.f_dx ks[j] ks[j + 1] ks[j + 2]

theorem fAll_getElem? {ks : List (Knot F)} {fa : List F} (hf : fAll ks = some fa) (h3 : 3 ≤ ks.length)
    (i : Nat) (h : i < ks.length) : fa[i]? = some (knotSlope ks h3 i h) := by
  match i, h with
  | 0, _ => exact fAll_first hf h3
  | j + 1, h =>
    simp only [knotSlope]
    split
    · rename_i hn
      have L := fAll_last hf h3
      have e1 : ks.length - 1 = j + 1 := by omega
      have e2 : ks.length - 2 = j := by omega
      have e3 : ks.length - 3 = j - 1 := by omega
      simp only [e1, e2, e3] at L
      exact L
    · rename_i hn
      exact fAll_mid hf j (by omega)

/-- (b), closed form: segment `i` is `Spline.segment` of the slopes at knots `i`, `i+1` -/
theorem spline_segment' {ks : List (Knot F)} {pw : Piecewise F (Poly3 F)}
    (hp : constrainedSpline ks = some pw) (h3 : 3 ≤ ks.length) (i : Nat) (h : i + 1 < ks.length) :
    pw.segments[i]? = some (Spline.segment (knotSlope ks h3 i (by omega)) ks[i]
      (knotSlope ks h3 (i + 1) h) ks[i + 1]) := by
  obtain ⟨fa, hf, hl⟩ := fAll_some ks h3
  rw [spline_segment hf hp i h (by omega)]
  have a := fAll_getElem? hf h3 i (by omega)
  have b := fAll_getElem? hf h3 (i + 1) h
  rw [List.getElem?_eq_getElem (by omega)] at a b
  rw [Option.some.inj a, Option.some.inj b]

theorem knotSlope_zero (ks : List (Knot F)) (h3 : 3 ≤ ks.length) :
    knotSlope ks h3 0 (by omega) = endSlope ks[0] ks[1] (Spline.f_dx ks[0] ks[1] ks[2]) := rfl

theorem knotSlope_mid (ks : List (Knot F)) (h3 : 3 ≤ ks.length) (i : Nat) (h : i + 2 < ks.length) :
    knotSlope ks h3 (i + 1) (by omega) = Spline.f_dx ks[i] ks[i + 1] ks[i + 2] := by
  simp only [knotSlope]; rw [dif_neg (by omega)]

theorem knotSlope_last (ks : List (Knot F)) (h3 : 3 ≤ ks.length) (i : Nat) (h : i + 2 = ks.length) :
    knotSlope ks h3 (i + 1) (by omega) =
      endSlope ks[i] ks[i + 1] (Spline.f_dx ks[i - 1] ks[i] ks[i + 1]) := by
  simp only [knotSlope]; rw [dif_pos h]

end structure_

/-! ## (c), (d), (e): the generated program interpreted exactly over an ordered field -/
section exact
variable {K : Type} [Field K] [LinearOrder K] [IsStrictOrderedRing K] [Transc K]
attribute [local instance] exactFL

/-- (c) Hermite conditions of one segment: it ends at `x1`, passes through both knots, and has the
prescribed first derivatives at both ends (derivative = the generated `Poly3::derivative`, evaluated by
the generated `Poly2::evaluate`). -/
theorem segment_hermite (f0 f1 : K) (k0 k1 : Knot K) (h : k0.x ≠ k1.x) :
    (Spline.segment f0 k0 f1 k1).end = k1.x ∧
    Evaluate.evaluate (Spline.segment f0 k0 f1 k1).poly k0.x = k0.y ∧
    Evaluate.evaluate (Spline.segment f0 k0 f1 k1).poly k1.x = k1.y ∧
    Evaluate.evaluate (HasDerivative.derivative (Spline.segment f0 k0 f1 k1).poly) k0.x = f0 ∧
    Evaluate.evaluate (HasDerivative.derivative (Spline.segment f0 k0 f1 k1).poly) k1.x = f1 :=
  ⟨rfl, seg_left f0 f1 k0 k1 h, seg_right f0 f1 k0 k1 h, seg_dleft f0 f1 k0 k1 h, seg_dright f0 f1 k0 k1 h⟩

/-- (e) eq. 7a: `f_dx` is 0 when the adjacent secant slopes differ in sign or one vanishes, and their
harmonic mean otherwise.  No hypothesis on the knots is needed. -/
theorem f_dx_harmonic (k0 k1 k2 : Knot K) :
    let s01 := (k1.y - k0.y) / (k1.x - k0.x)
    let s12 := (k2.y - k1.y) / (k2.x - k1.x)
    Spline.f_dx k0 k1 k2 = if s01 * s12 ≤ 0 then 0 else 2 * s01 * s12 / (s01 + s12) :=
  f_dx_eq k0 k1 k2

/-- (e) the same in the paper's form `2 / (1/s01 + 1/s12)`, for slopes of equal strict sign -/
theorem f_dx_harmonic' (k0 k1 k2 : Knot K)
    (h : 0 < (k1.y - k0.y) / (k1.x - k0.x) * ((k2.y - k1.y) / (k2.x - k1.x))) :
    Spline.f_dx k0 k1 k2 =
      2 / ((k1.x - k0.x) / (k1.y - k0.y) + (k2.x - k1.x) / (k2.y - k1.y)) := by
  exact_simp
  simp only [FloatLike.le, decide_eq_true_eq, if_neg (not_le.mpr h), one_div_div]

/-- (e) eq. 7b / 7c -/
theorem endSlope_formula (ka kb : Knot K) (f : K) :
    Hand.endSlope ka kb f = 3 / 2 * (kb.y - ka.y) / (kb.x - ka.x) - f / 2 :=
  endSlope_eq ka kb f

/-- (d) every cubic of the spline ends at the right abscissa of its interval and passes through both
knots of its interval -/
theorem spline_interpolates {ks : List (Knot K)} {pw : Piecewise K (Poly3 K)}
    (hp : constrainedSpline ks = some pw) (hs : (ks.map Knot.x).Pairwise (· < ·))
    (i : Nat) (h : i + 1 < ks.length) :
    ∃ s, pw.segments[i]? = some s ∧ s.end = ks[i + 1].x ∧
      Evaluate.evaluate s.poly ks[i].x = ks[i].y ∧
      Evaluate.evaluate s.poly ks[i + 1].x = ks[i + 1].y := by
  have h3 : 3 ≤ ks.length := (spline_isSome_iff ks).mp (by rw [hp]; rfl)
  have hx := ne_of_lt (sorted_lt hs i h)
  exact ⟨_, spline_segment' hp h3 i h, rfl, seg_left _ _ _ _ hx, seg_right _ _ _ _ hx⟩

/-- (d) C¹ at every interior knot `i+1`: the cubic on its left and the cubic on its right have the
same first derivative there, namely `f_dx` of the three surrounding knots -/
theorem spline_C1 {ks : List (Knot K)} {pw : Piecewise K (Poly3 K)}
    (hp : constrainedSpline ks = some pw) (hs : (ks.map Knot.x).Pairwise (· < ·))
    (i : Nat) (h : i + 2 < ks.length) :
    ∃ sl sr, pw.segments[i]? = some sl ∧ pw.segments[i + 1]? = some sr ∧
      Evaluate.evaluate (HasDerivative.derivative sl.poly) ks[i + 1].x
        = Spline.f_dx ks[i] ks[i + 1] ks[i + 2] ∧
      Evaluate.evaluate (HasDerivative.derivative sr.poly) ks[i + 1].x
        = Spline.f_dx ks[i] ks[i + 1] ks[i + 2] := by
  have h3 : 3 ≤ ks.length := by omega
  have hx := ne_of_lt (sorted_lt hs i (by omega))
  have hx' := ne_of_lt (sorted_lt hs (i + 1) h)
  refine ⟨_, _, spline_segment' hp h3 i (by omega), spline_segment' hp h3 (i + 1) h, ?_, ?_⟩
  · rw [seg_dright _ _ _ _ hx, knotSlope_mid ks h3 i h]
  · rw [seg_dleft _ _ _ _ hx', knotSlope_mid ks h3 i h]

/-- (d) eq. 7b at the first knot, stated on the curve itself: the slope of the first cubic at `x₀` is
3/2 of the first secant slope minus half its slope at `x₁` -/
theorem spline_first_slope {ks : List (Knot K)} {pw : Piecewise K (Poly3 K)}
    (hp : constrainedSpline ks = some pw) (hs : (ks.map Knot.x).Pairwise (· < ·)) (h3 : 3 ≤ ks.length) :
    ∃ s, pw.segments[0]? = some s ∧
      Evaluate.evaluate (HasDerivative.derivative s.poly) ks[0].x =
        (3 / 2 : K) * (ks[1].y - ks[0].y) / (ks[1].x - ks[0].x)
          - Evaluate.evaluate (HasDerivative.derivative s.poly) ks[1].x / 2 := by
  have hx := ne_of_lt (sorted_lt hs 0 (by omega))
  refine ⟨_, spline_segment' hp h3 0 (by omega), ?_⟩
  rw [seg_dleft _ _ _ _ hx, seg_dright _ _ _ _ hx, knotSlope_mid ks h3 0 (by omega), knotSlope_zero,
    endSlope_eq]

/-- (d) eq. 7c at the last knot `n`, on the curve itself (`m = n-1`) -/
theorem spline_last_slope {ks : List (Knot K)} {pw : Piecewise K (Poly3 K)}
    (hp : constrainedSpline ks = some pw) (hs : (ks.map Knot.x).Pairwise (· < ·))
    (m : Nat) (hm : m + 2 = ks.length) (h3 : 3 ≤ ks.length) :
    ∃ s, pw.segments[m]? = some s ∧
      Evaluate.evaluate (HasDerivative.derivative s.poly) ks[m + 1].x =
        (3 / 2 : K) * (ks[m + 1].y - ks[m].y) / (ks[m + 1].x - ks[m].x)
          - Evaluate.evaluate (HasDerivative.derivative s.poly) ks[m].x / 2 := by
  have hx := ne_of_lt (sorted_lt hs m (by omega))
  refine ⟨_, spline_segment' hp h3 m (by omega), ?_⟩
  rw [seg_dleft _ _ _ _ hx, seg_dright _ _ _ _ hx, knotSlope_last ks h3 m hm, endSlope_eq]
  obtain ⟨j, rfl⟩ : ∃ j, m = j + 1 := ⟨m - 1, by omega⟩
  rw [knotSlope_mid ks h3 j (by omega)]
  rfl

end exact

/-! ## non-vacuity: a concrete non-trivial instance over ℚ (rising, rising, falling) -/
section example_
noncomputable local instance : Transc ℚ := ⟨fun x => x, fun x => x⟩
attribute [local instance] exactFL

/-- four knots, strictly increasing abscissae, data turning at the third knot -/
def exKnots : List (Knot ℚ) := [⟨0, 0⟩, ⟨1, 1⟩, ⟨3, 2⟩, ⟨4, 0⟩]

theorem exKnots_sorted : (exKnots.map Knot.x).Pairwise (· < ·) := by
  simp [exKnots]; norm_num

/-- hypotheses of `spline_interpolates`, `spline_C1`, `spline_first_slope`, `spline_last_slope` -/
example : ∃ pw, constrainedSpline exKnots = some pw ∧ (exKnots.map Knot.x).Pairwise (· < ·) ∧
    1 + 2 < exKnots.length ∧ 2 + 2 = exKnots.length :=
  (spline_structure exKnots (by decide)).imp fun _ h => ⟨h.1, exKnots_sorted, by decide, by decide⟩
/-- `segment_hermite` -/
example : (⟨0, 0⟩ : Knot ℚ).x ≠ (⟨1, 1⟩ : Knot ℚ).x := by norm_num
/-- the interior slopes of the instance: harmonic mean of 1 and 1/2, and 0 where the data turn -/
example : Spline.f_dx (⟨0, 0⟩ : Knot ℚ) ⟨1, 1⟩ ⟨3, 2⟩ = 2 / 3 := by rw [f_dx_eq]; norm_num [secant]
example : Spline.f_dx (⟨1, 1⟩ : Knot ℚ) ⟨3, 2⟩ ⟨4, 0⟩ = 0 := by rw [f_dx_eq]; norm_num [secant]
example : Hand.endSlope (⟨0, 0⟩ : Knot ℚ) ⟨1, 1⟩ (2 / 3) = 7 / 6 := by rw [endSlope_eq]; norm_num
/-- `f_dx_harmonic'` -/
example : (0 : ℚ) < ((1 : ℚ) - 0) / (1 - 0) * ((2 - 1) / (3 - 1)) := by norm_num
end example_

end PP.Props.C04
