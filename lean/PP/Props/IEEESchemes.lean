import PP.Props.IEEE
/-!
# Scheme-specific corollaries of the IEEE suite (AUXILIARY: not among the obligations of any property)

The accumulated side condition `ok` of the P64 run of the cubic, spelled out operation by operation.  It names the
partial terms of the evaluation scheme the source uses today, so a harmless change of scheme changes it; `./check`
reports a failure here as a note, not as a violation.
-/
namespace PP.Props.IEEESchemes
open F64 (val Finite Canon Normal rnd64 InRange one two)
open PP.Props.IEEE
variable (ln exp : F64 → F64) [Transc ℚ]

/-! ### the accumulated side condition of the cubic, spelled out -/

/-- all inputs finite and canonical, and the exact result of each of the four operations of the generated
scheme (`x·x`, `c₁x+c₀`, `c₃x+c₂`, `t₁·x₂+t₀` on the rounded intermediates) is `0` or in the normal range -/
def _root_.Poly3.Ok64 (p : Poly3 F64) (x : F64) : Prop :=
  (x.Finite ∧ x.Canon) ∧ (p._0.a0.Finite ∧ p._0.a0.Canon) ∧ (p._0.a1.Finite ∧ p._0.a1.Canon) ∧
  (p._0.a2.Finite ∧ p._0.a2.Canon) ∧ (p._0.a3.Finite ∧ p._0.a3.Canon) ∧
  InRange (x.val * x.val) ∧
  InRange (p._0.a1.val * x.val + p._0.a0.val) ∧
  InRange (p._0.a3.val * x.val + p._0.a2.val) ∧
  InRange (rnd64 (p._0.a3.val * x.val + p._0.a2.val) * rnd64 (x.val * x.val)
    + rnd64 (p._0.a1.val * x.val + p._0.a0.val))

theorem poly3_ok_iff (p : Poly3 F64) (x : F64) : (p.p64Run ln exp x).ok ↔ p.Ok64 x := by
  show ((((p._0.a3.Finite ∧ p._0.a3.Canon) ∧ (x.Finite ∧ x.Canon) ∧ (p._0.a2.Finite ∧ p._0.a2.Canon) ∧
          InRange (p._0.a3.val * x.val + p._0.a2.val)) ∧
        ((x.Finite ∧ x.Canon) ∧ (x.Finite ∧ x.Canon) ∧ InRange (x.val * x.val)) ∧
        ((p._0.a1.Finite ∧ p._0.a1.Canon) ∧ (x.Finite ∧ x.Canon) ∧ (p._0.a0.Finite ∧ p._0.a0.Canon) ∧
          InRange (p._0.a1.val * x.val + p._0.a0.val)) ∧
        InRange (rnd64 (p._0.a3.val * x.val + p._0.a2.val) * rnd64 (x.val * x.val)
          + rnd64 (p._0.a1.val * x.val + p._0.a0.val)))) ↔ _
  unfold Poly3.Ok64
  tauto


/-- the cubic with the side condition spelled out (`Poly3.Ok64`, `PP/Sem/Pair64.lean`) -/
theorem poly3_f64_bound_explicit (p : Poly3 F64) (x : F64) (hok : p.Ok64 x) :
    |(p.f64Run ln exp x).val - (p._0.a0.val + p._0.a1.val * x.val + p._0.a2.val * x.val ^ 2 + p._0.a3.val * x.val ^ 3)|
      ≤ 4 * (3 + 2) * (2 : ℚ) ^ (-53 : ℤ) *
        (|p._0.a0.val| + |p._0.a1.val| * |x.val| + |p._0.a2.val| * |x.val| ^ 2 + |p._0.a3.val| * |x.val| ^ 3) :=
  (poly3_f64_bound ln exp p x ((poly3_ok_iff ln exp p x).mpr hok)).2.2

/-- the hypotheses of the headline theorems are satisfiable by a concrete instance:
`5x³ + 3x² − 2x + 1` at `x = 3` (all partial results are integers below `2^53`) -/
example : (⟨⟨F64.ofDec 1 0, F64.ofDec (-2) 0, F64.ofDec 3 0, F64.ofDec 5 0⟩⟩ : Poly3 F64).Ok64 (F64.ofDec 3 0) := by
  have h1 := F64.val_ofDec_int 1 (by decide)
  have h2 := F64.val_ofDec_int (-2) (by decide)
  have h3 := F64.val_ofDec_int 3 (by decide)
  have h5 := F64.val_ofDec_int 5 (by decide)
  have r : ∀ (n : ℤ), n.natAbs ≤ 2 ^ 53 → ∀ t : ℚ, t = n → InRange t := fun n hn t ht => ht ▸ F64.inRange_int n hn
  have f : ∀ (n : ℤ), n.natAbs ≤ 2 ^ 53 → ∀ t : ℚ, t = n → rnd64 t = t := fun n hn t ht => ht ▸ F64.rnd64_int n hn
  refine ⟨⟨h3.1, h3.2.1⟩, ⟨h1.1, h1.2.1⟩, ⟨h2.1, h2.2.1⟩, ⟨h3.1, h3.2.1⟩, ⟨h5.1, h5.2.1⟩, ?_, ?_, ?_, ?_⟩
  · rw [h3.2.2]; exact r 9 (by decide) _ (by norm_num)
  · rw [h3.2.2, h2.2.2, h1.2.2]; exact r (-5) (by decide) _ (by norm_num)
  · rw [h3.2.2, h5.2.2]; exact r 18 (by decide) _ (by norm_num)
  · rw [h3.2.2, h5.2.2, h2.2.2, h1.2.2, f 18 (by decide) _ (by norm_num), f 9 (by decide) _ (by norm_num),
      f (-5) (by decide) _ (by norm_num)]
    exact r 157 (by decide) _ (by norm_num)


end PP.Props.IEEESchemes
