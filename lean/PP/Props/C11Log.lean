import PP.Props.C11
import PP.Props.C09
/-!
# C11 for log-polynomial pieces of EVERY degree (`Log<Poly0> … Log<Poly8>`), over ℝ with ln = Real.log

`PP/Props/C11.lean` proves the piecewise FTC `pwIntegral_ftc` from the bundle `GoodPieces D T I` and instantiates it for
`Log<Poly1>`.  Here the bundle is discharged for every degree k ∈ {0,1,2,3,5,6,7,8} from the piece-level theorems of
`PP/Props/C09.lean` (`logpolyK_indefinite_hasDerivAt`, `log_continuousOn`), giving for `k0.x > 0`, `t > 0`

  `pwEvaluate (pwIntegral p k0) t = some (k0.y + ∫ x in k0.x..t, f x)`        (`pwIntegral_ftc_logPolyK`)

and the `indefinite()` companion (`pwIndefinite_ftc_logPolyK`).

The theorems are stated, like `pwIntegral_ftc_logPoly1`, for an arbitrary `[Transc ℝ]` with the hypothesis
`hln : Transc.ln = Real.log` (`exp` is irrelevant for k ≠ 4).  C09 is stated for the instance `⟨Real.log, Real.exp⟩`;
the two agree after rewriting `Transc.ln` (lemmas `log_eval`, `intOfLog_eval`), the rest is definitional unfolding.

**Degree 4** (`IntOfLogPoly4`, section `deg4`).  The exact statement is FALSE when the evaluation point is inside the
Taylor window −1.72 < ln t < 1.71 (`pwIntegral_ftc_logPoly4_false`, from `C09.logpoly4_not_antiderivative`): there the
generated evaluation is a degree-20 truncation and its derivative is p(ln t) + u(ln t)²⁰/20!.  What is true, and
proved: if `k0.x`, the evaluation point `t` and every breakpoint `≤ t` are `Far` (ln ≥ 1.71 or ln ≤ −1.72) the exact
formula holds — the path of integration MAY cross the window (`pwIntegral_ftc_logPoly4_far`); here `exp = Real.exp`
is needed as well.  (Inside the window the defect is the truncation error bounded by C10.)
-/
set_option linter.unusedSectionVars false
namespace PP.Props.C11Log
open FloatLike Hand PP.Lemmas.LinInt Set

section logs
variable [Transc ℝ]
attribute [local instance] exactFL

/-- `Log<T>::evaluate` is `p(ln x)` -/
theorem log_eval {T : Type} [Evaluate T ℝ] (hln : (Transc.ln : ℝ → ℝ) = Real.log) (t : Log T) (x : ℝ) :
    Evaluate.evaluate t x = Evaluate.evaluate t._0 (Real.log x) := by
  show Evaluate.evaluate t._0 (Transc.ln x) = _
  rw [hln]

/-- `IntOfLog<T>::evaluate` is `v·Q(ln v) + k` -/
theorem intOfLog_eval {T : Type} [Evaluate T ℝ] (hln : (Transc.ln : ℝ → ℝ) = Real.log)
    (q : IntOfLog ℝ T) (v : ℝ) :
    Evaluate.evaluate q v = v * Evaluate.evaluate q.poly (Real.log v) + q.k := by
  show v * Evaluate.evaluate q.poly (Transc.ln v) + q.k = _
  rw [hln]

/-! ## degree 0 -/

/-- every `Log<Poly0>` piece is continuous on (0,∞) -/
theorem logPoly0_continuousOn (hln : (Transc.ln : ℝ → ℝ) = Real.log) :
    PiecesContinuousOn (Ioi 0) (Log (Poly0 ℝ)) := by
  intro t
  rw [funext (log_eval hln t)]
  exact PP.Props.C09.log_continuousOn t._0 (PP.Lemmas.Calculus.poly0_continuous t._0)

/-- `indefinite` of a `Log<Poly0>` piece is an antiderivative on (0,∞) (C09, degree 0) -/
theorem logPoly0_antideriv (hln : (Transc.ln : ℝ → ℝ) = Real.log) :
    PiecesAntiderivOn (Ioi 0) (Log (Poly0 ℝ)) (IntOfLog ℝ (Poly0 ℝ)) := by
  intro t x hx
  rw [funext (intOfLog_eval hln _), log_eval hln]
  exact PP.Props.C09.logpoly0_indefinite_hasDerivAt t._0 x hx

theorem goodPieces_logPoly0 (hln : (Transc.ln : ℝ → ℝ) = Real.log) :
    GoodPieces (Ioi 0) (Log (Poly0 ℝ)) (IntOfLog ℝ (Poly0 ℝ)) :=
  ⟨ordConnected_Ioi, translateAdds_intOfLog, logPoly0_continuousOn hln, logPoly0_antideriv hln⟩

/-- **C11 for `Log<Poly0>` pieces**: `F(t) = k0.y + ∫_{k0.x}^t f` for all `k0.x > 0`, `t > 0` -/
theorem pwIntegral_ftc_logPoly0 (hln : (Transc.ln : ℝ → ℝ) = Real.log)
    (p : Piecewise ℝ (Log (Poly0 ℝ))) (k0 : Knot ℝ) (hne : p.segments ≠ [])
    (hsorted : p.segments.Pairwise (fun a b => a.end ≤ b.end))
    (hk : ∀ s ∈ p.segments.head?, k0.x ≤ s.end) (t : ℝ) (hk0 : 0 < k0.x) (ht : 0 < t) :
    pwEvaluate (pwIntegral p k0 : Piecewise ℝ (IntOfLog ℝ (Poly0 ℝ))) t =
      some (k0.y + ∫ x in k0.x..t, (pwEvaluate p x).getD 0) :=
  PP.Props.C11.pwIntegral_ftc (goodPieces_logPoly0 hln) p k0 hne hsorted hk t hk0 ht

/-- `indefinite()` for `Log<Poly0>` pieces: `F(t) = G(a) + ∫_a^t f`, `G` the plain indefinite integral of the first
piece, `0 < a ≤` first breakpoint, `t > 0` -/
theorem pwIndefinite_ftc_logPoly0 (hln : (Transc.ln : ℝ → ℝ) = Real.log)
    (s : Segment ℝ (Log (Poly0 ℝ))) (rest : List (Segment ℝ (Log (Poly0 ℝ))))
    (hsorted : (s :: rest).Pairwise (fun a b => a.end ≤ b.end)) (a : ℝ) (ha : a ≤ s.end) (t : ℝ)
    (ha0 : 0 < a) (ht : 0 < t) :
    pwEvaluate (pwIndefinite ⟨s :: rest⟩ : Piecewise ℝ (IntOfLog ℝ (Poly0 ℝ))) t =
      some (Evaluate.evaluate (HasIntegral.indefinite s.poly : IntOfLog ℝ (Poly0 ℝ)) a
        + ∫ x in a..t, (pwEvaluate ⟨s :: rest⟩ x).getD 0) :=
  PP.Props.C11.pwIndefinite_ftc (goodPieces_logPoly0 hln) s rest hsorted a ha t ha0 ht

/-! ## degree 1 -/

/-- every `Log<Poly1>` piece is continuous on (0,∞) -/
theorem logPoly1_continuousOn (hln : (Transc.ln : ℝ → ℝ) = Real.log) :
    PiecesContinuousOn (Ioi 0) (Log (Poly1 ℝ)) := by
  intro t
  rw [funext (log_eval hln t)]
  exact PP.Props.C09.log_continuousOn t._0 (PP.Lemmas.Calculus.poly1_continuous t._0)

/-- `indefinite` of a `Log<Poly1>` piece is an antiderivative on (0,∞) (C09, degree 1) -/
theorem logPoly1_antideriv (hln : (Transc.ln : ℝ → ℝ) = Real.log) :
    PiecesAntiderivOn (Ioi 0) (Log (Poly1 ℝ)) (IntOfLog ℝ (Poly1 ℝ)) := by
  intro t x hx
  rw [funext (intOfLog_eval hln _), log_eval hln]
  exact PP.Props.C09.logpoly1_indefinite_hasDerivAt t._0 x hx

theorem goodPieces_logPoly1 (hln : (Transc.ln : ℝ → ℝ) = Real.log) :
    GoodPieces (Ioi 0) (Log (Poly1 ℝ)) (IntOfLog ℝ (Poly1 ℝ)) :=
  ⟨ordConnected_Ioi, translateAdds_intOfLog, logPoly1_continuousOn hln, logPoly1_antideriv hln⟩

/-- **C11 for `Log<Poly1>` pieces**: `F(t) = k0.y + ∫_{k0.x}^t f` for all `k0.x > 0`, `t > 0` -/
theorem pwIntegral_ftc_logPoly1 (hln : (Transc.ln : ℝ → ℝ) = Real.log)
    (p : Piecewise ℝ (Log (Poly1 ℝ))) (k0 : Knot ℝ) (hne : p.segments ≠ [])
    (hsorted : p.segments.Pairwise (fun a b => a.end ≤ b.end))
    (hk : ∀ s ∈ p.segments.head?, k0.x ≤ s.end) (t : ℝ) (hk0 : 0 < k0.x) (ht : 0 < t) :
    pwEvaluate (pwIntegral p k0 : Piecewise ℝ (IntOfLog ℝ (Poly1 ℝ))) t =
      some (k0.y + ∫ x in k0.x..t, (pwEvaluate p x).getD 0) :=
  PP.Props.C11.pwIntegral_ftc (goodPieces_logPoly1 hln) p k0 hne hsorted hk t hk0 ht

/-- `indefinite()` for `Log<Poly1>` pieces: `F(t) = G(a) + ∫_a^t f`, `G` the plain indefinite integral of the first
piece, `0 < a ≤` first breakpoint, `t > 0` -/
theorem pwIndefinite_ftc_logPoly1 (hln : (Transc.ln : ℝ → ℝ) = Real.log)
    (s : Segment ℝ (Log (Poly1 ℝ))) (rest : List (Segment ℝ (Log (Poly1 ℝ))))
    (hsorted : (s :: rest).Pairwise (fun a b => a.end ≤ b.end)) (a : ℝ) (ha : a ≤ s.end) (t : ℝ)
    (ha0 : 0 < a) (ht : 0 < t) :
    pwEvaluate (pwIndefinite ⟨s :: rest⟩ : Piecewise ℝ (IntOfLog ℝ (Poly1 ℝ))) t =
      some (Evaluate.evaluate (HasIntegral.indefinite s.poly : IntOfLog ℝ (Poly1 ℝ)) a
        + ∫ x in a..t, (pwEvaluate ⟨s :: rest⟩ x).getD 0) :=
  PP.Props.C11.pwIndefinite_ftc (goodPieces_logPoly1 hln) s rest hsorted a ha t ha0 ht

/-! ## degree 2 -/

/-- every `Log<Poly2>` piece is continuous on (0,∞) -/
theorem logPoly2_continuousOn (hln : (Transc.ln : ℝ → ℝ) = Real.log) :
    PiecesContinuousOn (Ioi 0) (Log (Poly2 ℝ)) := by
  intro t
  rw [funext (log_eval hln t)]
  exact PP.Props.C09.log_continuousOn t._0 (PP.Lemmas.Calculus.poly2_continuous t._0)

/-- `indefinite` of a `Log<Poly2>` piece is an antiderivative on (0,∞) (C09, degree 2) -/
theorem logPoly2_antideriv (hln : (Transc.ln : ℝ → ℝ) = Real.log) :
    PiecesAntiderivOn (Ioi 0) (Log (Poly2 ℝ)) (IntOfLog ℝ (Poly2 ℝ)) := by
  intro t x hx
  rw [funext (intOfLog_eval hln _), log_eval hln]
  exact PP.Props.C09.logpoly2_indefinite_hasDerivAt t._0 x hx

theorem goodPieces_logPoly2 (hln : (Transc.ln : ℝ → ℝ) = Real.log) :
    GoodPieces (Ioi 0) (Log (Poly2 ℝ)) (IntOfLog ℝ (Poly2 ℝ)) :=
  ⟨ordConnected_Ioi, translateAdds_intOfLog, logPoly2_continuousOn hln, logPoly2_antideriv hln⟩

/-- **C11 for `Log<Poly2>` pieces**: `F(t) = k0.y + ∫_{k0.x}^t f` for all `k0.x > 0`, `t > 0` -/
theorem pwIntegral_ftc_logPoly2 (hln : (Transc.ln : ℝ → ℝ) = Real.log)
    (p : Piecewise ℝ (Log (Poly2 ℝ))) (k0 : Knot ℝ) (hne : p.segments ≠ [])
    (hsorted : p.segments.Pairwise (fun a b => a.end ≤ b.end))
    (hk : ∀ s ∈ p.segments.head?, k0.x ≤ s.end) (t : ℝ) (hk0 : 0 < k0.x) (ht : 0 < t) :
    pwEvaluate (pwIntegral p k0 : Piecewise ℝ (IntOfLog ℝ (Poly2 ℝ))) t =
      some (k0.y + ∫ x in k0.x..t, (pwEvaluate p x).getD 0) :=
  PP.Props.C11.pwIntegral_ftc (goodPieces_logPoly2 hln) p k0 hne hsorted hk t hk0 ht

/-- `indefinite()` for `Log<Poly2>` pieces: `F(t) = G(a) + ∫_a^t f`, `G` the plain indefinite integral of the first
piece, `0 < a ≤` first breakpoint, `t > 0` -/
theorem pwIndefinite_ftc_logPoly2 (hln : (Transc.ln : ℝ → ℝ) = Real.log)
    (s : Segment ℝ (Log (Poly2 ℝ))) (rest : List (Segment ℝ (Log (Poly2 ℝ))))
    (hsorted : (s :: rest).Pairwise (fun a b => a.end ≤ b.end)) (a : ℝ) (ha : a ≤ s.end) (t : ℝ)
    (ha0 : 0 < a) (ht : 0 < t) :
    pwEvaluate (pwIndefinite ⟨s :: rest⟩ : Piecewise ℝ (IntOfLog ℝ (Poly2 ℝ))) t =
      some (Evaluate.evaluate (HasIntegral.indefinite s.poly : IntOfLog ℝ (Poly2 ℝ)) a
        + ∫ x in a..t, (pwEvaluate ⟨s :: rest⟩ x).getD 0) :=
  PP.Props.C11.pwIndefinite_ftc (goodPieces_logPoly2 hln) s rest hsorted a ha t ha0 ht

/-! ## degree 3 -/

/-- every `Log<Poly3>` piece is continuous on (0,∞) -/
theorem logPoly3_continuousOn (hln : (Transc.ln : ℝ → ℝ) = Real.log) :
    PiecesContinuousOn (Ioi 0) (Log (Poly3 ℝ)) := by
  intro t
  rw [funext (log_eval hln t)]
  exact PP.Props.C09.log_continuousOn t._0 (PP.Lemmas.Calculus.poly3_continuous t._0)

/-- `indefinite` of a `Log<Poly3>` piece is an antiderivative on (0,∞) (C09, degree 3) -/
theorem logPoly3_antideriv (hln : (Transc.ln : ℝ → ℝ) = Real.log) :
    PiecesAntiderivOn (Ioi 0) (Log (Poly3 ℝ)) (IntOfLog ℝ (Poly3 ℝ)) := by
  intro t x hx
  rw [funext (intOfLog_eval hln _), log_eval hln]
  exact PP.Props.C09.logpoly3_indefinite_hasDerivAt t._0 x hx

theorem goodPieces_logPoly3 (hln : (Transc.ln : ℝ → ℝ) = Real.log) :
    GoodPieces (Ioi 0) (Log (Poly3 ℝ)) (IntOfLog ℝ (Poly3 ℝ)) :=
  ⟨ordConnected_Ioi, translateAdds_intOfLog, logPoly3_continuousOn hln, logPoly3_antideriv hln⟩

/-- **C11 for `Log<Poly3>` pieces**: `F(t) = k0.y + ∫_{k0.x}^t f` for all `k0.x > 0`, `t > 0` -/
theorem pwIntegral_ftc_logPoly3 (hln : (Transc.ln : ℝ → ℝ) = Real.log)
    (p : Piecewise ℝ (Log (Poly3 ℝ))) (k0 : Knot ℝ) (hne : p.segments ≠ [])
    (hsorted : p.segments.Pairwise (fun a b => a.end ≤ b.end))
    (hk : ∀ s ∈ p.segments.head?, k0.x ≤ s.end) (t : ℝ) (hk0 : 0 < k0.x) (ht : 0 < t) :
    pwEvaluate (pwIntegral p k0 : Piecewise ℝ (IntOfLog ℝ (Poly3 ℝ))) t =
      some (k0.y + ∫ x in k0.x..t, (pwEvaluate p x).getD 0) :=
  PP.Props.C11.pwIntegral_ftc (goodPieces_logPoly3 hln) p k0 hne hsorted hk t hk0 ht

/-- `indefinite()` for `Log<Poly3>` pieces: `F(t) = G(a) + ∫_a^t f`, `G` the plain indefinite integral of the first
piece, `0 < a ≤` first breakpoint, `t > 0` -/
theorem pwIndefinite_ftc_logPoly3 (hln : (Transc.ln : ℝ → ℝ) = Real.log)
    (s : Segment ℝ (Log (Poly3 ℝ))) (rest : List (Segment ℝ (Log (Poly3 ℝ))))
    (hsorted : (s :: rest).Pairwise (fun a b => a.end ≤ b.end)) (a : ℝ) (ha : a ≤ s.end) (t : ℝ)
    (ha0 : 0 < a) (ht : 0 < t) :
    pwEvaluate (pwIndefinite ⟨s :: rest⟩ : Piecewise ℝ (IntOfLog ℝ (Poly3 ℝ))) t =
      some (Evaluate.evaluate (HasIntegral.indefinite s.poly : IntOfLog ℝ (Poly3 ℝ)) a
        + ∫ x in a..t, (pwEvaluate ⟨s :: rest⟩ x).getD 0) :=
  PP.Props.C11.pwIndefinite_ftc (goodPieces_logPoly3 hln) s rest hsorted a ha t ha0 ht

/-! ## degree 5 -/

/-- every `Log<Poly5>` piece is continuous on (0,∞) -/
theorem logPoly5_continuousOn (hln : (Transc.ln : ℝ → ℝ) = Real.log) :
    PiecesContinuousOn (Ioi 0) (Log (Poly5 ℝ)) := by
  intro t
  rw [funext (log_eval hln t)]
  exact PP.Props.C09.log_continuousOn t._0 (PP.Lemmas.Calculus.poly5_continuous t._0)

/-- `indefinite` of a `Log<Poly5>` piece is an antiderivative on (0,∞) (C09, degree 5) -/
theorem logPoly5_antideriv (hln : (Transc.ln : ℝ → ℝ) = Real.log) :
    PiecesAntiderivOn (Ioi 0) (Log (Poly5 ℝ)) (IntOfLog ℝ (Poly5 ℝ)) := by
  intro t x hx
  rw [funext (intOfLog_eval hln _), log_eval hln]
  exact PP.Props.C09.logpoly5_indefinite_hasDerivAt t._0 x hx

theorem goodPieces_logPoly5 (hln : (Transc.ln : ℝ → ℝ) = Real.log) :
    GoodPieces (Ioi 0) (Log (Poly5 ℝ)) (IntOfLog ℝ (Poly5 ℝ)) :=
  ⟨ordConnected_Ioi, translateAdds_intOfLog, logPoly5_continuousOn hln, logPoly5_antideriv hln⟩

/-- **C11 for `Log<Poly5>` pieces**: `F(t) = k0.y + ∫_{k0.x}^t f` for all `k0.x > 0`, `t > 0` -/
theorem pwIntegral_ftc_logPoly5 (hln : (Transc.ln : ℝ → ℝ) = Real.log)
    (p : Piecewise ℝ (Log (Poly5 ℝ))) (k0 : Knot ℝ) (hne : p.segments ≠ [])
    (hsorted : p.segments.Pairwise (fun a b => a.end ≤ b.end))
    (hk : ∀ s ∈ p.segments.head?, k0.x ≤ s.end) (t : ℝ) (hk0 : 0 < k0.x) (ht : 0 < t) :
    pwEvaluate (pwIntegral p k0 : Piecewise ℝ (IntOfLog ℝ (Poly5 ℝ))) t =
      some (k0.y + ∫ x in k0.x..t, (pwEvaluate p x).getD 0) :=
  PP.Props.C11.pwIntegral_ftc (goodPieces_logPoly5 hln) p k0 hne hsorted hk t hk0 ht

/-- `indefinite()` for `Log<Poly5>` pieces: `F(t) = G(a) + ∫_a^t f`, `G` the plain indefinite integral of the first
piece, `0 < a ≤` first breakpoint, `t > 0` -/
theorem pwIndefinite_ftc_logPoly5 (hln : (Transc.ln : ℝ → ℝ) = Real.log)
    (s : Segment ℝ (Log (Poly5 ℝ))) (rest : List (Segment ℝ (Log (Poly5 ℝ))))
    (hsorted : (s :: rest).Pairwise (fun a b => a.end ≤ b.end)) (a : ℝ) (ha : a ≤ s.end) (t : ℝ)
    (ha0 : 0 < a) (ht : 0 < t) :
    pwEvaluate (pwIndefinite ⟨s :: rest⟩ : Piecewise ℝ (IntOfLog ℝ (Poly5 ℝ))) t =
      some (Evaluate.evaluate (HasIntegral.indefinite s.poly : IntOfLog ℝ (Poly5 ℝ)) a
        + ∫ x in a..t, (pwEvaluate ⟨s :: rest⟩ x).getD 0) :=
  PP.Props.C11.pwIndefinite_ftc (goodPieces_logPoly5 hln) s rest hsorted a ha t ha0 ht

/-! ## degree 6 -/

/-- every `Log<Poly6>` piece is continuous on (0,∞) -/
theorem logPoly6_continuousOn (hln : (Transc.ln : ℝ → ℝ) = Real.log) :
    PiecesContinuousOn (Ioi 0) (Log (Poly6 ℝ)) := by
  intro t
  rw [funext (log_eval hln t)]
  exact PP.Props.C09.log_continuousOn t._0 (PP.Lemmas.Calculus.poly6_continuous t._0)

/-- `indefinite` of a `Log<Poly6>` piece is an antiderivative on (0,∞) (C09, degree 6) -/
theorem logPoly6_antideriv (hln : (Transc.ln : ℝ → ℝ) = Real.log) :
    PiecesAntiderivOn (Ioi 0) (Log (Poly6 ℝ)) (IntOfLog ℝ (Poly6 ℝ)) := by
  intro t x hx
  rw [funext (intOfLog_eval hln _), log_eval hln]
  exact PP.Props.C09.logpoly6_indefinite_hasDerivAt t._0 x hx

theorem goodPieces_logPoly6 (hln : (Transc.ln : ℝ → ℝ) = Real.log) :
    GoodPieces (Ioi 0) (Log (Poly6 ℝ)) (IntOfLog ℝ (Poly6 ℝ)) :=
  ⟨ordConnected_Ioi, translateAdds_intOfLog, logPoly6_continuousOn hln, logPoly6_antideriv hln⟩

/-- **C11 for `Log<Poly6>` pieces**: `F(t) = k0.y + ∫_{k0.x}^t f` for all `k0.x > 0`, `t > 0` -/
theorem pwIntegral_ftc_logPoly6 (hln : (Transc.ln : ℝ → ℝ) = Real.log)
    (p : Piecewise ℝ (Log (Poly6 ℝ))) (k0 : Knot ℝ) (hne : p.segments ≠ [])
    (hsorted : p.segments.Pairwise (fun a b => a.end ≤ b.end))
    (hk : ∀ s ∈ p.segments.head?, k0.x ≤ s.end) (t : ℝ) (hk0 : 0 < k0.x) (ht : 0 < t) :
    pwEvaluate (pwIntegral p k0 : Piecewise ℝ (IntOfLog ℝ (Poly6 ℝ))) t =
      some (k0.y + ∫ x in k0.x..t, (pwEvaluate p x).getD 0) :=
  PP.Props.C11.pwIntegral_ftc (goodPieces_logPoly6 hln) p k0 hne hsorted hk t hk0 ht

/-- `indefinite()` for `Log<Poly6>` pieces: `F(t) = G(a) + ∫_a^t f`, `G` the plain indefinite integral of the first
piece, `0 < a ≤` first breakpoint, `t > 0` -/
theorem pwIndefinite_ftc_logPoly6 (hln : (Transc.ln : ℝ → ℝ) = Real.log)
    (s : Segment ℝ (Log (Poly6 ℝ))) (rest : List (Segment ℝ (Log (Poly6 ℝ))))
    (hsorted : (s :: rest).Pairwise (fun a b => a.end ≤ b.end)) (a : ℝ) (ha : a ≤ s.end) (t : ℝ)
    (ha0 : 0 < a) (ht : 0 < t) :
    pwEvaluate (pwIndefinite ⟨s :: rest⟩ : Piecewise ℝ (IntOfLog ℝ (Poly6 ℝ))) t =
      some (Evaluate.evaluate (HasIntegral.indefinite s.poly : IntOfLog ℝ (Poly6 ℝ)) a
        + ∫ x in a..t, (pwEvaluate ⟨s :: rest⟩ x).getD 0) :=
  PP.Props.C11.pwIndefinite_ftc (goodPieces_logPoly6 hln) s rest hsorted a ha t ha0 ht

/-! ## degree 7 -/

/-- every `Log<Poly7>` piece is continuous on (0,∞) -/
theorem logPoly7_continuousOn (hln : (Transc.ln : ℝ → ℝ) = Real.log) :
    PiecesContinuousOn (Ioi 0) (Log (Poly7 ℝ)) := by
  intro t
  rw [funext (log_eval hln t)]
  exact PP.Props.C09.log_continuousOn t._0 (PP.Lemmas.Calculus.poly7_continuous t._0)

/-- `indefinite` of a `Log<Poly7>` piece is an antiderivative on (0,∞) (C09, degree 7) -/
theorem logPoly7_antideriv (hln : (Transc.ln : ℝ → ℝ) = Real.log) :
    PiecesAntiderivOn (Ioi 0) (Log (Poly7 ℝ)) (IntOfLog ℝ (Poly7 ℝ)) := by
  intro t x hx
  rw [funext (intOfLog_eval hln _), log_eval hln]
  exact PP.Props.C09.logpoly7_indefinite_hasDerivAt t._0 x hx

theorem goodPieces_logPoly7 (hln : (Transc.ln : ℝ → ℝ) = Real.log) :
    GoodPieces (Ioi 0) (Log (Poly7 ℝ)) (IntOfLog ℝ (Poly7 ℝ)) :=
  ⟨ordConnected_Ioi, translateAdds_intOfLog, logPoly7_continuousOn hln, logPoly7_antideriv hln⟩

/-- **C11 for `Log<Poly7>` pieces**: `F(t) = k0.y + ∫_{k0.x}^t f` for all `k0.x > 0`, `t > 0` -/
theorem pwIntegral_ftc_logPoly7 (hln : (Transc.ln : ℝ → ℝ) = Real.log)
    (p : Piecewise ℝ (Log (Poly7 ℝ))) (k0 : Knot ℝ) (hne : p.segments ≠ [])
    (hsorted : p.segments.Pairwise (fun a b => a.end ≤ b.end))
    (hk : ∀ s ∈ p.segments.head?, k0.x ≤ s.end) (t : ℝ) (hk0 : 0 < k0.x) (ht : 0 < t) :
    pwEvaluate (pwIntegral p k0 : Piecewise ℝ (IntOfLog ℝ (Poly7 ℝ))) t =
      some (k0.y + ∫ x in k0.x..t, (pwEvaluate p x).getD 0) :=
  PP.Props.C11.pwIntegral_ftc (goodPieces_logPoly7 hln) p k0 hne hsorted hk t hk0 ht

/-- `indefinite()` for `Log<Poly7>` pieces: `F(t) = G(a) + ∫_a^t f`, `G` the plain indefinite integral of the first
piece, `0 < a ≤` first breakpoint, `t > 0` -/
theorem pwIndefinite_ftc_logPoly7 (hln : (Transc.ln : ℝ → ℝ) = Real.log)
    (s : Segment ℝ (Log (Poly7 ℝ))) (rest : List (Segment ℝ (Log (Poly7 ℝ))))
    (hsorted : (s :: rest).Pairwise (fun a b => a.end ≤ b.end)) (a : ℝ) (ha : a ≤ s.end) (t : ℝ)
    (ha0 : 0 < a) (ht : 0 < t) :
    pwEvaluate (pwIndefinite ⟨s :: rest⟩ : Piecewise ℝ (IntOfLog ℝ (Poly7 ℝ))) t =
      some (Evaluate.evaluate (HasIntegral.indefinite s.poly : IntOfLog ℝ (Poly7 ℝ)) a
        + ∫ x in a..t, (pwEvaluate ⟨s :: rest⟩ x).getD 0) :=
  PP.Props.C11.pwIndefinite_ftc (goodPieces_logPoly7 hln) s rest hsorted a ha t ha0 ht

/-! ## degree 8 -/

/-- every `Log<Poly8>` piece is continuous on (0,∞) -/
theorem logPoly8_continuousOn (hln : (Transc.ln : ℝ → ℝ) = Real.log) :
    PiecesContinuousOn (Ioi 0) (Log (Poly8 ℝ)) := by
  intro t
  rw [funext (log_eval hln t)]
  exact PP.Props.C09.log_continuousOn t._0 (PP.Lemmas.Calculus.poly8_continuous t._0)

/-- `indefinite` of a `Log<Poly8>` piece is an antiderivative on (0,∞) (C09, degree 8) -/
theorem logPoly8_antideriv (hln : (Transc.ln : ℝ → ℝ) = Real.log) :
    PiecesAntiderivOn (Ioi 0) (Log (Poly8 ℝ)) (IntOfLog ℝ (Poly8 ℝ)) := by
  intro t x hx
  rw [funext (intOfLog_eval hln _), log_eval hln]
  exact PP.Props.C09.logpoly8_indefinite_hasDerivAt t._0 x hx

theorem goodPieces_logPoly8 (hln : (Transc.ln : ℝ → ℝ) = Real.log) :
    GoodPieces (Ioi 0) (Log (Poly8 ℝ)) (IntOfLog ℝ (Poly8 ℝ)) :=
  ⟨ordConnected_Ioi, translateAdds_intOfLog, logPoly8_continuousOn hln, logPoly8_antideriv hln⟩

/-- **C11 for `Log<Poly8>` pieces**: `F(t) = k0.y + ∫_{k0.x}^t f` for all `k0.x > 0`, `t > 0` -/
theorem pwIntegral_ftc_logPoly8 (hln : (Transc.ln : ℝ → ℝ) = Real.log)
    (p : Piecewise ℝ (Log (Poly8 ℝ))) (k0 : Knot ℝ) (hne : p.segments ≠ [])
    (hsorted : p.segments.Pairwise (fun a b => a.end ≤ b.end))
    (hk : ∀ s ∈ p.segments.head?, k0.x ≤ s.end) (t : ℝ) (hk0 : 0 < k0.x) (ht : 0 < t) :
    pwEvaluate (pwIntegral p k0 : Piecewise ℝ (IntOfLog ℝ (Poly8 ℝ))) t =
      some (k0.y + ∫ x in k0.x..t, (pwEvaluate p x).getD 0) :=
  PP.Props.C11.pwIntegral_ftc (goodPieces_logPoly8 hln) p k0 hne hsorted hk t hk0 ht

/-- `indefinite()` for `Log<Poly8>` pieces: `F(t) = G(a) + ∫_a^t f`, `G` the plain indefinite integral of the first
piece, `0 < a ≤` first breakpoint, `t > 0` -/
theorem pwIndefinite_ftc_logPoly8 (hln : (Transc.ln : ℝ → ℝ) = Real.log)
    (s : Segment ℝ (Log (Poly8 ℝ))) (rest : List (Segment ℝ (Log (Poly8 ℝ))))
    (hsorted : (s :: rest).Pairwise (fun a b => a.end ≤ b.end)) (a : ℝ) (ha : a ≤ s.end) (t : ℝ)
    (ha0 : 0 < a) (ht : 0 < t) :
    pwEvaluate (pwIndefinite ⟨s :: rest⟩ : Piecewise ℝ (IntOfLog ℝ (Poly8 ℝ))) t =
      some (Evaluate.evaluate (HasIntegral.indefinite s.poly : IntOfLog ℝ (Poly8 ℝ)) a
        + ∫ x in a..t, (pwEvaluate ⟨s :: rest⟩ x).getD 0) :=
  PP.Props.C11.pwIndefinite_ftc (goodPieces_logPoly8 hln) s rest hsorted a ha t ha0 ht

end logs

/-! ## degree 4 (`IntOfLogPoly4`): exact outside the Taylor window -/
section deg4
open PP.Props.C09

section core
attribute [local instance] PP.Props.C09.realTransc exactFL

theorem logPoly4_continuousOn_real : PiecesContinuousOn (Ioi 0) (Log (Poly4 ℝ)) := fun t =>
  PP.Props.C09.log_continuousOn t._0 (PP.Lemmas.Calculus.poly4_continuous t._0)

/-- one piece, `Far` end points: `integral s k` evaluates to `k.y + ∫_{k.x}^t s` (the path may cross the window) -/
theorem seg_integral_ftc_far (s : Segment ℝ (Log (Poly4 ℝ))) (k : Knot ℝ) (t : ℝ) (hk : 0 < k.x) (ht : 0 < t)
    (hfk : Far k.x) (hft : Far t) :
    Evaluate.evaluate (HasIntegral.integral s k : Segment ℝ (IntOfLogPoly4 ℝ)).poly t =
      k.y + ∫ x in k.x..t, Evaluate.evaluate s.poly x := by
  rw [seg_integral_eval translateAdds_intOfLogPoly4]
  have h := logpoly4_indefinite_ftc_far s.poly._0 k.x t hk ht hfk hft
  rw [← h]; ring

/-- FTC along `integralIter` for `Log<Poly4>` pieces when the knot, the evaluation point and every breakpoint
`≤ t` are outside the Taylor window -/
theorem integralIter_ftc_far (s : Segment ℝ (Log (Poly4 ℝ))) (rest : List (Segment ℝ (Log (Poly4 ℝ)))) (k : Knot ℝ)
    (hs : (s :: rest).Pairwise (fun a b => a.end ≤ b.end)) (hk : k.x ≤ s.end) (t : ℝ)
    (hk0 : 0 < k.x) (ht0 : 0 < t) (hfk : Far k.x) (hft : Far t)
    (hfe : ∀ s' ∈ s :: rest, s'.end ≤ t → Far s'.end) :
    evalD (HasIntegral.integral s k : Segment ℝ (IntOfLogPoly4 ℝ))
        (integralIter rest (nextKnot (HasIntegral.integral s k : Segment ℝ (IntOfLogPoly4 ℝ)))) t =
      k.y + ∫ x in k.x..t, evalD s rest x := by
  induction rest generalizing s k with
  | nil => exact seg_integral_ftc_far s k t hk0 ht0 hfk hft
  | cons s' rest ih =>
    rw [integralIter_cons, evalD_cons, seg_integral_end]
    have hss' : s.end ≤ s'.end := (List.pairwise_cons.mp hs).1 s' (by simp)
    split
    · next hlt =>
      rw [seg_integral_ftc_far s k t hk0 ht0 hfk hft,
        integral_evalD_below s s' rest _ _ hk (le_of_lt hlt)]
    · next hge =>
      have hge : s.end ≤ t := not_lt.mp hge
      have he0 : 0 < s.end := lt_of_lt_of_le hk0 hk
      have hfs : Far s.end := hfe s (by simp) hge
      rw [ih s' (nextKnot (HasIntegral.integral s k : Segment ℝ (IntOfLogPoly4 ℝ))) (List.pairwise_cons.mp hs).2
        (by simpa [nextKnot, seg_integral_end] using hss') (by simpa [nextKnot, seg_integral_end] using he0)
        (by simpa [nextKnot, seg_integral_end] using hfs)
        (fun s'' hs'' => hfe s'' (List.mem_cons_of_mem _ hs''))]
      have e1 : (nextKnot (HasIntegral.integral s k : Segment ℝ (IntOfLogPoly4 ℝ))).y
          = k.y + ∫ x in k.x..s.end, evalD s (s' :: rest) x := by
        rw [integral_evalD_below s s' rest _ _ hk (le_refl _),
          ← seg_integral_ftc_far s k s.end hk0 he0 hfk hfs]; rfl
      have e2 : (nextKnot (HasIntegral.integral s k : Segment ℝ (IntOfLogPoly4 ℝ))).x = s.end := rfl
      rw [e1, e2, ← integral_evalD_above s s' rest t hge, add_assoc,
        intervalIntegral.integral_add_adjacent_intervals
          (evalD_intervalIntegrable ordConnected_Ioi logPoly4_continuousOn_real s (s' :: rest) _ _ hk0 he0)
          (evalD_intervalIntegrable ordConnected_Ioi logPoly4_continuousOn_real s (s' :: rest) _ _ he0 ht0)]

attribute [local instance] PP.Props.C09.realTransc exactFL

/-- f(t) = ln⁴ t on one piece -/
noncomputable def cxP : Piecewise ℝ (Log (Poly4 ℝ)) := ⟨[⟨Real.exp 3, ⟨⟨⟨0, 0, 0, 0, 1⟩⟩⟩⟩]⟩

/-- **the exact statement is false for degree 4** when evaluation points inside the Taylor window are allowed:
f(t) = ln⁴ t (one piece), k0 = (1, 0).  If `F(t) = ∫_1^t f` held for every t > 0, `F` — hence `indefinite` of the
piece — would have derivative f(e) = 1 at t = e, contradicting `C09.logpoly4_not_antiderivative`
(the true derivative there is 1 − 24/20!). -/
theorem pwIntegral_ftc_logPoly4_false :
    ¬ ∀ t : ℝ, 0 < t →
      pwEvaluate (pwIntegral cxP ⟨1, 0⟩ : Piecewise ℝ (IntOfLogPoly4 ℝ)) t =
        some (0 + ∫ x in (1 : ℝ)..t, (pwEvaluate cxP x).getD 0) := by
  intro H
  let s : Segment ℝ (Log (Poly4 ℝ)) := ⟨Real.exp 3, ⟨⟨⟨0, 0, 0, 0, 1⟩⟩⟩⟩
  have H' : ∀ t : ℝ, 0 < t →
      Evaluate.evaluate (HasIntegral.integral s ⟨1, 0⟩ : Segment ℝ (IntOfLogPoly4 ℝ)).poly t =
        0 + ∫ x in (1 : ℝ)..t, Evaluate.evaluate s.poly x := by
    intro t ht
    have h := H t ht
    rw [cxP, PP.Props.C11.pwIntegral_cons, pwEvaluate_cons] at h
    simp only [pwEvaluate_cons, Option.getD_some, Option.some.injEq] at h
    exact h
  have he : (0 : ℝ) < Real.exp 1 := Real.exp_pos 1
  have hc := logPoly4_continuousOn_real s.poly
  have hd : HasDerivAt (fun t => ∫ x in (1 : ℝ)..t, Evaluate.evaluate s.poly x)
      (Evaluate.evaluate s.poly (Real.exp 1)) (Real.exp 1) :=
    intervalIntegral.integral_hasDerivAt_right
      ((hc.mono (ordConnected_Ioi.uIcc_subset (by norm_num : (1 : ℝ) ∈ Ioi 0) he)).intervalIntegrable)
      (hc.stronglyMeasurableAtFilter isOpen_Ioi _ he)
      (hc.continuousAt (Ioi_mem_nhds he))
  apply logpoly4_not_antiderivative
  refine (hd.add_const (-(0 - Evaluate.evaluate (HasIntegral.indefinite s.poly : IntOfLogPoly4 ℝ) 1))).congr_of_eventuallyEq ?_
  filter_upwards [lt_mem_nhds he] with t ht
  have h1 := H' t ht
  rw [seg_integral_eval translateAdds_intOfLogPoly4] at h1
  show Evaluate.evaluate (HasIntegral.indefinite s.poly : IntOfLogPoly4 ℝ) t = _
  linarith

end core

variable [inst : Transc ℝ]
attribute [local instance] exactFL

/-- with `ln = Real.log` and `exp = Real.exp` the instance is the one C09 is stated for -/
theorem transc_eq_real (hln : (Transc.ln : ℝ → ℝ) = Real.log) (hexp : (Transc.exp : ℝ → ℝ) = Real.exp) :
    inst = PP.Props.C09.realTransc := by
  cases inst with
  | mk l e => simp only at hln hexp; subst hln; subst hexp; rfl

/-- **C11 for `Log<Poly4>` pieces, what is true**: for `f` non-empty with non-decreasing breakpoints, `0 < k0.x ≤`
first breakpoint, `t > 0`, and `k0.x`, `t` and every breakpoint `≤ t` outside the Taylor window
(`Far v : 1.71 ≤ ln v ∨ ln v ≤ −1.72`): `F(t) = k0.y + ∫_{k0.x}^t f`, exactly.  The interval of integration may
contain the whole window. -/
theorem pwIntegral_ftc_logPoly4_far (hln : (Transc.ln : ℝ → ℝ) = Real.log)
    (hexp : (Transc.exp : ℝ → ℝ) = Real.exp)
    (p : Piecewise ℝ (Log (Poly4 ℝ))) (k0 : Knot ℝ) (hne : p.segments ≠ [])
    (hsorted : p.segments.Pairwise (fun a b => a.end ≤ b.end))
    (hk : ∀ s ∈ p.segments.head?, k0.x ≤ s.end) (t : ℝ) (hk0 : 0 < k0.x) (ht : 0 < t)
    (hfk : Far k0.x) (hft : Far t) (hfe : ∀ s ∈ p.segments, s.end ≤ t → Far s.end) :
    pwEvaluate (pwIntegral p k0 : Piecewise ℝ (IntOfLogPoly4 ℝ)) t =
      some (k0.y + ∫ x in k0.x..t, (pwEvaluate p x).getD 0) := by
  obtain ⟨segs⟩ := p
  cases segs with
  | nil => exact absurd rfl hne
  | cons s rest =>
    rw [PP.Props.C11.pwIntegral_cons, pwEvaluate_cons]
    simp only [pwEvaluate_cons, Option.getD_some]
    obtain rfl := transc_eq_real hln hexp
    rw [integralIter_ftc_far s rest k0 hsorted (hk s (by simp)) t hk0 ht hfk hft hfe]


end deg4

/-! ## non-vacuity -/
section examples
noncomputable local instance : Transc ℝ := ⟨Real.log, Real.exp⟩
attribute [local instance] exactFL

/-- degree 0: two arbitrary pieces with breakpoints 2, 5, through the knot (1, 7); every t > 0 -/
example (q1 q2 : Poly0 ℝ) (t : ℝ) (ht : 0 < t) :
    pwEvaluate (pwIntegral (⟨[⟨2, ⟨q1⟩⟩, ⟨5, ⟨q2⟩⟩]⟩ : Piecewise ℝ (Log (Poly0 ℝ))) ⟨1, 7⟩
        : Piecewise ℝ (IntOfLog ℝ (Poly0 ℝ))) t =
      some (7 + ∫ x in (1 : ℝ)..t,
        (pwEvaluate (⟨[⟨2, ⟨q1⟩⟩, ⟨5, ⟨q2⟩⟩]⟩ : Piecewise ℝ (Log (Poly0 ℝ))) x).getD 0) :=
  pwIntegral_ftc_logPoly0 rfl _ ⟨1, 7⟩ (by simp) (by norm_num) (by norm_num) t one_pos ht

/-- degree 1: two arbitrary pieces with breakpoints 2, 5, through the knot (1, 7); every t > 0 -/
example (q1 q2 : Poly1 ℝ) (t : ℝ) (ht : 0 < t) :
    pwEvaluate (pwIntegral (⟨[⟨2, ⟨q1⟩⟩, ⟨5, ⟨q2⟩⟩]⟩ : Piecewise ℝ (Log (Poly1 ℝ))) ⟨1, 7⟩
        : Piecewise ℝ (IntOfLog ℝ (Poly1 ℝ))) t =
      some (7 + ∫ x in (1 : ℝ)..t,
        (pwEvaluate (⟨[⟨2, ⟨q1⟩⟩, ⟨5, ⟨q2⟩⟩]⟩ : Piecewise ℝ (Log (Poly1 ℝ))) x).getD 0) :=
  pwIntegral_ftc_logPoly1 rfl _ ⟨1, 7⟩ (by simp) (by norm_num) (by norm_num) t one_pos ht

/-- degree 2: two arbitrary pieces with breakpoints 2, 5, through the knot (1, 7); every t > 0 -/
example (q1 q2 : Poly2 ℝ) (t : ℝ) (ht : 0 < t) :
    pwEvaluate (pwIntegral (⟨[⟨2, ⟨q1⟩⟩, ⟨5, ⟨q2⟩⟩]⟩ : Piecewise ℝ (Log (Poly2 ℝ))) ⟨1, 7⟩
        : Piecewise ℝ (IntOfLog ℝ (Poly2 ℝ))) t =
      some (7 + ∫ x in (1 : ℝ)..t,
        (pwEvaluate (⟨[⟨2, ⟨q1⟩⟩, ⟨5, ⟨q2⟩⟩]⟩ : Piecewise ℝ (Log (Poly2 ℝ))) x).getD 0) :=
  pwIntegral_ftc_logPoly2 rfl _ ⟨1, 7⟩ (by simp) (by norm_num) (by norm_num) t one_pos ht

/-- degree 3: two arbitrary pieces with breakpoints 2, 5, through the knot (1, 7); every t > 0 -/
example (q1 q2 : Poly3 ℝ) (t : ℝ) (ht : 0 < t) :
    pwEvaluate (pwIntegral (⟨[⟨2, ⟨q1⟩⟩, ⟨5, ⟨q2⟩⟩]⟩ : Piecewise ℝ (Log (Poly3 ℝ))) ⟨1, 7⟩
        : Piecewise ℝ (IntOfLog ℝ (Poly3 ℝ))) t =
      some (7 + ∫ x in (1 : ℝ)..t,
        (pwEvaluate (⟨[⟨2, ⟨q1⟩⟩, ⟨5, ⟨q2⟩⟩]⟩ : Piecewise ℝ (Log (Poly3 ℝ))) x).getD 0) :=
  pwIntegral_ftc_logPoly3 rfl _ ⟨1, 7⟩ (by simp) (by norm_num) (by norm_num) t one_pos ht

/-- degree 5: two arbitrary pieces with breakpoints 2, 5, through the knot (1, 7); every t > 0 -/
example (q1 q2 : Poly5 ℝ) (t : ℝ) (ht : 0 < t) :
    pwEvaluate (pwIntegral (⟨[⟨2, ⟨q1⟩⟩, ⟨5, ⟨q2⟩⟩]⟩ : Piecewise ℝ (Log (Poly5 ℝ))) ⟨1, 7⟩
        : Piecewise ℝ (IntOfLog ℝ (Poly5 ℝ))) t =
      some (7 + ∫ x in (1 : ℝ)..t,
        (pwEvaluate (⟨[⟨2, ⟨q1⟩⟩, ⟨5, ⟨q2⟩⟩]⟩ : Piecewise ℝ (Log (Poly5 ℝ))) x).getD 0) :=
  pwIntegral_ftc_logPoly5 rfl _ ⟨1, 7⟩ (by simp) (by norm_num) (by norm_num) t one_pos ht

/-- degree 6: two arbitrary pieces with breakpoints 2, 5, through the knot (1, 7); every t > 0 -/
example (q1 q2 : Poly6 ℝ) (t : ℝ) (ht : 0 < t) :
    pwEvaluate (pwIntegral (⟨[⟨2, ⟨q1⟩⟩, ⟨5, ⟨q2⟩⟩]⟩ : Piecewise ℝ (Log (Poly6 ℝ))) ⟨1, 7⟩
        : Piecewise ℝ (IntOfLog ℝ (Poly6 ℝ))) t =
      some (7 + ∫ x in (1 : ℝ)..t,
        (pwEvaluate (⟨[⟨2, ⟨q1⟩⟩, ⟨5, ⟨q2⟩⟩]⟩ : Piecewise ℝ (Log (Poly6 ℝ))) x).getD 0) :=
  pwIntegral_ftc_logPoly6 rfl _ ⟨1, 7⟩ (by simp) (by norm_num) (by norm_num) t one_pos ht

/-- degree 7: two arbitrary pieces with breakpoints 2, 5, through the knot (1, 7); every t > 0 -/
example (q1 q2 : Poly7 ℝ) (t : ℝ) (ht : 0 < t) :
    pwEvaluate (pwIntegral (⟨[⟨2, ⟨q1⟩⟩, ⟨5, ⟨q2⟩⟩]⟩ : Piecewise ℝ (Log (Poly7 ℝ))) ⟨1, 7⟩
        : Piecewise ℝ (IntOfLog ℝ (Poly7 ℝ))) t =
      some (7 + ∫ x in (1 : ℝ)..t,
        (pwEvaluate (⟨[⟨2, ⟨q1⟩⟩, ⟨5, ⟨q2⟩⟩]⟩ : Piecewise ℝ (Log (Poly7 ℝ))) x).getD 0) :=
  pwIntegral_ftc_logPoly7 rfl _ ⟨1, 7⟩ (by simp) (by norm_num) (by norm_num) t one_pos ht

/-- degree 8: two arbitrary pieces with breakpoints 2, 5, through the knot (1, 7); every t > 0 -/
example (q1 q2 : Poly8 ℝ) (t : ℝ) (ht : 0 < t) :
    pwEvaluate (pwIntegral (⟨[⟨2, ⟨q1⟩⟩, ⟨5, ⟨q2⟩⟩]⟩ : Piecewise ℝ (Log (Poly8 ℝ))) ⟨1, 7⟩
        : Piecewise ℝ (IntOfLog ℝ (Poly8 ℝ))) t =
      some (7 + ∫ x in (1 : ℝ)..t,
        (pwEvaluate (⟨[⟨2, ⟨q1⟩⟩, ⟨5, ⟨q2⟩⟩]⟩ : Piecewise ℝ (Log (Poly8 ℝ))) x).getD 0) :=
  pwIntegral_ftc_logPoly8 rfl _ ⟨1, 7⟩ (by simp) (by norm_num) (by norm_num) t one_pos ht

/-- degree 4: breakpoints e², e³ (both `Far`), knot at e⁻² (`Far`, on the OTHER side of the Taylor window), any
t ≥ e³: the formula is exact although [e⁻², t] contains the whole window -/
example (q1 q2 : Poly4 ℝ) (t : ℝ) (ht : Real.exp 3 ≤ t) :
    pwEvaluate (pwIntegral (⟨[⟨Real.exp 2, ⟨q1⟩⟩, ⟨Real.exp 3, ⟨q2⟩⟩]⟩ : Piecewise ℝ (Log (Poly4 ℝ)))
        ⟨Real.exp (-2), 7⟩ : Piecewise ℝ (IntOfLogPoly4 ℝ)) t =
      some (7 + ∫ x in (Real.exp (-2))..t,
        (pwEvaluate (⟨[⟨Real.exp 2, ⟨q1⟩⟩, ⟨Real.exp 3, ⟨q2⟩⟩]⟩ : Piecewise ℝ (Log (Poly4 ℝ))) x).getD 0) := by
  have ht0 : 0 < t := lt_of_lt_of_le (Real.exp_pos 3) ht
  refine pwIntegral_ftc_logPoly4_far rfl rfl _ ⟨Real.exp (-2), 7⟩ (by simp) ?_ ?_ t (Real.exp_pos _) ht0 ?_ ?_ ?_
  · simp only [List.pairwise_cons, List.mem_cons, List.mem_nil_iff, or_false, forall_eq, false_imp_iff,
      implies_true, List.Pairwise.nil, and_true]
    exact Real.exp_le_exp.mpr (by norm_num)
  · simp only [List.head?_cons, Option.mem_def, Option.some.injEq, forall_eq']
    exact Real.exp_le_exp.mpr (by norm_num)
  · unfold PP.Props.C09.Far; rw [Real.log_exp]; right; norm_num
  · unfold PP.Props.C09.Far; left
    have := (Real.le_log_iff_exp_le ht0).mpr ht
    linarith
  · intro s hs _
    simp only [List.mem_cons, List.mem_nil_iff, or_false] at hs
    rcases hs with rfl | rfl <;> (unfold PP.Props.C09.Far; rw [Real.log_exp]; left; norm_num)

end examples

end PP.Props.C11Log
