import PP.Lemmas.LinIntReal
/-!
# C11 — piecewise integration: `integral(k0)`, `indefinite()`, the segment-integration iterators

Model: `Hand.integralIter` (the closure of `Segment::integral_iter` **and** of
`Segment::integral_iter_ref`, piecewise.rs:130-173: the two Rust functions have the same body, one taking
segments by value and one by reference; both are modelled by this single function and each is tied to it,
bit for bit, by the `pwintegral` correspondence campaign — so "the two iterators produce identical
pieces" has no further content on the model side), `Hand.pwIntegral`, `Hand.pwIndefinite`
(piecewise.rs:598-636) over the *generated* `HasIntegral (Segment F T)` instance.

Generic in the piece type `T` and its integral type `I` (any instances
`[HasIntegral T (Knot F) I] [Evaluate I F] [Translate I F]`: polynomial and log-polynomial pieces alike).

* (e) every interpretation: same number of pieces, same breakpoints; every piece is `integral` of the
  corresponding source piece at the running knot.
* (f) exact interpretation (any field), hypothesis `TranslateAdds`: first piece through `k0`, adjacent
  pieces agree at every interior breakpoint, each piece passes through the knot it was built from.
* (g) each piece is the source piece's indefinite integral plus a constant, hence an antiderivative;
  over ℝ: `F(t) = k0.y + ∫_{k0.x}^t f` for every `t` (non-decreasing ends, `k0.x ≤` first end).
* (h) `indefinite()`: same with first piece `indefinite` of the first source piece (additive constant 0).
-/
set_option linter.unusedSectionVars false
namespace PP.Props.C11
open FloatLike Hand PP.Lemmas.LinInt

/-! ## (e) every interpretation -/
section every
variable {F T I : Type} [FloatLike F] [HasIntegral T (Knot F) I] [Evaluate I F] [Translate I F]

theorem pwIntegral_length (p : Piecewise F T) (k0 : Knot F) :
    (pwIntegral p k0 : Piecewise F I).segments.length = p.segments.length :=
  integralIter_length p.segments k0

/-- same breakpoints, literally -/
theorem pwIntegral_ends (p : Piecewise F T) (k0 : Knot F) :
    (pwIntegral p k0 : Piecewise F I).segments.map (·.end) = p.segments.map (·.end) :=
  integralIter_ends p.segments k0

/-- the empty function integrates to the empty function (no panic) -/
theorem pwIntegral_nil (k0 : Knot F) : (pwIntegral (⟨[]⟩ : Piecewise F T) k0 : Piecewise F I) = ⟨[]⟩ := rfl
theorem pwIndefinite_nil : (pwIndefinite (⟨[]⟩ : Piecewise F T) : Piecewise F I) = ⟨[]⟩ := rfl

/-- unfolding: first piece from `k0`, the rest from (end, value at end) of the first piece -/
theorem pwIntegral_cons (s : Segment F T) (rest : List (Segment F T)) (k0 : Knot F) :
    (pwIntegral ⟨s :: rest⟩ k0 : Piecewise F I) =
      ⟨HasIntegral.integral s k0 :: integralIter rest (nextKnot (HasIntegral.integral s k0 : Segment F I))⟩ := rfl

/-- `indefinite()` is the same construction with the first piece replaced by its plain `indefinite` -/
theorem pwIndefinite_cons (s : Segment F T) (rest : List (Segment F T)) :
    (pwIndefinite ⟨s :: rest⟩ : Piecewise F I) =
      ⟨HasIntegral.indefinite s :: integralIter rest (nextKnot (HasIntegral.indefinite s : Segment F I))⟩ := rfl

theorem pwIndefinite_length (p : Piecewise F T) :
    (pwIndefinite p : Piecewise F I).segments.length = p.segments.length := by
  obtain ⟨segs⟩ := p
  cases segs with
  | nil => rfl
  | cons s rest => simp [pwIndefinite_cons]

theorem pwIndefinite_ends (p : Piecewise F T) :
    (pwIndefinite p : Piecewise F I).segments.map (·.end) = p.segments.map (·.end) := by
  obtain ⟨segs⟩ := p
  cases segs with
  | nil => rfl
  | cons s rest =>
    simp only [pwIndefinite_cons, List.map_cons, integralIter_ends]; rfl

/-- the knots the successive pieces are built from: `k0`, then (end, value at end) of the previous piece -/
def knots (p : Piecewise F T) (k0 : Knot F) : List (Knot F) := iterKnots (I := I) p.segments k0

theorem knots_length (p : Piecewise F T) (k0 : Knot F) :
    (knots (I := I) p k0).length = p.segments.length := iterKnots_length _ _

/-- every result piece is `integral` (of `Segment<T>`) of the corresponding source piece … -/
theorem pwIntegral_pieces (p : Piecewise F T) (k0 : Knot F) :
    (pwIntegral p k0 : Piecewise F I).segments =
      List.zipWith (fun s k => HasIntegral.integral s k) p.segments (knots (I := I) p k0) :=
  integralIter_eq_zipWith p.segments k0

/-- … index form … -/
theorem pwIntegral_getElem (p : Piecewise F T) (k0 : Knot F) (i : Nat) (hi : i < p.segments.length) :
    (pwIntegral p k0 : Piecewise F I).segments[i]'(by rw [pwIntegral_length]; exact hi) =
      HasIntegral.integral p.segments[i] ((knots (I := I) p k0)[i]'(by rw [knots_length]; exact hi)) := by
  simp only [pwIntegral_pieces, List.getElem_zipWith]

/-- … where the first knot is `k0` and knot `i+1` is (end, value at end) of result piece `i` -/
theorem knots_zero (p : Piecewise F T) (k0 : Knot F) (h : 0 < p.segments.length) :
    (knots (I := I) p k0)[0]'(by rw [knots_length]; exact h) = k0 :=
  iterKnots_getElem_zero p.segments k0 h

theorem knots_succ (p : Piecewise F T) (k0 : Knot F) (i : Nat) (hi : i + 1 < p.segments.length) :
    (knots (I := I) p k0)[i + 1]'(by rw [knots_length]; exact hi) =
      (let A := (pwIntegral p k0 : Piecewise F I).segments[i]'(by rw [pwIntegral_length]; omega)
       ⟨A.end, Evaluate.evaluate A.poly A.end⟩) :=
  iterKnots_getElem_succ p.segments k0 i hi

/-- the piece-level content: indefinite integral of the source piece, translated -/
theorem pwIntegral_getElem_poly (p : Piecewise F T) (k0 : Knot F) (i : Nat) (hi : i < p.segments.length) :
    ((pwIntegral p k0 : Piecewise F I).segments[i]'(by rw [pwIntegral_length]; exact hi)).poly =
      (let k := (knots (I := I) p k0)[i]'(by rw [knots_length]; exact hi)
       let G : I := HasIntegral.indefinite p.segments[i].poly
       Translate.translate G (FloatLike.sub k.y (Evaluate.evaluate G k.x))) := by
  rw [pwIntegral_getElem]; rfl

end every

/-! ## (f), (g), (h) exact interpretation over any field -/
section exact
variable {K : Type} [Field K] [LinearOrder K] [Transc K]
attribute [local instance] exactFL
variable {T I : Type} [HasIntegral T (Knot K) I] [Evaluate I K] [Translate I K]

/-- (f) the first piece passes through `k0` -/
theorem pwIntegral_first_through (htr : TranslateAdds K I) (p : Piecewise K T) (k0 : Knot K)
    (A : Segment K I) (hA : (pwIntegral p k0 : Piecewise K I).segments.head? = some A) :
    Evaluate.evaluate A.poly k0.x = k0.y := by
  obtain ⟨segs⟩ := p
  cases segs with
  | nil => simp [pwIntegral, integralIter] at hA
  | cons s rest =>
    simp only [pwIntegral_cons, List.head?_cons, Option.some.injEq] at hA
    subst hA
    exact seg_integral_through htr s k0

/-- (f) invariant: every piece passes through the knot it was built from -/
theorem pwIntegral_piece_through (htr : TranslateAdds K I) (p : Piecewise K T) (k0 : Knot K)
    (i : Nat) (hi : i < p.segments.length) :
    Evaluate.evaluate ((pwIntegral p k0 : Piecewise K I).segments[i]'(by rw [pwIntegral_length]; exact hi)).poly
        ((knots (I := I) p k0)[i]'(by rw [knots_length]; exact hi)).x =
      ((knots (I := I) p k0)[i]'(by rw [knots_length]; exact hi)).y := by
  rw [pwIntegral_getElem p k0 i hi]; exact seg_integral_through htr _ _

/-- (f) **continuity**: adjacent pieces agree at the breakpoint between them
(`Glued A B : evaluate B.poly A.end = evaluate A.poly A.end`) -/
theorem pwIntegral_glued (htr : TranslateAdds K I) (p : Piecewise K T) (k0 : Knot K) :
    List.IsChain Glued (pwIntegral p k0 : Piecewise K I).segments :=
  integralIter_chain htr p.segments k0

/-- … index form -/
theorem pwIntegral_continuous (htr : TranslateAdds K I) (p : Piecewise K T) (k0 : Knot K)
    (i : Nat) (hi : i + 1 < (pwIntegral p k0 : Piecewise K I).segments.length) :
    Evaluate.evaluate ((pwIntegral p k0 : Piecewise K I).segments[i + 1]).poly
        ((pwIntegral p k0 : Piecewise K I).segments[i]'(by omega)).end =
      Evaluate.evaluate ((pwIntegral p k0 : Piecewise K I).segments[i]'(by omega)).poly
        ((pwIntegral p k0 : Piecewise K I).segments[i]'(by omega)).end :=
  List.isChain_iff_getElem.mp (pwIntegral_glued htr p k0) i hi

/-- … "every pair of adjacent result pieces (A, B)" form -/
theorem pwIntegral_continuous_adjacent (htr : TranslateAdds K I) (p : Piecewise K T) (k0 : Knot K)
    (pre post : List (Segment K I)) (A B : Segment K I)
    (h : (pwIntegral p k0 : Piecewise K I).segments = pre ++ A :: B :: post) :
    Evaluate.evaluate B.poly A.end = Evaluate.evaluate A.poly A.end := by
  have := pwIntegral_glued htr p k0
  rw [h, List.isChain_append_cons_cons] at this
  exact this.2.1

/-- (g) each piece is the indefinite integral of the corresponding source piece plus a constant -/
theorem pwIntegral_piece_eval (htr : TranslateAdds K I) (p : Piecewise K T) (k0 : Knot K)
    (i : Nat) (hi : i < p.segments.length) :
    ∃ c : K, ∀ x : K,
      Evaluate.evaluate ((pwIntegral p k0 : Piecewise K I).segments[i]'(by rw [pwIntegral_length]; exact hi)).poly x =
        Evaluate.evaluate (HasIntegral.indefinite p.segments[i].poly : I) x + c := by
  refine ⟨((knots (I := I) p k0)[i]'(by rw [knots_length]; exact hi)).y -
    Evaluate.evaluate (HasIntegral.indefinite p.segments[i].poly : I)
      ((knots (I := I) p k0)[i]'(by rw [knots_length]; exact hi)).x, fun x => ?_⟩
  rw [pwIntegral_getElem p k0 i hi, seg_integral_eval htr]

/-! ### (h) `indefinite()` -/

/-- the first piece is the plain `indefinite` of the first source piece (every interpretation: `rfl`) -/
theorem pwIndefinite_first (s : Segment K T) (rest : List (Segment K T)) :
    (pwIndefinite ⟨s :: rest⟩ : Piecewise K I).segments.head? =
      some ⟨s.end, HasIntegral.indefinite s.poly⟩ := rfl

/-- adjacent pieces agree at every interior breakpoint -/
theorem pwIndefinite_glued (htr : TranslateAdds K I) (p : Piecewise K T) :
    List.IsChain Glued (pwIndefinite p : Piecewise K I).segments := by
  obtain ⟨segs⟩ := p
  cases segs with
  | nil => exact List.isChain_nil
  | cons s rest =>
    rw [pwIndefinite_cons]
    cases rest with
    | nil => exact List.isChain_singleton _
    | cons s' rest' =>
      simp only [integralIter_cons]
      rw [List.isChain_cons_cons]
      refine ⟨seg_integral_through htr s' _, ?_⟩
      have := integralIter_chain htr (s' :: rest') (nextKnot (HasIntegral.indefinite s : Segment K I))
      rwa [integralIter_cons] at this

theorem pwIndefinite_continuous (htr : TranslateAdds K I) (p : Piecewise K T)
    (i : Nat) (hi : i + 1 < (pwIndefinite p : Piecewise K I).segments.length) :
    Evaluate.evaluate ((pwIndefinite p : Piecewise K I).segments[i + 1]).poly
        ((pwIndefinite p : Piecewise K I).segments[i]'(by omega)).end =
      Evaluate.evaluate ((pwIndefinite p : Piecewise K I).segments[i]'(by omega)).poly
        ((pwIndefinite p : Piecewise K I).segments[i]'(by omega)).end :=
  List.isChain_iff_getElem.mp (pwIndefinite_glued htr p) i hi

/-- the later pieces of `indefinite()` are those of `integral` started at (end, value at end) of the first -/
theorem pwIndefinite_tail (s : Segment K T) (rest : List (Segment K T)) :
    (pwIndefinite ⟨s :: rest⟩ : Piecewise K I).segments.tail =
      (pwIntegral ⟨rest⟩ (nextKnot (HasIntegral.indefinite s : Segment K I)) : Piecewise K I).segments := rfl

/-- polynomial pieces: the additive constant of the first piece is zero (shown for degree 1 and 3, the
degrees produced by `linear` and `constrained_spline`; literally `0.0` in every interpretation) -/
theorem indefinite_const_poly1 {F : Type} [FloatLike F] (t : Poly1 F) :
    (HasIntegral.indefinite t : Poly2 F)._0.a0 = FloatLike.ofDec 0 0 := rfl
theorem indefinite_const_poly3 {F : Type} [FloatLike F] (t : Poly3 F) :
    (HasIntegral.indefinite t : Poly4 F)._0.a0 = FloatLike.ofDec 0 0 := rfl
theorem indefinite_at_zero_poly1 (t : Poly1 K) :
    Evaluate.evaluate (HasIntegral.indefinite t : Poly2 K) 0 = 0 := by exact_simp; ring
theorem indefinite_at_zero_poly3 (t : Poly3 K) :
    Evaluate.evaluate (HasIntegral.indefinite t : Poly4 K) 0 = 0 := by exact_simp; ring

end exact

/-! ## (g) over ℝ: antiderivative and the fundamental theorem -/
section real
variable [Transc ℝ]
attribute [local instance] exactFL
variable {T I : Type} [HasIntegral T (Knot ℝ) I] [Evaluate T ℝ] [Evaluate I ℝ] [Translate I ℝ]
open Set

/-- each result piece is an antiderivative of the corresponding source piece, at every point of the
domain `D` on which the piece-level theorem holds -/
theorem pwIntegral_piece_hasDerivAt {D : Set ℝ} (htr : TranslateAdds ℝ I) (hd : PiecesAntiderivOn D T I)
    (p : Piecewise ℝ T) (k0 : Knot ℝ) (i : Nat) (hi : i < p.segments.length) (x : ℝ) (hx : x ∈ D) :
    HasDerivAt
      (fun y => Evaluate.evaluate
        ((pwIntegral p k0 : Piecewise ℝ I).segments[i]'(by rw [pwIntegral_length]; exact hi)).poly y)
      (Evaluate.evaluate p.segments[i].poly x) x := by
  obtain ⟨c, hc⟩ := pwIntegral_piece_eval htr p k0 i hi
  simp only [hc]
  exact (hd p.segments[i].poly x hx).add_const c

/-- **C11, main statement.**  Hypotheses on the piece types, bundled in `GoodPieces D T I`: on the interval
`D` (`univ` for polynomial, `(0,∞)` for log-polynomial pieces) every piece is continuous, `indefinite` is an
antiderivative, and `translate` adds a constant.  Then for `f` non-empty with non-decreasing ends, `k0.x`
not beyond the first end (the closure of the first piece's domain) and `k0.x, t ∈ D`:
`F(t) = k0.y + ∫_{k0.x}^t f`.
(`(pwEvaluate p x).getD 0` is `f x`; `p` is non-empty so it is never the default.) -/
theorem pwIntegral_ftc {D : Set ℝ} (hg : GoodPieces D T I) (p : Piecewise ℝ T) (k0 : Knot ℝ)
    (hne : p.segments ≠ [])
    (hsorted : p.segments.Pairwise (fun a b => a.end ≤ b.end))
    (hk : ∀ s ∈ p.segments.head?, k0.x ≤ s.end) (t : ℝ) (hkD : k0.x ∈ D) (htD : t ∈ D) :
    pwEvaluate (pwIntegral p k0 : Piecewise ℝ I) t =
      some (k0.y + ∫ x in k0.x..t, (pwEvaluate p x).getD 0) := by
  obtain ⟨segs⟩ := p
  cases segs with
  | nil => exact absurd rfl hne
  | cons s rest =>
    rw [pwIntegral_cons, pwEvaluate_cons]
    simp only [pwEvaluate_cons, Option.getD_some]
    rw [integralIter_ftc hg.ord hg.tr hg.cont hg.anti s rest k0 hsorted (hk s (by simp)) t hkD htD]

/-- (h) `indefinite()`: with `G` the plain indefinite integral of the first source piece and `a` any
point not beyond the first end, `F(t) = G(a) + ∫_a^t f` -/
theorem pwIndefinite_ftc {D : Set ℝ} (hg : GoodPieces D T I) (s : Segment ℝ T) (rest : List (Segment ℝ T))
    (hsorted : (s :: rest).Pairwise (fun a b => a.end ≤ b.end)) (a : ℝ) (ha : a ≤ s.end) (t : ℝ)
    (haD : a ∈ D) (htD : t ∈ D) :
    pwEvaluate (pwIndefinite ⟨s :: rest⟩ : Piecewise ℝ I) t =
      some (Evaluate.evaluate (HasIntegral.indefinite s.poly : I) a
        + ∫ x in a..t, (pwEvaluate ⟨s :: rest⟩ x).getD 0) := by
  rw [pwIndefinite_cons, pwEvaluate_cons]
  simp only [pwEvaluate_cons, Option.getD_some]
  rw [indefiniteIter_ftc hg.ord hg.tr hg.cont hg.anti s rest hsorted a ha t haD htD]

/-- polynomial pieces, every degree 0…7: the hypotheses hold on all of ℝ (`goodPieces_poly0 …
goodPieces_poly7`), so the statement holds for EVERY `t`; spelled out for the piecewise-linear functions
built by `linear` … -/
theorem pwIntegral_ftc_poly1 (p : Piecewise ℝ (Poly1 ℝ)) (k0 : Knot ℝ) (hne : p.segments ≠ [])
    (hsorted : p.segments.Pairwise (fun a b => a.end ≤ b.end))
    (hk : ∀ s ∈ p.segments.head?, k0.x ≤ s.end) (t : ℝ) :
    pwEvaluate (pwIntegral p k0 : Piecewise ℝ (Poly2 ℝ)) t =
      some (k0.y + ∫ x in k0.x..t, (pwEvaluate p x).getD 0) :=
  pwIntegral_ftc goodPieces_poly1 p k0 hne hsorted hk t trivial trivial

/-- … and for the cubic splines built by `constrained_spline` -/
theorem pwIntegral_ftc_poly3 (p : Piecewise ℝ (Poly3 ℝ)) (k0 : Knot ℝ) (hne : p.segments ≠ [])
    (hsorted : p.segments.Pairwise (fun a b => a.end ≤ b.end))
    (hk : ∀ s ∈ p.segments.head?, k0.x ≤ s.end) (t : ℝ) :
    pwEvaluate (pwIntegral p k0 : Piecewise ℝ (Poly4 ℝ)) t =
      some (k0.y + ∫ x in k0.x..t, (pwEvaluate p x).getD 0) :=
  pwIntegral_ftc goodPieces_poly3 p k0 hne hsorted hk t trivial trivial

/-- log-polynomial pieces (shown for `Log<Poly1>` with `ln = Real.log`): the statement holds for
`k0.x > 0`, `t > 0` -/
theorem pwIntegral_ftc_logPoly1 (hln : (Transc.ln : ℝ → ℝ) = Real.log)
    (p : Piecewise ℝ (Log (Poly1 ℝ))) (k0 : Knot ℝ) (hne : p.segments ≠ [])
    (hsorted : p.segments.Pairwise (fun a b => a.end ≤ b.end))
    (hk : ∀ s ∈ p.segments.head?, k0.x ≤ s.end) (t : ℝ) (hk0 : 0 < k0.x) (ht : 0 < t) :
    pwEvaluate (pwIntegral p k0 : Piecewise ℝ (IntOfLog ℝ (Poly1 ℝ))) t =
      some (k0.y + ∫ x in k0.x..t, (pwEvaluate p x).getD 0) :=
  pwIntegral_ftc (goodPieces_logPoly1 hln) p k0 hne hsorted hk t hk0 ht

/-- `indefinite()` of a piecewise-linear function whose first breakpoint is ≥ 0 is `∫_0^t f` -/
theorem pwIndefinite_ftc_poly1 (s : Segment ℝ (Poly1 ℝ)) (rest : List (Segment ℝ (Poly1 ℝ)))
    (hsorted : (s :: rest).Pairwise (fun a b => a.end ≤ b.end)) (h0 : 0 ≤ s.end) (t : ℝ) :
    pwEvaluate (pwIndefinite ⟨s :: rest⟩ : Piecewise ℝ (Poly2 ℝ)) t =
      some (∫ x in (0 : ℝ)..t, (pwEvaluate ⟨s :: rest⟩ x).getD 0) := by
  rw [pwIndefinite_ftc goodPieces_poly1 s rest hsorted 0 h0 t trivial trivial, indefinite_at_zero_poly1,
    zero_add]

end real

/-! ## non-vacuity, and the counter-example showing that `k0.x ≤ first end` is needed -/
section examples
noncomputable local instance : Transc ℚ := ⟨fun x => x, fun x => x⟩
noncomputable local instance : Transc ℝ := ⟨Real.log, Real.exp⟩
attribute [local instance] exactFL

/-- f = 1 + 2x on (−∞,1), 3 on [1,2), x on [2,∞) -/
def exP (K : Type) [Field K] : Piecewise K (Poly1 K) := ⟨[⟨1, ⟨⟨1, 2⟩⟩⟩, ⟨2, ⟨⟨3, 0⟩⟩⟩, ⟨3, ⟨⟨0, 1⟩⟩⟩]⟩

example : TranslateAdds ℚ (Poly2 ℚ) := translateAdds_poly2

/-- the integral through (0, 5): pieces 5+x+x², 4+3x, 8+x²/2; glued at 1 (value 7) and at 2 (value 10) -/
example : (pwIntegral (exP ℚ) ⟨0, 5⟩ : Piecewise ℚ (Poly2 ℚ)) =
    ⟨[⟨1, ⟨⟨5, 1, 1⟩⟩⟩, ⟨2, ⟨⟨4, 3, 0⟩⟩⟩, ⟨3, ⟨⟨8, 0, 1 / 2⟩⟩⟩]⟩ := by
  simp only [exP, pwIntegral, integralIter]
  exact_simp
  norm_num

/-- hypotheses of the main theorem are satisfiable: the example over ℝ -/
example (t : ℝ) : pwEvaluate (pwIntegral (exP ℝ) ⟨0, 5⟩ : Piecewise ℝ (Poly2 ℝ)) t =
    some (5 + ∫ x in (0 : ℝ)..t, (pwEvaluate (exP ℝ) x).getD 0) :=
  pwIntegral_ftc_poly1 (exP ℝ) ⟨0, 5⟩ (by simp [exP]) (by simp [exP]; norm_num) (by simp [exP]) t

/-- **counter-example** to the statement without "k0.x in the first piece's domain": with
`k0 = (5/2, 0)` (inside the third piece) only the FIRST piece is made to pass through `k0`; the function
itself takes the value `-21/8 ≠ 0` at `5/2`, so `F(k0.x) ≠ k0.y`. -/
example : pwEvaluate (pwIntegral (exP ℚ) ⟨5 / 2, 0⟩ : Piecewise ℚ (Poly2 ℚ)) (5 / 2) = some (-21 / 8) := by
  simp only [exP, pwIntegral, integralIter, pwEvaluate, selSeg]
  exact_simp
  norm_num [FloatLike.lt]

end examples

end PP.Props.C11
