import PP.Sem.Exact
import PP.Model.Poly.CalculusAttr
import PP.Model.Piecewise.CalculusAttr
import PP.Props.C01
import PP.Lemmas.Calculus
/-!
# C07 — integration of polynomials (exact-arithmetic part)

"For every polynomial of degree 0-7, indefinite() returns the polynomial of one higher degree with zero constant
term and coefficients c_i/(i+1), and integral(knot) returns that polynomial shifted vertically so that its value
at knot.x is knot.y (within rounding). Consequently F(b)-F(a) equals the exact integral of p over [a,b] for all
a,b, and differentiating the result returns p coefficient-wise to within one unit in the last place."

Everything here is in the exact interpretation `exactFL K` (any linearly ordered field; the analytic statements
over ℝ); the rounding clauses ("within rounding", "one unit in the last place") are handled elsewhere.

For each degree k = 0..7 (`p : PolyK K`, result `Poly(k+1) K`):
* `polyK_indefinite`            — lanes of `indefinite p` are literally `⟨0, c0, c1/2, …, ck/(k+1)⟩`
* `polyK_derivative_indefinite` — `derivative (indefinite p) = p`
* `polyK_integral_knot`         — `evaluate (integral p knot) knot.x = knot.y`
* `polyK_integral_lanes`        — `integral p knot` is `indefinite p` with lane a0 replaced by
                                  `knot.y - evaluate (indefinite p) knot.x` (all other lanes equal)
* `polyK_integral_eval`         — `evaluate (integral p knot) x = evaluate (indefinite p) x + (knot.y - evaluate (indefinite p) knot.x)`
* `polyK_derivative_integral`   — `derivative (integral p knot) = p`
* over ℝ: `polyK_integral_hasDerivAt`, `polyK_indefinite_hasDerivAt`, `polyK_integral_ftc`, `polyK_indefinite_ftc`
and the generic `segment_integral_knot`, `segment_integral_end`.
-/
set_option linter.unusedSectionVars false
namespace PP.Props.C07
open PP.Props.C01 PP.Lemmas.Calculus

section field
variable {K : Type} [Field K] [LinearOrder K] [IsStrictOrderedRing K] [Transc K]
attribute [local instance] exactFL

/-! ## degree 0 -/

theorem poly0_indefinite (p : Poly0 K) :
    HasIntegral.indefinite p = (⟨⟨0, p._0⟩⟩ : Poly1 K) := by
  exact_simp

theorem poly0_derivative_indefinite (p : Poly0 K) :
    HasDerivative.derivative (HasIntegral.indefinite p) = p := by
  exact_simp

theorem poly0_integral_knot (p : Poly0 K) (knot : Knot K) :
    Evaluate.evaluate (HasIntegral.integral p knot) knot.x = knot.y := by
  exact_simp
  ring

/-- `integral p knot` and `indefinite p` differ only in lane a0 -/
theorem poly0_integral_lanes (p : Poly0 K) (knot : Knot K) :
    HasIntegral.integral p knot =
      (⟨⟨knot.y - Evaluate.evaluate (HasIntegral.indefinite p) knot.x, p._0⟩⟩ : Poly1 K) := by
  exact_simp
  congr 2
  ring

theorem poly0_integral_eval (p : Poly0 K) (knot : Knot K) (x : K) :
    Evaluate.evaluate (HasIntegral.integral p knot) x =
      Evaluate.evaluate (HasIntegral.indefinite p) x
        + (knot.y - Evaluate.evaluate (HasIntegral.indefinite p) knot.x) := by
  exact_simp
  ring

theorem poly0_derivative_integral (p : Poly0 K) (knot : Knot K) :
    HasDerivative.derivative (HasIntegral.integral p knot) = p := by
  have h := poly0_derivative_indefinite p
  rw [poly0_indefinite] at h
  rw [poly0_integral_lanes]
  exact h

/-! ## degree 1 -/

theorem poly1_indefinite (p : Poly1 K) :
    HasIntegral.indefinite p = (⟨⟨0, p._0.a0, p._0.a1 / 2⟩⟩ : Poly2 K) := by
  exact_simp

theorem poly1_derivative_indefinite (p : Poly1 K) :
    HasDerivative.derivative (HasIntegral.indefinite p) = p := by
  rcases p with ⟨⟨c0, c1⟩⟩
  exact_simp
  congr 2
  all_goals field_simp

theorem poly1_integral_knot (p : Poly1 K) (knot : Knot K) :
    Evaluate.evaluate (HasIntegral.integral p knot) knot.x = knot.y := by
  exact_simp
  ring

/-- `integral p knot` and `indefinite p` differ only in lane a0 -/
theorem poly1_integral_lanes (p : Poly1 K) (knot : Knot K) :
    HasIntegral.integral p knot =
      (⟨⟨knot.y - Evaluate.evaluate (HasIntegral.indefinite p) knot.x, p._0.a0, p._0.a1 / 2⟩⟩ : Poly2 K) := by
  exact_simp
  congr 2
  ring

theorem poly1_integral_eval (p : Poly1 K) (knot : Knot K) (x : K) :
    Evaluate.evaluate (HasIntegral.integral p knot) x =
      Evaluate.evaluate (HasIntegral.indefinite p) x
        + (knot.y - Evaluate.evaluate (HasIntegral.indefinite p) knot.x) := by
  exact_simp
  ring

theorem poly1_derivative_integral (p : Poly1 K) (knot : Knot K) :
    HasDerivative.derivative (HasIntegral.integral p knot) = p := by
  have h := poly1_derivative_indefinite p
  rw [poly1_indefinite] at h
  rw [poly1_integral_lanes]
  exact h

/-! ## degree 2 -/

theorem poly2_indefinite (p : Poly2 K) :
    HasIntegral.indefinite p = (⟨⟨0, p._0.a0, p._0.a1 / 2, p._0.a2 / 3⟩⟩ : Poly3 K) := by
  exact_simp

theorem poly2_derivative_indefinite (p : Poly2 K) :
    HasDerivative.derivative (HasIntegral.indefinite p) = p := by
  rcases p with ⟨⟨c0, c1, c2⟩⟩
  exact_simp
  congr 2
  all_goals field_simp

theorem poly2_integral_knot (p : Poly2 K) (knot : Knot K) :
    Evaluate.evaluate (HasIntegral.integral p knot) knot.x = knot.y := by
  exact_simp
  ring

/-- `integral p knot` and `indefinite p` differ only in lane a0 -/
theorem poly2_integral_lanes (p : Poly2 K) (knot : Knot K) :
    HasIntegral.integral p knot =
      (⟨⟨knot.y - Evaluate.evaluate (HasIntegral.indefinite p) knot.x, p._0.a0, p._0.a1 / 2, p._0.a2 / 3⟩⟩ : Poly3 K) := by
  exact_simp
  congr 2
  ring

theorem poly2_integral_eval (p : Poly2 K) (knot : Knot K) (x : K) :
    Evaluate.evaluate (HasIntegral.integral p knot) x =
      Evaluate.evaluate (HasIntegral.indefinite p) x
        + (knot.y - Evaluate.evaluate (HasIntegral.indefinite p) knot.x) := by
  exact_simp
  ring

theorem poly2_derivative_integral (p : Poly2 K) (knot : Knot K) :
    HasDerivative.derivative (HasIntegral.integral p knot) = p := by
  have h := poly2_derivative_indefinite p
  rw [poly2_indefinite] at h
  rw [poly2_integral_lanes]
  exact h

/-! ## degree 3 -/

theorem poly3_indefinite (p : Poly3 K) :
    HasIntegral.indefinite p = (⟨⟨0, p._0.a0, p._0.a1 / 2, p._0.a2 / 3, p._0.a3 / 4⟩⟩ : Poly4 K) := by
  exact_simp

theorem poly3_derivative_indefinite (p : Poly3 K) :
    HasDerivative.derivative (HasIntegral.indefinite p) = p := by
  rcases p with ⟨⟨c0, c1, c2, c3⟩⟩
  exact_simp
  congr 2
  all_goals field_simp

theorem poly3_integral_knot (p : Poly3 K) (knot : Knot K) :
    Evaluate.evaluate (HasIntegral.integral p knot) knot.x = knot.y := by
  exact_simp
  ring

/-- `integral p knot` and `indefinite p` differ only in lane a0 -/
theorem poly3_integral_lanes (p : Poly3 K) (knot : Knot K) :
    HasIntegral.integral p knot =
      (⟨⟨knot.y - Evaluate.evaluate (HasIntegral.indefinite p) knot.x, p._0.a0, p._0.a1 / 2, p._0.a2 / 3, p._0.a3 / 4⟩⟩ : Poly4 K) := by
  exact_simp
  congr 2
  ring

theorem poly3_integral_eval (p : Poly3 K) (knot : Knot K) (x : K) :
    Evaluate.evaluate (HasIntegral.integral p knot) x =
      Evaluate.evaluate (HasIntegral.indefinite p) x
        + (knot.y - Evaluate.evaluate (HasIntegral.indefinite p) knot.x) := by
  exact_simp
  ring

theorem poly3_derivative_integral (p : Poly3 K) (knot : Knot K) :
    HasDerivative.derivative (HasIntegral.integral p knot) = p := by
  have h := poly3_derivative_indefinite p
  rw [poly3_indefinite] at h
  rw [poly3_integral_lanes]
  exact h

/-! ## degree 4 -/

theorem poly4_indefinite (p : Poly4 K) :
    HasIntegral.indefinite p = (⟨⟨0, p._0.a0, p._0.a1 / 2, p._0.a2 / 3, p._0.a3 / 4, p._0.a4 / 5⟩⟩ : Poly5 K) := by
  exact_simp

theorem poly4_derivative_indefinite (p : Poly4 K) :
    HasDerivative.derivative (HasIntegral.indefinite p) = p := by
  rcases p with ⟨⟨c0, c1, c2, c3, c4⟩⟩
  exact_simp
  congr 2
  all_goals field_simp

theorem poly4_integral_knot (p : Poly4 K) (knot : Knot K) :
    Evaluate.evaluate (HasIntegral.integral p knot) knot.x = knot.y := by
  exact_simp
  ring

/-- `integral p knot` and `indefinite p` differ only in lane a0 -/
theorem poly4_integral_lanes (p : Poly4 K) (knot : Knot K) :
    HasIntegral.integral p knot =
      (⟨⟨knot.y - Evaluate.evaluate (HasIntegral.indefinite p) knot.x, p._0.a0, p._0.a1 / 2, p._0.a2 / 3, p._0.a3 / 4, p._0.a4 / 5⟩⟩ : Poly5 K) := by
  exact_simp
  congr 2
  ring

theorem poly4_integral_eval (p : Poly4 K) (knot : Knot K) (x : K) :
    Evaluate.evaluate (HasIntegral.integral p knot) x =
      Evaluate.evaluate (HasIntegral.indefinite p) x
        + (knot.y - Evaluate.evaluate (HasIntegral.indefinite p) knot.x) := by
  exact_simp
  ring

theorem poly4_derivative_integral (p : Poly4 K) (knot : Knot K) :
    HasDerivative.derivative (HasIntegral.integral p knot) = p := by
  have h := poly4_derivative_indefinite p
  rw [poly4_indefinite] at h
  rw [poly4_integral_lanes]
  exact h

/-! ## degree 5 -/

theorem poly5_indefinite (p : Poly5 K) :
    HasIntegral.indefinite p = (⟨⟨0, p._0.a0, p._0.a1 / 2, p._0.a2 / 3, p._0.a3 / 4, p._0.a4 / 5, p._0.a5 / 6⟩⟩ : Poly6 K) := by
  exact_simp

theorem poly5_derivative_indefinite (p : Poly5 K) :
    HasDerivative.derivative (HasIntegral.indefinite p) = p := by
  rcases p with ⟨⟨c0, c1, c2, c3, c4, c5⟩⟩
  exact_simp
  congr 2
  all_goals field_simp

theorem poly5_integral_knot (p : Poly5 K) (knot : Knot K) :
    Evaluate.evaluate (HasIntegral.integral p knot) knot.x = knot.y := by
  exact_simp
  ring

/-- `integral p knot` and `indefinite p` differ only in lane a0 -/
theorem poly5_integral_lanes (p : Poly5 K) (knot : Knot K) :
    HasIntegral.integral p knot =
      (⟨⟨knot.y - Evaluate.evaluate (HasIntegral.indefinite p) knot.x, p._0.a0, p._0.a1 / 2, p._0.a2 / 3, p._0.a3 / 4, p._0.a4 / 5, p._0.a5 / 6⟩⟩ : Poly6 K) := by
  exact_simp
  congr 2
  ring

theorem poly5_integral_eval (p : Poly5 K) (knot : Knot K) (x : K) :
    Evaluate.evaluate (HasIntegral.integral p knot) x =
      Evaluate.evaluate (HasIntegral.indefinite p) x
        + (knot.y - Evaluate.evaluate (HasIntegral.indefinite p) knot.x) := by
  exact_simp
  ring

theorem poly5_derivative_integral (p : Poly5 K) (knot : Knot K) :
    HasDerivative.derivative (HasIntegral.integral p knot) = p := by
  have h := poly5_derivative_indefinite p
  rw [poly5_indefinite] at h
  rw [poly5_integral_lanes]
  exact h

/-! ## degree 6 -/

theorem poly6_indefinite (p : Poly6 K) :
    HasIntegral.indefinite p = (⟨⟨0, p._0.a0, p._0.a1 / 2, p._0.a2 / 3, p._0.a3 / 4, p._0.a4 / 5, p._0.a5 / 6, p._0.a6 / 7⟩⟩ : Poly7 K) := by
  exact_simp

theorem poly6_derivative_indefinite (p : Poly6 K) :
    HasDerivative.derivative (HasIntegral.indefinite p) = p := by
  rcases p with ⟨⟨c0, c1, c2, c3, c4, c5, c6⟩⟩
  exact_simp
  congr 2
  all_goals field_simp

theorem poly6_integral_knot (p : Poly6 K) (knot : Knot K) :
    Evaluate.evaluate (HasIntegral.integral p knot) knot.x = knot.y := by
  exact_simp
  ring

/-- `integral p knot` and `indefinite p` differ only in lane a0 -/
theorem poly6_integral_lanes (p : Poly6 K) (knot : Knot K) :
    HasIntegral.integral p knot =
      (⟨⟨knot.y - Evaluate.evaluate (HasIntegral.indefinite p) knot.x, p._0.a0, p._0.a1 / 2, p._0.a2 / 3, p._0.a3 / 4, p._0.a4 / 5, p._0.a5 / 6, p._0.a6 / 7⟩⟩ : Poly7 K) := by
  exact_simp
  congr 2
  ring

theorem poly6_integral_eval (p : Poly6 K) (knot : Knot K) (x : K) :
    Evaluate.evaluate (HasIntegral.integral p knot) x =
      Evaluate.evaluate (HasIntegral.indefinite p) x
        + (knot.y - Evaluate.evaluate (HasIntegral.indefinite p) knot.x) := by
  exact_simp
  ring

theorem poly6_derivative_integral (p : Poly6 K) (knot : Knot K) :
    HasDerivative.derivative (HasIntegral.integral p knot) = p := by
  have h := poly6_derivative_indefinite p
  rw [poly6_indefinite] at h
  rw [poly6_integral_lanes]
  exact h

/-! ## degree 7 -/

theorem poly7_indefinite (p : Poly7 K) :
    HasIntegral.indefinite p = (⟨⟨0, p._0.a0, p._0.a1 / 2, p._0.a2 / 3, p._0.a3 / 4, p._0.a4 / 5, p._0.a5 / 6, p._0.a6 / 7, p._0.a7 / 8⟩⟩ : Poly8 K) := by
  exact_simp

theorem poly7_derivative_indefinite (p : Poly7 K) :
    HasDerivative.derivative (HasIntegral.indefinite p) = p := by
  rcases p with ⟨⟨c0, c1, c2, c3, c4, c5, c6, c7⟩⟩
  exact_simp
  congr 2
  all_goals field_simp

theorem poly7_integral_knot (p : Poly7 K) (knot : Knot K) :
    Evaluate.evaluate (HasIntegral.integral p knot) knot.x = knot.y := by
  exact_simp
  ring

/-- `integral p knot` and `indefinite p` differ only in lane a0 -/
theorem poly7_integral_lanes (p : Poly7 K) (knot : Knot K) :
    HasIntegral.integral p knot =
      (⟨⟨knot.y - Evaluate.evaluate (HasIntegral.indefinite p) knot.x, p._0.a0, p._0.a1 / 2, p._0.a2 / 3, p._0.a3 / 4, p._0.a4 / 5, p._0.a5 / 6, p._0.a6 / 7, p._0.a7 / 8⟩⟩ : Poly8 K) := by
  exact_simp
  congr 2
  ring

theorem poly7_integral_eval (p : Poly7 K) (knot : Knot K) (x : K) :
    Evaluate.evaluate (HasIntegral.integral p knot) x =
      Evaluate.evaluate (HasIntegral.indefinite p) x
        + (knot.y - Evaluate.evaluate (HasIntegral.indefinite p) knot.x) := by
  exact_simp
  ring

theorem poly7_derivative_integral (p : Poly7 K) (knot : Knot K) :
    HasDerivative.derivative (HasIntegral.integral p knot) = p := by
  have h := poly7_derivative_indefinite p
  rw [poly7_indefinite] at h
  rw [poly7_integral_lanes]
  exact h

/-! ## the generic Segment lemma -/

/-- For any piece type whose `Translate` adds a constant to the value, the integral of a segment through a knot
takes the knot's value at the knot's abscissa. -/
theorem segment_integral_knot {T I : Type} [HasIntegral T (Knot K) I] [Evaluate I K] [Translate I K]
    (htr : ∀ (i : I) (v x : K),
      Evaluate.evaluate (Translate.translate i v) x = Evaluate.evaluate i x + v)
    (s : Segment K T) (knot : Knot K) :
    Evaluate.evaluate (HasIntegral.integral s knot) knot.x = knot.y := by
  show Evaluate.evaluate (Translate.translate (HasIntegral.indefinite s.poly)
      (knot.y - Evaluate.evaluate (HasIntegral.indefinite s.poly) knot.x)) knot.x = knot.y
  rw [htr]; ring

/-- integration keeps the segment's end -/
theorem segment_integral_end {T I : Type} [HasIntegral T (Knot K) I] [Evaluate I K] [Translate I K]
    (s : Segment K T) (knot : Knot K) :
    (HasIntegral.integral s knot).«end» = s.«end» := rfl

theorem segment_indefinite_end {T I : Type} [HasIntegral T (Knot K) I] [Evaluate I K] [Translate I K]
    (s : Segment K T) :
    (HasIntegral.indefinite s).«end» = s.«end» := rfl

/-- the hypothesis of `segment_integral_knot` holds for the polynomial pieces (shown for Poly3; `exact_simp; ring`
proves every degree) … -/
theorem poly3_translate_eval (q : Poly3 K) (v x : K) :
    Evaluate.evaluate (Translate.translate q v) x = Evaluate.evaluate q x + v := by
  exact_simp; ring

/-- … so a cubic segment integrates through its knot -/
example (s : Segment K (Poly2 K)) (knot : Knot K) :
    Evaluate.evaluate (HasIntegral.integral s knot) knot.x = knot.y :=
  segment_integral_knot poly3_translate_eval s knot

end field

/-! ## analytic statements over ℝ -/
section real
variable [Transc ℝ]
attribute [local instance] exactFL

/-! ### degree 0 -/

theorem poly0_integral_hasDerivAt (p : Poly0 ℝ) (knot : Knot ℝ) (x : ℝ) :
    HasDerivAt (fun x => Evaluate.evaluate (HasIntegral.integral p knot) x) (Evaluate.evaluate p x) x := by
  have h := poly1_hasDerivAt (HasIntegral.integral p knot) x
  rwa [poly0_derivative_integral] at h

theorem poly0_indefinite_hasDerivAt (p : Poly0 ℝ) (x : ℝ) :
    HasDerivAt (fun x => Evaluate.evaluate (HasIntegral.indefinite p) x) (Evaluate.evaluate p x) x := by
  have h := poly1_hasDerivAt (HasIntegral.indefinite p) x
  rwa [poly0_derivative_indefinite] at h

/-- F(b) − F(a) is the exact integral of p over [a,b], for all a, b (in either order) -/
theorem poly0_integral_ftc (p : Poly0 ℝ) (knot : Knot ℝ) (a b : ℝ) :
    Evaluate.evaluate (HasIntegral.integral p knot) b - Evaluate.evaluate (HasIntegral.integral p knot) a
      = ∫ x in a..b, Evaluate.evaluate p x :=
  ftc_of_hasDerivAt _ _ a b (poly0_integral_hasDerivAt p knot) (poly0_continuous p)

theorem poly0_indefinite_ftc (p : Poly0 ℝ) (a b : ℝ) :
    Evaluate.evaluate (HasIntegral.indefinite p) b - Evaluate.evaluate (HasIntegral.indefinite p) a
      = ∫ x in a..b, Evaluate.evaluate p x :=
  ftc_of_hasDerivAt _ _ a b (poly0_indefinite_hasDerivAt p) (poly0_continuous p)

/-! ### degree 1 -/

theorem poly1_integral_hasDerivAt (p : Poly1 ℝ) (knot : Knot ℝ) (x : ℝ) :
    HasDerivAt (fun x => Evaluate.evaluate (HasIntegral.integral p knot) x) (Evaluate.evaluate p x) x := by
  have h := poly2_hasDerivAt (HasIntegral.integral p knot) x
  rwa [poly1_derivative_integral] at h

theorem poly1_indefinite_hasDerivAt (p : Poly1 ℝ) (x : ℝ) :
    HasDerivAt (fun x => Evaluate.evaluate (HasIntegral.indefinite p) x) (Evaluate.evaluate p x) x := by
  have h := poly2_hasDerivAt (HasIntegral.indefinite p) x
  rwa [poly1_derivative_indefinite] at h

/-- F(b) − F(a) is the exact integral of p over [a,b], for all a, b (in either order) -/
theorem poly1_integral_ftc (p : Poly1 ℝ) (knot : Knot ℝ) (a b : ℝ) :
    Evaluate.evaluate (HasIntegral.integral p knot) b - Evaluate.evaluate (HasIntegral.integral p knot) a
      = ∫ x in a..b, Evaluate.evaluate p x :=
  ftc_of_hasDerivAt _ _ a b (poly1_integral_hasDerivAt p knot) (poly1_continuous p)

theorem poly1_indefinite_ftc (p : Poly1 ℝ) (a b : ℝ) :
    Evaluate.evaluate (HasIntegral.indefinite p) b - Evaluate.evaluate (HasIntegral.indefinite p) a
      = ∫ x in a..b, Evaluate.evaluate p x :=
  ftc_of_hasDerivAt _ _ a b (poly1_indefinite_hasDerivAt p) (poly1_continuous p)

/-! ### degree 2 -/

theorem poly2_integral_hasDerivAt (p : Poly2 ℝ) (knot : Knot ℝ) (x : ℝ) :
    HasDerivAt (fun x => Evaluate.evaluate (HasIntegral.integral p knot) x) (Evaluate.evaluate p x) x := by
  have h := poly3_hasDerivAt (HasIntegral.integral p knot) x
  rwa [poly2_derivative_integral] at h

theorem poly2_indefinite_hasDerivAt (p : Poly2 ℝ) (x : ℝ) :
    HasDerivAt (fun x => Evaluate.evaluate (HasIntegral.indefinite p) x) (Evaluate.evaluate p x) x := by
  have h := poly3_hasDerivAt (HasIntegral.indefinite p) x
  rwa [poly2_derivative_indefinite] at h

/-- F(b) − F(a) is the exact integral of p over [a,b], for all a, b (in either order) -/
theorem poly2_integral_ftc (p : Poly2 ℝ) (knot : Knot ℝ) (a b : ℝ) :
    Evaluate.evaluate (HasIntegral.integral p knot) b - Evaluate.evaluate (HasIntegral.integral p knot) a
      = ∫ x in a..b, Evaluate.evaluate p x :=
  ftc_of_hasDerivAt _ _ a b (poly2_integral_hasDerivAt p knot) (poly2_continuous p)

theorem poly2_indefinite_ftc (p : Poly2 ℝ) (a b : ℝ) :
    Evaluate.evaluate (HasIntegral.indefinite p) b - Evaluate.evaluate (HasIntegral.indefinite p) a
      = ∫ x in a..b, Evaluate.evaluate p x :=
  ftc_of_hasDerivAt _ _ a b (poly2_indefinite_hasDerivAt p) (poly2_continuous p)

/-! ### degree 3 -/

theorem poly3_integral_hasDerivAt (p : Poly3 ℝ) (knot : Knot ℝ) (x : ℝ) :
    HasDerivAt (fun x => Evaluate.evaluate (HasIntegral.integral p knot) x) (Evaluate.evaluate p x) x := by
  have h := poly4_hasDerivAt (HasIntegral.integral p knot) x
  rwa [poly3_derivative_integral] at h

theorem poly3_indefinite_hasDerivAt (p : Poly3 ℝ) (x : ℝ) :
    HasDerivAt (fun x => Evaluate.evaluate (HasIntegral.indefinite p) x) (Evaluate.evaluate p x) x := by
  have h := poly4_hasDerivAt (HasIntegral.indefinite p) x
  rwa [poly3_derivative_indefinite] at h

/-- F(b) − F(a) is the exact integral of p over [a,b], for all a, b (in either order) -/
theorem poly3_integral_ftc (p : Poly3 ℝ) (knot : Knot ℝ) (a b : ℝ) :
    Evaluate.evaluate (HasIntegral.integral p knot) b - Evaluate.evaluate (HasIntegral.integral p knot) a
      = ∫ x in a..b, Evaluate.evaluate p x :=
  ftc_of_hasDerivAt _ _ a b (poly3_integral_hasDerivAt p knot) (poly3_continuous p)

theorem poly3_indefinite_ftc (p : Poly3 ℝ) (a b : ℝ) :
    Evaluate.evaluate (HasIntegral.indefinite p) b - Evaluate.evaluate (HasIntegral.indefinite p) a
      = ∫ x in a..b, Evaluate.evaluate p x :=
  ftc_of_hasDerivAt _ _ a b (poly3_indefinite_hasDerivAt p) (poly3_continuous p)

/-! ### degree 4 -/

theorem poly4_integral_hasDerivAt (p : Poly4 ℝ) (knot : Knot ℝ) (x : ℝ) :
    HasDerivAt (fun x => Evaluate.evaluate (HasIntegral.integral p knot) x) (Evaluate.evaluate p x) x := by
  have h := poly5_hasDerivAt (HasIntegral.integral p knot) x
  rwa [poly4_derivative_integral] at h

theorem poly4_indefinite_hasDerivAt (p : Poly4 ℝ) (x : ℝ) :
    HasDerivAt (fun x => Evaluate.evaluate (HasIntegral.indefinite p) x) (Evaluate.evaluate p x) x := by
  have h := poly5_hasDerivAt (HasIntegral.indefinite p) x
  rwa [poly4_derivative_indefinite] at h

/-- F(b) − F(a) is the exact integral of p over [a,b], for all a, b (in either order) -/
theorem poly4_integral_ftc (p : Poly4 ℝ) (knot : Knot ℝ) (a b : ℝ) :
    Evaluate.evaluate (HasIntegral.integral p knot) b - Evaluate.evaluate (HasIntegral.integral p knot) a
      = ∫ x in a..b, Evaluate.evaluate p x :=
  ftc_of_hasDerivAt _ _ a b (poly4_integral_hasDerivAt p knot) (poly4_continuous p)

theorem poly4_indefinite_ftc (p : Poly4 ℝ) (a b : ℝ) :
    Evaluate.evaluate (HasIntegral.indefinite p) b - Evaluate.evaluate (HasIntegral.indefinite p) a
      = ∫ x in a..b, Evaluate.evaluate p x :=
  ftc_of_hasDerivAt _ _ a b (poly4_indefinite_hasDerivAt p) (poly4_continuous p)

/-! ### degree 5 -/

theorem poly5_integral_hasDerivAt (p : Poly5 ℝ) (knot : Knot ℝ) (x : ℝ) :
    HasDerivAt (fun x => Evaluate.evaluate (HasIntegral.integral p knot) x) (Evaluate.evaluate p x) x := by
  have h := poly6_hasDerivAt (HasIntegral.integral p knot) x
  rwa [poly5_derivative_integral] at h

theorem poly5_indefinite_hasDerivAt (p : Poly5 ℝ) (x : ℝ) :
    HasDerivAt (fun x => Evaluate.evaluate (HasIntegral.indefinite p) x) (Evaluate.evaluate p x) x := by
  have h := poly6_hasDerivAt (HasIntegral.indefinite p) x
  rwa [poly5_derivative_indefinite] at h

/-- F(b) − F(a) is the exact integral of p over [a,b], for all a, b (in either order) -/
theorem poly5_integral_ftc (p : Poly5 ℝ) (knot : Knot ℝ) (a b : ℝ) :
    Evaluate.evaluate (HasIntegral.integral p knot) b - Evaluate.evaluate (HasIntegral.integral p knot) a
      = ∫ x in a..b, Evaluate.evaluate p x :=
  ftc_of_hasDerivAt _ _ a b (poly5_integral_hasDerivAt p knot) (poly5_continuous p)

theorem poly5_indefinite_ftc (p : Poly5 ℝ) (a b : ℝ) :
    Evaluate.evaluate (HasIntegral.indefinite p) b - Evaluate.evaluate (HasIntegral.indefinite p) a
      = ∫ x in a..b, Evaluate.evaluate p x :=
  ftc_of_hasDerivAt _ _ a b (poly5_indefinite_hasDerivAt p) (poly5_continuous p)

/-! ### degree 6 -/

theorem poly6_integral_hasDerivAt (p : Poly6 ℝ) (knot : Knot ℝ) (x : ℝ) :
    HasDerivAt (fun x => Evaluate.evaluate (HasIntegral.integral p knot) x) (Evaluate.evaluate p x) x := by
  have h := poly7_hasDerivAt (HasIntegral.integral p knot) x
  rwa [poly6_derivative_integral] at h

theorem poly6_indefinite_hasDerivAt (p : Poly6 ℝ) (x : ℝ) :
    HasDerivAt (fun x => Evaluate.evaluate (HasIntegral.indefinite p) x) (Evaluate.evaluate p x) x := by
  have h := poly7_hasDerivAt (HasIntegral.indefinite p) x
  rwa [poly6_derivative_indefinite] at h

/-- F(b) − F(a) is the exact integral of p over [a,b], for all a, b (in either order) -/
theorem poly6_integral_ftc (p : Poly6 ℝ) (knot : Knot ℝ) (a b : ℝ) :
    Evaluate.evaluate (HasIntegral.integral p knot) b - Evaluate.evaluate (HasIntegral.integral p knot) a
      = ∫ x in a..b, Evaluate.evaluate p x :=
  ftc_of_hasDerivAt _ _ a b (poly6_integral_hasDerivAt p knot) (poly6_continuous p)

theorem poly6_indefinite_ftc (p : Poly6 ℝ) (a b : ℝ) :
    Evaluate.evaluate (HasIntegral.indefinite p) b - Evaluate.evaluate (HasIntegral.indefinite p) a
      = ∫ x in a..b, Evaluate.evaluate p x :=
  ftc_of_hasDerivAt _ _ a b (poly6_indefinite_hasDerivAt p) (poly6_continuous p)

/-! ### degree 7 -/

theorem poly7_integral_hasDerivAt (p : Poly7 ℝ) (knot : Knot ℝ) (x : ℝ) :
    HasDerivAt (fun x => Evaluate.evaluate (HasIntegral.integral p knot) x) (Evaluate.evaluate p x) x := by
  have h := poly8_hasDerivAt (HasIntegral.integral p knot) x
  rwa [poly7_derivative_integral] at h

theorem poly7_indefinite_hasDerivAt (p : Poly7 ℝ) (x : ℝ) :
    HasDerivAt (fun x => Evaluate.evaluate (HasIntegral.indefinite p) x) (Evaluate.evaluate p x) x := by
  have h := poly8_hasDerivAt (HasIntegral.indefinite p) x
  rwa [poly7_derivative_indefinite] at h

/-- F(b) − F(a) is the exact integral of p over [a,b], for all a, b (in either order) -/
theorem poly7_integral_ftc (p : Poly7 ℝ) (knot : Knot ℝ) (a b : ℝ) :
    Evaluate.evaluate (HasIntegral.integral p knot) b - Evaluate.evaluate (HasIntegral.integral p knot) a
      = ∫ x in a..b, Evaluate.evaluate p x :=
  ftc_of_hasDerivAt _ _ a b (poly7_integral_hasDerivAt p knot) (poly7_continuous p)

theorem poly7_indefinite_ftc (p : Poly7 ℝ) (a b : ℝ) :
    Evaluate.evaluate (HasIntegral.indefinite p) b - Evaluate.evaluate (HasIntegral.indefinite p) a
      = ∫ x in a..b, Evaluate.evaluate p x :=
  ftc_of_hasDerivAt _ _ a b (poly7_indefinite_hasDerivAt p) (poly7_continuous p)

end real

/-! ## sanity: concrete instances -/
section example_
noncomputable local instance : Transc ℚ := ⟨fun x => x, fun x => x⟩
attribute [local instance] exactFL
/-- ∫ (1 − 2x + 3x²) = x − x² + x³, through (2, 10): constant 4 -/
example : HasIntegral.integral (⟨⟨1, -2, 3⟩⟩ : Poly2 ℚ) ⟨2, 10⟩ = (⟨⟨4, 1, -1, 1⟩⟩ : Poly3 ℚ) := by
  rw [poly2_integral_lanes, poly2_indefinite, poly3_eval]; norm_num
example : Evaluate.evaluate (HasIntegral.integral (⟨⟨1, -2, 3⟩⟩ : Poly2 ℚ) ⟨2, 10⟩) 2 = 10 :=
  poly2_integral_knot _ _
end example_

end PP.Props.C07
