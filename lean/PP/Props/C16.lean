import PP.Props.C03
import PP.Props.C12
import PP.Props.C13
import PP.Hand.Constructors
/-!
# C16 — evaluation never panics on well-formed input; NaN queries are harmless

A panic of the Rust is `none` in the hand models (ties: every campaign runs the real code under
`catch_unwind` and compares panic / no panic with the model).  Items in the translated subset contain no
construct that can panic (no `unwrap`, `expect`, `panic!`, non-constant index, integer arithmetic): a
successfully translated item is panic-free by construction (DESIGN.md §2).
-/
set_option linter.unusedSectionVars false
namespace PP.Props.C16
open FloatLike OrdLaws Hand PP.Props.C02 PP.Lemmas.Evaluator PP.Lemmas.Merge
variable {F T P : Type} [FloatLike F]

/-- direct evaluation accepts EVERY argument (NaN, ±∞ included) on a non-empty function -/
theorem direct_total [Evaluate T F] (p : Piecewise F T) (h : p.segments ≠ []) (x : F) :
    ∃ y, pwEvaluate p x = some y := by
  have := PP.Props.C02.pwEvaluate_isSome p x h
  cases hp : pwEvaluate p x with
  | none => rw [hp] at this; cases this
  | some y => exact ⟨y, rfl⟩

/-- the evaluator accepts every history over all of `F` on a non-empty function (no well-formedness
needed for totality): one answer per query -/
theorem evaluator_total [Evaluate T F] (segs : List (Segment F T)) (h : segs ≠ []) (xs : List F) :
    ∃ ys, evaluatorRun segs xs = some ys ∧ ys.length = xs.length := by
  cases segs with
  | nil => exact absurd rfl h
  | cons s rest =>
    refine ⟨_, rfl, ?_⟩
    generalize (⟨[], (s :: rest).dropLast, (s :: rest).getLast (by simp), _⟩ : EvSt F T) = st
    induction xs generalizing st with
    | nil => rfl
    | cons x xs ih => simp only [evRun, List.length_cons]; rw [ih]

/-- **NaN queries are harmless**: on a well-formed function, for every history over all of `F` — NaN at any
position — every answer (those at NaN positions too) is what direct evaluation returns for that argument;
in particular a NaN query does not change later answers. -/
theorem nan_harmless [OrdLaws F] [Evaluate T F] (segs : List (Segment F T)) (hwf : WF segs) (xs : List F) :
    (evaluatorRun segs xs).map (fun ys => ys.map some) = some (xs.map (pwEvaluate ⟨segs⟩)) :=
  PP.Props.C03.evaluator_eq_direct segs hwf xs

theorem advance_ne_nil (cur : List (Segment F T)) (x : F) (h : cur ≠ []) : evalvAdvance cur x ≠ [] := by
  induction cur with
  | nil => exact absurd rfl h
  | cons s rest ih =>
    cases rest with
    | nil => simp [evalvAdvance]
    | cons s' rest' =>
      by_cases hl : lt x s.end = true
      · simp [evalvAdvance, hl]
      · have hl' : lt x s.end = false := by simpa using hl
        simp only [evalvAdvance, hl', Bool.false_eq_true, if_false]; exact ih (by simp)

/-- `evaluate_v` accepts every argument sequence over all of `F` on a non-empty function: one output per input -/
theorem evaluateV_total [Evaluate T F] (p : Piecewise F T) (h : p.segments ≠ []) (xs : List F) :
    ∃ ys, evaluateV p xs = some ys ∧ ys.length = xs.length := by
  unfold evaluateV
  cases hs : p.segments with
  | nil => exact absurd hs h
  | cons s rest =>
    refine ⟨_, rfl, ?_⟩
    have hne : (s :: rest) ≠ [] := by simp
    generalize (s :: rest) = cur at hne
    induction xs generalizing cur with
    | nil => rfl
    | cons x xs ih =>
      simp only [evalvRun]
      have := advance_ne_nil cur x hne
      cases ha : evalvAdvance cur x with
      | nil => exact absurd ha this
      | cons h0 t0 => simp only [List.length_cons]; rw [ih (h0 :: t0) (by simp)]

/-- `+` / `-`: no panic on well-formed operands … -/
theorem merge_total [OrdLaws F] (op : T → T → P) (f g : List (Segment F T)) (hf : WF f) (hg : WF g) :
    ∃ res, merge op f g = some res := by
  obtain ⟨res, h, _⟩ := PP.Props.C13.merge_wf op f g hf hg; exact ⟨res, h⟩

/-- … and the documented rejections do panic: an empty operand, … -/
theorem merge_rejects_empty [OrdLaws F] (op : T → T → P) (f g : List (Segment F T)) (h : f = [] ∨ g = []) :
    merge op f g = none := by
  rcases h with rfl | rfl
  · exact PP.Props.C13.merge_empty_left op g
  · exact PP.Props.C13.merge_empty_right op f

/-- … a NaN breakpoint in the first pair compared (every pair of cursors is compared with
`partial_cmp().unwrap()`; shown for the head pair). -/
theorem merge_rejects_nan_head [OrdLaws F] (op : T → T → P) (a b : Segment F T) (fs gs : List (Segment F T))
    (h : isNaN a.end = true ∨ isNaN b.end = true) : merge op (a :: fs) (b :: gs) = none := by
  have hc : pcmp a.end b.end = none := (pcmp_none_iff _ _).mpr h
  cases fs <;> cases gs <;> simp [merge, hc]

/-- `linear`: the only panic is the documented `assert!(knots.len() >= 2)` -/
theorem linear_total (ks : List (Knot F)) : (Hand.linear ks).isSome = decide (2 ≤ ks.length) := by
  match ks with
  | [] => rfl
  | [_] => rfl
  | _ :: _ :: _ => simp [Hand.linear]

theorem fMid_length (ks : List (Knot F)) : (Hand.fMid ks).length = ks.length - 2 := by
  match ks with
  | [] => rfl
  | [_] => rfl
  | [_, _] => rfl
  | a :: b :: c :: rest =>
    simp only [Hand.fMid, List.length_cons]
    rw [fMid_length (b :: c :: rest)]; simp

theorem lastTwo_isSome {A : Type} (l : List A) (h : 2 ≤ l.length) : (Hand.lastTwo l).isSome = true := by
  match l, h with
  | [_, _], _ => rfl
  | a :: b :: c :: rest, _ =>
    simp only [Hand.lastTwo]; exact lastTwo_isSome (b :: c :: rest) (by simp)

/-- `constrained_spline`: the only panic is the documented `assert!(ks0n.len() >= 3)` (the internal
`unwrap`s / `f_mid[0]` cannot fail once there are three knots) -/
theorem spline_total (ks : List (Knot F)) : (Hand.constrainedSpline ks).isSome = decide (3 ≤ ks.length) := by
  match ks with
  | [] => rfl
  | [_] => rfl
  | [_, _] => rfl
  | a :: b :: c :: rest =>
    have h2 := lastTwo_isSome (a :: b :: c :: rest) (by simp)
    cases hl : Hand.lastTwo (a :: b :: c :: rest) with
    | none => rw [hl] at h2; cases h2
    | some kk =>
      have hfm : Hand.fMid (a :: b :: c :: rest) = Spline.f_dx a b c :: Hand.fMid (b :: c :: rest) := rfl
      simp only [Hand.constrainedSpline, Hand.fAll, hl, hfm, List.head?_cons]
      cases hg : (Spline.f_dx a b c :: Hand.fMid (b :: c :: rest)).getLast? with
      | none => simp at hg
      | some v => simp at hg ⊢

end PP.Props.C16
