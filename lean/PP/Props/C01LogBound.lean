import PP.Props.C01Bound
import PP.Props.C10Bound
import PP.Model.LogPoly.EvaluateAttr
import Mathlib.Analysis.SpecialFunctions.Log.Basic
/-!
# C01 — the `Log` clause, FLOATING-POINT part

Property C01, last sentence: *"A Log-wrapped polynomial evaluated at v>0 returns that polynomial's value at ln v
within the same bound plus the propagated one-ulp error of ln."*  `PP/Props/C01.lean` has the every-interpretation
identity `log_eval : evaluate (Log p) v = evaluate p (ln v)` (`rfl`); this file proves the quantitative clause for
the GENERATED instance `inst_Evaluate_Log_T` composed with the generated `inst_Evaluate_Poly⟨k⟩` (k = 0..8),
**run in rounded arithmetic** `Rounded M`, for every rounding model `M : RModel ℝ` with `M.u ≤ 2⁻⁵³`.

## Setting / what is ASSUMED
* the **standard model** (`PP/Sem/Rounded.lean`): every operation returns `rnd (exact result)`, `|rnd t − t| ≤ u·|t|`
  (no overflow / underflow), `u ≤ 2⁻⁵³`;
* **libm accuracy**: `ln` is `rnd (Real.log ·)` — the computed logarithm is `L̂ = rnd (ln v) = ln v·(1+δ)`, `|δ| ≤ u`
  (one ulp in the sense of the model; exactly what `C10Bound` / `C09Bound` assume);
* the coefficients `cᵢ` and the argument `v` are exact reals.  `v > 0` is carried as a hypothesis because the
  property says so; it is not used (`Real.log` is total, and the bound is in terms of `ln v` itself).

## Result, for every degree k = 0..8 (`log_poly⟨k⟩_rounding`)
With `L = ln v`, `L̂ = rnd L`, `m = max |L̂| |L|`:

  `|computed − Σᵢ cᵢ Lⁱ| ≤ 4(k+2)·u·Σᵢ |cᵢ||L̂|ⁱ  +  u·|L|·Σᵢ i·|cᵢ|·m^(i−1)`

i.e. the C01 bound of the polynomial *at the argument actually used* (`poly⟨k⟩_rounding`) plus the first-order
propagation of the one rounding of `ln` (mean value theorem on each monomial, `|aⁱ − bⁱ| ≤ i·|a − b|·max(|a|,|b|)^(i−1)`).
The constants are explicit: `4(k+2)` and `1` (one rounding of `ln`).  Degree 0 has no propagated term (a constant).
Corollaries: `max_rnd_le` (`m ≤ (1+u)·|ln v|`, so the propagated term is `≤ u·|L|·Σ i|cᵢ|((1+u)|L|)^(i−1)`),
`le_two_pow_log` + `log_poly3_rounding_c01` (`u` replaced by `2⁻⁵³`: the clause verbatim; shown for the cubic).

The work is done once, for coefficient lists: `polySum_sub_le` (`|P(a) − P(b)| ≤ |a − b|·D(max |a| |b|)`,
`D = derivSum` = Σ i·|cᵢ|·m^(i−1) in Horner form, by induction on the list) and `log_compose`; each degree only
converts between the list form and the explicit sums (`ring`).
-/
set_option linter.unusedSectionVars false
set_option linter.unusedVariables false
namespace PP.Props.C01LogBound
open PP.Props.C01 PP.Props.C01Bound

/-! ## the generic part: coefficient lists over a linearly ordered field -/
section generic
variable {K : Type} [Field K] [LinearOrder K] [IsStrictOrderedRing K]

/-- `Σᵢ i·|cᵢ|·m^(i−1)` (the derivative of `Σ|cᵢ|mⁱ`), in Horner form: `D(c :: cs)(m) = A(cs)(m) + m·D(cs)(m)`
with `A(cs)(m) = Σ|cᵢ|mⁱ` -/
def derivSum : List K → K → K
  | [], _ => 0
  | _ :: cs, m => polySum (cs.map abs) m + m * derivSum cs m

theorem polySum_abs_nonneg' (cs : List K) {m : K} (hm : 0 ≤ m) : 0 ≤ polySum (cs.map abs) m := by
  induction cs with
  | nil => simp [polySum]
  | cons c cs ih =>
    simp only [List.map_cons, polySum]
    have := mul_nonneg hm ih
    have := abs_nonneg c
    linarith

theorem derivSum_nonneg (cs : List K) {m : K} (hm : 0 ≤ m) : 0 ≤ derivSum cs m := by
  induction cs with
  | nil => simp [derivSum]
  | cons c cs ih =>
    simp only [derivSum]
    have := mul_nonneg hm ih
    have := polySum_abs_nonneg' cs hm
    linarith

/-- `|P(a)| ≤ Σ|cᵢ|mⁱ` whenever `|a| ≤ m` -/
theorem abs_polySum_le_of_le (cs : List K) {a m : K} (ha : |a| ≤ m) : |polySum cs a| ≤ polySum (cs.map abs) m := by
  have hm : 0 ≤ m := le_trans (abs_nonneg a) ha
  induction cs with
  | nil => simp [polySum]
  | cons c cs ih =>
    simp only [List.map_cons, polySum]
    calc |c + a * polySum cs a| ≤ |c| + |a * polySum cs a| := abs_add_le _ _
      _ = |c| + |a| * |polySum cs a| := by rw [abs_mul]
      _ ≤ |c| + m * polySum (cs.map abs) m := by
          have := mul_le_mul ha ih (abs_nonneg _) hm
          linarith

/-- **mean value bound for a polynomial**: `|P(a) − P(b)| ≤ |a − b|·Σᵢ i·|cᵢ|·m^(i−1)` for every `m ≥ |a|, |b|` -/
theorem polySum_sub_le (cs : List K) {a b m : K} (ha : |a| ≤ m) (hb : |b| ≤ m) :
    |polySum cs a - polySum cs b| ≤ |a - b| * derivSum cs m := by
  have hm : 0 ≤ m := le_trans (abs_nonneg a) ha
  induction cs with
  | nil => simp [polySum, derivSum]
  | cons c cs ih =>
    simp only [polySum, derivSum]
    have e : c + a * polySum cs a - (c + b * polySum cs b)
        = (a - b) * polySum cs a + b * (polySum cs a - polySum cs b) := by ring
    rw [e]
    have h1 : |(a - b) * polySum cs a| ≤ |a - b| * polySum (cs.map abs) m := by
      rw [abs_mul]; exact mul_le_mul_of_nonneg_left (abs_polySum_le_of_le cs ha) (abs_nonneg _)
    have h2 : |b * (polySum cs a - polySum cs b)| ≤ m * (|a - b| * derivSum cs m) := by
      rw [abs_mul]
      exact mul_le_mul hb ih (abs_nonneg _) hm
    calc _ ≤ |(a - b) * polySum cs a| + |b * (polySum cs a - polySum cs b)| := abs_add_le _ _
      _ ≤ |a - b| * polySum (cs.map abs) m + m * (|a - b| * derivSum cs m) := add_le_add h1 h2
      _ = _ := by ring

/-- the monomial form of the same fact (Mathlib's `abs_pow_sub_pow_le`), for the record -/
theorem monomial_sub_le (c a b : K) (i : ℕ) :
    |c * a ^ i - c * b ^ i| ≤ |a - b| * (i * |c| * max |a| |b| ^ (i - 1)) := by
  rw [← mul_sub, abs_mul]
  have := mul_le_mul_of_nonneg_left (abs_pow_sub_pow_le (a := a) (b := b) (n := i)) (abs_nonneg c)
  calc _ ≤ |c| * (|a - b| * i * max |a| |b| ^ (i - 1)) := this
    _ = _ := by ring

/-- **the composition** (one generic lemma for all degrees): a value `comp` computed from the rounded argument
`Lh = rnd L` within `B` of `P(Lh)` is within `B + u·|L|·D(max |Lh| |L|)` of `P(L)` -/
theorem log_compose (M : RModel K) (cs : List K) (L comp B : K)
    (h1 : |comp - polySum cs (M.rnd L)| ≤ B) :
    |comp - polySum cs L| ≤ B + M.u * |L| * derivSum cs (max |M.rnd L| |L|) := by
  have h2 := polySum_sub_le cs (a := M.rnd L) (b := L) (m := max |M.rnd L| |L|) (le_max_left _ _) (le_max_right _ _)
  have hD := derivSum_nonneg cs (m := max |M.rnd L| |L|) (le_trans (abs_nonneg _) (le_max_right _ _))
  have h3 : |M.rnd L - L| * derivSum cs (max |M.rnd L| |L|) ≤ M.u * |L| * derivSum cs (max |M.rnd L| |L|) :=
    mul_le_mul_of_nonneg_right (M.h L) hD
  calc |comp - polySum cs L| = |(comp - polySum cs (M.rnd L)) + (polySum cs (M.rnd L) - polySum cs L)| := by ring_nf
    _ ≤ |comp - polySum cs (M.rnd L)| + |polySum cs (M.rnd L) - polySum cs L| := abs_add_le _ _
    _ ≤ _ := by linarith

end generic

/-! ## the generated `Evaluate (Log (Poly⟨k⟩ F)) F` run in `Rounded M`, over ℝ with `ln = Real.log` -/

noncomputable local instance instTranscReal : Transc ℝ := ⟨Real.log, Real.exp⟩

section runs
variable (M : RModel ℝ)
/-- the generated `evaluate` of `Log<Poly⟨k⟩>` run in rounded arithmetic on the exact coefficients of `p` at the
exact argument `v` (GENERATED block: identical up to the degree) -/
@[reducible] noncomputable def logPoly0_evalRounded (p : Log (Poly0 ℝ)) (v : ℝ) : ℝ :=
  (Evaluate.evaluate (⟨p._0.mapF Rounded.mk⟩ : Log (Poly0 (Rounded M))) (⟨v⟩ : Rounded M)).val
@[reducible] noncomputable def logPoly1_evalRounded (p : Log (Poly1 ℝ)) (v : ℝ) : ℝ :=
  (Evaluate.evaluate (⟨p._0.mapF Rounded.mk⟩ : Log (Poly1 (Rounded M))) (⟨v⟩ : Rounded M)).val
@[reducible] noncomputable def logPoly2_evalRounded (p : Log (Poly2 ℝ)) (v : ℝ) : ℝ :=
  (Evaluate.evaluate (⟨p._0.mapF Rounded.mk⟩ : Log (Poly2 (Rounded M))) (⟨v⟩ : Rounded M)).val
@[reducible] noncomputable def logPoly3_evalRounded (p : Log (Poly3 ℝ)) (v : ℝ) : ℝ :=
  (Evaluate.evaluate (⟨p._0.mapF Rounded.mk⟩ : Log (Poly3 (Rounded M))) (⟨v⟩ : Rounded M)).val
@[reducible] noncomputable def logPoly4_evalRounded (p : Log (Poly4 ℝ)) (v : ℝ) : ℝ :=
  (Evaluate.evaluate (⟨p._0.mapF Rounded.mk⟩ : Log (Poly4 (Rounded M))) (⟨v⟩ : Rounded M)).val
@[reducible] noncomputable def logPoly5_evalRounded (p : Log (Poly5 ℝ)) (v : ℝ) : ℝ :=
  (Evaluate.evaluate (⟨p._0.mapF Rounded.mk⟩ : Log (Poly5 (Rounded M))) (⟨v⟩ : Rounded M)).val
@[reducible] noncomputable def logPoly6_evalRounded (p : Log (Poly6 ℝ)) (v : ℝ) : ℝ :=
  (Evaluate.evaluate (⟨p._0.mapF Rounded.mk⟩ : Log (Poly6 (Rounded M))) (⟨v⟩ : Rounded M)).val
@[reducible] noncomputable def logPoly7_evalRounded (p : Log (Poly7 ℝ)) (v : ℝ) : ℝ :=
  (Evaluate.evaluate (⟨p._0.mapF Rounded.mk⟩ : Log (Poly7 (Rounded M))) (⟨v⟩ : Rounded M)).val
@[reducible] noncomputable def logPoly8_evalRounded (p : Log (Poly8 ℝ)) (v : ℝ) : ℝ :=
  (Evaluate.evaluate (⟨p._0.mapF Rounded.mk⟩ : Log (Poly8 (Rounded M))) (⟨v⟩ : Rounded M)).val

/-- the rounded run of `Log p` at `v` IS the rounded run of `p` at the computed logarithm `rnd (ln v)` (by `rfl`:
nothing about the generated instance is restated; shown for the top degree, the others are identical) -/
theorem logPoly8_evalRounded_eq (p : Log (Poly8 ℝ)) (v : ℝ) :
    logPoly8_evalRounded M p v = p._0.evalRounded M (M.rnd (Real.log v)) := rfl
end runs

section degrees
variable (M : RModel ℝ) (hu : M.u ≤ (2 : ℝ) ^ (-53 : ℤ))
include hu

/-- C01, `Log` clause, degree 0 (a constant: the error of `ln` does not propagate) -/
theorem log_poly0_rounding (p : Log (Poly0 ℝ)) (v : ℝ) (hv : 0 < v) :
    |logPoly0_evalRounded M p v - p._0._0| ≤ 4 * (0 + 2) * M.u * |p._0._0| :=
  poly0_rounding M hu p._0 (M.rnd (Real.log v))

/-- C01, `Log` clause, degree 1 -/
theorem log_poly1_rounding (p : Log (Poly1 ℝ)) (v : ℝ) (hv : 0 < v) :
    let c := p._0._0; let L := Real.log v; let Lh := M.rnd L; let m := max |Lh| |L|
    |logPoly1_evalRounded M p v - (c.a0 + c.a1 * L)|
      ≤ 4 * (1 + 2) * M.u * (|c.a0| + |c.a1| * |Lh|) + M.u * |L| * |c.a1| := by
  intro c L Lh m
  have h0 := poly1_rounding M hu p._0 (M.rnd L)
  have h := log_compose M [c.a0, c.a1] L (logPoly1_evalRounded M p v)
    (4 * (1 + 2) * M.u * (|c.a0| + |c.a1| * |Lh|))
    (by simp only [polySum]; refine le_of_eq_of_le ?_ h0; congr 2; ring)
  simp only [polySum, derivSum, List.map_cons, List.map_nil] at h
  refine le_of_eq_of_le ?_ (h.trans (le_of_eq ?_))
  · congr 2; ring
  · ring

/-- C01, `Log` clause, degree 2 -/
theorem log_poly2_rounding (p : Log (Poly2 ℝ)) (v : ℝ) (hv : 0 < v) :
    let c := p._0._0; let L := Real.log v; let Lh := M.rnd L; let m := max |Lh| |L|
    |logPoly2_evalRounded M p v - (c.a0 + c.a1 * L + c.a2 * L ^ 2)|
      ≤ 4 * (2 + 2) * M.u * (|c.a0| + |c.a1| * |Lh| + |c.a2| * |Lh| ^ 2)
        + M.u * |L| * (|c.a1| + 2 * |c.a2| * m) := by
  intro c L Lh m
  have h0 := poly2_rounding M hu p._0 (M.rnd L)
  have h := log_compose M [c.a0, c.a1, c.a2] L (logPoly2_evalRounded M p v)
    (4 * (2 + 2) * M.u * (|c.a0| + |c.a1| * |Lh| + |c.a2| * |Lh| ^ 2))
    (by simp only [polySum]; refine le_of_eq_of_le ?_ h0; congr 2; ring)
  simp only [polySum, derivSum, List.map_cons, List.map_nil] at h
  refine le_of_eq_of_le ?_ (h.trans (le_of_eq ?_))
  · congr 2; ring
  · ring

/-- C01, `Log` clause, degree 3 -/
theorem log_poly3_rounding (p : Log (Poly3 ℝ)) (v : ℝ) (hv : 0 < v) :
    let c := p._0._0; let L := Real.log v; let Lh := M.rnd L; let m := max |Lh| |L|
    |logPoly3_evalRounded M p v - (c.a0 + c.a1 * L + c.a2 * L ^ 2 + c.a3 * L ^ 3)|
      ≤ 4 * (3 + 2) * M.u * (|c.a0| + |c.a1| * |Lh| + |c.a2| * |Lh| ^ 2 + |c.a3| * |Lh| ^ 3)
        + M.u * |L| * (|c.a1| + 2 * |c.a2| * m + 3 * |c.a3| * m ^ 2) := by
  intro c L Lh m
  have h0 := poly3_rounding M hu p._0 (M.rnd L)
  have h := log_compose M [c.a0, c.a1, c.a2, c.a3] L (logPoly3_evalRounded M p v)
    (4 * (3 + 2) * M.u * (|c.a0| + |c.a1| * |Lh| + |c.a2| * |Lh| ^ 2 + |c.a3| * |Lh| ^ 3))
    (by simp only [polySum]; refine le_of_eq_of_le ?_ h0; congr 2; ring)
  simp only [polySum, derivSum, List.map_cons, List.map_nil] at h
  refine le_of_eq_of_le ?_ (h.trans (le_of_eq ?_))
  · congr 2; ring
  · ring

/-- C01, `Log` clause, degree 4 -/
theorem log_poly4_rounding (p : Log (Poly4 ℝ)) (v : ℝ) (hv : 0 < v) :
    let c := p._0._0; let L := Real.log v; let Lh := M.rnd L; let m := max |Lh| |L|
    |logPoly4_evalRounded M p v - (c.a0 + c.a1 * L + c.a2 * L ^ 2 + c.a3 * L ^ 3 + c.a4 * L ^ 4)|
      ≤ 4 * (4 + 2) * M.u * (|c.a0| + |c.a1| * |Lh| + |c.a2| * |Lh| ^ 2 + |c.a3| * |Lh| ^ 3 + |c.a4| * |Lh| ^ 4)
        + M.u * |L| * (|c.a1| + 2 * |c.a2| * m + 3 * |c.a3| * m ^ 2 + 4 * |c.a4| * m ^ 3) := by
  intro c L Lh m
  have h0 := poly4_rounding M hu p._0 (M.rnd L)
  have h := log_compose M [c.a0, c.a1, c.a2, c.a3, c.a4] L (logPoly4_evalRounded M p v)
    (4 * (4 + 2) * M.u * (|c.a0| + |c.a1| * |Lh| + |c.a2| * |Lh| ^ 2 + |c.a3| * |Lh| ^ 3 + |c.a4| * |Lh| ^ 4))
    (by simp only [polySum]; refine le_of_eq_of_le ?_ h0; congr 2; ring)
  simp only [polySum, derivSum, List.map_cons, List.map_nil] at h
  refine le_of_eq_of_le ?_ (h.trans (le_of_eq ?_))
  · congr 2; ring
  · ring

/-- C01, `Log` clause, degree 5 -/
theorem log_poly5_rounding (p : Log (Poly5 ℝ)) (v : ℝ) (hv : 0 < v) :
    let c := p._0._0; let L := Real.log v; let Lh := M.rnd L; let m := max |Lh| |L|
    |logPoly5_evalRounded M p v - (c.a0 + c.a1 * L + c.a2 * L ^ 2 + c.a3 * L ^ 3 + c.a4 * L ^ 4 + c.a5 * L ^ 5)|
      ≤ 4 * (5 + 2) * M.u * (|c.a0| + |c.a1| * |Lh| + |c.a2| * |Lh| ^ 2 + |c.a3| * |Lh| ^ 3 + |c.a4| * |Lh| ^ 4
            + |c.a5| * |Lh| ^ 5)
        + M.u * |L| * (|c.a1| + 2 * |c.a2| * m + 3 * |c.a3| * m ^ 2 + 4 * |c.a4| * m ^ 3 + 5 * |c.a5| * m ^ 4) := by
  intro c L Lh m
  have h0 := poly5_rounding M hu p._0 (M.rnd L)
  have h := log_compose M [c.a0, c.a1, c.a2, c.a3, c.a4, c.a5] L (logPoly5_evalRounded M p v)
    (4 * (5 + 2) * M.u * (|c.a0| + |c.a1| * |Lh| + |c.a2| * |Lh| ^ 2 + |c.a3| * |Lh| ^ 3 + |c.a4| * |Lh| ^ 4
      + |c.a5| * |Lh| ^ 5))
    (by simp only [polySum]; refine le_of_eq_of_le ?_ h0; congr 2; ring)
  simp only [polySum, derivSum, List.map_cons, List.map_nil] at h
  refine le_of_eq_of_le ?_ (h.trans (le_of_eq ?_))
  · congr 2; ring
  · ring

/-- C01, `Log` clause, degree 6 -/
theorem log_poly6_rounding (p : Log (Poly6 ℝ)) (v : ℝ) (hv : 0 < v) :
    let c := p._0._0; let L := Real.log v; let Lh := M.rnd L; let m := max |Lh| |L|
    |logPoly6_evalRounded M p v - (c.a0 + c.a1 * L + c.a2 * L ^ 2 + c.a3 * L ^ 3 + c.a4 * L ^ 4 + c.a5 * L ^ 5
          + c.a6 * L ^ 6)|
      ≤ 4 * (6 + 2) * M.u * (|c.a0| + |c.a1| * |Lh| + |c.a2| * |Lh| ^ 2 + |c.a3| * |Lh| ^ 3 + |c.a4| * |Lh| ^ 4
            + |c.a5| * |Lh| ^ 5 + |c.a6| * |Lh| ^ 6)
        + M.u * |L| * (|c.a1| + 2 * |c.a2| * m + 3 * |c.a3| * m ^ 2 + 4 * |c.a4| * m ^ 3 + 5 * |c.a5| * m ^ 4
            + 6 * |c.a6| * m ^ 5) := by
  intro c L Lh m
  have h0 := poly6_rounding M hu p._0 (M.rnd L)
  have h := log_compose M [c.a0, c.a1, c.a2, c.a3, c.a4, c.a5, c.a6] L (logPoly6_evalRounded M p v)
    (4 * (6 + 2) * M.u * (|c.a0| + |c.a1| * |Lh| + |c.a2| * |Lh| ^ 2 + |c.a3| * |Lh| ^ 3 + |c.a4| * |Lh| ^ 4
      + |c.a5| * |Lh| ^ 5 + |c.a6| * |Lh| ^ 6))
    (by simp only [polySum]; refine le_of_eq_of_le ?_ h0; congr 2; ring)
  simp only [polySum, derivSum, List.map_cons, List.map_nil] at h
  refine le_of_eq_of_le ?_ (h.trans (le_of_eq ?_))
  · congr 2; ring
  · ring

/-- C01, `Log` clause, degree 7 -/
theorem log_poly7_rounding (p : Log (Poly7 ℝ)) (v : ℝ) (hv : 0 < v) :
    let c := p._0._0; let L := Real.log v; let Lh := M.rnd L; let m := max |Lh| |L|
    |logPoly7_evalRounded M p v - (c.a0 + c.a1 * L + c.a2 * L ^ 2 + c.a3 * L ^ 3 + c.a4 * L ^ 4 + c.a5 * L ^ 5
          + c.a6 * L ^ 6 + c.a7 * L ^ 7)|
      ≤ 4 * (7 + 2) * M.u * (|c.a0| + |c.a1| * |Lh| + |c.a2| * |Lh| ^ 2 + |c.a3| * |Lh| ^ 3 + |c.a4| * |Lh| ^ 4
            + |c.a5| * |Lh| ^ 5 + |c.a6| * |Lh| ^ 6 + |c.a7| * |Lh| ^ 7)
        + M.u * |L| * (|c.a1| + 2 * |c.a2| * m + 3 * |c.a3| * m ^ 2 + 4 * |c.a4| * m ^ 3 + 5 * |c.a5| * m ^ 4
            + 6 * |c.a6| * m ^ 5 + 7 * |c.a7| * m ^ 6) := by
  intro c L Lh m
  have h0 := poly7_rounding M hu p._0 (M.rnd L)
  have h := log_compose M [c.a0, c.a1, c.a2, c.a3, c.a4, c.a5, c.a6, c.a7] L (logPoly7_evalRounded M p v)
    (4 * (7 + 2) * M.u * (|c.a0| + |c.a1| * |Lh| + |c.a2| * |Lh| ^ 2 + |c.a3| * |Lh| ^ 3 + |c.a4| * |Lh| ^ 4
      + |c.a5| * |Lh| ^ 5 + |c.a6| * |Lh| ^ 6 + |c.a7| * |Lh| ^ 7))
    (by simp only [polySum]; refine le_of_eq_of_le ?_ h0; congr 2; ring)
  simp only [polySum, derivSum, List.map_cons, List.map_nil] at h
  refine le_of_eq_of_le ?_ (h.trans (le_of_eq ?_))
  · congr 2; ring
  · ring

/-- C01, `Log` clause, degree 8 -/
theorem log_poly8_rounding (p : Log (Poly8 ℝ)) (v : ℝ) (hv : 0 < v) :
    let c := p._0._0; let L := Real.log v; let Lh := M.rnd L; let m := max |Lh| |L|
    |logPoly8_evalRounded M p v - (c.a0 + c.a1 * L + c.a2 * L ^ 2 + c.a3 * L ^ 3 + c.a4 * L ^ 4 + c.a5 * L ^ 5
          + c.a6 * L ^ 6 + c.a7 * L ^ 7 + c.a8 * L ^ 8)|
      ≤ 4 * (8 + 2) * M.u * (|c.a0| + |c.a1| * |Lh| + |c.a2| * |Lh| ^ 2 + |c.a3| * |Lh| ^ 3 + |c.a4| * |Lh| ^ 4
            + |c.a5| * |Lh| ^ 5 + |c.a6| * |Lh| ^ 6 + |c.a7| * |Lh| ^ 7 + |c.a8| * |Lh| ^ 8)
        + M.u * |L| * (|c.a1| + 2 * |c.a2| * m + 3 * |c.a3| * m ^ 2 + 4 * |c.a4| * m ^ 3 + 5 * |c.a5| * m ^ 4
            + 6 * |c.a6| * m ^ 5 + 7 * |c.a7| * m ^ 6 + 8 * |c.a8| * m ^ 7) := by
  intro c L Lh m
  have h0 := poly8_rounding M hu p._0 (M.rnd L)
  have h := log_compose M [c.a0, c.a1, c.a2, c.a3, c.a4, c.a5, c.a6, c.a7, c.a8] L (logPoly8_evalRounded M p v)
    (4 * (8 + 2) * M.u * (|c.a0| + |c.a1| * |Lh| + |c.a2| * |Lh| ^ 2 + |c.a3| * |Lh| ^ 3 + |c.a4| * |Lh| ^ 4
      + |c.a5| * |Lh| ^ 5 + |c.a6| * |Lh| ^ 6 + |c.a7| * |Lh| ^ 7 + |c.a8| * |Lh| ^ 8))
    (by simp only [polySum]; refine le_of_eq_of_le ?_ h0; congr 2; ring)
  simp only [polySum, derivSum, List.map_cons, List.map_nil] at h
  refine le_of_eq_of_le ?_ (h.trans (le_of_eq ?_))
  · congr 2; ring
  · ring

end degrees

/-! ## corollaries: the bound in terms of `|ln v|` alone, and with `u` replaced by `2⁻⁵³` -/
section corollaries
variable (M : RModel ℝ)

/-- the radius of the mean value bound: `max |rnd L| |L| ≤ (1+u)·|L|` -/
theorem max_rnd_le (L : ℝ) : max |M.rnd L| |L| ≤ (1 + M.u) * |L| := by
  refine max_le (M.abs_rnd_le L) ?_
  have := mul_nonneg M.hu (abs_nonneg L)
  linarith

/-- `u ≤ 2⁻⁵³`: a bound `c·u·S + u·T` is at most `c·2⁻⁵³·S + 2⁻⁵³·T` (the clause verbatim) -/
theorem le_two_pow_log (hu : M.u ≤ (2 : ℝ) ^ (-53 : ℤ)) {d c S T : ℝ} (hc : 0 ≤ c) (hS : 0 ≤ S) (hT : 0 ≤ T)
    (h : d ≤ c * M.u * S + M.u * T) : d ≤ c * (2 : ℝ) ^ (-53 : ℤ) * S + (2 : ℝ) ^ (-53 : ℤ) * T :=
  h.trans (add_le_add (mul_le_mul_of_nonneg_right (mul_le_mul_of_nonneg_left hu hc) hS)
    (mul_le_mul_of_nonneg_right hu hT))

/-- the cubic, verbatim with `2⁻⁵³` (the other degrees alike, by `le_two_pow_log`) -/
theorem log_poly3_rounding_c01 (hu : M.u ≤ (2 : ℝ) ^ (-53 : ℤ)) (p : Log (Poly3 ℝ)) (v : ℝ) (hv : 0 < v) :
    let c := p._0._0; let L := Real.log v; let Lh := M.rnd L; let m := max |Lh| |L|
    |logPoly3_evalRounded M p v - (c.a0 + c.a1 * L + c.a2 * L ^ 2 + c.a3 * L ^ 3)|
      ≤ 4 * (3 + 2) * (2 : ℝ) ^ (-53 : ℤ) * (|c.a0| + |c.a1| * |Lh| + |c.a2| * |Lh| ^ 2 + |c.a3| * |Lh| ^ 3)
        + (2 : ℝ) ^ (-53 : ℤ) * (|L| * (|c.a1| + 2 * |c.a2| * m + 3 * |c.a3| * m ^ 2)) := by
  intro c L Lh m
  refine le_two_pow_log M hu (by norm_num) (by positivity) (by positivity) ?_
  have := log_poly3_rounding M hu p v hv
  simp only [mul_assoc] at this ⊢
  exact this
end corollaries

/-! ## non-vacuity: models that really round -/
section examples
open PP.Props.C10Bound (M53_u intFixR intFixR_int)
/-- `C10Bound.MR`: every operation, literal, `ln`, `exp` errs by the full relative `2⁻⁵³` -/
noncomputable abbrev MR : RModel ℝ := PP.Props.C10Bound.M53

/-- in `M53` every operation, `ln` included, errs by the full relative `2⁻⁵³`: the computed logarithm is NOT `ln 2` -/
example : MR.rnd (Real.log 2) = Real.log 2 * (1 + 2 ^ (-53 : ℤ)) ∧ MR.rnd (Real.log 2) ≠ Real.log 2 := by
  refine ⟨rfl, ?_⟩
  show Real.log 2 * (1 + 2 ^ (-53 : ℤ)) ≠ Real.log 2
  have h2 : 0 < Real.log 2 := Real.log_pos (by norm_num)
  have : Real.log 2 < Real.log 2 * (1 + 2 ^ (-53 : ℤ)) := by
    have : (0 : ℝ) < 2 ^ (-53 : ℤ) := by positivity
    nlinarith
  exact ne_of_gt this

/-- the cubic `1 − 2L + 3L² + 4L³` at `v = 2` (`L = ln 2`) in `M53` -/
example :
    let L := Real.log 2; let Lh := MR.rnd L; let m := max |Lh| |L|
    |logPoly3_evalRounded MR ⟨⟨⟨1, -2, 3, 4⟩⟩⟩ 2 - (1 + -2 * L + 3 * L ^ 2 + 4 * L ^ 3)|
      ≤ 4 * (3 + 2) * MR.u * (|1| + |-2| * |Lh| + |3| * |Lh| ^ 2 + |4| * |Lh| ^ 3)
        + MR.u * |L| * (|-2| + 2 * |3| * m + 3 * |4| * m ^ 2) :=
  log_poly3_rounding MR M53_u ⟨⟨⟨1, -2, 3, 4⟩⟩⟩ 2 (by norm_num)

example := log_poly0_rounding MR M53_u ⟨⟨7⟩⟩ 2 (by norm_num)
example := log_poly8_rounding MR M53_u ⟨⟨⟨1, 2, 3, 4, 5, 6, 7, 8, 9⟩⟩⟩ (1 / 2) (by norm_num)
/-- `intFixR` (integers exact, everything else inflated) at `v = 1`: `ln 1 = 0` is computed exactly, so the
propagated term vanishes and the C01 bound at `L̂ = 0` remains -/
example : intFixR.rnd (Real.log 1) = 0 := by
  rw [Real.log_one]; simpa using intFixR_int 0
example := log_poly3_rounding_c01 intFixR (le_refl _) ⟨⟨⟨1, -2, 3, 4⟩⟩⟩ 1 (by norm_num)
end examples

end PP.Props.C01LogBound
