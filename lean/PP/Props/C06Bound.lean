import PP.Lemmas.LinearFP
import PP.Sem.Count
import PP.Props.C06
/-!
# C06 — `linear`: the FLOATING-POINT part (rounding clauses)

`PP/Props/C06.lean` proves C06 for the code read in exact arithmetic.  This file proves the rounding clauses
for the same *generated* code (`Linear.segment`, `Linear.incr_linear`, the generated `Evaluate (Poly1 F)`,
`Translate (Poly1 F)`, `HasIntegral (Poly0 F)`; loop: `Hand.linear`) **run in rounded arithmetic**
`Rounded M`, for every rounding model `M : RModel K` over any linearly ordered field `K`, with `M.u ≤ 2⁻⁵³`.

## What is ASSUMED (and not proved)
* the **standard model** of floating-point arithmetic (`PP/Sem/Rounded.lean`): every `+ − × ÷` and every `fma`
  returns `rnd (exact result)` with `|rnd t − t| ≤ u·|t|`, `u ≤ 2⁻⁵³` — i.e. **no underflow, no overflow**;
  `max`, negation and the comparisons are exact; the literal `0.0` is `rnd 0 = 0`; `f64::EPSILON` is the constant
  `2⁻⁵²`.  No monotonicity and no idempotence of `rnd` is assumed (so `0.0 + t` costs a rounding).
* **inputs are exact** field elements (the knots); they are *not* assumed representable, except where a
  hypothesis `M.rnd y = y` says so (`segment_narrow_exact`).
* **the branch**: the rounded run tests the *rounded* width `rnd (x₁ − x₀) < 2⁻⁵²`.  The theorems are stated for
  the branch the rounded run takes: `Wide M k0 k1 : 2⁻⁵² ≤ rnd (x₁ − x₀)` / `rnd (x₁ − x₀) < 2⁻⁵²`.  In binary64
  (`rnd` monotone, `2⁻⁵²` representable) `Wide` is equivalent to `x₁ − x₀ ≥ 2⁻⁵²`; in the abstract model this is
  the hypothesis `EpsStable M` (`wide_of_gap`, `wide_of_monotone`).

## Results (sorry-free; `σ = (y₁−y₀)/(x₁−x₀)` the exact slope, `ŝ` the stored slope, `g_k = (1+u)^k − 1`)
Both readings of "the segment evaluated at `x`" are covered: `lineVal` = the exact value `a₀ + ŝ·x` of the line
whose two coefficients were returned (what the run-time monitor checks), and `evalR` = the generated
`Evaluate (Poly1 F)` (one `fma`) run in rounded arithmetic.
1. `segment_left_gen` (no hypothesis at all, both branches): `|lineVal x₀ − y₀| ≤ g₂|y₀| + g₃|ŝ·x₀|`,
   `|evalR x₀ − y₀| ≤ g₃|y₀| + g₄|ŝ·x₀|`.
   `segment_left_rounding` (both branches, `u ≤ 2⁻⁵³`): **C = 3.001** (`lineVal`), **4.001** (`evalR`), times
   `u·(|y₀| + |ŝ|·|x₀|)`.  `segment_left_rounding_exact_slope` (wide): 3.01 / 4.01 times `u·(|y₀| + |σ|·|x₀|)`.
   `segment_narrow_coeffs`: narrow branch returns `[rnd (rnd y₀), 0]`; `segment_narrow_exact`: **exactly** `[y₀, 0]`,
   value `y₀` at every `x` (both readings) when `y₀` is a floating-point number (`rnd y₀ = y₀`);
   `segment_narrow_close`: within `2.001·u·|y₀|` / `3.001·u·|y₀|` of `y₀` otherwise.
2. `segment_right_fine` (wide): at `x₁`, `|lineVal − y₁| ≤ u·(5.01|y₀| + 3.01|y₁| + 3.01|σ||x₀|)`,
   `|evalR − y₁| ≤ u·(5.01|y₀| + 4.01|y₁| + 3.01|σ||x₀|)`;
   `segment_right_rounding`: **C' = 6** : `≤ 6·u·(|y₀| + |y₁| + |σ|(|x₀| + |x₁|))` for both readings — the monitor's
   tolerance `64·u·(…)` (same magnitude, exact slope) is sound with a factor 10 to spare.
3. `interpolant_fine`, `interpolant_rounding`: for `x₀ ≤ x ≤ x₁` both readings are within
   `u·(5.01|y₀| + 4.01|y₁| + 3.01|σ||x₀|) ≤ 6·u·(|y₀| + |y₁| + |σ|(|x₀| + |x₁|))` of the exact interpolant
   `y₀ + σ(x − x₀)`; `line_rounding`: any `x` (extrapolation): `g₂|y₀| + g₃(1+ρ)|σ||x₀| + ρ|σ||x − x₀|`.
4. `linear_segments_rounding`: `Hand.linear` on `n ≥ 2` knots in `Rounded M` whose consecutive gaps take the wide
   branch (`GapsR`; from `C06.Gaps` under `EpsStable`): it returns `n−1` segments, segment `i` ends *exactly* at
   `x_{i+1}` and satisfies 1, 2, 3 for the knots `i`, `i+1` (nothing is forced: `max` is exact).
Non-vacuity: section `examples` (`RModel.m53`: every operation errs by the full `2⁻⁵³`; `RModel.intFix`).
-/
set_option linter.unusedSectionVars false
set_option linter.unusedVariables false

namespace PP.Props.C06Bound
open PP.Lemmas.Rounding PP.Lemmas.LinInt PP.Lemmas.LinearFP

variable {K : Type} [Field K] [LinearOrder K] [IsStrictOrderedRing K] (M : RModel K)

/-- the rounded run takes the "wide" branch: the *rounded* width is at least `f64::EPSILON = 2⁻⁵²` -/
def Wide (k0 k1 : Knot K) : Prop := eps ≤ M.rnd (k1.x - k0.x)

/-- the exact slope -/
def sigma (k0 k1 : Knot K) : K := (k1.y - k0.y) / (k1.x - k0.x)

/-- the exact interpolant through the two knots -/
def chord (k0 k1 : Knot K) (x : K) : K := k0.y + sigma k0 k1 * (x - k0.x)

/-- rounding does not push a width `≥ 2⁻⁵²` below `2⁻⁵²` (true in binary64: `rnd` is monotone and `2⁻⁵²` is a
floating-point number) -/
def EpsStable : Prop := ∀ t : K, eps ≤ t → eps ≤ M.rnd t

theorem wide_of_gap (hs : EpsStable M) {k0 k1 : Knot K} (h : eps ≤ k1.x - k0.x) : Wide M k0 k1 := hs _ h

theorem epsStable_of_monotone (hm : Monotone M.rnd) (he : M.rnd eps = eps) : EpsStable M := by
  intro t ht
  have := hm ht
  rwa [he] at this

theorem wide_of_monotone (hm : Monotone M.rnd) (he : M.rnd eps = eps) {k0 k1 : Knot K}
    (h : eps ≤ k1.x - k0.x) : Wide M k0 k1 := epsStable_of_monotone M hm he _ h

variable {M}

theorem Wide.lt {k0 k1 : Knot K} (hw : Wide M k0 k1) : k0.x < k1.x := by
  have : 0 < M.rnd (k1.x - k0.x) := lt_of_lt_of_le PP.Lemmas.LinearFP.eps_pos hw
  have := M.rnd_pos_iff.mp this
  linarith

variable [Transc K]

theorem Wide.slope {k0 k1 : Knot K} (hw : Wide M k0 k1) :
    slopeR M k0 k1 = M.rnd (M.rnd (k1.y - k0.y) / M.rnd (k1.x - k0.x)) := by
  rw [slopeR, if_neg (not_lt.mpr hw)]

theorem Wide.slope_close {k0 k1 : Knot K} (hw : Wide M k0 k1) :
    |slopeR M k0 k1 - sigma k0 k1| ≤ rho M.u * |sigma k0 k1| := by
  rw [hw.slope]
  exact PP.Lemmas.LinearFP.slope_close M _ _ (by have := hw.lt; intro h; linarith)

theorem Wide.slope_abs_le {k0 k1 : Knot K} (hw : Wide M k0 k1) :
    |slopeR M k0 k1| ≤ (1 + rho M.u) * |sigma k0 k1| := by
  rw [hw.slope]
  exact PP.Lemmas.LinearFP.slope_abs_le M _ _ (by have := hw.lt; intro h; linarith)

/-- `|σ|·(x₁ − x₀) = |y₁ − y₀|` -/
theorem sigma_mul_width {k0 k1 : Knot K} (h : k0.x < k1.x) :
    |sigma k0 k1| * (k1.x - k0.x) = |k1.y - k0.y| := by
  have hd : 0 < k1.x - k0.x := by linarith
  rw [sigma, abs_div, abs_of_pos hd]
  field_simp

theorem chord_right {k0 k1 : Knot K} (h : k0.x < k1.x) : chord k0 k1 k1.x = k1.y := by
  have hd : k1.x - k0.x ≠ 0 := by intro h'; linarith
  rw [chord, sigma]; field_simp; ring

variable (M)

/-! ## numerics: the growth factors for `u ≤ 2⁻⁵³` -/

theorem g2_num (hu : M.u ≤ (2 : K) ^ (-53 : ℤ)) : (1 + M.u) ^ 2 - 1 ≤ (2 + 1 / 1000) * M.u := by
  have := growth_num M.hu hu 2 (by norm_num); norm_num at this ⊢; linarith
theorem g3_num (hu : M.u ≤ (2 : K) ^ (-53 : ℤ)) : (1 + M.u) ^ 3 - 1 ≤ (3 + 1 / 1000) * M.u := by
  have := growth_num M.hu hu 3 (by norm_num); norm_num at this ⊢; linarith
theorem g4_num (hu : M.u ≤ (2 : K) ^ (-53 : ℤ)) : (1 + M.u) ^ 4 - 1 ≤ (4 + 1 / 1000) * M.u := by
  have := growth_num M.hu hu 4 (by norm_num); norm_num at this ⊢; linarith
theorem u_small (hu : M.u ≤ (2 : K) ^ (-53 : ℤ)) : M.u ≤ 1 / 10 ^ 15 := hu.trans u53_le

/-! ## 1. the left knot (both branches) -/

/-- **(1, general form)** no hypothesis, both branches: the returned line passes through the left knot up to
`g₂|y₀| + g₃|ŝ·x₀|`; its rounded evaluation up to `g₃|y₀| + g₄|ŝ·x₀|`.  `ŝ = slopeR M k0 k1` is the stored slope. -/
theorem segment_left_gen (k0 k1 : Knot K) :
    |lineVal M (segR M k0 k1) k0.x - k0.y|
        ≤ ((1 + M.u) ^ 2 - 1) * |k0.y| + ((1 + M.u) ^ 3 - 1) * |slopeR M k0 k1 * k0.x| ∧
    |evalR M (segR M k0 k1) k0.x - k0.y|
        ≤ ((1 + M.u) ^ 3 - 1) * |k0.y| + ((1 + M.u) ^ 4 - 1) * |slopeR M k0 k1 * k0.x| := by
  have h1 : |lineVal M (segR M k0 k1) k0.x - k0.y|
      ≤ ((1 + M.u) ^ 2 - 1) * |k0.y| + ((1 + M.u) ^ 3 - 1) * |slopeR M k0 k1 * k0.x| := by
    rw [lineVal, segR_a0, segR_a1]
    exact tail_left M _ _ _
  refine ⟨h1, ?_⟩
  rw [segR_eval]
  refine (rnd_eval_close M _ _).trans ?_
  have hu := M.hu
  have := mul_le_mul_of_nonneg_left h1 (by linarith : (0 : K) ≤ 1 + M.u)
  have e : (1 + M.u) * (((1 + M.u) ^ 2 - 1) * |k0.y| + ((1 + M.u) ^ 3 - 1) * |slopeR M k0 k1 * k0.x|)
      + M.u * |k0.y|
      = ((1 + M.u) ^ 3 - 1) * |k0.y| + ((1 + M.u) ^ 4 - 1) * |slopeR M k0 k1 * k0.x|
        - M.u * |slopeR M k0 k1 * k0.x| := by ring
  have := mul_nonneg hu (abs_nonneg (slopeR M k0 k1 * k0.x))
  linarith

/-- **(1) `segment_left_rounding`**, both branches, `u ≤ 2⁻⁵³`: the segment produced by the rounded
`Linear.segment k0 k1`, evaluated at `k0.x`, differs from `k0.y` by at most `C·u·(|y₀| + |ŝ|·|x₀|)` with
`C = 3.001` for the exact value of the returned line and `C = 4.001` for its rounded `Evaluate`;
`ŝ` is the returned slope coefficient. -/
theorem segment_left_rounding (hu : M.u ≤ (2 : K) ^ (-53 : ℤ)) (k0 k1 : Knot K) :
    |lineVal M (segR M k0 k1) k0.x - k0.y|
        ≤ (3 + 1 / 1000) * M.u * (|k0.y| + |(segR M k0 k1).poly._0.a1.val| * |k0.x|) ∧
    |evalR M (segR M k0 k1) k0.x - k0.y|
        ≤ (4 + 1 / 1000) * M.u * (|k0.y| + |(segR M k0 k1).poly._0.a1.val| * |k0.x|) := by
  set s := (segR M k0 k1).poly._0.a1.val with hsdef
  have hs : s = slopeR M k0 k1 := segR_a1 M k0 k1
  obtain ⟨h1, h2⟩ := segment_left_gen M k0 k1
  rw [← hs, abs_mul] at h1 h2
  have hu0 := M.hu
  have a := abs_nonneg k0.y
  have b := mul_nonneg (abs_nonneg s) (abs_nonneg k0.x)
  have g2 := g2_num M hu
  have g3 := g3_num M hu
  have g4 := g4_num M hu
  constructor
  · refine h1.trans ?_
    have := mul_le_mul_of_nonneg_right g2 a
    have := mul_le_mul_of_nonneg_right g3 b
    nlinarith [mul_nonneg hu0 a]
  · refine h2.trans ?_
    have := mul_le_mul_of_nonneg_right g3 a
    have := mul_le_mul_of_nonneg_right g4 b
    nlinarith [mul_nonneg hu0 a]

/-- (1, wide branch, exact slope) the same with the exact slope `σ = (y₁−y₀)/(x₁−x₀)`: `C = 3.01`, `4.01` -/
theorem segment_left_rounding_exact_slope (hu : M.u ≤ (2 : K) ^ (-53 : ℤ)) {k0 k1 : Knot K}
    (hw : Wide M k0 k1) :
    |lineVal M (segR M k0 k1) k0.x - k0.y|
        ≤ (3 + 1 / 100) * M.u * (|k0.y| + |sigma k0 k1| * |k0.x|) ∧
    |evalR M (segR M k0 k1) k0.x - k0.y|
        ≤ (4 + 1 / 100) * M.u * (|k0.y| + |sigma k0 k1| * |k0.x|) := by
  obtain ⟨h1, h2⟩ := segment_left_rounding M hu k0 k1
  rw [segR_a1] at h1 h2
  have hu0 := M.hu
  have hu15 := u_small M hu
  have hρ := rho_num M.hu hu
  have hρ0 := rho_nonneg M.hu M.hu1
  have hsl := hw.slope_abs_le
  have a := abs_nonneg k0.y
  have b := abs_nonneg k0.x
  have c := abs_nonneg (sigma k0 k1)
  have hρ' : rho M.u ≤ 1 / 10 ^ 14 := by nlinarith
  have hs2 : |slopeR M k0 k1| * |k0.x| ≤ (1 + 1 / 10 ^ 14) * (|sigma k0 k1| * |k0.x|) := by
    have h3 : (1 + rho M.u) * |sigma k0 k1| ≤ (1 + 1 / 10 ^ 14) * |sigma k0 k1| :=
      mul_le_mul_of_nonneg_right (by linarith) c
    calc |slopeR M k0 k1| * |k0.x| ≤ ((1 + 1 / 10 ^ 14) * |sigma k0 k1|) * |k0.x| :=
          mul_le_mul_of_nonneg_right (hsl.trans h3) b
      _ = _ := by ring
  have bc := mul_nonneg c b
  have m1 : (3 + 1 / 1000) * M.u * (|k0.y| + |slopeR M k0 k1| * |k0.x|)
      ≤ (3 + 1 / 1000) * M.u * (|k0.y| + (1 + 1 / 10 ^ 14) * (|sigma k0 k1| * |k0.x|)) :=
    mul_le_mul_of_nonneg_left (by linarith) (by positivity)
  have m2 : (4 + 1 / 1000) * M.u * (|k0.y| + |slopeR M k0 k1| * |k0.x|)
      ≤ (4 + 1 / 1000) * M.u * (|k0.y| + (1 + 1 / 10 ^ 14) * (|sigma k0 k1| * |k0.x|)) :=
    mul_le_mul_of_nonneg_left (by linarith) (by positivity)
  have ua := mul_nonneg hu0 a
  have ubc := mul_nonneg hu0 bc
  constructor
  · refine (h1.trans m1).trans ?_; nlinarith
  · refine (h2.trans m2).trans ?_; nlinarith

/-! ### the narrow branch -/

/-- **narrow branch, coefficients**: the rounded run returns slope `0` (the literal `0.0`) and intercept
`rnd (rnd y₀)` (`y₀ − 0` and `0.0 + …` each cost a rounding in the abstract model) -/
theorem segment_narrow_coeffs {k0 k1 : Knot K} (hn : M.rnd (k1.x - k0.x) < eps) :
    (segR M k0 k1).poly._0.a1.val = 0 ∧ (segR M k0 k1).poly._0.a0.val = M.rnd (M.rnd k0.y) := by
  have h1 : slopeR M k0 k1 = 0 := by rw [slopeR, if_pos hn]
  refine ⟨by rw [segR_a1, h1], ?_⟩
  rw [segR_a0, h1, zero_mul, M.rnd_zero, sub_zero]

/-- **narrow branch, EXACTLY the constant `y₀`**: if `y₀` is a floating-point number (`rnd y₀ = y₀`; in the Rust
code it is an `f64`) the rounded run returns exactly the coefficients `[y₀, 0]`, ends exactly at `x₁`, and both
its exact and its rounded evaluation are exactly `y₀` at every `x`. -/
theorem segment_narrow_exact {k0 k1 : Knot K} (hn : M.rnd (k1.x - k0.x) < eps) (hy : M.rnd k0.y = k0.y) :
    (segR M k0 k1).poly._0.a0.val = k0.y ∧ (segR M k0 k1).poly._0.a1.val = 0 ∧
    (segR M k0 k1).end.val = k1.x ∧
    ∀ x, lineVal M (segR M k0 k1) x = k0.y ∧ evalR M (segR M k0 k1) x = k0.y := by
  obtain ⟨h1, h0⟩ := segment_narrow_coeffs M hn
  rw [hy, hy] at h0
  refine ⟨h0, h1, rfl, fun x => ?_⟩
  have hl : lineVal M (segR M k0 k1) x = k0.y := by rw [lineVal, h0, h1, zero_mul, add_zero]
  exact ⟨hl, by rw [segR_eval, hl, hy]⟩

/-- narrow branch without representability of `y₀`: constant within `2.001·u·|y₀|` (exact value of the line),
`3.001·u·|y₀|` (rounded evaluation) -/
theorem segment_narrow_close (hu : M.u ≤ (2 : K) ^ (-53 : ℤ)) {k0 k1 : Knot K}
    (hn : M.rnd (k1.x - k0.x) < eps) (x : K) :
    |lineVal M (segR M k0 k1) x - k0.y| ≤ (2 + 1 / 1000) * M.u * |k0.y| ∧
    |evalR M (segR M k0 k1) x - k0.y| ≤ (3 + 1 / 1000) * M.u * |k0.y| := by
  obtain ⟨h1, h0⟩ := segment_narrow_coeffs M hn
  have hl : lineVal M (segR M k0 k1) x = M.rnd (M.rnd k0.y) := by rw [lineVal, h0, h1, zero_mul, add_zero]
  have c1 := (CtInv.inp M k0.y).rnd.rnd
  have c2 := c1.rnd
  have a := abs_nonneg k0.y
  constructor
  · rw [hl]
    exact c1.2.trans (mul_le_mul_of_nonneg_right (g2_num M hu) a)
  · rw [segR_eval, hl]
    exact c2.2.trans (mul_le_mul_of_nonneg_right (g3_num M hu) a)

/-! ## 2–3. the wide branch: the whole line -/

/-- **the computed line against the exact chord, any `x`** (interpolation *and* extrapolation), wide branch:
`|a₀ + ŝ·x − (y₀ + σ(x − x₀))| ≤ g₂|y₀| + g₃(1+ρ)|σ||x₀| + ρ|σ||x − x₀|`, `ρ = (1+u)²/(1−u) − 1`;
the rounded evaluation adds one rounding: `(1+u)·(that) + u·|y₀ + σ(x − x₀)|`. -/
theorem line_rounding {k0 k1 : Knot K} (hw : Wide M k0 k1) (x : K) :
    |lineVal M (segR M k0 k1) x - chord k0 k1 x|
        ≤ ((1 + M.u) ^ 2 - 1) * |k0.y| + ((1 + M.u) ^ 3 - 1) * (1 + rho M.u) * (|sigma k0 k1| * |k0.x|)
          + rho M.u * |sigma k0 k1| * |x - k0.x| ∧
    |evalR M (segR M k0 k1) x - chord k0 k1 x|
        ≤ (1 + M.u) * (((1 + M.u) ^ 2 - 1) * |k0.y|
            + ((1 + M.u) ^ 3 - 1) * (1 + rho M.u) * (|sigma k0 k1| * |k0.x|)
            + rho M.u * |sigma k0 k1| * |x - k0.x|) + M.u * |chord k0 k1 x| := by
  have hleft := (segment_left_gen M k0 k1).1
  have hsl := hw.slope_abs_le
  have hg3 := growth_nonneg M.hu 3
  have hE : |lineVal M (segR M k0 k1) k0.x - k0.y|
      ≤ ((1 + M.u) ^ 2 - 1) * |k0.y| + ((1 + M.u) ^ 3 - 1) * (1 + rho M.u) * (|sigma k0 k1| * |k0.x|) := by
    refine hleft.trans ?_
    rw [abs_mul]
    have : |slopeR M k0 k1| * |k0.x| ≤ (1 + rho M.u) * |sigma k0 k1| * |k0.x| :=
      mul_le_mul_of_nonneg_right hsl (abs_nonneg _)
    have := mul_le_mul_of_nonneg_left this hg3
    linarith
  have h1 : |lineVal M (segR M k0 k1) x - chord k0 k1 x|
      ≤ ((1 + M.u) ^ 2 - 1) * |k0.y| + ((1 + M.u) ^ 3 - 1) * (1 + rho M.u) * (|sigma k0 k1| * |k0.x|)
          + rho M.u * |sigma k0 k1| * |x - k0.x| := by
    rw [lineVal, segR_a1] at hE ⊢
    exact line_close hE hw.slope_close x
  refine ⟨h1, ?_⟩
  rw [segR_eval]
  refine (rnd_eval_close M _ _).trans ?_
  have := mul_le_mul_of_nonneg_left h1 (by linarith [M.hu] : (0 : K) ≤ 1 + M.u)
  linarith

/-- pure arithmetic: the final linear bound.  `A = |y₀|`, `B = |y₁|`, `P = |σ||x₀|`; `a = t·A`, `b = t·B` with
`t = (x − x₀)/(x₁ − x₀) ∈ [0,1]`; `S = |σ||x − x₀| ≤ a + b`; `L = |chord x| ≤ A − a + b`. -/
theorem final_num {u g2 g3 ρ A B P a b S L W V : K} (hu0 : 0 ≤ u) (hu : u ≤ 1 / 10 ^ 15)
    (hg20 : 0 ≤ g2) (hg2 : g2 ≤ (2 + 1 / 1000) * u) (hg3 : g3 ≤ (3 + 1 / 1000) * u) (hg30 : 0 ≤ g3)
    (hρ0 : 0 ≤ ρ) (hρ : ρ ≤ (3 + 1 / 1000) * u)
    (hA : 0 ≤ A) (hB : 0 ≤ B) (hP : 0 ≤ P) (ha0 : 0 ≤ a) (ha : a ≤ A) (hb0 : 0 ≤ b) (hb : b ≤ B)
    (hS0 : 0 ≤ S) (hS : S ≤ a + b) (hL : L ≤ A - a + b)
    (hW : W ≤ g2 * A + g3 * (1 + ρ) * P + ρ * S)
    (hV : V ≤ (1 + u) * (g2 * A + g3 * (1 + ρ) * P + ρ * S) + u * L) :
    W ≤ u * ((5 + 1 / 100) * A + (3 + 1 / 100) * B + (3 + 1 / 100) * P) ∧
    V ≤ u * ((5 + 1 / 100) * A + (4 + 1 / 100) * B + (3 + 1 / 100) * P) := by
  have hρ1 : ρ ≤ 1 / 10 ^ 14 := by nlinarith
  have e1 : g2 * A ≤ (2 + 1 / 1000) * u * A := mul_le_mul_of_nonneg_right hg2 hA
  have e2 : g3 * (1 + ρ) * P ≤ (3 + 2 / 1000) * u * P := by
    have h1 : g3 * (1 + ρ) ≤ (3 + 1 / 1000) * u * (1 + 1 / 10 ^ 14) :=
      mul_le_mul hg3 (by linarith) (by linarith) (by positivity)
    have h2 : (3 + 1 / 1000) * u * (1 + 1 / 10 ^ 14) ≤ (3 + 2 / 1000) * u := by nlinarith
    exact mul_le_mul_of_nonneg_right (h1.trans h2) hP
  have e3 : ρ * S ≤ (3 + 1 / 1000) * u * (a + b) :=
    mul_le_mul hρ hS hS0 (by positivity)
  have uA := mul_nonneg hu0 hA
  have uB := mul_nonneg hu0 hB
  have uP := mul_nonneg hu0 hP
  have ua := mul_nonneg hu0 ha0
  have ub := mul_nonneg hu0 hb0
  have ua' : u * a ≤ u * A := mul_le_mul_of_nonneg_left ha hu0
  have ub' : u * b ≤ u * B := mul_le_mul_of_nonneg_left hb hu0
  have hX : g2 * A + g3 * (1 + ρ) * P + ρ * S
      ≤ u * ((2 + 1 / 1000) * A + (3 + 2 / 1000) * P) + (3 + 1 / 1000) * (u * a + u * b) := by
    linarith
  have hX0 : 0 ≤ g2 * A + g3 * (1 + ρ) * P + ρ * S := by positivity
  constructor
  · refine hW.trans ?_; nlinarith
  · refine hV.trans ?_
    have hXu : u * (g2 * A + g3 * (1 + ρ) * P + ρ * S)
        ≤ 1 / 10 ^ 15 * (g2 * A + g3 * (1 + ρ) * P + ρ * S) := mul_le_mul_of_nonneg_right hu hX0
    have uL : u * L ≤ u * (A - a + b) := mul_le_mul_of_nonneg_left hL hu0
    nlinarith

/-- **(3, fine form) interpolation**, wide branch, `u ≤ 2⁻⁵³`: for `x₀ ≤ x ≤ x₁` the exact value of the returned
line and its rounded evaluation are within `u·(5.01|y₀| + 3.01|y₁| + 3.01|σ||x₀|)`, resp.
`u·(5.01|y₀| + 4.01|y₁| + 3.01|σ||x₀|)`, of the exact straight-line interpolant `y₀ + σ(x − x₀)`. -/
theorem interpolant_fine (hu : M.u ≤ (2 : K) ^ (-53 : ℤ)) {k0 k1 : Knot K} (hw : Wide M k0 k1) {x : K}
    (hx0 : k0.x ≤ x) (hx1 : x ≤ k1.x) :
    |lineVal M (segR M k0 k1) x - chord k0 k1 x|
        ≤ M.u * ((5 + 1 / 100) * |k0.y| + (3 + 1 / 100) * |k1.y| + (3 + 1 / 100) * (|sigma k0 k1| * |k0.x|)) ∧
    |evalR M (segR M k0 k1) x - chord k0 k1 x|
        ≤ M.u * ((5 + 1 / 100) * |k0.y| + (4 + 1 / 100) * |k1.y| + (3 + 1 / 100) * (|sigma k0 k1| * |k0.x|)) := by
  obtain ⟨hW, hV⟩ := line_rounding M hw x
  obtain ⟨ht0, ht1, hL, hS⟩ := chord_conv (y0 := k0.y) (y1 := k1.y) hw.lt hx0 hx1
  set t := (x - k0.x) / (k1.x - k0.x) with ht
  have hA := abs_nonneg k0.y
  have hB := abs_nonneg k1.y
  have hdy : |k1.y - k0.y| ≤ |k0.y| + |k1.y| := by
    calc |k1.y - k0.y| ≤ |k1.y| + |k0.y| := abs_sub _ _
      _ = _ := add_comm _ _
  have hS' : |sigma k0 k1| * |x - k0.x| ≤ t * |k0.y| + t * |k1.y| := by
    rw [sigma, hS]
    calc t * |k1.y - k0.y| ≤ t * (|k0.y| + |k1.y|) := mul_le_mul_of_nonneg_left hdy ht0
      _ = _ := by ring
  have hL' : |chord k0 k1 x| ≤ |k0.y| - t * |k0.y| + t * |k1.y| := by
    rw [chord, sigma]; linarith
  rw [mul_assoc (rho M.u)] at hW hV
  exact final_num (a := t * |k0.y|) (b := t * |k1.y|) M.hu (u_small M hu)
    (growth_nonneg M.hu 2) (g2_num M hu) (g3_num M hu) (growth_nonneg M.hu 3)
    (rho_nonneg M.hu M.hu1) (rho_num M.hu hu) hA hB (by positivity) (by positivity)
    (by nlinarith) (by positivity) (by nlinarith) (by positivity) hS' hL' hW hV

/-- `fine ≤ 6·u·(|y₀| + |y₁| + |σ|(|x₀| + |x₁|))` -/
theorem fine_le_six {u A B s X0 X1 : K} (hu : 0 ≤ u) (hA : 0 ≤ A) (hB : 0 ≤ B) (hs : 0 ≤ s) (h0 : 0 ≤ X0)
    (h1 : 0 ≤ X1) :
    u * ((5 + 1 / 100) * A + (4 + 1 / 100) * B + (3 + 1 / 100) * (s * X0))
      ≤ 6 * u * (A + B + s * (X0 + X1)) := by
  have h2 := mul_nonneg hs h0
  have h3 := mul_nonneg hs h1
  have : (5 + 1 / 100) * A + (4 + 1 / 100) * B + (3 + 1 / 100) * (s * X0) ≤ 6 * (A + B + s * (X0 + X1)) := by
    nlinarith
  calc _ ≤ u * (6 * (A + B + s * (X0 + X1))) := mul_le_mul_of_nonneg_left this hu
    _ = _ := by ring

theorem fine3_le_fine4 {u A B P : K} (hu : 0 ≤ u) (hB : 0 ≤ B) :
    u * ((5 + 1 / 100) * A + (3 + 1 / 100) * B + (3 + 1 / 100) * P)
      ≤ u * ((5 + 1 / 100) * A + (4 + 1 / 100) * B + (3 + 1 / 100) * P) :=
  mul_le_mul_of_nonneg_left (by linarith) hu

/-- **(3) `interpolant_rounding`**, wide branch, `u ≤ 2⁻⁵³`: for `x` between the knots (hence
`|x| ≤ max |x₀| |x₁|`) both the exact value of the returned line and its rounded evaluation are within
`6·u·(|y₀| + |y₁| + |σ|·(|x₀| + |x₁|))` of the exact straight-line interpolant. -/
theorem interpolant_rounding (hu : M.u ≤ (2 : K) ^ (-53 : ℤ)) {k0 k1 : Knot K} (hw : Wide M k0 k1) {x : K}
    (hx0 : k0.x ≤ x) (hx1 : x ≤ k1.x) :
    |lineVal M (segR M k0 k1) x - (k0.y + (k1.y - k0.y) / (k1.x - k0.x) * (x - k0.x))|
        ≤ 6 * M.u * (|k0.y| + |k1.y| + |(k1.y - k0.y) / (k1.x - k0.x)| * (|k0.x| + |k1.x|)) ∧
    |evalR M (segR M k0 k1) x - (k0.y + (k1.y - k0.y) / (k1.x - k0.x) * (x - k0.x))|
        ≤ 6 * M.u * (|k0.y| + |k1.y| + |(k1.y - k0.y) / (k1.x - k0.x)| * (|k0.x| + |k1.x|)) := by
  obtain ⟨h1, h2⟩ := interpolant_fine M hu hw hx0 hx1
  have h6 := fine_le_six M.hu (abs_nonneg k0.y) (abs_nonneg k1.y) (abs_nonneg (sigma k0 k1))
    (abs_nonneg k0.x) (abs_nonneg k1.x)
  exact ⟨(h1.trans (fine3_le_fine4 M.hu (abs_nonneg _))).trans h6, h2.trans h6⟩

/-! ## 2. the right knot -/

/-- **(2, fine form)** wide branch: at `x₁`, `|lineVal − y₁| ≤ u·(5.01|y₀| + 3.01|y₁| + 3.01|σ||x₀|)` and
`|evalR − y₁| ≤ u·(5.01|y₀| + 4.01|y₁| + 3.01|σ||x₀|)` -/
theorem segment_right_fine (hu : M.u ≤ (2 : K) ^ (-53 : ℤ)) {k0 k1 : Knot K} (hw : Wide M k0 k1) :
    |lineVal M (segR M k0 k1) k1.x - k1.y|
        ≤ M.u * ((5 + 1 / 100) * |k0.y| + (3 + 1 / 100) * |k1.y| + (3 + 1 / 100) * (|sigma k0 k1| * |k0.x|)) ∧
    |evalR M (segR M k0 k1) k1.x - k1.y|
        ≤ M.u * ((5 + 1 / 100) * |k0.y| + (4 + 1 / 100) * |k1.y| + (3 + 1 / 100) * (|sigma k0 k1| * |k0.x|)) := by
  have := interpolant_fine M hu hw hw.lt.le le_rfl
  rwa [chord_right hw.lt] at this

/-- **(2) `segment_right_rounding`**, wide branch (`rnd (x₁ − x₀) ≥ 2⁻⁵²`), `u ≤ 2⁻⁵³`: the segment evaluated at
`k1.x` (exactly, and with the rounded `Evaluate`) differs from `k1.y` by at most
`C'·u·(|y₀| + |y₁| + |σ|·(|x₀| + |x₁|))` with **`C' = 6`** (`σ` the exact slope) — the monitor's tolerance is this
expression with `64` in place of `6`. -/
theorem segment_right_rounding (hu : M.u ≤ (2 : K) ^ (-53 : ℤ)) {k0 k1 : Knot K} (hw : Wide M k0 k1) :
    |lineVal M (segR M k0 k1) k1.x - k1.y|
        ≤ 6 * M.u * (|k0.y| + |k1.y| + |(k1.y - k0.y) / (k1.x - k0.x)| * (|k0.x| + |k1.x|)) ∧
    |evalR M (segR M k0 k1) k1.x - k1.y|
        ≤ 6 * M.u * (|k0.y| + |k1.y| + |(k1.y - k0.y) / (k1.x - k0.x)| * (|k0.x| + |k1.x|)) := by
  obtain ⟨h1, h2⟩ := segment_right_fine M hu hw
  have h6 := fine_le_six M.hu (abs_nonneg k0.y) (abs_nonneg k1.y) (abs_nonneg (sigma k0 k1))
    (abs_nonneg k0.x) (abs_nonneg k1.x)
  exact ⟨(h1.trans (fine3_le_fine4 M.hu (abs_nonneg _))).trans h6, h2.trans h6⟩

/-- the monitor's tolerance `64·u·(|y₀| + |y₁| + |σ|(|x₀| + |x₁|))` is sound for both knots of a wide segment
(in the standard model), with a factor `> 10` to spare -/
theorem monitor_tolerance_sound (hu : M.u ≤ (2 : K) ^ (-53 : ℤ)) {k0 k1 : Knot K} (hw : Wide M k0 k1) :
    let tol := 64 * M.u * (|k0.y| + |k1.y| + |(k1.y - k0.y) / (k1.x - k0.x)| * (|k0.x| + |k1.x|))
    |lineVal M (segR M k0 k1) k0.x - k0.y| ≤ tol ∧ |lineVal M (segR M k0 k1) k1.x - k1.y| ≤ tol := by
  intro tol
  have h1 := (segment_left_rounding_exact_slope M hu hw).1
  have h2 := (segment_right_rounding M hu hw).1
  have hu0 := M.hu
  have a := abs_nonneg k0.y
  have b := abs_nonneg k1.y
  have c := mul_nonneg (abs_nonneg (sigma k0 k1)) (abs_nonneg k0.x)
  have d := mul_nonneg (abs_nonneg (sigma k0 k1)) (abs_nonneg k1.x)
  have ht : tol = 64 * M.u * (|k0.y| + |k1.y| + (|sigma k0 k1| * |k0.x| + |sigma k0 k1| * |k1.x|)) := by
    simp only [tol, sigma]; ring
  have ua := mul_nonneg hu0 a
  have ub := mul_nonneg hu0 b
  have uc := mul_nonneg hu0 c
  have ud := mul_nonneg hu0 d
  constructor
  · refine h1.trans ?_; rw [ht]; nlinarith
  · refine h2.trans ?_; rw [ht]
    have : 6 * M.u * (|k0.y| + |k1.y| + |(k1.y - k0.y) / (k1.x - k0.x)| * (|k0.x| + |k1.x|))
        = 6 * M.u * (|k0.y| + |k1.y| + (|sigma k0 k1| * |k0.x| + |sigma k0 k1| * |k1.x|)) := by
      simp only [sigma]; ring
    rw [this]; nlinarith

/-! ## 4. the whole `linear` -/

/-- what (1), (2), (3) say about one returned segment `s` and the two knots it joins -/
def SegSpec (k0 k1 : Knot K) (s : Segment (Rounded M) (Poly1 (Rounded M))) : Prop :=
  let σ := (k1.y - k0.y) / (k1.x - k0.x)
  let mag := |k0.y| + |k1.y| + |σ| * (|k0.x| + |k1.x|)
  -- the end is the right abscissa, exactly
  s.end.val = k1.x ∧
  -- (1) through the left knot
  (|lineVal M s k0.x - k0.y| ≤ (3 + 1 / 100) * M.u * (|k0.y| + |σ| * |k0.x|) ∧
   |evalR M s k0.x - k0.y| ≤ (4 + 1 / 100) * M.u * (|k0.y| + |σ| * |k0.x|)) ∧
  -- (2) through the right knot
  (|lineVal M s k1.x - k1.y| ≤ 6 * M.u * mag ∧ |evalR M s k1.x - k1.y| ≤ 6 * M.u * mag) ∧
  -- (3) the interpolant in between
  ∀ x, k0.x ≤ x → x ≤ k1.x →
    |lineVal M s x - (k0.y + σ * (x - k0.x))| ≤ 6 * M.u * mag ∧
    |evalR M s x - (k0.y + σ * (x - k0.x))| ≤ 6 * M.u * mag

theorem segSpec_of_wide (hu : M.u ≤ (2 : K) ^ (-53 : ℤ)) {k0 k1 : Knot K} (hw : Wide M k0 k1) :
    SegSpec M k0 k1 (segR M k0 k1) :=
  ⟨rfl, segment_left_rounding_exact_slope M hu hw, segment_right_rounding M hu hw,
    fun x h0 h1 => interpolant_rounding M hu hw h0 h1⟩

/-- hypothesis of (4): every consecutive pair of knots takes the wide branch of the rounded run
(`2⁻⁵² ≤ rnd (x_{i+1} − x_i)`; in particular the abscissae are strictly increasing) -/
def GapsR (ks : List (Knot K)) : Prop :=
  ∀ i (hi : i + 1 < ks.length), Wide M (ks[i]'(by omega)) ks[i + 1]

theorem GapsR.chain {ks : List (Knot K)} (hg : GapsR M ks) :
    List.IsChain (fun a b : Knot K => a.x ≤ b.x) ks := by
  rw [List.isChain_iff_getElem]
  intro i hi; exact (hg i hi).lt.le

theorem GapsR.strict {ks : List (Knot K)} (hg : GapsR M ks) (i : Nat) (hi : i + 1 < ks.length) :
    (ks[i]'(by omega)).x < ks[i + 1].x := (hg i hi).lt

section gaps
attribute [local instance] exactFL
/-- the exact-arithmetic hypothesis `C06.Gaps` (gaps `≥ 2⁻⁵²`) implies `GapsR` when rounding does not push a width
below `2⁻⁵²` (`EpsStable`; binary64: `rnd` monotone, `2⁻⁵²` representable) -/
theorem gapsR_of_gaps (hs : EpsStable M) {ks : List (Knot K)} (hg : PP.Props.C06.Gaps ks) : GapsR M ks :=
  fun i hi => wide_of_gap M hs (hg i hi)
end gaps

/-- **(4) `linear` in rounded arithmetic**: for `n ≥ 2` knots whose consecutive gaps take the wide branch
(strictly increasing abscissae, gaps `≥ 2⁻⁵²` after rounding), the rounded run of `Hand.linear` returns `n − 1`
segments and segment `i` satisfies (1), (2), (3) for the knots `i`, `i+1` — the running-maximum forcing is the
identity because `max` is exact. -/
theorem linear_segments_rounding (hu : M.u ≤ (2 : K) ^ (-53 : ℤ)) (ks : List (Knot K)) (h2 : 2 ≤ ks.length)
    (hg : GapsR M ks) :
    ∃ p, Hand.linear (knotsR M ks) = some p ∧ p.segments.length + 1 = ks.length ∧
      ∀ i (hi : i + 1 < ks.length), ∃ hlt : i < p.segments.length,
        p.segments[i] = segR M (ks[i]'(by omega)) ks[i + 1] ∧
        SegSpec M (ks[i]'(by omega)) ks[i + 1] p.segments[i] := by
  have hsome : (Hand.linear (knotsR M ks)).isSome = true :=
    (PP.Props.C06.linear_isSome_iff _).mpr (by simpa [knotsR] using h2)
  obtain ⟨p, hp⟩ := Option.isSome_iff_exists.mp hsome
  refine ⟨p, hp, ?_, ?_⟩
  · have := PP.Props.C06.linear_length _ p hp
    simpa [knotsR] using this
  · intro i hi
    obtain ⟨hlt, he⟩ := linear_rounded_getElem M ks p hp (GapsR.chain M hg) i hi
    exact ⟨hlt, he, by rw [he]; exact segSpec_of_wide M hu (hg i hi)⟩

/-! ## non-vacuity: models that really round -/
section examples
open RModel

/-- `inflate` (every result multiplied by `1 + u`) never pushes a width below `2⁻⁵²` -/
theorem epsStable_inflate (u : K) (hu : 0 ≤ u) (hu1 : u < 1) : EpsStable (inflate u hu hu1) := by
  intro t ht
  show eps ≤ t * (1 + u)
  have : 0 ≤ t := le_trans PP.Lemmas.LinearFP.eps_pos.le ht
  nlinarith

noncomputable local instance : Transc ℚ := ⟨fun x => x, fun x => x⟩

theorem m53_u : m53.u ≤ (2 : ℚ) ^ (-53 : ℤ) := le_refl _
theorem intFix_u : intFix.u ≤ (2 : ℚ) ^ (-53 : ℤ) := le_refl _
theorem m53_stable : EpsStable m53 := epsStable_inflate _ _ _

/-- two knots one unit apart take the wide branch in `m53` -/
theorem ex_wide : Wide m53 (⟨2, 1⟩ : Knot ℚ) ⟨3, 5⟩ := wide_of_gap _ m53_stable (by norm_num [eps])

example := segment_left_gen m53 (⟨2, 1⟩ : Knot ℚ) ⟨3, 5⟩
example := segment_left_rounding m53 m53_u (⟨2, 1⟩ : Knot ℚ) ⟨3, 5⟩
example := segment_left_rounding_exact_slope m53 m53_u ex_wide
example := segment_right_rounding m53 m53_u ex_wide
example := segment_right_fine m53 m53_u ex_wide
example := monitor_tolerance_sound m53 m53_u ex_wide
example := line_rounding m53 ex_wide 7
example := interpolant_rounding m53 m53_u ex_wide (x := 5 / 2) (by norm_num) (by norm_num)

/-- the model is not the identity on this segment: the stored slope is `4·(1+u)³/(1+u) ≠ 4` -/
example : (segR m53 (⟨2, 1⟩ : Knot ℚ) ⟨3, 5⟩).poly._0.a1.val ≠ 4 := by
  rw [segR_a1, ex_wide.slope]
  simp only [m53, inflate]
  norm_num

/-- a narrow pair (zero width) in `intFix`, where the integer ordinate `5` is representable: exactly `[5, 0]` -/
example : (segR intFix (⟨1, 5⟩ : Knot ℚ) ⟨1, 7⟩).poly._0.a0.val = 5 ∧
    (segR intFix (⟨1, 5⟩ : Knot ℚ) ⟨1, 7⟩).poly._0.a1.val = 0 ∧
    (segR intFix (⟨1, 5⟩ : Knot ℚ) ⟨1, 7⟩).end.val = 1 ∧
    ∀ x, lineVal intFix (segR intFix (⟨1, 5⟩ : Knot ℚ) ⟨1, 7⟩) x = 5 ∧
      evalR intFix (segR intFix (⟨1, 5⟩ : Knot ℚ) ⟨1, 7⟩) x = 5 :=
  segment_narrow_exact intFix
    (by show intFix.rnd ((1 : ℚ) - 1) < eps; rw [sub_self, intFix.rnd_zero]; exact PP.Lemmas.LinearFP.eps_pos)
    (by simpa using intFix_int 5)

/-- narrow pair in `m53` (ordinate not representable there): constant up to `2.001·u·|y₀|` -/
example := segment_narrow_close m53 m53_u (k0 := (⟨1, 5⟩ : Knot ℚ)) (k1 := ⟨1, 7⟩)
  (by show m53.rnd ((1 : ℚ) - 1) < eps; rw [sub_self, m53.rnd_zero]; exact PP.Lemmas.LinearFP.eps_pos) 3

/-- three knots, gaps 1 and 2 -/
def exKs : List (Knot ℚ) := [⟨0, 0⟩, ⟨1, 1⟩, ⟨3, 0⟩]

theorem exKs_gapsR : GapsR m53 exKs := by
  intro i hi
  have hi' : i + 1 < 3 := hi
  apply wide_of_gap _ m53_stable
  have : i = 0 ∨ i = 1 := by omega
  rcases this with rfl | rfl <;> norm_num [exKs, eps]

example := linear_segments_rounding m53 m53_u exKs (by decide) exKs_gapsR

/-- `EpsStable` from monotonicity + representability of `2⁻⁵²`, in the exact model (where it is trivial) -/
example : EpsStable (RModel.exact ℚ) := epsStable_of_monotone _ (fun _ _ h => h) rfl

end examples

end PP.Props.C06Bound
