import PP.Props.C19
import PP.Props.Tie3
/-!
# C19 for the *generated* `Arbitrary` code

`PP/Props/C19.lean` is stated about the hand model `Hand.Arb.arbitraryPw`; `PP/Props/Tie3.lean` proves the
generated `<Piecewise<T> as Arbitrary>::arbitrary` (regenerated from `/repo/src` on every run) equal to
it.  Composed: for every byte list the generated function returns `Err(IncorrectFormat)` or `Ok` of a
well-formed function (≥ 1 segment, all ends normal, ends non-decreasing) — and never panics.
-/
namespace PP.Props.C19Gen
open Arb Hand.Arb PP.Props.Tie3

variable (ln exp : F64 → F64) {T : Type} [ArbitraryT T]

/-- **C19 on the generated code.** -/
theorem generated_arbitrary_wf (d : PieceDec T) (h : Tied ln exp d) (u : Unstructured) :
    (∃ u', genArbitrary ln exp (T := T) u = .err .incorrectFormat u') ∨
    ∃ pw u', genArbitrary ln exp (T := T) u = .ok pw u' ∧ pw.segments ≠ [] ∧
      (∀ s ∈ pw.segments, F64.isNormal s.end = true) ∧
      pw.segments.Pairwise (fun a b => F64.key a.end ≤ F64.key b.end) := by
  rcases PP.Props.C19.arbitrary_wf d u with hn | ⟨pw, hs, h1, h2, h3⟩
  · left
    obtain ⟨e, u', he⟩ := (h.err_iff u).mpr hn
    exact ⟨u', by rw [he, h.err_is u u' e he]⟩
  · right
    obtain ⟨u', hu⟩ := (h.ok_iff u pw).mpr hs
    exact ⟨pw, u', hu, h1, h2, h3⟩

/-- the hypothesis holds for the ten piece types, e.g. -/
example (u : Unstructured) := generated_arbitrary_wf ln exp decPoly3 (tie_poly3 ln exp) u
example (u : Unstructured) := generated_arbitrary_wf ln exp decPolyN (tie_polyN ln exp) u

end PP.Props.C19Gen
