import PP.Audit.Audit
import PP.Props.C02
#audit_ns PP.Props.C02
