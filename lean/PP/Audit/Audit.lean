import Lean
/-!
`#audit_ns Ns` : for every theorem whose name starts with `Ns`, print the axioms it depends on
(`Lean.collectAxioms`, i.e. what `#print axioms` shows).  `sorry` shows up as `sorryAx`,
`native_decide` as `Lean.ofReduceBool`/`Lean.trustCompiler`, `bv_decide` as its `._native` axioms.
The orchestrator rejects anything outside {propext, Classical.choice, Quot.sound}.
-/
open Lean Elab Command in
elab "#audit_ns " ns:ident : command => do
  let env ← getEnv
  let pre := ns.getId
  let mut rows : Array (String × String × String) := #[]
  for (n, ci) in env.constants.toList do
    if pre.isPrefixOf n && !n.isInternal then
      let kind := match ci with
        | .thmInfo _ => "thm"
        | .defnInfo _ => "def"
        | .axiomInfo _ => "axiom"
        | .opaqueInfo _ => "opaque"
        | _ => ""
      if kind != "" then
        let axs ← Lean.collectAxioms n
        let axl := (axs.toList.map toString).mergeSort
        rows := rows.push (kind, toString n, ",".intercalate axl)
  for (k, n, a) in rows.qsort (fun x y => x.2.1 < y.2.1) do
    IO.println s!"AUDIT {k} {n} [{a}]"
