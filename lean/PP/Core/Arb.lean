import PP.Core.F64
import PP.Core.Arr
/-!
# The parts of the external crate `arbitrary` 1.4.2 (and of std) that `Arbitrary for Piecewise<T>` goes through

Hand-written, core Lean only (linked into `ppdrv`).  The translator emits calls to these names for
`impl Arbitrary for Piecewise<T>` (piecewise.rs) and for the `#[derive(Arbitrary)]` structs
(`PP/Model/**/Arbitrary.lean`).  Each definition states the behaviour of the crate / std item named in its
doc comment; file and line references are to `~/.cargo/registry/src/*/arbitrary-1.4.2/src`.  Trusted;
tied to the real crate by the campaign `arbitrary` (through `PP/Hand/Arbitrary.lean`, which
`PP/Props/Tie3.lean` proves equal to the generated code built on this file).

Conventions:

* `Unstructured<'a>` (unstructured.rs:72: a wrapper around the slice `data: &'a [u8]` of bytes not yet
  consumed) is the list of unread bytes.  A list element `b : Nat` stands for the byte `b % 256`.
* A function `fn f(u: &mut Unstructured) -> arbitrary::Result<A>` is a function
  `Unstructured → Res A`.  `Res` has three outcomes: `ok a u'` (`Ok(a)`, with the unread bytes afterwards),
  `err e u'` (`Err(e)`; the bytes consumed before the error stay consumed, `u` is a `&mut`), and `panic`
  (unwinding: there is no result and nobody looks at `u` again).
* `e?` in a function returning `arbitrary::Result` is `Res.bind`: continue with the value and the new `u`,
  or return the `Err` / propagate the panic.
-/
namespace Arb

/-- `arbitrary::Unstructured`: the bytes not yet consumed (a byte is `b % 256`) -/
abbrev Unstructured := List Nat

/-- `arbitrary::Error` (error.rs:6-19; `#[non_exhaustive]`, these are the three variants of 1.4.2) -/
inductive Error where
  | emptyChoose
  | notEnoughData
  | incorrectFormat
deriving DecidableEq, Repr

/-- outcome of a `fn(&mut Unstructured) -> arbitrary::Result<α>`: `Ok`, `Err` (both with the unread bytes
afterwards) or a panic -/
inductive Res (α : Type) where
  | ok (a : α) (u : Unstructured)
  | err (e : Error) (u : Unstructured)
  | panic

namespace Res
variable {α β : Type}
/-- the `?` operator on an `arbitrary::Result` (`Try for Result`: `Ok(v)` continues with `v`, `Err(e)`
returns `Err(From::from(e))`, here the same `e`); a panic propagates -/
def bind : Res α → (α → Unstructured → Res β) → Res β
  | .ok a u, f => f a u
  | .err e u, _ => .err e u
  | .panic, _ => .panic
/-- sequencing of an operation that does not touch `u` but can panic (`none` = panic, the convention of
`PP/Core/Iter.lean`) -/
def bindPanic : Option α → (α → Res β) → Res β
  | some a, f => f a
  | none, _ => .panic
end Res

/-- the trait `arbitrary::Arbitrary<'a>`, method `arbitrary(u: &mut Unstructured<'a>) -> Result<Self>`
(lib.rs:207); the other methods (`arbitrary_take_rest`, `size_hint`) are not used by the crate under
verification -/
class ArbitraryT (α : Type) where
  arbitrary : Unstructured → Res α

/-! ## raw bytes, integers, `bool`, `f64` -/

/-- `Unstructured::fill_buffer(&mut self, buffer)` for a buffer of `n` bytes (unstructured.rs:577-585):
copies `min(n, data.len())` bytes, fills the rest of the buffer with zeros, advances `data` by what was
copied, and returns `Ok(())` always — exhausted input is **not** an error -/
def fillBuffer : Nat → Unstructured → List Nat × Unstructured
  | 0, u => ([], u)
  | n + 1, [] => let r := fillBuffer n []; (0 :: r.1, r.2)
  | n + 1, b :: u => let r := fillBuffer n u; (b % 256 :: r.1, r.2)

/-- `uN::from_le_bytes(buf)`: the first byte is the least significant -/
def fromLeBytes : List Nat → Nat
  | [] => 0
  | b :: bs => b + 256 * fromLeBytes bs

/-- the value and the remaining input of `<uN as Arbitrary>::arbitrary` for `N = 8·size`
(foreign/core/num.rs:12-31: `let mut buf = [0; size_of::<uN>()]; u.fill_buffer(&mut buf)?;
Ok(uN::from_le_bytes(buf))`) -/
def uintLE (size : Nat) (u : Unstructured) : Nat × Unstructured :=
  let r := fillBuffer size u
  (fromLeBytes r.1, r.2)

/-- `<uN as Arbitrary>::arbitrary` (`u8`: size 1, …, `u64`: size 8): never fails, since `fill_buffer`
never does -/
def arbitraryUInt (size : Nat) (u : Unstructured) : Res Nat :=
  let r := uintLE size u
  .ok r.1 r.2

/-- `<bool as Arbitrary>::arbitrary` (foreign/core/bool.rs:4-8, fn at line 5):
`Ok(<u8 as Arbitrary>::arbitrary(u)? & 1 == 1)` — the low bit of one byte; `false`, not an error, on
exhausted input -/
def arbitraryBool (u : Unstructured) : Res Bool :=
  (arbitraryUInt 1 u).bind fun b u => .ok (b % 2 == 1) u

instance : ArbitraryT Bool := ⟨arbitraryBool⟩

/-- the inherent methods of `f64` that the `Arbitrary` code uses and that are not in `FloatLike`
(they look at the representation): `F` is an interpretation of `f64` -/
class StdF64 (F : Type) where
  /-- `f64::from_bits(n)` for a `u64` `n` -/
  fromBits : Nat → F
  /-- `f64::is_normal(self)`: "Returns `true` if the number is neither zero, infinite, subnormal, or NaN" -/
  isNormal : F → Bool

/-- `<f64 as Arbitrary>::arbitrary` (foreign/core/num.rs:71-91, `f64: u64`):
`Ok(Self::from_bits(<u64 as Arbitrary>::arbitrary(u)?))` -/
instance instF64 {F : Type} [StdF64 F] : ArbitraryT F where
  arbitrary := fun u => (arbitraryUInt 8 u).bind fun n u => .ok (StdF64.fromBits n) u

/-! ## `Vec<A>` and `[A; N]` -/
section containers
variable {A B : Type}

/-- `u.arbitrary_iter::<A>()?.collect::<Result<Vec<A>>>()`.  `arbitrary_iter` (unstructured.rs:662) is
`Ok(ArbitraryIter { u })`; `ArbitraryIter::next` (unstructured.rs:776-783) is
`let keep_going = self.u.arbitrary().unwrap_or(false);
 if keep_going { Some(Arbitrary::arbitrary(self.u)) } else { None }`;
collecting an iterator of `Result`s into a `Result<Vec<_>>` takes items up to the first `Err`, which it
returns.  Every pass consumes the byte of the `bool` (or finds the input empty and stops), so at most
`u.length + 1` passes happen; `fuel` is that bound, and running out of it has no defined result
(`panic`; `PP/Props/Tie3.lean` proves it unreachable for the element types used). -/
def arbitraryIter [ArbitraryT A] : Nat → Unstructured → Res (List A)
  | 0, _ => .panic
  | fuel + 1, u =>
    match arbitraryBool u with
    | .ok true u =>
      (ArbitraryT.arbitrary (α := A) u).bind fun a u =>
      (arbitraryIter fuel u).bind fun as u =>
      .ok (a :: as) u
    | .ok false u => .ok [] u
    | .err _ u => .ok [] u
    | .panic => .panic

/-- `<Vec<A> as Arbitrary>::arbitrary` (foreign/alloc/vec.rs:10-12): `u.arbitrary_iter()?.collect()` -/
instance instVec [ArbitraryT A] : ArbitraryT (List A) where
  arbitrary := fun u => arbitraryIter (u.length + 1) u

/-! `<[A; N] as Arbitrary>::arbitrary` (foreign/core/array.rs:53-55):
`try_create_array(|_| <A as Arbitrary>::arbitrary(u))`, which calls the closure for the indices
`0, 1, …, N-1` in this order and returns the first `Err` (array.rs:27-46).  `[A; N]` is `ArrN A`. -/
instance instArr1 [ArbitraryT A] : ArbitraryT (Arr1 A) where
  arbitrary := fun u =>
    (ArbitraryT.arbitrary (α := A) u).bind fun a0 u =>
    .ok ⟨a0⟩ u
instance instArr2 [ArbitraryT A] : ArbitraryT (Arr2 A) where
  arbitrary := fun u =>
    (ArbitraryT.arbitrary (α := A) u).bind fun a0 u =>
    (ArbitraryT.arbitrary (α := A) u).bind fun a1 u =>
    .ok ⟨a0, a1⟩ u
instance instArr3 [ArbitraryT A] : ArbitraryT (Arr3 A) where
  arbitrary := fun u =>
    (ArbitraryT.arbitrary (α := A) u).bind fun a0 u =>
    (ArbitraryT.arbitrary (α := A) u).bind fun a1 u =>
    (ArbitraryT.arbitrary (α := A) u).bind fun a2 u =>
    .ok ⟨a0, a1, a2⟩ u
instance instArr4 [ArbitraryT A] : ArbitraryT (Arr4 A) where
  arbitrary := fun u =>
    (ArbitraryT.arbitrary (α := A) u).bind fun a0 u =>
    (ArbitraryT.arbitrary (α := A) u).bind fun a1 u =>
    (ArbitraryT.arbitrary (α := A) u).bind fun a2 u =>
    (ArbitraryT.arbitrary (α := A) u).bind fun a3 u =>
    .ok ⟨a0, a1, a2, a3⟩ u
instance instArr5 [ArbitraryT A] : ArbitraryT (Arr5 A) where
  arbitrary := fun u =>
    (ArbitraryT.arbitrary (α := A) u).bind fun a0 u =>
    (ArbitraryT.arbitrary (α := A) u).bind fun a1 u =>
    (ArbitraryT.arbitrary (α := A) u).bind fun a2 u =>
    (ArbitraryT.arbitrary (α := A) u).bind fun a3 u =>
    (ArbitraryT.arbitrary (α := A) u).bind fun a4 u =>
    .ok ⟨a0, a1, a2, a3, a4⟩ u
instance instArr6 [ArbitraryT A] : ArbitraryT (Arr6 A) where
  arbitrary := fun u =>
    (ArbitraryT.arbitrary (α := A) u).bind fun a0 u =>
    (ArbitraryT.arbitrary (α := A) u).bind fun a1 u =>
    (ArbitraryT.arbitrary (α := A) u).bind fun a2 u =>
    (ArbitraryT.arbitrary (α := A) u).bind fun a3 u =>
    (ArbitraryT.arbitrary (α := A) u).bind fun a4 u =>
    (ArbitraryT.arbitrary (α := A) u).bind fun a5 u =>
    .ok ⟨a0, a1, a2, a3, a4, a5⟩ u
instance instArr7 [ArbitraryT A] : ArbitraryT (Arr7 A) where
  arbitrary := fun u =>
    (ArbitraryT.arbitrary (α := A) u).bind fun a0 u =>
    (ArbitraryT.arbitrary (α := A) u).bind fun a1 u =>
    (ArbitraryT.arbitrary (α := A) u).bind fun a2 u =>
    (ArbitraryT.arbitrary (α := A) u).bind fun a3 u =>
    (ArbitraryT.arbitrary (α := A) u).bind fun a4 u =>
    (ArbitraryT.arbitrary (α := A) u).bind fun a5 u =>
    (ArbitraryT.arbitrary (α := A) u).bind fun a6 u =>
    .ok ⟨a0, a1, a2, a3, a4, a5, a6⟩ u
instance instArr8 [ArbitraryT A] : ArbitraryT (Arr8 A) where
  arbitrary := fun u =>
    (ArbitraryT.arbitrary (α := A) u).bind fun a0 u =>
    (ArbitraryT.arbitrary (α := A) u).bind fun a1 u =>
    (ArbitraryT.arbitrary (α := A) u).bind fun a2 u =>
    (ArbitraryT.arbitrary (α := A) u).bind fun a3 u =>
    (ArbitraryT.arbitrary (α := A) u).bind fun a4 u =>
    (ArbitraryT.arbitrary (α := A) u).bind fun a5 u =>
    (ArbitraryT.arbitrary (α := A) u).bind fun a6 u =>
    (ArbitraryT.arbitrary (α := A) u).bind fun a7 u =>
    .ok ⟨a0, a1, a2, a3, a4, a5, a6, a7⟩ u
instance instArr9 [ArbitraryT A] : ArbitraryT (Arr9 A) where
  arbitrary := fun u =>
    (ArbitraryT.arbitrary (α := A) u).bind fun a0 u =>
    (ArbitraryT.arbitrary (α := A) u).bind fun a1 u =>
    (ArbitraryT.arbitrary (α := A) u).bind fun a2 u =>
    (ArbitraryT.arbitrary (α := A) u).bind fun a3 u =>
    (ArbitraryT.arbitrary (α := A) u).bind fun a4 u =>
    (ArbitraryT.arbitrary (α := A) u).bind fun a5 u =>
    (ArbitraryT.arbitrary (α := A) u).bind fun a6 u =>
    (ArbitraryT.arbitrary (α := A) u).bind fun a7 u =>
    (ArbitraryT.arbitrary (α := A) u).bind fun a8 u =>
    .ok ⟨a0, a1, a2, a3, a4, a5, a6, a7, a8⟩ u
instance instArr10 [ArbitraryT A] : ArbitraryT (Arr10 A) where
  arbitrary := fun u =>
    (ArbitraryT.arbitrary (α := A) u).bind fun a0 u =>
    (ArbitraryT.arbitrary (α := A) u).bind fun a1 u =>
    (ArbitraryT.arbitrary (α := A) u).bind fun a2 u =>
    (ArbitraryT.arbitrary (α := A) u).bind fun a3 u =>
    (ArbitraryT.arbitrary (α := A) u).bind fun a4 u =>
    (ArbitraryT.arbitrary (α := A) u).bind fun a5 u =>
    (ArbitraryT.arbitrary (α := A) u).bind fun a6 u =>
    (ArbitraryT.arbitrary (α := A) u).bind fun a7 u =>
    (ArbitraryT.arbitrary (α := A) u).bind fun a8 u =>
    (ArbitraryT.arbitrary (α := A) u).bind fun a9 u =>
    .ok ⟨a0, a1, a2, a3, a4, a5, a6, a7, a8, a9⟩ u
instance instArr11 [ArbitraryT A] : ArbitraryT (Arr11 A) where
  arbitrary := fun u =>
    (ArbitraryT.arbitrary (α := A) u).bind fun a0 u =>
    (ArbitraryT.arbitrary (α := A) u).bind fun a1 u =>
    (ArbitraryT.arbitrary (α := A) u).bind fun a2 u =>
    (ArbitraryT.arbitrary (α := A) u).bind fun a3 u =>
    (ArbitraryT.arbitrary (α := A) u).bind fun a4 u =>
    (ArbitraryT.arbitrary (α := A) u).bind fun a5 u =>
    (ArbitraryT.arbitrary (α := A) u).bind fun a6 u =>
    (ArbitraryT.arbitrary (α := A) u).bind fun a7 u =>
    (ArbitraryT.arbitrary (α := A) u).bind fun a8 u =>
    (ArbitraryT.arbitrary (α := A) u).bind fun a9 u =>
    (ArbitraryT.arbitrary (α := A) u).bind fun a10 u =>
    .ok ⟨a0, a1, a2, a3, a4, a5, a6, a7, a8, a9, a10⟩ u
instance instArr12 [ArbitraryT A] : ArbitraryT (Arr12 A) where
  arbitrary := fun u =>
    (ArbitraryT.arbitrary (α := A) u).bind fun a0 u =>
    (ArbitraryT.arbitrary (α := A) u).bind fun a1 u =>
    (ArbitraryT.arbitrary (α := A) u).bind fun a2 u =>
    (ArbitraryT.arbitrary (α := A) u).bind fun a3 u =>
    (ArbitraryT.arbitrary (α := A) u).bind fun a4 u =>
    (ArbitraryT.arbitrary (α := A) u).bind fun a5 u =>
    (ArbitraryT.arbitrary (α := A) u).bind fun a6 u =>
    (ArbitraryT.arbitrary (α := A) u).bind fun a7 u =>
    (ArbitraryT.arbitrary (α := A) u).bind fun a8 u =>
    (ArbitraryT.arbitrary (α := A) u).bind fun a9 u =>
    (ArbitraryT.arbitrary (α := A) u).bind fun a10 u =>
    (ArbitraryT.arbitrary (α := A) u).bind fun a11 u =>
    .ok ⟨a0, a1, a2, a3, a4, a5, a6, a7, a8, a9, a10, a11⟩ u
instance instArr13 [ArbitraryT A] : ArbitraryT (Arr13 A) where
  arbitrary := fun u =>
    (ArbitraryT.arbitrary (α := A) u).bind fun a0 u =>
    (ArbitraryT.arbitrary (α := A) u).bind fun a1 u =>
    (ArbitraryT.arbitrary (α := A) u).bind fun a2 u =>
    (ArbitraryT.arbitrary (α := A) u).bind fun a3 u =>
    (ArbitraryT.arbitrary (α := A) u).bind fun a4 u =>
    (ArbitraryT.arbitrary (α := A) u).bind fun a5 u =>
    (ArbitraryT.arbitrary (α := A) u).bind fun a6 u =>
    (ArbitraryT.arbitrary (α := A) u).bind fun a7 u =>
    (ArbitraryT.arbitrary (α := A) u).bind fun a8 u =>
    (ArbitraryT.arbitrary (α := A) u).bind fun a9 u =>
    (ArbitraryT.arbitrary (α := A) u).bind fun a10 u =>
    (ArbitraryT.arbitrary (α := A) u).bind fun a11 u =>
    (ArbitraryT.arbitrary (α := A) u).bind fun a12 u =>
    .ok ⟨a0, a1, a2, a3, a4, a5, a6, a7, a8, a9, a10, a11, a12⟩ u
instance instArr14 [ArbitraryT A] : ArbitraryT (Arr14 A) where
  arbitrary := fun u =>
    (ArbitraryT.arbitrary (α := A) u).bind fun a0 u =>
    (ArbitraryT.arbitrary (α := A) u).bind fun a1 u =>
    (ArbitraryT.arbitrary (α := A) u).bind fun a2 u =>
    (ArbitraryT.arbitrary (α := A) u).bind fun a3 u =>
    (ArbitraryT.arbitrary (α := A) u).bind fun a4 u =>
    (ArbitraryT.arbitrary (α := A) u).bind fun a5 u =>
    (ArbitraryT.arbitrary (α := A) u).bind fun a6 u =>
    (ArbitraryT.arbitrary (α := A) u).bind fun a7 u =>
    (ArbitraryT.arbitrary (α := A) u).bind fun a8 u =>
    (ArbitraryT.arbitrary (α := A) u).bind fun a9 u =>
    (ArbitraryT.arbitrary (α := A) u).bind fun a10 u =>
    (ArbitraryT.arbitrary (α := A) u).bind fun a11 u =>
    (ArbitraryT.arbitrary (α := A) u).bind fun a12 u =>
    (ArbitraryT.arbitrary (α := A) u).bind fun a13 u =>
    .ok ⟨a0, a1, a2, a3, a4, a5, a6, a7, a8, a9, a10, a11, a12, a13⟩ u
instance instArr15 [ArbitraryT A] : ArbitraryT (Arr15 A) where
  arbitrary := fun u =>
    (ArbitraryT.arbitrary (α := A) u).bind fun a0 u =>
    (ArbitraryT.arbitrary (α := A) u).bind fun a1 u =>
    (ArbitraryT.arbitrary (α := A) u).bind fun a2 u =>
    (ArbitraryT.arbitrary (α := A) u).bind fun a3 u =>
    (ArbitraryT.arbitrary (α := A) u).bind fun a4 u =>
    (ArbitraryT.arbitrary (α := A) u).bind fun a5 u =>
    (ArbitraryT.arbitrary (α := A) u).bind fun a6 u =>
    (ArbitraryT.arbitrary (α := A) u).bind fun a7 u =>
    (ArbitraryT.arbitrary (α := A) u).bind fun a8 u =>
    (ArbitraryT.arbitrary (α := A) u).bind fun a9 u =>
    (ArbitraryT.arbitrary (α := A) u).bind fun a10 u =>
    (ArbitraryT.arbitrary (α := A) u).bind fun a11 u =>
    (ArbitraryT.arbitrary (α := A) u).bind fun a12 u =>
    (ArbitraryT.arbitrary (α := A) u).bind fun a13 u =>
    (ArbitraryT.arbitrary (α := A) u).bind fun a14 u =>
    .ok ⟨a0, a1, a2, a3, a4, a5, a6, a7, a8, a9, a10, a11, a12, a13, a14⟩ u
instance instArr16 [ArbitraryT A] : ArbitraryT (Arr16 A) where
  arbitrary := fun u =>
    (ArbitraryT.arbitrary (α := A) u).bind fun a0 u =>
    (ArbitraryT.arbitrary (α := A) u).bind fun a1 u =>
    (ArbitraryT.arbitrary (α := A) u).bind fun a2 u =>
    (ArbitraryT.arbitrary (α := A) u).bind fun a3 u =>
    (ArbitraryT.arbitrary (α := A) u).bind fun a4 u =>
    (ArbitraryT.arbitrary (α := A) u).bind fun a5 u =>
    (ArbitraryT.arbitrary (α := A) u).bind fun a6 u =>
    (ArbitraryT.arbitrary (α := A) u).bind fun a7 u =>
    (ArbitraryT.arbitrary (α := A) u).bind fun a8 u =>
    (ArbitraryT.arbitrary (α := A) u).bind fun a9 u =>
    (ArbitraryT.arbitrary (α := A) u).bind fun a10 u =>
    (ArbitraryT.arbitrary (α := A) u).bind fun a11 u =>
    (ArbitraryT.arbitrary (α := A) u).bind fun a12 u =>
    (ArbitraryT.arbitrary (α := A) u).bind fun a13 u =>
    (ArbitraryT.arbitrary (α := A) u).bind fun a14 u =>
    (ArbitraryT.arbitrary (α := A) u).bind fun a15 u =>
    .ok ⟨a0, a1, a2, a3, a4, a5, a6, a7, a8, a9, a10, a11, a12, a13, a14, a15⟩ u

/-- `xs.into_iter().map(f).collect::<arbitrary::Result<Vec<B>>>()` where the closure `f` captures
`u: &mut Unstructured` and returns an `arbitrary::Result<B>`: `Iterator::map` is lazy and
`impl FromIterator<Result<B, E>> for Result<Vec<B>, E>` pulls the items one by one and stops at the first
`Err`, which becomes the result ("Takes each element in the Iterator: if it is an Err, no further elements
are taken, and the Err is returned").  So `f` runs on the elements in order, each call on the bytes the
previous one left, and not at all after the first `Err` (or panic). -/
def collectMap (xs : List A) (f : A → Unstructured → Res B) (u : Unstructured) : Res (List B) :=
  match xs with
  | [] => .ok [] u
  | a :: as =>
    (f a u).bind fun b u =>
    (collectMap as f u).bind fun bs u =>
    .ok (b :: bs) u

/-! ## `slice::sort_by` -/

/-- merging two runs, left run first on ties (stability); the comparator may panic (`none`) -/
def mergeBy (cmp : A → A → Option Ordering) : List A → List A → Option (List A)
  | [], ys => some ys
  | xs, [] => some xs
  | x :: xs, y :: ys =>
    match cmp x y with
    | none => none
    | some .gt => (mergeBy cmp (x :: xs) ys).map (y :: ·)
    | some _ => (mergeBy cmp xs (y :: ys)).map (x :: ·)

/-- `v.sort_by(compare)` with `compare: FnMut(&A, &A) -> Ordering`, the new contents of `v`.  std
documents: "This sort is stable (i.e., does not reorder equal elements)", "May panic if the implementation
of `compare` does not implement a total order, or if `compare` itself panics" — which pairs are compared,
and in which argument order, is unspecified (the implementation is driftsort, with insertion sort for short
slices).  The model is **one** stable sort, a top-down merge sort that splits like core Lean's
`List.mergeSort`, with a comparator that can panic (`none`); `compare x y = Greater` puts `y` first.
Whenever `compare` is defined and a total preorder on the elements of `v` (as `PP/Props/Tie3.lean` proves
at the call site), every stable sort gives the same list, so the choice of algorithm is immaterial. -/
def sortBy (l : List A) (cmp : A → A → Option Ordering) : Option (List A) :=
  match l with
  | [] => some []
  | [a] => some [a]
  | a :: b :: xs =>
    let h := (xs.length + 2 + 1) / 2
    Option.bind (sortBy ((a :: b :: xs).take h) cmp) fun s1 =>
    Option.bind (sortBy ((a :: b :: xs).drop h) cmp) fun s2 =>
    mergeBy cmp s1 s2
termination_by l.length
decreasing_by
  all_goals simp only [List.length_take, List.length_drop, List.length_cons]
  all_goals omega

end containers
end Arb

/-- `f64::is_normal` on the bit-exact `F64`: a finite value whose significand has its leading bit set
(`2^52 ≤ m`; zero and subnormals have `m < 2^52`), i.e. neither zero, subnormal, infinite nor NaN -/
@[simp] def F64.isNormal : F64 → Bool
  | .fin _ m _ => decide (2 ^ 52 ≤ m)
  | _ => false

instance : Arb.StdF64 F64 := ⟨F64.ofBits, F64.isNormal⟩
