import PP.Core.FloatLike
/-!
# `F64`: executable, bit-exact IEEE-754 binary64 (round-to-nearest-even), core Lean only

Values are kept decoded: `fin neg m e` denotes `(-1)^neg · m · 2^e` in canonical form
(`-1074 ≤ e ≤ 971`, `m < 2^53`, and `2^52 ≤ m` unless `e = -1074`; zero is `fin s 0 (-1074)`).
Every operation computes the exact rational result with `Nat`/`Int` and rounds once through
`roundPos` (the function whose standard-model property is proved in `PP/Lemmas/Round*.lean`).
`ofBits`/`toBits` are used only at the I/O boundary.  There is one NaN.

Tied to the hardware by the `softfloat` correspondence campaign (`/verif/rust/harness`).
-/

inductive F64 where
  | nan
  | inf (neg : Bool)
  | fin (neg : Bool) (m : Nat) (e : Int)
deriving DecidableEq, Repr, Inhabited

namespace F64

/-- floor(log2 (num/den)) for num, den > 0 -/
def floorLog2Ratio (num den : Nat) : Int :=
  let t : Int := (Nat.log2 num : Int) - (Nat.log2 den : Int)
  let ge : Bool := if t ≥ 0 then decide (den * 2 ^ t.toNat ≤ num) else decide (den ≤ num * 2 ^ (-t).toNat)
  if ge then t else t - 1

/-- scale so that value = n/d * 2^e -/
def scaleBy (num den : Nat) (e : Int) : Nat × Nat :=
  if e ≥ 0 then (num, den * 2 ^ e.toNat) else (num * 2 ^ (-e).toNat, den)

/-- round-to-nearest, ties-to-even of n/d to an integer -/
def rne (n d : Nat) : Nat :=
  let q := n / d
  let r := n % d
  if 2 * r > d then q + 1 else if 2 * r = d then q + q % 2 else q

/-- (significand, exponent) of the binary64 nearest to num/den > 0 (before overflow handling):
value ≈ significand · 2^exponent, significand ≤ 2^53 -/
def roundPos (num den : Nat) : Nat × Int :=
  let fl := floorLog2Ratio num den
  let e : Int := max (fl - 52) (-1074)
  let nd := scaleBy num den e
  (rne nd.1 nd.2, e)

def zero (neg : Bool) : F64 := fin neg 0 (-1074)

/-- carry (significand 2^53) and overflow to infinity -/
def pack (neg : Bool) (q : Nat) (e : Int) : F64 :=
  let (q, e) := if q = 2 ^ 53 then (2 ^ 52, e + 1) else (q, e)
  if e > 971 then inf neg else fin neg q e

/-- the binary64 nearest to (-1)^neg · num/den (den > 0) -/
def roundRatio (neg : Bool) (num den : Nat) : F64 :=
  if num = 0 then zero neg
  else
    let qe := roundPos num den
    pack neg qe.1 qe.2

/-- round the signed dyadic `z · 2^e`; an exact zero gets the sign `zeroNeg` -/
def roundDyadic (z : Int) (e : Int) (zeroNeg : Bool) : F64 :=
  if z = 0 then zero zeroNeg
  else
    let neg := decide (z < 0)
    let m := z.natAbs
    if e ≥ 0 then roundRatio neg (m * 2 ^ e.toNat) 1 else roundRatio neg m (2 ^ (-e).toNat)

def sInt (neg : Bool) (m : Nat) : Int := if neg then -(m : Int) else m

def add (a b : F64) : F64 :=
  match a, b with
  | nan, _ => nan
  | _, nan => nan
  | inf s, inf t => if s = t then inf s else nan
  | inf s, fin _ _ _ => inf s
  | fin _ _ _, inf t => inf t
  | fin s m e, fin t n f =>
    let g := min e f
    let z := sInt s m * (2 : Int) ^ (e - g).toNat + sInt t n * (2 : Int) ^ (f - g).toNat
    roundDyadic z g (m = 0 && n = 0 && s && t)

def neg (a : F64) : F64 :=
  match a with
  | nan => nan
  | inf s => inf (!s)
  | fin s m e => fin (!s) m e

def abs (a : F64) : F64 :=
  match a with
  | nan => nan
  | inf _ => inf false
  | fin _ m e => fin false m e

def sub (a b : F64) : F64 := add a (neg b)

def mul (a b : F64) : F64 :=
  match a, b with
  | nan, _ => nan
  | _, nan => nan
  | inf s, inf t => inf (s != t)
  | inf s, fin t n _ => if n = 0 then nan else inf (s != t)
  | fin s m _, inf t => if m = 0 then nan else inf (s != t)
  | fin s m e, fin t n f => roundDyadic (sInt (s != t) (m * n)) (e + f) (s != t)

def div (a b : F64) : F64 :=
  match a, b with
  | nan, _ => nan
  | _, nan => nan
  | inf _, inf _ => nan
  | inf s, fin t _ _ => inf (s != t)
  | fin s _ _, inf t => zero (s != t)
  | fin s m e, fin t n f =>
    if n = 0 then (if m = 0 then nan else inf (s != t))
    else if m = 0 then zero (s != t)
    else
      let k := e - f
      if k ≥ 0 then roundRatio (s != t) (m * 2 ^ k.toNat) n else roundRatio (s != t) m (n * 2 ^ (-k).toNat)

def fma (a b c : F64) : F64 :=
  match a, b, c with
  | nan, _, _ => nan
  | _, nan, _ => nan
  | _, _, nan => nan
  | inf s, inf t, inf r => if (s != t) = r then inf r else nan
  | inf s, inf t, fin _ _ _ => inf (s != t)
  | inf s, fin t n _, inf r => if n = 0 then nan else if (s != t) = r then inf r else nan
  | inf s, fin t n _, fin _ _ _ => if n = 0 then nan else inf (s != t)
  | fin s m _, inf t, inf r => if m = 0 then nan else if (s != t) = r then inf r else nan
  | fin s m _, inf t, fin _ _ _ => if m = 0 then nan else inf (s != t)
  | fin _ _ _, fin _ _ _, inf r => inf r
  | fin s m e, fin t n f, fin r p h =>
    let ps := s != t
    let pe := e + f
    let g := min pe h
    let z := sInt ps (m * n) * (2 : Int) ^ (pe - g).toNat + sInt r p * (2 : Int) ^ (h - g).toNat
    roundDyadic z g ((m * n = 0) && p = 0 && ps && r)

def isNaN (a : F64) : Bool := match a with | nan => true | _ => false
def isInf (a : F64) : Bool := match a with | inf _ => true | _ => false

/-- magnitude as the 63 low bits of the encoding: monotone in |value| on canonical values -/
def magBits (a : F64) : Nat :=
  match a with
  | nan => 2047 * 2 ^ 52 + 2 ^ 51
  | inf _ => 2047 * 2 ^ 52
  | fin _ m e => if m < 2 ^ 52 then m else (e + 1075).toNat * 2 ^ 52 + (m - 2 ^ 52)

def signBit (a : F64) : Bool := match a with | nan => false | inf s => s | fin s _ _ => s

/-- ordering key for non-NaN values (±0 ↦ 0) -/
def key (a : F64) : Int := if a.signBit then -(a.magBits : Int) else a.magBits

def lt (a b : F64) : Bool := !a.isNaN && !b.isNaN && decide (key a < key b)
def le (a b : F64) : Bool := !a.isNaN && !b.isNaN && decide (key a ≤ key b)
def feq (a b : F64) : Bool := !a.isNaN && !b.isNaN && decide (key a = key b)

/-- `f64::max`: a NaN operand is ignored; on (+0, -0) the first operand is returned -/
def max (a b : F64) : F64 := if a.isNaN then b else if b.isNaN then a else if lt a b then b else a

/-- correctly rounded decimal literal m · 10^e -/
def ofDec (m : Int) (e : Int) : F64 :=
  let neg := decide (m < 0)
  if e ≥ 0 then roundRatio neg (m.natAbs * 10 ^ e.toNat) 1 else roundRatio neg m.natAbs (10 ^ (-e).toNat)

def epsilon : F64 := fin false (2 ^ 52) (-104)

def toBits (a : F64) : Nat := a.magBits + (if a.signBit then 2 ^ 63 else 0)

def ofBits (n : Nat) : F64 :=
  let s := decide (n / 2 ^ 63 % 2 = 1)
  let ex : Nat := n / 2 ^ 52 % 2048
  let fr : Nat := n % 2 ^ 52
  if ex = 2047 then (if fr = 0 then inf s else nan)
  else if ex = 0 then fin s fr (-1074)
  else fin s (fr + 2 ^ 52) ((ex : Int) - 1075)

def hexDigit (c : Char) : Option Nat :=
  if '0' ≤ c ∧ c ≤ '9' then some (c.toNat - '0'.toNat)
  else if 'a' ≤ c ∧ c ≤ 'f' then some (c.toNat - 'a'.toNat + 10)
  else if 'A' ≤ c ∧ c ≤ 'F' then some (c.toNat - 'A'.toNat + 10)
  else none

def natOfHex? (s : String) : Option Nat :=
  if s.isEmpty then none else
  s.toList.foldl (fun acc c => match acc, hexDigit c with
    | some a, some d => some (a * 16 + d)
    | _, _ => none) (some 0)

def ofHex? (s : String) : Option F64 := (natOfHex? s).map ofBits

def natToHex (n : Nat) (width : Nat) : String :=
  String.ofList ((List.range width).reverse.map fun i =>
    let d := (n >>> (4 * i)) % 16
    Char.ofNat (if d < 10 then '0'.toNat + d else 'a'.toNat + d - 10))

def toHex (a : F64) : String := natToHex a.toBits 16

/-- the exact value as a rational, for monitors; `none` on NaN / infinities -/
def toRat? (a : F64) : Option Rat :=
  match a with
  | fin s m e =>
    let v : Rat := if e ≥ 0 then ((m * 2 ^ e.toNat : Nat) : Rat) else (m : Rat) / ((2 ^ (-e).toNat : Nat) : Rat)
    some (if s then -v else v)
  | _ => none

end F64

/-- `F64` as a `FloatLike`; libm's `ln`/`exp` are parameters -/
@[reducible] def F64.inst (ln exp : F64 → F64) : FloatLike F64 where
  add := F64.add
  sub := F64.sub
  mul := F64.mul
  div := F64.div
  neg := F64.neg
  abs := F64.abs
  fma := F64.fma
  max := F64.max
  ofDec := F64.ofDec
  epsilon := F64.epsilon
  lt := F64.lt
  le := F64.le
  feq := F64.feq
  isNaN := F64.isNaN
  isInf := F64.isInf
  ln := ln
  exp := exp
