import PP.Core.Arr
/-!
# Serialization models (C18), core Lean only

* `Tree F`: the serde *data model* as the derived `Serialize` impls drive it (newtype struct, struct with named
  fields, tuple, seq, f64).  `SerTree.ser` / `SerTree.de` are emitted per struct by the translator from the
  `struct` declarations and their derives; the harness records the same tree from the real `Serialize` impl with a
  recording `Serializer` and the driver compares them.
* `Borsh`: the borsh byte format (f64 = 8 little-endian bytes of the bit pattern, `[T; N]` = elements in order,
  `Vec<T>` = u32 little-endian length + elements, structs = fields in order).  Numbers are bit patterns (`Nat`).
-/

inductive Tree (F : Type) where
  | num (x : F)
  | tuple (l : List (Tree F))
  | seq (l : List (Tree F))
  | newtype (name : String) (t : Tree F)
  | struct (name : String) (fields : List (String × Tree F))

class SerTree (T : Type) (F : outParam Type) where
  ser : T → Tree F
  de : Tree F → Option T

namespace Tree
variable {F : Type}

def num? : Tree F → Option F
  | num x => some x
  | _ => none

def nums? (l : List (Tree F)) : Option (List F) := l.mapM num?

theorem nums?_map (l : List F) : nums? (l.map Tree.num) = some l := by
  induction l with
  | nil => rfl
  | cons a l ih =>
    simp only [nums?, List.map_cons, List.mapM_cons] at ih ⊢
    simp [num?, ih]

def asNewtype (name : String) : Tree F → Option (Tree F)
  | newtype n t => if n = name then some t else none
  | _ => none
def asStruct (name : String) (keys : List String) : Tree F → Option (List (Tree F))
  | struct n fs => if n = name ∧ fs.map (·.1) = keys then some (fs.map (·.2)) else none
  | _ => none
def asTuple : Tree F → Option (List (Tree F))
  | tuple l => some l
  | _ => none
def asSeq : Tree F → Option (List (Tree F))
  | seq l => some l
  | _ => none

@[simp] theorem asNewtype_newtype (n : String) (t : Tree F) : asNewtype n (newtype n t) = some t := by simp [asNewtype]
@[simp] theorem asStruct_struct (n : String) (keys : List String) (fs : List (String × Tree F)) (h : fs.map (·.1) = keys) :
    asStruct n keys (struct n fs) = some (fs.map (·.2)) := by simp [asStruct, h]
@[simp] theorem asTuple_tuple (l : List (Tree F)) : asTuple (tuple l) = some l := rfl
@[simp] theorem asSeq_seq (l : List (Tree F)) : asSeq (seq l) = some l := rfl

partial def render (f : F → String) : Tree F → String
  | num x => "F" ++ f x
  | tuple l => "T(" ++ ",".intercalate (l.map (render f)) ++ ")"
  | seq l => "Q(" ++ ",".intercalate (l.map (render f)) ++ ")"
  | newtype n t => "N(" ++ n ++ "," ++ render f t ++ ")"
  | struct n fs => "S(" ++ n ++ ";" ++ ";".intercalate (fs.map fun (k, v) => k ++ "=" ++ render f v) ++ ")"
end Tree

/-- decode every element of a seq / tuple -/
def deList {T F : Type} [SerTree T F] (l : List (Tree F)) : Option (List T) := l.mapM SerTree.de

theorem deList_map {T F : Type} [SerTree T F] (h : ∀ v : T, SerTree.de (SerTree.ser v) = some v) (l : List T) :
    deList (l.map SerTree.ser) = some l := by
  induction l with
  | nil => rfl
  | cons a l ih =>
    simp only [deList, List.map_cons, List.mapM_cons] at ih ⊢
    simp [h a, ih]

/-! ## borsh -/

class Borsh (T : Type) where
  enc : T → List Nat
  dec : List Nat → Option (T × List Nat)

namespace Borsh

/-- n little-endian bytes of v -/
def leBytes : Nat → Nat → List Nat
  | 0, _ => []
  | n + 1, v => v % 256 :: leBytes n (v / 256)

def leRead : Nat → List Nat → Option (Nat × List Nat)
  | 0, bs => some (0, bs)
  | _ + 1, [] => none
  | n + 1, b :: bs => (leRead n bs).map fun (v, rest) => (b + 256 * v, rest)

theorem leRead_leBytes (n v : Nat) (rest : List Nat) (h : v < 256 ^ n) :
    leRead n (leBytes n v ++ rest) = some (v, rest) := by
  induction n generalizing v with
  | zero => simp [leRead, leBytes] at h ⊢; omega
  | succ n ih =>
    have hv : v / 256 < 256 ^ n := by
      rw [Nat.div_lt_iff_lt_mul (by decide)]; rw [Nat.pow_succ] at h; exact h
    simp only [leBytes, List.cons_append, leRead, ih (v / 256) hv, Option.map_some]
    congr 2; omega

/-- f64: 8 bytes of the bit pattern -/
def encF (x : Nat) : List Nat := leBytes 8 x
def decF (bs : List Nat) : Option (Nat × List Nat) := leRead 8 bs

theorem decF_encF (x : Nat) (rest : List Nat) (h : x < 2 ^ 64) : decF (encF x ++ rest) = some (x, rest) :=
  leRead_leBytes 8 x rest (by simpa using h)

/-- a fixed number of floats in order (`[f64; N]`) -/
def encFs : List Nat → List Nat
  | [] => []
  | x :: xs => encF x ++ encFs xs
def decFs : Nat → List Nat → Option (List Nat × List Nat)
  | 0, bs => some ([], bs)
  | n + 1, bs => (decF bs).bind fun (x, r) => (decFs n r).map fun (xs, r') => (x :: xs, r')

theorem decFs_encFs (xs : List Nat) (rest : List Nat) (h : ∀ x ∈ xs, x < 2 ^ 64) :
    decFs xs.length (encFs xs ++ rest) = some (xs, rest) := by
  induction xs with
  | nil => rfl
  | cons x xs ih =>
    simp only [encFs, List.length_cons, decFs, List.append_assoc]
    rw [decF_encF x _ (h x (by simp))]
    simp [ih (fun y hy => h y (by simp [hy]))]

/-- `Vec<T>`: u32 length prefix -/
def encVec {T : Type} [Borsh T] (l : List T) : List Nat := leBytes 4 l.length ++ (l.map Borsh.enc).flatten
def decN {T : Type} [Borsh T] : Nat → List Nat → Option (List T × List Nat)
  | 0, bs => some ([], bs)
  | n + 1, bs => (Borsh.dec bs).bind fun (x, r) => (decN n r).map fun (xs, r') => (x :: xs, r')
def decVec {T : Type} [Borsh T] (bs : List Nat) : Option (List T × List Nat) :=
  (leRead 4 bs).bind fun (n, r) => decN n r

theorem decN_enc {T : Type} [Borsh T] (l : List T) (rest : List Nat)
    (h : ∀ v ∈ l, ∀ r, Borsh.dec (Borsh.enc v ++ r) = some (v, r)) :
    decN l.length ((l.map Borsh.enc).flatten ++ rest) = some (l, rest) := by
  induction l with
  | nil => rfl
  | cons a l ih =>
    simp only [List.map_cons, List.flatten_cons, List.length_cons, decN, List.append_assoc]
    rw [h a (by simp)]
    simp [ih (fun v hv => h v (by simp [hv]))]

theorem decVec_encVec {T : Type} [Borsh T] (l : List T) (rest : List Nat) (hlen : l.length < 2 ^ 32)
    (h : ∀ v ∈ l, ∀ r, Borsh.dec (Borsh.enc v ++ r) = some (v, r)) :
    decVec (encVec l ++ rest) = some (l, rest) := by
  simp only [decVec, encVec, List.append_assoc]
  rw [leRead_leBytes 4 l.length _ (by simpa using hlen)]
  simp [decN_enc l rest h]

def bytesToHex (bs : List Nat) : String :=
  String.ofList (bs.flatMap fun b =>
    let d (n : Nat) : Char := Char.ofNat (if n < 10 then '0'.toNat + n else 'a'.toNat + n - 10)
    [d (b / 16 % 16), d (b % 16)])
end Borsh
