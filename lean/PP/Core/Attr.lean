import Lean.Meta.Tactic.Simp.RegisterCommand
/-! simp set collecting every generated definition and instance of the model (proof files only) -/
register_simp_attr pp_model
