import PP.Core.Traits
/-!
# `PartialEq` (the crate's own `==`) and the default tolerances of the `approx` crate's `f64` impls

`class PEq T` stands for `T: PartialEq` (`eq` only; `ne` is its negation, nothing in the crate overrides it).  The
instances for the structs of the crate are GENERATED (`PP/Model/PartialEq.lean`, from `#[derive(PartialEq)]` /
`impl PartialEq`); here are the instances of the types of `core` / `alloc` that occur as field types:

* the number type: IEEE `==` (`FloatLike.feq`: `NaN ≠ NaN`, `-0 == +0`);
* `Vec<A>` / slices (`core::slice::cmp`, `impl PartialEq<[B]> for [A]`): equal length and element-wise — the very
  `listAll2` of the `approx` slice impls, over `==`;
* `[f64; N]` (`core::array::equality`): element-wise.

Core Lean only (no Mathlib): linked into the `ppdrv` executable.
-/

/-- `T: PartialEq`; `peq a b` is `a == b` -/
class PEq (T : Type) where
  peq : T → T → Bool

/-- `f64 == f64` -/
instance instPEqFloat {F : Type} [FloatLike F] : PEq F := ⟨FloatLike.feq⟩

/-- `Vec<A> == Vec<A>`, `[A] == [A]`: equal length and element-wise -/
instance instPEqList {A : Type} [PEq A] : PEq (List A) := ⟨listAll2 PEq.peq⟩

/-! `[f64; N] == [f64; N]`: lane-wise (same length always). -/
section arrays
variable {F : Type} [PEq F]
instance instPEqArr1 : PEq (Arr1 F) := ⟨fun a b => PEq.peq a.toList b.toList⟩
instance instPEqArr2 : PEq (Arr2 F) := ⟨fun a b => PEq.peq a.toList b.toList⟩
instance instPEqArr3 : PEq (Arr3 F) := ⟨fun a b => PEq.peq a.toList b.toList⟩
instance instPEqArr4 : PEq (Arr4 F) := ⟨fun a b => PEq.peq a.toList b.toList⟩
instance instPEqArr5 : PEq (Arr5 F) := ⟨fun a b => PEq.peq a.toList b.toList⟩
instance instPEqArr6 : PEq (Arr6 F) := ⟨fun a b => PEq.peq a.toList b.toList⟩
instance instPEqArr7 : PEq (Arr7 F) := ⟨fun a b => PEq.peq a.toList b.toList⟩
instance instPEqArr8 : PEq (Arr8 F) := ⟨fun a b => PEq.peq a.toList b.toList⟩
instance instPEqArr9 : PEq (Arr9 F) := ⟨fun a b => PEq.peq a.toList b.toList⟩
instance instPEqArr10 : PEq (Arr10 F) := ⟨fun a b => PEq.peq a.toList b.toList⟩
instance instPEqArr11 : PEq (Arr11 F) := ⟨fun a b => PEq.peq a.toList b.toList⟩
instance instPEqArr12 : PEq (Arr12 F) := ⟨fun a b => PEq.peq a.toList b.toList⟩
instance instPEqArr13 : PEq (Arr13 F) := ⟨fun a b => PEq.peq a.toList b.toList⟩
instance instPEqArr14 : PEq (Arr14 F) := ⟨fun a b => PEq.peq a.toList b.toList⟩
instance instPEqArr15 : PEq (Arr15 F) := ⟨fun a b => PEq.peq a.toList b.toList⟩
instance instPEqArr16 : PEq (Arr16 F) := ⟨fun a b => PEq.peq a.toList b.toList⟩
end arrays

section approx_defaults
/-! Hand models of `<f64 as AbsDiffEq>::default_epsilon()` (approx-0.5.1 `abs_diff_eq.rs:85`,
`impl_signed_abs_diff_eq!(f64, core::f64::EPSILON)`) and `<f64 as RelativeEq>::default_max_relative()`
(`relative_eq.rs:40`, `$T::EPSILON`); the `&T` impls delegate to `T`. -/
variable {F : Type} [FloatLike F]
def f64DefaultEpsilon : F := FloatLike.epsilon
def f64DefaultMaxRelative : F := FloatLike.epsilon
end approx_defaults
