import PP.Core.FloatLike
/-!
# Rust iterator / slice / `Option` / `usize` idioms as list functions

Hand-written, core Lean only (linked into `ppdrv`).  The translator emits calls to these names for the
loop code of `/repo/src` (files `PP/Model/**/Loops.lean`); each definition states the *documented*
behaviour of the std item named in its doc comment.  Conventions:

* a `Vec<A>`, a slice `&[A]` and every iterator over `A` are a `List A` (an iterator is the list of the
  items it still has to yield; adaptors are lazy in Rust, but the closures they are given here are pure
  apart from the state they own, so the list of results is the same);
* `usize` is `Nat`; `a - b` is checked (`usub`), `a + b` is **not** bounded (indices of a `Vec` cannot
  overflow a `usize`);
* an operation that can panic returns `Option` (`none` = panic); the generated code threads it with
  `Option.bind`;
* the data argument comes first and the closure last, so that Lean knows the element type when it
  elaborates the closure.
-/
namespace Iter
variable {A B S : Type}

/-- `assert!(c)` -/
def assert (c : Bool) : Option Unit := if c then some () else none

/-- `v.len()` -/
@[reducible] def len (l : List A) : Nat := l.length
/-- `v.is_empty()` -/
@[reducible] def isEmpty (l : List A) : Bool := l.isEmpty
/-- `a - b` on `usize`: underflow panics (debug) or wraps (release); neither is a defined result -/
def usub (a b : Nat) : Option Nat := if b ≤ a then some (a - b) else none
/-- `v[i]` -/
@[reducible] def index (l : List A) (i : Nat) : Option A := l[i]?
/-- `&v[n..]` (panics iff `n > len`) -/
def sliceFrom (l : List A) (n : Nat) : Option (List A) := if n ≤ l.length then some (l.drop n) else none
/-- `&v[..n]` (panics iff `n > len`) -/
def sliceTo (l : List A) (n : Nat) : Option (List A) := if n ≤ l.length then some (l.take n) else none
/-- `v.first()` -/
@[reducible] def first (l : List A) : Option A := l.head?
/-- `v.last()` -/
@[reducible] def last (l : List A) : Option A := l.getLast?
/-- `it.next()`: the item and the advanced iterator -/
@[reducible] def next (l : List A) : Option A × List A := (l.head?, l.tail)
/-- `v.push(a)` -/
@[reducible] def push (l : List A) (a : A) : List A := l ++ [a]
/-- `*v.get_mut(i).unwrap() = a` (only emitted under a successful `get_mut(i)`) -/
@[reducible] def set (l : List A) (i : Nat) (a : A) : List A := l.set i a
/-- `it.map(f)`, `for x in &mut v { … }` -/
@[reducible] def map (l : List A) (f : A → B) : List B := l.map f
/-- `it.rev()` -/
@[reducible] def rev (l : List A) : List A := l.reverse
/-- `it.fold(init, f)` -/
@[reducible] def fold (l : List A) (init : B) (f : B → A → B) : B := l.foldl f init
/-- `iter::once(a)` -/
@[reducible] def once (a : A) : List A := [a]
/-- `it.chain(other)` -/
@[reducible] def chain (l r : List A) : List A := l ++ r
/-- `it.zip(other)` -/
@[reducible] def zip (l : List A) (r : List B) : List (A × B) := List.zip l r
/-- `it.skip(n)` -/
@[reducible] def skip (l : List A) (n : Nat) : List A := l.drop n
/-- `opt.map_or(d, f)` (`d` is evaluated eagerly, as in Rust) -/
@[reducible] def mapOr (o : Option A) (d : B) (f : A → B) : B :=
  match o with
  | none => d
  | some a => f a

/-- `it.position(p)` -/
def position : List A → (A → Bool) → Option Nat
  | [], _ => none
  | a :: as, p => if p a then some 0 else (position as p).map (· + 1)

/-- `it.map(|a| …)` whose closure owns (or mutably borrows) one variable `s`:
`f s a = (item, new s)`; the state after the last item is dropped with the closure -/
def mapAccum : List A → S → (S → A → B × S) → List B
  | [], _, _ => []
  | a :: as, s, f => let r := f s a; r.1 :: mapAccum as r.2 f

/-- `it.map(f)` with a closure that can panic -/
def mapM : List A → (A → Option B) → Option (List B)
  | [], _ => some []
  | a :: as, f => Option.bind (f a) fun b => Option.bind (mapM as f) fun bs => some (b :: bs)

/-- `mapAccum` with a closure that can panic -/
def mapAccumM : List A → S → (S → A → Option (B × S)) → Option (List B)
  | [], _, _ => some []
  | a :: as, s, f =>
    Option.bind (f s a) fun r => Option.bind (mapAccumM as r.2 f) fun bs => some (r.1 :: bs)

/-! ## second round: the idioms of `PiecewiseEvaluator` and of the `+` / `-` merge loops

`Ordering::{Less, Equal, Greater}` of `std::cmp` is core Lean's `Ordering.{lt, eq, gt}`.  Slices that
borrow from one backing vector are independent lists (they are only read). -/

/-- `a.saturating_sub(b)` on `usize`: `a - b`, or `0` if `b > a` (never panics) -/
@[reducible] def saturatingSub (a b : Nat) : Nat := a - b
/-- `a.min(b)` on `usize` (`Ord::min`) -/
@[reducible] def umin (a b : Nat) : Nat := Min.min a b
/-- `Vec::with_capacity(n)`: an empty vector; the capacity is not observable (the computation of `n`
can panic and is threaded by the caller before this call) -/
@[reducible] def withCapacity (_n : Nat) : List A := []
/-- `v.split_first()`: `Some((&v[0], &v[1..]))`, `None` if `v` is empty -/
def splitFirst : List A → Option (A × List A)
  | [] => none
  | a :: as => some (a, as)
/-- `v.split_last()`: `Some((&v[len-1], &v[..len-1]))`, `None` if `v` is empty -/
def splitLast : List A → Option (A × List A)
  | [] => none
  | a :: as => some ((a :: as).getLast (List.cons_ne_nil a as), (a :: as).dropLast)
/-- `v.split_at_checked(n)`: `Some((&v[..n], &v[n..]))` if `n <= len`, `None` otherwise -/
def splitAtChecked (l : List A) (n : Nat) : Option (List A × List A) :=
  if n ≤ l.length then some (l.take n, l.drop n) else none
/-- `it.enumerate()` started at index `n` -/
def enumFrom : Nat → List A → List (Nat × A)
  | _, [] => []
  | n, a :: as => (n, a) :: enumFrom (n + 1) as
/-- `it.enumerate()`: the items paired with their index, `(0, a0), (1, a1), …` -/
@[reducible] def enumerate (l : List A) : List (Nat × A) := enumFrom 0 l
/-- `it.find_map(f)`: the first `Some` that `f` returns, `None` if there is none
(`f` is not applied to the items after it, and `f` is pure here) -/
def findMap : List A → (A → Option B) → Option B
  | [], _ => none
  | a :: as, f => match f a with
    | some b => some b
    | none => findMap as f
/-- `it.all(p)`: "Tests if every element of the iterator matches a predicate"; `true` on the empty
iterator; it stops at the first `false`, which is not observable for a pure `p` -/
@[reducible] def all (l : List A) (p : A → Bool) : Bool := l.all p
/-- `opt.unwrap_or(d)` (`d` is evaluated eagerly, as in Rust) -/
@[reducible] def unwrapOr (o : Option A) (d : A) : A :=
  match o with
  | none => d
  | some a => a
/-- `opt.map(f)` -/
@[reducible] def optMap (o : Option A) (f : A → B) : Option B :=
  match o with
  | none => none
  | some a => some (f a)
/-- `a.partial_cmp(&b)` on `f64`: `None` iff one side is NaN, otherwise `Less` / `Greater` / `Equal`
according to `a < b` / `b < a` / neither -/
def partialCmp {F : Type} [FloatLike F] (a b : F) : Option Ordering :=
  if FloatLike.isNaN a || FloatLike.isNaN b then none
  else if FloatLike.lt a b then some .lt else if FloatLike.lt b a then some .gt else some .eq

/-- what one pass through the body of a `loop { … }` does: `break` (with the value of the loop and the
variables the loop assigns) or fall through to the next iteration (with those variables) -/
inductive Flow (R S : Type) where
  | brk (r : R)
  | next (s : S)

/-- `loop { body }` whose termination is not structural: `step s` is one pass through the body from
the state `s` (`none` = panic).  Lean needs a bound: `fuel` passes at most, and running out of fuel is
`none` as well (the caller proves that this does not happen). -/
def loopFuel {R : Type} : Nat → S → (S → Option (Flow R S)) → Option R
  | 0, _, _ => none
  | fuel + 1, s, step =>
    Option.bind (step s) fun r =>
    match r with
    | .brk r => some r
    | .next s' => loopFuel fuel s' step

/-- `loop { let Some((first, tail)) = P.split_first() else { break e }; body; P = tail; }` where `body`
does not assign to the variable `P` lives in: structural recursion on the slice `P`.  `s` = the
variables the loop assigns, `onEmpty s` = the `break` of the `else`, `step s first tail` = `body; P = tail`. -/
def loopSplitFirst {R : Type} : List A → S → (S → R) → (S → A → List A → Flow R S) → R
  | [], s, onEmpty, _ => onEmpty s
  | a :: as, s, onEmpty, step =>
    match step s a as with
    | .brk r => r
    | .next s' => loopSplitFirst as s' onEmpty step

end Iter
