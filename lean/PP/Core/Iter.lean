/-!
# Rust iterator / slice / `Option` / `usize` idioms as list functions

Hand-written, core Lean only (linked into `ppdrv`).  The translator emits calls to these names for the
loop code of `/repo/src` (files `PP/Model/**/Loops.lean`); each definition states the *documented*
behaviour of the std item named in its doc comment.  Conventions:

* a `Vec<A>`, a slice `&[A]` and every iterator over `A` are a `List A` (an iterator is the list of the
  items it still has to yield; adaptors are lazy in Rust, but the closures they are given here are pure
  apart from the state they own, so the list of results is the same);
* `usize` is `Nat`; `a - b` is checked (`usub`), `a + b` is **not** bounded (indices of a `Vec` cannot
  overflow a `usize`);
* an operation that can panic returns `Option` (`none` = panic); the generated code threads it with
  `Option.bind`;
* the data argument comes first and the closure last, so that Lean knows the element type when it
  elaborates the closure.
-/
namespace Iter
variable {A B S : Type}

/-- `assert!(c)` -/
def assert (c : Bool) : Option Unit := if c then some () else none

/-- `v.len()` -/
@[reducible] def len (l : List A) : Nat := l.length
/-- `v.is_empty()` -/
@[reducible] def isEmpty (l : List A) : Bool := l.isEmpty
/-- `a - b` on `usize`: underflow panics (debug) or wraps (release); neither is a defined result -/
def usub (a b : Nat) : Option Nat := if b ≤ a then some (a - b) else none
/-- `v[i]` -/
@[reducible] def index (l : List A) (i : Nat) : Option A := l[i]?
/-- `&v[n..]` (panics iff `n > len`) -/
def sliceFrom (l : List A) (n : Nat) : Option (List A) := if n ≤ l.length then some (l.drop n) else none
/-- `&v[..n]` (panics iff `n > len`) -/
def sliceTo (l : List A) (n : Nat) : Option (List A) := if n ≤ l.length then some (l.take n) else none
/-- `v.first()` -/
@[reducible] def first (l : List A) : Option A := l.head?
/-- `v.last()` -/
@[reducible] def last (l : List A) : Option A := l.getLast?
/-- `it.next()`: the item and the advanced iterator -/
@[reducible] def next (l : List A) : Option A × List A := (l.head?, l.tail)
/-- `v.push(a)` -/
@[reducible] def push (l : List A) (a : A) : List A := l ++ [a]
/-- `*v.get_mut(i).unwrap() = a` (only emitted under a successful `get_mut(i)`) -/
@[reducible] def set (l : List A) (i : Nat) (a : A) : List A := l.set i a
/-- `it.map(f)`, `for x in &mut v { … }` -/
@[reducible] def map (l : List A) (f : A → B) : List B := l.map f
/-- `it.rev()` -/
@[reducible] def rev (l : List A) : List A := l.reverse
/-- `it.fold(init, f)` -/
@[reducible] def fold (l : List A) (init : B) (f : B → A → B) : B := l.foldl f init
/-- `iter::once(a)` -/
@[reducible] def once (a : A) : List A := [a]
/-- `it.chain(other)` -/
@[reducible] def chain (l r : List A) : List A := l ++ r
/-- `it.zip(other)` -/
@[reducible] def zip (l : List A) (r : List B) : List (A × B) := List.zip l r
/-- `it.skip(n)` -/
@[reducible] def skip (l : List A) (n : Nat) : List A := l.drop n
/-- `opt.map_or(d, f)` (`d` is evaluated eagerly, as in Rust) -/
@[reducible] def mapOr (o : Option A) (d : B) (f : A → B) : B :=
  match o with
  | none => d
  | some a => f a

/-- `it.position(p)` -/
def position : List A → (A → Bool) → Option Nat
  | [], _ => none
  | a :: as, p => if p a then some 0 else (position as p).map (· + 1)

/-- `it.map(|a| …)` whose closure owns (or mutably borrows) one variable `s`:
`f s a = (item, new s)`; the state after the last item is dropped with the closure -/
def mapAccum : List A → S → (S → A → B × S) → List B
  | [], _, _ => []
  | a :: as, s, f => let r := f s a; r.1 :: mapAccum as r.2 f

/-- `it.map(f)` with a closure that can panic -/
def mapM : List A → (A → Option B) → Option (List B)
  | [], _ => some []
  | a :: as, f => Option.bind (f a) fun b => Option.bind (mapM as f) fun bs => some (b :: bs)

/-- `mapAccum` with a closure that can panic -/
def mapAccumM : List A → S → (S → A → Option (B × S)) → Option (List B)
  | [], _, _ => some []
  | a :: as, s, f =>
    Option.bind (f s a) fun r => Option.bind (mapAccumM as r.2 f) fun bs => some (r.1 :: bs)

end Iter
